import QRV.Lemmas.NewDP
import QRV.Lemmas.CalcVersion
/-
C04Ext finding: without a bound on the payload length `Model.QR.new` (kanji disabled) PANICS.
For a payload of `n ≥ inf / 20` bytes every cost of the last row of the non-kanji programme is the
cap `inf`, the back-tracking reads predecessor 0 from there on, so the first segment of the result
has mode `modeList[0] = 0`; `calcVersion` asks for its length in version 1 and `Segment.length`
panics on the unknown mode.  (About 4.6e17 bytes: not evaluable, proved symbolically.)
-/
namespace QRV.Lemmas.NewQRPanic
open QRV QRV.Model QRV.Model.Sym QRV.Model.New QRV.Model.Codec QRV.Lemmas.NewDP

/-- column 0 never gets a predecessor -/
def Z3 (n : Nat) (S : Array (Array St)) : Prop := ∀ k, k ≤ n → (g3 S k 0).lastMode = 0

theorem z3_init (n : Nat) : Z3 n (init3 n) := by
  intro k hk
  have hrow : (Array.replicate (n + 1) (Array.replicate 4 ({} : St)))[k]! = Array.replicate 4 ({} : St) := by
    rw [getElem!_pos _ _ (by simp; omega)]; simp
  unfold init3
  rw [g3_modify]
  split
  · rw [hrow]
    simp only [get!_set!]
    simp
  · unfold g3
    rw [hrow, getElem!_pos _ _ (by simp)]
    simp

theorem z3_step (hN hA hB : Nat) (data : Array Nat) (i : Nat) (S : Array (Array St)) (hi : i < data.size)
    (h : Inv3 hB data i S) (hZ : Z3 data.size S) : Z3 data.size (fillStep3 hN hA hB data i S) := by
  obtain ⟨row, _, hg⟩ := fillStep3_desc hN hA hB data i S hi h
  intro k hk
  rw [hg, if_neg (by omega), if_neg (by omega), if_neg (by omega)]
  split
  · exact hZ k hk
  · exact hZ k hk

theorem z3_fill (hN hA hB : Nat) (data : Array Nat) : Z3 data.size (fill3 hN hA hB data) := by
  unfold fill3
  have := forIn_id_range (fillM3 hN hA hB data) (fun i S => Inv3 hB data i S ∧ Z3 data.size S) 0 data.size _
    (Nat.zero_le _) ⟨inv3_init hB data, z3_init _⟩
    (fun k S _ hk hI => ⟨_, fillM3_eq _ _ _ _ _ _, inv3_step hN hA hB data k S hk hI.1,
      z3_step hN hA hB data k S hk hI.1 hI.2⟩)
  exact this.2

/-- back-tracking from mode 1 of a last row without predecessor: every earlier position gets 0 -/
theorem back_all0 (S : Array (Array St)) (n : Nat) (h2 : 2 ≤ n) (hlast1 : (g3 S n 1).lastMode = 0) (hZ : Z3 n S) :
    ∀ j, j ≤ n - 2 → (back3 S n 1)[j]! = 0 := by
  have := forIn_id_range (backM3 S n)
    (fun k s => s.2.size = n ∧ (k = 0 → s.1 = 1) ∧ (1 ≤ k → s.1 = 0) ∧
      ∀ j, n - 1 - k ≤ j → j ≤ n - 2 → s.2[j]! = 0)
    0 (n - 1) (1, (Array.replicate n 0).set! (n - 1) 1) (Nat.zero_le _)
    ⟨by rw [size_set!]; simp, fun _ => rfl, fun h => by omega, fun j h1 h2 => by omega⟩ ?_
  · intro j hj
    exact this.2.2.2 j (by omega) hj
  · intro k s _ hk ⟨hsz, h0, h1, hall⟩
    have hlm : ((S[n - 1 - k + 1]!)[s.1]!).lastMode = 0 := by
      by_cases hk0 : k = 0
      · subst hk0
        rw [h0 rfl, show n - 1 - 0 + 1 = n by omega]
        exact hlast1
      · rw [h1 (by omega)]
        exact hZ _ (by omega)
    refine ⟨_, rfl, ?_⟩
    simp only [hlm]
    refine ⟨by rw [size_set!]; exact hsz, fun h => by omega, fun _ => trivial, ?_⟩
    intro j hj1 hj2
    rw [get!_set!]
    by_cases hj : n - 1 - k - 1 = j
    · rw [if_pos ⟨hj, by omega⟩]
    · rw [if_neg (by omega)]
      exact hall j (by omega) hj2

/-! ### the first segment of `mergeSegs` has the mode of the first piece -/

theorem mstep_head (ml : List Nat) (acc : List Segment) (p : Nat × List Nat) (m0 : Nat)
    (h : acc.head?.map (·.mode) = some m0) : (mstep ml acc p).head?.map (·.mode) = some m0 := by
  rcases nil_or_snoc acc with rfl | ⟨l, a, rfl⟩
  · simp at h
  · rw [mstep_concat]
    cases l with
    | nil =>
      simp only [List.nil_append, List.head?_cons, Option.map_some, Option.some.injEq] at h ⊢
      split <;> simp [h]
    | cons b l' =>
      simp only [List.cons_append, List.head?_cons, Option.map_some, Option.some.injEq] at h ⊢
      split <;> simp [h]

theorem foldl_mstep_head (ml : List Nat) (ps : List (Nat × List Nat)) (m0 : Nat) :
    ∀ acc : List Segment, acc.head?.map (·.mode) = some m0 →
      (ps.foldl (mstep ml) acc).head?.map (·.mode) = some m0 := by
  induction ps with
  | nil => intro acc h; exact h
  | cons p ps ih => intro acc h; rw [List.foldl_cons]; exact ih _ (mstep_head ml acc p m0 h)

theorem mergeSegs_head (ml : List Nat) (p : Nat × List Nat) (ps : List (Nat × List Nat)) :
    ∃ s rest, mergeSegs ml (p :: ps) = s :: rest ∧ s.mode = ml[p.1]?.getD 0 := by
  have h := foldl_mstep_head ml ps (ml[p.1]?.getD 0) (mstep ml [] p) (by rw [mstep_nil]; rfl)
  rw [mergeSegs_eq, List.foldl_cons]
  cases hl : ps.foldl (mstep ml) (mstep ml [] p) with
  | nil => rw [hl] at h; simp at h
  | cons s rest =>
    rw [hl] at h
    simp only [List.head?_cons, Option.map_some, Option.some.injEq] at h
    exact ⟨s, rest, rfl, h⟩

/-- for a payload so long that `20 * size ≥ inf`, the FIRST segment has mode `modeList[0]` -/
theorem newQR_long_head0 (hN hA hB : Nat) (ml : List Nat) (data : Array Nat) (h2 : 2 ≤ data.size)
    (hbig : inf ≤ 20 * data.size) :
    ∃ s rest, newQRSegs hN hA hB ml data = s :: rest ∧ s.mode = ml[0]?.getD 0 := by
  have hL := lb3_fill hN hA hB data
  have hZ := z3_fill hN hA hB data
  rw [newQRSegs_eq]
  unfold finish3
  generalize fill3 hN hA hB data = S at hL hZ ⊢
  have hlast : ∀ m, 1 ≤ m → m ≤ 3 → (g3 S data.size m).cost = inf ∧ (g3 S data.size m).lastMode = 0 := by
    intro m h1 h3
    have a := hL.lb data.size m (Nat.le_refl _) h1 h3
    obtain ⟨b, c⟩ := hL.cap data.size m (by omega) (Nat.le_refl _) h1 h3
    have : (g3 S data.size m).cost = inf := by omega
    exact ⟨this, c this⟩
  have hpick : pick3 S[data.size]! = 1 := by
    have e1 : ((S[data.size]!)[1]!).cost = inf := (hlast 1 (by omega) (by omega)).1
    have e2 : ((S[data.size]!)[2]!).cost = inf := (hlast 2 (by omega) (by omega)).1
    have e3 : ((S[data.size]!)[3]!).cost = inf := (hlast 3 (by omega) (by omega)).1
    unfold pick3
    rw [e1, e2, e3]
    simp
  rw [hpick]
  have hb0 := back_all0 S data.size h2 (hlast 1 (by omega) (by omega)).2 hZ 0 (by omega)
  obtain ⟨m, hm⟩ : ∃ m, data.size = m + 1 := ⟨data.size - 1, by omega⟩
  rw [hm, List.range_succ_eq_map, List.map_cons]
  rw [← hm]
  obtain ⟨s, rest, he, hmode⟩ := mergeSegs_head ml ((back3 S data.size 1)[0]!, [data[0]!])
    (List.map (fun i => ((back3 S data.size 1)[i]!, [data[i]!])) (List.map Nat.succ (List.range m)))
  refine ⟨s, rest, he, ?_⟩
  rw [hmode, hb0]

/-! ### `calcVersion` on a first segment of unknown mode -/

theorem calcVersion_panics (level : Int) (hlv : Model.QR.levelIsValid level = true) (s : Segment)
    (rest : List Segment) (hm : s.mode = 0) :
    ∃ msg, Model.QR.calcVersion level (s :: rest) = .panic msg := by
  have hl : ∃ l : Nat, l < 4 ∧ level = (l : Int) := by
    simp only [Model.QR.levelIsValid, Gen.QR.c_levelMin, Gen.QR.c_levelMax, Bool.and_eq_true] at hlv
    have h0 := of_decide_eq_true hlv.1
    have h4 := of_decide_eq_true hlv.2
    exact ⟨level.toNat, by omega, by omega⟩
  obtain ⟨l, hl4, rfl⟩ := hl
  obtain ⟨c, hc, _⟩ := Lemmas.CalcVersion.qr_capAt 1 l (by omega) hl4
  have hseg : ∃ msg, Model.QR.segLength s ((1 : Nat) : Int) = .panic msg := by
    unfold Model.QR.segLength
    rw [if_neg (by rw [hm]; decide)]
    exact ⟨_, rfl⟩
  obtain ⟨msg, hseg⟩ := hseg
  have hbody : Lemmas.CalcVersion.qrBody (l : Int) (s :: rest) 1 = .panic msg := by
    unfold Lemmas.CalcVersion.qrBody
    simp only [hc, Out.bind_ok]
    rw [List.forIn_cons]
    simp only [Lemmas.CalcVersion.qrInnerStep, Bool.not_false, if_true, hseg]
    rfl
  refine ⟨msg, ?_⟩
  rw [Lemmas.CalcVersion.calcVersion_eq, if_neg (by rw [hlv]; simp), Std.Legacy.Range.forIn_eq_forIn_range']
  simp only [Std.Legacy.Range.size]
  rw [show (41 - 1 + 1 - 1) / 1 = 39 + 1 from rfl, List.range'_succ, List.forIn_cons, hbody]
  rfl

/-- QR `New` without kanji panics on any payload of at least `inf / 20` bytes -/
theorem qr_new_panics_long (level : Int) (hlv : Model.QR.levelIsValid level = true) (data : List Nat)
    (h2 : 2 ≤ data.length) (hbig : inf ≤ 20 * data.length) :
    (Model.QR.new level false data).isPanic = true := by
  obtain ⟨s, rest, he, hmode⟩ := newQR_long_head0 ((4 + 14) * 6) ((4 + 13) * 6) ((4 + 16) * 6)
    [0, Model.QR.modeNumeric, Model.QR.modeAlphanumeric, Model.QR.modeBytes] data.toArray
    (by simpa using h2) (by simpa using hbig)
  obtain ⟨msg, hp⟩ := calcVersion_panics level hlv s rest hmode
  have hne : data.isEmpty = false := by
    cases data with
    | nil => simp at h2
    | cons a t => rfl
  unfold Model.QR.new
  simp only [hlv, hne, Bool.not_true, Bool.false_eq_true, if_false, he]
  show (Model.QR.calcVersion level (s :: rest) >>= _).isPanic = true
  rw [hp]
  rfl

/-- the statement "QR `New` never panics" without a bound on the payload length is false
(`2 ^ 60` zero bytes, never evaluated) -/
theorem qr_new_no_panic_unbounded_false :
    ¬ ∀ (level : Int) (kanji : Bool) (data : List Nat), (∀ b ∈ data, b < 256) →
      (Model.QR.new level kanji data).isPanic = false := by
  intro h
  have hlen : (List.replicate (2 ^ 60) (0 : Nat)).length = 2 ^ 60 := List.length_replicate
  have hp := qr_new_panics_long 0 (by decide) (List.replicate (2 ^ 60) 0) (by rw [hlen]; omega)
    (by rw [hlen]; unfold inf; omega)
  rw [h 0 false (List.replicate (2 ^ 60) 0) (fun b hb => by rw [(List.mem_replicate.1 hb).2]; omega)] at hp
  cases hp

end QRV.Lemmas.NewQRPanic
