import QRV.Lemmas.RTWalk
import QRV.Lemmas.C03QRLift
import QRV.Spec.Symbol
/-
The module walk of the QR encoder/decoder (`Lemmas.RT.walk`) visits exactly the standard's placement
order `Spec.Symbol.QR.dataCoords`: a structural proof for an arbitrary function-module predicate
(column pairs from the right, alternately upwards and downwards, column 6 skipped), instantiated
with the regenerated used-module bitmaps through `C02.qr_function_patterns`.
-/
namespace QRV.Lemmas.SymWalk
open QRV QRV.Model.Sym QRV.Lemmas.RT

/-- the modules of row y of the column pair with right-hand column `right`, right one first -/
def rowCells (g : Nat → Nat → Bool) (right y : Nat) : List (Nat × Nat) :=
  ([right, right - 1].filter fun x => !g x y).map fun x => (x, y)

def toI (p : Nat × Nat) : Int × Int := ((p.1 : Int), (p.2 : Int))

/-- rows y, y-1, …, 0 of a column pair -/
def colUp (g : Nat → Nat → Bool) (r y : Nat) : List (Nat × Nat) :=
  (List.range (y + 1)).reverse.flatMap (rowCells g r)

/-- rows y, y+1, …, n-1 of a column pair -/
def colDown (g : Nat → Nat → Bool) (r y n : Nat) : List (Nat × Nat) :=
  (List.range' y (n - y)).flatMap (rowCells g r)

theorem cells_eq (f : Int → Int → Bool) (g : Nat → Nat → Bool) (n : Nat)
    (hfg : ∀ x y : Nat, x < n → y < n → f x y = g x y) (r y : Nat) (hr1 : 1 ≤ r) (hr : r < n) (hy : y < n) :
    ((if f (r : Int) (y : Int) = true then [] else [((r : Int), (y : Int))]) ++
      (if f ((r : Int) - 1) (y : Int) = true then [] else [((r : Int) - 1, (y : Int))]) : List (Int × Int)) =
      (rowCells g r y).map toI := by
  have e : ((r : Int) - 1) = ((r - 1 : Nat) : Int) := by omega
  rw [e, hfg r y hr hy, hfg (r - 1) y (by omega) hy]
  unfold rowCells toI
  simp only [List.filter_cons, List.filter_nil]
  cases g r y <;> cases g (r - 1) y <;> simp

theorem colUp_succ (g : Nat → Nat → Bool) (r y : Nat) :
    colUp g r (y + 1) = rowCells g r (y + 1) ++ colUp g r y := by
  unfold colUp
  rw [List.range_succ, List.reverse_append, List.flatMap_append]
  simp

theorem colUp_zero (g : Nat → Nat → Bool) (r : Nat) : colUp g r 0 = rowCells g r 0 := by
  simp [colUp]

theorem finish_col (A : List (Int × Int)) (r : Nat) (o : Option (List (Int × Int))) (cs : List (Int × Int))
    (h : (if (r : Int) - 1 + 1 - 2 < 0 then some A else Option.map (fun cs => A ++ cs) o) = some cs) :
    (r < 2 → cs = A) ∧ (2 ≤ r → ∃ cs', o = some cs' ∧ cs = A ++ cs') := by
  constructor
  · intro h2
    rw [if_pos (by omega)] at h
    injection h with h
    exact h.symm
  · intro h2
    rw [if_neg (by omega)] at h
    cases o with
    | none => cases h
    | some cs' =>
      injection h with h
      exact ⟨cs', rfl, h.symm⟩

theorem walk_up (f : Int → Int → Bool) (g : Nat → Nat → Bool) (n : Nat) (w : Int) (hw : w = (n : Int) - 1)
    (hfg : ∀ x y : Nat, x < n → y < n → f x y = g x y) (r : Nat) (hr1 : 1 ≤ r) (hr6 : r ≠ 6) (hr : r < n) :
    ∀ (y fuel : Nat) (cs : List (Int × Int)), y < n →
      walk f w fuel { x := (r : Int), y := (y : Int), dy := -1 } = some cs →
      (r < 2 → cs = (colUp g r y).map toI) ∧
      (2 ≤ r → ∃ fuel' cs', walk f w fuel' { x := ((r - 2 : Nat) : Int), y := ((0 : Nat) : Int), dy := 1 } = some cs' ∧
        cs = (colUp g r y).map toI ++ cs') := by
  intro y
  induction y with
  | zero =>
    intro fuel cs hy h
    cases fuel with
    | zero => simp [walk] at h
    | succ fuel =>
      rw [walk] at h
      rw [if_neg (by simp only; omega)] at h
      simp only [] at h
      rw [if_neg (by omega)] at h
      rw [cells_eq f g n hfg r 0 hr1 hr hy] at h
      rw [if_pos (show ((0 : Nat) : Int) + -1 < 0 ∨ ((0 : Nat) : Int) + -1 > w from Or.inl (by omega))] at h
      simp only [] at h
      obtain ⟨ha, hb⟩ := finish_col _ r _ cs h
      rw [colUp_zero]
      refine ⟨ha, fun h2 => ?_⟩
      obtain ⟨cs', h1, h3⟩ := hb h2
      refine ⟨fuel, cs', ?_, h3⟩
      rw [← h1]
      congr 1
      simp only [Walk.mk.injEq]
      omega
  | succ y ih =>
    intro fuel cs hy h
    cases fuel with
    | zero => simp [walk] at h
    | succ fuel =>
      rw [walk] at h
      rw [if_neg (by simp only; omega)] at h
      simp only [] at h
      rw [if_neg (by omega)] at h
      rw [cells_eq f g n hfg r (y + 1) hr1 hr hy] at h
      rw [if_neg (show ¬ (((y + 1 : Nat) : Int) + -1 < 0 ∨ ((y + 1 : Nat) : Int) + -1 > w) by omega)] at h
      simp only [] at h
      rw [if_neg (show ¬ ((r : Int) - 1 + 1 < 0) by omega)] at h
      have es : ({ x := (r : Int) - 1 + 1, y := ((y + 1 : Nat) : Int) + -1, dy := -1 } : Walk) =
          { x := (r : Int), y := (y : Int), dy := -1 } := by
        simp only [Walk.mk.injEq, and_true]; omega
      rw [es] at h
      cases hw' : walk f w fuel { x := (r : Int), y := (y : Int), dy := -1 } with
      | none => rw [hw'] at h; cases h
      | some cs1 =>
        rw [hw'] at h
        injection h with h
        obtain ⟨ha, hb⟩ := ih fuel cs1 (by omega) hw'
        rw [colUp_succ, List.map_append]
        constructor
        · intro h2; rw [← h, ha h2]
        · intro h2
          obtain ⟨fuel', cs', h1, h3⟩ := hb h2
          exact ⟨fuel', cs', h1, by rw [← h, h3, List.append_assoc]⟩

theorem colDown_cons (g : Nat → Nat → Bool) (r y n : Nat) (hy : y < n) :
    colDown g r y n = rowCells g r y ++ colDown g r (y + 1) n := by
  unfold colDown
  have e : n - y = (n - (y + 1)) + 1 := by omega
  rw [e, List.range'_succ, List.flatMap_cons]

theorem colDown_last (g : Nat → Nat → Bool) (r y n : Nat) (hy : y + 1 = n) :
    colDown g r y n = rowCells g r y := by
  rw [colDown_cons g r y n (by omega)]
  unfold colDown
  have e : n - (y + 1) = 0 := by omega
  rw [e]
  simp

theorem walk_down (f : Int → Int → Bool) (g : Nat → Nat → Bool) (n : Nat) (w : Int) (hw : w = (n : Int) - 1)
    (hfg : ∀ x y : Nat, x < n → y < n → f x y = g x y) (r : Nat) (hr1 : 1 ≤ r) (hr6 : r ≠ 6) (hr : r < n) :
    ∀ (d y fuel : Nat) (cs : List (Int × Int)), y + d + 1 = n →
      walk f w fuel { x := (r : Int), y := (y : Int), dy := 1 } = some cs →
      (r < 2 → cs = (colDown g r y n).map toI) ∧
      (2 ≤ r → ∃ fuel' cs', walk f w fuel' { x := ((r - 2 : Nat) : Int), y := ((n - 1 : Nat) : Int), dy := -1 } = some cs' ∧
        cs = (colDown g r y n).map toI ++ cs') := by
  intro d
  induction d with
  | zero =>
    intro y fuel cs hy h
    cases fuel with
    | zero => simp [walk] at h
    | succ fuel =>
      rw [walk] at h
      rw [if_neg (by simp only; omega)] at h
      simp only [] at h
      rw [if_neg (by omega)] at h
      rw [cells_eq f g n hfg r y hr1 hr (by omega)] at h
      rw [if_pos (show (y : Int) + 1 < 0 ∨ (y : Int) + 1 > w from Or.inr (by omega))] at h
      simp only [] at h
      obtain ⟨ha, hb⟩ := finish_col _ r _ cs h
      rw [colDown_last g r y n (by omega)]
      refine ⟨ha, fun h2 => ?_⟩
      obtain ⟨cs', h1, h3⟩ := hb h2
      refine ⟨fuel, cs', ?_, h3⟩
      rw [← h1]
      congr 1
      simp only [Walk.mk.injEq, and_true]
      omega
  | succ d ih =>
    intro y fuel cs hy h
    cases fuel with
    | zero => simp [walk] at h
    | succ fuel =>
      rw [walk] at h
      rw [if_neg (by simp only; omega)] at h
      simp only [] at h
      rw [if_neg (by omega)] at h
      rw [cells_eq f g n hfg r y hr1 hr (by omega)] at h
      rw [if_neg (show ¬ ((y : Int) + 1 < 0 ∨ (y : Int) + 1 > w) by omega)] at h
      simp only [] at h
      rw [if_neg (show ¬ ((r : Int) - 1 + 1 < 0) by omega)] at h
      have es : ({ x := (r : Int) - 1 + 1, y := (y : Int) + 1, dy := 1 } : Walk) =
          { x := (r : Int), y := ((y + 1 : Nat) : Int), dy := 1 } := by
        simp only [Walk.mk.injEq, and_true]; omega
      rw [es] at h
      cases hw' : walk f w fuel { x := (r : Int), y := ((y + 1 : Nat) : Int), dy := 1 } with
      | none => rw [hw'] at h; cases h
      | some cs1 =>
        rw [hw'] at h
        injection h with h
        obtain ⟨ha, hb⟩ := ih (y + 1) fuel cs1 (by omega) hw'
        rw [colDown_cons g r y n (by omega), List.map_append]
        constructor
        · intro h2; rw [← h, ha h2]
        · intro h2
          obtain ⟨fuel', cs', h1, h3⟩ := hb h2
          exact ⟨fuel', cs', h1, by rw [← h, h3, List.append_assoc]⟩

/-- the column pairs with right-hand columns `rs`, alternately upwards and downwards -/
def sweep (g : Nat → Nat → Bool) (n : Nat) : List Nat → Bool → List (Nat × Nat)
  | [], _ => []
  | r :: rs, up => (if up then colUp g r (n - 1) else colDown g r 0 n) ++ sweep g n rs (!up)

/-- the right-hand columns the walk runs through: each is the previous one minus two, except that
column 6 is stepped over (8 is followed by 5); the last one is 1 -/
def Chain (n : Nat) : List Nat → Prop
  | [] => False
  | [r] => r = 1 ∧ r < n
  | r :: r' :: rs => 2 ≤ r ∧ r ≠ 6 ∧ r < n ∧ r' = (if r = 8 then 5 else r - 2) ∧ Chain n (r' :: rs)

def startOf (n : Nat) (r : Nat) (up : Bool) : Walk :=
  { x := (r : Int), y := ((if up then n - 1 else 0 : Nat) : Int), dy := if up then -1 else 1 }

theorem walk_col (f : Int → Int → Bool) (g : Nat → Nat → Bool) (n : Nat) (hn : 1 ≤ n) (w : Int) (hw : w = (n : Int) - 1)
    (hfg : ∀ x y : Nat, x < n → y < n → f x y = g x y) (r : Nat) (hr1 : 1 ≤ r) (hr6 : r ≠ 6) (hr : r < n)
    (up : Bool) (fuel : Nat) (cs : List (Int × Int)) (h : walk f w fuel (startOf n r up) = some cs) :
    (r < 2 → cs = (if up then colUp g r (n - 1) else colDown g r 0 n).map toI) ∧
    (2 ≤ r → ∃ fuel' cs', walk f w fuel' (startOf n (r - 2) (!up)) = some cs' ∧
      cs = (if up then colUp g r (n - 1) else colDown g r 0 n).map toI ++ cs') := by
  cases up with
  | true => exact walk_up f g n w hw hfg r hr1 hr6 hr (n - 1) fuel cs (by omega) h
  | false => exact walk_down f g n w hw hfg r hr1 hr6 hr (n - 1) 0 fuel cs (by omega) h

theorem walk_sweep (f : Int → Int → Bool) (g : Nat → Nat → Bool) (n : Nat) (hn : 1 ≤ n) (w : Int) (hw : w = (n : Int) - 1)
    (hfg : ∀ x y : Nat, x < n → y < n → f x y = g x y) :
    ∀ (rs : List Nat) (r : Nat) (up : Bool) (fuel : Nat) (cs : List (Int × Int)), Chain n (r :: rs) →
      walk f w fuel (startOf n r up) = some cs → cs = (sweep g n (r :: rs) up).map toI := by
  intro rs
  induction rs with
  | nil =>
    intro r up fuel cs hc h
    obtain ⟨h1, hrn⟩ := hc
    subst h1
    have := (walk_col f g n hn w hw hfg 1 (by omega) (by omega) hrn up fuel cs h).1 (by omega)
    rw [this]
    simp [sweep]
  | cons r' rs ih =>
    intro r up fuel cs hc h
    obtain ⟨h2, h6, hrn, hnext, hc'⟩ := hc
    obtain ⟨fuel', cs', hw', hcs⟩ := (walk_col f g n hn w hw hfg r (by omega) h6 hrn up fuel cs h).2 h2
    have key : ∃ fuel'', walk f w fuel'' (startOf n r' (!up)) = some cs' := by
      by_cases h8 : r = 8
      · subst h8
        rw [if_pos rfl] at hnext
        subst hnext
        cases fuel' with
        | zero => simp [walk] at hw'
        | succ fuel' =>
          rw [walk, if_pos (by simp only [startOf]; omega)] at hw'
          refine ⟨fuel', ?_⟩
          rw [← hw']
          congr 1
      · rw [if_neg h8] at hnext
        subst hnext
        exact ⟨fuel', hw'⟩
    obtain ⟨fuel'', hw''⟩ := key
    have := ih r' (!up) fuel'' cs' hc' hw''
    rw [hcs, this]
    simp [sweep]

/-- 8+2(K-1), …, 10, 8, 5, 3, 1 -/
def rights : Nat → List Nat
  | 0 => [5, 3, 1]
  | K + 1 => (8 + 2 * K) :: rights K

theorem rights_head (K : Nat) : ∃ tl, rights K = (if K = 0 then 5 else 6 + 2 * K) :: tl := by
  cases K with
  | zero => exact ⟨_, rfl⟩
  | succ K => exact ⟨rights K, by rw [if_neg (by omega)]; show _ :: _ = _ :: _; congr 1; omega⟩

theorem chain_rights (n : Nat) : ∀ K, 7 + 2 * K ≤ n → Chain n (rights K) := by
  intro K
  induction K with
  | zero => intro h; refine ⟨by omega, by omega, by omega, by simp, by omega, by omega, by omega, by simp, rfl, by omega⟩
  | succ K ih =>
    intro h
    obtain ⟨tl, htl⟩ := rights_head K
    have hc := ih (by omega)
    show Chain n ((8 + 2 * K) :: rights K)
    rw [htl] at hc ⊢
    refine ⟨by omega, by omega, by omega, ?_, hc⟩
    by_cases hK : K = 0
    · subst hK; simp
    · rw [if_neg hK, if_neg (by omega)]; omega

theorem pairRights_eq (K : Nat) : Spec.Symbol.QR.pairRights (7 + 2 * K) = rights K := by
  unfold Spec.Symbol.QR.pairRights
  have e : (7 + 2 * K - 7) / 2 = K := by omega
  rw [e]
  clear e
  induction K with
  | zero => rfl
  | succ K ih =>
    rw [List.range_succ_eq_map, List.map_cons, List.map_map, rights, List.cons_append, ← ih]
    congr 1
    · omega
    · congr 1
      apply List.map_congr_left
      intro i _
      simp only [Function.comp]
      omega

theorem zipIdx_sweep (g : Nat → Nat → Bool) (n : Nat) (hn : 1 ≤ n) : ∀ (l : List Nat) (k0 : Nat),
    (l.zipIdx k0).flatMap (fun p =>
      (if p.2 % 2 = 0 then (List.range n).reverse else List.range n).flatMap (rowCells g p.1)) =
      sweep g n l (decide (k0 % 2 = 0)) := by
  intro l
  induction l with
  | nil => intro k0; rfl
  | cons r l ih =>
    intro k0
    rw [List.zipIdx_cons, List.flatMap_cons, ih (k0 + 1), sweep]
    have e1 : colUp g r (n - 1) = (List.range n).reverse.flatMap (rowCells g r) := by
      unfold colUp; rw [show n - 1 + 1 = n by omega]
    have e2 : colDown g r 0 n = (List.range n).flatMap (rowCells g r) := by
      unfold colDown; rw [Nat.sub_zero, List.range_eq_range']
    by_cases hk : k0 % 2 = 0
    · have hk' : ¬ ((k0 + 1) % 2 = 0) := by omega
      simp only [hk, hk', decide_true, decide_false, if_true, Bool.not_true, e1]
    · have hk' : (k0 + 1) % 2 = 0 := by omega
      simp only [hk, hk', decide_true, decide_false, if_false, Bool.not_false, Bool.false_eq_true, e2]

theorem dataCoords_eq_sweep (v : Nat) :
    Spec.Symbol.QR.dataCoords v =
      sweep (Spec.Patterns.QR.isFunction v) (17 + 4 * v) (rights (5 + 2 * v)) true := by
  have h := zipIdx_sweep (Spec.Patterns.QR.isFunction v) (17 + 4 * v) (by omega)
    (Spec.Symbol.QR.pairRights (17 + 4 * v)) 0
  rw [← pairRights_eq, show 7 + 2 * (5 + 2 * v) = 17 + 4 * v by omega]
  exact h

/-- the used-module bitmap of a valid version answers the standard's function-module predicate -/
theorem usedFn_isFunction (v : Nat) (h1 : 1 ≤ v) (h40 : v ≤ 40) (x y : Nat) (hx : x < 17 + 4 * v) (hy : y < 17 + 4 * v) :
    usedFn v (x : Int) (y : Int) = Spec.Patterns.QR.isFunction v x y := by
  obtain ⟨b, u, hb, hu, hbr, hur, hX, hY, h0, h0', hs, hub⟩ := Props.C02.qr_function_patterns v h1 h40
  have hug : usedGen v = u := by unfold usedGen; rw [hu]; rfl
  have hus : u.stride = (17 + 4 * v + 7) / 8 := by rw [hub]; exact hs
  rw [usedFn_nat v x y hx hy, hug, hur, hus]
  exact rowBit_packRows (Spec.Patterns.QR.isFunction v) (17 + 4 * v) (17 + 4 * v) x y hx hy

/-- the walk of every version visits exactly `dataCoords v` -/
theorem walk_is_dataCoords (v : Nat) (h1 : 1 ≤ v) (h40 : v ≤ 40) (cs : List (Int × Int))
    (h : walk (usedFn v) (16 + 4 * (v : Int)) (fuelOf (16 + 4 * (v : Int))) (start (16 + 4 * (v : Int))) = some cs) :
    cs = (Spec.Symbol.QR.dataCoords v).map toI := by
  rw [dataCoords_eq_sweep]
  obtain ⟨tl, htl⟩ := rights_head (5 + 2 * v)
  rw [if_neg (by omega)] at htl
  have hc := chain_rights (17 + 4 * v) (5 + 2 * v) (by omega)
  rw [htl] at hc ⊢
  refine walk_sweep (usedFn v) (Spec.Patterns.QR.isFunction v) (17 + 4 * v) (by omega) (16 + 4 * (v : Int)) (by omega)
    (usedFn_isFunction v h1 h40) tl _ true (fuelOf (16 + 4 * (v : Int))) cs hc ?_
  rw [← h]
  congr 1
  simp only [startOf, start, Walk.mk.injEq, if_true, and_true]
  omega

theorem walk_standard (v : Nat) (h1 : 1 ≤ v) (h40 : v ≤ 40) (cs : List (Int × Int))
    (h : walk (usedFn v) (16 + 4 * (v : Int)) (fuelOf (16 + 4 * (v : Int))) (start (16 + 4 * (v : Int))) = some cs) :
    cs.map (fun c => (c.1.toNat, c.2.toNat)) = Spec.Symbol.QR.dataCoords v ∧ ∀ c ∈ cs, 0 ≤ c.1 ∧ 0 ≤ c.2 := by
  have hcs := walk_is_dataCoords v h1 h40 cs h
  constructor
  · rw [hcs, List.map_map]
    conv => rhs; rw [← List.map_id (Spec.Symbol.QR.dataCoords v)]
    apply List.map_congr_left
    intro p _
    simp [toI]
  · intro c hc
    rw [hcs, List.mem_map] at hc
    obtain ⟨p, _, rfl⟩ := hc
    simp only [toI]
    omega

end QRV.Lemmas.SymWalk
