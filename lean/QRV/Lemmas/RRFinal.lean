import QRV.Lemmas.RRParse
import QRV.Lemmas.RRBlocks
import QRV.Lemmas.RRFinWalk
import QRV.Lemmas.RRFormat
import QRV.Lemmas.RTEncode
/-
The round trip of rMQR assembled: stream (RRStream/RRParse), blocks with the possibly incomplete
last codeword (RRBlocks), walk (RRWalk/RRFinWalk), version/level information and masking
(RRFormat), decoder front.
-/
open QRV QRV.Model QRV.Model.Bitmap QRV.Model.Sym QRV.Props QRV.Props.C18 QRV.Model.Bits QRV.Spec.Bits QRV.Spec.Valid
open QRV.Lemmas.RT QRV.Lemmas.BCH QRV.Lemmas.Bits
namespace QRV.Lemmas.RR

set_option maxRecDepth 100000

/-! ### version/level information -/

theorem version_words_lt : Gen.RMQR.encodedVersion.all (fun c => decide (c < 2 ^ 18)) = true := by
  decide +kernel

/-- a regular image whose first copy holds table entry idx (masked) decodes to (idx % 32, idx / 32) -/
theorem decodeFormat_first (img : Image) (w h : Nat) (hr : Regular img w h) (hw : 12 ≤ w) (hh : 6 ≤ h)
    (idx ef : Nat) (hidx : idx < 64) (hc : Gen.RMQR.encodedVersion[idx]? = some ef)
    (h1 : ∀ i : Nat, i < 18 → px img (8 + i / 5) (1 + i % 5) = (ef ^^^ Model.RMQR.fmtMask1).testBit i) :
    Model.RMQR.decodeFormat img = .ok (((idx &&& 0x1f : Nat) : Int), (((idx >>> 5) &&& 1 : Nat) : Int)) := by
  have hef : ef < 2 ^ 18 := by
    have := List.all_eq_true.mp version_words_lt ef (List.mem_of_getElem? hc)
    simpa using this
  have hm : Model.RMQR.fmtMask1 < 2 ^ 18 := by decide
  have hraw := rmqrRead1_first img w h hr hw hh (ef ^^^ Model.RMQR.fmtMask1) (Nat.xor_lt_two_pow hef hm) h1
  rw [C11.rmqr_decodeFormat_is_twoCopy, hraw, Out.bind_ok]
  have hx : ef ^^^ Model.RMQR.fmtMask1 ^^^ Model.RMQR.fmtMask1 = ef := by
    rw [Nat.xor_assoc, Nat.xor_self, Nat.xor_zero]
  rw [hx]
  exact C11.rmqr_first_copy_wins _ ef _ idx ef hidx hc (by rw [hamming_self]; omega)

theorem natAt_version (v l : Nat) (hv : v < 32) (hl : l < 2) :
    ∃ ef, natAt Gen.RMQR.encodedVersion ((v : Int) + (l : Int) * 32) = .ok ef ∧
      Gen.RMQR.encodedVersion[v + 32 * l]? = some ef := by
  have hlen := rmqr_version_length
  have hlt : v + 32 * l < Gen.RMQR.encodedVersion.length := by rw [hlen]; omega
  refine ⟨_, ?_, List.getElem?_eq_getElem hlt⟩
  unfold natAt
  rw [if_neg (by omega)]
  have : ((v : Int) + (l : Int) * 32).toNat = v + 32 * l := by omega
  rw [this, List.getElem?_eq_getElem hlt]

/-! ### the bytes read back: all codewords but the last, then at least one more byte -/

theorem pack_length (bs : List Bool) : (pack bs).length = (bs.length + 7) / 8 := by
  simp [pack]

theorem pack_partial (bits : List Bool) (il : List Nat) (hil : ∀ b ∈ il, b < 256) (hn : 1 ≤ il.length)
    (hlen : 8 * il.length < bits.length + 8)
    (hbits : ∀ k (_ : k < bits.length) (_ : k < 8 * il.length), bits[k]? = (unpack il)[k]?) :
    ∃ y extra, pack bits = il.dropLast ++ y :: extra := by
  have hne : il ≠ [] := by intro h0; rw [h0] at hn; simp at hn
  have hsplit : il = il.dropLast ++ [il.getLast hne] := (List.dropLast_concat_getLast hne).symm
  have hAl : il.dropLast.length = il.length - 1 := List.length_dropLast
  have hA : unpack il.dropLast = bits.take (8 * (il.length - 1)) := by
    apply List.ext_getElem?
    intro k
    by_cases hk : k < 8 * (il.length - 1)
    · rw [List.getElem?_take, if_pos hk, hbits k (by omega) (by omega)]
      conv => rhs; rw [hsplit, unpack_concat]
      rw [List.getElem?_append_left (by rw [length_unpack, hAl]; exact hk)]
    · rw [List.getElem?_eq_none (by rw [length_unpack, hAl]; omega),
        List.getElem?_eq_none (by rw [List.length_take]; omega)]
  have hb : bits = unpack il.dropLast ++ bits.drop (8 * (il.length - 1)) := by
    rw [hA, List.take_append_drop]
  have hp : pack bits = il.dropLast ++ pack (bits.drop (8 * (il.length - 1))) := by
    conv => lhs; rw [hb]
    exact Lemmas.Bits.pack_unpack_append _ (fun x hx => hil x (List.dropLast_subset _ hx)) _
  cases hr : pack (bits.drop (8 * (il.length - 1))) with
  | nil =>
    have := congrArg List.length hr
    rw [pack_length, List.length_drop] at this
    simp at this
    omega
  | cons y extra => exact ⟨y, extra, by rw [hp, hr]⟩

/-! ### placement -/

/-- the placement writes bit k of the interleaved stream at the k-th coordinate of the walk, as far
as the coordinates go -/
theorem placement_spec (v : Nat) (base used : Image) (hW : 3 ≤ W v) (hH : 7 ≤ H v)
    (hrb : Regular base (W v) (H v))
    (hbin : ∀ x y, used.binaryAt x y = .ok (usedFn v x y)) (ibuf : Buffer) (hinv : C16.Inv ibuf)
    (hoff : ibuf.offset = 0) (hread : ibuf.read = 0) (cs : List (Int × Int))
    (hwalk : walk (usedFn v) ((H v : Int) - 1) (fuelOf ((W v : Int) - 1) ((H v : Int) - 1))
      (start ((W v : Int) - 1) ((H v : Int) - 1)) = some cs) :
    ∃ img1, Model.RMQR.placeLoop used ((H v : Int) - 1) (((W v : Int) - 1 + 3) * ((H v : Int) - 1 + 3)).toNat
        { x := (W v : Int) - 1 - 1, y := (H v : Int) - 1 - 5, dy := -1 } ibuf base = .ok img1 ∧
      Regular img1 (W v) (H v) ∧
      ∀ k (hk : k < cs.length) (hk2 : k < 8 * ibuf.buf.toList.length),
        px img1 (cs[k]).1.toNat (cs[k]).2.toNat = (unpack ibuf.buf.toList)[k]'(by simpa using hk2) := by
  have hpl := placeLoop_eq used (usedFn v) hbin ((H v : Int) - 1) _ _ cs ibuf base hwalk hinv (by omega)
  unfold fuelOf start at hpl
  have hun : C17.unread ibuf = unpack ibuf.buf.toList := by
    unfold C17.unread C17.cursor; rw [hoff, hread]; simp
  rw [hun] at hpl
  obtain ⟨hnd, hrange⟩ := walk_sound (usedFn v) ((W v : Int) - 1) ((H v : Int) - 1) (by omega) (by omega) _ cs hwalk
  obtain ⟨img1, he, hr1, hpx⟩ := writes_spec _ _ (cs.zip (unpack ibuf.buf.toList)) base hrb
  refine ⟨img1, by rw [hpl]; exact he, hr1, ?_⟩
  intro k hkc hk2
  have hku : k < (unpack ibuf.buf.toList).length := by simpa using hk2
  have hr := hrange _ (List.getElem_mem hkc)
  obtain ⟨ha, hb⟩ := zip_nodup_lookup cs (unpack ibuf.buf.toList) hnd k hkc hku
  have hpos : (((cs[k].1.toNat : Nat) : Int), ((cs[k].2.toNat : Nat) : Int)) = cs[k] := by
    apply Prod.ext <;> simp <;> omega
  refine (hpx _ _ (by omega) (by omega)).2 _ ?_ ?_
  · intro p hp he; rw [hpos] at he; exact ha p hp he
  · obtain ⟨p, hp, he⟩ := hb; exact ⟨p, hp, by rw [hpos]; exact he⟩

/-! ### the decoder's view of a regular image -/

theorem norm_regular (img : Image) (w h : Nat) (hr : Regular img w h) :
    ({ pix := img.pix, stride := img.stride, minX := 0, minY := 0, maxX := (w : Int), maxY := (h : Int) } : Image) = img := by
  obtain ⟨h0, h1, h2, h3, _, _, _⟩ := hr
  cases img
  simp only at *
  subst h0 h1 h2 h3
  rfl

theorem sameBounds_regular (a b : Image) (w h : Nat) (ha : Regular a w h) (hb : Regular b w h) :
    Model.RMQR.sameBounds a b = true := by
  unfold Model.RMQR.sameBounds Image.rectEq
  rw [ha.minX, ha.minY, ha.maxX, ha.maxY, hb.minX, hb.minY, hb.maxX, hb.maxY]
  simp

/-! ### the round trip -/

theorem roundtrip_core (q : QRCode) (hv : RMQR.Valid q) :
    ∃ img, Model.RMQR.encodeToBitmap q = .ok img ∧ Model.RMQR.decodeBitmap img = .ok q := by
  obtain ⟨⟨hv0, hv31⟩, ⟨hl0, hl1⟩, hmask, -, -⟩ := id hv
  obtain ⟨v, hveq⟩ := Int.eq_ofNat_of_zero_le hv0
  obtain ⟨l, hleq⟩ := Int.eq_ofNat_of_zero_le hl0
  have hv32 : v < 32 := by omega
  have hl2 : l < 2 := by omega
  -- capacity row, data stream and its parsing
  obtain ⟨cap, hcapAt, hrow, hcapmem, hok⟩ := capAt_valid v l hv32 hl2
  obtain ⟨ebuf, hE, hEsize, hEbytes, hSeg⟩ := stream_roundtrip q hv cap
    (by rw [hveq, hleq]; simpa using hrow) (by rw [hveq, hleq]; exact hcapAt) hok
  obtain ⟨version, level, mask, segments⟩ := q
  simp only at hveq hleq hmask hE hSeg
  subst hveq hleq hmask
  -- blocks
  have hok' := hok
  unfold capOK at hok'
  simp only [Bool.and_eq_true, List.all_eq_true, decide_eq_true_eq] at hok'
  obtain ⟨⟨⟨hshape, h255⟩, -⟩, -⟩ := hok'
  obtain ⟨blks, ibuf, hsplit, hil, hiInv, hiw, hio, hir, hisz, htot1, hfix⟩ :=
    blocks_roundtrip_fix cap hshape h255 ebuf.buf.toList (by rw [Array.length_toList, hEsize]) hEbytes
  have hbits : Model.RMQR.encodeToBits { version := v, level := l, mask := 0, segments := segments } {} = .ok ibuf := by
    unfold Model.RMQR.encodeToBits
    simp only [hE, Out.bind_ok, hcapAt, hsplit, hil]
  -- images, walk
  obtain ⟨hbase, hused, hrb, hru, hbin⟩ := version_images v hv32
  obtain ⟨hW27, hW144, hH7, hH17⟩ := sizes_ok v hv32
  obtain ⟨-, -, -, cs, hwalk, hlenall⟩ := walk_version v hv32
  have hlen := hlenall cap hcapmem
  have hilen : ibuf.buf.toList.length = cap.total := by rw [Array.length_toList, hisz]
  obtain ⟨img1, hplace, hr1, hpx1⟩ := placement_spec v _ _ (by omega) hH7 hrb hbin ibuf hiInv hio hir cs hwalk
  obtain ⟨ef, hnat, hef⟩ := natAt_version v l hv32 hl2
  obtain ⟨img2, hfw, hr2, hpx2, hfc⟩ := fmtWrites_spec v hv32 img1 hr1 ef
  have hrm := mask_image
  obtain ⟨img3, hmask3, hr3⟩ := mask_ok img2 _ _ (W v) (H v) 144 17 (by omega) (by omega) hr2 hru hrm hW144 hH17
  have hbdx : (Image.ofGen (baseGen v)).dx = (W v : Int) := by unfold Image.dx; rw [hrb.maxX, hrb.minX]; omega
  have hbdy : (Image.ofGen (baseGen v)).dy = (H v : Int) := by unfold Image.dy; rw [hrb.maxY, hrb.minY]; omega
  refine ⟨img3, ?_, ?_⟩
  · have e1 : Model.RMQR.versionIsValid (v : Int) = true := by
      unfold Model.RMQR.versionIsValid Gen.RMQR.c_minVersion Gen.RMQR.c_maxVersion
      rw [Bool.and_eq_true, decide_eq_true_eq, decide_eq_true_eq]; omega
    have e2 : Model.RMQR.levelIsValid (l : Int) = true := by
      unfold Model.RMQR.levelIsValid Gen.RMQR.c_levelMax
      rw [Bool.and_eq_true, decide_eq_true_eq, decide_eq_true_eq]; omega
    rw [encodeToBitmap_eq _ e1 e2]
    simp only [hbits, Out.bind_ok, hbase, hused, deref, hbdx, hbdy, hplace, hnat]
    rw [formatStep_eq, hfw, Out.bind_ok]
    exact hmask3
  · unfold Model.RMQR.decodeBitmap Model.RMQR.decodeBitmapFull
    have hdx : img3.dx = (W v : Int) := by unfold Image.dx; rw [hr3.maxX, hr3.minX]; omega
    have hdy : img3.dy = (H v : Int) := by unfold Image.dy; rw [hr3.maxY, hr3.minY]; omega
    simp only [hdx, hdy, norm_regular img3 _ _ hr3]
    -- version/level information
    have hfmt : Model.RMQR.decodeFormat img3 = .ok ((v : Int), (l : Int)) := by
      have h := decodeFormat_first img3 _ _ hr3 (by omega) (by omega) (v + 32 * l) ef (by omega) hef ?_
      · rw [h]
        have e1 : (v + 32 * l) &&& 0x1f = v := by
          rw [show (0x1f : Nat) = 2 ^ 5 - 1 by decide, Nat.and_two_pow_sub_one_eq_mod]; omega
        have e2 : ((v + 32 * l) >>> 5) &&& 1 = l := by
          rw [Nat.shiftRight_eq_div_pow, show (1 : Nat) = 2 ^ 1 - 1 by decide, Nat.and_two_pow_sub_one_eq_mod]; omega
        rw [e1, e2]
      · intro i hi
        obtain ⟨hx, hy, hu⟩ := used_of_fmtPos v hv32 (8 + i / 5) (1 + i % 5)
          ((mem_fmtPos ..).2 (Or.inl ⟨i, hi, rfl⟩))
        rw [mask_spec img2 _ _ img3 _ _ 144 17 (by omega) (by omega) hr2 hru hrm hW144 hH17 hmask3 _ _ hx hy,
          used_px v _ hru hbin _ _ hx hy, hu, hfc i hi]
        simp
    have hinv := mask_involutive img2 _ _ img3 _ _ 144 17 (by omega) (by omega) hr2 hru hrm hW144 hH17 hmask3
    simp only [hfmt, Out.bind_ok, hused, deref, sameBounds_regular img3 _ _ _ hr3 hru, hinv,
      Bool.not_true, Bool.false_eq_true, if_false]
    -- reading
    obtain ⟨rbuf, hrl, hrinv, hrabs⟩ := readLoop_eq (Image.ofGen (usedGen v)) img2 (usedFn v)
      (fun x y => if 0 ≤ x ∧ x < ((W v : Nat) : Int) ∧ 0 ≤ y ∧ y < ((H v : Nat) : Int) then px img2 x.toNat y.toNat else false)
      hbin (fun x y => binaryAt_spec img2 _ _ hr2 x y) ((H v : Int) - 1) _ _ cs {} hwalk C16.inv_empty
    unfold fuelOf start at hrl
    rw [C16.abs_empty, List.nil_append] at hrabs
    obtain ⟨hnd, hrange⟩ := walk_sound (usedFn v) ((W v : Int) - 1) ((H v : Int) - 1) (by omega) (by omega) _ cs hwalk
    have hbytes : ∃ y extra, rbuf.buf.toList = ibuf.buf.toList.dropLast ++ y :: extra := by
      rw [C16.bytes_are_packing rbuf hrinv, hrabs]
      refine pack_partial _ _ hiInv.bytes_lt (by omega) (by rw [List.length_map]; omega) ?_
      intro k hk1 hk2
      rw [List.length_map] at hk1
      have hku : k < (unpack ibuf.buf.toList).length := by simpa using hk2
      rw [List.getElem?_eq_getElem (by rw [List.length_map]; exact hk1), List.getElem?_eq_getElem hku,
        List.getElem_map, ← hpx1 k hk1 hk2]
      have hr := hrange _ (List.getElem_mem hk1)
      have hcast : ∀ z : Int, 0 ≤ z → ((z.toNat : Nat) : Int) = z := fun z hz => Int.toNat_of_nonneg hz
      rw [if_pos (by omega), hpx2 _ _ (by omega) (by omega)
        (by rw [hcast _ (by omega), hcast _ (by omega)]; exact hr.2.2.2.2)]
    obtain ⟨y, extra, hextra⟩ := hbytes
    have hy : y < 256 := hrinv.bytes_lt y (by rw [hextra]; simp)
    obtain ⟨blks', hdeint, hrs⟩ := hfix y extra hy
    simp only [hrl, Out.bind_ok, hcapAt, hextra, hdeint]
    unfold rsLoop at hrs
    simp only [hrs, Out.bind_ok]
    have hsz : ebuf.buf.toList.toArray.size = cap.data := by simp [hEsize]
    simp only [hsz, Nat.lt_irrefl, if_false]
    have hext : ebuf.buf.toList.toArray.extract 0 cap.data = ebuf.buf := by
      rw [Array.toArray_toList, ← hEsize]; simp
    rw [hext, hSeg]
    rfl

end QRV.Lemmas.RR
