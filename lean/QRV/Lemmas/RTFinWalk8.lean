import QRV.Lemmas.RTWalk
/-
Kernel evaluation of the module walk, versions 1, 9, 24, 32, 33: the model's fuel suffices and there is
room for all codewords (`checkV`, see `RTWalk`).
-/
namespace QRV.Lemmas.RT
set_option maxRecDepth 1000000

theorem walk_ok_1 : checkV 1 = true := by decide +kernel
theorem walk_ok_9 : checkV 9 = true := by decide +kernel
theorem walk_ok_24 : checkV 24 = true := by decide +kernel
theorem walk_ok_32 : checkV 32 = true := by decide +kernel
theorem walk_ok_33 : checkV 33 = true := by decide +kernel

end QRV.Lemmas.RT
