import QRV.Model.Codec
import QRV.Spec.Codec
import QRV.Gen.SjisRef
import QRV.Lemmas.Finite
/-
Finite facts about the regenerated kanji / alphanumeric tables, by kernel evaluation over the
complete ranges (all 8,192 thirteen-bit codes; every cell of the five encode ranges; all 256 bytes).
`Gen.SjisRef.refPacked` is produced from CPython's cp932 codec, independently of /repo.
-/
namespace QRV.Lemmas.Kanji
open QRV.Model.Codec QRV.Spec.Codec QRV.Lemmas

set_option maxRecDepth 1000000

/-- reference: code point of the Shift JIS double byte of a 13-bit code, 0 = unassigned -/
def refAt (code : Nat) : Nat := entry16 Gen.SjisRef.refPacked code

/-- the decode table IS the reference on the whole 13-bit range: equal where the table is defined,
and the reference has no assigned character at or beyond the table's length -/
theorem decode_table_is_sjis :
    Gen.Kanji.decLen ≤ 8192 ∧
    Gen.Kanji.decPacked = Gen.SjisRef.refPacked % 2 ^ (16 * Gen.Kanji.decLen) ∧
    Gen.SjisRef.refPacked >>> (16 * Gen.Kanji.decLen) = 0 := by decide +kernel

/-- entry-wise form, for every 13-bit code -/
def decEntryOK (code : Nat) : Bool :=
  if code < Gen.Kanji.decLen then decodeKanjiCode code == some (refAt code) else (decodeKanjiCode code == none && refAt code == 0)

theorem decode_entries : ∀ code, code < 8192 → decEntryOK code = true :=
  forall_lt_of_all (by decide +kernel)

/-- every assigned character of the reference lies in the Shift JIS double-byte area the property
names: lead bytes 0x81-0x9F and 0xE0-0xEB, trail bytes 0x40-0xFC except 0x7F -/
def areaOK (code : Nat) : Bool :=
  refAt code == 0 ||
    (let (hi, lo) := sjisOf code
     ((0x81 ≤ hi && hi ≤ 0x9F) || (0xE0 ≤ hi && hi ≤ 0xEB)) && 0x40 ≤ lo && lo ≤ 0xFC && lo != 0x7F &&
     compact hi lo == code)

theorem assigned_area : ∀ code, code < 8192 → areaOK code = true :=
  forall_lt_of_all (by decide +kernel)

/-- every code with an assigned character is found again by the encoder, at that code or a smaller
one decoding to the same character (the smallest code is used when several map to one character) -/
def encLeastOK (code : Nat) : Bool :=
  let r := refAt code
  r == 0 ||
    match encodeKanjiRune r with
    | some c => c ≤ code && refAt c == r
    | none => false

theorem encode_is_least : ∀ code, code < 8192 → encLeastOK code = true :=
  forall_lt_of_all (by decide +kernel)

/-- every cell of the five encode ranges: either unassigned, or a code that decodes back -/
def encCellOK (low : Nat) (k : Nat) : Bool :=
  match encodeKanjiRune (low + k) with
  | some c => c < Gen.Kanji.decLen && refAt c == low + k && low + k != 0
  | none => true

theorem encode_cells0 : ∀ k, k < Gen.Kanji.enc0Len → encCellOK Gen.Kanji.enc0Low k = true :=
  forall_lt_of_all (by decide +kernel)
theorem encode_cells1 : ∀ k, k < Gen.Kanji.enc1Len → encCellOK Gen.Kanji.enc1Low k = true :=
  forall_lt_of_all (by decide +kernel)
theorem encode_cells2 : ∀ k, k < Gen.Kanji.enc2Len → encCellOK Gen.Kanji.enc2Low k = true :=
  forall_lt_of_all (by decide +kernel)
theorem encode_cells3 : ∀ k, k < Gen.Kanji.enc3Len → encCellOK Gen.Kanji.enc3Low k = true :=
  forall_lt_of_all (by decide +kernel)
theorem encode_cells4 : ∀ k, k < Gen.Kanji.enc4Len → encCellOK Gen.Kanji.enc4Low k = true :=
  forall_lt_of_all (by decide +kernel)

/-- the ranges are exactly as long as their tables -/
theorem encode_range_lengths :
    Gen.Kanji.enc0High + 1 - Gen.Kanji.enc0Low = Gen.Kanji.enc0Len ∧
    Gen.Kanji.enc1High + 1 - Gen.Kanji.enc1Low = Gen.Kanji.enc1Len ∧
    Gen.Kanji.enc2High + 1 - Gen.Kanji.enc2Low = Gen.Kanji.enc2Len ∧
    Gen.Kanji.enc3High + 1 - Gen.Kanji.enc3Low = Gen.Kanji.enc3Len ∧
    Gen.Kanji.enc4High + 1 - Gen.Kanji.enc4Low = Gen.Kanji.enc4Len := by decide +kernel

/-- class predicates and the alphanumeric tables over all 256 byte values / all 45 indices -/
def classOK (ch : Nat) : Bool :=
  alnumIdx ch == alnumValue ch && (isNumeric ch == (48 ≤ ch && ch ≤ 57))

theorem class_tables : ∀ ch, ch < 256 → classOK ch = true :=
  forall_lt_of_all (by decide +kernel)

theorem alnum_chars : ∀ i < 45, some (alnumChar i) = alnumChars[i]? := by decide +kernel

theorem alnum_len : Gen.Kanji.bitToAlnum.length = 45 ∧ Gen.Kanji.alnumIdx.length = 256 := by decide +kernel

end QRV.Lemmas.Kanji
