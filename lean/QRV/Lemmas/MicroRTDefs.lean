import QRV.Model.Micro
import QRV.Spec.Valid
import QRV.Lemmas.RTDefs
import QRV.Lemmas.TablesFinite
/-
Shared definitions for the round-trip proof C01 (Micro QR M1-M4): the list of stream slots visited
by the placement and the reading loop (a module coordinate, or a skipped stream bit: the M1/M3 quirk
after `dataBits` bits), the generated bitmaps of a version, the eight (version, level) pairs.
-/
namespace QRV.Lemmas.MRT
open QRV QRV.Model QRV.Model.Bits QRV.Model.Bitmap QRV.Model.Sym QRV.Spec.Tables QRV.Spec.Valid
open QRV.Lemmas.RT (fnOf rowBit)

/-- `strictInt z f = f z`, forcing `z` to a numeral under kernel evaluation (so that the walk state
does not grow into a chain of unevaluated terms) -/
@[inline] def strictInt {α : Type} (z : Int) (f : Int → α) : α :=
  match z with
  | .ofNat n => Spec.Patterns.strict n fun n => f (.ofNat n)
  | .negSucc n => Spec.Patterns.strict n fun n => f (.negSucc n)

theorem strict_eq {α : Type} (n : Nat) (f : Nat → α) : Spec.Patterns.strict n f = f n := by
  cases n <;> rfl

theorem strictInt_eq {α : Type} (z : Int) (f : Int → α) : strictInt z f = f z := by
  cases z <;> simp only [strictInt, strict_eq]

/-- the slot contributed by one module: nothing for a function module -/
def cell (f : Int → Int → Bool) (x y : Int) : List (Option (Int × Int)) :=
  if f x y then [] else [some (x, y)]

/-- the stream slots in visiting order: same control flow as `Model.Micro.placeLoop` and
`Model.Micro.readLoop`; slot k stands for bit k of the stream (counted from `rb`): `some (x, y)` is
the module that carries it, `none` a stream bit that is carried by no module (the encoder skips it,
the decoder writes a zero): after `dataBits` bits both loops move to the next byte boundary.
`none` as result = fuel exhausted. -/
def mslots (f : Int → Int → Bool) (w : Int) (dataBits : Nat) :
    (fuel : Nat) → Walk → Nat → Option (List (Option (Int × Int)))
  | 0, _, _ => none
  | fuel + 1, s, rb =>
    let l1 := cell f s.x s.y
    let x := s.x - 1
    if x < 0 then some l1
    else
      let l2 := cell f x s.y
      let x := x + 1
      let y := s.y + s.dy
      let (x, y, dy) := if y < 0 ∨ y > w then (x - 2, y + (-s.dy), -s.dy) else (x, y, s.dy)
      if x < 0 then some (l1 ++ l2)
      else
        let rb' := rb + (l1 ++ l2).length
        let pad : List (Option (Int × Int)) :=
          if rb' = dataBits then List.replicate ((8 - rb' % 8) % 8) none else []
        strictInt x fun x => strictInt y fun y => strictInt dy fun dy =>
        Spec.Patterns.strict (rb' + pad.length) fun r =>
        (mslots f w dataBits fuel { x, y, dy } r).map (fun cs => l1 ++ l2 ++ pad ++ cs)

/-- the used-module / base bitmap of version v as generated -/
def usedGen (v : Nat) : Gen.GBmp := Gen.Micro.usedList[v]?.getD default
def baseGen (v : Nat) : Gen.GBmp := Gen.Micro.baseList[v]?.getD default
def maskGen (m : Nat) : Gen.GBmp := Gen.Micro.maskList[m]?.getD default

/-- is (x, y) a function module of version v (white outside the symbol) -/
def usedFn (v : Nat) : Int → Int → Bool := fnOf (usedGen v).rows (usedGen v).stride (9 + 2 * v)

/-- the capacity row of a pair -/
def capOf (v l : Nat) : Gen.GCap := ((Gen.Micro.capacityTable[v]?.getD [])[l]?).getD default

/-- the slots of a (version, level) pair, with the model's start state and fuel -/
def slotsOf (v l : Nat) : Option (List (Option (Int × Int))) :=
  mslots (usedFn v) (8 + 2 * (v : Int)) (capOf v l).dataBits
    ((8 + 2 * (v : Int) + 3) * (8 + 2 * (v : Int) + 3)).toNat
    { x := 8 + 2 * (v : Int), y := 8 + 2 * (v : Int), dy := -1 } 0

/-- the eight (version, level indicator) pairs of Micro QR (18004 Table 9, from `Spec.Tables`) -/
def pairs : List (Nat × Nat) := micro.map (·.1)

theorem lookup_isSome_mem {α β : Type} [BEq α] [LawfulBEq α] (a : α) (l : List (α × β))
    (h : (l.lookup a).isSome = true) : a ∈ l.map (·.1) := by
  induction l with
  | nil => simp [List.lookup] at h
  | cons p l ih =>
    obtain ⟨k, b⟩ := p
    rw [List.lookup_cons] at h
    by_cases hk : (a == k) = true
    · have : a = k := by simpa using hk
      subst this
      simp
    · have hk' : (a == k) = false := by simpa using hk
      rw [hk'] at h
      simp only [List.map_cons, List.mem_cons]
      exact Or.inr (ih h)

/-- a valid description names one of the eight pairs -/
theorem valid_pair (q : QRCode) (hv : Micro.Valid q) : (q.version.toNat, q.level.toNat) ∈ pairs := by
  have h := hv.pair
  unfold Micro.dataBits at h
  rw [Option.isSome_map] at h
  exact lookup_isSome_mem _ _ h

/-- lifting a kernel-evaluated check over the eight pairs -/
theorem of_pairs {P : Nat → Nat → Bool} (h : pairs.all (fun p => P p.1 p.2) = true) (v l : Nat)
    (hm : (v, l) ∈ pairs) : P v l = true :=
  List.all_eq_true.mp h (v, l) hm

end QRV.Lemmas.MRT
