import QRV.Spec.Valid
import QRV.Lemmas.Finite
/-
C04Ext helper: a QR segment whose standard bit length fits the data capacity of (version, level)
has a character count below the limit of its count indicator.  `bodyBits` is monotone in the count,
and a segment of `2 ^ countBits` characters exceeds every capacity (kernel evaluation, 40 x 4 x 4).
-/
namespace QRV.Lemmas.FitCount
open QRV QRV.Model.Sym QRV.Spec.Valid

theorem bodyBits_succ (k n : Nat) : bodyBits k n ≤ bodyBits k (n + 1) := by
  unfold bodyBits
  split
  · repeat' split
    all_goals omega
  · omega
  · omega
  · omega

theorem bodyBits_mono (k : Nat) {m n : Nat} (h : m ≤ n) : bodyBits k m ≤ bodyBits k n := by
  induction n with
  | zero =>
    have : m = 0 := by omega
    subst this; exact Nat.le_refl _
  | succ n ih =>
    by_cases he : m = n + 1
    · subst he; exact Nat.le_refl _
    · exact Nat.le_trans (ih (by omega)) (bodyBits_succ k n)

/-- a segment of `2 ^ countBits` characters does not fit -/
def overOK (v level k : Nat) : Bool :=
  decide (8 * Spec.Tables.dataCodewords v level < 4 + QR.countBits k v + bodyBits k (2 ^ QR.countBits k v))

theorem over_all :
    (List.range 41).all (fun v => v == 0 ||
      (List.range 4).all (fun level => (List.range 4).all (overOK v level))) = true := by
  decide +kernel

theorem over (v level k : Nat) (h1 : 1 ≤ v) (h40 : v ≤ 40) (hl : level < 4) (hk : k < 4) :
    8 * Spec.Tables.dataCodewords v level < 4 + QR.countBits k v + bodyBits k (2 ^ QR.countBits k v) := by
  have h := forall_lt_of_all over_all v (by omega)
  simp only [Bool.or_eq_true, beq_iff_eq] at h
  rcases h with h | h
  · omega
  · have := forall_lt_of_all (forall_lt_of_all h level hl) k hk
    unfold overOK at this
    exact of_decide_eq_true this

theorem kindOf_lt {mode k : Nat} (hk : QR.kindOf mode = some k) : k < 4 := by
  unfold QR.kindOf at hk
  repeat' split at hk
  all_goals first | (cases hk; omega) | cases hk

theorem qr_fit_implies_count (v level : Nat) (h1 : 1 ≤ v) (h40 : v ≤ 40) (hl : level < 4) (s : Segment) (k : Nat)
    (hk : Spec.Valid.QR.kindOf s.mode = some k)
    (hfit : Spec.Valid.QR.segBits s v ≤ 8 * Spec.Tables.dataCodewords v level) :
    count k s.data < 2 ^ Spec.Valid.QR.countBits k v := by
  apply Classical.byContradiction
  intro hge
  have hmono := bodyBits_mono k (Nat.le_of_not_lt hge)
  have hover := over v level k h1 h40 hl (kindOf_lt hk)
  unfold Spec.Valid.QR.segBits at hfit
  rw [hk] at hfit
  simp only at hfit
  omega

end QRV.Lemmas.FitCount
