import QRV.Lemmas.RTFinWalk1
import QRV.Lemmas.RTFinWalk2
import QRV.Lemmas.RTFinWalk3
import QRV.Lemmas.RTFinWalk4
import QRV.Lemmas.RTFinWalk5
import QRV.Lemmas.RTFinWalk6
import QRV.Lemmas.RTFinWalk7
import QRV.Lemmas.RTFinWalk8
/-
The module walk of every QR version 1-40: combination of the per-version kernel evaluations.
-/
namespace QRV.Lemmas.RT
open QRV QRV.Model QRV.Model.Bits QRV.Model.Bitmap QRV.Model.Sym QRV.Props

theorem checkV_all (v : Nat) (h1 : 1 ≤ v) (h40 : v ≤ 40) : checkV v = true :=
  match v, h1, h40 with
  | 1, _, _ => walk_ok_1
  | 2, _, _ => walk_ok_2
  | 3, _, _ => walk_ok_3
  | 4, _, _ => walk_ok_4
  | 5, _, _ => walk_ok_5
  | 6, _, _ => walk_ok_6
  | 7, _, _ => walk_ok_7
  | 8, _, _ => walk_ok_8
  | 9, _, _ => walk_ok_9
  | 10, _, _ => walk_ok_10
  | 11, _, _ => walk_ok_11
  | 12, _, _ => walk_ok_12
  | 13, _, _ => walk_ok_13
  | 14, _, _ => walk_ok_14
  | 15, _, _ => walk_ok_15
  | 16, _, _ => walk_ok_16
  | 17, _, _ => walk_ok_17
  | 18, _, _ => walk_ok_18
  | 19, _, _ => walk_ok_19
  | 20, _, _ => walk_ok_20
  | 21, _, _ => walk_ok_21
  | 22, _, _ => walk_ok_22
  | 23, _, _ => walk_ok_23
  | 24, _, _ => walk_ok_24
  | 25, _, _ => walk_ok_25
  | 26, _, _ => walk_ok_26
  | 27, _, _ => walk_ok_27
  | 28, _, _ => walk_ok_28
  | 29, _, _ => walk_ok_29
  | 30, _, _ => walk_ok_30
  | 31, _, _ => walk_ok_31
  | 32, _, _ => walk_ok_32
  | 33, _, _ => walk_ok_33
  | 34, _, _ => walk_ok_34
  | 35, _, _ => walk_ok_35
  | 36, _, _ => walk_ok_36
  | 37, _, _ => walk_ok_37
  | 38, _, _ => walk_ok_38
  | 39, _, _ => walk_ok_39
  | 40, _, _ => walk_ok_40
  | 0, h, _ => absurd h (by decide)
  | n + 41, _, h => absurd h (by omega)

/-- per version: the model's fuel suffices and there is room for all codewords -/
theorem walk_version (v : Nat) (h1 : 1 ≤ v) (h40 : v ≤ 40) :
    ∃ cs, walk (usedFn v) (16 + 4 * (v : Int)) (fuelOf (16 + 4 * (v : Int))) (start (16 + 4 * (v : Int))) = some cs ∧
      8 * Spec.Tables.totalCodewords v ≤ cs.length :=
  walk_of_check v (checkV_all v h1 h40)

end QRV.Lemmas.RT
