import QRV.Lemmas.C03MicroLift
/-
C03 for whole Micro QR symbols with damaged format information: `decode_spec'` and `corrects_rated_damage_nat`
(`Lemmas/C03MicroLift.lean`) once more, with the format step factored out: instead of "the format modules hold the
code word of (symbol number, mask)" they assume that the raw word read from the bitmap decodes to (version, level,
mask).  `Model.Micro.decodeBitmap` reads no function module other than the 15 format modules: version AND level come
from the format word (symbol number), the size of the bitmap is only checked against that version.
-/
open QRV QRV.Model QRV.Model.Bitmap QRV.Model.Sym QRV.Props QRV.Props.C18 QRV.Model.Bits QRV.Spec.Bits
open QRV.Spec.Valid
open QRV.Lemmas.RT (parityOf parityOf_facts)
namespace QRV.Lemmas.MRT

/-- `decode_spec'` with the reading of the format information as a hypothesis -/
theorem decode_spec_fmt (v l m : Nat) (h1 : 1 ≤ v) (h4 : v ≤ 4)
    (segments : List Segment) (img3 img4 used pat : Image) (raw : Nat) (sl : List (Option (Int × Int)))
    (cw' cw data : List Nat) (cap : Gen.GCap)
    (hr3 : Regular img3 (9 + 2 * v) (9 + 2 * v)) (hr4 : Regular img4 (9 + 2 * v) (9 + 2 * v))
    (hru : Regular used (9 + 2 * v) (9 + 2 * v)) (hrp : Regular pat 24 17)
    (hmask : Image.mask img3 used pat = .ok img4)
    (hused : imgAt Model.Micro.usedList (v : Int) = .ok (some used))
    (hpat : imgAt Model.Micro.maskList (m : Int) = .ok (some pat))
    (hbin : ∀ x y, used.binaryAt x y = .ok (usedFn v x y))
    (hread : readRawM img4 = .ok raw)
    (hdec : Model.Micro.decodeFormat raw = .ok (some ((v : Int), (l : Int), (m : Int))))
    (hcap : capAt Gen.Micro.capacityTable (v : Int) (l : Int) = .ok cap)
    (hsl : mslots (usedFn v) (8 + 2 * (v : Int)) cap.dataBits ((8 + 2 * (v : Int) + 3) * (8 + 2 * (v : Int) + 3)).toNat
      { x := 8 + 2 * (v : Int), y := 8 + 2 * (v : Int), dy := -1 } 0 = some sl)
    (hlen : sl.length = 8 * cw'.length) (hcwb : ∀ b ∈ cw', b < 256)
    (hrange : ∀ (k : Nat) (c : Int × Int), sl[k]? = some (some c) →
      0 ≤ c.1 ∧ c.1 ≤ 8 + 2 * (v : Int) ∧ 0 ≤ c.2 ∧ c.2 ≤ 8 + 2 * (v : Int))
    (hbits : ∀ (k : Nat) (c : Int × Int) (b : Bool), sl[k]? = some (some c) → (unpack cw')[k]? = some b →
      px img3 c.1.toNat c.2.toNat = b)
    (hnone : ∀ k : Nat, sl[k]? = some none → (unpack cw')[k]? = some false)
    (hrs : RS.decode cw' (cap.correction : Int) = .ok cw) (hdata : cw.take cap.data = data)
    (hdl : cap.data ≤ cw.length)
    (hseg : Model.Micro.segmentLoop (v : Int) (cap.data * 8 + 8) { buf := data.toArray } #[] = .ok segments) :
    Model.Micro.decodeBitmap img4 = .ok { version := v, level := l, mask := m, segments := segments } := by
  unfold Model.Micro.decodeBitmap Model.Micro.decodeBitmapFull
  have hdx : img4.dx = ((9 + 2 * v : Nat) : Int) := by unfold Image.dx; rw [hr4.maxX, hr4.minX]; omega
  have hdy : img4.dy = ((9 + 2 * v : Nat) : Int) := by unfold Image.dy; rw [hr4.maxY, hr4.minY]; omega
  simp only [regular_normalised img4 _ hr4, Std.Legacy.Range.forIn_eq_forIn_range', Std.Legacy.Range.size,
    Nat.sub_zero, Nat.add_sub_cancel, Nat.div_one]
  -- format information
  have hloop := hread
  unfold readRawM at hloop
  have hinv := mask_involutive img3 used pat img4 _ _ 24 17 (by omega) (by omega) hr3 hru hrp (by omega) (by omega) hmask
  simp only [hloop, Out.bind_ok, hdec, hdx, hdy]
  rw [if_neg (by omega)]
  simp only [hused, hpat, deref, Out.bind_ok, hinv, hcap]
  -- reading
  obtain ⟨rbuf, hrl, hrinv, hrabs⟩ := readLoop_eq used img3 (usedFn v)
    (fun x y => if 0 ≤ x ∧ x < ((9 + 2 * v : Nat) : Int) ∧ 0 ≤ y ∧ y < ((9 + 2 * v : Nat) : Int) then px img3 x.toNat y.toNat else false)
    hbin (fun x y => binaryAt_spec img3 _ _ hr3 x y) (8 + 2 * (v : Int)) cap.dataBits _ _ 0 sl {} hsl C16.inv_empty rfl
  rw [C16.abs_empty, List.nil_append] at hrabs
  have hstream : rbuf.buf.toList = cw' := by
    rw [C16.bytes_are_packing rbuf hrinv, hrabs]
    have : sl.map (slotVal fun x y => if 0 ≤ x ∧ x < ((9 + 2 * v : Nat) : Int) ∧ 0 ≤ y ∧ y < ((9 + 2 * v : Nat) : Int)
        then px img3 x.toNat y.toNat else false) = unpack cw' := by
      apply List.ext_getElem?
      intro k
      rw [List.getElem?_map]
      cases hk : sl[k]? with
      | none =>
        have : sl.length ≤ k := by
          rcases Nat.lt_or_ge k sl.length with h | h
          · rw [List.getElem?_eq_getElem h] at hk; cases hk
          · exact h
        rw [List.getElem?_eq_none (by rw [Lemmas.Bits.length_unpack]; omega)]
        rfl
      | some o =>
        have hklt : k < sl.length := by
          rcases Nat.lt_or_ge k sl.length with h | h
          · exact h
          · rw [List.getElem?_eq_none h] at hk; cases hk
        have hku : k < (unpack cw').length := by rw [Lemmas.Bits.length_unpack]; omega
        cases o with
        | none =>
          rw [hnone k hk]
          rfl
        | some c' =>
          have hb := hbits k c' _ hk (List.getElem?_eq_getElem hku)
          obtain ⟨r1, r2, r3, r4⟩ := hrange k c' hk
          rw [List.getElem?_eq_getElem hku, ← hb]
          simp only [Option.map_some, slotVal]
          rw [if_pos (by omega)]
    rw [this]
    exact Lemmas.Bits.pack_unpack cw' hcwb
  simp only [hrl, Out.bind_ok, hstream, Model.Micro.RS_SYNDROMES, hrs]
  rw [if_neg (by omega), if_neg (by omega)]
  simp only [pure_bind, hdata, hseg, Out.bind_ok]
  rfl

/-- the whole-symbol lifting (`corrects_rated_damage_nat`) with the hypothesis on the function modules replaced by
what the decoder needs of them: the raw format word of `img'` decodes to (version, level, mask).  No other function
module is looked at by `decodeBitmap` -/
theorem corrects_rated_damage_fmt_nat (v l : Nat) (mask : Int) (segments : List Segment) (hp : (v, l) ∈ pairs)
    (hs : ∀ s ∈ segments, SegOK v s)
    (hfit : (segments.map fun s => Spec.Valid.Micro.segBits s v).sum ≤ (capOf v l).dataBits)
    (hne : ∀ s ∈ segments, s.data ≠ []) (hm1 : -1 ≤ mask) (hm3 : mask ≤ 3)
    (img : Image) (m : Nat)
    (henc : Model.Micro.encodeToBitmap { version := v, level := l, mask := mask, segments := segments } = .ok img)
    (hmask : Model.Micro.decodeBitmap img = .ok { version := v, level := l, mask := (m : Int), segments := segments })
    (buf : Buffer)
    (hbuf : Model.Micro.encodeSegments { version := v, level := l, mask := mask, segments := segments } {} = .ok buf)
    (sl : List (Option (Int × Int))) (hsl : slotsOf v l = some sl)
    (img' : Image) (hreg : Regular img' (9 + 2 * v) (9 + 2 * v))
    (raw' : Nat) (hread : readRawM img' = .ok raw')
    (hdecf : Model.Micro.decodeFormat raw' = .ok (some ((v : Int), (l : Int), (m : Int))))
    (cw' : List Nat) (hlen : cw'.length = buf.buf.size) (hbytes : ∀ c ∈ cw', c < 256)
    (hcarry : Carries img' m sl cw')
    (hdam : C14.dist buf.buf.toList cw' ≤ (((capOf v l).blocks.head?.map (·.maxError)).getD 0)) :
    Model.Micro.decodeBitmap img' = .ok { version := v, level := l, mask := (m : Int), segments := segments } := by
  -- the clean symbol
  obtain ⟨f, m0, c, data, fbuf, sl0, img4, hf8, hm4, hraw, hc, hE, hfbytes, hdl, hdb, hfb, hsl0, hsllen, hrange,
    henc0, hr4, hfc4, -, hseg, hdec0⟩ := roundtrip_exposed v l mask segments hp hs hfit hne hm1 hm3
  rw [henc] at henc0
  cases henc0
  rw [hmask] at hdec0
  have hmm : m = m0 := by
    have := congrArg (fun o => match o with | Out.ok (q : QRCode) => q.mask | _ => 0) hdec0
    simp only at this
    omega
  subst hmm
  rw [hbuf] at hE
  cases hE
  rw [hsl] at hsl0
  cases hsl0
  obtain ⟨hv1, hv4, hl4, hcap, -, ⟨hD4, hDd, hd, h2, h68⟩, -, -⟩ := pair_facts v l hp
  obtain ⟨-, hused, -, hru, hbin, -⟩ := version_images v hv1 hv4
  obtain ⟨pat, hpat, hrp, hpatpx⟩ := mask_image_px m hm4
  obtain ⟨img3, hm3', hr3⟩ := mask_ok img' _ pat _ _ 24 17 (by omega) (by omega) hreg hru hrp (by omega) (by omega)
  have hinv := mask_involutive img' _ pat img3 _ _ 24 17 (by omega) (by omega) hreg hru hrp (by omega) (by omega) hm3'
  obtain ⟨pl, -, -, -⟩ := parityOf_facts (capOf v l).correction h2 h68 data hdb
  have hblen : buf.buf.toList.length = (capOf v l).data + (capOf v l).correction := by
    rw [hfbytes, List.length_append, hdl, pl]
  have hlen' : cw'.length = (capOf v l).data + (capOf v l).correction := by
    rw [hlen, ← hblen, Array.length_toList]
  -- error correction
  have hrs : RS.decode cw' ((capOf v l).correction : Int) = .ok buf.buf.toList := by
    rw [hfbytes]
    rw [hfbytes] at hdam
    exact block_fix v l hp data cw' hdl hdb hlen' hbytes hdam
  have hcast : ∀ z : Int, 0 ≤ z → ((z.toNat : Nat) : Int) = z := fun z hz => Int.toNat_of_nonneg hz
  have hslen : sl.length = 8 * cw'.length := by rw [hsllen, hblen, hlen']
  refine decode_spec_fmt v l m hv1 hv4 segments img3 img' _ pat raw' sl cw' buf.buf.toList data (capOf v l)
    hr3 hreg hru hrp hinv hused hpat hbin hread hdecf hcap hsl hslen hbytes
    (fun k c hk => ⟨(hrange k c hk).1, (hrange k c hk).2.1, (hrange k c hk).2.2.1, (hrange k c hk).2.2.2.1⟩)
    ?_ ?_ hrs ?_ ?_ hseg
  · -- data modules
    intro k c' b hk hb
    obtain ⟨x, y⟩ := c'
    have hklt : k < sl.length := by
      rcases Nat.lt_or_ge k sl.length with h | h
      · exact h
      · rw [List.getElem?_eq_none h] at hk; cases hk
    obtain ⟨r1, r2, r3, r4, r5⟩ := hrange k (x, y) hk
    simp only at r1 r2 r3 r4 r5
    have hx : x.toNat < 9 + 2 * v := by omega
    have hy : y.toNat < 9 + 2 * v := by omega
    have hck := hcarry k hklt
    have hsk : sl[k] = some (x, y) := by
      rw [List.getElem?_eq_getElem hklt] at hk
      exact Option.some.inj hk
    rw [hsk] at hck
    simp only at hck
    show px img3 x.toNat y.toNat = b
    rw [mask_spec img' _ pat img3 _ _ 24 17 (by omega) (by omega) hreg hru hrp (by omega) (by omega) hm3'
        _ _ hx hy, used_px v _ hru hbin _ _ hx hy, hcast _ r1, hcast _ r3, r5,
      hpatpx _ _ (by omega) (by omega), hck, hb, Option.getD_some]
    cases b <;> cases Spec.Patterns.Micro.maskCond m y.toNat x.toNat <;> rfl
  · -- the stream bits no module carries
    intro k hk
    have hklt : k < sl.length := by
      rcases Nat.lt_or_ge k sl.length with h | h
      · exact h
      · rw [List.getElem?_eq_none h] at hk; cases hk
    have hku : k < (unpack cw').length := by rw [Lemmas.Bits.length_unpack]; omega
    have hck := hcarry k hklt
    have hsk : sl[k] = none := by
      rw [List.getElem?_eq_getElem hklt] at hk
      exact Option.some.inj hk
    rw [hsk] at hck
    simp only at hck
    rw [List.getElem?_eq_getElem hku, Option.getD_some] at hck
    rw [List.getElem?_eq_getElem hku, hck]
  · rw [hfbytes, ← hdl, List.take_left' rfl]
  · rw [hblen]; omega

end QRV.Lemmas.MRT
