import QRV.Lemmas.NewKanjiValid
/-
C05 (too large), kanji-aware mode selection `newKanjiSegs`: cost accounting of the back-tracked chain.

`ChainK data S k m rps`: the entry `(k, m)` of the table ends a chain of pieces that covers `data[0:k]`, and
`rps` is the list of these pieces, LAST PIECE FIRST (the order in which the back-tracking collects them), each
with the DP mode of the column it was read from.  `dpcR rps` is the cost the programme charges for that chain:
for every piece the unit cost of its mode, plus the header cost of the mode whenever the mode differs from the
one of the preceding piece (the first piece always pays a header).

* `cost_step`: every finite entry is at least the cost of its chain (in fact equal; `≤` is what is needed).
* `tailK_chain`: the back-tracking returns `mergeSegs` of the chain of a cheapest entry of the last row, whose
  cost is at most the byte-mode entry of that row, which is at most `120 + 48 n` (`InvK.C`).
* `newKanji_chain`: the result of `newKanjiSegs`.
-/
namespace QRV.Lemmas.NewKanjiCost
open QRV QRV.Model QRV.Model.Sym QRV.Model.New QRV.Model.Codec QRV.Lemmas.NewDP QRV.Lemmas.NewKanjiValid

/-- cost of one piece of DP mode `m`, in sixths of a bit -/
def U (m : Nat) : Nat := if m = 1 then 20 else if m = 2 then 33 else if m = 3 then 48 else 78
/-- header cost the kanji programme charges for DP mode `m` (the QR version-40 widths), in sixths -/
def Hd (m : Nat) : Nat := if m = 1 then 108 else if m = 2 then 102 else if m = 3 then 120 else 96

theorem Hd_le (m : Nat) : Hd m ≤ 120 := by
  unfold Hd; repeat' split
  all_goals omega

/-- the cost the programme charges for a chain of pieces (last piece first) -/
def dpcR : List (Nat × List Nat) → Nat
  | [] => 0
  | q :: rest => dpcR rest + U q.1 + (if (rest.head?.map (·.1)).getD 0 ≠ q.1 then Hd q.1 else 0)

/-- entry `(k, m)` ends a chain of pieces covering `data[0:k]`; `rps` = the pieces, last first -/
inductive ChainK (data : Array Nat) (S : Array (Array StK)) : Nat → Nat → List (Nat × List Nat) → Prop
  | base (k m : Nat) : (gK S k m).lastMode = 0 → (gK S k m).data = some (0, k) → 1 ≤ k →
      ChainK data S k m [(m, sliceK data (some (0, k)))]
  | step (k m s len : Nat) (rps : List (Nat × List Nat)) : (gK S k m).lastMode ≠ 0 →
      (gK S k m).data = some (s, len) → 1 ≤ len → s + len = k → 1 ≤ s →
      ChainK data S s (gK S k m).lastMode rps → ChainK data S k m ((m, sliceK data (some (s, len))) :: rps)

theorem ChainK.head {data : Array Nat} {S : Array (Array StK)} {k m : Nat} {rps : List (Nat × List Nat)}
    (h : ChainK data S k m rps) : rps.head?.map (·.1) = some m := by
  cases h <;> rfl

theorem ChainK.frame {data : Array Nat} {S S' : Array (Array StK)} {k m : Nat} {rps : List (Nat × List Nat)}
    (hp : ChainK data S k m rps) :
    (∀ k' m', k' ≤ k → (gK S' k' m').lastMode = (gK S k' m').lastMode ∧ (gK S' k' m').data = (gK S k' m').data) →
    ChainK data S' k m rps := by
  induction hp with
  | base k m h1 h2 h3 =>
    intro hag
    obtain ⟨a, b⟩ := hag k m (Nat.le_refl _)
    exact .base k m (a.trans h1) (b.trans h2) h3
  | step k m s len rps h1 h2 h3 h4 h5 _ ih =>
    intro hag
    obtain ⟨a, b⟩ := hag k m (Nat.le_refl _)
    refine .step k m s len rps (a ▸ h1) (b.trans h2) h3 h4 h5 ?_
    rw [a]
    exact ih (fun k' m' hk' => hag k' m' (by omega))

theorem ChainK.of_path (data : Array Nat) {S : Array (Array StK)} {k m : Nat} (h : PathK S k m) :
    ∃ rps, ChainK data S k m rps := by
  induction h with
  | base k m h1 h2 h3 => exact ⟨_, .base k m h1 h2 h3⟩
  | step k m s len h1 h2 h3 h4 h5 _ ih =>
    obtain ⟨rps, hr⟩ := ih
    exact ⟨_, .step k m s len rps h1 h2 h3 h4 h5 hr⟩

/-- a piece: a non-empty slice of the payload of the class of its DP mode -/
def PieceOK (data : Array Nat) (q : Nat × List Nat) : Prop :=
  ∃ s len, 1 ≤ len ∧ q.2 = sliceK data (some (s, len)) ∧ ClassP data q.1 s len

theorem ChainK.pieces {data : Array Nat} {S : Array (Array StK)} (hC : ClsK data S) {k m : Nat}
    {rps : List (Nat × List Nat)} (h : ChainK data S k m rps) : ∀ q ∈ rps, PieceOK data q := by
  induction h with
  | base k m h1 h2 h3 =>
    intro q hq
    simp only [List.mem_singleton] at hq
    subst hq
    exact ⟨0, k, h3, rfl, hC k m 0 k h2 h3⟩
  | step k m s len rps h1 h2 h3 h4 h5 _ ih =>
    intro q hq
    rcases List.mem_cons.1 hq with hq | hq
    · subst hq
      exact ⟨s, len, h3, rfl, hC k m s len h2 h3⟩
    · exact ih q hq

/-! ### every finite entry is at least the cost of its chain -/

def CostInv (data : Array Nat) (i : Nat) (S : Array (Array StK)) : Prop :=
  ∀ k m rps, 1 ≤ m → m ≤ 4 → k ≤ data.size → (k ≤ i ∨ m = 4) → (gK S k m).cost < inf →
    ChainK data S k m rps → dpcR rps ≤ (gK S k m).cost

theorem cost_init (data : Array Nat) : CostInv data 0 (initK data.size) := by
  intro k m rps _ _ _ _ _ hch
  have hn := (gK_init_lastMode data.size k m).2
  cases hch with
  | base _ _ h1 h2 h3 => rw [hn] at h2; cases h2
  | step _ _ s len rps h1 h2 h3 h4 h5 h6 => rw [hn] at h2; cases h2

theorem cost_step {data : Array Nat} {i : Nat} {S : Array (Array StK)} (hI : InvK data i S)
    (hC : CostInv data i S) (hi : i < data.size) : CostInv data (i + 1) (stepK data i S) := by
  obtain ⟨hsh, hcl⟩ := stepK_cases data hI.shape i hi
  have hrs : kanC data i → 1 ≤ rsz data i := fun hc => decodeRune_size_pos _ hc.1
  have hsame : ∀ k m, k ≤ i → Same (gK (stepK data i S) k m) (gK S k m) := by
    intro k m hk
    rcases hcl k m with h | h | h | h
    · exact h.1
    · omega
    · have := hrs h.2.1; omega
    · omega
  have hback : ∀ k m rps, k ≤ i → ChainK data (stepK data i S) k m rps → ChainK data S k m rps := by
    intro k m rps hk hc
    exact hc.frame (fun k' m' hk' => ⟨((hsame k' m' (by omega)).1).symm, ((hsame k' m' (by omega)).2.1).symm⟩)
  -- a new entry whose predecessor is chosen by `trans`
  have hnew : ∀ k m len rps, 1 ≤ m → m ≤ 4 → 1 ≤ len →
      gK (stepK data i S) k m = mkK (transK (rowK i S) m (U m) (Hd m)) (some (i, len)) →
      (gK (stepK data i S) k m).cost < inf → ChainK data (stepK data i S) k m rps →
      dpcR rps ≤ (gK (stepK data i S) k m).cost := by
    intro k m len rps hm1 hm4 hl he hc hch
    obtain ⟨h4, h0, hne, _, hle⟩ := transK_spec (rowK i S) m (U m) (Hd m)
    have hrow := rowK_get hI.shape i (by omega)
    obtain ⟨e0, e1⟩ := newEntry_ok hI hi m (U m) (Hd m) (Hd_le m)
    have hlm : (gK (stepK data i S) k m).lastMode = (transK (rowK i S) m (U m) (Hd m)).2 := by rw [he]; rfl
    have hcost : (gK (stepK data i S) k m).cost = (transK (rowK i S) m (U m) (Hd m)).1 := by rw [he]; rfl
    have hdat : (gK (stepK data i S) k m).data = some (i, len) := by rw [he]; rfl
    cases hch with
    | base _ _ h1 h2 h3 =>
      rw [hlm] at h1
      rw [hcost, h0 h1]
      show 0 + U m + (if (0 : Nat) ≠ m then Hd m else 0) ≤ _
      rw [if_pos (by omega)]
      omega
    | step _ _ s len' rps' h1 h2 h3 h4' h5 h6 =>
      rw [hdat] at h2
      cases h2
      rw [hlm] at h1 h6
      by_cases hi0 : i = 0
      · exact absurd (e0 hi0) h1
      · rw [hcost] at hc
        obtain ⟨_, hl4, hcl'⟩ := e1 (by omega) hc
        have h6' := hback _ _ _ (Nat.le_refl _) h6
        have ih := hC i _ rps' (Nat.pos_of_ne_zero h1) hl4 (by omega) (.inl (Nat.le_refl _)) hcl' h6'
        have hhead := h6'.head
        show dpcR rps' + U m + (if (rps'.head?.map (·.1)).getD 0 ≠ m then Hd m else 0) ≤ _
        have hrl := hrow (transK (rowK i S) m (U m) (Hd m)).2
        rw [if_neg (by omega)] at hrl
        rw [hhead, hcost, hne h1]
        unfold cstK
        rw [hrl]
        simp only [Option.getD_some]
        omega
  intro k m rps hm1 hm4 hkn hor hc hch
  rcases hcl k m with h | h | h | h
  · -- an entry written earlier
    obtain ⟨hs, _, _, hn123⟩ := h
    have hcS : (gK S k m).cost < inf ∧ (gK (stepK data i S) k m).cost = (gK S k m).cost := by
      rcases hs.2.2 with h' | h'
      · exact ⟨h' ▸ hc, h'⟩
      · rw [h'] at hc; exact absurd hc (Nat.lt_irrefl _)
    rw [hcS.2]
    by_cases hki : k ≤ i
    · exact hC k m rps hm1 hm4 hkn (.inl hki) hcS.1 (hback k m rps hki hch)
    · have hm : m = 4 := by
        rcases hor with h | h
        · apply Classical.byContradiction
          intro hm
          exact hn123 ⟨by omega, hm1, by omega⟩
        · exact h
      subst hm
      refine hC k 4 rps hm1 hm4 hkn (.inr rfl) hcS.1 ?_
      have hdne : (gK S k 4).data ≠ none := by
        rw [← hs.2.1]
        cases hch with
        | base _ _ h1 h2 h3 => rw [h2]; simp
        | step _ _ s len rps h1 h2 h3 h4 h5 h6 => rw [h2]; simp
      obtain ⟨s, len, hd, hl, hsl, hsi, _⟩ := hI.B k (by omega) hkn hcS.1 hdne
      cases hch with
      | base _ _ h1 h2 h3 => exact .base _ _ (hs.1 ▸ h1) (hs.2.1 ▸ h2) h3
      | step _ _ s' len' rps' h1 h2 h3 h4 h5 h6 =>
        have : some (s', len') = some (s, len) := by rw [← h2, hs.2.1, hd]
        cases this
        rw [hs.1] at h1 h6
        exact .step _ _ s len rps' h1 hd h3 h4 h5 (hback _ _ _ hsi h6)
  · -- numeric / alphanumeric / bytes
    obtain ⟨hk, _, hm3, he⟩ := h
    have hmc : m = 3 ∨ m = 2 ∨ m = 1 := by omega
    rcases hmc with rfl | rfl | rfl
    · refine hnew _ 3 1 rps (by omega) (by omega) (Nat.le_refl _) ?_ hc hch
      rw [he]; rfl
    · unfold new123 at he
      rw [if_neg (by omega), if_pos rfl] at he
      by_cases hal : isAlphanumeric data[i]! = true
      · rw [if_pos hal] at he
        exact hnew _ 2 1 rps (by omega) (by omega) (Nat.le_refl _) he hc hch
      · rw [if_neg hal] at he
        rw [he] at hc
        exact absurd hc (Nat.lt_irrefl _)
    · unfold new123 at he
      rw [if_neg (by omega), if_neg (by omega)] at he
      by_cases hnu : isNumeric data[i]! = true
      · rw [if_pos hnu] at he
        exact hnew _ 1 1 rps (by omega) (by omega) (Nat.le_refl _) he hc hch
      · rw [if_neg hnu] at he
        rw [he] at hc
        exact absurd hc (Nat.lt_irrefl _)
  · -- kanji
    obtain ⟨hm, hkc, hk, he⟩ := h
    subst hm
    exact hnew _ 4 (rsz data i) rps (by omega) (by omega) (hrs hkc) he hc hch
  · rw [h.2.2] at hc
    exact absurd hc (Nat.lt_irrefl _)

/-! ### the back-tracking collects the chain of the entry it starts from -/

def ChainInv (data : Array Nat) (S : Array (Array StK)) (bm0 : Nat) (s : BackSt) : Prop :=
  (s.2.2.2 = false → ∃ pre, s.2.1.toList = pre ++ [(s.1, sliceK data (gK S s.2.2.1 s.1).data)] ∧
    ∀ rps, ChainK data S s.2.2.1 s.1 rps → ChainK data S data.size bm0 (pre ++ rps)) ∧
  (s.2.2.2 = true → ChainK data S data.size bm0 s.2.1.toList)

theorem backMK_chain (data : Array Nat) (S : Array (Array StK)) (bm0 t : Nat) (s s' : BackSt)
    (hJ : BackInv data S t s) (hK : ChainInv data S bm0 s) (h : backMK data S t s = .ok (.yield s')) :
    ChainInv data S bm0 s' := by
  obtain ⟨bm, best, i, fin⟩ := s
  obtain ⟨_, hF, _⟩ := hJ
  obtain ⟨hKF, hKT⟩ := hK
  simp only at hF hKF hKT
  unfold backMK at h
  cases fin with
  | true =>
    rw [if_neg (by simp)] at h
    cases h
    exact ⟨fun hf => (by cases hf), hKT⟩
  | false =>
    rw [if_pos (by rfl)] at h
    obtain ⟨hp, _, _, _, _, _, _⟩ := hF rfl
    obtain ⟨pre, hpre, hall⟩ := hKF rfl
    simp only [] at h
    cases hp with
    | base _ _ h1 h2 h3 =>
      have h1' : ((S[i]!)[bm]!).lastMode = 0 := h1
      rw [if_pos h1'] at h
      cases h
      refine ⟨fun hf => (by cases hf), fun _ => ?_⟩
      show ChainK data S data.size bm0 best.toList
      rw [hpre, h2]
      exact hall _ (.base _ _ h1 h2 h3)
    | step _ _ st len h1 h2 h3 h4 h5 h6 =>
      have h1' : ¬ ((S[i]!)[bm]!).lastMode = 0 := h1
      rw [if_neg h1'] at h
      have hdl : dlenK ((S[i]!)[bm]!).data = len := by
        have : ((S[i]!)[bm]!).data = some (st, len) := h2
        rw [this]; rfl
      rw [if_neg (by rw [hdl]; omega), hdl] at h
      have his : i - len = st := by omega
      rw [his] at h
      cases h
      refine ⟨fun _ => ?_, fun hf => (by cases hf)⟩
      refine ⟨best.toList, by simp only [Array.toList_push]; rfl, fun rps hr => ?_⟩
      rw [hpre, h2, List.append_assoc]
      exact hall _ (.step _ _ st len rps h1 h2 h3 h4 h5 hr)

theorem tailK_chain (ml : List Nat) (data : Array Nat) (S : Array (Array StK)) (hne : data.size ≠ 0)
    (hb : 120 + 48 * data.size < inf) (hI : InvK data data.size S) (segs : List Segment)
    (h : tailK ml data S = .ok segs) :
    ∃ m rps, 1 ≤ m ∧ m ≤ 4 ∧ (gK S data.size m).cost ≤ 120 + 48 * data.size ∧
      ChainK data S data.size m rps ∧ segs = mergeSegs ml rps.reverse := by
  unfold tailK at h
  obtain ⟨p, hp, hp1, hp4, hpe, hp3⟩ := pick_ok S[data.size]!
    (fun k s => 1 ≤ s.2 ∧ s.2 ≤ 4 ∧ s.1 = ((S[data.size]!)[s.2]!).cost ∧ (4 ≤ k → s.1 ≤ ((S[data.size]!)[3]!).cost))
    (((S[data.size]!)[1]!).cost, 1) ⟨by simp, by simp, rfl, fun h => by omega⟩
    (fun k s h2 h5 ⟨a, b, c, d⟩ => by
      split
      · rename_i hlt
        refine ⟨by simp only; omega, by simp only; omega, rfl, fun hk => ?_⟩
        by_cases hk3 : k = 3
        · subst hk3; exact Nat.le_refl _
        · have := d (by omega); simp only; omega
      · rename_i hlt
        refine ⟨a, b, c, fun hk => ?_⟩
        by_cases hk3 : k = 3
        · subst hk3; omega
        · exact d (by omega))
  rw [hp] at h
  simp only [Out.bind_ok] at h
  have hc3 := hI.C data.size (by omega) (Nat.le_refl _)
  have hcp : (gK S data.size p.2).cost ≤ 120 + 48 * data.size := by
    have h3 := hp3 (by omega)
    have e1 : (gK S data.size p.2).cost = ((S[data.size]!)[p.2]!).cost := rfl
    have e2 : (gK S data.size 3).cost = ((S[data.size]!)[3]!).cost := rfl
    omega
  have hpath := hI.A data.size p.2 (by omega) (Nat.le_refl _) hp1 hp4 (by omega)
  obtain ⟨st, len, hd, hl, hs⟩ := hpath.piece
  have hd' : ((S[data.size]!)[p.2]!).data = some (st, len) := hd
  obtain ⟨r, hr, hJ, hK⟩ := forIn_out_range (backMK data S)
    (fun t s => BackInv data S t s ∧ ChainInv data S p.2 s) 0 (2 * data.size + 4)
    ((p.2, #[(p.2, sliceK data ((S[data.size]!)[p.2]!).data)], data.size, false) : BackSt) (Nat.zero_le _)
    (by
      refine ⟨⟨?_, fun _ => ⟨hpath, Nat.le_refl _, st, len, hd, hs, ?_⟩, fun h => (by cases h)⟩, ?_⟩
      · intro q hq
        simp only [List.mem_singleton] at hq
        subst hq
        simp only [hd']
        exact sliceK_ne_nil data st len hl (by omega)
      · simp only [hd', List.reverse_cons, List.reverse_nil, List.nil_append, List.flatMap_cons, List.flatMap_nil,
          List.append_nil]
        have := sliceK_append data st len data.size hs
        rw [List.drop_of_length_le (by simp), List.append_nil] at this
        exact this
      · exact ⟨fun _ => ⟨[], rfl, fun rps hr => hr⟩, fun h => (by cases h)⟩)
    (fun t s _ _ hJ => by
      obtain ⟨s', hs', hB'⟩ := backMK_step data S t s hJ.1
      exact ⟨s', hs', hB', backMK_chain data S p.2 t s s' hJ.1 hJ.2 hs'⟩)
  rw [hr] at h
  simp only [Out.bind_ok] at h
  obtain ⟨_, hF, _⟩ := hJ
  have hfin : r.2.2.2 = true := by
    cases hf : r.2.2.2 with
    | true => rfl
    | false => have := (hF hf).2.1; omega
  rw [hfin] at h
  simp only [Bool.not_true, Bool.false_eq_true, if_false] at h
  cases h
  exact ⟨p.2, r.2.1.toList, hp1, hp4, hcp, hK.2 hfin, rfl⟩

/-- the result of the kanji programme: `mergeSegs` of a chain of class-valid pieces (last piece first) for
which the programme charges at most what it charges for the payload as one byte-mode run -/
theorem newKanji_chain (ml : List Nat) (data : Array Nat) (hne : data.size ≠ 0) (hsz : data.size < 2 ^ 56)
    (segs : List Segment) (h : newKanjiSegs ml data = .ok segs) :
    ∃ rps, segs = mergeSegs ml rps.reverse ∧ dpcR rps ≤ 120 + 48 * data.size ∧ ∀ q ∈ rps, PieceOK data q := by
  rw [newKanjiSegs_eq] at h
  obtain ⟨S, hS, hI, hC, hCl⟩ := fillK_ind data (fun i S => InvK data i S ∧ CostInv data i S ∧ ClsK data S)
    ⟨invK_init data, cost_init data, clsK_init data⟩
    (fun i S hi hP => ⟨invK_step hP.1 hi, cost_step hP.1 hP.2.1 hi, (clsK_step hP.1.shape hi hP.2.2).2⟩)
  rw [hS] at h
  have hb : 120 + 48 * data.size < inf := by unfold inf; omega
  obtain ⟨m, rps, hm1, hm4, hcm, hch, he⟩ := tailK_chain ml data S hne hb hI segs h
  refine ⟨rps, he, ?_, hch.pieces hCl⟩
  have := hC data.size m rps hm1 hm4 (Nat.le_refl _) (.inl (Nat.le_refl _)) (by omega) hch
  omega

end QRV.Lemmas.NewKanjiCost
