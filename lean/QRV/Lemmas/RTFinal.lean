import QRV.Lemmas.RTDecode
import QRV.Lemmas.RTParse
import QRV.Lemmas.RTBlocks
/-
The round trip of QR Code 1-40 assembled: stream (RTStream/RTParse), blocks (RTBlocks*), walk
(RTWalk/RTFinWalk*), format information and masking (RTFormat/RTEncode), decoder front (RTDecode).
-/
open QRV QRV.Model QRV.Model.Bitmap QRV.Model.Sym QRV.Props QRV.Props.C18 QRV.Model.QR QRV.Model.Bits QRV.Spec.Bits QRV.Spec.Valid
namespace QRV.Lemmas.RT

/-- the placement writes bit k of the interleaved stream at the k-th coordinate of the walk -/
theorem placement_spec (v : Nat) (base used : Image)
    (hrb : Regular base (17 + 4 * v) (17 + 4 * v))
    (hbin : ∀ x y, used.binaryAt x y = .ok (usedFn v x y)) (ibuf : Buffer) (hinv : C16.Inv ibuf)
    (hoff : ibuf.offset = 0) (hread : ibuf.read = 0) (cs : List (Int × Int))
    (hwalk : walk (usedFn v) (16 + 4 * (v : Int)) (fuelOf (16 + 4 * (v : Int))) (start (16 + 4 * (v : Int))) = some cs)
    (hlen : 8 * ibuf.buf.toList.length ≤ cs.length) :
    ∃ img1, placeLoop used (16 + 4 * (v : Int)) ((16 + 4 * (v : Int) + 3) * (16 + 4 * (v : Int) + 3)).toNat
        { x := 16 + 4 * (v : Int), y := 16 + 4 * (v : Int), dy := -1 } ibuf base = .ok img1 ∧
      Regular img1 (17 + 4 * v) (17 + 4 * v) ∧
      ∀ k (hk : k < 8 * ibuf.buf.toList.length),
        px img1 (cs[k]'(by omega)).1.toNat (cs[k]'(by omega)).2.toNat = (unpack ibuf.buf.toList)[k]'(by simpa using hk) := by
  have hpl := placeLoop_eq used (usedFn v) hbin (16 + 4 * (v : Int)) _ _ cs ibuf base hwalk hinv (by omega)
  unfold fuelOf start at hpl
  have hun : C17.unread ibuf = unpack ibuf.buf.toList := by
    unfold C17.unread C17.cursor; rw [hoff, hread]; simp
  rw [hun] at hpl
  obtain ⟨hnd, hrange⟩ := walk_sound (usedFn v) (16 + 4 * (v : Int)) (by omega) _ cs hwalk
  obtain ⟨img1, he, hr1, hpx⟩ := writes_spec _ _ (cs.zip (unpack ibuf.buf.toList)) base hrb
  refine ⟨img1, by rw [hpl]; exact he, hr1, ?_⟩
  intro k hk
  have hkc : k < cs.length := by omega
  have hku : k < (unpack ibuf.buf.toList).length := by simpa using hk
  have hr := hrange _ (List.getElem_mem hkc)
  obtain ⟨ha, hb⟩ := zip_nodup_lookup cs (unpack ibuf.buf.toList) hnd k hkc hku
  have hpos : (((cs[k].1.toNat : Nat) : Int), ((cs[k].2.toNat : Nat) : Int)) = cs[k] := by
    apply Prod.ext <;> simp <;> omega
  refine (hpx _ _ (by omega) (by omega)).2 _ ?_ ?_
  · intro p hp he; rw [hpos] at he; exact ha p hp he
  · obtain ⟨p, hp, he⟩ := hb; exact ⟨p, hp, by rw [hpos]; exact he⟩

theorem roundtrip_core (q : QRCode) (hv : QR.Valid q) :
    ∃ img m, Model.QR.encodeToBitmap q = .ok img ∧ (0 ≤ q.mask → m = q.mask) ∧ 0 ≤ m ∧ m ≤ 7 ∧
      Model.QR.decodeBitmap img = .ok { q with mask := m } := by
  -- the data stream and its parsing
  obtain ⟨ebuf, hE, hEsize, hEbytes, hSeg⟩ := stream_roundtrip q hv
  obtain ⟨version, level, mask, segments⟩ := q
  obtain ⟨⟨hv1, hv40⟩, ⟨hl0, hl4⟩, ⟨hm1, hm7⟩, -, -⟩ := hv
  simp only at hv1 hv40 hl0 hl4 hm1 hm7 hEsize hSeg
  obtain ⟨v, rfl⟩ := Int.eq_ofNat_of_zero_le (show 0 ≤ version by omega)
  obtain ⟨l, rfl⟩ := Int.eq_ofNat_of_zero_le hl0
  have h1 : 1 ≤ v := by omega
  have h40 : v ≤ 40 := by omega
  have hl : l < 4 := by omega
  simp only [Int.toNat_natCast] at hEsize
  -- capacity row, blocks
  obtain ⟨cap, hcapAt, hcapTbl, hct, hcd, -⟩ := capAt_valid v l h1 h40 hl
  obtain ⟨blks, ibuf, hsplit, hil, hiInv, hiw, hio, hir, hisz, hdeint, hrs⟩ :=
    blocks_roundtrip v l h1 h40 hl cap hcapTbl ebuf.buf.toList (by rw [Array.length_toList, hEsize, hcd]) hEbytes
  have hbits : encodeToBits { version := v, level := l, mask := mask, segments := segments } {} = .ok ibuf := by
    unfold encodeToBits
    simp only [hE, Out.bind_ok, hcapAt, hsplit, hil]
  -- images, walk
  obtain ⟨hbase, hused, hrb, hru, hbin⟩ := version_images v h1 h40
  obtain ⟨cs, hwalk, hlen⟩ := walk_version v h1 h40
  have hilen : ibuf.buf.toList.length = cap.total := by rw [Array.length_toList, hisz]
  have hlen' : 8 * ibuf.buf.toList.length ≤ cs.length := by rw [hilen, hct]; exact hlen
  obtain ⟨img1, hplace, hr1, hpx1⟩ := placement_spec v _ _ hrb hbin ibuf hiInv hio hir cs hwalk hlen'
  obtain ⟨img2, hvers, hr2, hpx2⟩ := versionStep_spec v h1 h40 img1 hr1
  obtain ⟨m, hm8, hchoose, hmeq⟩ := chooseMask_spec v l h1 h40 hl mask hm1 hm7 _ img2 hru hr2
  obtain ⟨c, img3, pat, img4, hfin, hc, hpat, hrp, hr3, hr4, hmask, hpx3, hfc⟩ :=
    finish_spec v l m h1 h40 hl hm8 _ img2 hru hr2
  refine ⟨img4, (m : Int), ?_, hmeq, by omega, by omega, ?_⟩
  · have e1 : versionIsValid (v : Int) = true := by
      unfold versionIsValid Gen.QR.c_versionMin Gen.QR.c_versionMax
      rw [Bool.and_eq_true, decide_eq_true_eq, decide_eq_true_eq]; omega
    have e2 : levelIsValid (l : Int) = true := by
      unfold levelIsValid Gen.QR.c_levelMin Gen.QR.c_levelMax
      rw [Bool.and_eq_true, decide_eq_true_eq, decide_eq_true_eq]; omega
    have e3 : (v : Int) ≠ 0 := by omega
    have e4 : maskIsValid mask = true := by
      unfold maskIsValid Gen.QR.c_maskAuto Gen.QR.c_maskMin Gen.QR.c_maskMax
      rw [Bool.or_eq_true, Bool.and_eq_true, beq_iff_eq, decide_eq_true_eq, decide_eq_true_eq]; omega
    rw [encodeToBitmap_eq _ e1 e2 e3 e4]
    simp only [hbits, Out.bind_ok, hbase, hused, deref, hplace, hvers, hchoose, hfin]
  · have hrange := (walk_sound (usedFn v) (16 + 4 * (v : Int)) (by omega) _ cs hwalk).2
    refine decode_spec v l m h1 h40 hl hm8 segments img3 img4 _ pat c cs ibuf.buf.toList cap blks
      ebuf.buf.toList hr3 hr4 hru hrp hmask hused hpat hbin hc hfc hwalk hlen' ?_ ?_ hcapAt hilen hdeint hrs ?_
    · exact hiInv.bytes_lt
    · intro k hk
      have hr := hrange _ (List.getElem_mem (show k < cs.length by omega))
      have hcast : ∀ z : Int, 0 ≤ z → ((z.toNat : Nat) : Int) = z := fun z hz => Int.toNat_of_nonneg hz
      rw [hpx3 _ _ (by omega) (by omega) (by rw [hcast _ hr.1, hcast _ hr.2.2.1]; exact hr.2.2.2.2),
        hpx2 _ _ (by omega) (by omega) (by rw [hcast _ hr.1, hcast _ hr.2.2.1]; exact hr.2.2.2.2)]
      exact hpx1 k hk
    · rw [Array.toArray_toList]
      exact hSeg

end QRV.Lemmas.RT
