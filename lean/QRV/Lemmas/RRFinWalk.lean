import QRV.Lemmas.RRWalk
import QRV.Lemmas.Finite
/-
Kernel evaluation of the rMQR module walk, all 32 versions: the model's fuel suffices, and the walk
offers more than 8 * (total - 1) modules, i.e. every codeword but possibly the last is placed in
full and the last one at least in part (finding D18: for twelve versions of height >= 11 the walk
offers FEWER than 8 * total modules).
-/
namespace QRV.Lemmas.RR
open QRV QRV.Lemmas QRV.Model QRV.Model.Sym QRV.Lemmas.RT

set_option maxRecDepth 1000000

/-- the kernel-evaluated check of one version -/
def checkV (v : Nat) : Bool :=
  let g := usedGen v
  g.rows.length == H v && decide (7 ≤ H v) && decide (3 ≤ W v) &&
  match walkN g.rows (8 * g.stride - 1) (H v - 2) ((W v + 2) * (H v + 2)) (W v - 2) (H v - 6) true 0 with
  | none => false
  | some c => (Gen.RMQR.capacityTable[v]?.getD []).all fun cap => decide (8 * cap.total < c + 8)

theorem checkV_all : (List.range 32).all checkV = true := by decide +kernel

theorem fuelOf_nat (v : Nat) (_hW : 1 ≤ W v) (_hH : 1 ≤ H v) :
    fuelOf ((W v : Int) - 1) ((H v : Int) - 1) = (W v + 2) * (H v + 2) := by
  unfold fuelOf
  have e1 : ((W v : Int) - 1 + 3) = ((W v + 2 : Nat) : Int) := by omega
  have e2 : ((H v : Int) - 1 + 3) = ((H v + 2 : Nat) : Int) := by omega
  rw [e1, e2, ← Int.natCast_mul, Int.toNat_natCast]

/-- per version: the model's fuel suffices; sizes; all but possibly part of the last codeword fit -/
theorem walk_version (v : Nat) (hv : v < 32) :
    7 ≤ H v ∧ 3 ≤ W v ∧ (usedGen v).rows.length = H v ∧
    ∃ cs, walk (usedFn v) ((H v : Int) - 1) (fuelOf ((W v : Int) - 1) ((H v : Int) - 1))
        (start ((W v : Int) - 1) ((H v : Int) - 1)) = some cs ∧
      ∀ cap ∈ Gen.RMQR.capacityTable[v]?.getD [], 8 * cap.total < cs.length + 8 := by
  have h := forall_lt_of_all checkV_all v hv
  unfold checkV at h
  simp only [Bool.and_eq_true, beq_iff_eq, decide_eq_true_eq] at h
  obtain ⟨⟨⟨hlen, hH7⟩, hW3⟩, h⟩ := h
  refine ⟨hH7, hW3, hlen, ?_⟩
  have key := walkN_eq (usedGen v).rows (usedGen v).stride (W v) (H v) ((H v : Int) - 1) (H v - 2)
    (by omega) (by omega) ((W v + 2) * (H v + 2)) (W v - 2) (H v - 6) true 0
    (start ((W v : Int) - 1) ((H v : Int) - 1))
    (by simp only [start]; omega) (by simp only [start]; omega) rfl (by omega) (by omega) (by omega)
  rw [fuelOf_nat v (by omega) (by omega)]
  rw [key] at h
  show ∃ cs, walk (fnOf (usedGen v).rows (usedGen v).stride (W v) (H v)) _ _ _ = some cs ∧ _
  cases hw : walk (fnOf (usedGen v).rows (usedGen v).stride (W v) (H v)) ((H v : Int) - 1)
      ((W v + 2) * (H v + 2)) (start ((W v : Int) - 1) ((H v : Int) - 1)) with
  | none => rw [hw] at h; cases h
  | some cs =>
    rw [hw] at h
    simp only [Option.map_some, Nat.zero_add, List.all_eq_true, decide_eq_true_eq] at h
    exact ⟨cs, rfl, h⟩

/-- the number of modules the walk offers for version v, in kernel-evaluable form -/
def countV (v : Nat) : Option Nat :=
  walkN (usedGen v).rows (8 * (usedGen v).stride - 1) (H v - 2) ((W v + 2) * (H v + 2)) (W v - 2) (H v - 6) true 0

/-- `countV` is the length of the coordinate list of the walk -/
theorem walk_count (v : Nat) (hv : v < 32) :
    ∃ cs, walk (usedFn v) ((H v : Int) - 1) (fuelOf ((W v : Int) - 1) ((H v : Int) - 1))
        (start ((W v : Int) - 1) ((H v : Int) - 1)) = some cs ∧ countV v = some cs.length := by
  obtain ⟨hH7, hW3, -, cs, hw, -⟩ := walk_version v hv
  refine ⟨cs, hw, ?_⟩
  have key := walkN_eq (usedGen v).rows (usedGen v).stride (W v) (H v) ((H v : Int) - 1) (H v - 2)
    (by omega) (by omega) ((W v + 2) * (H v + 2)) (W v - 2) (H v - 6) true 0
    (start ((W v : Int) - 1) ((H v : Int) - 1))
    (by simp only [start]; omega) (by simp only [start]; omega) rfl (by omega) (by omega) (by omega)
  rw [fuelOf_nat v (by omega) (by omega)] at hw
  unfold countV
  rw [key]
  show Option.map _ (walk (usedFn v) _ _ _) = _
  rw [hw]
  simp

/-- finding D18, per version: (version, number of bits of the last codeword that are never placed) for
exactly the versions whose walk offers fewer modules than 8 * total codewords -/
def deficits : List (Nat × Nat) :=
  (List.range 32).filterMap fun v =>
    match countV v, (Gen.RMQR.capacityTable[v]?.getD []).head? with
    | some c, some cap => if c < 8 * cap.total then some (v, 8 * cap.total - c) else none
    | _, _ => none

theorem deficits_eq : deficits =
    [(12, 1), (17, 2), (21, 3), (22, 4), (23, 1), (26, 3), (27, 6), (28, 5), (29, 7), (30, 4), (31, 3)] := by
  decide +kernel

end QRV.Lemmas.RR
