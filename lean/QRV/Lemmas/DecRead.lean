import QRV.Lemmas.DecSat
import QRV.Lemmas.Bits
import QRV.Lemmas.Codec
/-
C06/C07 — the read side of the bit buffer on ARBITRARY contents: `ReadBits` never panics for a
width ≤ 64, its value is below `2^n`, it leaves the bytes alone, and it strictly consumes unread
bits whenever it returns a value; the four data decoders only read.
-/
namespace QRV.Lemmas.Dec
open QRV QRV.Model.Bits QRV.Model.Codec QRV.Spec.Bits QRV.Lemmas.Bits

/-- read cursor in bits -/
def cur (b : Buffer) : Nat := 8 * b.offset + b.read

/-- unread bits (0 once the cursor is at or beyond the end) -/
def rem (b : Buffer) : Nat := 8 * b.buf.size - cur b

/-- what a read leaves: same bytes, a well-formed cursor, no more unread bits than before -/
structure After (b b' : Buffer) : Prop where
  buf : b'.buf = b.buf
  read : b'.read < 8
  rem : rem b' ≤ rem b

theorem After.refl (b : Buffer) (hr : b.read < 8) : After b b := ⟨rfl, hr, Nat.le_refl _⟩

theorem After.trans {a b c : Buffer} (h1 : After a b) (h2 : After b c) : After a c :=
  ⟨h2.buf.trans h1.buf, h2.read, Nat.le_trans h2.rem h1.rem⟩

theorem toNat_lt (l : List Bool) : toNat l < 2 ^ l.length := by
  induction l with
  | nil => simp [toNat]
  | cons b l ih =>
    rw [toNat_cons, List.length_cons, Nat.pow_succ]
    cases b <;> simp <;> omega

/-- `ReadBits(n)`, n ≤ 64, on any buffer with a well-formed cursor -/
theorem readBits_cases (b : Buffer) (hr : b.read < 8) (n : Nat) (hn : n ≤ 64) :
    (readBits b (n : Int) = .ok (b, none) ∧ b.offset ≥ b.buf.size) ∨
    (∃ b' v, readBits b (n : Int) = .ok (b', some v) ∧ After b b' ∧ v < 2 ^ n ∧ (0 < n → rem b' < rem b)) := by
  unfold readBits
  rw [if_neg (by omega)]
  by_cases hge : b.offset ≥ b.buf.size
  · rw [if_pos hge]; exact .inl ⟨rfl, hge⟩
  · rw [if_neg hge]
    right
    obtain ⟨l1, l2, l3, l4⟩ := readBitsLoop_spec n b hr 0 0 (by decide) (by omega)
    refine ⟨(readBitsLoop b 0 n).1, (readBitsLoop b 0 n).2, by simp, ?_, ?_, ?_⟩
    · refine ⟨l1.1, l2, ?_⟩
      unfold rem cur
      rw [l1.1, l3]; omega
    · rw [l4, Nat.zero_mul, Nat.zero_add]
      have hg : (((unpack b.buf.toList).drop (8 * b.offset + b.read)).take n).length ≤ n :=
        List.length_take_le _ _
      generalize ((unpack b.buf.toList).drop (8 * b.offset + b.read)).take n = got at hg ⊢
      have h1 := toNat_lt got
      have : 2 ^ n = 2 ^ got.length * 2 ^ (n - got.length) := by
        rw [← Nat.pow_add]; congr 1; omega
      rw [this]
      exact Nat.mul_lt_mul_of_lt_of_le h1 (Nat.le_refl _) (Nat.two_pow_pos _)
    · intro hn0
      unfold rem cur
      rw [l1.1, l3, List.length_take, List.length_drop, length_unpack, Array.length_toList]
      omega

/-- `rd`: EOF is an error, never a panic -/
theorem rd_sat (b : Buffer) (hr : b.read < 8) (n : Nat) (hn : n ≤ 64) :
    Sat (rd b n) (fun p => After b p.1 ∧ p.2 < 2 ^ n ∧ (0 < n → rem p.1 < rem b)) := by
  unfold rd
  rcases readBits_cases b hr n hn with ⟨e, _⟩ | ⟨b', v, e, ha, hv, hlt⟩
  · rw [e]; exact trivial
  · rw [e]; exact ⟨ha, hv, hlt⟩

/-! ### the four decoders: no panic, only reads -/

theorem decodeNumeric_go_sat (n : Nat) : ∀ (b : Buffer) (acc : Array Nat), b.read < 8 →
    Sat (decodeNumeric.go b acc n) (fun p => After b p.1) := by
  induction n using Nat.strongRecOn with
  | _ n ih =>
    intro b acc hr
    match n with
    | 0 => rw [decodeNumeric.go]; exact After.refl b hr
    | 1 =>
      rw [decodeNumeric.go]
      refine Sat.bind (rd_sat b hr 4 (by decide)) ?_
      rintro ⟨b1, v⟩ ⟨ha, -, -⟩
      dsimp only
      split
      · exact trivial
      · exact ha
    | 2 =>
      rw [decodeNumeric.go]
      refine Sat.bind (rd_sat b hr 7 (by decide)) ?_
      rintro ⟨b1, v⟩ ⟨ha, -, -⟩
      dsimp only
      split
      · exact trivial
      · exact ha
    | m + 3 =>
      rw [decodeNumeric.go]
      refine Sat.bind (rd_sat b hr 10 (by decide)) ?_
      rintro ⟨b1, v⟩ ⟨ha, -, -⟩
      dsimp only
      split
      · exact trivial
      · exact (ih m (by omega) b1 _ ha.read).mono (fun p hp => ha.trans hp)

theorem decodeAlphanumeric_go_sat (n : Nat) : ∀ (b : Buffer) (acc : Array Nat), b.read < 8 →
    Sat (decodeAlphanumeric.go b acc n) (fun p => After b p.1) := by
  induction n using Nat.strongRecOn with
  | _ n ih =>
    intro b acc hr
    match n with
    | 0 => rw [decodeAlphanumeric.go]; exact After.refl b hr
    | 1 =>
      rw [decodeAlphanumeric.go]
      refine Sat.bind (rd_sat b hr 6 (by decide)) ?_
      rintro ⟨b1, v⟩ ⟨ha, -, -⟩
      dsimp only
      split
      · exact trivial
      · exact ha
    | m + 2 =>
      rw [decodeAlphanumeric.go]
      refine Sat.bind (rd_sat b hr 11 (by decide)) ?_
      rintro ⟨b1, v⟩ ⟨ha, -, -⟩
      dsimp only
      split
      · exact trivial
      · exact (ih m (by omega) b1 _ ha.read).mono (fun p hp => ha.trans hp)

/-- byte mode: the bytes are the 8-bit groups, in order -/
theorem decodeBytes_go_sat (n : Nat) : ∀ (b : Buffer) (acc : Array Nat), b.read < 8 →
    Sat (decodeBytes.go b acc n) (fun p => After b p.1 ∧
      ∃ l : List Nat, l.length = n ∧ (∀ x ∈ l, x < 256) ∧ p.2 = acc.toList ++ l) := by
  induction n with
  | zero =>
    intro b acc hr
    rw [decodeBytes.go]
    exact ⟨After.refl b hr, [], rfl, by simp, by simp⟩
  | succ n ih =>
    intro b acc hr
    rw [decodeBytes.go]
    refine Sat.bind (rd_sat b hr 8 (by decide)) ?_
    rintro ⟨b1, v⟩ ⟨ha, hv, -⟩
    dsimp only at hv ⊢
    refine (ih b1 (acc.push v) ha.read).mono ?_
    rintro p ⟨hp, l, hl, hlt, he⟩
    refine ⟨ha.trans hp, v :: l, by simp [hl], ?_, by simp [he]⟩
    intro x hx
    rcases List.mem_cons.mp hx with rfl | hx
    · exact hv
    · exact hlt x hx

/-- kanji mode: the bytes are the UTF-8 encodings of the table's characters for a list of 13-bit
codes, none of them unassigned -/
theorem decodeKanji_go_sat (n : Nat) : ∀ (b : Buffer) (acc : Array Nat), b.read < 8 →
    Sat (decodeKanji.go b acc n) (fun p => After b p.1 ∧
      ∃ rs : List Nat, rs.length = n ∧
        (∀ r ∈ rs, r ≠ 0 ∧ ∃ code, code < 8192 ∧ decodeKanjiCode code = some r) ∧
        p.2 = acc.toList ++ rs.flatMap Model.Utf8.encodeRune) := by
  induction n with
  | zero =>
    intro b acc hr
    rw [decodeKanji.go]
    exact ⟨After.refl b hr, [], rfl, by simp, by simp⟩
  | succ n ih =>
    intro b acc hr
    rw [decodeKanji.go]
    refine Sat.bind (rd_sat b hr 13 (by decide)) ?_
    rintro ⟨b1, v⟩ ⟨ha, hv, -⟩
    dsimp only at hv ⊢
    cases hc : decodeKanjiCode v with
    | none => exact trivial
    | some r =>
      dsimp only
      split
      · exact trivial
      · rename_i hz
        have hr0 : r ≠ 0 := by
          intro h0; apply hz; simp [KANJI_REJECTS_UNASSIGNED, h0]
        refine (ih b1 _ ha.read).mono ?_
        rintro p ⟨hp, rs, hl, hrs, he⟩
        refine ⟨ha.trans hp, r :: rs, by simp [hl], ?_, ?_⟩
        · intro x hx
          rcases List.mem_cons.mp hx with rfl | hx
          · exact ⟨hr0, v, hv, hc⟩
          · exact hrs x hx
        · rw [he, Lemmas.Codec.foldl_push_toList, List.flatMap_cons, List.append_assoc]

end QRV.Lemmas.Dec
