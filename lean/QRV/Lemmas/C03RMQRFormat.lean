import QRV.Lemmas.C03RMQRLift
/-
C03 for whole rMQR symbols with damaged version-and-level information: `corrects_nat` (`Lemmas/C03RMQRLift.lean`) once
more, with the format step factored out: instead of "the function modules are those of the clean symbol" it assumes
`decodeFormat img' = .ok (version, level)`.
-/
open QRV QRV.Model QRV.Model.Bitmap QRV.Model.Sym QRV.Props QRV.Props.C18 QRV.Model.Bits QRV.Spec.Bits QRV.Spec.Valid
open QRV.Lemmas.RT QRV.Lemmas.BCH QRV.Lemmas.Bits
namespace QRV.Lemmas.RR

set_option maxRecDepth 100000

/-- the whole-symbol lifting (`corrects_nat`) with the hypothesis on the function modules replaced by what the decoder
needs of them: the version-and-level information of `img'` reads as (version, level).  No other function module is
looked at by `decodeBitmap` (the size of the bitmap is only compared with the size of the version read) -/
theorem corrects_fmt_nat (v l : Nat) (segments : List Segment)
    (hv : RMQR.Valid { version := v, level := l, mask := 0, segments := segments })
    (cap : Gen.GCap) (hcap : RMQR.row v l = some cap)
    (buf : Bits.Buffer)
    (hbuf : Model.RMQR.encodeSegments { version := v, level := l, mask := 0, segments := segments } {} = .ok buf)
    (blks : List (List Nat × List Nat)) (hblks : splitBlocks cap.blocks buf.buf.toList = .ok blks)
    (cs : List (Int × Int))
    (hcs : walk (usedFn v) ((H v : Int) - 1) (fuelOf ((W v : Int) - 1) ((H v : Int) - 1))
      (start ((W v : Int) - 1) ((H v : Int) - 1)) = some cs)
    (img' : Image) (hreg : Regular img' (W v) (H v))
    (hfmt : Model.RMQR.decodeFormat img' = .ok ((v : Int), (l : Int)))
    (blks' : List (List Nat × List Nat))
    (hshape : blks'.map (fun b => (b.1.length, b.2.length)) = sizesOf cap.blocks)
    (hbytes : ∀ b ∈ blks', (∀ x ∈ b.1, x < 256) ∧ ∀ x ∈ b.2, x < 256)
    (hcarry : ∀ k (_ : k < 8 * cap.total) (hk' : k < cs.length),
      px img' (cs[k]).1.toNat (cs[k]).2.toNat =
        ((unpack (ilvList blks'))[k]?.getD false ^^
          decide (((cs[k]).2.toNat / 2 + (cs[k]).1.toNat / 3) % 2 = 0)))
    (hdam : ∀ j (hj : j < blks.length) (hj' : j < blks'.length),
      C14.dist (blks[j].1 ++ blks[j].2) (blks'[j].1 ++ blks'[j].2) ≤ (rated cap.blocks)[j]?.getD 0) :
    Model.RMQR.decodeBitmap img' = .ok { version := v, level := l, mask := 0, segments := segments } := by
  obtain ⟨⟨hv0, hv31⟩, ⟨hl0, hl1⟩, -, -, -⟩ := id hv
  simp only at hv0 hv31 hl0 hl1
  have hv32 : v < 32 := by omega
  have hl2 : l < 2 := by omega
  obtain ⟨cap0, hcapAt, hrow, hcapmem, hok⟩ := capAt_valid v l hv32 hl2
  rw [hcap] at hrow
  cases hrow
  -- the stream
  obtain ⟨ebuf, hE, hEsize, hEbytes, hSeg⟩ := stream_roundtrip _ hv cap (by simpa using hcap) hcapAt hok
  rw [hbuf] at hE
  cases hE
  simp only at hSeg
  have hok' := hok
  unfold capOK at hok'
  simp only [Bool.and_eq_true, List.all_eq_true, decide_eq_true_eq] at hok'
  obtain ⟨⟨⟨hshapeC, h255⟩, -⟩, -⟩ := hok'
  have hrowOK : C03.rowOK cap = true := by
    have h := C03.rmqr_rows
    rw [List.all_eq_true] at h
    cases hr : Gen.RMQR.capacityTable[v]? with
    | none => rw [hr] at hcapmem; simp at hcapmem
    | some row =>
      rw [hr] at hcapmem
      simp only [Option.getD_some] at hcapmem
      have h2 := h row (List.mem_of_getElem? hr)
      rw [List.all_eq_true] at h2
      exact h2 cap hcapmem
  -- the interleaved damaged blocks
  obtain ⟨n1, n2, d, e, hs, hd, ht⟩ := shape_of_cap cap hshapeC
  obtain ⟨ibuf, -, hiInv, -, -, -, hilv, hisz, -⟩ :=
    ilv_roundtrip cap.blocks n1 n2 d e hs blks' hshape hbytes cap.data cap.total hd.symm ht
  have hilen : (ilvList blks').length = cap.total := by rw [← hilv, Array.length_toList, hisz]
  have hilb : ∀ b ∈ ilvList blks', b < 256 := by rw [← hilv]; exact hiInv.bytes_lt
  -- images, walk
  obtain ⟨-, hused, -, hru, hbin⟩ := version_images v hv32
  obtain ⟨hW27, hW144, hH7, hH17⟩ := sizes_ok v hv32
  obtain ⟨-, -, -, cs0, hwalk, hlenall⟩ := walk_version v hv32
  rw [hcs] at hwalk
  cases hwalk
  have hlen := hlenall cap hcapmem
  have hrm := mask_image
  obtain ⟨img3, hm3, hr3⟩ := mask_ok img' _ _ (W v) (H v) 144 17 (by omega) (by omega) hreg hru hrm hW144 hH17
  obtain ⟨hnd, hrange⟩ := walk_sound (usedFn v) ((W v : Int) - 1) ((H v : Int) - 1) (by omega) (by omega) _ cs hcs
  have htot1 : 1 ≤ cap.total := by
    have := hs.e2
    have hnb : blks'.length = n1 + n2 := by
      have := congrArg List.length hshape
      rw [hs.sizes] at this
      simpa using this
    rcases Nat.eq_zero_or_pos (n1 + n2) with h0 | hpos
    · -- no block at all: impossible (a row has a group with at least one block)
      exfalso
      have hcb : cap.blocks ≠ [] := by
        intro h0
        unfold capShapeOK at hshapeC
        rw [h0] at hshapeC
        cases hshapeC
      obtain ⟨bc, hbc⟩ := List.exists_mem_of_ne_nil _ hcb
      have hg := hs.groups bc hbc
      simp only [groupOK, Bool.and_eq_true, decide_eq_true_eq] at hg
      have hmem : (bc.data, bc.total - bc.data) ∈ sizesOf cap.blocks := by
        simp only [sizesOf, List.mem_flatMap, List.mem_replicate]
        exact ⟨bc, hbc, by omega, rfl⟩
      rw [hs.sizes] at hmem
      rcases List.mem_append.mp hmem with h | h
      · have := (List.mem_replicate.mp h).1; omega
      · have := (List.mem_replicate.mp h).1; omega
    · rw [← ht]
      have : 1 * 2 ≤ (n1 + n2) * e := Nat.mul_le_mul hpos this
      omega
  -- the decoder
  unfold Model.RMQR.decodeBitmap Model.RMQR.decodeBitmapFull
  have hdx : img'.dx = (W v : Int) := by unfold Image.dx; rw [hreg.maxX, hreg.minX]; omega
  have hdy : img'.dy = (H v : Int) := by unfold Image.dy; rw [hreg.maxY, hreg.minY]; omega
  simp only [hdx, hdy, norm_regular img' _ _ hreg]
  simp only [hfmt, Out.bind_ok, hused, deref, sameBounds_regular img' _ _ _ hreg hru, hm3,
    Bool.not_true, Bool.false_eq_true, if_false]
  -- reading
  obtain ⟨rbuf, hrl, hrinv, hrabs⟩ := readLoop_eq (Image.ofGen (usedGen v)) img3 (usedFn v)
    (fun x y => if 0 ≤ x ∧ x < ((W v : Nat) : Int) ∧ 0 ≤ y ∧ y < ((H v : Nat) : Int) then px img3 x.toNat y.toNat else false)
    hbin (fun x y => binaryAt_spec img3 _ _ hr3 x y) ((H v : Int) - 1) _ _ cs {} hcs C16.inv_empty
  unfold fuelOf start at hrl
  rw [C16.abs_empty, List.nil_append] at hrabs
  have hcast : ∀ z : Int, 0 ≤ z → ((z.toNat : Nat) : Int) = z := fun z hz => Int.toNat_of_nonneg hz
  -- the bits read are the bits of the interleaved damaged blocks, as far as the walk goes
  have hbit : ∀ k (hk1 : k < (cs.map (fun c : Int × Int =>
        if 0 ≤ c.1 ∧ c.1 < ((W v : Nat) : Int) ∧ 0 ≤ c.2 ∧ c.2 < ((H v : Nat) : Int) then px img3 c.1.toNat c.2.toNat else false)).length)
      (_ : k < 8 * (ilvList blks').length),
      (cs.map (fun c : Int × Int =>
        if 0 ≤ c.1 ∧ c.1 < ((W v : Nat) : Int) ∧ 0 ≤ c.2 ∧ c.2 < ((H v : Nat) : Int) then px img3 c.1.toNat c.2.toNat else false))[k]? =
        (unpack (ilvList blks'))[k]? := by
    intro k hk1 hk2
    have hkc : k < cs.length := by simpa using hk1
    have hku : k < (unpack (ilvList blks')).length := by simpa using hk2
    have hr := hrange _ (List.getElem_mem hkc)
    have hx : (cs[k]).1.toNat < W v := by omega
    have hy : (cs[k]).2.toNat < H v := by omega
    rw [List.getElem?_eq_getElem hk1, List.getElem?_eq_getElem hku, List.getElem_map, if_pos (by omega),
      mask_spec img' _ _ img3 _ _ 144 17 (by omega) (by omega) hreg hru hrm hW144 hH17 hm3 _ _ hx hy,
      used_px v _ hru hbin _ _ hx hy, hcast _ (by omega), hcast _ (by omega), hr.2.2.2.2,
      mask_px _ _ (by omega) (by omega), hcarry k (by rw [← hilen]; exact hk2) hkc,
      List.getElem?_eq_getElem hku, Option.getD_some]
    congr 1
    cases (unpack (ilvList blks'))[k] <;>
      cases decide (((cs[k]).2.toNat / 2 + (cs[k]).1.toNat / 3) % 2 = 0) <;> rfl
  -- the codewords read: all of them, or (short walk) all but the last, which is arbitrary
  have hrecv : (∃ extra, rbuf.buf.toList = ilvList blks' ++ extra) ∨
      (lastRoom cap = true ∧ ∃ y extra, y < 256 ∧ rbuf.buf.toList = (ilvList blks').dropLast ++ y :: extra) := by
    rw [C16.bytes_are_packing rbuf hrinv, hrabs]
    by_cases hfull : 8 * cap.total ≤ cs.length
    · left
      exact pack_full _ _ hilb (by rw [List.length_map, hilen]; exact hfull)
        (fun k hk => hbit k (by rw [List.length_map]; omega) hk)
    · right
      refine ⟨short_room v hv32 cs hcs cap hcapmem (by omega), ?_⟩
      obtain ⟨y, extra, hyx⟩ := pack_partial _ _ hilb (by omega) (by rw [List.length_map]; omega)
        (fun k hk1 hk2 => hbit k hk1 hk2)
      refine ⟨y, extra, ?_, hyx⟩
      have := C16.bytes_are_packing rbuf hrinv
      rw [hrabs, hyx] at this
      exact hrinv.bytes_lt y (by rw [this]; simp)
  obtain ⟨blks'', hdeint, hrs⟩ := blocks_lift cap hshapeC h255 hrowOK buf.buf.toList
    (by rw [Array.length_toList, hEsize]) hEbytes blks hblks blks' hshape hbytes hdam rbuf.buf.toList hrecv
  simp only [hrl, Out.bind_ok, hcapAt, hdeint]
  unfold rsLoop at hrs
  simp only [hrs, Out.bind_ok]
  have hsz : buf.buf.toList.toArray.size = cap.data := by simp [hEsize]
  simp only [hsz, Nat.lt_irrefl, if_false]
  have hext : buf.buf.toList.toArray.extract 0 cap.data = buf.buf := by
    rw [Array.toArray_toList, ← hEsize]; simp
  rw [hext, hSeg]
  rfl

end QRV.Lemmas.RR
