import Mathlib.Algebra.Field.Defs
import Mathlib.Algebra.CharP.Two
import QRV.Lemmas.RSDecode
/-
The model's GF(256) (naturals below 256 with `add`, `mul`, `inv'`) as a Mathlib `Field`.
-/
namespace QRV.Lemmas.RSC
open QRV.Model.GF QRV.Lemmas.GF QRV.Lemmas.RS

/-- an element of the model field -/
structure F where
  val : Nat
  lt : val < 256
deriving DecidableEq

namespace F

@[ext] theorem ext' {a b : F} (h : a.val = b.val) : a = b := by
  cases a; cases b; cases h; rfl

instance : Zero F := ⟨⟨0, by decide⟩⟩
instance : One F := ⟨⟨1, by decide⟩⟩
instance : Add F := ⟨fun a b => ⟨add a.val b.val, add_lt a.lt b.lt⟩⟩
instance : Mul F := ⟨fun a b => ⟨mul a.val b.val, mul_lt a.lt b.lt⟩⟩
instance : Neg F := ⟨fun a => a⟩
protected def inv (a : F) : F := if a.val = 0 then 0 else ⟨inv' a.val, inv_lt a.val a.lt⟩
instance : Inv F := ⟨F.inv⟩

instance : Field F where
  add_assoc a b c := ext' (add_assoc _ _ _)
  zero_add a := ext' (zero_add a.val)
  add_zero a := ext' (add_zero a.val)
  nsmul := nsmulRec
  zsmul := zsmulRec
  neg_add_cancel a := ext' (add_self a.val)
  add_comm a b := ext' (add_comm _ _)
  left_distrib a b c := ext' (mul_add a.lt b.lt c.lt)
  right_distrib a b c := ext' (add_mul a.lt b.lt c.lt)
  zero_mul a := ext' (zero_mul a.val)
  mul_zero a := ext' (mul_zero a.val)
  mul_assoc a b c := ext' (mul_assoc a.lt b.lt c.lt)
  one_mul a := ext' (one_mul a.lt)
  mul_one a := ext' (mul_one a.lt)
  mul_comm a b := ext' (mul_comm _ _)
  exists_pair_ne := ⟨0, 1, fun h => absurd (congrArg F.val h) (by decide)⟩
  mul_inv_cancel a ha := by
    have h0 : a.val ≠ 0 := fun h => ha (ext' h)
    apply ext'
    show mul a.val (F.inv a).val = 1
    unfold F.inv
    rw [if_neg h0]
    exact mul_inv_cancel a.lt h0
  inv_zero := by apply ext'; rfl
  nnqsmul := _
  qsmul := _

@[simp] theorem zero_val : (0 : F).val = 0 := rfl
@[simp] theorem one_val : (1 : F).val = 1 := rfl
@[simp] theorem add_val (a b : F) : (a + b).val = add a.val b.val := rfl
@[simp] theorem mul_val (a b : F) : (a * b).val = mul a.val b.val := rfl
@[simp] theorem neg_val (a : F) : (-a).val = a.val := rfl
theorem inv_val (a : F) : (a⁻¹).val = if a.val = 0 then 0 else inv' a.val := by
  show (F.inv a).val = _
  unfold F.inv
  split <;> rfl

instance : CharP F 2 := CharTwo.of_one_ne_zero_of_two_eq_zero
  (fun h => absurd (congrArg F.val h) (by decide)) (by
  rw [← one_add_one_eq_two]
  exact ext' (by decide))

end F

/-- the field element of a byte (0 for out-of-range naturals) -/
def toF (a : Nat) : F := if h : a < 256 then ⟨a, h⟩ else 0

theorem toF_val {a : Nat} (h : a < 256) : (toF a).val = a := by
  unfold toF; rw [dif_pos h]

@[simp] theorem toF_of_val (a : F) : toF a.val = a := by
  unfold toF; rw [dif_pos a.lt]

@[simp] theorem toF_zero : toF 0 = 0 := rfl
@[simp] theorem toF_one : toF 1 = 1 := rfl

theorem toF_add {a b : Nat} (ha : a < 256) (hb : b < 256) : toF (add a b) = toF a + toF b := by
  apply F.ext'
  rw [F.add_val, toF_val ha, toF_val hb, toF_val (add_lt ha hb)]

theorem toF_mul {a b : Nat} (ha : a < 256) (hb : b < 256) : toF (mul a b) = toF a * toF b := by
  apply F.ext'
  rw [F.mul_val, toF_val ha, toF_val hb, toF_val (mul_lt ha hb)]

theorem toF_inj {a b : Nat} (ha : a < 256) (hb : b < 256) (h : toF a = toF b) : a = b := by
  have := congrArg F.val h
  rwa [toF_val ha, toF_val hb] at this

theorem toF_eq_zero {a : Nat} (ha : a < 256) : toF a = 0 ↔ a = 0 :=
  ⟨fun h => toF_inj ha (by decide) h, fun h => by rw [h]; rfl⟩

theorem toF_inv {a : Nat} (ha : a < 256) (h0 : a ≠ 0) : toF (inv' a) = (toF a)⁻¹ := by
  apply F.ext'
  rw [F.inv_val, toF_val ha, if_neg h0, toF_val (inv_lt a ha)]

/-- the primitive element -/
def α : F := toF (expT 1)

theorem toF_exp : ∀ k, k ≤ 255 → toF (expT k) = α ^ k
  | 0, _ => by rw [exp_zero, pow_zero]; exact toF_one
  | k + 1, hk => by
    have h := exp_add_mod (i := k) (j := 1) (by omega) (by omega)
    have hm : expT ((k + 1) % 255) = expT (k + 1) := by
      by_cases h255 : k + 1 = 255
      · rw [h255]; decide
      · rw [Nat.mod_eq_of_lt (by omega)]
    rw [hm] at h
    rw [← h, toF_mul (exp_lt k (by omega)) (exp_lt 1 (by omega)), toF_exp k (by omega), pow_succ]
    rfl

theorem toF_exp_ne_zero {k : Nat} (hk : k < 256) : toF (expT k) ≠ 0 := by
  rw [Ne, toF_eq_zero (exp_lt k hk)]; exact exp_ne_zero k hk

theorem toF_exp_inj {i j : Nat} (hi : i < 255) (hj : j < 255) (h : toF (expT i) = toF (expT j)) :
    i = j := by
  have := toF_inj (exp_lt i (by omega)) (exp_lt j (by omega)) h
  rw [← log_exp i hi, ← log_exp j hj, this]

end QRV.Lemmas.RSC
