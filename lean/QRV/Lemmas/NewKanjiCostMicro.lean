import QRV.Lemmas.NewKanjiCost2
import QRV.Lemmas.NewOptimalMicro
import QRV.Lemmas.NewKanjiFallback
/-
C05 (too large), Micro QR with kanji enabled.  The kanji programme charges the QR version-40 headers
(18 / 17 / 20 / 16 bits), the true M4 headers are 9 / 8 / 8 / 7 bits: every segment is at least 50 sixths of a
bit shorter than its charge (`seg_facts`; tight for numeric: 54 + 4 + 50 = 108), and `120 ≤ 6 * 8 + 2 * 50`.
Hence (`NewKanjiCost.total_le`) the segmentation is never longer in M4 than the payload as one byte segment.
Micro QR's `calcVersion` does not look at character-count limits (`microFits`).
-/
namespace QRV.Lemmas.NewKanjiCostMicro
open QRV QRV.Model QRV.Model.Sym QRV.Model.New QRV.Model.Codec QRV.Spec.Valid QRV.Lemmas.NewDP QRV.Lemmas.NewDPGen
  QRV.Lemmas.NewKanjiCost QRV.Lemmas.NewKanjiValid

theorem seg_facts (s : Segment) (hok : SegOKG 0 1 2 3 s) (hne : s.data ≠ []) :
    6 * Micro.segBits s 4 + 50 ≤ sc 0 1 2 3 s ∧ Micro.segBits s 4 ≤ 8 + 8 * s.data.length := by
  have hlen : 1 ≤ s.data.length := by
    cases hd : s.data with
    | nil => exact absurd hd hne
    | cons a t => simp
  obtain ⟨hmode, _, _, hkan⟩ := hok
  rcases hmode hne with hm | hm | hm | hm
  · rw [sc_N s hm]
    simp (config := { decide := true }) only [Spec.Valid.Micro.segBits, Spec.Valid.Micro.kindOf, Spec.Valid.Micro.countBits, Spec.Valid.Micro.modeBits, bodyBits,
      count, hm, if_true, if_false]
    generalize s.data.length = n at hlen ⊢
    split
    · omega
    · split <;> omega
  · rw [sc_A NewMicroValid.distinct s hm]
    simp (config := { decide := true }) only [Spec.Valid.Micro.segBits, Spec.Valid.Micro.kindOf, Spec.Valid.Micro.countBits, Spec.Valid.Micro.modeBits, bodyBits,
      count, hm, if_true, if_false]
    generalize s.data.length = n at hlen ⊢
    omega
  · rw [sc_B NewMicroValid.distinct s hm]
    simp (config := { decide := true }) only [Spec.Valid.Micro.segBits, Spec.Valid.Micro.kindOf, Spec.Valid.Micro.countBits, Spec.Valid.Micro.modeBits, bodyBits,
      count, hm, if_true, if_false]
    generalize s.data.length = n at hlen ⊢
    omega
  · rw [sc_K NewMicroValid.distinct s hm]
    obtain ⟨rs, hrs, hall⟩ := hkan hm
    have hb := kanji_bytes rs hall
    have hr := runes_kanji rs hall
    rw [← hrs] at hb hr
    simp (config := { decide := true }) only [Spec.Valid.Micro.segBits, Spec.Valid.Micro.kindOf, Spec.Valid.Micro.countBits, Spec.Valid.Micro.modeBits, bodyBits,
      count, hm, if_true, hr]
    generalize s.data.length = n at hlen hb ⊢
    omega

/-- the standard bit length in M4 of the segmentation that `New` (Micro QR, kanji on) chooses is at most the
length of the payload as one byte segment -/
theorem newMicroKanji_total_le (data : Array Nat) (hne : data.size ≠ 0) (hsz : data.size < 2 ^ 56)
    (segs : List Segment) (h : newKanjiSegs [0, 0, 1, 2, 3] data = .ok segs) :
    (segs.map fun s => Micro.segBits s 4).sum ≤ 3 + 5 + 8 * data.size := by
  obtain ⟨hcat, hnonempty⟩ := newKanji_concat' _ data hne hsz segs h
  have hok := newKanji_segOKG NewMicroValid.distinct data segs h
  have hcost := newKanji_cost NewMicroValid.distinct data hne hsz segs h
  have hlen : (segs.flatMap (·.data)).length = data.size := by rw [hcat]; simp
  exact total_le (fun s => Micro.segBits s 4) (sc 0 1 2 3) 50 8 data.size segs
    (fun s hs => (seg_facts s (hok s hs) (hnonempty s hs)).1)
    (fun s hs => (seg_facts s (hok s hs) (hnonempty s hs)).2) hcost hlen (by omega)

theorem micro_new_kanji_not_too_large (level : Nat) (cap : Nat) (hcap : Spec.Valid.Micro.dataBits 4 level = some cap)
    (data : List Nat) (_hb : ∀ b ∈ data, b < 256)
    (hfit : 3 + 5 + 8 * data.length ≤ cap) :
    ∃ q, Model.Micro.new (level : Int) true data = .ok q := by
  have hl : level < 4 := Lemmas.FitCountMicro.dataBits_some hcap
  have hcap1000 : cap ≤ 1000 := by
    have := forall_lt_of_all Lemmas.NewOptimalMicro.cap4_le level hl
    rw [hcap] at this
    exact of_decide_eq_true this
  unfold Model.Micro.new
  simp only []
  split
  · rename_i hlv; omega
  · split
    · obtain ⟨v, hv, _⟩ := QRV.Props.C05.micro_calcVersion_minimal level hl []
      rw [hv]
      exact ⟨_, rfl⟩
    · rename_i he
      have hne : data ≠ [] := by simpa using he
      have hsize : data.toArray.size ≠ 0 := size_ne_zero hne
      have hsz : data.toArray.size < 2 ^ 56 := by
        simp only [List.size_toArray]; omega
      simp only [if_true]
      obtain ⟨segs, hK⟩ := Lemmas.NewKanjiFallback.newKanji_total
        [0, Model.Micro.modeNumeric, Model.Micro.modeAlphanumeric, Model.Micro.modeBytes, Model.Micro.modeKanji]
        data.toArray
      rw [hK]
      simp only [Out.bind_ok]
      have hK' : newKanjiSegs [0, 0, 1, 2, 3] data.toArray = .ok segs := hK
      obtain ⟨_, hnonempty⟩ := newKanji_concat' _ data.toArray hsize hsz segs hK'
      have hok := newKanji_segOKG NewMicroValid.distinct data.toArray segs hK'
      have htot := newMicroKanji_total_le data.toArray hsize hsz segs hK'
      simp only [List.size_toArray] at htot
      obtain ⟨v, hv, _, _, hzero⟩ := QRV.Props.C05.micro_calcVersion_minimal level hl segs
      apply Lemmas.NewOptimalMicro.new_tail_ok (level : Int) segs v hv
      intro hv0
      refine hzero hv0 4 (by omega) (by omega) ⟨cap, hcap, ?_, by omega⟩
      intro s hs
      rcases (hok s hs).1 (hnonempty s hs) with hm | hm | hm | hm
      · exact ⟨0, 6, by rw [hm]; rfl, rfl⟩
      · exact ⟨1, 5, by rw [hm]; rfl, rfl⟩
      · exact ⟨2, 5, by rw [hm]; rfl, rfl⟩
      · exact ⟨3, 4, by rw [hm]; rfl, rfl⟩

end QRV.Lemmas.NewKanjiCostMicro
