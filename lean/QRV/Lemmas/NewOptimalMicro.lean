import QRV.Lemmas.NewOptimalGenDP
import QRV.Lemmas.NewMicroValid
/-
C05 (too large), Micro QR without kanji: the programme `newQRSegs` runs with header costs one bit
larger than M4's true headers (`(4+6)*6, (4+5)*6, (4+5)*6` against 3+6, 3+5, 3+5 bits); its
segmentation has a standard bit length in M4 of at most `3 + 5 + 8 n` (`NewOptimalGenDP.newQR_total_le`
with `Par.micro`), M4 has every mode, so `calcVersion` finds a version as soon as the payload fits M4
as one byte segment.
-/
namespace QRV.Lemmas.NewOptimalMicro
open QRV QRV.Model QRV.Model.Sym QRV.Model.New QRV.Model.Codec QRV.Spec.Valid QRV.Lemmas.NewDP QRV.Lemmas.NewDPGen
  QRV.Lemmas.NewOptimalGen QRV.Lemmas.NewOptimalGenDP

theorem micro_meas : Meas Par.micro [0, 0, 1, 2] (fun s => Micro.segBits s 4) := by
  refine ⟨?_, ?_⟩
  · intro m m' h1 h3 h1' h3' h
    have hm : m = 1 ∨ m = 2 ∨ m = 3 := by omega
    have hm' : m' = 1 ∨ m' = 2 ∨ m' = 3 := by omega
    rcases hm with rfl | rfl | rfl <;> rcases hm' with rfl | rfl | rfl <;>
      first | rfl | exact absurd h (by decide)
  · intro a m h1 h3 ha
    have hm : m = 1 ∨ m = 2 ∨ m = 3 := by omega
    rcases hm with rfl | rfl | rfl
    · have ha' : a.mode = 0 := ha
      simp (config := { decide := true }) [Spec.Valid.Micro.segBits, Spec.Valid.Micro.kindOf, Spec.Valid.Micro.countBits, Spec.Valid.Micro.modeBits, bodyBits,
        count, runBits, Par.micro, ha']
    · have ha' : a.mode = 1 := ha
      simp (config := { decide := true }) [Spec.Valid.Micro.segBits, Spec.Valid.Micro.kindOf, Spec.Valid.Micro.countBits, Spec.Valid.Micro.modeBits, bodyBits,
        count, runBits, Par.micro, ha']
    · have ha' : a.mode = 2 := ha
      simp (config := { decide := true }) [Spec.Valid.Micro.segBits, Spec.Valid.Micro.kindOf, Spec.Valid.Micro.countBits, Spec.Valid.Micro.modeBits, bodyBits,
        count, runBits, Par.micro, ha']

/-- the data bits of M4 are few (the standard's table) -/
theorem cap4_le : (List.range 4).all (fun l => match Micro.dataBits 4 l with
    | some c => decide (c ≤ 1000)
    | none => true) = true := by
  decide +kernel

/-- the standard bit length in M4 of the segmentation that `New` (Micro QR, no kanji) chooses is at
most the length of the payload as one byte segment -/
theorem newMicro_total_le (data : Array Nat) (hne : data.size ≠ 0) (hsz : data.size < 2 ^ 56) :
    ((newQRSegs ((4 + 6) * 6) ((4 + 5) * 6) ((4 + 5) * 6) [0, 0, 1, 2] data).map fun s => Micro.segBits s 4).sum ≤
      3 + 5 + 8 * data.size :=
  newQR_total_le Par.micro Par.ok_micro [0, 0, 1, 2] _ micro_meas data hne
    (by show 54 + 48 * data.size < inf; unfold inf; omega)

theorem new_tail_ok (level : Int) (segs : List Segment) (v : Nat)
    (hv : Model.Micro.calcVersion level segs = .ok (v : Int)) (hv0 : v ≠ 0) :
    ∃ q, (do
      let version ← Model.Micro.calcVersion level segs
      if version = 0 then Out.err (α := Unit) "microqr: data too large"
      pure ({ version, level, mask := Gen.Micro.c_maskAuto, segments := segs } : QRCode)) = .ok q := by
  rw [hv]
  simp only [Out.bind_ok]
  split
  · rename_i h; omega
  · exact ⟨_, rfl⟩

theorem micro_new_not_too_large (level : Nat) (cap : Nat) (hcap : Spec.Valid.Micro.dataBits 4 level = some cap)
    (data : List Nat) (hb : ∀ b ∈ data, b < 256)
    (hfit : 3 + 5 + 8 * data.length ≤ cap) :
    ∃ q, Model.Micro.new (level : Int) false data = .ok q := by
  have hl : level < 4 := Lemmas.FitCountMicro.dataBits_some hcap
  have hcap1000 : cap ≤ 1000 := by
    have := forall_lt_of_all cap4_le level hl
    rw [hcap] at this
    exact of_decide_eq_true this
  unfold Model.Micro.new
  simp only []
  split
  · rename_i hlv; omega
  · split
    · obtain ⟨v, hv, _⟩ := QRV.Props.C05.micro_calcVersion_minimal level hl []
      rw [hv]
      exact ⟨_, rfl⟩
    · rename_i he
      have hne : data ≠ [] := by simpa using he
      have hsize : data.toArray.size ≠ 0 := size_ne_zero hne
      have hsz : data.toArray.size < 2 ^ 56 := by
        simp only [List.size_toArray]; omega
      simp only [Bool.false_eq_true, if_false]
      show ∃ q, (do
        let segments ← (pure (newQRSegs ((4 + 6) * 6) ((4 + 5) * 6) ((4 + 5) * 6) [0, 0, 1, 2] data.toArray) : Out _)
        let version ← Model.Micro.calcVersion level segments
        if version = 0 then Out.err (α := Unit) "microqr: data too large"
        pure ({ version, level, mask := Gen.Micro.c_maskAuto, segments } : QRCode)) = .ok q
      rw [show (pure (newQRSegs ((4 + 6) * 6) ((4 + 5) * 6) ((4 + 5) * 6) [0, 0, 1, 2] data.toArray) : Out _) =
        Out.ok (newQRSegs ((4 + 6) * 6) ((4 + 5) * 6) ((4 + 5) * 6) [0, 0, 1, 2] data.toArray) from rfl]
      simp only [Out.bind_ok]
      have hvalid := newQR_valid_gen ((4 + 6) * 6) ((4 + 5) * 6) ((4 + 5) * 6) Lemmas.NewMicroValid.distinct
        data.toArray hsize hsz (by decide) (by simpa using hb)
      have htot := newMicro_total_le data.toArray hsize hsz
      simp only [List.size_toArray] at htot
      generalize newQRSegs ((4 + 6) * 6) ((4 + 5) * 6) ((4 + 5) * 6) [0, 0, 1, 2] data.toArray = segs at hvalid htot ⊢
      obtain ⟨v, hv, _, _, hzero⟩ := QRV.Props.C05.micro_calcVersion_minimal level hl segs
      apply new_tail_ok (level : Int) segs v hv
      intro hv0
      refine hzero hv0 4 (by omega) (by omega) ⟨cap, hcap, ?_, by omega⟩
      intro s hs
      rcases hvalid s hs with ⟨hm, _⟩ | ⟨hm, _⟩ | ⟨hm, _⟩ | ⟨hf, _⟩
      · exact ⟨0, 6, by rw [hm]; rfl, rfl⟩
      · exact ⟨1, 5, by rw [hm]; rfl, rfl⟩
      · exact ⟨2, 5, by rw [hm]; rfl, rfl⟩
      · cases hf

end QRV.Lemmas.NewOptimalMicro
