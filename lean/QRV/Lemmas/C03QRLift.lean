import QRV.Lemmas.RTFinal
import QRV.Props.C03
/-
C03 for whole QR symbols: lifting the per-block correction theorem (`C03.block_corrected`) through
format reading, unmasking, the module walk and de-interleaving (all from the round trip C01) to
damaged bitmaps.
-/
open QRV QRV.Model QRV.Model.Bitmap QRV.Model.Sym QRV.Props QRV.Props.C18 QRV.Model.QR QRV.Model.Bits QRV.Spec.Bits QRV.Spec.Valid
namespace QRV.Lemmas.RT

/-! ### the pixels of a packed pattern -/

theorem pstrict_eq {α : Type} (n : Nat) (f : Nat → α) : Spec.Patterns.strict n f = f n := by
  cases n <;> rfl

theorem testBit_double_add (a b j : Nat) (hb : b ≤ 1) :
    (2 * a + b).testBit j = if j = 0 then decide (b = 1) else a.testBit (j - 1) := by
  cases j with
  | zero =>
    rw [if_pos rfl, Nat.testBit_zero]
    congr 1
    apply propext
    omega
  | succ j =>
    rw [if_neg (by omega), Nat.testBit_succ]
    congr 1
    omega

theorem rowGo_testBit (g : Nat → Bool) : ∀ (r x0 acc j : Nat),
    (Spec.Patterns.rowGo g x0 r acc).testBit j =
      if j < r then g (x0 + (r - 1 - j)) else acc.testBit (j - r) := by
  intro r
  induction r with
  | zero => intro x0 acc j; simp [Spec.Patterns.rowGo]
  | succ r ih =>
    intro x0 acc j
    rw [Spec.Patterns.rowGo, pstrict_eq, ih]
    by_cases h1 : j < r
    · rw [if_pos h1, if_pos (by omega)]
      congr 1
      omega
    · rw [if_neg h1, testBit_double_add _ _ _ (by split <;> omega)]
      by_cases h2 : j = r
      · subst h2
        have e0 : j - j = 0 := by omega
        have e1 : x0 + (j + 1 - 1 - j) = x0 := by omega
        rw [if_pos e0, if_pos (Nat.lt_succ_self j), e1]
        cases g x0 <;> rfl
      · have e0 : ¬ (j - r = 0) := by omega
        have e1 : ¬ (j < r + 1) := by omega
        rw [if_neg e0, if_neg e1]
        congr 1

theorem rowBit_packRows (f : Nat → Nat → Bool) (W H x y : Nat) (hx : x < W) (hy : y < H) :
    rowBit (Spec.Patterns.packRows f W H) ((W + 7) / 8) x y = f x y := by
  unfold rowBit Spec.Patterns.packRows
  rw [List.getElem?_map, List.getElem?_range hy]
  simp only [Option.map_some, Option.getD_some, Spec.Patterns.packRow]
  rw [Nat.testBit_shiftLeft, rowGo_testBit]
  have h1 : 8 * ((W + 7) / 8) - 1 - x ≥ 8 * ((W + 7) / 8) - W := by omega
  have h2 : 8 * ((W + 7) / 8) - 1 - x - (8 * ((W + 7) / 8) - W) < W := by omega
  rw [decide_eq_true h1, Bool.true_and, if_pos h2]
  congr 1
  omega

/-- the mask canvas of pattern m as an image: pixel (x, y) is the standard's condition on
(row y, column x) -/
theorem mask_image_px (m : Nat) (hm : m < 8) :
    ∃ pat, imgAt QR.maskList (m : Int) = .ok (some pat) ∧ Regular pat 184 177 ∧
      ∀ x y, x < 184 → y < 177 → px pat x y = Spec.Patterns.QR.maskCond m y x := by
  obtain ⟨g, hg, he⟩ := C02.qr_mask_patterns m hm
  have hl : g.rows.length = 177 := by rw [he]; exact packRows_length ..
  have hne : g.rows ≠ [] := by intro h; rw [h] at hl; simp at hl
  refine ⟨Image.ofGen g, imgAt_ofGenList _ m g hg hne, ?_, ?_⟩
  · refine ofGen_regular g 184 177 ?_ ?_ ?_ ?_ ?_ hl <;> rw [he] <;> rfl
  · intro x y hx hy
    have hs : g.stride = 23 := by rw [he]
    have hr : g.rows = Spec.Patterns.QR.maskRows m 184 177 := by rw [he]
    rw [ofGen_px g x y (by omega), hs, hr]
    exact rowBit_packRows (fun x y => Spec.Patterns.QR.maskCond m y x) 184 177 x y hx hy

/-! ### block sizes and rated capacities run in parallel -/

theorem sizes_rated (blocks : List Gen.GBlock) : ∀ j, j < (sizesOf blocks).length →
    ∃ bc ∈ blocks, (sizesOf blocks)[j]? = some (bc.data, bc.total - bc.data) ∧
      (blocks.flatMap fun bc => List.replicate bc.num bc.maxError)[j]? = some bc.maxError := by
  induction blocks with
  | nil => intro j hj; simp [sizesOf] at hj
  | cons b bs ih =>
    intro j hj
    simp only [sizesOf, List.flatMap_cons, List.length_append, List.length_replicate] at hj ⊢
    by_cases hjb : j < b.num
    · refine ⟨b, by simp, ?_, ?_⟩
      · rw [List.getElem?_append_left (by simpa using hjb), List.getElem?_replicate, if_pos hjb]
      · rw [List.getElem?_append_left (by simpa using hjb), List.getElem?_replicate, if_pos hjb]
    · obtain ⟨bc, hmem, h1, h2⟩ := ih (j - b.num) (by unfold sizesOf; omega)
      refine ⟨bc, by simp [hmem], ?_, ?_⟩
      · rw [List.getElem?_append_right (by simp; omega), List.length_replicate]
        exact h1
      · rw [List.getElem?_append_right (by simp; omega), List.length_replicate]
        exact h2

/-! ### the Reed-Solomon loop on damaged blocks -/

theorem dist_self (a : List Nat) : C14.dist a a = 0 := by
  unfold C14.dist
  induction a with
  | nil => rfl
  | cons x a ih => simpa using ih


theorem rsLoop_corrected : ∀ (blks blks' : List (List Nat × List Nat)),
    blks.length = blks'.length →
    (∀ j (hj : j < blks.length) (hj' : j < blks'.length),
      blks'[j].1.length = blks[j].1.length ∧
      RS.decode (blks'[j].1 ++ blks'[j].2) (QR.RS_SYNDROMES blks'[j].2.length) = .ok (blks[j].1 ++ blks[j].2)) →
    ∀ acc : Array Nat,
      (forIn blks' acc fun blk result => do
        let data ← RS.decode (blk.1 ++ blk.2) (QR.RS_SYNDROMES blk.2.length)
        pure (ForInStep.yield (result ++ (data.take blk.1.length).toArray))) =
      Out.ok (acc ++ (blks.flatMap (·.1)).toArray) := by
  intro blks
  induction blks with
  | nil =>
    intro blks' hl _ acc
    cases blks' with
    | nil => simp; rfl
    | cons _ _ => simp at hl
  | cons b blks ih =>
    intro blks' hl h acc
    cases blks' with
    | nil => simp at hl
    | cons b' blks' =>
      have h0 := h 0 (by simp) (by simp)
      simp only [List.getElem_cons_zero] at h0
      rw [List.forIn_cons, h0.2]
      simp only [Out.bind_ok, pure_bind_out, h0.1, List.take_left']
      rw [ih blks' (by simpa using hl) (fun j hj hj' => by
        have := h (j + 1) (by simp; omega) (by simp; omega)
        simpa using this)]
      simp [Array.append_assoc]

/-- one block: within the rated distance of the conformant block, the decoder restores it -/
theorem block_fix (bc : Gen.GBlock)
    (hb : (decide (bc.data ≤ bc.total) && decide (2 ≤ bc.total - bc.data) &&
      decide (bc.total - bc.data ≤ 68) && decide (bc.maxError ≤ (bc.total - bc.data) / 2) && decide (bc.total ≤ 255)) = true)
    (b b' : List Nat × List Nat)
    (hs1 : b.1.length = bc.data) (hs2 : b.2.length = bc.total - bc.data)
    (hs1' : b'.1.length = bc.data) (hs2' : b'.2.length = bc.total - bc.data)
    (hb1 : ∀ x ∈ b.1, x < 256) (hpar : RS.parity b.2.length b.1 = .ok b.2)
    (hb1' : ∀ x ∈ b'.1, x < 256) (hb2' : ∀ x ∈ b'.2, x < 256)
    (hd : C14.dist (b.1 ++ b.2) (b'.1 ++ b'.2) ≤ bc.maxError) :
    RS.decode (b'.1 ++ b'.2) (QR.RS_SYNDROMES b'.2.length) = .ok (b.1 ++ b.2) := by
  have hle : bc.data ≤ bc.total := by
    simp only [Bool.and_eq_true, decide_eq_true_eq] at hb
    exact hb.1.1.1.1
  obtain ⟨par, hp, hdec⟩ := C03.block_corrected bc hb b.1 (b'.1 ++ b'.2) hb1
    (by intro x hx; rcases List.mem_append.mp hx with h | h
        · exact hb1' x h
        · exact hb2' x h) hs1
  rw [hs2] at hpar
  rw [hp] at hpar
  cases hpar
  unfold QR.RS_SYNDROMES
  rw [hs2']
  exact hdec (by rw [List.length_append, hs1', hs2']; omega) hd

/-! ### the clean symbol, with its format information exposed -/

/-- `roundtrip_core` once more, also returning what the final image holds in the first copy of the
format information -/
theorem roundtrip_exposed (v l : Nat) (mask : Int) (segments : List Segment)
    (hv : QR.Valid { version := v, level := l, mask := mask, segments := segments }) :
    ∃ img4 m c, Model.QR.encodeToBitmap { version := v, level := l, mask := mask, segments := segments } = .ok img4 ∧
      m < 8 ∧ Regular img4 (17 + 4 * v) (17 + 4 * v) ∧
      Gen.QR.encodedFormat[l * 8 + m]? = some c ∧
      (∀ i : Nat, i < 8 → px img4 8 (sk i) = c.testBit i ∧ px img4 (sk i) 8 = c.testBit (14 - i)) ∧
      Model.QR.decodeBitmap img4 = .ok { version := v, level := l, mask := (m : Int), segments := segments } ∧
      -- and its data modules
      ∃ cap buf blks cs, (Gen.QR.capacityTable[v]?.getD [])[l]? = some cap ∧
        Model.QR.encodeSegments { version := v, level := l, mask := mask, segments := segments } {} = .ok buf ∧
        splitBlocks cap.blocks buf.buf.toList = .ok blks ∧
        walk (usedFn v) (16 + 4 * (v : Int)) (fuelOf (16 + 4 * (v : Int))) (start (16 + 4 * (v : Int))) = some cs ∧
        blks.map (fun b => (b.1.length, b.2.length)) = sizesOf cap.blocks ∧
        (∀ b ∈ blks, (∀ x ∈ b.1, x < 256) ∧ ∀ x ∈ b.2, x < 256) ∧
        ∀ k (_ : k < 8 * cap.total) (hk' : k < cs.length),
          px img4 (cs[k]).1.toNat (cs[k]).2.toNat =
            ((unpack (ilvList blks))[k]?.getD false ^^ Spec.Patterns.QR.maskCond m (cs[k]).2.toNat (cs[k]).1.toNat) := by
  obtain ⟨ebuf, hE, hEsize, hEbytes, hSeg⟩ := stream_roundtrip _ hv
  obtain ⟨⟨hv1, hv40⟩, ⟨hl0, hl4⟩, ⟨hm1, hm7⟩, -, -⟩ := hv
  simp only at hv1 hv40 hl0 hl4 hm1 hm7 hEsize hSeg
  have h1 : 1 ≤ v := by omega
  have h40 : v ≤ 40 := by omega
  have hl : l < 4 := by omega
  simp only [Int.toNat_natCast] at hEsize
  obtain ⟨cap, hcapAt, hcapTbl, hct, hcd, -⟩ := capAt_valid v l h1 h40 hl
  obtain ⟨blks, ibuf, hsplit, hil, hiInv, hiw, hio, hir, hisz, hdeint, hrs⟩ :=
    blocks_roundtrip v l h1 h40 hl cap hcapTbl ebuf.buf.toList (by rw [Array.length_toList, hEsize, hcd]) hEbytes
  have hbits : encodeToBits { version := v, level := l, mask := mask, segments := segments } {} = .ok ibuf := by
    unfold encodeToBits
    simp only [hE, Out.bind_ok, hcapAt, hsplit, hil]
  obtain ⟨hbase, hused, hrb, hru, hbin⟩ := version_images v h1 h40
  obtain ⟨cs, hwalk, hlen⟩ := walk_version v h1 h40
  have hilen : ibuf.buf.toList.length = cap.total := by rw [Array.length_toList, hisz]
  have hlen' : 8 * ibuf.buf.toList.length ≤ cs.length := by rw [hilen, hct]; exact hlen
  obtain ⟨img1, hplace, hr1, hpx1⟩ := placement_spec v _ _ hrb hbin ibuf hiInv hio hir cs hwalk hlen'
  obtain ⟨img2, hvers, hr2, hpx2⟩ := versionStep_spec v h1 h40 img1 hr1
  obtain ⟨m, hm8, hchoose, hmeq⟩ := chooseMask_spec v l h1 h40 hl mask hm1 hm7 _ img2 hru hr2
  obtain ⟨c, img3, pat, img4, hfin, hc, hpat, hrp, hr3, hr4, hmask, hpx3, hfc⟩ :=
    finish_spec v l m h1 h40 hl hm8 _ img2 hru hr2
  have hrange := (walk_sound (usedFn v) (16 + 4 * (v : Int)) (by omega) _ cs hwalk).2
  have hcast : ∀ z : Int, 0 ≤ z → ((z.toNat : Nat) : Int) = z := fun z hz => Int.toNat_of_nonneg hz
  have hdata : ∀ k (hk : k < 8 * ibuf.buf.toList.length),
      px img3 (cs[k]'(by omega)).1.toNat (cs[k]'(by omega)).2.toNat = (unpack ibuf.buf.toList)[k]'(by simpa using hk) := by
    intro k hk
    have hr := hrange _ (List.getElem_mem (show k < cs.length by omega))
    rw [hpx3 _ _ (by omega) (by omega) (by rw [hcast _ hr.1, hcast _ hr.2.2.1]; exact hr.2.2.2.2),
      hpx2 _ _ (by omega) (by omega) (by rw [hcast _ hr.1, hcast _ hr.2.2.1]; exact hr.2.2.2.2)]
    exact hpx1 k hk
  refine ⟨img4, m, c, ?_, hm8, hr4, hc, ?_, ?_, cap, ebuf, blks, cs, hcapTbl, hE, hsplit, hwalk, ?_⟩
  rotate_left 3
  · -- the data modules of the final image
    obtain ⟨blks0, hsplit0, -, hmap, -, hall⟩ := splitBlocks_ok v l h1 h40 hl cap hcapTbl ebuf.buf.toList
      (by rw [Array.length_toList, hEsize, hcd]) hEbytes
    rw [hsplit] at hsplit0
    cases hsplit0
    have hall' : ∀ b ∈ blks, (∀ x ∈ b.1, x < 256) ∧ ∀ x ∈ b.2, x < 256 :=
      fun b hbm => ⟨(hall b hbm).1, (hall b hbm).2.1⟩
    refine ⟨hmap, hall', ?_⟩
    obtain ⟨ibuf0, hil0, -, -, -, -, hilv, -, -⟩ := deinterleave_interleave v l h1 h40 hl cap hcapTbl blks hmap hall'
    rw [hil] at hil0
    cases hil0
    obtain ⟨pat0, hpat0, -, hpatpx⟩ := mask_image_px m hm8
    rw [hpat] at hpat0
    cases hpat0
    intro k hk hkc
    have hr := hrange _ (List.getElem_mem hkc)
    have hx : (cs[k]).1.toNat < 17 + 4 * v := by omega
    have hy : (cs[k]).2.toNat < 17 + 4 * v := by omega
    have hk8 : k < 8 * ibuf.buf.toList.length := by rw [hilen]; exact hk
    have hku : k < (unpack (ilvList blks)).length := by rw [← hilv]; simpa using hk8
    have hd := hdata k hk8
    simp only [hilv] at hd
    rw [mask_spec img3 _ pat img4 _ _ 184 177 (by omega) (by omega) hr3 hru hrp (by omega) (by omega) hmask
        _ _ hx hy, used_px v _ hru hbin _ _ hx hy, hcast _ hr.1, hcast _ hr.2.2.1, hr.2.2.2.2,
      hpatpx _ _ (by omega) (by omega), hd, List.getElem?_eq_getElem hku, Option.getD_some]
    cases (unpack (ilvList blks))[k] <;> cases Spec.Patterns.QR.maskCond m (cs[k]).2.toNat (cs[k]).1.toNat <;> rfl
  · have e1 : versionIsValid (v : Int) = true := by
      unfold versionIsValid Gen.QR.c_versionMin Gen.QR.c_versionMax
      rw [Bool.and_eq_true, decide_eq_true_eq, decide_eq_true_eq]; omega
    have e2 : levelIsValid (l : Int) = true := by
      unfold levelIsValid Gen.QR.c_levelMin Gen.QR.c_levelMax
      rw [Bool.and_eq_true, decide_eq_true_eq, decide_eq_true_eq]; omega
    have e3 : (v : Int) ≠ 0 := by omega
    have e4 : maskIsValid mask = true := by
      unfold maskIsValid Gen.QR.c_maskAuto Gen.QR.c_maskMin Gen.QR.c_maskMax
      rw [Bool.or_eq_true, Bool.and_eq_true, beq_iff_eq, decide_eq_true_eq, decide_eq_true_eq]; omega
    rw [encodeToBitmap_eq _ e1 e2 e3 e4]
    simp only [hbits, Out.bind_ok, hbase, hused, deref, hplace, hvers, hchoose, hfin]
  · intro i hi
    have hs := sk_le i hi
    constructor
    · rw [mask_spec img3 _ pat img4 _ _ 184 177 (by omega) (by omega) hr3 hru hrp (by omega) (by omega) hmask
        8 (sk i) (by omega) (by omega), used_px v _ hru hbin 8 (sk i) (by omega) (by omega),
        (first_copy_used v h1 h40 i hi).1, (hfc i hi).1]
      simp
    · rw [mask_spec img3 _ pat img4 _ _ 184 177 (by omega) (by omega) hr3 hru hrp (by omega) (by omega) hmask
        (sk i) 8 (by omega) (by omega), used_px v _ hru hbin (sk i) 8 (by omega) (by omega),
        (first_copy_used v h1 h40 i hi).2, (hfc i hi).2]
      simp
  · refine decode_spec v l m h1 h40 hl hm8 segments img3 img4 _ pat c cs ibuf.buf.toList cap blks
      ebuf.buf.toList hr3 hr4 hru hrp hmask hused hpat hbin hc hfc hwalk hlen' ?_ hdata hcapAt hilen hdeint hrs ?_
    · exact hiInv.bytes_lt
    · rw [Array.toArray_toList]
      exact hSeg

/-! ### the lifting -/

theorem row_ok (v l : Nat) (h1 : 1 ≤ v) (cap : Gen.GCap)
    (hcap : (Gen.QR.capacityTable[v]?.getD [])[l]? = some cap) : C03.rowOK cap = true := by
  have h := C03.qr_rows
  rw [List.all_eq_true] at h
  cases hrow : Gen.QR.capacityTable[v]? with
  | none => rw [hrow] at hcap; simp at hcap
  | some row =>
    rw [hrow] at hcap
    simp only [Option.getD_some] at hcap
    have hmem : row ∈ Gen.QR.capacityTable.drop 1 := by
      rw [List.mem_iff_getElem?]
      refine ⟨v - 1, ?_⟩
      rw [List.getElem?_drop, show 1 + (v - 1) = v by omega]
      exact hrow
    have h2 := h row hmem
    rw [List.all_eq_true] at h2
    exact h2 cap (List.mem_of_getElem? hcap)

/-- the whole-symbol lifting with version and level as naturals -/
theorem corrects_rated_damage_nat (v l : Nat) (mask : Int) (segments : List Segment)
    (hv : QR.Valid { version := v, level := l, mask := mask, segments := segments }) (img : Image) (m : Nat)
    (henc : Model.QR.encodeToBitmap { version := v, level := l, mask := mask, segments := segments } = .ok img)
    (hmask : Model.QR.decodeBitmap img = .ok { version := v, level := l, mask := (m : Int), segments := segments })
    (cap : Gen.GCap) (hcap : (Gen.QR.capacityTable[v]?.getD [])[l]? = some cap)
    (buf : Bits.Buffer)
    (hbuf : Model.QR.encodeSegments { version := v, level := l, mask := mask, segments := segments } {} = .ok buf)
    (blks : List (List Nat × List Nat)) (hblks : splitBlocks cap.blocks buf.buf.toList = .ok blks)
    (cs : List (Int × Int))
    (hcs : walk (usedFn v) (16 + 4 * (v : Int)) (fuelOf (16 + 4 * (v : Int))) (start (16 + 4 * (v : Int))) = some cs)
    (img' : Image) (hreg : Regular img' (17 + 4 * v) (17 + 4 * v))
    (hfun : ∀ x y : Nat, x < 17 + 4 * v → y < 17 + 4 * v →
      usedFn v (x : Int) (y : Int) = true → px img' x y = px img x y)
    (blks' : List (List Nat × List Nat))
    (hshape : blks'.map (fun b => (b.1.length, b.2.length)) = sizesOf cap.blocks)
    (hbytes : ∀ b ∈ blks', (∀ x ∈ b.1, x < 256) ∧ ∀ x ∈ b.2, x < 256)
    (hcarry : ∀ k (_ : k < 8 * cap.total) (hk' : k < cs.length),
      px img' (cs[k]).1.toNat (cs[k]).2.toNat =
        ((unpack (ilvList blks'))[k]?.getD false ^^ Spec.Patterns.QR.maskCond m (cs[k]).2.toNat (cs[k]).1.toNat))
    (hdam : ∀ j (hj : j < blks.length) (hj' : j < blks'.length),
      C14.dist (blks[j].1 ++ blks[j].2) (blks'[j].1 ++ blks'[j].2) ≤
        (cap.blocks.flatMap fun bc => List.replicate bc.num bc.maxError)[j]?.getD 0) :
    Model.QR.decodeBitmap img' = .ok { version := v, level := l, mask := (m : Int), segments := segments } := by
  -- the clean symbol
  obtain ⟨img4, m0, c, henc0, hm8, hr4, hc, hfc4, hdec0, -⟩ := roundtrip_exposed v l mask segments hv
  rw [henc] at henc0
  cases henc0
  rw [hmask] at hdec0
  have hmm : m = m0 := by
    have := congrArg (fun o => match o with | Out.ok (q : QRCode) => q.mask | _ => 0) hdec0
    simp only at this
    omega
  subst hmm
  -- the stream
  obtain ⟨ebuf, hE, hEsize, hEbytes, hSeg⟩ := stream_roundtrip _ hv
  rw [hbuf] at hE
  cases hE
  obtain ⟨⟨hv1, hv40⟩, ⟨hl0, hl4⟩, -, -, -⟩ := hv
  simp only at hv1 hv40 hl0 hl4 hEsize hSeg
  have h1 : 1 ≤ v := by omega
  have h40 : v ≤ 40 := by omega
  have hl : l < 4 := by omega
  simp only [Int.toNat_natCast] at hEsize
  obtain ⟨cap0, hcapAt, hcapTbl, hct, hcd, -⟩ := capAt_valid v l h1 h40 hl
  rw [hcap] at hcapTbl
  cases hcapTbl
  -- the conformant blocks
  obtain ⟨blks0, hsplit, -, hmap, hflat, hall⟩ := splitBlocks_ok v l h1 h40 hl cap hcap buf.buf.toList
    (by rw [Array.length_toList, hEsize, hcd]) hEbytes
  rw [hblks] at hsplit
  cases hsplit
  -- images, walk
  obtain ⟨-, hused, -, hru, hbin⟩ := version_images v h1 h40
  obtain ⟨cs0, hwalk, hlen⟩ := walk_version v h1 h40
  rw [hcs] at hwalk
  cases hwalk
  obtain ⟨pat, hpat, hrp, hpatpx⟩ := mask_image_px m hm8
  obtain ⟨img3, hm3, hr3⟩ := mask_ok img' _ pat _ _ 184 177 (by omega) (by omega) hreg hru hrp (by omega) (by omega)
  have hm3' := mask_involutive img' _ pat img3 _ _ 184 177 (by omega) (by omega) hreg hru hrp (by omega) (by omega) hm3
  -- the damaged blocks, interleaved
  obtain ⟨ibuf, -, hiInv, -, -, -, hilv, hisz, hdeint⟩ := deinterleave_interleave v l h1 h40 hl cap hcap blks' hshape hbytes
  have hilen : (ilvList blks').length = cap.total := by rw [← hilv, Array.length_toList, hisz]
  have hlen' : 8 * (ilvList blks').length ≤ cs.length := by rw [hilen, hct]; exact hlen
  have hrange := (walk_sound (usedFn v) (16 + 4 * (v : Int)) (by omega) _ cs hcs).2
  -- error correction
  have hlens : blks.length = blks'.length := by
    have a := congrArg List.length hmap
    have b := congrArg List.length hshape
    simp only [List.length_map] at a b
    omega
  have hrow := row_ok v l h1 cap hcap
  have hrs : rsLoop blks' = .ok buf.buf.toList.toArray := by
    unfold rsLoop
    rw [rsLoop_corrected blks blks' hlens ?_ #[], hflat]
    · simp
    · intro j hj hj'
      have hjs : j < (sizesOf cap.blocks).length := by rw [← hmap]; simpa using hj
      obtain ⟨bc, hbc, hsz, hrt⟩ := sizes_rated cap.blocks j hjs
      have hs := congrArg (fun l => l[j]?) hmap
      have hs' := congrArg (fun l => l[j]?) hshape
      simp only [List.getElem?_map, List.getElem?_eq_getElem hj, List.getElem?_eq_getElem hj', Option.map_some, hsz,
        Option.some.injEq, Prod.mk.injEq] at hs hs'
      have hok : (decide (bc.data ≤ bc.total) && decide (2 ≤ bc.total - bc.data) &&
          decide (bc.total - bc.data ≤ 68) && decide (bc.maxError ≤ (bc.total - bc.data) / 2) && decide (bc.total ≤ 255)) = true := by
        unfold C03.rowOK at hrow
        rw [List.all_eq_true] at hrow
        exact hrow bc hbc
      have hd := hdam j hj hj'
      rw [hrt, Option.getD_some] at hd
      have hb := hall _ (List.getElem_mem hj)
      have hb' := hbytes _ (List.getElem_mem hj')
      exact ⟨by rw [hs'.1, hs.1],
        block_fix bc hok blks[j] blks'[j] hs.1 hs.2 hs'.1 hs'.2 hb.1 hb.2.2 hb'.1 hb'.2 hd⟩
  refine decode_spec v l m h1 h40 hl hm8 segments img3 img' _ pat c cs (ilvList blks') cap blks'
    buf.buf.toList hr3 hreg hru hrp hm3' hused hpat hbin hc ?_ hcs hlen' ?_ ?_ hcapAt hilen ?_ hrs ?_
  · -- format information: function modules, the same as in the clean symbol
    intro i hi
    have hs := sk_le i hi
    have hu := first_copy_used v h1 h40 i hi
    constructor
    · rw [mask_spec img' _ pat img3 _ _ 184 177 (by omega) (by omega) hreg hru hrp (by omega) (by omega) hm3
        8 (sk i) (by omega) (by omega), used_px v _ hru hbin 8 (sk i) (by omega) (by omega),
        hu.1, hfun 8 (sk i) (by omega) (by omega) hu.1, (hfc4 i hi).1]
      simp
    · rw [mask_spec img' _ pat img3 _ _ 184 177 (by omega) (by omega) hreg hru hrp (by omega) (by omega) hm3
        (sk i) 8 (by omega) (by omega), used_px v _ hru hbin (sk i) 8 (by omega) (by omega),
        hu.2, hfun (sk i) 8 (by omega) (by omega) hu.2, (hfc4 i hi).2]
      simp
  · rw [← hilv]; exact hiInv.bytes_lt
  · -- data modules
    intro k hk
    have hkc : k < cs.length := by omega
    have hr := hrange _ (List.getElem_mem hkc)
    have hcast : ∀ z : Int, 0 ≤ z → ((z.toNat : Nat) : Int) = z := fun z hz => Int.toNat_of_nonneg hz
    have hku : k < (unpack (ilvList blks')).length := by simpa using hk
    have hx : (cs[k]).1.toNat < 17 + 4 * v := by omega
    have hy : (cs[k]).2.toNat < 17 + 4 * v := by omega
    rw [mask_spec img' _ pat img3 _ _ 184 177 (by omega) (by omega) hreg hru hrp (by omega) (by omega) hm3
        _ _ hx hy, used_px v _ hru hbin _ _ hx hy, hcast _ hr.1, hcast _ hr.2.2.1, hr.2.2.2.2,
      hpatpx _ _ (by omega) (by omega), hcarry k (by omega) hkc, List.getElem?_eq_getElem hku, Option.getD_some]
    cases (unpack (ilvList blks'))[k] <;> cases Spec.Patterns.QR.maskCond m (cs[k]).2.toNat (cs[k]).1.toNat <;> rfl
  · intro extra
    rw [← hilv]
    exact hdeint extra
  · rw [Array.toArray_toList]
    exact hSeg

end QRV.Lemmas.RT
