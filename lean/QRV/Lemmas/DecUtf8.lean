import QRV.Model.Utf8
import QRV.Lemmas.KanjiFinite
/-
C07 — UTF-8: every assigned character of the kanji reference table (all 8,192 codes, by kernel
evaluation) is encoded by `encodeRune` as two or three bytes that `decodeRune` reads back as that
character, whatever follows; hence the runes of a concatenation of such encodings are the
characters.
-/
namespace QRV.Lemmas.Dec
open QRV QRV.Model.Utf8 QRV.Lemmas.Kanji

set_option maxRecDepth 1000000

/-! ### UTF-8: the characters of the kanji table decode back from their encodings -/

theorem decodeRune_two (p0 b1 : Nat) (rest : List Nat) (h : p0 < 0xE0) :
    decodeRune (p0 :: b1 :: rest) = decodeRune [p0, b1] := by
  simp only [decodeRune, if_pos h]

theorem decodeRune_three (p0 b1 b2 : Nat) (rest : List Nat) (h : p0 < 0xF0) :
    decodeRune (p0 :: b1 :: b2 :: rest) = decodeRune [p0, b1, b2] := by
  simp only [decodeRune, if_pos h]

/-- what the proof needs of a scalar: its encoding has two or three bytes, decodes back to the
scalar with that size, and the lead byte is in the two- resp. three-byte range -/
def runeOK (r : Nat) : Bool :=
  let e := encodeRune r
  decodeRune e == (r, e.length) && e.all (· < 256) &&
    ((e.length == 2 && e.headD 0 < 0xE0) || (e.length == 3 && e.headD 0 < 0xF0))

/-- every assigned character of the kanji reference table (all 8,192 codes) -/
theorem kanji_runes_ok : ∀ code, code < 8192 → (refAt code == 0 || runeOK (refAt code)) = true :=
  forall_lt_of_all (by decide +kernel)

theorem runeOK_decode (r : Nat) (h : runeOK r = true) (rest : List Nat) :
    decodeRune (encodeRune r ++ rest) = (r, (encodeRune r).length) ∧ 2 ≤ (encodeRune r).length ∧
      ∀ x ∈ encodeRune r, x < 256 := by
  unfold runeOK at h
  simp only [Bool.and_eq_true, Bool.or_eq_true, beq_iff_eq, decide_eq_true_eq, List.all_eq_true] at h
  obtain ⟨⟨h1, h2⟩, h3⟩ := h
  refine ⟨?_, by omega, h2⟩
  generalize encodeRune r = e at h1 h2 h3
  rcases h3 with ⟨hl, hh⟩ | ⟨hl, hh⟩
  · match e, hl with
    | [p0, b1], _ =>
      rw [← h1]
      exact decodeRune_two p0 b1 rest (by simpa using hh)
  · match e, hl with
    | [p0, b1, b2], _ =>
      rw [← h1]
      exact decodeRune_three p0 b1 b2 rest (by simpa using hh)

theorem runesFuel_step (f : Nat) (e tail : List Nat) (r : Nat) (hl : 1 ≤ e.length)
    (hd : decodeRune (e ++ tail) = (r, e.length)) : runesFuel (f + 1) (e ++ tail) = r :: runesFuel f tail := by
  match e, hl with
  | a :: t, _ =>
    rw [List.cons_append] at hd ⊢
    rw [runesFuel, hd]
    simp only
    rw [← List.cons_append, List.drop_left' rfl]

theorem runesFuel_flatMap (rs : List Nat) (h : ∀ r ∈ rs, runeOK r = true) :
    ∀ f, (rs.flatMap encodeRune).length ≤ f → runesFuel f (rs.flatMap encodeRune) = rs := by
  induction rs with
  | nil => intro f _; cases f <;> rfl
  | cons r rs ih =>
    intro f hf
    obtain ⟨hd, hl, _⟩ := runeOK_decode r (h r (List.mem_cons_self ..)) (rs.flatMap encodeRune)
    rw [List.flatMap_cons] at hf ⊢
    rw [List.length_append] at hf
    match f, hf with
    | 0, hf => omega
    | f + 1, hf =>
      rw [runesFuel_step f _ _ r (by omega) hd,
        ih (fun x hx => h x (List.mem_cons_of_mem _ hx)) f (by omega)]

theorem runes_flatMap (rs : List Nat) (h : ∀ r ∈ rs, runeOK r = true) :
    runes (rs.flatMap encodeRune) = rs :=
  runesFuel_flatMap rs h _ (Nat.le_refl _)

end QRV.Lemmas.Dec
