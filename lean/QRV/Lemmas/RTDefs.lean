import QRV.Model.QR
import QRV.Spec.Valid
import QRV.Props.C16
import QRV.Props.C18
import QRV.Lemmas.TablesFinite
/-
Shared definitions for the round-trip proof C01 (QR): the coordinate walk shared by the placement
and the reading loop, the row-packed reading of a generated bitmap, the Reed-Solomon loop of the
decoder as a named function, and the capacity-table lookup for a valid (version, level).
-/
namespace QRV.Lemmas.RT
open QRV QRV.Model QRV.Model.Bits QRV.Model.Bitmap QRV.Model.Sym QRV.Spec.Tables

/-- the non-function modules in visiting order: same control flow as `Model.QR.placeLoop` and
`Model.QR.readLoop` (without the early exit of the former when the bits run out); `f x y` says
whether module (x, y) is a function module (`used.binaryAt x y`); `none` = fuel exhausted -/
def walk (f : Int → Int → Bool) (w : Int) : (fuel : Nat) → Walk → Option (List (Int × Int))
  | 0, _ => none
  | fuel + 1, s =>
    if s.x = 6 then walk f w fuel { s with x := s.x - 1 }
    else
      let l1 : List (Int × Int) := if f s.x s.y then [] else [(s.x, s.y)]
      let x := s.x - 1
      if x < 0 then some l1
      else
        let l2 : List (Int × Int) := if f x s.y then [] else [(x, s.y)]
        let x := x + 1
        let y := s.y + s.dy
        let (x, y, dy) := if y < 0 ∨ y > w then (x - 2, y + (-s.dy), -s.dy) else (x, y, s.dy)
        if x < 0 then some (l1 ++ l2)
        else (walk f w fuel { x, y, dy }).map (fun cs => l1 ++ l2 ++ cs)

/-- bit x of row y of a row-packed bitmap (`Gen.GBmp.rows`): pixel x is bit `8*stride-1-x` -/
def rowBit (rows : List Nat) (stride x y : Nat) : Bool :=
  (rows[y]?.getD 0).testBit (8 * stride - 1 - x)

/-- `BinaryAt` of the n x n image made from the rows: white outside -/
def fnOf (rows : List Nat) (stride n : Nat) (x y : Int) : Bool :=
  decide (0 ≤ x ∧ x < n ∧ 0 ≤ y ∧ y < n) && rowBit rows stride x.toNat y.toNat

/-- the used-module bitmap of version v as generated -/
def usedGen (v : Nat) : Gen.GBmp := Gen.QR.usedList[v]?.getD default
def baseGen (v : Nat) : Gen.GBmp := Gen.QR.baseList[v]?.getD default

/-- is (x, y) a function module of version v (white outside the symbol) -/
def usedFn (v : Nat) : Int → Int → Bool := fnOf (usedGen v).rows (usedGen v).stride (17 + 4 * v)

/-- the start state of both walks -/
def start (w : Int) : Walk := { x := w, y := w, dy := -1 }

/-- the fuel the model gives both walks -/
def fuelOf (w : Int) : Nat := ((w + 3) * (w + 3)).toNat

/-- the error-correction loop of `decodeBitmapFull` -/
def rsLoop (blocks : List (List Nat × List Nat)) : Out (Array Nat) :=
  forIn blocks (#[] : Array Nat) fun blk result => do
    let data ← RS.decode (blk.1 ++ blk.2) (QR.RS_SYNDROMES blk.2.length)
    pure (ForInStep.yield (result ++ (data.take blk.1.length).toArray))

/-- capacity row of a valid (version, level): the lookup succeeds and the row is the standard's -/
theorem capAt_valid (v l : Nat) (h1 : 1 ≤ v) (h40 : v ≤ 40) (hl : l < 4) :
    ∃ cap, capAt Gen.QR.capacityTable (v : Int) (l : Int) = .ok cap ∧
      (Gen.QR.capacityTable[v]?.getD [])[l]? = some cap ∧
      cap.total = totalCodewords v ∧ cap.data = dataCodewords v l ∧
      cap.blocks.map (fun b => (b.num, b.total, b.data)) = blockGroups v l := by
  have h := Lemmas.Tables.qr_capacity v l h1 h40 hl
  unfold Lemmas.Tables.qrRowOK at h
  split at h
  · cases h
  · rename_i c hc
    simp only [Bool.and_eq_true, beq_iff_eq] at h
    refine ⟨c, ?_, hc, h.1.1.1, h.1.1.2, h.2⟩
    unfold capAt
    rw [if_neg (by omega)]
    simp only [Int.toNat_natCast]
    cases hrow : Gen.QR.capacityTable[v]? with
    | none => rw [hrow] at hc; simp at hc
    | some row =>
      rw [hrow] at hc
      simp only [Option.getD_some] at hc
      simp only [hc]

end QRV.Lemmas.RT
