import QRV.Lemmas.RTBlocks
import QRV.Lemmas.RRDefs
import QRV.Lemmas.RRFinBlocks
import QRV.Props.C03
/-
Round trip C01 (rMQR), the error-correction block structure, with the LAST codeword of the
interleaved sequence possibly read back wrong (finding D18: the walk of twelve versions ends before
the last codeword is placed in full).  The last codeword is the last correction codeword of the last
block; the Reed-Solomon step restores it (`C03.block_corrected`, i.e. `C14.dec_complete`).
-/
namespace QRV.Lemmas.RR
open QRV QRV.Model QRV.Model.Bits QRV.Model.Sym QRV.Lemmas.RT

theorem flatMap_congr' {α β : Type} (l : List α) (f g : α → List β) (h : ∀ a ∈ l, f a = g a) :
    l.flatMap f = l.flatMap g := by
  induction l with
  | nil => rfl
  | cons a l ih =>
    rw [List.flatMap_cons, List.flatMap_cons, h a (by simp), ih (fun b hb => h b (by simp [hb]))]

/-- lists of one length: the interleaving goes row by row -/
theorem ilv1_uniform (ls : List (List Nat)) (nb e : Nat) (h : Shape ls nb 0 e) :
    ilv1 ls = (List.range e).flatMap (fun i => ls.map (fun l => l[i]?.getD 0)) := by
  rw [h.ilv1_eq, h.row_d]
  have : ls.drop nb = [] := by
    apply List.drop_eq_nil_of_le; rw [h.length]; omega
  rw [this, List.map_nil, List.append_nil]
  exact flatMap_congr' _ _ _ (fun i hi => h.row_lt i (List.mem_range.mp hi))

/-- changing the last byte of the last list changes the last byte of the interleaving -/
theorem ilv1_last (ls0 : List (List Nat)) (p : List Nat) (nb e y : Nat)
    (h : Shape (ls0 ++ [p]) nb 0 (e + 1)) (hp : p.length = e + 1) :
    ilv1 (ls0 ++ [p.dropLast ++ [y]]) = (ilv1 (ls0 ++ [p])).dropLast ++ [y] := by
  have h' : Shape (ls0 ++ [p.dropLast ++ [y]]) nb 0 (e + 1) := by
    unfold Shape at h ⊢
    rw [← h]
    simp [hp]
  have e1 : (p.dropLast ++ [y])[e]? = some y := by
    rw [List.getElem?_append_right (by simp [hp])]
    simp [hp]
  have e2 : ∀ i ∈ List.range e, (p.dropLast ++ [y])[i]? = p[i]? := by
    intro i hi
    have := List.mem_range.mp hi
    rw [List.getElem?_append_left (by simp [hp]; omega), List.getElem?_dropLast, if_pos (by omega)]
  rw [ilv1_uniform _ nb (e + 1) h, ilv1_uniform _ nb (e + 1) h', List.range_succ, List.flatMap_append,
    List.flatMap_append, List.flatMap_singleton, List.flatMap_singleton]
  simp only [List.map_append, List.map_cons, List.map_nil]
  rw [flatMap_congr' (List.range e) _ (fun i => ls0.map (fun l => l[i]?.getD 0) ++ [p[i]?.getD 0])
    (fun i hi => by rw [e2 i hi]), e1]
  simp only [← List.append_assoc, List.dropLast_concat, Option.getD_some]

/-! ### distance -/

theorem filter_zip_self (l : List Nat) : (l.zip l).filter (fun p => p.1 != p.2) = [] := by
  induction l with
  | nil => rfl
  | cons a l ih => simp [ih]

theorem dist_concat (a : List Nat) (u v : Nat) : Props.C14.dist (a ++ [u]) (a ++ [v]) ≤ 1 := by
  unfold Props.C14.dist
  rw [List.zip_append rfl, List.filter_append, filter_zip_self, List.nil_append]
  exact List.length_filter_le _ _

/-! ### the Reed-Solomon loop -/

theorem rsLoop_last (blks0 : List (List Nat × List Nat)) (bl bl' : List Nat × List Nat)
    (h0 : ∀ b ∈ blks0, RS.decode (b.1 ++ b.2) (Model.RMQR.RS_SYNDROMES b.2.length) = .ok (b.1 ++ b.2))
    (h1 : RS.decode (bl'.1 ++ bl'.2) (Model.RMQR.RS_SYNDROMES bl'.2.length) = .ok (bl.1 ++ bl.2))
    (h2 : bl'.1.length = bl.1.length) :
    ∀ acc : Array Nat,
      (forIn (blks0 ++ [bl']) acc fun blk result => do
        let data ← RS.decode (blk.1 ++ blk.2) (Model.RMQR.RS_SYNDROMES blk.2.length)
        pure (ForInStep.yield (result ++ (data.take blk.1.length).toArray))) =
      Out.ok (acc ++ ((blks0 ++ [bl]).flatMap (·.1)).toArray) := by
  induction blks0 with
  | nil =>
    intro acc
    rw [List.nil_append, List.forIn_cons, h1]
    simp only [Out.bind_ok, pure_bind_out, h2, List.take_left', List.forIn_nil]
    simp
    rfl
  | cons b blks ih =>
    intro acc
    rw [List.cons_append, List.forIn_cons, h0 b (by simp)]
    simp only [Out.bind_ok, pure_bind_out, List.take_left']
    rw [ih (fun c hc => h0 c (by simp [hc]))]
    simp [Array.append_assoc]

/-! ### sizes -/

theorem total_of_mem_sizes (blocks : List Gen.GBlock) (hg : ∀ bc ∈ blocks, groupOK bc = true)
    (h255 : ∀ bc ∈ blocks, bc.total ≤ 255) (s : Nat × Nat) (hs : s ∈ sizesOf blocks) : s.1 + s.2 ≤ 255 := by
  simp only [sizesOf, List.mem_flatMap, List.mem_replicate] at hs
  obtain ⟨bc, hbc, _, rfl⟩ := hs
  have := hg bc hbc
  have := h255 bc hbc
  simp only [groupOK, Bool.and_eq_true, decide_eq_true_eq] at *
  omega

/-! ### the interface theorem -/

/-- split, interleave; then de-interleave and correct a received sequence whose LAST codeword is
arbitrary (and which may be followed by anything): the data comes back -/
theorem blocks_roundtrip_fix (cap : Gen.GCap) (hshape : capShapeOK cap = true)
    (h255 : ∀ bc ∈ cap.blocks, bc.total ≤ 255)
    (data : List Nat) (hlen : data.length = cap.data) (hb : ∀ b ∈ data, b < 256) :
    ∃ blks ibuf, splitBlocks cap.blocks data = .ok blks ∧ interleave blks {} = .ok ibuf ∧
      Props.C16.Inv ibuf ∧ ibuf.wrote = 0 ∧ ibuf.offset = 0 ∧ ibuf.read = 0 ∧
      ibuf.buf.size = cap.total ∧ 1 ≤ cap.total ∧
      ∀ (y : Nat) (extra : List Nat), y < 256 →
        ∃ blks', deinterleave cap.blocks cap.data cap.total (ibuf.buf.toList.dropLast ++ y :: extra) = .ok blks' ∧
          rsLoop blks' = .ok data.toArray := by
  obtain ⟨n1, n2, d, e, hs, hd, ht⟩ := shape_of_cap cap hshape
  have hsum : dataSum (sizesOf cap.blocks) = data.length := by
    rw [hs.sizes, dataSum_append, dataSum_replicate, dataSum_replicate, hlen, ← hd]
  have hgs := groupOK_of_mem_sizes _ hs.groups
  obtain ⟨hmap, hall⟩ := encBlocks_facts (sizesOf cap.blocks) hgs data (by omega) hb
  have hsplit := splitBlocks_enc cap.blocks hs.groups data (by omega)
  generalize hblks : encBlocks (sizesOf cap.blocks) data = blks at hmap hall hsplit
  have hflat : blks.flatMap (·.1) = data := by rw [← hblks]; exact encBlocks_flatten _ _ hsum
  have hbytes : ∀ b ∈ blks, (∀ x ∈ b.1, x < 256) ∧ ∀ x ∈ b.2, x < 256 :=
    fun b hbm => ⟨(hall b hbm).1, (hall b hbm).2.1⟩
  obtain ⟨ibuf, hi1, hi2, hi3, hi4, hi5, hi6, hi7, -⟩ :=
    ilv_roundtrip cap.blocks n1 n2 d e hs blks hmap hbytes cap.data cap.total hd.symm ht
  -- at least one block
  have hnb : blks.length = n1 + n2 := by
    have := congrArg List.length hmap
    rw [hs.sizes] at this
    simpa using this
  have hcb : cap.blocks ≠ [] := by
    intro h0
    unfold capShapeOK at hshape
    rw [h0] at hshape
    cases hshape
  have hpos : 1 ≤ n1 + n2 := by
    obtain ⟨bc, hbc⟩ := List.exists_mem_of_ne_nil _ hcb
    have hg := hs.groups bc hbc
    simp only [groupOK, Bool.and_eq_true, decide_eq_true_eq] at hg
    have hmem : (bc.data, bc.total - bc.data) ∈ sizesOf cap.blocks := by
      simp only [sizesOf, List.mem_flatMap, List.mem_replicate]
      exact ⟨bc, hbc, by omega, rfl⟩
    rw [hs.sizes] at hmem
    rcases List.mem_append.mp hmem with h | h
    · have := (List.mem_replicate.mp h).1; omega
    · have := (List.mem_replicate.mp h).1; omega
  have he2 := hs.e2
  have htot1 : 1 ≤ cap.total := by
    rw [← ht]
    have : 1 * 2 ≤ (n1 + n2) * e := Nat.mul_le_mul hpos he2
    omega
  refine ⟨blks, ibuf, hsplit, hi1, hi2, hi3, hi4, hi5, hi7, htot1, ?_⟩
  intro y extra hy
  -- the last block
  have hne : blks ≠ [] := by intro h0; rw [h0] at hnb; simp at hnb; omega
  obtain ⟨blks0, bl, hsplit2⟩ : ∃ blks0 bl, blks = blks0 ++ [bl] :=
    ⟨blks.dropLast, blks.getLast hne, (List.dropLast_concat_getLast hne).symm⟩
  subst hsplit2
  obtain ⟨dl, p⟩ := bl
  -- all correction parts have length e
  have hlens : ∀ b ∈ blks0 ++ [(dl, p)], b.2.length = e ∧ b.1.length + b.2.length ≤ 255 := by
    intro b hbm
    have hm : (b.1.length, b.2.length) ∈ sizesOf cap.blocks := by
      rw [← hmap]; exact List.mem_map_of_mem (f := fun b => (b.1.length, b.2.length)) hbm
    refine ⟨?_, total_of_mem_sizes _ hs.groups h255 _ hm⟩
    rw [hs.sizes] at hm
    rcases List.mem_append.mp hm with h | h
    · have := (List.mem_replicate.mp h).2
      exact congrArg Prod.snd this
    · have := (List.mem_replicate.mp h).2
      exact congrArg Prod.snd this
  obtain ⟨hpe, hp255⟩ := hlens (dl, p) (by simp)
  simp only at hpe hp255
  obtain ⟨e', rfl⟩ : ∃ e', e = e' + 1 := ⟨e - 1, by omega⟩
  let p' := p.dropLast ++ [y]
  have hp'len : p'.length = p.length := by simp [p', hpe]
  have hmap' : (blks0 ++ [(dl, p')]).map (fun b => (b.1.length, b.2.length)) = sizesOf cap.blocks := by
    rw [← hmap]
    simp only [List.map_append, List.map_cons, List.map_nil, hp'len]
  have hpbytes := hbytes (dl, p) (by simp)
  have hbytes' : ∀ b ∈ blks0 ++ [(dl, p')], (∀ x ∈ b.1, x < 256) ∧ ∀ x ∈ b.2, x < 256 := by
    intro b hbm
    rcases List.mem_append.mp hbm with h | h
    · exact hbytes b (by simp [h])
    · simp only [List.mem_singleton] at h
      subst h
      refine ⟨hpbytes.1, ?_⟩
      intro x hx
      rcases List.mem_append.mp hx with h | h
      · exact hpbytes.2 x (List.dropLast_subset _ h)
      · simp only [List.mem_singleton] at h; omega
  obtain ⟨ibuf', -, -, -, -, -, hi6', -, hi8'⟩ :=
    ilv_roundtrip cap.blocks n1 n2 d (e' + 1) hs _ hmap' hbytes' cap.data cap.total hd.symm ht
  -- the received sequence is the interleaving of the modified blocks
  have hshapeC : Shape ((blks0 ++ [(dl, p)]).map (·.2)) (n1 + n2) 0 (e' + 1) := by
    unfold Shape
    have : ((blks0 ++ [(dl, p)]).map (·.2)).map List.length = (sizesOf cap.blocks).map (·.2) := by
      rw [← hmap]; simp [List.map_map, Function.comp_def]
    rw [this, hs.sizes]; simp [List.replicate_append_replicate]
  have hilv : ilvList (blks0 ++ [(dl, p')]) = (ilvList (blks0 ++ [(dl, p)])).dropLast ++ [y] := by
    unfold ilvList
    simp only [List.map_append, List.map_cons, List.map_nil]
    simp only [List.map_append, List.map_cons, List.map_nil] at hshapeC
    rw [ilv1_last _ p (n1 + n2) e' y hshapeC hpe]
    have hne2 : ilv1 (blks0.map (·.2) ++ [p]) ≠ [] := by
      intro h0
      have := hshapeC.ilv1_length
      rw [h0] at this
      simp at this
      have : 1 * 1 ≤ (e' + 1) * (n1 + n2) := Nat.mul_le_mul (by omega) hpos
      omega
    rw [List.dropLast_append_of_ne_nil hne2, List.append_assoc]
  refine ⟨blks0 ++ [(dl, p')], ?_, ?_⟩
  · have := hi8' extra
    rw [hi6', hilv, ← hi6, List.append_assoc] at this
    exact this
  · -- error correction
    have hclean : ∀ b ∈ blks0, RS.decode (b.1 ++ b.2) (Model.RMQR.RS_SYNDROMES b.2.length) = .ok (b.1 ++ b.2) :=
      fun b hbm => (hall b (by simp [hbm])).2.2.2
    obtain ⟨-, -, hpar, -⟩ := hall (dl, p) (by simp)
    simp only at hpar
    have hfix : RS.decode (dl ++ p') (Model.RMQR.RS_SYNDROMES p'.length) = .ok (dl ++ p) := by
      obtain ⟨par, hpar', hdec⟩ := Props.C03.block_corrected
        { num := 1, total := dl.length + (e' + 1), data := dl.length, maxError := 1, reserved := 0 }
        (by
          simp only [Bool.and_eq_true, decide_eq_true_eq]
          refine ⟨⟨⟨⟨by omega, by omega⟩, ?_⟩, by omega⟩, by omega⟩
          have := hs.e68; omega)
        dl (dl ++ p') hpbytes.1
        (by
          intro x hx
          rcases List.mem_append.mp hx with h | h
          · exact hpbytes.1 x h
          · exact (hbytes' (dl, p') (by simp)).2 x h)
        rfl
      simp only at hpar' hdec
      have e0 : dl.length + (e' + 1) - dl.length = e' + 1 := by omega
      rw [e0] at hpar' hdec
      rw [hpe] at hpar
      rw [hpar] at hpar'
      cases hpar'
      have := hdec (by rw [List.length_append, hp'len, hpe]) (by
        have hpp : p = p.dropLast ++ [p.getLast (by intro h0; rw [h0] at hpe; simp at hpe)] :=
          (List.dropLast_concat_getLast _).symm
        conv => lhs; arg 1; rw [hpp]
        show Props.C14.dist (dl ++ (p.dropLast ++ [_])) (dl ++ (p.dropLast ++ [y])) ≤ 1
        rw [← List.append_assoc, ← List.append_assoc]
        exact dist_concat _ _ _)
      rw [hp'len, hpe]
      exact this
    unfold rsLoop
    rw [rsLoop_last blks0 (dl, p) (dl, p') hclean hfix rfl, hflat]
    simp
end QRV.Lemmas.RR
