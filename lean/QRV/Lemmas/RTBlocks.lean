import QRV.Lemmas.RTBlocksDeal
/-
Round trip C01, the error-correction block structure: `splitBlocks`, `interleave`,
`deinterleave` and the Reed-Solomon loop of the decoder, for every row of the QR capacity table.

Main results: `splitBlocks_ok`, `interleave_spec`, `deinterleave_interleave`, `clean_blocks_pass`
and the interface theorem `blocks_roundtrip`.
-/
namespace QRV.Lemmas.RT
open QRV QRV.Model QRV.Model.Bits QRV.Model.Sym

/-! ### one block -/

theorem parityOf_facts (n : Nat) (h2 : 2 ≤ n) (h68 : n ≤ 68) (d : List Nat) (hd : ∀ b ∈ d, b < 256) :
    (parityOf n d).length = n ∧ (∀ b ∈ parityOf n d, b < 256) ∧
      RS.parity n d = .ok (parityOf n d) ∧
      RS.decode (d ++ parityOf n d) n = .ok (d ++ parityOf n d) := by
  have hp := parity_eq n h2 h68 d
  obtain ⟨par, e1, hl, hbp, _⟩ := Props.C13.parity_is_codeword n h2 h68 d hd
  obtain ⟨par', e2, hdec⟩ := Props.C14.dec_of_encoder n h2 h68 d hd
  rw [hp] at e1 e2
  cases e1
  cases e2
  exact ⟨hl, hbp, hp, hdec⟩

/-- every block of `encBlocks`: lengths as in the size list, bytes, parity, decodes to itself -/
theorem encBlocks_facts (ss : List (Nat × Nat)) (hp : ∀ s ∈ ss, 2 ≤ s.2 ∧ s.2 ≤ 68) (l : List Nat)
    (h : dataSum ss ≤ l.length) (hb : ∀ b ∈ l, b < 256) :
    (encBlocks ss l).map (fun b => (b.1.length, b.2.length)) = ss ∧
    ∀ b ∈ encBlocks ss l, (∀ x ∈ b.1, x < 256) ∧ (∀ x ∈ b.2, x < 256) ∧
      RS.parity b.2.length b.1 = .ok b.2 ∧
      RS.decode (b.1 ++ b.2) (QR.RS_SYNDROMES b.2.length) = .ok (b.1 ++ b.2) := by
  induction ss generalizing l with
  | nil => simp [encBlocks]
  | cons s ss ih =>
    simp only [dataSum_cons] at h
    obtain ⟨h2, h68⟩ := hp s (by simp)
    have hbt : ∀ b ∈ l.take s.1, b < 256 := fun b hbm => hb b (List.mem_of_mem_take hbm)
    obtain ⟨f1, f2, f3, f4⟩ := parityOf_facts s.2 h2 h68 (l.take s.1) hbt
    obtain ⟨i1, i2⟩ := ih (fun t ht => hp t (by simp [ht])) (l.drop s.1) (by simp; omega)
      (fun b hbm => hb b (List.mem_of_mem_drop hbm))
    refine ⟨?_, ?_⟩
    · simp only [encBlocks, List.map_cons, i1, List.length_take, f1]
      congr 1
      rw [Nat.min_eq_left (by omega)]
    · intro b hbm
      simp only [encBlocks, List.mem_cons] at hbm
      rcases hbm with rfl | hbm
      · refine ⟨hbt, f2, ?_, ?_⟩
        · simp only []; rw [f1]; exact f3
        · simp only [QR.RS_SYNDROMES]; rw [f1]; exact f4
      · exact i2 b hbm

/-! ### the Reed-Solomon loop on clean blocks -/

theorem rsLoop_clean (blks : List (List Nat × List Nat))
    (h : ∀ b ∈ blks, RS.decode (b.1 ++ b.2) (QR.RS_SYNDROMES b.2.length) = .ok (b.1 ++ b.2)) :
    ∀ acc : Array Nat,
      (forIn blks acc fun blk result => do
        let data ← RS.decode (blk.1 ++ blk.2) (QR.RS_SYNDROMES blk.2.length)
        pure (ForInStep.yield (result ++ (data.take blk.1.length).toArray))) =
      Out.ok (acc ++ (blks.flatMap (·.1)).toArray) := by
  induction blks with
  | nil => intro acc; simp; rfl
  | cons b blks ih =>
    intro acc
    rw [List.forIn_cons, h b (by simp)]
    simp only [Out.bind_ok, pure_bind_out, List.take_left']
    rw [ih (fun c hc => h c (by simp [hc]))]
    simp [Array.append_assoc]

/-! ### the block structure of a table row -/

/-- n1 blocks of d data bytes, then n2 blocks of d + 1, all with e correction bytes -/
structure BlockShape (blocks : List Gen.GBlock) (n1 n2 d e : Nat) : Prop where
  sizes : sizesOf blocks = List.replicate n1 (d, e) ++ List.replicate n2 (d + 1, e)
  groups : ∀ bc ∈ blocks, groupOK bc = true
  e2 : 2 ≤ e
  e68 : e ≤ 68

theorem shape_of_cap (cap : Gen.GCap) (h : capShapeOK cap = true) :
    ∃ n1 n2 d e, BlockShape cap.blocks n1 n2 d e ∧
      n1 * d + n2 * (d + 1) = cap.data ∧ cap.data + (n1 + n2) * e = cap.total := by
  unfold capShapeOK at h
  split at h
  · rename_i b hb
    simp only [Bool.and_eq_true, beq_iff_eq] at h
    obtain ⟨⟨hg, hd⟩, ht⟩ := h
    have hg' := hg
    simp only [groupOK, Bool.and_eq_true, decide_eq_true_eq] at hg'
    refine ⟨b.num, 0, b.data, b.total - b.data, ⟨by simp [hb, sizesOf], ?_, hg'.1.2, hg'.2⟩, by simpa using hd, ?_⟩
    · intro bc hbc; rw [hb] at hbc; simp at hbc; rw [hbc]; exact hg
    · have : b.total = b.data + (b.total - b.data) := by omega
      rw [← ht, ← hd]
      conv => rhs; rw [this, Nat.mul_add]
      simp
  · rename_i b1 b2 hb
    simp only [Bool.and_eq_true, beq_iff_eq] at h
    obtain ⟨⟨⟨⟨⟨hg1, hg2⟩, ht⟩, hd⟩, hsd⟩, hst⟩ := h
    have hg1' := hg1
    have hg2' := hg2
    simp only [groupOK, Bool.and_eq_true, decide_eq_true_eq] at hg1' hg2'
    have he : b2.total - b2.data = b1.total - b1.data := by omega
    refine ⟨b1.num, b2.num, b1.data, b1.total - b1.data,
      ⟨by simp [hb, sizesOf, hd]; right; omega, ?_, hg1'.1.2, hg1'.2⟩, by rw [← hsd, hd], ?_⟩
    · intro bc hbc; rw [hb] at hbc; simp at hbc
      rcases hbc with rfl | rfl
      · exact hg1
      · exact hg2
    · have e1 : b1.total = b1.data + (b1.total - b1.data) := by omega
      have e2 : b2.total = b2.data + (b1.total - b1.data) := by omega
      rw [← hst, ← hsd]
      conv => rhs; rw [e1, e2, Nat.mul_add, Nat.mul_add]
      rw [Nat.add_mul]
      omega
  · cases h

/-! ### interleave, then de-interleave -/

theorem getElem!_toList_of_map (arrs : Array (Array Nat)) (ls : List (List Nat))
    (h : arrs.toList.map Array.toList = ls) (k : Nat) (hk : k < ls.length) :
    (arrs[k]!).toList = ls[k] := by
  subst h
  simp only [List.length_map, Array.length_toList] at hk
  simp [hk]

/-- the generic round trip through interleave / deinterleave: any family of byte blocks whose
lengths are those of a block list of the two-group shape -/
theorem ilv_roundtrip (blocks : List Gen.GBlock) (n1 n2 d e : Nat) (hs : BlockShape blocks n1 n2 d e)
    (blks : List (List Nat × List Nat))
    (hmap : blks.map (fun b => (b.1.length, b.2.length)) = sizesOf blocks)
    (hall : ∀ b ∈ blks, (∀ x ∈ b.1, x < 256) ∧ ∀ x ∈ b.2, x < 256)
    (dlen total : Nat) (hlen : dlen = n1 * d + n2 * (d + 1)) (htot : dlen + (n1 + n2) * e = total) :
    ∃ ibuf, interleave blks {} = .ok ibuf ∧ Props.C16.Inv ibuf ∧
      ibuf.wrote = 0 ∧ ibuf.offset = 0 ∧ ibuf.read = 0 ∧
      ibuf.buf.toList = ilvList blks ∧ ibuf.buf.size = total ∧
      ∀ extra : List Nat, deinterleave blocks dlen total (ibuf.buf.toList ++ extra) = .ok blks := by
  have hss := hs.sizes
  have hnblk : blks.length = n1 + n2 := by
    have := congrArg List.length hmap
    rw [hss] at this
    simpa using this
  have hfst : (blks.map (·.1)).map List.length = (sizesOf blocks).map (·.1) := by
    rw [← hmap]; simp [List.map_map, Function.comp_def]
  have hsnd : (blks.map (·.2)).map List.length = (sizesOf blocks).map (·.2) := by
    rw [← hmap]; simp [List.map_map, Function.comp_def]
  have sh1 : Shape (blks.map (·.1)) n1 n2 d := by
    unfold Shape; rw [hfst, hss]; simp
  have sh2 : Shape (blks.map (·.2)) (n1 + n2) 0 e := by
    unfold Shape; rw [hsnd, hss]; simp [List.replicate_append_replicate]
  obtain ⟨ibuf, e1, hi, hw, ho, hr, hl⟩ := interleave_empty blks hall
  have len1 : (ilv1 (blks.map (·.1))).length = dlen := by
    rw [sh1.ilv1_length, hlen, Nat.mul_add, Nat.mul_add, Nat.mul_comm d n1, Nat.mul_comm d n2, Nat.mul_one]
    omega
  have len2 : (ilv1 (blks.map (·.2))).length = (n1 + n2) * e := by
    rw [sh2.ilv1_length, Nat.mul_comm]; simp
  have hsize : ibuf.buf.size = total := by
    rw [← Array.length_toList, hl, ilvList, List.length_append, len1, len2, htot]
  refine ⟨ibuf, e1, hi, hw, ho, hr, hl, hsize, fun extra => ?_⟩
  rw [deinterleave_eq blocks dlen total _ (by omega) (by simp [← hsize])]
  have t1 : (ibuf.buf.toList ++ extra).take dlen = ilv1 (blks.map (·.1)) := by
    rw [hl, ilvList, List.append_assoc, ← len1, List.take_left' rfl]
  have t2 : ((ibuf.buf.toList ++ extra).take total).drop dlen = ilv1 (blks.map (·.2)) := by
    have : total = (ilvList blks).length := by rw [← hl, Array.length_toList, hsize]
    rw [hl, this, List.take_left' rfl, ilvList, ← len1, List.drop_left' rfl]
  rw [t1, t2, ← hfst, ← hsnd]
  obtain ⟨dat, hd1, hd2⟩ := deal_ilv1 sh1
  obtain ⟨cor, hc1, hc2⟩ := deal_ilv1 sh2
  rw [hd1, hc1]
  simp only [Out.bind_ok, pure_eq_ok]
  congr 1
  apply List.ext_getElem
  · have := congrArg List.length hmap
    simpa using this.symm
  · intro k h1 h2
    simp only [List.getElem_map, List.getElem_range]
    rw [getElem!_toList_of_map dat _ hd2 k (by simpa using h2),
      getElem!_toList_of_map cor _ hc2 k (by simpa using h2)]
    simp

/-! ### the deliverables, for every row of the QR capacity table -/

/-- `splitBlocks` on a table row succeeds; the blocks are the consecutive chunks of `data` of the
table's sizes (`encBlocks`: `take`/`drop` along `sizesOf`), each with its `RS.parity`; all bytes -/
theorem splitBlocks_ok (v l : Nat) (h1 : 1 ≤ v) (h40 : v ≤ 40) (hl : l < 4) (cap : Gen.GCap)
    (hcap : (Gen.QR.capacityTable[v]?.getD [])[l]? = some cap)
    (data : List Nat) (hlen : data.length = cap.data) (hb : ∀ b ∈ data, b < 256) :
    ∃ blks, splitBlocks cap.blocks data = .ok blks ∧
      blks = encBlocks (sizesOf cap.blocks) data ∧
      blks.map (fun b => (b.1.length, b.2.length)) = sizesOf cap.blocks ∧
      blks.flatMap (·.1) = data ∧
      ∀ b ∈ blks, (∀ x ∈ b.1, x < 256) ∧ (∀ x ∈ b.2, x < 256) ∧ RS.parity b.2.length b.1 = .ok b.2 := by
  obtain ⟨n1, n2, d, e, hs, hd, _⟩ := shape_of_cap cap (cap_shape v l h1 h40 hl cap hcap)
  have hsum : dataSum (sizesOf cap.blocks) = data.length := by
    rw [hs.sizes, dataSum_append, dataSum_replicate, dataSum_replicate, hlen, ← hd]
  obtain ⟨hmap, hall⟩ := encBlocks_facts (sizesOf cap.blocks) (groupOK_of_mem_sizes _ hs.groups) data
    (by omega) hb
  exact ⟨_, splitBlocks_enc cap.blocks hs.groups data (by omega), rfl, hmap,
    encBlocks_flatten _ _ hsum, fun b hbm => ⟨(hall b hbm).1, (hall b hbm).2.1, (hall b hbm).2.2.1⟩⟩

/-- the byte sequence `interleave` appends (to any buffer satisfying the write invariant): row by
row the i-th data byte of every block that has one, then likewise the correction bytes -/
theorem interleave_spec (blocks : List (List Nat × List Nat))
    (hb : ∀ b ∈ blocks, (∀ x ∈ b.1, x < 256) ∧ ∀ x ∈ b.2, x < 256)
    (ret : Buffer) (hret : Props.C16.Inv ret) :
    ∃ buf, interleave blocks ret = .ok buf ∧ Props.C16.Inv buf ∧
      Props.C16.abs buf = Props.C16.abs ret ++ Spec.Bits.unpack (ilvList blocks) ∧
      buf.offset = ret.offset ∧ buf.read = ret.read :=
  interleave_writes blocks hb ret hret

/-- `deinterleave ∘ interleave = id` on the block structure of every table row: any byte blocks
with the row's lengths come back, whatever follows the `cap.total` codewords -/
theorem deinterleave_interleave (v l : Nat) (h1 : 1 ≤ v) (h40 : v ≤ 40) (hl : l < 4) (cap : Gen.GCap)
    (hcap : (Gen.QR.capacityTable[v]?.getD [])[l]? = some cap)
    (blks : List (List Nat × List Nat))
    (hmap : blks.map (fun b => (b.1.length, b.2.length)) = sizesOf cap.blocks)
    (hall : ∀ b ∈ blks, (∀ x ∈ b.1, x < 256) ∧ ∀ x ∈ b.2, x < 256) :
    ∃ ibuf, interleave blks {} = .ok ibuf ∧ Props.C16.Inv ibuf ∧
      ibuf.wrote = 0 ∧ ibuf.offset = 0 ∧ ibuf.read = 0 ∧
      ibuf.buf.toList = ilvList blks ∧ ibuf.buf.size = cap.total ∧
      ∀ extra : List Nat, deinterleave cap.blocks cap.data cap.total (ibuf.buf.toList ++ extra) = .ok blks := by
  obtain ⟨n1, n2, d, e, hs, hd, ht⟩ := shape_of_cap cap (cap_shape v l h1 h40 hl cap hcap)
  exact ilv_roundtrip cap.blocks n1 n2 d e hs blks hmap hall cap.data cap.total hd.symm ht

/-- every block produced by `splitBlocks` on a table row passes `RS.decode` unchanged, so the
Reed-Solomon loop of the decoder returns the data -/
theorem clean_blocks_pass (v l : Nat) (h1 : 1 ≤ v) (h40 : v ≤ 40) (hl : l < 4) (cap : Gen.GCap)
    (hcap : (Gen.QR.capacityTable[v]?.getD [])[l]? = some cap)
    (data : List Nat) (hlen : data.length = cap.data) (hb : ∀ b ∈ data, b < 256) :
    ∃ blks, splitBlocks cap.blocks data = .ok blks ∧
      (∀ b ∈ blks, RS.decode (b.1 ++ b.2) (QR.RS_SYNDROMES b.2.length) = .ok (b.1 ++ b.2)) ∧
      rsLoop blks = .ok (blks.flatMap (·.1)).toArray ∧ rsLoop blks = .ok data.toArray := by
  obtain ⟨n1, n2, d, e, hs, hd, _⟩ := shape_of_cap cap (cap_shape v l h1 h40 hl cap hcap)
  have hsum : dataSum (sizesOf cap.blocks) = data.length := by
    rw [hs.sizes, dataSum_append, dataSum_replicate, dataSum_replicate, hlen, ← hd]
  obtain ⟨_, hall⟩ := encBlocks_facts (sizesOf cap.blocks) (groupOK_of_mem_sizes _ hs.groups) data
    (by omega) hb
  have hclean := fun b hbm => (hall b hbm).2.2.2
  have hrs : rsLoop (encBlocks (sizesOf cap.blocks) data) =
      .ok ((encBlocks (sizesOf cap.blocks) data).flatMap (·.1)).toArray := by
    unfold rsLoop
    rw [rsLoop_clean _ hclean]
    simp
  refine ⟨_, splitBlocks_enc cap.blocks hs.groups data (by omega), hclean, hrs, ?_⟩
  rw [hrs, encBlocks_flatten _ _ hsum]

open QRV QRV.Model QRV.Model.Bits QRV.Model.Sym in
/-- the interface theorem: split, interleave, de-interleave and correct is the identity -/
theorem blocks_roundtrip (v l : Nat) (h1 : 1 ≤ v) (h40 : v ≤ 40) (hl : l < 4) (cap : Gen.GCap)
    (hcap : (Gen.QR.capacityTable[v]?.getD [])[l]? = some cap)
    (data : List Nat) (hlen : data.length = cap.data) (hb : ∀ b ∈ data, b < 256) :
    ∃ blks ibuf, splitBlocks cap.blocks data = .ok blks ∧ interleave blks {} = .ok ibuf ∧
      QRV.Props.C16.Inv ibuf ∧ ibuf.wrote = 0 ∧ ibuf.offset = 0 ∧ ibuf.read = 0 ∧
      ibuf.buf.size = cap.total ∧
      (∀ extra : List Nat, deinterleave cap.blocks cap.data cap.total (ibuf.buf.toList ++ extra) = .ok blks) ∧
      rsLoop blks = .ok data.toArray := by
  obtain ⟨blks, hsplit, -, hmap, -, hall⟩ := splitBlocks_ok v l h1 h40 hl cap hcap data hlen hb
  obtain ⟨blks', hsplit', -, -, hrs⟩ := clean_blocks_pass v l h1 h40 hl cap hcap data hlen hb
  rw [hsplit] at hsplit'
  cases hsplit'
  obtain ⟨ibuf, hi1, hi2, hi3, hi4, hi5, -, hi7, hi8⟩ := deinterleave_interleave v l h1 h40 hl cap hcap
    blks hmap (fun b hbm => ⟨(hall b hbm).1, (hall b hbm).2.1⟩)
  exact ⟨blks, ibuf, hsplit, hi1, hi2, hi3, hi4, hi5, hi7, hi8, hrs⟩

end QRV.Lemmas.RT
