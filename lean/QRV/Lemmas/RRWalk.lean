import QRV.Lemmas.RRDefs
import QRV.Lemmas.RTWalk
/-
The zig-zag module walk of the rMQR encoder (`Model.RMQR.placeLoop`) and decoder
(`Model.RMQR.readLoop`) against the coordinate list `RR.walk`; soundness of the coordinate list; a
counting mirror for kernel evaluation.
-/
namespace QRV.Lemmas.RR
open QRV QRV.Model QRV.Model.Bits QRV.Model.Bitmap QRV.Model.Sym QRV.Props QRV.Lemmas.RT

/-! ### the placement loop -/

/-- the placement loop writes bit k of the unread part of the buffer at the k-th coordinate, until the
bits or the coordinates run out -/
theorem placeLoop_eq (used : Image) (f : Int → Int → Bool) (hf : ∀ x y, used.binaryAt x y = .ok (f x y)) (h : Int) :
    ∀ (fuel : Nat) (s : Walk) (cs : List (Int × Int)) (buf : Buffer) (img : Image),
      walk f h fuel s = some cs → C16.Inv buf → buf.read < 8 →
      RMQR.placeLoop used h fuel s buf img =
        (cs.zip (C17.unread buf)).foldlM (fun im p => im.setBinary p.1.1 p.1.2 p.2) img := by
  intro fuel
  induction fuel with
  | zero => intro s cs buf img h; simp [walk] at h
  | succ fuel ih =>
    intro s cs buf img hwalk hinv hr
    rw [walk] at hwalk
    rw [RMQR.placeLoop]
    rw [hf]; simp only [Out.bind_ok]
    simp only [] at hwalk
    by_cases hx1 : s.x - 1 < 1
    · rw [if_pos hx1] at hwalk
      injection hwalk with hwalk
      subst hwalk
      have := placeCell_bind (f s.x s.y) s.x s.y buf img hinv hr []
      rw [List.append_nil] at this
      refine this _ (fun _ _ => rfl) ?_
      intro b' im' _ _ _
      simp only [Bool.false_eq_true, if_false, if_pos hx1, List.zip_nil_left]
      rfl
    · rw [if_neg hx1] at hwalk
      generalize (if s.y + s.dy < 1 ∨ s.y + s.dy > h - 1 then (s.x - 1 + 1 - 2, s.y + s.dy + -s.dy, -s.dy)
          else (s.x - 1 + 1, s.y + s.dy, s.dy)) = t at hwalk ⊢
      obtain ⟨nx, ny, ndy⟩ := t
      simp only [] at hwalk ⊢
      have key : ∃ more : List (Int × Int),
          (∀ b' im', C16.Inv b' → b'.read < 8 →
            (if nx < 1 then (pure im' : Out Image) else RMQR.placeLoop used h fuel { x := nx, y := ny, dy := ndy } b' im') =
              (more.zip (C17.unread b')).foldlM setF im') ∧
          cs = (if f s.x s.y = true then [] else [(s.x, s.y)]) ++
            ((if f (s.x - 1) s.y = true then [] else [(s.x - 1, s.y)]) ++ more) := by
        by_cases hnx : nx < 1
        · rw [if_pos hnx] at hwalk
          injection hwalk with hwalk
          refine ⟨[], ?_, by rw [List.append_nil]; exact hwalk.symm⟩
          intro b' im' _ _
          rw [if_pos hnx]; rfl
        · rw [if_neg hnx] at hwalk
          cases hw' : walk f h fuel { x := nx, y := ny, dy := ndy } with
          | none => rw [hw'] at hwalk; cases hwalk
          | some cs' =>
            rw [hw'] at hwalk
            injection hwalk with hwalk
            refine ⟨cs', ?_, by rw [← List.append_assoc]; exact hwalk.symm⟩
            intro b' im' hinv' hr'
            rw [if_neg hnx]
            exact ih _ _ _ _ hw' hinv' hr'
      obtain ⟨more, hmore, hcs⟩ := key
      rw [hcs]
      refine placeCell_bind (f s.x s.y) s.x s.y buf img hinv hr _ _ (fun _ _ => rfl) ?_
      intro b' im' hinv' hr' _
      simp only [Bool.false_eq_true, if_false, if_neg hx1]
      rw [hf]; simp only [Out.bind_ok]
      refine placeCell_bind (f (s.x - 1) s.y) (s.x - 1) s.y b' im' hinv' hr' _ _ (fun _ _ => rfl) ?_
      intro b'' im'' hinv'' hr'' _
      simp only [Bool.false_eq_true, if_false]
      exact hmore b'' im'' hinv'' hr''

/-! ### the reading loop -/

/-- the reading loop appends the colours of the coordinates in order -/
theorem readLoop_eq (used img : Image) (f g : Int → Int → Bool) (hf : ∀ x y, used.binaryAt x y = .ok (f x y))
    (hg : ∀ x y, img.binaryAt x y = .ok (g x y)) (h : Int) :
    ∀ (fuel : Nat) (s : Walk) (cs : List (Int × Int)) (buf : Buffer),
      walk f h fuel s = some cs → C16.Inv buf →
      ∃ buf', RMQR.readLoop used img h fuel s buf = .ok buf' ∧ C16.Inv buf' ∧
        C16.abs buf' = C16.abs buf ++ cs.map (fun c => g c.1 c.2) := by
  intro fuel
  induction fuel with
  | zero => intro s cs buf h; simp [walk] at h
  | succ fuel ih =>
    intro s cs buf hwalk hinv
    rw [walk] at hwalk
    rw [RMQR.readLoop]
    rw [hf]; simp only [Out.bind_ok]
    simp only [] at hwalk
    obtain ⟨b1, hb1, hinv1, habs1⟩ := readCell img g hg (f s.x s.y) s.x s.y buf hinv
    rw [hb1]; simp only [Out.bind_ok]
    by_cases hx1 : s.x - 1 < 1
    · rw [if_pos hx1] at hwalk
      injection hwalk with hwalk
      subst hwalk
      rw [if_pos hx1]
      exact ⟨b1, rfl, hinv1, habs1⟩
    · rw [if_neg hx1] at hwalk
      rw [if_neg hx1, hf]; simp only [Out.bind_ok]
      obtain ⟨b2, hb2, hinv2, habs2⟩ := readCell img g hg (f (s.x - 1) s.y) (s.x - 1) s.y b1 hinv1
      rw [hb2]; simp only [Out.bind_ok]
      generalize (if s.y + s.dy < 1 ∨ s.y + s.dy > h - 1 then (s.x - 1 + 1 - 2, s.y + s.dy + -s.dy, -s.dy)
          else (s.x - 1 + 1, s.y + s.dy, s.dy)) = t at hwalk ⊢
      obtain ⟨nx, ny, ndy⟩ := t
      simp only [] at hwalk ⊢
      by_cases hnx : nx < 1
      · rw [if_pos hnx] at hwalk
        injection hwalk with hwalk
        rw [if_pos hnx]
        refine ⟨b2, rfl, hinv2, ?_⟩
        rw [habs2, habs1, ← hwalk, List.map_append, List.append_assoc]
      · rw [if_neg hnx] at hwalk
        rw [if_neg hnx]
        cases hw' : walk f h fuel { x := nx, y := ny, dy := ndy } with
        | none => rw [hw'] at hwalk; cases hwalk
        | some cs' =>
          rw [hw'] at hwalk
          injection hwalk with hwalk
          obtain ⟨b3, hb3, hinv3, habs3⟩ := ih _ _ b2 hw' hinv2
          refine ⟨b3, hb3, hinv3, ?_⟩
          subst hwalk
          simp only [habs3, habs2, habs1, List.map_append, List.append_assoc]

/-! ### soundness of the coordinate list -/

/-- state invariant of the walk (`w` = width-1, `h` = height-1) -/
def SInv (w h : Int) (s : Walk) : Prop :=
  1 ≤ s.x ∧ s.x ≤ w - 1 ∧ 1 ≤ s.y ∧ s.y ≤ h - 1 ∧ (s.dy = 1 ∨ s.dy = -1)

theorem walk_sound_gen (f : Int → Int → Bool) (w h : Int) :
    ∀ (fuel : Nat) (s : Walk) (cs : List (Int × Int)), SInv w h s → walk f h fuel s = some cs →
      cs.Nodup ∧ ∀ c ∈ cs, Region s c ∧ 1 ≤ c.1 ∧ c.1 ≤ w - 1 ∧ 1 ≤ c.2 ∧ c.2 ≤ h - 1 ∧ f c.1 c.2 = false := by
  intro fuel
  induction fuel with
  | zero => intro s cs _ h; simp [walk] at h
  | succ fuel ih =>
    intro s cs hs hwalk
    obtain ⟨hx0, hxw, hy0, hyw, hdy⟩ := hs
    rw [walk] at hwalk
    simp only [] at hwalk
    have hm1 := mem_cell f s.x s.y
    have hn1 := nodup_cell f s.x s.y
    generalize (if f s.x s.y = true then [] else [(s.x, s.y)] : List (Int × Int)) = l1 at hwalk hm1 hn1
    by_cases hx1 : s.x - 1 < 1
    · rw [if_pos hx1] at hwalk
      injection hwalk with hwalk
      subst hwalk
      refine ⟨hn1, fun c hc => ?_⟩
      obtain ⟨h1, h2, h3⟩ := hm1 c hc
      refine ⟨?_, by omega, by omega, by omega, by omega, h3⟩
      unfold Region; omega
    · rw [if_neg hx1] at hwalk
      have hm2 := mem_cell f (s.x - 1) s.y
      have hn2 := nodup_cell f (s.x - 1) s.y
      generalize (if f (s.x - 1) s.y = true then [] else [(s.x - 1, s.y)] : List (Int × Int)) = l2 at hwalk hm2 hn2
      have hn12 : (l1 ++ l2).Nodup := by
        rw [List.nodup_append]
        refine ⟨hn1, hn2, fun a ha b hb hab => ?_⟩
        have := (hm1 a ha).1; have := (hm2 b hb).1
        subst hab; omega
      have hm12 : ∀ c ∈ l1 ++ l2, (c.1 = s.x ∨ c.1 = s.x - 1) ∧ c.2 = s.y ∧ f c.1 c.2 = false := by
        intro c hc
        rcases List.mem_append.1 hc with hc | hc
        · obtain ⟨h1, h2, h3⟩ := hm1 c hc; exact ⟨Or.inl h1, h2, h3⟩
        · obtain ⟨h1, h2, h3⟩ := hm2 c hc; exact ⟨Or.inr h1, h2, h3⟩
      by_cases hturn : s.y + s.dy < 1 ∨ s.y + s.dy > h - 1
      · rw [if_pos hturn] at hwalk
        simp only [] at hwalk
        by_cases hnx : s.x - 1 + 1 - 2 < 1
        · rw [if_pos hnx] at hwalk
          injection hwalk with hwalk
          subst hwalk
          refine ⟨hn12, fun c hc => ?_⟩
          obtain ⟨h1, h2, h3⟩ := hm12 c hc
          refine ⟨?_, by omega, by omega, by omega, by omega, h3⟩
          unfold Region; omega
        · rw [if_neg hnx] at hwalk
          cases hw' : walk f h fuel { x := s.x - 1 + 1 - 2, y := s.y + s.dy + -s.dy, dy := -s.dy } with
          | none => rw [hw'] at hwalk; cases hwalk
          | some cs' =>
            rw [hw'] at hwalk
            injection hwalk with hwalk
            subst hwalk
            obtain ⟨hnd, hmem⟩ := ih _ _ (by refine ⟨?_, ?_, ?_, ?_, ?_⟩ <;> simp only <;> omega) hw'
            constructor
            · rw [List.nodup_append]
              refine ⟨hn12, hnd, fun a ha b hb hab => ?_⟩
              obtain ⟨h1, h2, _⟩ := hm12 a ha
              obtain ⟨hR, _⟩ := hmem b hb
              subst hab
              unfold Region at hR; simp only at hR
              omega
            · intro c hc
              rcases List.mem_append.1 hc with hc | hc
              · obtain ⟨h1, h2, h3⟩ := hm12 c hc
                refine ⟨?_, by omega, by omega, by omega, by omega, h3⟩
                unfold Region; omega
              · obtain ⟨hR, hrest⟩ := hmem c hc
                refine ⟨?_, hrest⟩
                unfold Region at hR ⊢; simp only at hR
                omega
      · rw [if_neg hturn] at hwalk
        simp only [] at hwalk
        by_cases hnx : s.x - 1 + 1 < 1
        · omega
        · rw [if_neg hnx] at hwalk
          cases hw' : walk f h fuel { x := s.x - 1 + 1, y := s.y + s.dy, dy := s.dy } with
          | none => rw [hw'] at hwalk; cases hwalk
          | some cs' =>
            rw [hw'] at hwalk
            injection hwalk with hwalk
            subst hwalk
            obtain ⟨hnd, hmem⟩ := ih _ _ (by refine ⟨?_, ?_, ?_, ?_, ?_⟩ <;> simp only <;> omega) hw'
            constructor
            · rw [List.nodup_append]
              refine ⟨hn12, hnd, fun a ha b hb hab => ?_⟩
              obtain ⟨h1, h2, _⟩ := hm12 a ha
              obtain ⟨hR, _⟩ := hmem b hb
              subst hab
              unfold Region at hR; simp only at hR
              omega
            · intro c hc
              rcases List.mem_append.1 hc with hc | hc
              · obtain ⟨h1, h2, h3⟩ := hm12 c hc
                refine ⟨?_, by omega, by omega, by omega, by omega, h3⟩
                unfold Region; omega
              · obtain ⟨hR, hrest⟩ := hmem c hc
                refine ⟨?_, hrest⟩
                unfold Region at hR ⊢; simp only at hR
                omega

/-- the coordinates are pairwise distinct, inside the symbol, and not function modules (whatever f is) -/
theorem walk_sound (f : Int → Int → Bool) (w h : Int) (hw : 2 ≤ w) (hh : 6 ≤ h) (fuel : Nat) (cs : List (Int × Int))
    (hwk : walk f h fuel (start w h) = some cs) :
    cs.Nodup ∧ ∀ c ∈ cs, 1 ≤ c.1 ∧ c.1 ≤ w - 1 ∧ 1 ≤ c.2 ∧ c.2 ≤ h - 1 ∧ f c.1 c.2 = false := by
  obtain ⟨h1, h2⟩ := walk_sound_gen f w h fuel (start w h) cs
    ⟨by simp only [start]; omega, by simp only [start]; omega, by simp only [start]; omega,
      by simp only [start]; omega, Or.inr rfl⟩ hwk
  exact ⟨h1, fun c hc => (h2 c hc).2⟩

/-! ### a counting mirror of the walk for kernel evaluation -/

open QRV.Spec.Patterns (strict)

/-- the walk on natural coordinates, counting only; `k = 8*stride-1`, `hm1` = height-2 (the last data
row), `up` is `dy = -1` -/
def walkN (rows : List Nat) (k hm1 : Nat) : (fuel x y : Nat) → (up : Bool) → (acc : Nat) → Option Nat
  | 0, _, _, _, _ => none
  | fuel + 1, x, y, up, acc =>
    strict (rows[y]?.getD 0) fun cur =>
    strict (if cur.testBit (k - x) then acc else acc + 1) fun a1 =>
    if x ≤ 1 then some a1
    else
      strict (if cur.testBit (k - (x - 1)) then a1 else a1 + 1) fun a2 =>
      if up then
        if y ≤ 1 then
          if x ≤ 2 then some a2 else walkN rows k hm1 fuel (x - 2) y false a2
        else walkN rows k hm1 fuel x (y - 1) true a2
      else
        if y + 1 > hm1 then
          if x ≤ 2 then some a2 else walkN rows k hm1 fuel (x - 2) y true a2
        else walkN rows k hm1 fuel x (y + 1) false a2

theorem fnOf_nat (rows : List Nat) (stride W H x y : Nat) (hx : x < W) (hy : y < H) :
    fnOf rows stride W H (x : Int) (y : Int) = rowBit rows stride x y := by
  unfold fnOf
  have : (0 ≤ (x : Int) ∧ (x : Int) < W ∧ 0 ≤ (y : Int) ∧ (y : Int) < H) := by omega
  simp [this]

theorem walkN_eq (rows : List Nat) (stride W H : Nat) (h : Int) (hm1 : Nat) (hh : h - 1 = hm1) (hH : hm1 + 2 = H) :
    ∀ (fuel x y : Nat) (up : Bool) (acc : Nat) (s : Walk),
      s.x = x → s.y = y → s.dy = (if up then -1 else 1) → x < W → 1 ≤ y → y ≤ hm1 →
      walkN rows (8 * stride - 1) hm1 fuel x y up acc =
        (walk (fnOf rows stride W H) h fuel s).map (fun cs => acc + cs.length) := by
  intro fuel
  induction fuel with
  | zero => intro x y up acc s _ _ _ _ _ _; rfl
  | succ fuel ih =>
    intro x y up acc s hsx hsy hsdy hxW hy1 hyh
    obtain ⟨sx, sy, sdy⟩ := s
    simp only at hsx hsy hsdy
    subst hsx hsy hsdy
    have hcell : ∀ x' : Nat, x' < W →
        fnOf rows stride W H (x' : Int) (y : Int) = (rows[y]?.getD 0).testBit (8 * stride - 1 - x') := by
      intro x' hx'
      rw [fnOf_nat rows stride W H x' y hx' (by omega)]
      rfl
    rw [walkN, walk]
    simp only []
    rw [strict_eq, strict_eq, hcell x hxW]
    generalize hb1 : (rows[y]?.getD 0).testBit (8 * stride - 1 - x) = b1
    by_cases hx1 : x ≤ 1
    · have h0 : (x : Int) - 1 < 1 := by omega
      rw [if_pos hx1, if_pos h0]
      cases b1 <;> rfl
    · have h0 : ¬ (x : Int) - 1 < 1 := by omega
      have e1 : (x : Int) - 1 = ((x - 1 : Nat) : Int) := by omega
      rw [if_neg hx1, if_neg h0, strict_eq, e1, hcell (x - 1) (by omega)]
      generalize hb2 : (rows[y]?.getD 0).testBit (8 * stride - 1 - (x - 1)) = b2
      generalize hL : ((if b1 = true then [] else [((x : Int), (y : Int))]) ++
        if b2 = true then [] else [(((x - 1 : Nat) : Int), (y : Int))]) = L
      generalize ha2 : (if b2 = true then if b1 = true then acc else acc + 1
        else (if b1 = true then acc else acc + 1) + 1) = a2
      have hLa : a2 = acc + L.length := by
        subst hL ha2; cases b1 <;> cases b2 <;> simp
      have fin : ∀ o : Option (List (Int × Int)),
          Option.map (fun cs => acc + cs.length) (Option.map (fun cs => L ++ cs) o) =
            Option.map (fun cs => a2 + cs.length) o := by
        intro o; cases o <;> simp [hLa, List.length_append, Nat.add_assoc]
      have fin0 : some a2 = Option.map (fun cs => acc + cs.length) (some L) := by
        simp [hLa]
      have e2 : ((x - 1 : Nat) : Int) + 1 = (x : Int) := by omega
      simp only [e2]
      cases up with
      | true =>
        simp only [if_true]
        by_cases hyt : y ≤ 1
        · have ht : ((y : Int) + -1 < 1 ∨ (y : Int) + -1 > h - 1) := by omega
          rw [if_pos hyt, if_pos ht]
          simp only []
          by_cases hx2 : x ≤ 2
          · have h1 : (x : Int) - 2 < 1 := by omega
            rw [if_pos hx2, if_pos h1]; exact fin0
          · have h1 : ¬ ((x : Int) - 2 < 1) := by omega
            rw [if_neg hx2, if_neg h1, fin]
            exact ih (x - 2) y false a2 _ (by simp only; omega) (by simp only; omega) (by simp) (by omega) hy1 hyh
        · have ht : ¬ ((y : Int) + -1 < 1 ∨ (y : Int) + -1 > h - 1) := by omega
          rw [if_neg hyt, if_neg ht]
          simp only []
          have h1 : ¬ ((x : Int) < 1) := by omega
          rw [if_neg h1, fin]
          exact ih x (y - 1) true a2 _ rfl (by simp only; omega) rfl hxW (by omega) (by omega)
      | false =>
        simp only [Bool.false_eq_true, if_false]
        by_cases hyt : y + 1 > hm1
        · have ht : ((y : Int) + 1 < 1 ∨ (y : Int) + 1 > h - 1) := by omega
          rw [if_pos hyt, if_pos ht]
          simp only []
          by_cases hx2 : x ≤ 2
          · have h1 : (x : Int) - 2 < 1 := by omega
            rw [if_pos hx2, if_pos h1]; exact fin0
          · have h1 : ¬ ((x : Int) - 2 < 1) := by omega
            rw [if_neg hx2, if_neg h1, fin]
            exact ih (x - 2) y true a2 _ (by simp only; omega) (by simp only; omega) (by simp) (by omega) hy1 hyh
        · have ht : ¬ ((y : Int) + 1 < 1 ∨ (y : Int) + 1 > h - 1) := by omega
          rw [if_neg hyt, if_neg ht]
          simp only []
          have h1 : ¬ ((x : Int) < 1) := by omega
          rw [if_neg h1, fin]
          exact ih x (y + 1) false a2 _ rfl (by simp only; omega) rfl hxW (by omega) (by omega)

end QRV.Lemmas.RR
