import QRV.Props.C13
/-
Lemmas about the Reed–Solomon decoder `QRV.Model.RS.decode` (C14).
-/
namespace QRV.Lemmas.RS
open QRV QRV.Model QRV.Model.GF QRV.Model.RS QRV.Model.RS.Poly QRV.Spec.GF QRV.Lemmas.GF

/-! ### the syndrome test -/

/-- all n syndromes vanish -/
def SyndZero (n : Nat) (w : List Nat) : Prop := ∀ i, i < n → Poly.eval w (expT (i % 255)) = 0

theorem synd_all_iff (data : List Nat) (n : Nat) :
    (((List.range n).map fun i => eval data (expT (i % 255))).reverse.all (· == 0)) = true ↔
      SyndZero n data := by
  simp only [List.all_eq_true, List.mem_reverse, List.mem_map, List.mem_range, beq_iff_eq, SyndZero]
  constructor
  · intro h i hi; exact h _ ⟨i, hi, rfl⟩
  · rintro h x ⟨i, hi, rfl⟩; exact h i hi

theorem recheck_all_iff (res : List Nat) (n : Nat) :
    ((List.range n).all (fun i => eval res (expT (i % 255)) == 0)) = true ↔ SyndZero n res := by
  simp only [List.all_eq_true, List.mem_range, beq_iff_eq, SyndZero]

theorem decode_clean (data : List Nat) (n : Nat) (hc : SyndZero n data) :
    RS.decode data (n : Int) = .ok data := by
  unfold RS.decode
  have h0 : ¬ ((n : Int) < 0) := by omega
  rw [if_neg h0]
  simp only [Int.toNat_natCast]
  rw [if_pos ((synd_all_iff data n).mpr hc)]

theorem eq_of_dist_zero : ∀ (c r : List Nat), c.length = r.length →
    ((c.zip r).filter fun p => p.1 != p.2).length = 0 → c = r
  | [], [], _, _ => rfl
  | [], _ :: _, hl, _ => by simp at hl
  | _ :: _, [], hl, _ => by simp at hl
  | x :: c, y :: r, hl, h => by
    rw [List.zip_cons_cons, List.filter_cons] at h
    by_cases hxy : x = y
    · subst hxy
      simp only [bne_self_eq_false, Bool.false_eq_true, if_false] at h
      rw [eq_of_dist_zero c r (by simpa using hl) h]
    · have : (x != y) = true := by simpa using hxy
      simp [this] at h

/-! ### normal form of `decode` -/

/-- body of the correction loop -/
def corrStep (locs mags : List Nat) (i : Nat) (d : Array Nat) : Out (ForInStep (Array Nat)) :=
  match log (locs[i]?.getD 0) with
  | .ok l =>
    if d.size < 1 + l then .err "reedsolomon: bad location"
    else .ok (ForInStep.yield (d.modify (d.size - 1 - l) (fun v => add v (mags[i]?.getD 0))))
  | .err m => .err m
  | .panic m => .panic m

def syndromes (data : List Nat) (n : Nat) : List Nat :=
  ((List.range n).map fun i => eval data (expT (i % 255))).reverse

/-- the part of `decode` after the early exit -/
def decodeTail (data : List Nat) (n : Nat) : Out (List Nat) :=
  match euclideanAlgorithm (newMonomial n 1) (syndromes data n) n with
  | .ok (sigma, omega) =>
    match findErrorLocations sigma with
    | .ok locs =>
      if locs.length ≠ degree sigma then .err "reedsolomon: error locator degree does not match number of roots"
      else
        match findErrorMagnitudes omega locs with
        | .ok mags =>
          match forIn (List.range' 0 locs.length 1) data.toArray (corrStep locs mags) with
          | .ok d =>
            if (List.range n).all (fun i => eval d.toList (expT (i % 255)) == 0) then .ok d.toList
            else .err "reedsolomon: too many errors"
          | .err m => .err m
          | .panic m => .panic m
        | .err m => .err m
        | .panic m => .panic m
    | .err m => .err m
    | .panic m => .panic m
  | .err m => .err m
  | .panic m => .panic m

theorem decode_late (data : List Nat) (n : Nat) (hs : ¬ ((syndromes data n).all (· == 0)) = true) :
    RS.decode data (n : Int) = decodeTail data n := by
  unfold RS.decode
  have h0 : ¬ ((n : Int) < 0) := by omega
  rw [if_neg h0]
  simp only [Int.toNat_natCast]
  unfold syndromes at hs
  rw [if_neg hs]
  unfold decodeTail syndromes
  cases h1 : euclideanAlgorithm (newMonomial n 1) ((List.range n).map fun i => eval data (expT (i % 255))).reverse n with
  | err m => rfl
  | panic m => rfl
  | ok so =>
    obtain ⟨sigma, omega⟩ := so
    simp only [Out.bind_ok]
    cases h2 : findErrorLocations sigma with
    | err m => rfl
    | panic m => rfl
    | ok locs =>
      simp only [Out.bind_ok]
      split
      · rfl
      · cases h3 : findErrorMagnitudes omega locs with
        | err m => rfl
        | panic m => rfl
        | ok mags =>
          simp only [Out.bind_ok]
          rw [Std.Legacy.Range.forIn_eq_forIn_range']
          have hsz : [:locs.length].size = locs.length := by simp [Std.Legacy.Range.size]
          have hbody : (fun (i : Nat) (__s : Array Nat) => (do
              let l ← log (locs[i]?.getD 0)
              if __s.size < 1 + l then do
                  decode.throwErr "reedsolomon: bad location"
                  pure (ForInStep.yield __s)
                else pure (ForInStep.yield (__s.modify (__s.size - 1 - l) fun v => add v (mags[i]?.getD 0))) :
                  Out (ForInStep (Array Nat)))) = corrStep locs mags := by
            funext i d
            unfold corrStep
            cases log (locs[i]?.getD 0) with
            | err m => rfl
            | panic m => rfl
            | ok l =>
              simp only [Out.bind_ok]
              split <;> rfl
          rw [hbody, hsz]
          show (forIn (List.range' 0 locs.length 1) data.toArray (corrStep locs mags) >>= _) = _
          cases forIn (List.range' 0 locs.length 1) data.toArray (corrStep locs mags) with
          | err m => rfl
          | panic m => rfl
          | ok d =>
            simp only [Out.bind_ok]
            split <;> rfl

/-! ### Hoare-style rules for loops in the `Out` monad -/

theorem bind_eq_ok {α β} {x : Out α} {f : α → Out β} {b : β} (h : (x >>= f) = .ok b) :
    ∃ a, x = .ok a ∧ f a = .ok b := by
  cases x with
  | ok a => exact ⟨a, rfl, h⟩
  | err m => cases h
  | panic m => cases h

theorem bind_not_panic {α β} {x : Out α} {f : α → Out β} (hx : x.isPanic = false)
    (hf : ∀ a, x = .ok a → (f a).isPanic = false) : (x >>= f).isPanic = false := by
  cases x with
  | ok a => exact hf a rfl
  | err m => rfl
  | panic m => cases hx

/-- invariant rule for `foldlM` indexed by the number of processed elements -/
theorem foldlM_inv {α β} (f : β → α → Out β) (I : Nat → β → Prop) :
    ∀ (l : List α) (k : Nat) (init : β), I k init →
    (∀ j (hj : j < l.length) b b', I (k + j) b → f b l[j] = .ok b' → I (k + j + 1) b') →
    ∀ r, l.foldlM f init = .ok r → I (k + l.length) r
  | [], k, init, h0, _, r, h => by
    cases h; exact h0
  | a :: l, k, init, h0, hs, r, h => by
    rw [List.foldlM_cons] at h
    obtain ⟨b, hb, h⟩ := bind_eq_ok h
    have h1 : I (k + 1) b := hs 0 (by simp) init b h0 hb
    have := foldlM_inv f I l (k + 1) b h1 (fun j hj b b' hI hf => by
      have := hs (j + 1) (by simpa using hj) b b' (by rw [← Nat.add_assoc]; rwa [Nat.add_right_comm] ) (by simpa using hf)
      rw [Nat.add_right_comm k 1 j]; exact this) r h
    rw [List.length_cons, ← Nat.add_assoc, Nat.add_right_comm]; exact this

theorem foldlM_not_panic {α β} (f : β → α → Out β) (I : Nat → β → Prop) :
    ∀ (l : List α) (k : Nat) (init : β), I k init →
    (∀ j (hj : j < l.length) b, I (k + j) b → (f b l[j]).isPanic = false ∧
        ∀ b', f b l[j] = .ok b' → I (k + j + 1) b') →
    (l.foldlM f init).isPanic = false
  | [], k, init, h0, _ => rfl
  | a :: l, k, init, h0, hs => by
    rw [List.foldlM_cons]
    refine bind_not_panic (hs 0 (by simp) init h0).1 fun b hb => ?_
    have h1 : I (k + 1) b := (hs 0 (by simp) init h0).2 b hb
    exact foldlM_not_panic f I l (k + 1) b h1 (fun j hj b hI => by
      have := hs (j + 1) (by simpa using hj) b (by rw [← Nat.add_assoc]; rwa [Nat.add_right_comm])
      rw [Nat.add_right_comm k 1 j]; exact this)

/-- the same for `forIn` over a list when the body never breaks -/
theorem forIn_inv {α β} (f : α → β → Out (ForInStep β)) (I : Nat → β → Prop) :
    ∀ (l : List α) (k : Nat) (init : β), I k init →
    (∀ j (hj : j < l.length) b r, I (k + j) b → f l[j] b = .ok r →
        ∃ b', r = .yield b' ∧ I (k + j + 1) b') →
    ∀ r, forIn l init f = .ok r → I (k + l.length) r
  | [], k, init, h0, _, r, h => by
    cases h; exact h0
  | a :: l, k, init, h0, hs, r, h => by
    rw [List.forIn_cons] at h
    obtain ⟨s, hb, h⟩ := bind_eq_ok h
    obtain ⟨b, rfl, h1⟩ := hs 0 (by simp) init s h0 hb
    have := forIn_inv f I l (k + 1) b h1 (fun j hj b r hI hf => by
      have := hs (j + 1) (by simpa using hj) b r (by rw [← Nat.add_assoc]; rwa [Nat.add_right_comm] ) (by simpa using hf)
      rw [Nat.add_right_comm k 1 j]; exact this) r h
    rw [List.length_cons, ← Nat.add_assoc, Nat.add_right_comm]; exact this

theorem forIn_not_panic {α β} (f : α → β → Out (ForInStep β)) (I : Nat → β → Prop) :
    ∀ (l : List α) (k : Nat) (init : β), I k init →
    (∀ j (hj : j < l.length) b, I (k + j) b → (f l[j] b).isPanic = false ∧
        ∀ r, f l[j] b = .ok r → ∃ b', r = .yield b' ∧ I (k + j + 1) b') →
    (forIn l init f).isPanic = false
  | [], k, init, h0, _ => rfl
  | a :: l, k, init, h0, hs => by
    rw [List.forIn_cons]
    refine bind_not_panic (hs 0 (by simp) init h0).1 fun s hb => ?_
    obtain ⟨b, rfl, h1⟩ := (hs 0 (by simp) init h0).2 s hb
    exact forIn_not_panic f I l (k + 1) b h1 (fun j hj b hI => by
      have := hs (j + 1) (by simpa using hj) b (by rw [← Nat.add_assoc]; rwa [Nat.add_right_comm])
      rw [Nat.add_right_comm k 1 j]; exact this)

/-! ### bytes -/

theorem mul_lt' (a b : Nat) : mul a b < 256 := by
  unfold mul; split
  · decide
  · exact exp_lt _ (by omega)

theorem inv'_lt (a : Nat) : inv' a < 256 := exp_lt _ (by omega)

theorem eval_lt {x : Nat} (hx : El x) {p : List Nat} (hp : AllEl p) : El (Poly.eval p x) :=
  evalFrom_lt hx p 0 (by decide) hp

theorem allEl_modify {l : List Nat} (hl : AllEl l) {f : Nat → Nat} (hf : ∀ v, v < 256 → f v < 256)
    (p : Nat) : AllEl (l.modify p f) := by
  intro b hb
  obtain ⟨i, hi, rfl⟩ := List.mem_iff_getElem.mp hb
  rw [List.getElem_modify]
  have hi' : i < l.length := by simpa using hi
  split
  · exact hf _ (hl _ (List.getElem_mem hi'))
  · exact hl _ (List.getElem_mem hi')

/-- number of positions in which two words differ -/
def distL (a b : List Nat) : Nat := ((a.zip b).filter fun p => p.1 != p.2).length

theorem distL_self : ∀ a : List Nat, distL a a = 0
  | [] => rfl
  | x :: a => by
    have := distL_self a
    unfold distL at this ⊢
    simp [this]

theorem distL_cons (x y : Nat) (a b : List Nat) :
    distL (x :: a) (y :: b) = (if x != y then 1 else 0) + distL a b := by
  unfold distL
  rw [List.zip_cons_cons, List.filter_cons]
  split <;> simp <;> omega

theorem distL_modify_le (f : Nat → Nat) : ∀ (a b : List Nat) (p : Nat),
    distL a (b.modify p f) ≤ distL a b + 1
  | [], b, p => by simp [distL]
  | x :: a, [], p => by simp [distL]
  | x :: a, y :: b, p => by
    rw [List.modify_cons]
    split
    · rw [distL_cons, distL_cons]; split <;> split <;> omega
    · rw [distL_cons, distL_cons]
      have := distL_modify_le f a b (p - 1)
      omega

/-! ### the correction loop -/

theorem corrStep_ok {locs mags : List Nat} {i : Nat} {d : Array Nat} {r : ForInStep (Array Nat)}
    (h : corrStep locs mags i d = .ok r) :
    ∃ l, r = .yield (d.modify (d.size - 1 - l) (fun v => add v (mags[i]?.getD 0))) := by
  unfold corrStep at h
  cases hl : log (locs[i]?.getD 0) with
  | err m => rw [hl] at h; cases h
  | panic m => rw [hl] at h; cases h
  | ok l =>
    rw [hl] at h
    simp only at h
    split at h
    · cases h
    · cases h; exact ⟨l, rfl⟩

theorem corrLoop_ok {data locs mags : List Nat} (hd : AllEl data) (hm : AllEl mags) {d : Array Nat}
    (h : forIn (List.range' 0 locs.length 1) data.toArray (corrStep locs mags) = .ok d) :
    d.toList.length = data.length ∧ AllEl d.toList ∧ distL data d.toList ≤ locs.length := by
  have := forIn_inv (corrStep locs mags)
    (fun k d => d.toList.length = data.length ∧ AllEl d.toList ∧ distL data d.toList ≤ k)
    (List.range' 0 locs.length 1) 0 data.toArray ⟨rfl, hd, by simp [distL_self]⟩
    (fun j hj b r hI hf => by
      obtain ⟨l, rfl⟩ := corrStep_ok hf
      refine ⟨_, rfl, ?_⟩
      obtain ⟨h1, h2, h3⟩ := hI
      rw [Array.toList_modify]
      refine ⟨by rw [List.length_modify]; exact h1, allEl_modify h2 (fun v hv => add_lt hv ?_) _, ?_⟩
      · cases hg : mags[(List.range' 0 locs.length 1)[j]]? with
        | none => simp
        | some v => exact hm v (List.mem_of_getElem? hg)
      · have := distL_modify_le (fun v => add v (mags[(List.range' 0 locs.length 1)[j]]?.getD 0)) data b.toList
          (b.size - 1 - l)
        omega) d h
  simpa using this

theorem findErrorMagnitudes_allEl {omega locs mags : List Nat}
    (h : findErrorMagnitudes omega locs = .ok mags) : AllEl mags := by
  unfold findErrorMagnitudes at h
  have := foldlM_inv _ (fun _ acc => AllEl acc) (List.range locs.length) 0 [] (by intro b hb; cases hb)
    (fun j hj b b' hI hf => by
      obtain ⟨xi, _, hf⟩ := bind_eq_ok hf
      obtain ⟨dinv, _, hf⟩ := bind_eq_ok hf
      cases hf
      exact allEl_append hI (by intro x hx; rw [List.mem_singleton.mp hx]; exact mul_lt' _ _)) mags h
  exact this

/-! ### inversion of a successful run -/

theorem decodeTail_ok {data : List Nat} {n : Nat} {data' : List Nat} (h : decodeTail data n = .ok data') :
    ∃ sigma omega locs mags d,
      euclideanAlgorithm (newMonomial n 1) (syndromes data n) n = .ok (sigma, omega) ∧
      findErrorLocations sigma = .ok locs ∧ locs.length = degree sigma ∧
      findErrorMagnitudes omega locs = .ok mags ∧
      forIn (List.range' 0 locs.length 1) data.toArray (corrStep locs mags) = .ok d ∧
      data' = d.toList ∧ SyndZero n data' := by
  unfold decodeTail at h
  split at h
  next sigma omega h1 =>
    split at h
    next locs h2 =>
      split at h
      · cases h
      next hdeg =>
        split at h
        next mags h3 =>
          split at h
          next d h4 =>
            split at h
            next h5 =>
              cases h
              exact ⟨sigma, omega, locs, mags, d, h1, h2, by simpa using hdeg, h3, h4, rfl,
                (recheck_all_iff _ _).mp h5⟩
            · cases h
          · cases h
          · cases h
        · cases h
        · cases h
    · cases h
    · cases h
  · cases h
  · cases h

theorem decode_ok_cases {data : List Nat} {n : Nat} {data' : List Nat}
    (h : RS.decode data (n : Int) = .ok data') :
    (data' = data ∧ SyndZero n data) ∨ decodeTail data n = .ok data' := by
  by_cases hs : ((syndromes data n).all (· == 0)) = true
  · left
    have hz := (synd_all_iff data n).mp hs
    rw [decode_clean data n hz] at h
    cases h; exact ⟨rfl, hz⟩
  · right; rw [decode_late data n hs] at h; exact h

theorem decode_sound {data data' : List Nat} (hd : AllEl data) {n : Nat}
    (h : RS.decode data (n : Int) = .ok data') :
    data'.length = data.length ∧ AllEl data' ∧ SyndZero n data' := by
  rcases decode_ok_cases h with ⟨rfl, hz⟩ | h
  · exact ⟨rfl, hd, hz⟩
  · obtain ⟨sigma, omega, locs, mags, d, _, _, _, h3, h4, rfl, hz⟩ := decodeTail_ok h
    obtain ⟨h5, h6, _⟩ := corrLoop_ok hd (findErrorMagnitudes_allEl h3) h4
    exact ⟨h5, h6, hz⟩

/-! ### coefficients and degree -/

theorem coefficient_ge {p : List Nat} {d : Nat} (h : d ≥ p.length) : coefficient p d = 0 := by
  unfold coefficient; rw [if_pos h]

theorem coefficient_nil (d : Nat) : coefficient [] d = 0 := coefficient_ge (Nat.zero_le _)

theorem coefficient_cons (x : Nat) (p : List Nat) (d : Nat) :
    coefficient (x :: p) d = if d = p.length then x else coefficient p d := by
  unfold coefficient
  simp only [List.length_cons]
  by_cases h1 : d ≥ p.length + 1
  · rw [if_pos h1, if_neg (by omega), if_pos (by omega)]
  · rw [if_neg h1]
    by_cases h2 : d = p.length
    · subst h2; simp
    · rw [if_neg h2, if_neg (by omega)]
      have : p.length + 1 - d - 1 = (p.length - d - 1) + 1 := by omega
      rw [this, List.getElem?_cons_succ]

theorem coefficient_lt (p : List Nat) (hp : AllEl p) (d : Nat) : coefficient p d < 256 := by
  unfold coefficient
  split
  · decide
  · cases hg : p[p.length - d - 1]? with
    | none => decide
    | some v => exact hp v (List.mem_of_getElem? hg)

/-- all coefficients above degree `d` vanish -/
def DegLE (p : List Nat) (d : Nat) : Prop := ∀ e, e > d → coefficient p e = 0

theorem DegLE.mono {p : List Nat} {d d' : Nat} (h : DegLE p d) (hd : d ≤ d') : DegLE p d' :=
  fun e he => h e (by omega)

theorem degree_le_length : ∀ p : List Nat, degree p ≤ p.length
  | [] => Nat.le_refl _
  | x :: p => by
    unfold degree; split
    · simp
    · have := degree_le_length p; simp; omega

theorem degLE_degree : ∀ p : List Nat, DegLE p (degree p)
  | [] => fun e _ => coefficient_nil e
  | x :: p => by
    intro e he
    rw [coefficient_cons]
    unfold degree at he
    by_cases hx : x ≠ 0
    · rw [if_pos hx] at he
      rw [if_neg (by omega)]; exact coefficient_ge (by omega)
    · rw [if_neg hx] at he
      have hx : x = 0 := by simpa using hx
      split
      · exact hx
      · exact degLE_degree p e he

theorem degree_le_of_degLE : ∀ (p : List Nat) (d : Nat), DegLE p d → degree p ≤ d
  | [], d, _ => Nat.zero_le _
  | x :: p, d, h => by
    unfold degree
    by_cases hx : x ≠ 0
    · rw [if_pos hx]
      apply Nat.le_of_not_gt
      intro hgt
      have := h p.length hgt
      rw [coefficient_cons, if_pos rfl] at this
      exact hx this
    · rw [if_neg hx]
      refine degree_le_of_degLE p d fun e he => ?_
      have := h e he
      rw [coefficient_cons] at this
      split at this
      · exact coefficient_ge (by omega)
      · exact this

theorem lead_ne_zero : ∀ (p : List Nat), degree p ≥ 1 → coefficient p (degree p) ≠ 0
  | [], h => by simp [degree] at h
  | x :: p, h => by
    unfold degree at h ⊢
    by_cases hx : x ≠ 0
    · rw [if_pos hx] at h ⊢
      rw [coefficient_cons, if_pos rfl]; exact hx
    · rw [if_neg hx] at h ⊢
      have ih := lead_ne_zero p h
      rw [coefficient_cons]
      split
      next heq => rw [heq] at ih; exact absurd (coefficient_ge (Nat.le_refl _)) ih
      · exact ih

theorem coefficient_replicate_zero (k e : Nat) : coefficient (List.replicate k 0) e = 0 := by
  induction k with
  | zero => exact coefficient_nil e
  | succ k ih => rw [List.replicate_succ, coefficient_cons, ih]; split <;> rfl

theorem coefficient_zeros_append (k : Nat) (p : List Nat) (e : Nat) :
    coefficient (List.replicate k 0 ++ p) e = coefficient p e := by
  induction k with
  | zero => simp
  | succ k ih =>
    rw [List.replicate_succ, List.cons_append, coefficient_cons, ih]
    split
    next h => rw [h]; exact (coefficient_ge (by simp)).symm
    · rfl

theorem coefficient_append_zeros (p : List Nat) (k e : Nat) :
    coefficient (p ++ List.replicate k 0) e = if e < k then 0 else coefficient p (e - k) := by
  induction p with
  | nil => rw [List.nil_append, coefficient_replicate_zero, coefficient_nil]; split <;> rfl
  | cons x p ih =>
    rw [List.cons_append, coefficient_cons, ih, coefficient_cons]
    simp only [List.length_append, List.length_replicate]
    by_cases h1 : e < k
    · have h3 : ¬ e = p.length + k := by omega
      simp only [if_pos h1, if_neg h3]
    · by_cases h2 : e = p.length + k
      · have h3 : e - k = p.length := by omega
        simp only [if_neg h1, if_pos h2, if_pos h3]
      · have h3 : ¬ e - k = p.length := by omega
        simp only [if_neg h1, if_neg h2, if_neg h3]

theorem coefficient_map (f : Nat → Nat) (hf : f 0 = 0) (p : List Nat) (e : Nat) :
    coefficient (p.map f) e = f (coefficient p e) := by
  induction p with
  | nil => rw [List.map_nil, coefficient_nil, hf]
  | cons x p ih =>
    rw [List.map_cons, coefficient_cons, coefficient_cons, ih, List.length_map]
    split <;> rfl

theorem coefficient_zipWith_add : ∀ (u v : List Nat), u.length = v.length → ∀ e,
    coefficient (List.zipWith add u v) e = add (coefficient u e) (coefficient v e)
  | [], [], _, e => by simp [coefficient_nil]
  | [], _ :: _, hl, _ => by simp at hl
  | _ :: _, [], hl, _ => by simp at hl
  | x :: u, y :: v, hl, e => by
    have hl' : u.length = v.length := by simpa using hl
    rw [List.zipWith_cons_cons, coefficient_cons, coefficient_cons, coefficient_cons,
      coefficient_zipWith_add u v hl' e, List.length_zipWith, ← hl', Nat.min_self]
    split <;> rfl

theorem coefficient_padd (p q : List Nat) (e : Nat) :
    coefficient (padd p q) e = add (coefficient p e) (coefficient q e) := by
  unfold padd
  simp only
  rw [coefficient_zipWith_add _ _ (by simp; omega), coefficient_zeros_append, coefficient_zeros_append]

theorem coefficient_newMonomial (dd c e : Nat) :
    coefficient (newMonomial dd c) e = if e = dd then c else 0 := by
  unfold newMonomial
  rw [coefficient_cons, coefficient_replicate_zero, List.length_replicate]

theorem coefficient_mulMonomial (p : List Nat) (dd c e : Nat) :
    coefficient (mulMonomial p dd c) e = if e < dd then 0 else mul (coefficient p (e - dd)) c := by
  unfold mulMonomial
  split
  next h => subst h; rw [coefficient_nil]; simp
  · rw [coefficient_append_zeros, coefficient_map _ (by simp)]

theorem coefficient_mulElement (p : List Nat) (c e : Nat) :
    coefficient (mulElement p c) e = mul (coefficient p e) c := by
  unfold mulElement; rw [coefficient_map _ (by simp)]

theorem length_padd (p q : List Nat) : (padd p q).length = max p.length q.length := by
  unfold padd; simp; omega

theorem allEl_padd {p q : List Nat} (hp : AllEl p) (hq : AllEl q) : AllEl (padd p q) := by
  unfold padd
  exact allEl_zipWith_add _ _ (allEl_append (allEl_replicate_zero _) hp)
    (allEl_append (allEl_replicate_zero _) hq)

theorem allEl_mulMonomial (p : List Nat) (dd c : Nat) : AllEl (mulMonomial p dd c) := by
  unfold mulMonomial
  split
  · intro b hb; cases hb
  · refine allEl_append ?_ (allEl_replicate_zero _)
    intro b hb
    obtain ⟨a, _, rfl⟩ := List.mem_map.mp hb
    exact mul_lt' _ _

theorem allEl_newMonomial {c : Nat} (hc : c < 256) (dd : Nat) : AllEl (newMonomial dd c) := by
  intro b hb
  unfold newMonomial at hb
  rcases List.mem_cons.mp hb with rfl | hb
  · exact hc
  · exact allEl_replicate_zero _ b hb

theorem degree_newMonomial {c : Nat} (hc : c ≠ 0) (dd : Nat) : degree (newMonomial dd c) = dd := by
  unfold newMonomial degree; rw [if_pos hc, List.length_replicate]

/-! ### the division loop terminates and returns a remainder of smaller degree -/

theorem mul_mul_inv_cancel {a c : Nat} (ha : El a) (hc : El c) (ha0 : a ≠ 0) :
    mul a (mul c (inv' a)) = c := by
  rw [mul_comm c, ← mul_assoc ha (inv_lt a ha) hc, mul_inv_cancel ha ha0, one_mul hc]

/-- one division step cancels the leading coefficient -/
theorem divStep_degLE {rLast r : List Nat} (hrl : AllEl rLast) (hr : AllEl r) (hd1 : degree rLast ≥ 1)
    (hge : degree r ≥ degree rLast) :
    DegLE (padd r (mulMonomial rLast (degree r - degree rLast)
      (mul (coefficient r (degree r)) (inv' (coefficient rLast (degree rLast)))))) (degree r - 1) := by
  intro e he
  have hdlt := lead_ne_zero rLast hd1
  have hdltlt := coefficient_lt rLast hrl (degree rLast)
  have hclt := coefficient_lt r hr (degree r)
  rw [coefficient_padd, coefficient_mulMonomial, if_neg (by omega)]
  by_cases h : e = degree r
  · subst h
    have : degree r - (degree r - degree rLast) = degree rLast := by omega
    rw [this, mul_mul_inv_cancel hdltlt hclt hdlt, add_self]
  · rw [degLE_degree r e (by omega), degLE_degree rLast _ (by omega), zero_mul, add_zero]

theorem divLoop_spec (rLast : List Nat) (hrl : AllEl rLast) (hd1 : degree rLast ≥ 1) (D : Nat) :
    ∀ (fuel : Nat) (q r : List Nat), AllEl r → fuel ≥ degree r + 1 → DegLE q D →
      degree r - degree rLast ≤ D →
    ∃ q' r', divLoop rLast (inv' (coefficient rLast (degree rLast))) fuel q r = .ok (q', r') ∧
      AllEl r' ∧ degree r' < degree rLast ∧ DegLE q' D ∧
      ((degree r ≥ degree rLast ∨ q ≠ []) → q' ≠ [])
  | 0, _, _, _, hf, _, _ => by omega
  | fuel + 1, q, r, hr, hf, hq, hD => by
    unfold divLoop
    by_cases hge : degree r ≥ degree rLast
    · rw [if_pos hge]
      simp only
      have hdeg := degree_le_of_degLE _ _ (divStep_degLE hrl hr hd1 hge)
      obtain ⟨q', r', h1, h2, h3, h4, h5⟩ := divLoop_spec rLast hrl hd1 D fuel
        (padd q (newMonomial (degree r - degree rLast)
          (mul (coefficient r (degree r)) (inv' (coefficient rLast (degree rLast))))))
        (padd r (mulMonomial rLast (degree r - degree rLast)
          (mul (coefficient r (degree r)) (inv' (coefficient rLast (degree rLast))))))
        (allEl_padd hr (allEl_mulMonomial _ _ _)) (by omega)
        (by
          intro e he
          rw [coefficient_padd, coefficient_newMonomial, hq e he, if_neg (by omega), add_zero])
        (by omega)
      refine ⟨q', r', h1, h2, h3, h4, fun _ => h5 (Or.inr ?_)⟩
      intro hnil
      have := congrArg List.length hnil
      rw [length_padd] at this
      simp [newMonomial] at this
    · rw [if_neg hge]
      exact ⟨q, r, rfl, hr, by omega, hq, fun h => h.resolve_left hge⟩

/-! ### polynomial multiplication -/

theorem foldl_range_inv {β} (f : β → Nat → β) (I : β → Prop) : ∀ (n : Nat) (init : β), I init →
    (∀ b i, i < n → I b → I (f b i)) → I ((List.range n).foldl f init)
  | 0, _, h0, _ => h0
  | n + 1, init, h0, hs => by
    rw [List.range_succ, List.foldl_append]
    exact hs _ n (Nat.lt_succ_self n) (foldl_range_inv f I n init h0 fun b i hi hb => hs b i (by omega) hb)

theorem getD_eq_coefficient (p : List Nat) (i : Nat) (hi : i < p.length) :
    p[i]?.getD 0 = coefficient p (p.length - 1 - i) := by
  unfold coefficient
  rw [if_neg (by omega)]
  congr 2; omega

theorem degLE_toList (acc : Array Nat) (len d : Nat) (hsz : acc.size = len)
    (hz : ∀ k, k < len → len - 1 - k > d → acc[k]?.getD 0 = 0) : DegLE acc.toList d := by
  intro e he
  unfold coefficient
  split
  · rfl
  next hlt =>
    rw [Array.getElem?_toList]
    rw [Array.length_toList] at hlt ⊢
    exact hz _ (by omega) (by omega)

theorem pmul_spec (p q : List Nat) (h : p.length + q.length ≠ 0) :
    ∃ r, pmul p q = .ok r ∧ r.length = p.length + q.length - 1 ∧
      ∀ dp dq, DegLE p dp → DegLE q dq → DegLE r (dp + dq) := by
  unfold pmul
  rw [if_neg h]
  refine ⟨_, rfl, ?_, ?_⟩
  · rw [Array.length_toList]
    refine foldl_range_inv _ (fun acc : Array Nat => acc.size = p.length + q.length - 1) _ _ (by simp)
      fun acc i _ hacc => ?_
    exact foldl_range_inv _ (fun acc : Array Nat => acc.size = p.length + q.length - 1) _ _ hacc
      fun acc j _ hacc => by rw [Array.size_modify]; exact hacc
  · intro dp dq hp hq
    have key : ∀ acc : Array Nat,
        ((List.range p.length).foldl (init := (Array.replicate (p.length + q.length - 1) 0 : Array Nat))
          fun acc i => (List.range q.length).foldl (init := acc) fun acc j =>
            acc.modify (i + j) (fun v => add v (mul (p[i]?.getD 0) (q[j]?.getD 0)))) = acc →
        acc.size = p.length + q.length - 1 ∧
        ∀ k, k < p.length + q.length - 1 → p.length + q.length - 1 - 1 - k > dp + dq → acc[k]?.getD 0 = 0 := by
      intro acc hacc
      rw [← hacc]
      refine foldl_range_inv _ (fun acc : Array Nat => acc.size = p.length + q.length - 1 ∧
        ∀ k, k < p.length + q.length - 1 → p.length + q.length - 1 - 1 - k > dp + dq → acc[k]?.getD 0 = 0)
        _ _ ⟨by simp, fun k hk _ => by simp [hk]⟩ fun acc i hi hI => ?_
      refine foldl_range_inv _ (fun acc : Array Nat => acc.size = p.length + q.length - 1 ∧
        ∀ k, k < p.length + q.length - 1 → p.length + q.length - 1 - 1 - k > dp + dq → acc[k]?.getD 0 = 0)
        _ _ hI fun acc j hj hI => ?_
      refine ⟨by rw [Array.size_modify]; exact hI.1, fun k hk hgt => ?_⟩
      rw [Array.getElem?_modify]
      split
      next heq =>
        have hz : mul (p[i]?.getD 0) (q[j]?.getD 0) = 0 := by
          rw [getD_eq_coefficient p i hi, getD_eq_coefficient q j hj]
          by_cases h1 : p.length - 1 - i > dp
          · rw [hp _ h1, zero_mul]
          · rw [hq _ (by omega), mul_zero]
        have := hI.2 k hk hgt
        have hk' : k < acc.size := by rw [hI.1]; exact hk
        rw [Array.getElem?_eq_getElem hk'] at this ⊢
        simp only [Option.map_some, Option.getD_some] at this ⊢
        rw [hz, this]; rfl
      · exact hI.2 k hk hgt
    obtain ⟨hsz, hz⟩ := key _ rfl
    exact degLE_toList _ _ _ hsz hz

/-! ### the Euclidean loop -/

theorem inv_ok {x : Nat} (h : x ≠ 0) : inv x = .ok (inv' x) := by
  unfold inv inv'; rw [if_neg h]

theorem euclidLoop_spec (R : Nat) (hR : R ≥ 1) :
    ∀ (fuel : Nat) (rLast r tLast t : List Nat), AllEl rLast → AllEl r → degree r < degree rLast →
      t ≠ [] → 2 * degree rLast ≥ R → degree t + degree rLast ≤ R → degree tLast + degree rLast ≤ R →
      fuel ≥ degree r + 1 →
    ∃ t' r', euclidLoop R fuel rLast r tLast t = .ok (t', r') ∧ 2 * degree t' ≤ R
  | 0, _, _, _, _, _, _, _, _, _, _, _, hf => by omega
  | fuel + 1, rLast, r, tLast, t, hrl, hr, hlt, ht, h2, hdt, hdtl, hf => by
    unfold euclidLoop
    by_cases hg : 2 * degree r ≥ R
    · rw [if_pos hg]
      have hd1 : degree r ≥ 1 := by omega
      have hdlt := lead_ne_zero r hd1
      obtain ⟨q, rem, hdiv, hrem, hdrem, hq, hqne⟩ := divLoop_spec r hr hd1 (degree rLast - degree r)
        (rLast.length + r.length + 2) [] rLast hrl (by have := degree_le_length rLast; omega)
        (fun e _ => coefficient_nil e) (Nat.le_refl _)
      have hqne := hqne (Or.inl (by omega))
      obtain ⟨qt, hqt, hqtl, hqtd⟩ := pmul_spec q t (by
        have : t.length ≠ 0 := by simpa using ht
        omega)
      simp only [inv_ok hdlt, Out.bind_ok, hdiv, hqt]
      have hdt' : degree (padd qt tLast) ≤ R - degree r := by
        apply degree_le_of_degLE
        intro e he
        rw [coefficient_padd, hqtd _ _ hq (degLE_degree t) e (by omega), degLE_degree tLast e (by omega),
          add_zero]
      exact euclidLoop_spec R hR fuel r rem t (padd qt tLast) hr hrem hdrem
        (by
          intro hnil
          have := congrArg List.length hnil
          rw [length_padd, hqtl] at this
          have h1 : t.length ≠ 0 := by simpa using ht
          have h2 : q.length ≠ 0 := by simpa using hqne
          simp at this; omega)
        hg (by omega) (by omega) (by omega)
    · rw [if_neg hg]
      refine ⟨t, r, rfl, ?_⟩
      omega

theorem degree_lt_length {p : List Nat} (h : p ≠ []) : degree p < p.length := by
  have hl : p.length ≠ 0 := by simpa using h
  have : degree p ≤ p.length - 1 := degree_le_of_degLE p _ fun e he => coefficient_ge (by omega)
  omega

theorem degLE_mulElement {p : List Nat} {d : Nat} (h : DegLE p d) (c : Nat) : DegLE (mulElement p c) d := by
  intro e he; rw [coefficient_mulElement, h e he, zero_mul]

theorem euclid_spec (n : Nat) (hn : n ≥ 1) (synd : List Nat) (hs : AllEl synd) (hl : synd.length = n) :
    (euclideanAlgorithm (newMonomial n 1) synd n).isPanic = false ∧
    ∀ sigma omega, euclideanAlgorithm (newMonomial n 1) synd n = .ok (sigma, omega) →
      2 * degree sigma ≤ n := by
  have hda : degree (newMonomial n 1) = n := degree_newMonomial (by decide) n
  have hdb : degree synd < n := by
    have := degree_lt_length (p := synd) (by intro h; rw [h] at hl; simp at hl; omega)
    omega
  obtain ⟨t, r, hloop, hdeg⟩ := euclidLoop_spec n hn ((newMonomial n 1).length + synd.length + 2)
    (newMonomial n 1) synd [] [1] (allEl_newMonomial (by decide) n) hs (by omega) (by simp)
    (by omega) (by rw [hda]; simp [degree]) (by rw [hda]; simp [degree])
    (by omega)
  unfold euclideanAlgorithm
  rw [if_neg (by omega)]
  simp only [hloop, Out.bind_ok]
  by_cases h0 : coefficient t 0 = 0
  · rw [if_pos h0]
    exact ⟨rfl, fun _ _ h => by cases h⟩
  · rw [if_neg h0, inv_ok h0]
    refine ⟨rfl, fun sigma omega h => ?_⟩
    cases h
    have := degree_le_of_degLE _ _ (degLE_mulElement (degLE_degree t) (inv' (coefficient t 0)))
    omega

/-! ### Chien search and Forney's formula do not panic -/

theorem inv'_inj {a b : Nat} (ha : El a) (hb : El b) (ha0 : a ≠ 0) (hb0 : b ≠ 0) (h : inv' a = inv' b) :
    a = b := by
  have h1 := inv_mul a ha ha0
  have h2 := inv_mul b hb hb0
  rw [← h] at h2
  exact mul_left_cancel (inv_lt a ha) ha hb (inv_ne_zero a ha ha0) (h1.trans h2.symm)

/-- the error locations are distinct non-zero field elements -/
def LocsOK (locs : List Nat) : Prop := locs.Nodup ∧ ∀ x ∈ locs, x < 256 ∧ x ≠ 0

theorem findErrorLocations_spec (sigma : List Nat) :
    (findErrorLocations sigma).isPanic = false ∧
    ∀ locs, findErrorLocations sigma = .ok locs → LocsOK locs := by
  unfold findErrorLocations
  constructor
  · refine foldlM_not_panic _ (fun _ _ => True) _ 0 [] trivial fun j hj b _ => ⟨?_, fun _ _ => trivial⟩
    simp only
    split
    · rw [inv_ok (by omega)]; rfl
    · rfl
  · intro locs h
    have := foldlM_inv _ (fun j acc => acc.Nodup ∧ ∀ x ∈ acc, ∃ k, k < j ∧ x = inv' (k + 1))
      (List.range 255) 0 [] ⟨List.nodup_nil, fun x hx => by cases hx⟩
      (fun j hj b b' hI hf => by
        have hj' : j < 255 := by simpa using hj
        simp only [List.getElem_range, Nat.zero_add] at hf hI ⊢
        split at hf
        · rw [inv_ok (by omega)] at hf
          cases hf
          refine ⟨?_, ?_⟩
          · rw [List.nodup_append]
            refine ⟨hI.1, (by simp), ?_⟩
            intro a ha b hb
            rw [List.mem_singleton.mp hb]
            obtain ⟨k, hk, rfl⟩ := hI.2 a ha
            intro heq
            have := inv'_inj (a := k + 1) (b := j + 1) (by unfold El; omega) (by unfold El; omega)
              (by omega) (by omega) heq
            omega
          · intro x hx
            rcases List.mem_append.mp hx with hx | hx
            · obtain ⟨k, hk, rfl⟩ := hI.2 x hx
              exact ⟨k, by omega, rfl⟩
            · rw [List.mem_singleton.mp hx]; exact ⟨j, by omega, rfl⟩
        · cases hf
          refine ⟨hI.1, fun x hx => ?_⟩
          obtain ⟨k, hk, rfl⟩ := hI.2 x hx
          exact ⟨k, by omega, rfl⟩) locs h
    refine ⟨this.1, fun x hx => ?_⟩
    obtain ⟨k, hk, rfl⟩ := this.2 x hx
    simp only [List.length_range, Nat.zero_add] at hk
    exact ⟨inv'_lt _, inv_ne_zero _ (by omega) (by omega)⟩

theorem mul_inv_eq_one {a b : Nat} (ha : El a) (hb : El b) (hb0 : b ≠ 0) (h : mul a (inv' b) = 1) :
    a = b := by
  have h1 : mul (mul a (inv' b)) b = mul 1 b := by rw [h]
  rw [mul_assoc ha (inv_lt b hb) hb, inv_mul b hb hb0, mul_one ha, one_mul hb] at h1
  exact h1

theorem findErrorMagnitudes_not_panic (omega : List Nat) {locs : List Nat} (hl : LocsOK locs) :
    (findErrorMagnitudes omega locs).isPanic = false := by
  unfold findErrorMagnitudes
  refine foldlM_not_panic _ (fun _ _ => True) _ 0 [] trivial fun j hj b _ => ⟨?_, fun _ _ => trivial⟩
  have hj' : j < locs.length := by simpa using hj
  simp only [List.getElem_range]
  have hloc : locs[j]?.getD 0 = locs[j] := by rw [List.getElem?_eq_getElem hj']; rfl
  obtain ⟨hlt, hne⟩ := hl.2 _ (List.getElem_mem hj')
  rw [hloc, inv_ok hne]
  simp only [Out.bind_ok]
  have hden : (List.range locs.length).foldl (init := 1) (fun den k =>
      if j ≠ k then mul den (add (mul (locs[k]?.getD 0) (inv' locs[j])) 1) else den) ≠ 0 := by
    refine foldl_range_inv _ (fun den => den ≠ 0) _ _ (by decide) fun den k hk hden => ?_
    split
    next hjk =>
      refine mul_ne_zero hden ?_
      intro h0
      rw [add_eq_zero_iff] at h0
      have hk' : locs[k]?.getD 0 = locs[k] := by rw [List.getElem?_eq_getElem hk]; rfl
      rw [hk'] at h0
      have := mul_inv_eq_one (hl.2 _ (List.getElem_mem hk)).1 hlt hne h0
      exact hjk ((List.getElem_inj hl.1).mp this).symm
    · exact hden
  rw [inv_ok hden]
  rfl

theorem corrLoop_not_panic (data mags : List Nat) {locs : List Nat} (hl : LocsOK locs) :
    (forIn (List.range' 0 locs.length 1) data.toArray (corrStep locs mags)).isPanic = false := by
  refine forIn_not_panic _ (fun _ _ => True) _ 0 _ trivial fun j hj b _ => ⟨?_, fun r hr => ?_⟩
  · have hj' : j < locs.length := by simpa using hj
    simp only [List.getElem_range', Nat.zero_add, Nat.one_mul]
    unfold corrStep
    have hloc : locs[j]?.getD 0 = locs[j] := by rw [List.getElem?_eq_getElem hj']; rfl
    have : log (locs[j]?.getD 0) = .ok (logT locs[j]) := by
      rw [hloc]; unfold log; rw [if_neg (hl.2 _ (List.getElem_mem hj')).2]
    rw [this]
    simp only
    split <;> rfl
  · obtain ⟨l, rfl⟩ := corrStep_ok hr
    exact ⟨_, rfl, trivial⟩

/-! ### the decoder as a whole -/

theorem syndromes_allEl {data : List Nat} (hd : AllEl data) (n : Nat) : AllEl (syndromes data n) := by
  intro b hb
  unfold syndromes at hb
  obtain ⟨i, _, rfl⟩ := List.mem_map.mp (List.mem_reverse.mp hb)
  exact eval_lt (exp_lt _ (by omega)) hd

theorem syndromes_length (data : List Nat) (n : Nat) : (syndromes data n).length = n := by
  simp [syndromes]

theorem decodeTail_not_panic {data : List Nat} (hd : AllEl data) {n : Nat} (hn : n ≥ 1) :
    (decodeTail data n).isPanic = false := by
  obtain ⟨he, _⟩ := euclid_spec n hn (syndromes data n) (syndromes_allEl hd n) (syndromes_length data n)
  unfold decodeTail
  split
  next sigma omega h1 =>
    obtain ⟨hc, hlocs⟩ := findErrorLocations_spec sigma
    split
    next locs h2 =>
      have hl := hlocs locs h2
      split
      · rfl
      · have hm := findErrorMagnitudes_not_panic omega hl
        split
        next mags h3 =>
          have hc := corrLoop_not_panic data mags hl
          split
          · split <;> rfl
          · rfl
          next m h4 => rw [h4] at hc; cases hc
        · rfl
        next m h3 => rw [h3] at hm; cases hm
    · rfl
    next m h2 => rw [h2] at hc; cases hc
  · rfl
  next m h1 => rw [h1] at he; cases he

theorem decode_not_panic {data : List Nat} (hd : AllEl data) (n : Nat) :
    (RS.decode data (n : Int)).isPanic = false := by
  by_cases hs : ((syndromes data n).all (· == 0)) = true
  · rw [decode_clean data n ((synd_all_iff data n).mp hs)]; rfl
  · rw [decode_late data n hs]
    refine decodeTail_not_panic hd ?_
    apply Nat.pos_of_ne_zero
    rintro rfl
    exact hs rfl

theorem decode_distance {data data' : List Nat} (hd : AllEl data) {n : Nat}
    (h : RS.decode data (n : Int) = .ok data') : distL data data' ≤ n / 2 := by
  by_cases hn0 : n = 0
  · subst hn0
    have hz : SyndZero 0 data := fun i hi => absurd hi (Nat.not_lt_zero i)
    rw [decode_clean data 0 hz] at h
    cases h
    rw [distL_self]; exact Nat.zero_le _
  have hn : n ≥ 1 := Nat.pos_of_ne_zero hn0
  rcases decode_ok_cases h with ⟨rfl, _⟩ | h'
  · rw [distL_self]; exact Nat.zero_le _
  · obtain ⟨sigma, omega, locs, mags, d, h1, _, h2, h3, h4, rfl, _⟩ := decodeTail_ok h'
    have hdeg := (euclid_spec n hn (syndromes data n) (syndromes_allEl hd n) (syndromes_length data n)).2
      sigma omega h1
    obtain ⟨_, _, h5⟩ := corrLoop_ok hd (findErrorMagnitudes_allEl h3) h4
    omega

end QRV.Lemmas.RS
