import QRV.Lemmas.MicroRTFin
import QRV.Lemmas.RTFormat
/-
Format information of Micro QR in the round trip: the loop of `encodeToBitmap` as a list of
`SetBinary` writes on function modules, and the reading loop + `decodeFormat` of `decodeBitmapFull`
reading the word back exactly.
-/
namespace QRV.Lemmas.MRT
open QRV QRV.Model QRV.Model.Bitmap QRV.Model.Sym QRV.Props QRV.Props.C18 QRV.Lemmas.BCH
open QRV.Lemmas.RT (applyWrites writes_spec forIn_range'_writes raw_step hamming_self)

/-! ### writing -/

/-- the format information loop of `Model.Micro.encodeToBitmap` -/
def placeFormatM (img : Image) (encoded : Nat) : Out Image :=
  forIn (List.range' 0 8) img fun (i : Nat) (s : Image) => do
    let img ← s.setBinary 8 ((i : Int) + 1) (encoded >>> i &&& 1 != 0)
    let img ← img.setBinary ((i : Int) + 1) 8 (encoded >>> (14 - i) &&& 1 != 0)
    pure (ForInStep.yield img)

def mformatWrites (encoded : Nat) : List ((Int × Int) × Bool) :=
  (List.range' 0 8).flatMap fun (i : Nat) =>
    [(((8 : Int), (i : Int) + 1), encoded >>> i &&& 1 != 0),
     (((i : Int) + 1, (8 : Int)), encoded >>> (14 - i) &&& 1 != 0)]

theorem placeFormatM_eq (img : Image) (encoded : Nat) :
    placeFormatM img encoded = applyWrites (mformatWrites encoded) img := by
  unfold placeFormatM mformatWrites
  have := forIn_range'_writes (fun (i : Nat) =>
    [(((8 : Int), (i : Int) + 1), encoded >>> i &&& 1 != 0),
     (((i : Int) + 1, (8 : Int)), encoded >>> (14 - i) &&& 1 != 0)]) 8 0 img
  simp only [applyWrites, List.foldlM_cons, List.foldlM_nil, bind_assoc, pure_bind] at this
  rw [applyWrites, ← this]

theorem mem_mformatWrites (enc : Nat) (p : (Int × Int) × Bool) :
    p ∈ mformatWrites enc ↔
      ∃ j : Nat, j < 8 ∧ (p = (((8 : Int), (j : Int) + 1), enc.testBit j) ∨
        p = (((j : Int) + 1, (8 : Int)), enc.testBit (14 - j))) := by
  simp only [mformatWrites, List.mem_flatMap, List.mem_range'_1, List.mem_cons,
    List.not_mem_nil, or_false, Lemmas.Bitmap.bit_eq_testBit, Nat.zero_le, true_and, Nat.zero_add]

theorem placeFormatM_spec (v : Nat) (h1 : 1 ≤ v) (h4 : v ≤ 4) (img : Image)
    (hr : Regular img (9 + 2 * v) (9 + 2 * v)) (enc : Nat) :
    ∃ img', placeFormatM img enc = .ok img' ∧ Regular img' (9 + 2 * v) (9 + 2 * v) ∧
      (∀ x y : Nat, x < 9 + 2 * v → y < 9 + 2 * v → usedFn v (x : Int) (y : Int) = false →
        px img' x y = px img x y) ∧
      (∀ i : Nat, i < 8 → px img' 8 (i + 1) = enc.testBit i ∧ px img' (i + 1) 8 = enc.testBit (14 - i)) := by
  obtain ⟨-, -, -, -, -, hfu⟩ := version_images v h1 h4
  rw [placeFormatM_eq]
  obtain ⟨img', he, hr', hpx⟩ := writes_spec _ _ (mformatWrites enc) img hr
  refine ⟨img', he, hr', ?_, ?_⟩
  · intro x y hx hy hu
    refine (hpx x y hx hy).1 ?_
    intro p hp hpe
    rw [mem_mformatWrites] at hp
    obtain ⟨j, hj, rfl | rfl⟩ := hp
    · have h1' := congrArg Prod.fst hpe
      have h2' := congrArg Prod.snd hpe
      simp only at h1' h2'
      have hx8 : x = 8 := by omega
      have hyj : y = j + 1 := by omega
      subst hx8 hyj
      rw [(hfu j hj).1] at hu
      cases hu
    · have h1' := congrArg Prod.fst hpe
      have h2' := congrArg Prod.snd hpe
      simp only at h1' h2'
      have hy8 : y = 8 := by omega
      have hxj : x = j + 1 := by omega
      subst hy8 hxj
      rw [(hfu j hj).2] at hu
      cases hu
  · intro i hi
    constructor
    · refine (hpx 8 (i + 1) (by omega) (by omega)).2 _ ?_ ⟨_, (mem_mformatWrites ..).2 ⟨i, hi, Or.inl rfl⟩, by simp⟩
      intro p hp hpe
      rw [mem_mformatWrites] at hp
      obtain ⟨j, hj, rfl | rfl⟩ := hp
      · have h2' := congrArg Prod.snd hpe
        simp only at h2'
        have : j = i := by omega
        rw [this]
      · have h1' := congrArg Prod.fst hpe
        have h2' := congrArg Prod.snd hpe
        simp only at h1' h2'
        have hj7 : j = 7 := by omega
        have hi7 : i = 7 := by omega
        subst hj7 hi7; rfl
    · refine (hpx (i + 1) 8 (by omega) (by omega)).2 _ ?_ ⟨_, (mem_mformatWrites ..).2 ⟨i, hi, Or.inr rfl⟩, by simp⟩
      intro p hp hpe
      rw [mem_mformatWrites] at hp
      obtain ⟨j, hj, rfl | rfl⟩ := hp
      · have h1' := congrArg Prod.fst hpe
        have h2' := congrArg Prod.snd hpe
        simp only at h1' h2'
        have hj7 : j = 7 := by omega
        have hi7 : i = 7 := by omega
        subst hj7 hi7; rfl
      · have h1' := congrArg Prod.fst hpe
        simp only at h1'
        have : j = i := by omega
        rw [this]

/-! ### reading -/

/-- the raw-word loop of `Model.Micro.decodeBitmapFull` -/
def readRawM (img : Image) : Out Nat :=
  forIn (List.range' 0 8) (0 : Nat) fun (i : Nat) (s : Nat) => do
    let b1 ← img.binaryAt 8 ((i : Int) + 1)
    if b1 = true then do
      let b2 ← img.binaryAt ((i : Int) + 1) 8
      if b2 = true then pure (ForInStep.yield (s ||| 1 <<< i ||| 1 <<< (14 - i)))
      else pure (ForInStep.yield (s ||| 1 <<< i))
    else do
      let b2 ← img.binaryAt ((i : Int) + 1) 8
      if b2 = true then pure (ForInStep.yield (s ||| 1 <<< (14 - i))) else pure (ForInStep.yield s)

/-- reading the raw word of a regular image whose format modules hold the 15-bit word c -/
theorem readRawM_spec (img : Image) (n : Nat) (hr : Regular img n n) (hn : 9 ≤ n) (c : Nat) (hc : c < 2 ^ 15)
    (h1 : ∀ i : Nat, i < 8 → px img 8 (i + 1) = c.testBit i)
    (h2 : ∀ i : Nat, i < 8 → px img (i + 1) 8 = c.testBit (14 - i)) :
    readRawM img = .ok c := by
  unfold readRawM
  obtain ⟨s, hs, hP⟩ := Lemmas.Bitmap.forIn_range'_ok (β := Nat)
    (fun (i : Nat) (s : Nat) => (do
      let b1 ← img.binaryAt 8 ((i : Int) + 1)
      if b1 = true then do
        let b2 ← img.binaryAt ((i : Int) + 1) 8
        if b2 = true then pure (ForInStep.yield (s ||| 1 <<< i ||| 1 <<< (14 - i)))
        else pure (ForInStep.yield (s ||| 1 <<< i))
      else do
        let b2 ← img.binaryAt ((i : Int) + 1) 8
        if b2 = true then pure (ForInStep.yield (s ||| 1 <<< (14 - i))) else pure (ForInStep.yield s) : Out (ForInStep Nat)))
    (fun k s => ∀ j, s.testBit j = (c.testBit j && (decide (j < k) || decide (14 - k < j ∧ j ≤ 14))))
    8 0 0 (by intro j; simp) (by
      intro k s _ hk8 hPk
      have hk : k < 8 := by omega
      refine ⟨s ||| (if c.testBit k = true then 1 <<< k else 0) ||| (if c.testBit (14 - k) = true then 1 <<< (14 - k) else 0),
        ?_, fun j => raw_step c s k j hk (hPk j)⟩
      simp only [binaryAt_spec img n n hr, Out.bind_ok]
      have e1 : (if 0 ≤ (8 : Int) ∧ (8 : Int) < ↑n ∧ 0 ≤ (k : Int) + 1 ∧ (k : Int) + 1 < ↑n then
          px img (Int.toNat 8) ((k : Int) + 1).toNat else false) = c.testBit k := by
        rw [if_pos (by omega)]
        have : ((k : Int) + 1).toNat = k + 1 := by omega
        rw [this]; exact h1 k hk
      have e2 : (if 0 ≤ (k : Int) + 1 ∧ (k : Int) + 1 < ↑n ∧ 0 ≤ (8 : Int) ∧ (8 : Int) < ↑n then
          px img ((k : Int) + 1).toNat (Int.toNat 8) else false) = c.testBit (14 - k) := by
        rw [if_pos (by omega)]
        have : ((k : Int) + 1).toNat = k + 1 := by omega
        rw [this]; exact h2 k hk
      simp only [e1, e2]
      cases c.testBit k <;> cases c.testBit (14 - k) <;>
        simp only [Bool.false_eq_true, ↓reduceIte, Nat.or_zero] <;> rfl)
  rw [hs]
  congr 1
  apply Nat.eq_of_testBit_eq
  intro j
  rw [hP j]
  by_cases hj : j < 15
  · have : (decide (j < 0 + 8) || decide (14 - (0 + 8) < j ∧ j ≤ 14)) = true := by
      simp only [Bool.or_eq_true, decide_eq_true_eq]; omega
    rw [this, Bool.and_true]
  · have : c.testBit j = false :=
      Nat.testBit_lt_two_pow (Nat.lt_of_lt_of_le hc (Nat.pow_le_pow_right (by decide) (by omega)))
    rw [this, Bool.false_and]

/-- the format words have 15 bits -/
theorem micro_format_lt (idx c : Nat) (hc : Gen.Micro.encodedFormat[idx]? = some c) : c < 2 ^ 15 := by
  have h := micro_format_distance
  unfold tableOK at h
  rw [Bool.and_eq_true] at h
  have := List.all_eq_true.mp h.1 c (List.mem_of_getElem? hc)
  simpa using this

/-- the table entry of (symbol number f, mask m) -/
theorem natAt_mformat (f m : Nat) (hf : f < 8) (hm : m < 4) :
    ∃ c, natAt Gen.Micro.encodedFormat (((((f : Int) * 4).toNat ||| (m : Int).toNat : Nat)) : Int) = .ok c ∧
      Gen.Micro.encodedFormat[4 * f + m]? = some c := by
  have hidx : ((f : Int) * 4).toNat ||| (m : Int).toNat = 4 * f + m := by
    have e1 : ((f : Int) * 4).toNat = f * 2 ^ 2 := by omega
    have e2 : (m : Int).toNat = m := by omega
    rw [e1, e2, Lemmas.Bits.mul_pow_or f m 2 (by omega)]
    omega
  rw [hidx]
  have hlt : 4 * f + m < Gen.Micro.encodedFormat.length := by rw [micro_format_length]; omega
  refine ⟨_, ?_, List.getElem?_eq_getElem hlt⟩
  unfold natAt
  rw [if_neg (by omega)]
  simp only [Int.toNat_natCast]
  rw [List.getElem?_eq_getElem hlt]

/-- a regular image whose format modules hold table entry `4 f + m` decodes to the pair of symbol
number f and to mask m -/
theorem decodeFormat_read (img : Image) (n : Nat) (hr : Regular img n n) (hn : 9 ≤ n) (f m c : Nat)
    (hf : f < 8) (hm : m < 4) (hc : Gen.Micro.encodedFormat[4 * f + m]? = some c) (vl : Int × Int)
    (hvl : Gen.Micro.rawFormatTable[f]? = some vl)
    (h1 : ∀ i : Nat, i < 8 → px img 8 (i + 1) = c.testBit i)
    (h2 : ∀ i : Nat, i < 8 → px img (i + 1) 8 = c.testBit (14 - i)) :
    readRawM img = .ok c ∧ Model.Micro.decodeFormat c = .ok (some (vl.1, vl.2, (m : Int))) := by
  refine ⟨readRawM_spec img n hr hn c (micro_format_lt _ c hc) h1 h2, ?_⟩
  obtain ⟨v', l', htab, hdec⟩ := C11.micro_nearest c (4 * f + m) c (by omega) hc (by rw [hamming_self]; omega)
  have e1 : (4 * f + m) >>> 2 = f := by rw [Nat.shiftRight_eq_div_pow]; omega
  have e2 : (4 * f + m) &&& 3 = m := by
    rw [show (3 : Nat) = 2 ^ 2 - 1 by decide, Nat.and_two_pow_sub_one_eq_mod]; omega
  rw [e1] at htab
  rw [e2] at hdec
  rw [hvl] at htab
  cases htab
  exact hdec

end QRV.Lemmas.MRT
