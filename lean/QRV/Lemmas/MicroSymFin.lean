import QRV.Lemmas.MicroRTFin
import QRV.Spec.SymbolMicro
/-
Kernel-evaluated facts relating the regenerated Micro QR tables and the walk of the model to the
declarative symbol `Spec.Symbol.Micro`: per (version, level) pair the row of `Spec.Tables.micro` is the
capacity row and the symbol number of the regenerated tables, and the slot list of the model's walk
is the specification's placement order `dataCoords v` with the skipped stream bits (the low nibble
of the final data codeword of M1/M3) inserted after `dataBits` modules; per version every module
that is not a function module is a data module (Micro QR has no remainder modules).
-/
namespace QRV.Lemmas.MSym
open QRV QRV.Model QRV.Model.Sym QRV.Lemmas QRV.Lemmas.MRT QRV.Spec.Symbol.Micro

set_option maxRecDepth 1000000

/-- a module coordinate as the model's walk names it -/
def toI (p : Nat × Nat) : Int × Int := ((p.1 : Int), (p.2 : Int))

theorem toI_inj {a b : Nat × Nat} (h : toI a = toI b) : a = b := by
  unfold toI at h
  have h1 := congrArg Prod.fst h
  have h2 := congrArg Prod.snd h
  simp only at h1 h2
  exact Prod.ext (by omega) (by omega)

/-- the slot list that the specification's placement order stands for: the first `D` data modules,
`P` skipped stream bits, the remaining data modules -/
def specSlots (dc : List (Nat × Nat)) (D P : Nat) : List (Option (Int × Int)) :=
  (dc.take D).map (fun p => some (toI p)) ++ (List.replicate P none ++ (dc.drop D).map (fun p => some (toI p)))

def symCheck (v l : Nat) : Bool :=
  match row v l, slotsOf v l with
  | some (sn, _total, dataCw, dataBits, ecc), some sl =>
    (capOf v l).data == dataCw && (capOf v l).dataBits == dataBits && (capOf v l).correction == ecc &&
    (Model.Micro.formatAt (v : Int) (l : Int) == .ok (sn : Int)) &&
    (sl == specSlots (dataCoords v) dataBits (8 * dataCw - dataBits))
  | _, _ => false

theorem sym_check_all : pairs.all (fun p => symCheck p.1 p.2) = true := by decide +kernel

/-- what the check says about a pair -/
theorem sym_facts (v l : Nat) (hm : (v, l) ∈ pairs) :
    ∃ sn total sl, row v l = some (sn, total, (capOf v l).data, (capOf v l).dataBits, (capOf v l).correction) ∧
      Model.Micro.formatAt (v : Int) (l : Int) = .ok (sn : Int) ∧ slotsOf v l = some sl ∧
      sl = specSlots (dataCoords v) (capOf v l).dataBits (8 * (capOf v l).data - (capOf v l).dataBits) := by
  have h := of_pairs sym_check_all v l hm
  unfold symCheck at h
  split at h
  · rename_i sn total dataCw dataBits ecc sl hrow hsl
    simp only [Bool.and_eq_true, beq_iff_eq] at h
    obtain ⟨⟨⟨⟨h1, h2⟩, h3⟩, h4⟩, h5⟩ := h
    refine ⟨sn, total, sl, ?_, h4, hsl, ?_⟩
    · rw [hrow, h1, h2, h3]
    · rw [h5, h1, h2]
  · cases h

/-- every module of the symbol that is not a function module is a data module -/
def coverCheck (v : Nat) : Bool :=
  Spec.Patterns.strict (Spec.Patterns.Micro.size v) fun n =>
    (List.range n).all fun x => (List.range n).all fun y =>
      Spec.Patterns.Micro.isFunction v x y || (dataCoords v).contains (x, y)

theorem cover_check_all : (List.range 5).all coverCheck = true := by decide +kernel

theorem cover_facts (v : Nat) (h4 : v ≤ 4) (x y : Nat) (hx : x < Spec.Patterns.Micro.size v)
    (hy : y < Spec.Patterns.Micro.size v) (hf : Spec.Patterns.Micro.isFunction v x y = false) :
    (x, y) ∈ dataCoords v := by
  have h := forall_lt_of_all cover_check_all v (by omega)
  unfold coverCheck at h
  rw [strict_eq] at h
  have h1 := List.all_eq_true.mp h x (List.mem_range.mpr hx)
  have h2 := List.all_eq_true.mp h1 y (List.mem_range.mpr hy)
  rw [hf, Bool.false_or] at h2
  exact List.contains_iff_mem.mp h2

end QRV.Lemmas.MSym
