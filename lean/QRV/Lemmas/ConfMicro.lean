import QRV.Props.C02SymbolMicro
import QRV.Props.C01MicroWeak
import QRV.Lemmas.C03MicroLiftWeak
/-
C03 / C01, Micro QR: any regular bitmap whose pixels are the declarative symbol of a valid, parsable
description is decoded to that description.  As for QR the route is pixel-wise (`C18.Regular` leaves
the padding bits free): the whole-symbol correction lemma with zero damage, under the weak
non-emptiness condition (`C03MicroLiftWeak`), fed with the modules of the library's own symbol,
which `C02.micro_symbol_unique` identifies with those of the given bitmap.
-/
namespace QRV.Lemmas.Conf
open QRV QRV.Model QRV.Model.Sym QRV.Model.Bitmap QRV.Spec.Valid QRV.Props QRV.Lemmas.MRT

theorem micro_reads_conformant (q : QRCode) (hv : Micro.Valid q) (hp : C01.MicroParsable q) (m : Nat) (hm : m < 4)
    (img : Image)
    (hr : C18.Regular img (Spec.Patterns.Micro.size q.version.toNat) (Spec.Patterns.Micro.size q.version.toNat))
    (hs : Spec.Symbol.Micro.IsSymbol q m (C18.px img)) :
    Model.Micro.decodeBitmap img = .ok { q with mask := (m : Int) } := by
  obtain ⟨v, l, hqv, hql, hpair, hsegs, hfit⟩ := valid_fields q hv
  obtain ⟨version, level, mask, segments⟩ := q
  simp only at hqv hql hsegs hfit
  subst hqv hql
  have hne : ∀ s ∈ segments, s.data = [] → s.mode ≠ 0 ∧ v ≠ 4 := by
    intro s hs' he
    obtain ⟨h0, h4⟩ := hp s hs' he
    simp only at h4
    exact ⟨h0, by omega⟩
  have hs' : Spec.Symbol.Micro.IsSymbol { version := v, level := l, mask := (m : Int), segments := segments } m
      (C18.px img) := hs
  simp only [Spec.Patterns.Micro.size, Int.toNat_natCast] at hr
  have hm1 : (-1 : Int) ≤ (m : Int) := by omega
  have hm3 : (m : Int) ≤ 3 := by omega
  -- the library's symbol of the description with the explicit mask
  obtain ⟨f, m0, c, data, fbuf, sl, img0, hf8, hm4, hmeq, hraw, hc, hE, hfbytes, hdl, hdb, hfb, hsl, hsllen, hrange,
    henc, hr0, hfc0, hcarry0, hseg, hdec0⟩ := roundtrip_exposed_weak v l (m : Int) segments hpair hsegs hfit hne hm1 hm3
  have hmm : m0 = m := by have := hmeq (by omega); omega
  subst hmm
  obtain ⟨img1, m1, henc1, hm14, hmeq1, -, hsym0⟩ := MSym.symbol_core v l (m0 : Int) segments hpair hsegs hfit hm1 hm3
  rw [henc] at henc1
  cases henc1
  have hmm : m1 = m0 := by have := hmeq1 (by omega); omega
  subst hmm
  have hpx := MSym.symbol_unique v l (m1 : Int) segments hpair m1 _ _ hs' hsym0
  refine corrects_rated_damage_nat_weak v l (m1 : Int) segments hpair hsegs hfit hne hm1 hm3 img0 m1 henc hdec0 fbuf hE
    sl hsl img hr (fun x y hx hy _ => hpx x y hx hy) fbuf.buf.toList Array.length_toList hfb ?_
    (by rw [RT.dist_self]; exact Nat.zero_le _)
  intro k hk
  have hck := hcarry0 k hk
  have hsk : sl[k]? = some sl[k] := List.getElem?_eq_getElem hk
  revert hck
  generalize sl[k] = o at hsk
  cases o with
  | none => exact fun h => h
  | some c' =>
    obtain ⟨x, y⟩ := c'
    obtain ⟨r1, r2, r3, r4, -⟩ := hrange k (x, y) hsk
    simp only at r1 r2 r3 r4
    intro hck
    show C18.px img x.toNat y.toNat = _
    rw [hpx _ _ (by omega) (by omega)]
    exact hck

end QRV.Lemmas.Conf
