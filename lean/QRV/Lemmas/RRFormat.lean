import QRV.Lemmas.RRTables
import QRV.Lemmas.RRWalk
import QRV.Lemmas.RTFormat
import QRV.Props.C11
/-
Version/level information in the rMQR round trip: the two copies as a list of `SetBinary` writes,
the modules they touch are function modules, and `decodeFormat` reads the first copy back exactly.
-/
namespace QRV.Lemmas.RR
open QRV QRV.Lemmas QRV.Model QRV.Model.Bitmap QRV.Model.Sym QRV.Props QRV.Props.C18 QRV.Lemmas.BCH QRV.Lemmas.RT

set_option maxRecDepth 100000

/-! ### the format step of `encodeToBitmap` -/

def fmtWrites (w h : Int) (ef : Nat) : List ((Int × Int) × Bool) :=
  (List.range 18).flatMap (fun (i : Nat) =>
    [((8 + ((i / 5 : Nat) : Int), 1 + ((i % 5 : Nat) : Int)), ((ef ^^^ Model.RMQR.fmtMask1) >>> i) &&& 1 != 0)]) ++
  (List.range 15).flatMap (fun (i : Nat) =>
    [((w - 7 + ((i / 5 : Nat) : Int), h - 5 + ((i % 5 : Nat) : Int)), ((ef ^^^ Model.RMQR.fmtMask2) >>> i) &&& 1 != 0)]) ++
  [((w - 4, h - 5), ((ef ^^^ Model.RMQR.fmtMask2) >>> 15) &&& 1 != 0),
   ((w - 3, h - 5), ((ef ^^^ Model.RMQR.fmtMask2) >>> 16) &&& 1 != 0),
   ((w - 2, h - 5), ((ef ^^^ Model.RMQR.fmtMask2) >>> 17) &&& 1 != 0)]

/-- the last steps of `encodeToBitmap`: both copies of the version/level word, then masking -/
def formatStep (w h : Int) (ef : Nat) (used img : Image) : Out Image := do
  let mut img := img
  for i in [0:18] do
    img ← img.setBinary (8 + ((i / 5 : Nat) : Int)) (1 + ((i % 5 : Nat) : Int)) (((ef ^^^ Model.RMQR.fmtMask1) >>> i) &&& 1 != 0)
  for i in [0:15] do
    img ← img.setBinary (w - 7 + ((i / 5 : Nat) : Int)) (h - 5 + ((i % 5 : Nat) : Int)) (((ef ^^^ Model.RMQR.fmtMask2) >>> i) &&& 1 != 0)
  img ← img.setBinary (w - 4) (h - 5) (((ef ^^^ Model.RMQR.fmtMask2) >>> 15) &&& 1 != 0)
  img ← img.setBinary (w - 3) (h - 5) (((ef ^^^ Model.RMQR.fmtMask2) >>> 16) &&& 1 != 0)
  img ← img.setBinary (w - 2) (h - 5) (((ef ^^^ Model.RMQR.fmtMask2) >>> 17) &&& 1 != 0)
  Image.mask img used Model.RMQR.precomputedMask

theorem encodeToBitmap_eq (q : QRCode) (h1 : Model.RMQR.versionIsValid q.version = true)
    (h2 : Model.RMQR.levelIsValid q.level = true) :
    Model.RMQR.encodeToBitmap q = (do
      let buf ← Model.RMQR.encodeToBits q {}
      let usedO ← imgAt Model.RMQR.usedList q.version
      let img ← deref (← imgAt Model.RMQR.baseList q.version)
      let used ← deref usedO
      let w := img.dx - 1
      let h := img.dy - 1
      let img ← Model.RMQR.placeLoop used h ((w + 3) * (h + 3)).toNat { x := w - 1, y := h - 5, dy := -1 } buf img
      let ef ← natAt Gen.RMQR.encodedVersion (q.version + q.level * 32)
      formatStep w h ef used img) := by
  unfold Model.RMQR.encodeToBitmap formatStep
  simp only [h1, h2, Bool.not_true, Bool.false_eq_true, if_false]

theorem formatStep_eq (w h : Int) (ef : Nat) (used img : Image) :
    formatStep w h ef used img =
      applyWrites (fmtWrites w h ef) img >>= fun i => Image.mask i used Model.RMQR.precomputedMask := by
  unfold formatStep fmtWrites
  simp only [Std.Legacy.Range.forIn_eq_forIn_range', Std.Legacy.Range.size]
  have t1 := forIn_range'_writes (fun (i : Nat) =>
    [((8 + ((i / 5 : Nat) : Int), 1 + ((i % 5 : Nat) : Int)), ((ef ^^^ Model.RMQR.fmtMask1) >>> i) &&& 1 != 0)]) 18 0
  have t2 := forIn_range'_writes (fun (i : Nat) =>
    [((w - 7 + ((i / 5 : Nat) : Int), h - 5 + ((i % 5 : Nat) : Int)), ((ef ^^^ Model.RMQR.fmtMask2) >>> i) &&& 1 != 0)]) 15 0
  simp only [applyWrites, List.foldlM_cons, List.foldlM_nil, bind_assoc, pure_bind] at t1 t2
  rw [applyWrites, List.foldlM_append, List.foldlM_append, List.range_eq_range', List.range_eq_range']
  simp only [List.foldlM_cons, List.foldlM_nil, bind_assoc, pure_bind]
  simp only [← t1, ← t2]


/-! ### positions -/

/-- modules written by the format step for version v (natural coordinates) -/
def fmtPos (v : Nat) : List (Nat × Nat) :=
  (List.range 18).flatMap (fun i => [(8 + i / 5, 1 + i % 5)]) ++
  (List.range 15).flatMap (fun i => [(W v - 8 + i / 5, H v - 6 + i % 5)]) ++
  [(W v - 5, H v - 6), (W v - 4, H v - 6), (W v - 3, H v - 6)]

def fmtCheck (v : Nat) : Bool :=
  let g := usedGen v
  (fmtPos v).all (fun p => decide (p.1 < W v) && decide (p.2 < H v) && rowBit g.rows g.stride p.1 p.2)

theorem fmt_check_all : (List.range 32).all fmtCheck = true := by decide +kernel

theorem used_of_fmtPos (v : Nat) (hv : v < 32) (x y : Nat) (hm : (x, y) ∈ fmtPos v) :
    x < W v ∧ y < H v ∧ usedFn v (x : Int) (y : Int) = true := by
  have h := forall_lt_of_all fmt_check_all v hv
  unfold fmtCheck at h
  have := List.all_eq_true.mp h (x, y) hm
  simp only [Bool.and_eq_true, decide_eq_true_eq] at this
  refine ⟨this.1.1, this.1.2, ?_⟩
  unfold usedFn
  rw [fnOf_nat _ _ _ _ x y this.1.1 this.1.2]
  exact this.2

theorem mem_fmtWrites (w h : Int) (ef : Nat) (p : (Int × Int) × Bool) :
    p ∈ fmtWrites w h ef ↔
      (∃ j, j < 18 ∧ p = ((8 + ((j / 5 : Nat) : Int), 1 + ((j % 5 : Nat) : Int)), (ef ^^^ Model.RMQR.fmtMask1).testBit j)) ∨
      (∃ j, j < 15 ∧ p = ((w - 7 + ((j / 5 : Nat) : Int), h - 5 + ((j % 5 : Nat) : Int)), (ef ^^^ Model.RMQR.fmtMask2).testBit j)) ∨
      p = ((w - 4, h - 5), (ef ^^^ Model.RMQR.fmtMask2).testBit 15) ∨
      p = ((w - 3, h - 5), (ef ^^^ Model.RMQR.fmtMask2).testBit 16) ∨
      p = ((w - 2, h - 5), (ef ^^^ Model.RMQR.fmtMask2).testBit 17) := by
  simp only [fmtWrites, List.mem_append, List.mem_flatMap, List.mem_range, List.mem_cons,
    List.not_mem_nil, or_false, Lemmas.Bitmap.bit_eq_testBit, or_assoc]

theorem mem_fmtPos (v : Nat) (p : Nat × Nat) :
    p ∈ fmtPos v ↔ (∃ j, j < 18 ∧ p = (8 + j / 5, 1 + j % 5)) ∨
      (∃ j, j < 15 ∧ p = (W v - 8 + j / 5, H v - 6 + j % 5)) ∨
      p = (W v - 5, H v - 6) ∨ p = (W v - 4, H v - 6) ∨ p = (W v - 3, H v - 6) := by
  simp only [fmtPos, List.mem_append, List.mem_flatMap, List.mem_range, List.mem_cons,
    List.not_mem_nil, or_false, or_assoc]

/-- the format step only writes function modules -/
theorem fmtWrites_used (v : Nat) (hv : v < 32) (ef : Nat) :
    ∀ p ∈ fmtWrites ((W v : Int) - 1) ((H v : Int) - 1) ef, usedFn v p.1.1 p.1.2 = true := by
  obtain ⟨hW27, hW144, hH7, hH17⟩ := sizes_ok v hv
  intro p hp
  rw [mem_fmtWrites] at hp
  rcases hp with ⟨j, hj, rfl⟩ | ⟨j, hj, rfl⟩ | rfl | rfl | rfl
  · have e1 : (8 : Int) + ((j / 5 : Nat) : Int) = ((8 + j / 5 : Nat) : Int) := by omega
    have e2 : (1 : Int) + ((j % 5 : Nat) : Int) = ((1 + j % 5 : Nat) : Int) := by omega
    simp only [e1, e2]
    exact (used_of_fmtPos v hv _ _ ((mem_fmtPos ..).2 (Or.inl ⟨j, hj, rfl⟩))).2.2
  · have e1 : (W v : Int) - 1 - 7 + ((j / 5 : Nat) : Int) = ((W v - 8 + j / 5 : Nat) : Int) := by omega
    have e2 : (H v : Int) - 1 - 5 + ((j % 5 : Nat) : Int) = ((H v - 6 + j % 5 : Nat) : Int) := by omega
    simp only [e1, e2]
    exact (used_of_fmtPos v hv _ _ ((mem_fmtPos ..).2 (Or.inr (Or.inl ⟨j, hj, rfl⟩)))).2.2
  · have e1 : (W v : Int) - 1 - 4 = ((W v - 5 : Nat) : Int) := by omega
    have e2 : (H v : Int) - 1 - 5 = ((H v - 6 : Nat) : Int) := by omega
    simp only [e1, e2]
    exact (used_of_fmtPos v hv _ _ ((mem_fmtPos ..).2 (Or.inr (Or.inr (Or.inl rfl))))).2.2
  · have e1 : (W v : Int) - 1 - 3 = ((W v - 4 : Nat) : Int) := by omega
    have e2 : (H v : Int) - 1 - 5 = ((H v - 6 : Nat) : Int) := by omega
    simp only [e1, e2]
    exact (used_of_fmtPos v hv _ _ ((mem_fmtPos ..).2 (Or.inr (Or.inr (Or.inr (Or.inl rfl)))))).2.2
  · have e1 : (W v : Int) - 1 - 2 = ((W v - 3 : Nat) : Int) := by omega
    have e2 : (H v : Int) - 1 - 5 = ((H v - 6 : Nat) : Int) := by omega
    simp only [e1, e2]
    exact (used_of_fmtPos v hv _ _ ((mem_fmtPos ..).2 (Or.inr (Or.inr (Or.inr (Or.inr rfl)))))).2.2

/-- the first copy holds the masked word, whatever else the format step writes -/
theorem first_copy (w h : Int) (hw : 26 ≤ w) (ef i : Nat) (hi : i < 18) :
    (∀ p ∈ fmtWrites w h ef, p.1 = (((8 + i / 5 : Nat) : Int), ((1 + i % 5 : Nat) : Int)) →
        p.2 = (ef ^^^ Model.RMQR.fmtMask1).testBit i) ∧
      (∃ p ∈ fmtWrites w h ef, p.1 = (((8 + i / 5 : Nat) : Int), ((1 + i % 5 : Nat) : Int))) := by
  constructor
  · intro p hp he
    rw [mem_fmtWrites] at hp
    rcases hp with ⟨j, hj, rfl⟩ | ⟨j, hj, rfl⟩ | rfl | rfl | rfl
    · have h1 := congrArg Prod.fst he
      have h2 := congrArg Prod.snd he
      simp only at h1 h2
      have : j = i := by omega
      rw [this]
    · have h1 := congrArg Prod.fst he; simp only at h1; omega
    · have h1 := congrArg Prod.fst he; simp only at h1; omega
    · have h1 := congrArg Prod.fst he; simp only at h1; omega
    · have h1 := congrArg Prod.fst he; simp only at h1; omega
  · refine ⟨_, (mem_fmtWrites ..).2 (Or.inl ⟨i, hi, rfl⟩), ?_⟩
    apply Prod.ext <;> simp only <;> omega

/-- the format writes on a regular image: data modules untouched, first copy in place -/
theorem fmtWrites_spec (v : Nat) (hv : v < 32) (img : Image) (hr : Regular img (W v) (H v)) (ef : Nat) :
    ∃ img', applyWrites (fmtWrites ((W v : Int) - 1) ((H v : Int) - 1) ef) img = .ok img' ∧
      Regular img' (W v) (H v) ∧
      (∀ x y : Nat, x < W v → y < H v → usedFn v (x : Int) (y : Int) = false → px img' x y = px img x y) ∧
      (∀ i : Nat, i < 18 → px img' (8 + i / 5) (1 + i % 5) = (ef ^^^ Model.RMQR.fmtMask1).testBit i) := by
  obtain ⟨hW27, hW144, hH7, hH17⟩ := sizes_ok v hv
  obtain ⟨img', he, hr', hpx⟩ := writes_spec _ _ (fmtWrites ((W v : Int) - 1) ((H v : Int) - 1) ef) img hr
  refine ⟨img', he, hr', ?_, ?_⟩
  · intro x y hx hy hu
    refine (hpx x y hx hy).1 ?_
    intro p hp hpe
    have := fmtWrites_used v hv ef p hp
    rw [hpe] at this
    simp only at this
    rw [hu] at this
    cases this
  · intro i hi
    obtain ⟨ha, hb⟩ := first_copy ((W v : Int) - 1) ((H v : Int) - 1) (by omega) ef i hi
    exact (hpx (8 + i / 5) (1 + i % 5) (by omega) (by omega)).2 _ ha hb

/-! ### reading the first copy back -/

theorem raw_step (c s k j : Nat) (hs : s.testBit j = (c.testBit j && decide (j < k))) :
    (s ||| (if c.testBit k = true then 1 <<< k else 0)).testBit j = (c.testBit j && decide (j < k + 1)) := by
  rw [Nat.testBit_or, hs, testBit_ite_shift]
  by_cases h1 : k = j
  · subst h1
    cases c.testBit k <;> simp
  · cases c.testBit j <;> simp [h1]
    omega

/-- reading the first raw word of a regular image whose first copy holds the 18-bit word c -/
theorem rmqrRead1_first (img : Image) (w h : Nat) (hr : Regular img w h) (hw : 12 ≤ w) (hh : 6 ≤ h)
    (c : Nat) (hc : c < 2 ^ 18)
    (h1 : ∀ i : Nat, i < 18 → px img (8 + i / 5) (1 + i % 5) = c.testBit i) :
    rmqrRead1 img = .ok c := by
  unfold rmqrRead1
  simp only [Std.Legacy.Range.forIn_eq_forIn_range', Std.Legacy.Range.size]
  obtain ⟨s, hs, hP⟩ := Lemmas.Bitmap.forIn_range'_ok (β := Nat)
    (fun i r => do
      let __do_lift ← img.binaryAt (8 + ((i / 5 : Nat) : Int)) (1 + ((i % 5 : Nat) : Int))
      if __do_lift = true then
        let raw := r ||| 1 <<< i
        pure (ForInStep.yield raw)
      else pure (ForInStep.yield r))
    (fun k s => ∀ j, s.testBit j = (c.testBit j && decide (j < k)))
    18 0 0 (by intro j; simp) (by
      intro k s _ hk hPk
      have hk18 : k < 18 := by omega
      rw [binaryAt_spec img w h hr, if_pos (by omega)]
      have e1 : ((8 : Int) + ((k / 5 : Nat) : Int)).toNat = 8 + k / 5 := by omega
      have e2 : ((1 : Int) + ((k % 5 : Nat) : Int)).toNat = 1 + k % 5 := by omega
      rw [e1, e2, h1 k hk18]
      refine ⟨s ||| (if c.testBit k = true then 1 <<< k else 0), ?_, fun j => raw_step c s k j (hPk j)⟩
      cases c.testBit k <;> simp <;> rfl)
  have : s = c := by
    apply Nat.eq_of_testBit_eq
    intro j
    rw [hP j]
    by_cases hj : j < 18
    · simp [hj]
    · have : c.testBit j = false :=
        Nat.testBit_lt_two_pow (Nat.lt_of_lt_of_le hc (Nat.pow_le_pow_right (by decide) (by omega)))
      simp [this]
  subst this
  exact congrArg (fun o => o >>= fun r => (pure r : Out Nat)) hs

end QRV.Lemmas.RR
