import QRV.Lemmas.RRDefs
import QRV.Lemmas.RTTables
import QRV.Lemmas.Pat.RMQR
/-
Table lookups of the rMQR round trip: base / used images of a version and the mask canvas as
regular images; the used image answers `usedFn`.
-/
namespace QRV.Lemmas.RR
open QRV QRV.Lemmas QRV.Model QRV.Model.Bitmap QRV.Model.Sym QRV.Props QRV.Props.C18 QRV.Spec.Patterns
open QRV.Lemmas.RT

set_option maxRecDepth 100000

theorem sizes_ok_all : (List.range 32).all (fun v => decide (27 ≤ W v) && decide (W v ≤ 144) &&
    decide (7 ≤ H v) && decide (H v ≤ 17)) = true := by decide +kernel

theorem sizes_ok (v : Nat) (hv : v < 32) : 27 ≤ W v ∧ W v ≤ 144 ∧ 7 ≤ H v ∧ H v ≤ 17 := by
  have h := forall_lt_of_all sizes_ok_all v hv
  simp only [Bool.and_eq_true, decide_eq_true_eq] at h
  omega

/-- base and used images of a version -/
theorem version_images (v : Nat) (hv : v < 32) :
    imgAt Model.RMQR.baseList (v : Int) = .ok (some (Image.ofGen (baseGen v))) ∧
    imgAt Model.RMQR.usedList (v : Int) = .ok (some (Image.ofGen (usedGen v))) ∧
    Regular (Image.ofGen (baseGen v)) (W v) (H v) ∧
    Regular (Image.ofGen (usedGen v)) (W v) (H v) ∧
    ∀ x y, (Image.ofGen (usedGen v)).binaryAt x y = .ok (usedFn v x y) := by
  obtain ⟨hW27, hW144, hH7, hH17⟩ := sizes_ok v hv
  have hgb := congrArg (·[v]?) Lemmas.Pat.rmqr_geom.1
  have hgu := congrArg (·[v]?) (Lemmas.Pat.rmqr_geom.2.trans Lemmas.Pat.rmqr_geom.1)
  have hrb := congrArg (·[v]?) Lemmas.Pat.rmqr_base
  have hru := congrArg (·[v]?) Lemmas.Pat.rmqr_used
  simp only [List.getElem?_map, List.getElem?_range hv, Option.map_some] at hgb hgu hrb hru
  cases hb : Gen.RMQR.baseList[v]? with
  | none => rw [hb] at hgb; cases hgb
  | some b =>
    cases hu : Gen.RMQR.usedList[v]? with
    | none => rw [hu] at hgu; cases hgu
    | some u =>
      rw [hb] at hgb hrb
      rw [hu] at hgu hru
      simp only [Option.map_some, Option.some.injEq, Prod.mk.injEq] at hgb hgu hrb hru
      obtain ⟨b0, b1, b2, b3, b4⟩ := hgb
      obtain ⟨u0, u1, u2, u3, u4⟩ := hgu
      have hbg : baseGen v = b := by unfold baseGen; rw [hb]; rfl
      have hug : usedGen v = u := by unfold usedGen; rw [hu]; rfl
      have hbl : b.rows.length = H v := by rw [hrb]; exact packRows_length ..
      have hul : u.rows.length = H v := by rw [hru]; exact packRows_length ..
      have hbne : b.rows ≠ [] := by intro h; rw [h] at hbl; simp at hbl; omega
      have hune : u.rows ≠ [] := by intro h; rw [h] at hul; simp at hul; omega
      have hrb' : Regular (Image.ofGen b) (W v) (H v) := ofGen_regular b _ _ b0 b1 b2 b3 b4 hbl
      have hru' : Regular (Image.ofGen u) (W v) (H v) := ofGen_regular u _ _ u0 u1 u2 u3 u4 hul
      rw [hbg, hug]
      refine ⟨imgAt_ofGenList _ v b hb hbne, imgAt_ofGenList _ v u hu hune, hrb', hru', ?_⟩
      intro x y
      rw [binaryAt_spec _ _ _ hru']
      congr 1
      unfold usedFn fnOf
      rw [hug]
      by_cases hc : 0 ≤ x ∧ x < ((W v : Nat) : Int) ∧ 0 ≤ y ∧ y < ((H v : Nat) : Int)
      · rw [if_pos hc, decide_eq_true hc, Bool.true_and, ofGen_px]
        rw [u4]
        show x.toNat < 8 * ((W v + 7) / 8)
        omega
      · rw [if_neg hc, decide_eq_false hc, Bool.false_and]

/-- the mask canvas -/
theorem mask_image : Regular Model.RMQR.precomputedMask 144 17 := by
  unfold Model.RMQR.precomputedMask
  have he := Lemmas.Pat.rmqr_mask
  have hl : Gen.RMQR.precomputedMask.rows.length = 17 := by rw [he]; exact packRows_length ..
  refine ofGen_regular _ 144 17 ?_ ?_ ?_ ?_ ?_ hl <;> rw [he] <;> rfl

/-- inside the symbol the used bitmap's pixel is `usedFn` -/
theorem used_px (v : Nat) (used : Image) (hru : Regular used (W v) (H v))
    (hbin : ∀ x y, used.binaryAt x y = .ok (usedFn v x y)) (x y : Nat) (hx : x < W v) (hy : y < H v) :
    px used x y = usedFn v (x : Int) (y : Int) := by
  have h := hbin (x : Int) (y : Int)
  rw [binaryAt_spec _ _ _ hru, if_pos (by omega)] at h
  simp only [Int.toNat_natCast] at h
  injection h

end QRV.Lemmas.RR
