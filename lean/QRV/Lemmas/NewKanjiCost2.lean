import QRV.Lemmas.NewKanjiCost
import QRV.Lemmas.NewDPGen
/-
C05 (too large), kanji-aware mode selection: from the chain of pieces to the merged segments.

`sc s` is what the programme charges for a whole segment: its (QR version-40) header `108 / 102 / 120 / 96` plus
`20 / 33 / 48 / 78` per character.  The segments that `newKanjiSegs` returns are charged at most `120 + 48 n`
in total (`newKanji_cost`), the charge of the payload as one byte-mode segment.

`total_le`: a measure `bits` of segments which is below the charge by at least `c` for every segment
(`6 * bits s + c ≤ sc s`: the true header is shorter than the charged one by more than the rounding of the
body), and never above the byte-mode length `tB + 8 * bytes`, sums to at most `tB + 8 n` over these segments as
soon as `120 ≤ 6 * tB + 2 * c`: two segments or more save `2 c`, one segment is compared directly.
-/
namespace QRV.Lemmas.NewKanjiCost
open QRV QRV.Model QRV.Model.Sym QRV.Model.New QRV.Model.Codec QRV.Lemmas.NewDP QRV.Lemmas.NewKanjiValid
  QRV.Lemmas.NewDPGen

/-- the charge of the programme for a segment -/
def sc (mN mA mB mK : Nat) (s : Segment) : Nat :=
  if s.mode = mN then 108 + 20 * s.data.length
  else if s.mode = mA then 102 + 33 * s.data.length
  else if s.mode = mB then 120 + 48 * s.data.length
  else if s.mode = mK then 96 + 78 * (Utf8.runes s.data).length
  else 0

variable {mN mA mB mK : Nat}

theorem sc_N (s : Segment) (h : s.mode = mN) : sc mN mA mB mK s = 108 + 20 * s.data.length := by
  unfold sc; rw [if_pos h]

theorem sc_A (hd : Distinct mN mA mB mK) (s : Segment) (h : s.mode = mA) :
    sc mN mA mB mK s = 102 + 33 * s.data.length := by
  unfold sc; rw [if_neg (by rw [h]; exact fun e => hd.na e.symm), if_pos h]

theorem sc_B (hd : Distinct mN mA mB mK) (s : Segment) (h : s.mode = mB) :
    sc mN mA mB mK s = 120 + 48 * s.data.length := by
  unfold sc
  rw [if_neg (by rw [h]; exact fun e => hd.nb e.symm), if_neg (by rw [h]; exact fun e => hd.ab e.symm), if_pos h]

theorem sc_K (hd : Distinct mN mA mB mK) (s : Segment) (h : s.mode = mK) :
    sc mN mA mB mK s = 96 + 78 * (Utf8.runes s.data).length := by
  unfold sc
  rw [if_neg (by rw [h]; exact fun e => hd.nk e.symm), if_neg (by rw [h]; exact fun e => hd.ak e.symm),
    if_neg (by rw [h]; exact fun e => hd.bk e.symm), if_pos h]

theorem slice_one_len (data : Array Nat) (s : Nat) : (sliceK data (some (s, 1))).length ≤ 1 := by
  unfold sliceK
  simp only []
  exact List.length_take_le _ _

theorem runes_kanji (rs : List Nat) (h : ∀ r ∈ rs, isKanji r = true) :
    Utf8.runes (rs.flatMap Utf8.encodeRune) = rs :=
  Lemmas.Dec.runes_flatMap rs (fun r hr => isKanji_runeOK (h r hr))

/-- a kanji character has at least two bytes -/
theorem kanji_bytes (rs : List Nat) (h : ∀ r ∈ rs, isKanji r = true) :
    2 * rs.length ≤ (rs.flatMap Utf8.encodeRune).length := by
  induction rs with
  | nil => simp
  | cons r rs ih =>
    have h2 := (Lemmas.Dec.runeOK_decode r (isKanji_runeOK (h r (List.mem_cons_self ..))) []).2.1
    have := ih (fun x hx => h x (List.mem_cons_of_mem _ hx))
    rw [List.flatMap_cons, List.length_append, List.length_cons]
    omega

/-- the DP mode of a piece is one of 1..4, and its mode number -/
theorem piece_mode (data : Array Nat) (q : Nat × List Nat) (hq : PieceOK data q) : 1 ≤ q.1 ∧ q.1 ≤ 4 := by
  obtain ⟨s, len, _, _, hc⟩ := hq
  rcases hc with ⟨hm, _⟩ | ⟨hm, _⟩ | ⟨hm, _⟩ | ⟨hm, _⟩ <;> omega

theorem mode_inj (hd : Distinct mN mA mB mK) (m m' : Nat) (h1 : 1 ≤ m) (h4 : m ≤ 4) (h1' : 1 ≤ m') (h4' : m' ≤ 4)
    (h : [0, mN, mA, mB, mK][m]?.getD 0 = [0, mN, mA, mB, mK][m']?.getD 0) : m = m' := by
  have hm : m = 1 ∨ m = 2 ∨ m = 3 ∨ m = 4 := by omega
  have hm' : m' = 1 ∨ m' = 2 ∨ m' = 3 ∨ m' = 4 := by omega
  rcases hm with rfl | rfl | rfl | rfl <;> rcases hm' with rfl | rfl | rfl | rfl <;>
    first
    | rfl
    | exact absurd h hd.na | exact absurd h hd.nb | exact absurd h hd.nk | exact absurd h hd.ab
    | exact absurd h hd.ak | exact absurd h hd.bk
    | exact absurd h.symm hd.na | exact absurd h.symm hd.nb | exact absurd h.symm hd.nk | exact absurd h.symm hd.ab
    | exact absurd h.symm hd.ak | exact absurd h.symm hd.bk

/-- a piece as a new segment, and a piece appended to a segment of its mode -/
theorem piece_sc (hd : Distinct mN mA mB mK) (data : Array Nat) (q : Nat × List Nat) (hq : PieceOK data q) :
    sc mN mA mB mK { mode := [0, mN, mA, mB, mK][q.1]?.getD 0, data := q.2 } ≤ Hd q.1 + U q.1 ∧
    ∀ a : Segment, SegOKG mN mA mB mK a → a.mode = [0, mN, mA, mB, mK][q.1]?.getD 0 →
      sc mN mA mB mK { a with data := a.data ++ q.2 } ≤ sc mN mA mB mK a + U q.1 := by
  obtain ⟨s, len, hl, he, hc⟩ := hq
  rcases hc with ⟨hm, hlen, _⟩ | ⟨hm, hlen, _⟩ | ⟨hm, hlen⟩ | ⟨hm, hkc, hlen⟩
  · subst hlen
    have hmode : [0, mN, mA, mB, mK][q.1]?.getD 0 = mN := by rw [hm]; rfl
    have hq1 := slice_one_len data s
    rw [← he] at hq1
    rw [hmode, hm]
    refine ⟨?_, fun a _ ha => ?_⟩
    · rw [sc_N (mN := mN) { mode := mN, data := q.2 } rfl]
      show 108 + 20 * q.2.length ≤ 108 + 20
      omega
    · rw [sc_N _ ha, sc_N _ (show ({ a with data := a.data ++ q.2 } : Segment).mode = mN from ha)]
      show 108 + 20 * (a.data ++ q.2).length ≤ 108 + 20 * a.data.length + 20
      rw [List.length_append]
      omega
  · subst hlen
    have hmode : [0, mN, mA, mB, mK][q.1]?.getD 0 = mA := by rw [hm]; rfl
    have hq1 := slice_one_len data s
    rw [← he] at hq1
    rw [hmode, hm]
    refine ⟨?_, fun a _ ha => ?_⟩
    · rw [sc_A hd { mode := mA, data := q.2 } rfl]
      show 102 + 33 * q.2.length ≤ 102 + 33
      omega
    · rw [sc_A hd _ ha, sc_A hd _ (show ({ a with data := a.data ++ q.2 } : Segment).mode = mA from ha)]
      show 102 + 33 * (a.data ++ q.2).length ≤ 102 + 33 * a.data.length + 33
      rw [List.length_append]
      omega
  · subst hlen
    have hmode : [0, mN, mA, mB, mK][q.1]?.getD 0 = mB := by rw [hm]; rfl
    have hq1 := slice_one_len data s
    rw [← he] at hq1
    rw [hmode, hm]
    refine ⟨?_, fun a _ ha => ?_⟩
    · rw [sc_B hd { mode := mB, data := q.2 } rfl]
      show 120 + 48 * q.2.length ≤ 120 + 48
      omega
    · rw [sc_B hd _ ha, sc_B hd _ (show ({ a with data := a.data ++ q.2 } : Segment).mode = mB from ha)]
      show 120 + 48 * (a.data ++ q.2).length ≤ 120 + 48 * a.data.length + 48
      rw [List.length_append]
      omega
  · subst hlen
    have hmode : [0, mN, mA, mB, mK][q.1]?.getD 0 = mK := by rw [hm]; rfl
    obtain ⟨hpe, hkan⟩ := kanji_piece data s hkc
    rw [hpe] at he
    rw [hmode, hm]
    refine ⟨?_, fun a hsa ha => ?_⟩
    · rw [sc_K hd { mode := mK, data := q.2 } rfl]
      have := runes_kanji [(Utf8.decodeRune (data.toList.drop s)).1] (by simpa using hkan)
      simp only [List.flatMap_cons, List.flatMap_nil, List.append_nil] at this
      show 96 + 78 * (Utf8.runes q.2).length ≤ 96 + 78
      rw [he, this]
      simp
    · obtain ⟨rs, hrs, hall⟩ := hsa.2.2.2 ha
      rw [sc_K hd _ ha, sc_K hd _ (show ({ a with data := a.data ++ q.2 } : Segment).mode = mK from ha)]
      show 96 + 78 * (Utf8.runes (a.data ++ q.2)).length ≤ 96 + 78 * (Utf8.runes a.data).length + 78
      have e1 : a.data ++ q.2 = (rs ++ [(Utf8.decodeRune (data.toList.drop s)).1]).flatMap Utf8.encodeRune := by
        rw [hrs, he]; simp
      rw [e1, runes_kanji _ (by
        intro r hr
        rcases List.mem_append.1 hr with hr | hr
        · exact hall r hr
        · simp only [List.mem_singleton] at hr
          subst hr
          exact hkan), hrs, runes_kanji rs hall, List.length_append]
      simp
      omega

/-- the merged segments of a chain are charged at most the cost of the chain -/
theorem merge_cost (hd : Distinct mN mA mB mK) (data : Array Nat) :
    ∀ rps : List (Nat × List Nat), (∀ q ∈ rps, PieceOK data q) →
      ((mergeSegs [0, mN, mA, mB, mK] rps.reverse).map (sc mN mA mB mK)).sum ≤ dpcR rps ∧
      (∀ q rest, rps = q :: rest → ∃ l a, mergeSegs [0, mN, mA, mB, mK] rps.reverse = l ++ [a] ∧
        a.mode = [0, mN, mA, mB, mK][q.1]?.getD 0) := by
  intro rps
  induction rps with
  | nil => intro _; exact ⟨Nat.le_refl _, fun q rest h => by cases h⟩
  | cons q rest ih =>
    intro hall
    have hq := hall q List.mem_cons_self
    have hrest : ∀ q' ∈ rest, PieceOK data q' := fun q' hq' => hall q' (List.mem_cons_of_mem _ hq')
    obtain ⟨ihs, ihl⟩ := ih hrest
    obtain ⟨hnew, happ⟩ := piece_sc hd data q hq
    have hstep : mergeSegs [0, mN, mA, mB, mK] (q :: rest).reverse =
        mstep [0, mN, mA, mB, mK] (mergeSegs [0, mN, mA, mB, mK] rest.reverse) q := by
      rw [mergeSegs_eq, mergeSegs_eq, List.reverse_cons, List.foldl_append]
      rfl
    -- the segments so far are class-valid
    have hok : ∀ s ∈ mergeSegs [0, mN, mA, mB, mK] rest.reverse, SegOKG mN mA mB mK s := by
      rw [mergeSegs_eq]
      refine foldl_mstep_inv _ (SegOKG mN mA mB mK) rest.reverse
        (fun p hp => (piece_segOKG hd data p (.inr (hrest p (List.mem_reverse.1 hp)))).1)
        (fun p hp => (piece_segOKG hd data p (.inr (hrest p (List.mem_reverse.1 hp)))).2) [] (by simp)
    rw [hstep]
    cases rest with
    | nil =>
      refine ⟨?_, fun q' rest' h => ?_⟩
      · show (List.map (sc mN mA mB mK) (mstep _ [] q)).sum ≤ 0 + U q.1 + (if (0 : Nat) ≠ q.1 then Hd q.1 else 0)
        rw [mstep_nil, if_pos (by have := (piece_mode data q hq).1; omega)]
        simp only [List.map_cons, List.map_nil, List.sum_cons, List.sum_nil]
        omega
      · cases h
        exact ⟨[], _, by rw [show ([] : List (Nat × List Nat)).reverse = [] from rfl]; exact mstep_nil _ _, rfl⟩
    | cons q' rest' =>
      obtain ⟨l, a, hla, hma⟩ := ihl q' rest' rfl
      rw [hla] at ihs hok ⊢
      rw [mstep_concat]
      have hdp : dpcR (q :: q' :: rest') = dpcR (q' :: rest') + U q.1 + (if q'.1 ≠ q.1 then Hd q.1 else 0) := rfl
      rw [hdp]
      have hqm := piece_mode data q hq
      have hqm' := piece_mode data q' (hrest q' List.mem_cons_self)
      by_cases hm : a.mode = [0, mN, mA, mB, mK][q.1]?.getD 0
      · rw [if_pos hm]
        refine ⟨?_, fun q'' rest'' h => ?_⟩
        · have := happ a (hok a (by simp)) hm
          simp only [List.map_append, List.sum_append, List.map_cons, List.map_nil, List.sum_cons, List.sum_nil] at ihs ⊢
          omega
        · cases h
          exact ⟨l, _, rfl, hm⟩
      · rw [if_neg hm]
        have hne : q'.1 ≠ q.1 := by
          intro e
          apply hm
          rw [hma, e]
        rw [if_pos hne]
        refine ⟨?_, fun q'' rest'' h => ?_⟩
        · simp only [List.map_append, List.sum_append, List.map_cons, List.map_nil, List.sum_cons, List.sum_nil] at ihs ⊢
          omega
        · cases h
          exact ⟨l ++ [a], _, rfl, rfl⟩

/-- the segments of the kanji programme are charged at most `120 + 48 n` -/
theorem newKanji_cost (hd : Distinct mN mA mB mK) (data : Array Nat) (hne : data.size ≠ 0) (hsz : data.size < 2 ^ 56)
    (segs : List Segment) (h : newKanjiSegs [0, mN, mA, mB, mK] data = .ok segs) :
    (segs.map (sc mN mA mB mK)).sum ≤ 120 + 48 * data.size := by
  obtain ⟨rps, he, hc, hp⟩ := newKanji_chain _ data hne hsz segs h
  have := (merge_cost hd data rps hp).1
  rw [← he] at this
  omega

/-! ### from the charge to a bit length -/

theorem sum_bits_le (bits cost : Segment → Nat) (c : Nat) : ∀ segs : List Segment,
    (∀ s ∈ segs, 6 * bits s + c ≤ cost s) → 6 * (segs.map bits).sum + c * segs.length ≤ (segs.map cost).sum := by
  intro segs
  induction segs with
  | nil => intro _; simp
  | cons s segs ih =>
    intro h
    have h1 := h s List.mem_cons_self
    have h2 := ih (fun s' hs' => h s' (List.mem_cons_of_mem _ hs'))
    simp only [List.map_cons, List.sum_cons, List.length_cons, Nat.mul_add, Nat.mul_one]
    omega

/-- a measure below the charge by `c` per segment and never above the byte-mode length: the total is at most
the byte-mode length of the whole payload -/
theorem total_le (bits cost : Segment → Nat) (c tB n : Nat) (segs : List Segment)
    (h1 : ∀ s ∈ segs, 6 * bits s + c ≤ cost s) (h2 : ∀ s ∈ segs, bits s ≤ tB + 8 * s.data.length)
    (hcost : (segs.map cost).sum ≤ 120 + 48 * n) (hlen : (segs.flatMap (·.data)).length = n)
    (hc : 120 ≤ 6 * tB + 2 * c) : (segs.map bits).sum ≤ tB + 8 * n := by
  match segs, h1, h2, hcost, hlen with
  | [], _, _, _, _ => simp
  | [s], _, h2, _, hlen =>
    have := h2 s (by simp)
    simp only [List.flatMap_cons, List.flatMap_nil, List.append_nil] at hlen
    simp only [List.map_cons, List.map_nil, List.sum_cons, List.sum_nil]
    omega
  | s1 :: s2 :: rest, h1, _, hcost, _ =>
    have h := sum_bits_le bits cost c _ h1
    have hl : c * 2 ≤ c * (s1 :: s2 :: rest).length := Nat.mul_le_mul_left _ (by simp)
    omega

end QRV.Lemmas.NewKanjiCost
