import QRV.Lemmas.NewOptimal
import QRV.Lemmas.NewOptimalGen
/-
C05 (too large), generic in the header constants: the mode-selection programme `newQRSegs` with the
header costs `p.hN p.hA p.hB` returns a segmentation whose bit length — measured by any function
`bits` that gives a run of `d` characters of DP mode `m` the length `runBits p m d` — is at most
`p.tB + 8 * n`, the length of the payload as one byte segment.  This is `Lemmas/NewOptimal.lean`
(`Tab`, `path_of_fill`, `segs_acc`, `newQR_total_le`) with the constants replaced by the fields of
`p : NewOptimalGen.Par`; the arithmetic is `NewOptimalGen.total_le`.
-/
namespace QRV.Lemmas.NewOptimalGenDP
open QRV QRV.Model QRV.Model.Sym QRV.Model.New QRV.Model.Codec QRV.Lemmas.NewDP
  QRV.Lemmas.NewOptimalGen
open QRV.Lemmas.NewOptimal (rS mdOf back3_link pick3_min numeric_alnum)

structure Tab (p : Par) (data : Array Nat) (i : Nat) (S : Array (Array St)) : Prop where
  r0 : ∀ m, 1 ≤ m → m ≤ 3 → (g3 S 0 m).cost = inf
  t1 : ∀ k m, k < i → 1 ≤ m → m ≤ 3 → classT m data[k]! → ∀ m', m' ≤ 3 →
    rS S (k + 1) m ≤ rS S k m' + U m + (if m' ≠ m then H p m else 0)
  t2 : ∀ k m, k < i → 1 ≤ m → m ≤ 3 → (g3 S (k + 1) m).cost < inf →
    (g3 S (k + 1) m).lastMode ≤ 3 ∧
    (g3 S (k + 1) m).cost = rS S k (g3 S (k + 1) m).lastMode + U m +
      (if (g3 S (k + 1) m).lastMode ≠ m then H p m else 0)

theorem tab_init (p : Par) (data : Array Nat) : Tab p data 0 (init3 data.size) := by
  refine ⟨?_, fun k m hk => by omega, fun k m hk => by omega⟩
  intro m h1 h3
  unfold init3
  rw [g3_modify, if_pos ⟨rfl, by simp⟩]
  simp only [get!_set!, size_set!]
  have : m = 3 ∨ m = 2 ∨ m = 1 := by omega
  rcases this with rfl | rfl | rfl <;> simp

theorem tab_step (p : Par) (data : Array Nat) (i : Nat) (S : Array (Array St)) (hi : i < data.size)
    (hI : Inv3 p.hB data i S) (hT : Tab p data i S) :
    Tab p data (i + 1) (fillStep3 p.hN p.hA p.hB data i S) := by
  obtain ⟨row, hrow, hg⟩ := fillStep3_desc p.hN p.hA p.hB data i S hi hI
  have hold : ∀ k m, k ≤ i → 1 ≤ m → g3 (fillStep3 p.hN p.hA p.hB data i S) k m = g3 S k m := by
    intro k m hk hm
    rw [hg, if_neg (by omega), if_neg (by omega), if_neg (by omega), if_neg (by omega)]
  have hrS : ∀ k m, k ≤ i → rS (fillStep3 p.hN p.hA p.hB data i S) k m = rS S k m := by
    intro k m hk
    unfold rS
    by_cases hm : m = 0
    · rw [if_pos hm, if_pos hm]
    · rw [if_neg hm, if_neg hm, hold k m hk (by omega)]
  have hrow' : ∀ m', (row[m']!).cost = rS S i m' := by
    intro m'
    rw [hrow]
    unfold rS
    by_cases hm : m' = 0
    · subst hm
      by_cases h0 : i = 0
      · subst h0
        rw [if_neg (by omega), if_pos rfl, if_pos rfl]
        exact hI.row0
      · rw [if_pos ⟨rfl, h0⟩, if_pos rfl, if_neg h0]
    · rw [if_neg (by omega), if_neg hm]
  -- the new entries
  have hnew : ∀ m, 1 ≤ m → m ≤ 3 →
      (classT m data[i]! → g3 (fillStep3 p.hN p.hA p.hB data i S) (i + 1) m = trans3 row m (U m) (H p m)) ∧
      ((g3 (fillStep3 p.hN p.hA p.hB data i S) (i + 1) m).cost < inf →
        g3 (fillStep3 p.hN p.hA p.hB data i S) (i + 1) m = trans3 row m (U m) (H p m)) := by
    intro m h1 h3
    have : m = 3 ∨ m = 2 ∨ m = 1 := by omega
    rcases this with rfl | rfl | rfl
    · rw [hg, if_pos ⟨rfl, rfl⟩]
      exact ⟨fun _ => rfl, fun _ => rfl⟩
    · rw [hg, if_neg (by omega), if_pos ⟨rfl, rfl⟩]
      by_cases hal : isAlphanumeric data[i]! = true
      · rw [if_pos hal]; exact ⟨fun _ => rfl, fun _ => rfl⟩
      · rw [if_neg hal]
        exact ⟨fun hc => absurd (hc.2 rfl) hal, fun hc => absurd hc (Nat.lt_irrefl _)⟩
    · rw [hg, if_neg (by omega), if_neg (by omega), if_pos ⟨rfl, rfl⟩]
      by_cases hnu : isNumeric data[i]! = true
      · rw [if_pos hnu]; exact ⟨fun _ => rfl, fun _ => rfl⟩
      · rw [if_neg hnu]
        exact ⟨fun hc => absurd (hc.1 rfl) hnu, fun hc => absurd hc (Nat.lt_irrefl _)⟩
  refine ⟨?_, ?_, ?_⟩
  · intro m h1 h3
    rw [hold 0 m (Nat.zero_le _) h1]; exact hT.r0 m h1 h3
  · intro k m hk h1 h3 hc m' hm'
    by_cases hki : k < i
    · rw [hrS (k + 1) m (by omega), hrS k m' (by omega)]
      exact hT.t1 k m hki h1 h3 hc m' hm'
    · have hk' : k = i := by omega
      subst hk'
      rw [hrS k m' (Nat.le_refl _)]
      have e : rS (fillStep3 p.hN p.hA p.hB data k S) (k + 1) m = (trans3 row m (U m) (H p m)).cost := by
        unfold rS; rw [if_neg (by omega), (hnew m h1 h3).1 hc]
      rw [e, ← hrow']
      exact (trans3_spec row m (U m) (H p m)).2.2 m' hm'
  · intro k m hk h1 h3 hc
    by_cases hki : k < i
    · rw [hold (k + 1) m (by omega) h1] at hc ⊢
      rw [hrS k _ (by omega)]
      exact hT.t2 k m hki h1 h3 hc
    · have hk' : k = i := by omega
      subst hk'
      rw [hrS k _ (Nat.le_refl _)]
      have e := (hnew m h1 h3).2 hc
      rw [e] at hc ⊢
      obtain ⟨hl3, hceq⟩ := (trans3_spec row m (U m) (H p m)).2.1 hc
      refine ⟨hl3, ?_⟩
      rw [← hrow']
      exact hceq

theorem tab_fill (p : Par) (data : Array Nat) :
    Inv3 p.hB data data.size (fill3 p.hN p.hA p.hB data) ∧ Tab p data data.size (fill3 p.hN p.hA p.hB data) := by
  unfold fill3
  exact forIn_id_range (fillM3 p.hN p.hA p.hB data) (fun i S => Inv3 p.hB data i S ∧ Tab p data i S) 0 data.size _
    (Nat.zero_le _) ⟨inv3_init p.hB data, tab_init p data⟩
    (fun k S _ hk hI => ⟨_, fillM3_eq _ _ _ _ _ _, inv3_step p.hN p.hA p.hB data k S hk hI.1,
      tab_step p data k S hk hI.1 hI.2⟩)

/-- the costs along the back-tracked path are finite -/
theorem back3_finite (hB : Nat) (data : Array Nat) (S : Array (Array St)) (bm : Nat) (hne : data.size ≠ 0)
    (hI : Inv3 hB data data.size S) (hbm : 1 ≤ bm ∧ bm ≤ 3) (hc : (g3 S data.size bm).cost < inf) :
    ∀ t, t < data.size → (g3 S (data.size - t) (back3 S data.size bm)[data.size - 1 - t]!).cost < inf := by
  obtain ⟨hlast, hlink⟩ := back3_link S data.size bm (by omega)
  have hspec := back3_spec hB data S bm hne hI hbm hc
  intro t
  induction t with
  | zero => intro _; simp only [Nat.sub_zero]; rw [hlast]; exact hc
  | succ t ih =>
    intro ht
    have h0 := ih (by omega)
    obtain ⟨b1, b3, _⟩ := hspec (data.size - 1 - t) (by omega)
    have hg := (hI.good (data.size - t) _ (by omega) (by omega) b1 b3 h0).2 (by omega)
    have hl := hlink (data.size - 1 - t) (by omega) (by omega)
    rw [show data.size - 1 - t + 1 = data.size - t by omega] at hl
    rw [show data.size - (t + 1) = data.size - t - 1 by omega,
      show data.size - 1 - (t + 1) = data.size - 1 - t - 1 by omega, hl]
    exact hg.2.2

theorem path_of_fill (p : Par) (data : Array Nat) (hne : data.size ≠ 0) (hsz : p.hB + 48 * data.size < inf) :
    Path p data.size (rS (fill3 p.hN p.hA p.hB data))
      (mdOf (back3 (fill3 p.hN p.hA p.hB data) data.size (pick3 (fill3 p.hN p.hA p.hB data)[data.size]!)))
      (fun k => isNumeric data[k]! = true) (fun k => isAlphanumeric data[k]! = true) := by
  obtain ⟨hI, hT⟩ := tab_fill p data
  generalize fill3 p.hN p.hA p.hB data = S at hI hT ⊢
  have hp := pick3_spec S[data.size]!
  have hpm := pick3_min S[data.size]!
  generalize hbm : pick3 S[data.size]! = bm at hp hpm ⊢
  have hb := hI.bytes data.size (by omega) (Nat.le_refl _)
  have hbm13 : 1 ≤ bm ∧ bm ≤ 3 := by omega
  have hc : (g3 S data.size bm).cost < inf := by
    have e3 : (g3 S data.size 3).cost = ((S[data.size]!)[3]!).cost := rfl
    have ep : (g3 S data.size bm).cost = ((S[data.size]!)[bm]!).cost := rfl
    omega
  have hspec := back3_spec p.hB data S bm hne hI hbm13 hc
  have hfin := back3_finite p.hB data S bm hne hI hbm13 hc
  obtain ⟨hlast, hlink⟩ := back3_link S data.size bm (by omega)
  generalize back3 S data.size bm = bs at hspec hfin hlast hlink ⊢
  have hfin' : ∀ k, k < data.size → (g3 S (k + 1) bs[k]!).cost < inf := by
    intro k hk
    have := hfin (data.size - 1 - k) (by omega)
    rwa [show data.size - (data.size - 1 - k) = k + 1 by omega,
      show data.size - 1 - (data.size - 1 - k) = k by omega] at this
  refine ⟨?_, rfl, ?_, (fun k => numeric_alnum data[k]!), ?_, ?_, ?_⟩
  · unfold rS; rw [if_pos rfl, if_pos rfl]
  · intro j h1 hn
    unfold mdOf
    rw [if_neg (by omega)]
    obtain ⟨a, b, _⟩ := hspec (j - 1) (by omega)
    exact ⟨a, b⟩
  · intro k m hk h1 h3 hnum hal m' hm'
    exact hT.t1 k m hk h1 h3 ⟨hnum, hal⟩ m' hm'
  · intro k hk
    obtain ⟨b1, b3, hcl⟩ := hspec k hk
    have hmd1 : mdOf bs (k + 1) = bs[k]! := by unfold mdOf; rw [if_neg (by omega), Nat.add_sub_cancel]
    rw [hmd1]
    obtain ⟨hl3, hceq⟩ := hT.t2 k bs[k]! hk b1 b3 (hfin' k hk)
    have hlm : (g3 S (k + 1) bs[k]!).lastMode = mdOf bs k := by
      unfold mdOf
      by_cases hk0 : k = 0
      · subst hk0
        rw [if_pos rfl]
        apply Nat.eq_zero_of_not_pos
        intro hpos
        have hr : rS S 0 (g3 S (0 + 1) bs[0]!).lastMode = inf := by
          unfold rS
          rw [if_neg (by omega)]
          exact hT.r0 _ hpos hl3
        rw [hr] at hceq
        have := hfin' 0 hk
        omega
      · rw [if_neg hk0]
        exact (hlink k (by omega) hk).symm
    rw [hlm] at hceq
    refine ⟨?_, hcl.1, hcl.2⟩
    unfold rS at hceq ⊢
    rw [if_neg (by omega)]
    exact hceq
  · intro m h1 h3
    have hmdn : mdOf bs data.size = bm := by unfold mdOf; rw [if_neg hne]; exact hlast
    rw [hmdn]
    unfold rS
    rw [if_neg (by omega), if_neg (by omega)]
    exact hpm m h1 h3

/-! ### the merged segments have the bit length of the runs -/

/-- a measure of segments that gives a run of DP mode `m` (mode number `ml[m]`) the length `runBits` -/
structure Meas (p : Par) (ml : List Nat) (bits : Segment → Nat) : Prop where
  inj : ∀ m m', 1 ≤ m → m ≤ 3 → 1 ≤ m' → m' ≤ 3 → ml[m]?.getD 0 = ml[m']?.getD 0 → m = m'
  run : ∀ (a : Segment) m, 1 ≤ m → m ≤ 3 → a.mode = ml[m]?.getD 0 → bits a = runBits p m a.data.length

theorem sum_append (l1 l2 : List Nat) : (l1 ++ l2).sum = l1.sum + l2.sum := List.sum_append

theorem segs_acc (p : Par) (ml : List Nat) (bits : Segment → Nat) (hM : Meas p ml bits) (data bs : Array Nat) (n : Nat)
    (hbs : ∀ j, j < n → 1 ≤ bs[j]! ∧ bs[j]! ≤ 3) :
    ∀ j, 1 ≤ j → j ≤ n → ∃ l a,
      ((List.range j).map fun i => (bs[i]!, [data[i]!])).foldl (mstep ml) [] = l ++ [a] ∧
      a.mode = ml[mdOf bs j]?.getD 0 ∧ a.data.length = (acc p (mdOf bs) j).2 ∧
      (l.map bits).sum = (acc p (mdOf bs) j).1 := by
  have hmd : ∀ j, mdOf bs (j + 1) = bs[j]! := by
    intro j; unfold mdOf; rw [if_neg (by omega), Nat.add_sub_cancel]
  intro j
  induction j with
  | zero => intro h; omega
  | succ j ih =>
    intro _ hjn
    have hb := hbs j (by omega)
    by_cases hj : j = 0
    · subst hj
      refine ⟨[], { mode := ml[bs[0]!]?.getD 0, data := [data[0]!] }, rfl, ?_, ?_, ?_⟩
      · rw [hmd]
      · show 1 = (if mdOf bs (0 + 1) = mdOf bs 0 then _ else _ : Nat × Nat).2
        rw [if_neg (by rw [hmd]; show bs[0]! ≠ 0; omega)]
      · show 0 = (if mdOf bs (0 + 1) = mdOf bs 0 then _ else _ : Nat × Nat).1
        rw [if_neg (by rw [hmd]; show bs[0]! ≠ 0; omega)]
        rfl
    · obtain ⟨l, a, hfold, hmode, hlen, htot⟩ := ih (by omega) (by omega)
      have hbp := hbs (j - 1) (by omega)
      have hmdj : mdOf bs j = bs[j - 1]! := by unfold mdOf; rw [if_neg hj]
      rw [List.range_succ, List.map_append, List.foldl_append, hfold]
      simp only [List.map_cons, List.map_nil, List.foldl_cons, List.foldl_nil]
      rw [mstep_concat]
      have hacc : acc p (mdOf bs) (j + 1) =
          if mdOf bs (j + 1) = mdOf bs j then ((acc p (mdOf bs) j).1, (acc p (mdOf bs) j).2 + 1)
          else ((acc p (mdOf bs) j).1 + runBits p (mdOf bs j) (acc p (mdOf bs) j).2, 1) := rfl
      by_cases heq : mdOf bs (j + 1) = mdOf bs j
      · have hm : a.mode = ml[bs[j]!]?.getD 0 := by
          rw [hmode, heq.symm, hmd]
        rw [if_pos hm, hacc, if_pos heq]
        refine ⟨l, { a with data := a.data ++ [data[j]!] }, rfl, ?_, ?_, htot⟩
        · show a.mode = _
          rw [hmd]; exact hm
        · show (a.data ++ [data[j]!]).length = _
          rw [List.length_append, hlen]; rfl
      · have hm : ¬ a.mode = ml[bs[j]!]?.getD 0 := by
          rw [hmode, hmdj]
          intro h
          have := hM.inj _ _ hbp.1 hbp.2 hb.1 hb.2 h
          exact heq (by rw [hmd, hmdj]; exact this.symm)
        rw [if_neg hm, hacc, if_neg heq]
        refine ⟨l ++ [a], { mode := ml[bs[j]!]?.getD 0, data := [data[j]!] }, rfl, ?_, rfl, ?_⟩
        · rw [hmd]
        · rw [List.map_append, sum_append, htot]
          show _ + _ = _ + _
          simp only [List.map_cons, List.map_nil, List.sum_cons, List.sum_nil, Nat.add_zero]
          rw [hM.run a (mdOf bs j) (by rw [hmdj]; exact hbp.1) (by rw [hmdj]; exact hbp.2) hmode, hlen]

/-- the bit length (as measured by `bits`) of the segmentation that `newQRSegs` chooses is at most the
length of the payload as one byte segment -/
theorem newQR_total_le (p : Par) (hp : p.Ok) (ml : List Nat) (bits : Segment → Nat) (hM : Meas p ml bits)
    (data : Array Nat) (hne : data.size ≠ 0) (hsz : p.hB + 48 * data.size < inf) :
    ((newQRSegs p.hN p.hA p.hB ml data).map bits).sum ≤ p.tB + 8 * data.size := by
  have hP := path_of_fill p data hne hsz
  have htot := total_le hp hP (by omega)
  rw [newQRSegs_eq]
  unfold finish3
  rw [mergeSegs_eq]
  obtain ⟨l, a, hfold, hmode, hlen, hcl⟩ := segs_acc p ml bits hM data
    (back3 (fill3 p.hN p.hA p.hB data) data.size (pick3 (fill3 p.hN p.hA p.hB data)[data.size]!)) data.size
    (fun j hj => by
      have := hP.mdr (j + 1) (by omega) (by omega)
      unfold mdOf at this
      rwa [if_neg (by omega), Nat.add_sub_cancel] at this)
    data.size (by omega) (Nat.le_refl _)
  rw [hfold, List.map_append, sum_append, hcl]
  simp only [List.map_cons, List.map_nil, List.sum_cons, List.sum_nil, Nat.add_zero]
  have hm := hP.mdr data.size (by omega) (Nat.le_refl _)
  rw [hM.run a _ hm.1 hm.2 hmode, hlen]
  unfold total at htot
  omega

end QRV.Lemmas.NewOptimalGenDP
