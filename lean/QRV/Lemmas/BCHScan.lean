import QRV.Lemmas.BCHFinite
import QRV.Model.QR
import QRV.Model.Micro
import QRV.Model.RMQR
/-
The nearest-codeword scan of the three format readers, generically:
* `hamming` is symmetric and satisfies the triangle inequality (position by position);
* the fold `scan` returns the first index of minimum distance and that distance;
* with a table of pairwise distance ≥ 5, a word within 2 of entry `idx` scans to `idx`;
* each model reader is `scan` followed by its result mapping.
-/
namespace QRV.Lemmas.BCH
open QRV QRV.Model QRV.Model.Bitmap QRV.Spec.BCH

/-! ### popcount as a sum of bits; triangle inequality -/

theorem bit_eq (n i : Nat) : (n >>> i) &&& 1 = (n.testBit i).toNat := by
  rw [Nat.and_one_is_mod, Nat.shiftRight_eq_div_pow, Nat.toNat_testBit]

theorem foldl_add_le (f g h : Nat → Nat) (hf : ∀ i, f i ≤ g i + h i) (l : List Nat) :
    ∀ a b c : Nat, a ≤ b + c →
      l.foldl (fun s i => s + f i) a ≤ l.foldl (fun s i => s + g i) b + l.foldl (fun s i => s + h i) c := by
  induction l with
  | nil => intro a b c h; simpa using h
  | cons x xs ih =>
    intro a b c habc
    simp only [List.foldl_cons]
    apply ih
    have := hf x
    omega

theorem xor_bit_le (a b c i : Nat) :
    ((a ^^^ c) >>> i) &&& 1 ≤ (((a ^^^ b) >>> i) &&& 1) + (((b ^^^ c) >>> i) &&& 1) := by
  simp only [bit_eq, Nat.testBit_xor]
  cases a.testBit i <;> cases b.testBit i <;> cases c.testBit i <;> decide

theorem hamming_comm (a b : Nat) : hamming a b = hamming b a := by
  unfold hamming; rw [Nat.xor_comm]

theorem hamming_triangle (a b c : Nat) : hamming a c ≤ hamming a b + hamming b c := by
  unfold hamming popcount
  exact foldl_add_le _ _ _ (fun i => xor_bit_le a b c i) _ 0 0 0 (Nat.le_refl _)

/-! ### the generic first-minimum scan -/

/-- one step of the scan over a distance function `d` -/
def scanStep (d : Nat → Nat) (p : Nat × Nat) (i : Nat) : Nat × Nat :=
  if d i < p.2 then (i, d i) else p

/-- the scan over the first `n` indices -/
def scanN (d : Nat → Nat) (n : Nat) : Nat × Nat :=
  (List.range n).foldl (scanStep d) (0, d 0)

theorem scanN_succ (d : Nat → Nat) (n : Nat) : scanN d (n + 1) = scanStep d (scanN d n) n := by
  simp [scanN, List.range_succ, List.foldl_append]

/-- what the scan returns: the distance at the returned index, a lower bound of all scanned
distances, strictly below every earlier one (first minimum), at an index that was scanned -/
structure ScanInv (d : Nat → Nat) (n : Nat) (p : Nat × Nat) : Prop where
  val : p.2 = d p.1
  le : ∀ j, j < n → p.2 ≤ d j
  first : ∀ j, j < p.1 → p.2 < d j
  idx : p.1 < n ∨ p.1 = 0

theorem scanN_inv (d : Nat → Nat) : ∀ n, ScanInv d n (scanN d n)
  | 0 => ⟨rfl, fun _ h => absurd h (Nat.not_lt_zero _), fun _ h => absurd h (Nat.not_lt_zero _), .inr rfl⟩
  | n + 1 => by
    have ih := scanN_inv d n
    rw [scanN_succ]
    unfold scanStep
    split
    · rename_i hlt
      refine ⟨rfl, ?_, ?_, .inl (Nat.lt_succ_self n)⟩
      · intro j hj
        by_cases hjn : j < n
        · have := ih.le j hjn; simp only; omega
        · have : j = n := by omega
          subst this; exact Nat.le_refl _
      · intro j hj
        have := ih.le j hj
        simp only at hj ⊢; omega
    · rename_i hge
      refine ⟨ih.val, ?_, ih.first, ?_⟩
      · intro j hj
        by_cases hjn : j < n
        · exact ih.le j hjn
        · have : j = n := by omega
          subst this; omega
      · cases ih.idx with
        | inl h => exact .inl (by omega)
        | inr h => exact .inr h

/-- a unique index within 2, all others at ≥ 3: the scan finds it -/
theorem scanN_unique (d : Nat → Nat) (n k : Nat) (hk : k < n) (hdk : d k ≤ 2)
    (hoth : ∀ j, j < n → j ≠ k → 3 ≤ d j) : scanN d n = (k, d k) := by
  have inv := scanN_inv d n
  have h1 := inv.le k hk
  have hidx : (scanN d n).1 < n := by
    cases inv.idx with
    | inl h => exact h
    | inr h => rw [h]; omega
  have hval := inv.val
  have : (scanN d n).1 = k := by
    apply Classical.byContradiction
    intro hne
    have := hoth _ hidx hne
    omega
  rw [this] at hval
  exact Prod.ext this hval

/-! ### the scan over a table -/

/-- distance of `raw` to entry `i`, as the models compute it -/
def dist (tbl : List Nat) (raw i : Nat) : Nat := hamming (tbl[i]?.getD 0) raw

/-- the fold the three readers perform -/
def scan (tbl : List Nat) (raw : Nat) : Nat × Nat := scanN (dist tbl raw) tbl.length

theorem tableOK_dist {tbl : List Nat} {bits : Nat} (h : tableOK tbl bits 5 = true)
    (i j : Nat) (hi : i < tbl.length) (hj : j < tbl.length) (hij : i ≠ j) :
    5 ≤ hamming (tbl[i]?.getD 0) (tbl[j]?.getD 0) := by
  unfold tableOK at h
  rw [Bool.and_eq_true] at h
  have := forall_lt_of_all₂ h.2 i hi j hj
  simp only [Bool.or_eq_true, beq_iff_eq, decide_eq_true_eq] at this
  cases this with
  | inl h => exact absurd h hij
  | inr h => exact h

/-- a word within 2 of entry `idx` of a distance-5 table scans to `idx` -/
theorem scan_nearest {tbl : List Nat} {bits : Nat} (h : tableOK tbl bits 5 = true)
    (raw idx c : Nat) (hc : tbl[idx]? = some c) (hd : hamming raw c ≤ 2) :
    (scan tbl raw).1 = idx ∧ (scan tbl raw).2 ≤ 2 := by
  have hlt : idx < tbl.length := by
    rcases List.getElem?_eq_some_iff.mp hc with ⟨h, _⟩; exact h
  have hdk : dist tbl raw idx ≤ 2 := by
    unfold dist; rw [hc, Option.getD_some, hamming_comm]; exact hd
  have hs : scan tbl raw = (idx, dist tbl raw idx) := by
    apply scanN_unique _ _ _ hlt hdk
    intro j hj hne
    have h5 := tableOK_dist h j idx hj hlt hne
    have htri := hamming_triangle (tbl[j]?.getD 0) raw (tbl[idx]?.getD 0)
    have hsym : hamming raw (tbl[idx]?.getD 0) = dist tbl raw idx := by
      unfold dist; exact hamming_comm _ _
    unfold dist at hdk ⊢
    unfold dist at hsym
    omega
  rw [hs]; exact ⟨rfl, hdk⟩

/-- the scan's minimum is the distance to an entry of the (nonempty) table -/
theorem scan_mem {tbl : List Nat} (hne : 0 < tbl.length) (raw : Nat) :
    ∃ i c, i < tbl.length ∧ tbl[i]? = some c ∧ (scan tbl raw).2 = hamming raw c := by
  have inv := scanN_inv (dist tbl raw) tbl.length
  change ScanInv _ _ (scan tbl raw) at inv
  generalize scan tbl raw = p at inv ⊢
  have hidx : p.1 < tbl.length := by
    cases inv.idx with
    | inl h => exact h
    | inr h => rw [h]; exact hne
  refine ⟨p.1, tbl[p.1], hidx, List.getElem?_eq_getElem hidx, ?_⟩
  rw [inv.val]
  unfold dist
  rw [List.getElem?_eq_getElem hidx, Option.getD_some, hamming_comm]

/-- every entry is at least the scan's minimum away -/
theorem scan_le {tbl : List Nat} (raw c : Nat) (hc : c ∈ tbl) : (scan tbl raw).2 ≤ hamming raw c := by
  rcases List.getElem_of_mem hc with ⟨i, hi, rfl⟩
  have := (scanN_inv (dist tbl raw) tbl.length).le i hi
  unfold dist at this
  rw [List.getElem?_eq_getElem hi, Option.getD_some, hamming_comm] at this
  exact this

theorem scan_reject {tbl : List Nat} (hne : 0 < tbl.length) (raw : Nat)
    (hd : ∀ c ∈ tbl, hamming raw c ≥ 3) : (scan tbl raw).2 ≥ 3 := by
  rcases scan_mem hne raw with ⟨i, c, _, hc, hv⟩
  rw [hv]
  exact hd c (List.mem_of_getElem? hc)

/-- every raw word: some entry within 2, or all at ≥ 3 -/
theorem scan_dichotomy {tbl : List Nat} (hne : 0 < tbl.length) (raw : Nat) :
    (∃ idx c, idx < tbl.length ∧ tbl[idx]? = some c ∧ hamming raw c ≤ 2) ∨
    (∀ c ∈ tbl, hamming raw c ≥ 3) := by
  by_cases h : (scan tbl raw).2 ≤ 2
  · rcases scan_mem hne raw with ⟨i, c, hi, hc, hv⟩
    exact .inl ⟨i, c, hi, hc, by omega⟩
  · refine .inr fun c hc => ?_
    have := scan_le raw c hc
    omega

/-! ### the model readers are the scan -/

/-- any fold whose step agrees with `scanStep` on pairs is the scan (used so that the models'
folds are recognised by small, syntactic `rfl`s and never evaluated on the tables) -/
theorem foldl_scan (F : Nat × Nat → Nat → Nat × Nat) (d : Nat → Nat) (init : Nat × Nat) (n : Nat)
    (hF : ∀ a b i, F (a, b) i = if d i < b then (i, d i) else (a, b)) (hinit : init = (0, d 0)) :
    (List.range n).foldl F init = scanN d n := by
  have : F = scanStep d := by
    funext p i; cases p; exact hF _ _ _
  rw [this, hinit]; rfl

theorem qr_decodeFormat0_eq (raw : Nat) :
    QR.decodeFormat0 raw =
      if (scan Gen.QR.encodedFormat raw).2 ≥ 3 then none
      else some ((((scan Gen.QR.encodedFormat raw).1 >>> 3 : Nat) : Int),
                 (((scan Gen.QR.encodedFormat raw).1 &&& 7 : Nat) : Int)) := by
  unfold QR.decodeFormat0
  generalize Gen.QR.encodedFormat = tbl
  dsimp only
  generalize hF : List.foldl _ _ (List.range tbl.length) = r
  have hr : r = scan tbl raw := by
    rw [← hF]; exact foldl_scan _ (dist tbl raw) _ _ (fun _ _ _ => rfl) rfl
  rw [hr]

theorem micro_decodeFormat_eq (raw : Nat) :
    Micro.decodeFormat raw =
      if (scan Gen.Micro.encodedFormat raw).2 ≥ 3 then .ok none
      else
        match Gen.Micro.rawFormatTable[(scan Gen.Micro.encodedFormat raw).1 >>> 2]? with
        | none => .panic "index out of range"
        | some (v, l) => .ok (some (v, l, (((scan Gen.Micro.encodedFormat raw).1 &&& 3 : Nat) : Int))) := by
  unfold Micro.decodeFormat
  generalize Gen.Micro.encodedFormat = tbl
  dsimp only
  generalize hF : List.foldl _ _ (List.range tbl.length) = r
  have hr : r = scan tbl raw := by
    rw [← hF]; exact foldl_scan _ (dist tbl raw) _ _ (fun _ _ _ => rfl) rfl
  rw [hr]
  rfl

theorem rmqr_decodeFormat0_eq (raw : Nat) :
    RMQR.decodeFormat0 raw =
      if (scan Gen.RMQR.encodedVersion raw).2 ≥ 3 then none
      else some ((((scan Gen.RMQR.encodedVersion raw).1 &&& 0x1f : Nat) : Int),
                 ((((scan Gen.RMQR.encodedVersion raw).1 >>> 5) &&& 1 : Nat) : Int)) := by
  unfold RMQR.decodeFormat0
  generalize Gen.RMQR.encodedVersion = tbl
  dsimp only
  generalize hF : List.foldl _ _ (List.range tbl.length) = r
  have hr : r = scan tbl raw := by
    rw [← hF]; exact foldl_scan _ (dist tbl raw) _ _ (fun _ _ _ => rfl) rfl
  rw [hr]

theorem qr_format_length : Gen.QR.encodedFormat.length = 32 := by
  rw [qr_format_table]; simp
theorem micro_format_length : Gen.Micro.encodedFormat.length = 32 := by
  rw [micro_format_table]; simp
theorem rmqr_version_length : Gen.RMQR.encodedVersion.length = 64 := by
  rw [rmqr_version_table]; simp


/-- the symbol-number lookup of the Micro QR reader cannot fail for a 5-bit table index -/
theorem micro_symbol_lookup (idx : Nat) (hi : idx < 32) (m : Int) :
    ∃ v l, Gen.Micro.rawFormatTable[idx >>> 2]? = some (v, l) ∧
      (match Gen.Micro.rawFormatTable[idx >>> 2]? with
        | none => (.panic "index out of range" : Out (Option (Int × Int × Int)))
        | some (v, l) => .ok (some (v, l, m))) = .ok (some (v, l, m)) := by
  have hk : idx >>> 2 < Gen.Micro.rawFormatTable.length := by
    rw [micro_symbol_numbers.1, Nat.shiftRight_eq_div_pow]
    simp only [List.length_cons, List.length_nil]
    omega
  refine ⟨(Gen.Micro.rawFormatTable[idx >>> 2]).1, (Gen.Micro.rawFormatTable[idx >>> 2]).2,
    List.getElem?_eq_getElem hk, ?_⟩
  rw [List.getElem?_eq_getElem hk]

/-! ### the two-copy logic of `QR.decodeFormat` / `RMQR.decodeFormat` -/

instance : LawfulMonad Out := LawfulMonad.mk'
  (id_map := fun x => by cases x <;> rfl)
  (pure_bind := fun _ _ => rfl)
  (bind_assoc := fun x _ _ => by cases x <;> rfl)

theorem Out.bind_factor {α β γ : Type} (x : Out α) (k : α → Out β) (g : α → γ) (K : γ → Out β)
    (h : ∀ a, k a = K (g a)) : (x >>= k) = ((x >>= fun a => pure (g a)) >>= K) := by
  cases x with
  | ok a => exact h a
  | err m => rfl
  | panic m => rfl

theorem Out.ite_bind {α β : Type} (c : Prop) [Decidable c] (a b : Out α) (k : α → Out β) :
    (ite c a b >>= k) = ite c (a >>= k) (b >>= k) := by
  split <;> rfl

/-- the two-copy logic over a single-copy reader `dec`: decode the first copy; only if it is
rejected, read (`read2` may itself fail) and decode the second; error if both are rejected -/
def twoCopy (dec : Nat → Option (Int × Int)) (msg : String) (raw1 : Nat) (read2 : Out Nat) :
    Out (Int × Int) :=
  match dec raw1 with
  | some r => pure r
  | none => do
    let raw2 ← read2
    match dec raw2 with
    | some r => pure r
    | none => .err msg

theorem twoCopy_first {dec : Nat → Option (Int × Int)} {msg : String} {raw1 : Nat} {r : Int × Int}
    (read2 : Out Nat) (h : dec raw1 = some r) : twoCopy dec msg raw1 read2 = .ok r := by
  unfold twoCopy; rw [h]; rfl

theorem twoCopy_second {dec : Nat → Option (Int × Int)} {msg : String} {raw1 raw2 : Nat} {r : Int × Int}
    (h1 : dec raw1 = none) (h2 : dec raw2 = some r) : twoCopy dec msg raw1 (.ok raw2) = .ok r := by
  unfold twoCopy; rw [h1]; dsimp only; rw [Out.bind_ok, h2]; rfl

theorem twoCopy_none {dec : Nat → Option (Int × Int)} {msg : String} {raw1 raw2 : Nat}
    (h1 : dec raw1 = none) (h2 : dec raw2 = none) : twoCopy dec msg raw1 (.ok raw2) = .err msg := by
  unfold twoCopy; rw [h1]; dsimp only; rw [Out.bind_ok, h2]

/-- a failing read of the second copy is only reached, and then propagated, when the first is rejected -/
theorem twoCopy_read_fails {dec : Nat → Option (Int × Int)} {msg : String} {raw1 : Nat}
    (h1 : dec raw1 = none) (m : String) :
    twoCopy dec msg raw1 (.err m) = .err m ∧ twoCopy dec msg raw1 (.panic m) = .panic m := by
  unfold twoCopy; rw [h1]; exact ⟨rfl, rfl⟩

/-- the two raw format words of a QR image (the reading loop of `QR.decodeFormat`) -/
def qrReadRaws (img : Image) : Out (Nat × Nat) := do
  let w := img.dx - 1
  let mut raw1 : Nat := 0
  let mut raw2 : Nat := 0
  for i in [0:8] do
    let i' : Int := i
    if (← img.binaryAt 8 (QR.skipTimingPattern i')) then raw1 := raw1 ||| (1 <<< i)
    if (← img.binaryAt (QR.skipTimingPattern i') 8) then raw1 := raw1 ||| (1 <<< (14 - i))
    if (← img.binaryAt (w - i') 8) then raw2 := raw2 ||| (1 <<< i)
    if QR.FORMAT2_READS_DARK_MODULE || i < 7 then
      if (← img.binaryAt 8 (w - i')) then raw2 := raw2 ||| (1 <<< (14 - i))
  pure (raw1, raw2)

theorem qr_decodeFormat_factor (img : Image) :
    QR.decodeFormat img =
      qrReadRaws img >>= fun p => twoCopy QR.decodeFormat0 "qrcode: QRCode not found" p.1 (pure p.2) := by
  unfold QR.decodeFormat qrReadRaws
  generalize QR.decodeFormat0 = dec
  exact Out.bind_factor _ _ _ _ (fun _ => rfl)

/-- the first raw word of an rMQR image (before unmasking) -/
def rmqrRead1 (img : Image) : Out Nat := do
  let mut raw : Nat := 0
  for i in [0:18] do
    if (← img.binaryAt (8 + ((i / 5 : Nat) : Int)) (1 + ((i % 5 : Nat) : Int))) then raw := raw ||| (1 <<< i)
  pure raw

/-- the second raw word of an rMQR image (before unmasking) -/
def rmqrRead2 (img : Image) : Out Nat := do
  let w := img.dx - 1
  let h := img.dy - 1
  let mut raw2 : Nat := 0
  for i in [0:15] do
    if (← img.binaryAt (w - 7 + ((i / 5 : Nat) : Int)) (h - 5 + ((i % 5 : Nat) : Int))) then raw2 := raw2 ||| (1 <<< i)
  if (← img.binaryAt (w - 4) (h - 5)) then raw2 := raw2 ||| (1 <<< 15)
  if (← img.binaryAt (w - 3) (h - 5)) then raw2 := raw2 ||| (1 <<< 16)
  if (← img.binaryAt (w - 2) (h - 5)) then raw2 := raw2 ||| (1 <<< 17)
  pure raw2

theorem rmqr_decodeFormat_factor (img : Image) :
    RMQR.decodeFormat img =
      rmqrRead1 img >>= fun raw =>
        twoCopy RMQR.decodeFormat0 "rmqr: rMRQ not found" (raw ^^^ RMQR.fmtMask1)
          (rmqrRead2 img >>= fun raw2 => pure (raw2 ^^^ RMQR.fmtMask2)) := by
  unfold RMQR.decodeFormat rmqrRead1 rmqrRead2 twoCopy
  generalize RMQR.decodeFormat0 = dec
  simp only [bind_assoc, pure_bind, Out.ite_bind]
  refine congrArg _ (funext fun raw => ?_)
  cases dec (raw ^^^ RMQR.fmtMask1) <;> rfl

end QRV.Lemmas.BCH
