import QRV.Lemmas.C03QRLift
import QRV.Lemmas.SymEncode
import QRV.Props.C11Positions
/-
The two copies of the format information, as words:
* both copies of the clean symbol are the code word `Gen.QR.encodedFormat[level * 8 + mask]` (from the conformance of
  the emitted symbol, `SymEncode.symbol_core`, and the first copy exposed by the round trip, `roundtrip_exposed`);
* a regular bitmap whose first copy is within two modules of that code word, or whose first copy is three or more
  modules from every code word while the second is within two, reads as (level, mask) (C11).
-/
open QRV QRV.Model QRV.Model.Bitmap QRV.Model.Sym QRV.Props QRV.Props.C18 QRV.Model.QR QRV.Spec.Valid QRV.Spec.BCH
open QRV.Spec.Symbol.QR QRV.Lemmas.SymFormat
namespace QRV.Lemmas.RT

/-- a word below 2^15 whose bits are the modules at `pos` is the word read there -/
theorem wordAt_eq (f : Nat → Nat → Bool) (pos : Nat → Nat × Nat) (c : Nat) (hc : c < 2 ^ 15)
    (h : ∀ i, i < 15 → f (pos i).1 (pos i).2 = c.testBit i) : C11.wordAt f pos 15 = c := by
  show FmtPos.wordOf (fun i => f (pos i).1 (pos i).2) 15 = c
  apply Nat.eq_of_testBit_eq
  intro j
  rw [FmtPos.testBit_wordOf]
  by_cases hj : j < 15
  · rw [decide_eq_true hj, Bool.true_and, h j hj]
  · rw [decide_eq_false hj, Bool.false_and]
    exact (Nat.testBit_lt_two_pow (Nat.lt_of_lt_of_le hc (Nat.pow_le_pow_right (by decide) (by omega)))).symm

theorem format_lt (idx c : Nat) (hc : Gen.QR.encodedFormat[idx]? = some c) : c < 2 ^ 15 := by
  have h := BCH.qr_format_distance
  unfold BCH.tableOK at h
  rw [Bool.and_eq_true, List.all_eq_true] at h
  have := h.1 c (List.mem_of_getElem? hc)
  simpa using this

theorem fp1_on8 : ∀ i, i < 15 → (fp1 i).1 = 8 ∨ (fp1 i).2 = 8 := by decide

/-- the format modules are function modules, not the dark module, and hold the bit they are listed for -/
theorem fmt_modules (v : Nat) (h1 : 1 ≤ v) (i : Nat) (hi : i < 15) (q : Nat × Nat)
    (hq : q = fp1 i ∨ q = fp2 (17 + 4 * v) i) :
    q.1 < 17 + 4 * v ∧ q.2 < 17 + 4 * v ∧ Spec.Patterns.QR.isFunction v q.1 q.2 = true ∧
      ¬ (q.1 = 8 ∧ q.2 = 17 + 4 * v - 8) ∧ formatBitAt (17 + 4 * v) q.1 q.2 = some i := by
  have hlt := fpos_lt (17 + 4 * v) (by omega) i hi
  have hle := fp1_le i hi
  have h8 := fp1_on8 i hi
  refine ⟨?_, ?_, ?_, ?_, ?_⟩
  · rcases hq with rfl | rfl <;> omega
  · rcases hq with rfl | rfl <;> omega
  · unfold Spec.Patterns.QR.isFunction Spec.Patterns.QR.inFormatArea Spec.Patterns.QR.size
    simp only [Bool.or_eq_true, Bool.and_eq_true, decide_eq_true_eq]
    rcases hq with rfl | rfl
    · rcases h8 with h8 | h8
      · exact Or.inl (Or.inr (Or.inr ⟨h8, Or.inl hle.2⟩))
      · exact Or.inl (Or.inr (Or.inl ⟨h8, Or.inl hle.1⟩))
    · unfold fp2
      split
      · exact Or.inl (Or.inr (Or.inl ⟨rfl, Or.inr (by simp only; omega)⟩))
      · exact Or.inl (Or.inr (Or.inr ⟨rfl, Or.inr (by simp only; omega)⟩))
  · rcases hq with rfl | rfl
    · omega
    · unfold fp2
      split <;> simp only <;> omega
  · unfold formatBitAt
    cases hf : (List.range 15).find? (fun j =>
        (formatPos (17 + 4 * v) j).1 == (q.1, q.2) || (formatPos (17 + 4 * v) j).2 == (q.1, q.2)) with
    | some j =>
      have hj : j < 15 := List.mem_range.1 (List.mem_of_find?_eq_some hf)
      have hp := List.find?_some hf
      simp only [Bool.or_eq_true, beq_iff_eq, formatPos_eq] at hp
      have := fpos_inj (17 + 4 * v) (by omega) j i hj hi q
        (by rcases hp with hp | hp
            · exact Or.inl hp.symm
            · exact Or.inr hp.symm)
        (by rcases hq with hq | hq
            · exact Or.inl hq
            · exact Or.inr (Or.inl hq))
      rw [this]
    | none =>
      exfalso
      rw [List.find?_eq_none] at hf
      have := hf i (List.mem_range.2 hi)
      simp only [Bool.or_eq_true, beq_iff_eq, not_or, formatPos_eq] at this
      rcases hq with hq | hq
      · exact this.1 hq.symm
      · exact this.2 hq.symm

theorem functionModule_fmt (v l m x y i : Nat) (hd : ¬ (x = 8 ∧ y = Spec.Patterns.QR.size v - 8))
    (hfb : formatBitAt (Spec.Patterns.QR.size v) x y = some i) :
    functionModule v l m x y = (bch15 (l * 8 + m) ^^^ qrFormatMask).testBit i := by
  unfold functionModule
  simp only
  rw [if_neg (by simp only [Bool.and_eq_true, decide_eq_true_eq]; exact hd), hfb]

/-- both copies of the format information of the clean symbol are the code word of (level, mask) -/
theorem clean_format_words (v l : Nat) (mask : Int) (segments : List Segment)
    (hv : QR.Valid { version := v, level := l, mask := mask, segments := segments }) (img : Image) (m : Nat)
    (henc : Model.QR.encodeToBitmap { version := v, level := l, mask := mask, segments := segments } = .ok img)
    (hmask : Model.QR.decodeBitmap img = .ok { version := v, level := l, mask := (m : Int), segments := segments }) :
    ∃ c, Gen.QR.encodedFormat[l * 8 + m]? = some c ∧
      C11.wordAt (px img) (fun i => (formatPos (17 + 4 * v) i).1) 15 = c ∧
      C11.wordAt (px img) (fun i => (formatPos (17 + 4 * v) i).2) 15 = c := by
  -- the first copy, from the round trip
  obtain ⟨img4, m0, c, henc0, -, -, hc, hfc4, hdec0, -⟩ := roundtrip_exposed v l mask segments hv
  rw [henc] at henc0
  cases henc0
  rw [hmask] at hdec0
  have hmm : m = m0 := by
    have := congrArg (fun o => match o with | Out.ok (q : QRCode) => q.mask | _ => 0) hdec0
    simp only at this
    omega
  subst hmm
  have hclt := format_lt _ c hc
  have hw1 : C11.wordAt (px img) (fun i => (formatPos (17 + 4 * v) i).1) 15 = c := by
    apply wordAt_eq _ _ c hclt
    intro i hi
    show px img (fp1 i).1 (fp1 i).2 = c.testBit i
    by_cases h7 : i ≤ 7
    · rw [fp1_lo i (by omega)]
      exact (hfc4 i (by omega)).1
    · have e := fp1_hi (14 - i) (by omega)
      have e' : 14 - (14 - i) = i := by omega
      rw [e'] at e
      rw [e]
      have := (hfc4 (14 - i) (by omega)).2
      rw [e'] at this
      exact this
  -- both copies, from the conformance of the emitted symbol
  obtain ⟨img5, m', henc5, hm'8, -, -, hsym⟩ := SymEncode.symbol_core v l mask segments hv
  rw [henc] at henc5
  cases henc5
  obtain ⟨blks, -, -, -, -, hpx⟩ := hsym
  simp only [Int.toNat_natCast, Spec.Patterns.QR.size] at hpx
  obtain ⟨hv1, ⟨-, hl4⟩, -, -, -⟩ := hv
  simp only at hv1 hl4
  have hbit : ∀ i, i < 15 → ∀ q : Nat × Nat, q = fp1 i ∨ q = fp2 (17 + 4 * v) i →
      px img q.1 q.2 = (bch15 (l * 8 + m') ^^^ qrFormatMask).testBit i := by
    intro i hi q hq
    obtain ⟨hx, hy, hF, hd, hfb⟩ := fmt_modules v (by omega) i hi q hq
    rw [hpx q.1 q.2 hx hy, hF, if_pos rfl]
    exact functionModule_fmt v l m' q.1 q.2 i hd hfb
  have hc' := C11.qr_format_is_bch (l * 8 + m') (by omega)
  have hc'lt := format_lt _ _ hc'
  have hq : qrFormatMask = 0x5412 := rfl
  rw [← hq] at hc' hc'lt
  have hw1' : C11.wordAt (px img) (fun i => (formatPos (17 + 4 * v) i).1) 15 = bch15 (l * 8 + m') ^^^ qrFormatMask :=
    wordAt_eq _ _ _ hc'lt (fun i hi => hbit i hi (fp1 i) (Or.inl rfl))
  have hw2' : C11.wordAt (px img) (fun i => (formatPos (17 + 4 * v) i).2) 15 = bch15 (l * 8 + m') ^^^ qrFormatMask :=
    wordAt_eq _ _ _ hc'lt (fun i hi => hbit i hi (fp2 (17 + 4 * v) i) (Or.inr rfl))
  exact ⟨c, hc, hw1, by rw [hw2', ← hw1', hw1]⟩

/-- C11 applied to a bitmap: the format information reads as (level, mask) when the first copy is within two
modules of the code word, or is rejected while the second copy is within two modules -/
theorem decodeFormat_of_words (img' : Image) (n : Nat) (hr : Regular img' n n) (hn : 21 ≤ n)
    (l m c : Nat) (hl : l < 4) (hm : m < 8) (hc : Gen.QR.encodedFormat[l * 8 + m]? = some c)
    (h : hamming (C11.wordAt (px img') (fun i => (formatPos n i).1) 15) c ≤ 2 ∨
      ((∀ c' ∈ Gen.QR.encodedFormat, hamming (C11.wordAt (px img') (fun i => (formatPos n i).1) 15) c' ≥ 3) ∧
        hamming (C11.wordAt (px img') (fun i => (formatPos n i).2) 15) c ≤ 2)) :
    QR.decodeFormat img' = .ok ((l : Int), (m : Int)) := by
  rw [C11.qr_decodeFormat_is_twoCopy, C11.qr_reads_standard_positions img' n hr hn, Out.bind_ok]
  have e1 : (l * 8 + m) >>> 3 = l := by rw [Nat.shiftRight_eq_div_pow]; omega
  have e2 : (l * 8 + m) &&& 7 = m := by
    rw [show (7 : Nat) = 2 ^ 3 - 1 by decide, Nat.and_two_pow_sub_one_eq_mod]; omega
  rcases h with h | ⟨h1, h2⟩
  · rw [C11.qr_first_copy_wins _ _ _ (l * 8 + m) c (by omega) hc h, e1, e2]
  · have := C11.qr_second_copy_fallback "qrcode: QRCode not found" _ _ (l * 8 + m) c (by omega) h1 hc h2
    rw [e1, e2] at this
    exact this

end QRV.Lemmas.RT
