import QRV.Model.QR
import QRV.Model.Micro
import QRV.Model.RMQR
/-
Helper lemmas for C04: `mergeSegs` as a fold with an accumulator modified at its end, loop rules
for `for … in [a:b]` in `Id` and `Out`, the shape and the invariants of the two mode-selection
dynamic programmes.
-/
namespace QRV.Lemmas.NewDP
open QRV QRV.Model QRV.Model.Sym QRV.Model.New QRV.Model.Codec

/-! ### `mergeSegs` -/

/-- the step of the fold in `mergeSegs` -/
def mstep (ml : List Nat) (segs : List Segment) (p : Nat × List Nat) : List Segment :=
  let mode := ml[p.1]?.getD 0
  match segs.getLast? with
  | some last => if last.mode = mode then segs.dropLast ++ [{ last with data := last.data ++ p.2 }]
                 else segs ++ [{ mode, data := p.2 }]
  | none => [{ mode, data := p.2 }]

theorem mergeSegs_eq (ml : List Nat) (ps : List (Nat × List Nat)) :
    mergeSegs ml ps = ps.foldl (mstep ml) [] := rfl

theorem mstep_nil (ml : List Nat) (p : Nat × List Nat) :
    mstep ml [] p = [{ mode := ml[p.1]?.getD 0, data := p.2 }] := rfl

theorem mstep_concat (ml : List Nat) (l : List Segment) (a : Segment) (p : Nat × List Nat) :
    mstep ml (l ++ [a]) p =
      if a.mode = ml[p.1]?.getD 0 then l ++ [{ a with data := a.data ++ p.2 }]
      else l ++ [a] ++ [{ mode := ml[p.1]?.getD 0, data := p.2 }] := by
  simp [mstep]

theorem nil_or_snoc {α} (l : List α) : l = [] ∨ ∃ l' a, l = l' ++ [a] := by
  rcases List.eq_nil_or_concat l with h | ⟨l', a, h⟩
  · exact .inl h
  · exact .inr ⟨l', a, by rw [h, List.concat_eq_append]⟩

theorem mstep_flatMap (ml : List Nat) (acc : List Segment) (p : Nat × List Nat) :
    (mstep ml acc p).flatMap (·.data) = acc.flatMap (·.data) ++ p.2 := by
  rcases nil_or_snoc acc with rfl | ⟨l, a, rfl⟩
  · simp [mstep_nil]
  · rw [mstep_concat]; split <;> simp

theorem foldl_mstep_flatMap (ml : List Nat) (ps : List (Nat × List Nat)) :
    ∀ acc : List Segment,
      (ps.foldl (mstep ml) acc).flatMap (·.data) = acc.flatMap (·.data) ++ ps.flatMap (·.2) := by
  induction ps with
  | nil => intro acc; simp
  | cons p ps ih => intro acc; rw [List.foldl_cons, ih, mstep_flatMap]; simp

/-- a property of segments that survives appending a piece's bytes of the same mode -/
theorem mstep_inv (ml : List Nat) (Q : Segment → Prop) (acc : List Segment) (p : Nat × List Nat)
    (hacc : ∀ s ∈ acc, Q s) (hnew : Q { mode := ml[p.1]?.getD 0, data := p.2 })
    (happ : ∀ s : Segment, Q s → s.mode = ml[p.1]?.getD 0 → Q { s with data := s.data ++ p.2 }) :
    ∀ s ∈ mstep ml acc p, Q s := by
  rcases nil_or_snoc acc with rfl | ⟨l, a, rfl⟩
  · intro s hs; rw [mstep_nil] at hs; simp at hs; subst hs; exact hnew
  · intro s hs
    rw [mstep_concat] at hs
    split at hs
    · rename_i hm
      rcases List.mem_append.1 hs with h | h
      · exact hacc s (List.mem_append_left _ h)
      · simp at h; subst h; exact happ a (hacc a (by simp)) hm
    · rcases List.mem_append.1 hs with h | h
      · exact hacc s h
      · simp at h; subst h; exact hnew

theorem foldl_mstep_inv (ml : List Nat) (Q : Segment → Prop) (ps : List (Nat × List Nat))
    (hnew : ∀ p ∈ ps, Q { mode := ml[p.1]?.getD 0, data := p.2 })
    (happ : ∀ p ∈ ps, ∀ s : Segment, Q s → s.mode = ml[p.1]?.getD 0 → Q { s with data := s.data ++ p.2 }) :
    ∀ acc : List Segment, (∀ s ∈ acc, Q s) → ∀ s ∈ ps.foldl (mstep ml) acc, Q s := by
  induction ps with
  | nil => intro acc h; simpa using h
  | cons p ps ih =>
    intro acc h
    rw [List.foldl_cons]
    exact ih (fun q hq => hnew q (List.mem_cons_of_mem _ hq)) (fun q hq => happ q (List.mem_cons_of_mem _ hq)) _
      (mstep_inv ml Q acc p h (hnew p (by simp)) (happ p (by simp)))

theorem mergeSegs_concat (ml : List Nat) (pieces : List (Nat × List Nat)) :
    (mergeSegs ml pieces).flatMap (·.data) = pieces.flatMap (·.2) := by
  rw [mergeSegs_eq, foldl_mstep_flatMap]; simp

theorem mergeSegs_nonempty (ml : List Nat) (pieces : List (Nat × List Nat)) (h : ∀ p ∈ pieces, p.2 ≠ []) :
    ∀ s ∈ mergeSegs ml pieces, s.data ≠ [] := by
  rw [mergeSegs_eq]
  refine foldl_mstep_inv ml (fun s => s.data ≠ []) pieces (fun p hp => h p hp) ?_ [] (by simp)
  intro p _ s hs _
  simp [hs]

theorem mergeSegs_modes (ml : List Nat) (pieces : List (Nat × List Nat)) (P : Nat → Nat → Prop)
    (h : ∀ p ∈ pieces, ∀ b ∈ p.2, P (ml[p.1]?.getD 0) b) :
    ∀ s ∈ mergeSegs ml pieces, ∀ b ∈ s.data, P s.mode b := by
  rw [mergeSegs_eq]
  refine foldl_mstep_inv ml (fun s => ∀ b ∈ s.data, P s.mode b) pieces (fun p hp => h p hp) ?_ [] (by simp)
  intro p hp s hs hm b hb
  rcases List.mem_append.1 hb with hb | hb
  · exact hs b hb
  · show P s.mode b
    rw [hm]; exact h p hp b hb

/-! ### loop rule for `for … in [lo:hi]` in `Id`, array access -/

theorem forIn_id_range' {β : Type} (f : Nat → β → Id (ForInStep β)) (P : Nat → β → Prop) (n : Nat) :
    ∀ (a : Nat) (init : β), P a init →
      (∀ k b, a ≤ k → k < a + n → P k b → ∃ b', f k b = pure (ForInStep.yield b') ∧ P (k + 1) b') →
      P (a + n) (Id.run (forIn (List.range' a n) init f)) := by
  induction n with
  | zero => intro a init h0 _; exact h0
  | succ n ih =>
    intro a init h0 hstep
    obtain ⟨b', hb', hP⟩ := hstep a init (Nat.le_refl _) (by omega) h0
    have := ih (a + 1) b' hP (fun k b hk hk' hPk => hstep k b (by omega) (by omega) hPk)
    rw [show a + (n + 1) = a + 1 + n by omega]
    rw [List.range'_succ, List.forIn_cons, hb']
    exact this

theorem forIn_id_range {β : Type} (f : Nat → β → Id (ForInStep β)) (P : Nat → β → Prop) (lo hi : Nat)
    (init : β) (hle : lo ≤ hi) (h0 : P lo init)
    (hstep : ∀ k b, lo ≤ k → k < hi → P k b → ∃ b', f k b = pure (ForInStep.yield b') ∧ P (k + 1) b') :
    P hi (Id.run (forIn [lo:hi] init f)) := by
  rw [Std.Legacy.Range.forIn_eq_forIn_range']
  simp only [Std.Legacy.Range.size]
  rw [show (hi - lo + 1 - 1) / 1 = hi - lo by simp]
  have := forIn_id_range' f P (hi - lo) lo init h0 (fun k b h1 h2 => hstep k b h1 (by omega))
  rwa [show lo + (hi - lo) = hi by omega] at this

theorem get!_modify {α} [Inhabited α] (a : Array α) (i j : Nat) (f : α → α) :
    (a.modify i f)[j]! = if i = j ∧ j < a.size then f a[j]! else a[j]! := by
  simp only [getElem!_def, Array.getElem?_modify]
  by_cases h : i = j
  · subst h
    by_cases h2 : i < a.size
    · simp [h2]
    · simp [h2]
  · simp [h]

theorem get!_set! {α} [Inhabited α] (a : Array α) (i j : Nat) (v : α) :
    (a.set! i v)[j]! = if i = j ∧ j < a.size then v else a[j]! := by
  simp only [getElem!_def, Array.set!_eq_setIfInBounds, Array.getElem?_setIfInBounds]
  by_cases h : i = j
  · subst h
    by_cases h2 : i < a.size
    · simp [h2]
    · simp [h2]
  · simp [h]

/-! ### the non-kanji programme `newQRSegs`, restated in pieces -/

def cst (row : Array St) (self unit hdr m : Nat) : Nat :=
  (row[m]!).cost + unit + (if m ≠ self then hdr else 0)

def transM3 (row : Array St) (self unit hdr : Nat) (mode : Nat) (s : Nat × Nat) : Id (ForInStep (Nat × Nat)) :=
  if mode ≠ self then
    (if (row[mode]!).cost + unit + hdr < s.1 then pure (ForInStep.yield ((row[mode]!).cost + unit + hdr, mode))
     else pure (ForInStep.yield (s.1, s.2)))
  else
    (if (row[mode]!).cost + unit < s.1 then pure (ForInStep.yield ((row[mode]!).cost + unit, mode))
     else pure (ForInStep.yield (s.1, s.2)))

/-- `trans` of `newQRSegs` -/
def trans3 (row : Array St) (self unit hdr : Nat) : St :=
  { cost := (Id.run (forIn [0:4] (inf, 0) (transM3 row self unit hdr))).1,
    lastMode := (Id.run (forIn [0:4] (inf, 0) (transM3 row self unit hdr))).2 }

def fillBody3 (hN hA hB : Nat) (data : Array Nat) (i : Nat) (states : Array (Array St)) : Array (Array St) :=
  let row := states[i]!
  let ch := data[i]!
  let sN : St := if isNumeric ch then trans3 row 1 20 hN else { cost := inf, lastMode := 0 }
  let sA : St := if isAlphanumeric ch then trans3 row 2 33 hA else { cost := inf, lastMode := 0 }
  let sB : St := trans3 row 3 48 hB
  states.modify (i + 1) fun r => ((r.set! 1 sN).set! 2 sA).set! 3 sB

def pre3 (i : Nat) (states : Array (Array St)) : Array (Array St) :=
  states.modify i fun r => r.modify 0 fun s => { s with cost := inf }

def fillM3 (hN hA hB : Nat) (data : Array Nat) (i : Nat) (states : Array (Array St)) :
    Id (ForInStep (Array (Array St))) :=
  if i ≠ 0 then pure (ForInStep.yield (fillBody3 hN hA hB data i (pre3 i states)))
  else pure (ForInStep.yield (fillBody3 hN hA hB data i states))

def init3 (n : Nat) : Array (Array St) :=
  (Array.replicate (n + 1) (Array.replicate 4 ({} : St))).modify 0 fun r =>
    ((r.set! 1 { cost := inf }).set! 2 { cost := inf }).set! 3 { cost := inf }

def fill3 (hN hA hB : Nat) (data : Array Nat) : Array (Array St) :=
  Id.run (forIn [0:data.size] (init3 data.size) (fillM3 hN hA hB data))

def backM3 (states : Array (Array St)) (n k : Nat) (s : Nat × Array Nat) : Id (ForInStep (Nat × Array Nat)) :=
  pure (ForInStep.yield ((((states[n - 1 - k + 1]!)[s.1]!).lastMode,
    s.2.set! (n - 1 - k - 1) ((states[n - 1 - k + 1]!)[s.1]!).lastMode)))

def back3 (states : Array (Array St)) (n bm : Nat) : Array Nat :=
  (Id.run (forIn [0:n - 1] (bm, (Array.replicate n 0).set! (n - 1) bm) (backM3 states n))).2

def finish3 (ml : List Nat) (data : Array Nat) (states : Array (Array St)) (bm : Nat) : List Segment :=
  mergeSegs ml ((List.range data.size).map fun i => ((back3 states data.size bm)[i]!, [data[i]!]))

def tail3 (ml : List Nat) (data : Array Nat) (states : Array (Array St)) : List Segment :=
  let last := states[data.size]!
  if (last[2]!).cost < (last[1]!).cost then
    (if (last[3]!).cost < (last[2]!).cost then finish3 ml data states 3 else finish3 ml data states 2)
  else (if (last[3]!).cost < (last[1]!).cost then finish3 ml data states 3 else finish3 ml data states 1)

theorem newQRSegs_eq0 (hN hA hB : Nat) (ml : List Nat) (data : Array Nat) :
    newQRSegs hN hA hB ml data = tail3 ml data (fill3 hN hA hB data) := by
  unfold newQRSegs
  rfl
def pick3 (last : Array St) : Nat :=
  if (last[2]!).cost < (last[1]!).cost then (if (last[3]!).cost < (last[2]!).cost then 3 else 2)
  else (if (last[3]!).cost < (last[1]!).cost then 3 else 1)

theorem tail3_eq (ml : List Nat) (data : Array Nat) (states : Array (Array St)) :
    tail3 ml data states = finish3 ml data states (pick3 states[data.size]!) := by
  unfold tail3 pick3
  simp only []
  split <;> split <;> rfl

theorem pick3_spec (last : Array St) :
    (pick3 last = 1 ∨ pick3 last = 2 ∨ pick3 last = 3) ∧ (last[pick3 last]!).cost ≤ (last[3]!).cost := by
  unfold pick3
  split <;> split <;> simp <;> omega

theorem newQRSegs_eq (hN hA hB : Nat) (ml : List Nat) (data : Array Nat) :
    newQRSegs hN hA hB ml data =
      finish3 ml data (fill3 hN hA hB data) (pick3 (fill3 hN hA hB data)[data.size]!) := by
  rw [newQRSegs_eq0, tail3_eq]

theorem flatMap_single {α β} (f : α → β) (l : List α) : (l.flatMap fun a => [f a]) = l.map f := by
  induction l with
  | nil => rfl
  | cons a l ih => simp [List.flatMap_cons, ih]

theorem range_flatMap_singleton (data : Array Nat) (best : Array Nat) :
    ((List.range data.size).map fun i => (best[i]!, [data[i]!])).flatMap (·.2) = data.toList := by
  rw [List.flatMap_map]
  show ((List.range data.size).flatMap fun a => [data[a]!]) = data.toList
  rw [flatMap_single]
  apply List.ext_getElem
  · simp
  · intro i h1 h2
    simp at h1 h2
    simp [h2]

theorem finish3_concat (ml : List Nat) (data : Array Nat) (states : Array (Array St)) (bm : Nat) :
    (finish3 ml data states bm).flatMap (·.data) = data.toList := by
  unfold finish3
  rw [mergeSegs_concat, range_flatMap_singleton]

theorem finish3_nonempty (ml : List Nat) (data : Array Nat) (states : Array (Array St)) (bm : Nat) :
    ∀ s ∈ finish3 ml data states bm, s.data ≠ [] := by
  unfold finish3
  apply mergeSegs_nonempty
  intro p hp
  simp at hp
  obtain ⟨a, _, rfl⟩ := hp
  simp

theorem newQR_concat' (hN hA hB : Nat) (ml : List Nat) (data : Array Nat) :
    (newQRSegs hN hA hB ml data).flatMap (·.data) = data.toList := by
  rw [newQRSegs_eq, finish3_concat]

theorem newQR_nonempty' (hN hA hB : Nat) (ml : List Nat) (data : Array Nat) :
    ∀ s ∈ newQRSegs hN hA hB ml data, s.data ≠ [] := by
  rw [newQRSegs_eq]; exact finish3_nonempty _ _ _ _

theorem bind_eq_ok {α β} {x : Out α} {f : α → Out β} {b : β} (h : (x >>= f) = .ok b) :
    ∃ a, x = .ok a ∧ f a = .ok b := by
  cases x with
  | ok a => exact ⟨a, rfl, h⟩
  | err m => cases h
  | panic m => cases h

theorem qr_new_preserves_payload (level : Int) (data : List Nat) (q : QRCode)
    (h : Model.QR.new level false data = .ok q) :
    q.segments.flatMap (·.data) = data ∧ q.level = level ∧ ∀ s ∈ q.segments, s.data ≠ [] := by
  unfold Model.QR.new at h
  simp only [] at h
  split at h
  · cases h
  · split at h
    · rename_i he
      cases h
      simp at he
      simp [he]
    · simp only [Bool.false_eq_true, if_false] at h
      obtain ⟨segs, hs, h⟩ := bind_eq_ok h
      cases hs
      obtain ⟨v, hv, h⟩ := bind_eq_ok h
      simp only [false_and, and_false, if_false] at h
      split at h
      · cases h
      · cases h
        exact ⟨by simpa using newQR_concat' _ _ _ _ data.toArray, rfl, newQR_nonempty' _ _ _ _ _⟩
theorem transM3_yield (row : Array St) (self unit hdr mode : Nat) (s : Nat × Nat) :
    transM3 row self unit hdr mode s =
      pure (ForInStep.yield (if cst row self unit hdr mode < s.1 then (cst row self unit hdr mode, mode) else s)) := by
  unfold transM3 cst
  by_cases h : mode ≠ self
  · rw [if_pos h, if_pos h]; split <;> rfl
  · rw [if_neg h, if_neg h, Nat.add_zero]; split <;> rfl

theorem trans3_spec (row : Array St) (self unit hdr : Nat) :
    (trans3 row self unit hdr).cost ≤ inf ∧
    ((trans3 row self unit hdr).cost < inf →
      (trans3 row self unit hdr).lastMode ≤ 3 ∧
      (trans3 row self unit hdr).cost = cst row self unit hdr (trans3 row self unit hdr).lastMode) ∧
    ∀ m, m ≤ 3 → (trans3 row self unit hdr).cost ≤ cst row self unit hdr m := by
  have := forIn_id_range (transM3 row self unit hdr)
      (fun k s => s.1 ≤ inf ∧ (s.1 < inf → s.2 < k ∧ s.1 = cst row self unit hdr s.2) ∧
        ∀ m, m < k → s.1 ≤ cst row self unit hdr m) 0 4 (inf, 0) (by omega)
      ⟨Nat.le_refl _, fun h => absurd h (Nat.lt_irrefl _), fun m hm => absurd hm (Nat.not_lt_zero _)⟩ ?_
  · obtain ⟨h1, h2, h3⟩ := this
    refine ⟨h1, fun h => ?_, fun m hm => h3 m (by omega)⟩
    have := h2 h
    exact ⟨Nat.le_of_lt_succ this.1, this.2⟩
  · intro k s _ hk ⟨h1, h2, h3⟩
    refine ⟨_, transM3_yield _ _ _ _ _ _, ?_⟩
    split
    · rename_i hlt
      refine ⟨by simp only; omega, fun _ => ⟨by simp, rfl⟩, fun m hm => ?_⟩
      by_cases hmk : m = k
      · subst hmk; exact Nat.le_refl _
      · have := h3 m (by omega); simp only; omega
    · rename_i hlt
      refine ⟨h1, fun h => ⟨by have := (h2 h).1; omega, (h2 h).2⟩, fun m hm => ?_⟩
      by_cases hmk : m = k
      · subst hmk; omega
      · exact h3 m (by omega)
/-- entry `m` of row `k` -/
def g3 (S : Array (Array St)) (k m : Nat) : St := (S[k]!)[m]!

/-- the class test of a DP mode index -/
def classT (m ch : Nat) : Prop := (m = 1 → isNumeric ch = true) ∧ (m = 2 → isAlphanumeric ch = true)

theorem size_set! {α} (a : Array α) (i : Nat) (v : α) : (a.set! i v).size = a.size := by
  simp [Array.set!_eq_setIfInBounds]

theorem g3_modify (S : Array (Array St)) (a : Nat) (F : Array St → Array St) (k m : Nat) :
    g3 (S.modify a F) k m = if a = k ∧ k < S.size then (F S[k]!)[m]! else g3 S k m := by
  unfold g3; rw [get!_modify]; split <;> rfl

theorem g3_pre3 (S : Array (Array St)) (i k m : Nat) (hi : i < S.size) (hr : (S[i]!).size = 4) :
    g3 (pre3 i S) k m = if k = i ∧ m = 0 then { g3 S k m with cost := inf } else g3 S k m := by
  unfold pre3
  rw [g3_modify]
  by_cases hk : i = k
  · subst hk
    rw [if_pos ⟨rfl, hi⟩, get!_modify]
    by_cases hm : m = 0
    · subst hm; rw [if_pos ⟨rfl, by omega⟩, if_pos ⟨rfl, rfl⟩]; rfl
    · rw [if_neg (by omega), if_neg (by omega)]; rfl
  · rw [if_neg (by omega), if_neg (by omega)]

theorem g3_body3 (hN hA hB : Nat) (data : Array Nat) (S : Array (Array St)) (i k m : Nat)
    (hi : i + 1 < S.size) (hr : (S[i + 1]!).size = 4) :
    g3 (fillBody3 hN hA hB data i S) k m =
      if k = i + 1 ∧ m = 3 then trans3 S[i]! 3 48 hB
      else if k = i + 1 ∧ m = 2 then (if isAlphanumeric data[i]! then trans3 S[i]! 2 33 hA else { cost := inf, lastMode := 0 })
      else if k = i + 1 ∧ m = 1 then (if isNumeric data[i]! then trans3 S[i]! 1 20 hN else { cost := inf, lastMode := 0 })
      else g3 S k m := by
  unfold fillBody3
  simp only []
  rw [g3_modify]
  by_cases hk : i + 1 = k
  · subst hk
    rw [if_pos ⟨rfl, hi⟩]
    simp only [get!_set!, size_set!, hr, true_and]
    by_cases h3 : m = 3
    · subst h3; simp
    · by_cases h2 : m = 2
      · subst h2; simp
      · by_cases h1 : m = 1
        · subst h1; simp
        · simp only [h1, h2, h3, false_and, if_false, Ne.symm h1, Ne.symm h2, Ne.symm h3]; rfl
  · rw [if_neg (by omega), if_neg (by omega), if_neg (by omega), if_neg (by omega)]

theorem size_pre3 (i : Nat) (S : Array (Array St)) : (pre3 i S).size = S.size := by
  unfold pre3; simp

theorem rows_pre3 (i k : Nat) (S : Array (Array St)) : ((pre3 i S)[k]!).size = (S[k]!).size := by
  unfold pre3; rw [get!_modify]; split
  · simp
  · rfl

theorem size_body3 (hN hA hB : Nat) (data : Array Nat) (i : Nat) (S : Array (Array St)) :
    (fillBody3 hN hA hB data i S).size = S.size := by
  unfold fillBody3; simp

theorem rows_body3 (hN hA hB : Nat) (data : Array Nat) (i k : Nat) (S : Array (Array St)) :
    ((fillBody3 hN hA hB data i S)[k]!).size = (S[k]!).size := by
  unfold fillBody3; simp only []; rw [get!_modify]; split
  · simp only [size_set!]
  · rfl

structure Inv3 (hB : Nat) (data : Array Nat) (i : Nat) (S : Array (Array St)) : Prop where
  size : S.size = data.size + 1
  rows : ∀ k, k ≤ data.size → (S[k]!).size = 4
  row0 : (g3 S 0 0).cost = 0
  zero : ∀ k, 1 ≤ k → k < i → (g3 S k 0).cost = inf
  good : ∀ k m, 1 ≤ k → k ≤ i → 1 ≤ m → m ≤ 3 → (g3 S k m).cost < inf →
    classT m data[k - 1]! ∧ (2 ≤ k → 1 ≤ (g3 S k m).lastMode ∧ (g3 S k m).lastMode ≤ 3 ∧
      (g3 S (k - 1) (g3 S k m).lastMode).cost < inf)
  bytes : ∀ k, 1 ≤ k → k ≤ i → (g3 S k 3).cost ≤ hB + 48 * k

theorem inv3_init (hB : Nat) (data : Array Nat) : Inv3 hB data 0 (init3 data.size) := by
  refine ⟨?_, ?_, ?_, ?_, ?_, ?_⟩
  · unfold init3; simp
  · intro k hk; unfold init3; rw [get!_modify]; split
    · simp only [size_set!]; rw [getElem!_pos _ _ (by simp; omega)]; simp
    · rw [getElem!_pos _ _ (by simp; omega)]; simp
  · unfold init3; rw [g3_modify, if_pos ⟨rfl, by simp⟩]
    simp only [get!_set!]
    simp
  · intro k h1 h2; omega
  · intro k m h1 h2; omega
  · intro k h1 h2; omega

/-- one iteration of the fill loop, as a function -/
def fillStep3 (hN hA hB : Nat) (data : Array Nat) (i : Nat) (S : Array (Array St)) : Array (Array St) :=
  fillBody3 hN hA hB data i (if i ≠ 0 then pre3 i S else S)

theorem fillM3_eq (hN hA hB : Nat) (data : Array Nat) (i : Nat) (S : Array (Array St)) :
    fillM3 hN hA hB data i S = pure (ForInStep.yield (fillStep3 hN hA hB data i S)) := by
  unfold fillM3 fillStep3; split <;> rfl

theorem cst_lt_inf {row : Array St} {self unit hdr m : Nat} (h : cst row self unit hdr m < inf) :
    (row[m]!).cost < inf := by
  unfold cst at h; omega

theorem inv3_step (hN hA hB : Nat) (data : Array Nat) (i : Nat) (S : Array (Array St))
    (hi : i < data.size) (h : Inv3 hB data i S) :
    Inv3 hB data (i + 1) (fillStep3 hN hA hB data i S) := by
  -- the state after the optional `cost := inf` of entry 0
  have hS1 : ∃ S1, (if i ≠ 0 then pre3 i S else S) = S1 ∧ S1.size = data.size + 1 ∧
      (∀ k, k ≤ data.size → (S1[k]!).size = 4) ∧
      (∀ k m, g3 S1 k m = if k = i ∧ m = 0 ∧ i ≠ 0 then { g3 S k m with cost := inf } else g3 S k m) := by
    refine ⟨_, rfl, ?_, ?_, ?_⟩
    · split
      · rw [size_pre3]; exact h.size
      · exact h.size
    · intro k hk; split
      · rw [rows_pre3]; exact h.rows k hk
      · exact h.rows k hk
    · intro k m
      by_cases h0 : i ≠ 0
      · rw [if_pos h0, g3_pre3 _ _ _ _ (by rw [h.size]; omega) (h.rows i (by omega))]
        simp only [h0, not_false_eq_true, and_true, ne_eq]
      · rw [if_neg h0]; simp only [h0, and_false, if_false]
  obtain ⟨S1, hS1e, hsz, hrows, hg⟩ := hS1
  unfold fillStep3
  rw [hS1e]
  have hG := fun k m => g3_body3 hN hA hB data S1 i k m (by rw [hsz]; omega) (hrows (i + 1) (by omega))
  have hrow0 : i ≠ 0 → ((S1[i]!)[0]!).cost = inf := by
    intro h0
    have := hg i 0
    rw [if_pos ⟨rfl, rfl, h0⟩] at this
    show (g3 S1 i 0).cost = inf
    rw [this]
  have hrowm : ∀ m, 1 ≤ m → (S1[i]!)[m]! = g3 S i m := by
    intro m hm
    have := hg i m
    rw [if_neg (by omega)] at this
    exact this
  have hold : ∀ k m, k ≤ i → 1 ≤ m → g3 (fillBody3 hN hA hB data i S1) k m = g3 S k m := by
    intro k m hk hm
    rw [hG, if_neg (by omega), if_neg (by omega), if_neg (by omega), hg, if_neg (by omega)]
  have htr : ∀ self unit hdr, (trans3 S1[i]! self unit hdr).cost < inf → 2 ≤ i + 1 →
      1 ≤ (trans3 S1[i]! self unit hdr).lastMode ∧ (trans3 S1[i]! self unit hdr).lastMode ≤ 3 ∧
      (g3 (fillBody3 hN hA hB data i S1) i (trans3 S1[i]! self unit hdr).lastMode).cost < inf := by
    intro self unit hdr hc h2
    obtain ⟨hl3, hceq⟩ := (trans3_spec S1[i]! self unit hdr).2.1 hc
    have hlt := cst_lt_inf (hceq ▸ hc)
    have h1 : 1 ≤ (trans3 S1[i]! self unit hdr).lastMode := by
      apply Nat.pos_of_ne_zero
      intro h0
      rw [h0, hrow0 (by omega)] at hlt
      exact Nat.lt_irrefl _ hlt
    refine ⟨h1, hl3, ?_⟩
    rw [hold i _ (Nat.le_refl _) h1, ← hrowm _ h1]
    exact hlt
  refine ⟨?_, ?_, ?_, ?_, ?_, ?_⟩
  · rw [size_body3]; exact hsz
  · intro k hk; rw [rows_body3]; exact hrows k hk
  · rw [hG, if_neg (by omega), if_neg (by omega), if_neg (by omega), hg, if_neg (by omega)]; exact h.row0
  · intro k h1 h2
    rw [hG, if_neg (by omega), if_neg (by omega), if_neg (by omega), hg]
    by_cases hk : k = i
    · subst hk; rw [if_pos ⟨rfl, rfl, by omega⟩]
    · rw [if_neg (by omega)]; exact h.zero k h1 (by omega)
  · intro k m h1 h2 hm1 hm3 hc
    by_cases hk : k ≤ i
    · rw [hold k m hk hm1] at hc ⊢
      obtain ⟨hcl, hpred⟩ := h.good k m h1 hk hm1 hm3 hc
      refine ⟨hcl, fun h2k => ?_⟩
      obtain ⟨ha, hb, hc'⟩ := hpred h2k
      rw [hold (k - 1) _ (by omega) ha]
      exact ⟨ha, hb, hc'⟩
    · have hk' : k = i + 1 := by omega
      subst hk'
      rw [Nat.add_sub_cancel]
      have hm : m = 3 ∨ m = 2 ∨ m = 1 := by omega
      rcases hm with rfl | rfl | rfl
      · rw [hG, if_pos ⟨rfl, rfl⟩] at hc ⊢
        exact ⟨⟨by omega, by omega⟩, htr 3 48 hB hc⟩
      · rw [hG, if_neg (by omega), if_pos ⟨rfl, rfl⟩] at hc ⊢
        by_cases hal : isAlphanumeric data[i]! = true
        · rw [if_pos hal] at hc ⊢
          exact ⟨⟨by omega, fun _ => hal⟩, htr 2 33 hA hc⟩
        · rw [if_neg hal] at hc; exact absurd hc (Nat.lt_irrefl _)
      · rw [hG, if_neg (by omega), if_neg (by omega), if_pos ⟨rfl, rfl⟩] at hc ⊢
        by_cases hnu : isNumeric data[i]! = true
        · rw [if_pos hnu] at hc ⊢
          exact ⟨⟨fun _ => hnu, by omega⟩, htr 1 20 hN hc⟩
        · rw [if_neg hnu] at hc; exact absurd hc (Nat.lt_irrefl _)
  · intro k h1 h2
    by_cases hk : k ≤ i
    · rw [hold k 3 hk (by omega)]; exact h.bytes k h1 hk
    · have hk' : k = i + 1 := by omega
      subst hk'
      rw [hG, if_pos ⟨rfl, rfl⟩]
      by_cases h0 : i = 0
      · subst h0
        have := (trans3_spec S1[0]! 3 48 hB).2.2 0 (by omega)
        have e0 : ((S1[0]!)[0]!).cost = 0 := by
          have := hg 0 0; rw [if_neg (by omega)] at this
          show (g3 S1 0 0).cost = 0
          rw [this]; exact h.row0
        unfold cst at this; rw [e0] at this; simp at this; omega
      · have := (trans3_spec S1[i]! 3 48 hB).2.2 3 (by omega)
        unfold cst at this; rw [hrowm 3 (by omega)] at this
        have hb := h.bytes i (by omega) (Nat.le_refl _)
        simp at this; omega
theorem inv3_fill (hN hA hB : Nat) (data : Array Nat) :
    Inv3 hB data data.size (fill3 hN hA hB data) := by
  unfold fill3
  exact forIn_id_range (fillM3 hN hA hB data) (Inv3 hB data) 0 data.size _ (Nat.zero_le _) (inv3_init hB data)
    (fun k S _ hk hI => ⟨_, fillM3_eq _ _ _ _ _ _, inv3_step hN hA hB data k S hk hI⟩)

theorem back3_spec (hB : Nat) (data : Array Nat) (S : Array (Array St)) (bm : Nat)
    (_hne : data.size ≠ 0) (hI : Inv3 hB data data.size S) (hbm : 1 ≤ bm ∧ bm ≤ 3)
    (hc : (g3 S data.size bm).cost < inf) :
    ∀ j, j < data.size → 1 ≤ (back3 S data.size bm)[j]! ∧ (back3 S data.size bm)[j]! ≤ 3 ∧
      classT (back3 S data.size bm)[j]! data[j]! := by
  have := forIn_id_range (backM3 S data.size)
    (fun k s => k ≤ data.size - 1 ∧ s.2.size = data.size ∧ 1 ≤ s.1 ∧ s.1 ≤ 3 ∧ (g3 S (data.size - k) s.1).cost < inf ∧
      ∀ j, data.size - 1 - k ≤ j → j < data.size → 1 ≤ s.2[j]! ∧ s.2[j]! ≤ 3 ∧ classT s.2[j]! data[j]!)
    0 (data.size - 1) (bm, (Array.replicate data.size 0).set! (data.size - 1) bm) (Nat.zero_le _) ?_ ?_
  · obtain ⟨_, _, _, _, _, h⟩ := this
    intro j hj
    exact h j (by omega) hj
  · refine ⟨Nat.zero_le _, by rw [size_set!]; simp, hbm.1, hbm.2, hc, ?_⟩
    intro j h1 h2
    have hj : j = data.size - 1 := by omega
    subst hj
    rw [get!_set!, if_pos ⟨rfl, by simp; omega⟩]
    exact ⟨hbm.1, hbm.2, (hI.good data.size bm (by omega) (Nat.le_refl _) hbm.1 hbm.2 hc).1⟩
  · intro k s _ hk ⟨_, hsz, h1, h3, hcs, hall⟩
    refine ⟨_, rfl, ?_⟩
    have hg := hI.good (data.size - k) s.1 (by omega) (by omega) h1 h3 hcs
    obtain ⟨hl1, hl3, hlc⟩ := hg.2 (by omega)
    have e1 : data.size - 1 - k + 1 = data.size - k := by omega
    simp only [e1]
    refine ⟨by omega, by rw [size_set!]; exact hsz, hl1, hl3, ?_, ?_⟩
    · rw [show data.size - (k + 1) = data.size - k - 1 by omega]; exact hlc
    · intro j hj1 hj2
      rw [get!_set!]
      by_cases hj : data.size - 1 - k - 1 = j
      · rw [if_pos ⟨hj, by omega⟩]
        refine ⟨hl1, hl3, ?_⟩
        have := (hI.good (data.size - k - 1) _ (by omega) (by omega) hl1 hl3 hlc).1
        rw [show data.size - k - 1 - 1 = j by omega] at this
        exact this
      · rw [if_neg (by omega)]
        exact hall j (by omega) hj2

theorem newQR_classes (hN hA hB : Nat) (ml : List Nat) (data : Array Nat) (hne : data.size ≠ 0)
    (hsz : hB + 48 * data.size < inf) :
    ∃ best : Array Nat,
      newQRSegs hN hA hB ml data = mergeSegs ml ((List.range data.size).map fun i => (best[i]!, [data[i]!])) ∧
      ∀ j, j < data.size → 1 ≤ best[j]! ∧ best[j]! ≤ 3 ∧ classT best[j]! data[j]! := by
  refine ⟨_, newQRSegs_eq hN hA hB ml data, ?_⟩
  have hI := inv3_fill hN hA hB data
  have hp := pick3_spec (fill3 hN hA hB data)[data.size]!
  have hb := hI.bytes data.size (by omega) (Nat.le_refl _)
  refine back3_spec hB data _ _ hne hI (by omega) ?_
  have e3 : (g3 (fill3 hN hA hB data) data.size 3).cost = (((fill3 hN hA hB data)[data.size]!)[3]!).cost := rfl
  have ep : (g3 (fill3 hN hA hB data) data.size (pick3 (fill3 hN hA hB data)[data.size]!)).cost =
    (((fill3 hN hA hB data)[data.size]!)[pick3 (fill3 hN hA hB data)[data.size]!]!).cost := rfl
  omega
theorem newQR_valid_QR' (data : Array Nat) (hne : data.size ≠ 0) (hsz : data.size < 2 ^ 56) :
    ∀ s ∈ newQRSegs ((4 + 14) * 6) ((4 + 13) * 6) ((4 + 16) * 6) [0, 1, 2, 4] data,
      (s.mode = 1 ∨ s.mode = 2 ∨ s.mode = 4) ∧
      (s.mode = 1 → ∀ b ∈ s.data, isNumeric b = true) ∧
      (s.mode = 2 → ∀ b ∈ s.data, isAlphanumeric b = true) := by
  obtain ⟨best, heq, hbest⟩ := newQR_classes ((4 + 14) * 6) ((4 + 13) * 6) ((4 + 16) * 6) [0, 1, 2, 4] data hne
    (by unfold inf; omega)
  intro s hs
  have hne' := newQR_nonempty' _ _ _ _ _ s hs
  rw [heq] at hs
  have := mergeSegs_modes [0, 1, 2, 4] _
    (fun mode b => (mode = 1 ∨ mode = 2 ∨ mode = 4) ∧ (mode = 1 → isNumeric b = true) ∧
      (mode = 2 → isAlphanumeric b = true)) ?_ s hs
  · obtain ⟨b, hbm⟩ := List.exists_mem_of_ne_nil _ hne'
    exact ⟨(this b hbm).1, fun h b hb => (this b hb).2.1 h, fun h b hb => (this b hb).2.2 h⟩
  · intro p hp b hb
    simp only [List.mem_map, List.mem_range] at hp
    obtain ⟨j, hj, rfl⟩ := hp
    simp only [List.mem_singleton] at hb
    subst hb
    obtain ⟨h1, h3, hc1, hc2⟩ := hbest j hj
    have : best[j]! = 1 ∨ best[j]! = 2 ∨ best[j]! = 3 := by omega
    rcases this with h | h | h <;> simp only [h] at hc1 hc2 ⊢ <;> simp [hc1, hc2]
/-! ### the kanji programme `newKanjiSegs`, restated in pieces -/

def sliceK (data : Array Nat) (d : Option (Nat × Nat)) : List Nat :=
  match d with
  | none => []
  | some (s, l) => (data.toList.drop s).take l

def dlenK (d : Option (Nat × Nat)) : Nat := match d with | none => 0 | some (_, l) => l

theorem match3_slice (data : Array Nat) (d : Option (Nat × Nat)) :
    newKanjiSegs.match_3 (fun _ => List Nat) d (fun _ => []) (fun s l => List.take l (List.drop s data.toList)) =
      sliceK data d := by
  cases d with
  | none => rfl
  | some p => cases p; rfl

theorem match3_dlen (d : Option (Nat × Nat)) :
    newKanjiSegs.match_3 (fun _ => Nat) d (fun _ => 0) (fun _ l => l) = dlenK d := by
  cases d with
  | none => rfl
  | some p => cases p; rfl

def transMK (row : Array StK) (self unit hdr : Nat) (mode : Nat) (s : Nat × Nat) : Id (ForInStep (Nat × Nat)) :=
  if mode ≠ self then
    (if (row[mode]!).cost + unit + hdr < s.1 then pure (ForInStep.yield ((row[mode]!).cost + unit + hdr, mode))
     else pure (ForInStep.yield (s.1, s.2)))
  else
    (if (row[mode]!).cost + unit < s.1 then pure (ForInStep.yield ((row[mode]!).cost + unit, mode))
     else pure (ForInStep.yield (s.1, s.2)))

def transK (row : Array StK) (self unit hdr : Nat) : Nat × Nat := Id.run do
  let s ← forIn [1:5] ((row[0]!).cost + hdr + unit, 0) (transMK row self unit hdr)
  pure (s.1, s.2)

def preK (i : Nat) (S : Array (Array StK)) : Array (Array StK) :=
  S.modify i fun r => r.modify 0 fun s => { s with cost := inf }

def wipe1 (i : Nat) (S : Array (Array StK)) (j : Nat) : Array (Array StK) :=
  S.modify (i + j) fun r => r.modify 4 fun s => { s with cost := inf }

def mkK (p : Nat × Nat) (d : Option (Nat × Nat)) : StK := { cost := p.1, lastMode := p.2, data := d }

def infK (d : Option (Nat × Nat)) : StK := { cost := inf, lastMode := 0, data := d }

def upd123 (data : Array Nat) (i : Nat) (S : Array (Array StK)) : Array (Array StK) :=
  let row := S[i]!
  let ch := data[i]!
  let sN : StK := if isNumeric ch then mkK (transK row 1 20 ((4 + 14) * 6)) (some (i, 1)) else infK (some (i, 0))
  let sA : StK := if isAlphanumeric ch then mkK (transK row 2 33 ((4 + 13) * 6)) (some (i, 1)) else infK (some (i, 0))
  let sB : StK := mkK (transK row 3 48 ((4 + 16) * 6)) (some (i, 1))
  S.modify (i + 1) fun r => ((r.set! 1 sN).set! 2 sA).set! 3 sB

def bodyMK (data : Array Nat) (i : Nat) (S : Array (Array StK)) : Out (ForInStep (Array (Array StK))) :=
  if (Utf8.decodeRune (data.toList.drop i)).1 ≠ Utf8.runeError ∧ isKanji (Utf8.decodeRune (data.toList.drop i)).1 = true ∧
      i + (Utf8.decodeRune (data.toList.drop i)).2 < data.size + 1 then do
    let S2 ← forIn [0:(Utf8.decodeRune (data.toList.drop i)).2] (upd123 data i S)
      (fun j s => pure (ForInStep.yield (wipe1 i s j)))
    pure (ForInStep.yield (S2.modify (i + (Utf8.decodeRune (data.toList.drop i)).2) fun r =>
      r.set! 4 (mkK (transK S[i]! 4 78 ((4 + 12) * 6)) (some (i, (Utf8.decodeRune (data.toList.drop i)).2)))))
  else if ((((upd123 data i S)[i + 1]!)[4]!).data.isNone) = true then
    pure (ForInStep.yield ((upd123 data i S).modify (i + 1) fun r => r.set! 4 (infK (some (i, 0)))))
  else pure (ForInStep.yield (upd123 data i S))

def fillMK (data : Array Nat) (i : Nat) (S : Array (Array StK)) : Out (ForInStep (Array (Array StK))) :=
  if i ≠ 0 then bodyMK data i (preK i S) else bodyMK data i S

def initK (n : Nat) : Array (Array StK) :=
  (Array.replicate (n + 1) (Array.replicate 5 ({} : StK))).modify 0 fun r =>
    (((r.set! 1 { cost := inf }).set! 2 { cost := inf }).set! 3 { cost := inf }).set! 4 { cost := inf }

def pickMK (last : Array StK) (mode : Nat) (s : Nat × Nat) : Out (ForInStep (Nat × Nat)) :=
  if (last[mode]!).cost < s.1 then pure (ForInStep.yield ((last[mode]!).cost, mode))
  else pure (ForInStep.yield (s.1, s.2))

abbrev BackSt := Nat × Array (Nat × List Nat) × Nat × Bool

def backMK (data : Array Nat) (S : Array (Array StK)) (_x : Nat) (s : BackSt) : Out (ForInStep BackSt) :=
  if (!s.2.2.2) = true then
    if ((S[s.2.2.1]!)[s.1]!).lastMode = 0 then
      pure (ForInStep.yield (((S[s.2.2.1]!)[s.1]!).lastMode, s.2.1, s.2.2.1, true))
    else
      if dlenK ((S[s.2.2.1]!)[s.1]!).data > s.2.2.1 then do
        let _ ← Out.panic (α := Unit) "index out of range"
        pure (ForInStep.yield (((S[s.2.2.1]!)[s.1]!).lastMode,
          s.2.1.push (((S[s.2.2.1]!)[s.1]!).lastMode,
            sliceK data ((S[s.2.2.1 - dlenK ((S[s.2.2.1]!)[s.1]!).data]!)[((S[s.2.2.1]!)[s.1]!).lastMode]!).data),
          s.2.2.1 - dlenK ((S[s.2.2.1]!)[s.1]!).data, s.2.2.2))
      else
        pure (ForInStep.yield (((S[s.2.2.1]!)[s.1]!).lastMode,
          s.2.1.push (((S[s.2.2.1]!)[s.1]!).lastMode,
            sliceK data ((S[s.2.2.1 - dlenK ((S[s.2.2.1]!)[s.1]!).data]!)[((S[s.2.2.1]!)[s.1]!).lastMode]!).data),
          s.2.2.1 - dlenK ((S[s.2.2.1]!)[s.1]!).data, s.2.2.2))
  else pure (ForInStep.yield (s.1, s.2.1, s.2.2.1, s.2.2.2))

def tailK (ml : List Nat) (data : Array Nat) (S : Array (Array StK)) : Out (List Segment) := do
  let p ← forIn [2:5] (((S[data.size]!)[1]!).cost, 1) (pickMK S[data.size]!)
  let r ← forIn [0:2 * data.size + 4]
    ((p.2, #[(p.2, sliceK data ((S[data.size]!)[p.2]!).data)], data.size, false) : BackSt) (backMK data S)
  if (!r.2.2.2) = true then do
    let _ ← Out.panic (α := Unit) "model: back-tracking loop does not terminate"
    pure (mergeSegs ml r.2.1.toList.reverse)
  else pure (mergeSegs ml r.2.1.toList.reverse)

theorem newKanjiSegs_eq (ml : List Nat) (data : Array Nat) :
    newKanjiSegs ml data = (forIn [0:data.size] (initK data.size) (fillMK data) >>= tailK ml data) := by
  unfold newKanjiSegs
  simp only [match3_slice, match3_dlen]
  rfl
/-! ### loops in `Out` -/

theorem forIn_out_pure {α β : Type} (g : α → β → β) : ∀ (l : List α) (init : β),
    forIn l init (fun a s => (pure (ForInStep.yield (g a s)) : Out (ForInStep β))) =
      .ok (l.foldl (fun s a => g a s) init) := by
  intro l
  induction l with
  | nil => intro init; rfl
  | cons a l ih => intro init; rw [List.forIn_cons, List.foldl_cons]; exact ih _

theorem forIn_out_range' {β : Type} (f : Nat → β → Out (ForInStep β)) (P : Nat → β → Prop) (n : Nat) :
    ∀ (a : Nat) (init : β), P a init →
      (∀ k b, a ≤ k → k < a + n → P k b → ∃ b', f k b = .ok (.yield b') ∧ P (k + 1) b') →
      ∃ b, forIn (List.range' a n) init f = .ok b ∧ P (a + n) b := by
  induction n with
  | zero => intro a init h0 _; exact ⟨init, rfl, h0⟩
  | succ n ih =>
    intro a init h0 hstep
    obtain ⟨b', hb', hP⟩ := hstep a init (Nat.le_refl _) (by omega) h0
    obtain ⟨b, hb, hPb⟩ := ih (a + 1) b' hP (fun k b hk hk' hPk => hstep k b (by omega) (by omega) hPk)
    refine ⟨b, ?_, by rw [show a + (n + 1) = a + 1 + n by omega]; exact hPb⟩
    rw [List.range'_succ, List.forIn_cons, hb']
    exact hb

theorem forIn_out_range {β : Type} (f : Nat → β → Out (ForInStep β)) (P : Nat → β → Prop) (lo hi : Nat)
    (init : β) (hle : lo ≤ hi) (h0 : P lo init)
    (hstep : ∀ k b, lo ≤ k → k < hi → P k b → ∃ b', f k b = .ok (.yield b') ∧ P (k + 1) b') :
    ∃ b, forIn [lo:hi] init f = .ok b ∧ P hi b := by
  rw [Std.Legacy.Range.forIn_eq_forIn_range']
  simp only [Std.Legacy.Range.size]
  rw [show (hi - lo + 1 - 1) / 1 = hi - lo by simp]
  have := forIn_out_range' f P (hi - lo) lo init h0 (fun k b h1 h2 => hstep k b h1 (by omega))
  rwa [show lo + (hi - lo) = hi by omega] at this

/-! ### one iteration of the kanji fill loop as a function -/

def stepK2 (data : Array Nat) (i : Nat) (S : Array (Array StK)) : Array (Array StK) :=
  if (Utf8.decodeRune (data.toList.drop i)).1 ≠ Utf8.runeError ∧ isKanji (Utf8.decodeRune (data.toList.drop i)).1 = true ∧
      i + (Utf8.decodeRune (data.toList.drop i)).2 < data.size + 1 then
    ((List.range' 0 (Utf8.decodeRune (data.toList.drop i)).2).foldl (wipe1 i) (upd123 data i S)).modify
      (i + (Utf8.decodeRune (data.toList.drop i)).2) fun r =>
        r.set! 4 (mkK (transK S[i]! 4 78 ((4 + 12) * 6)) (some (i, (Utf8.decodeRune (data.toList.drop i)).2)))
  else if ((((upd123 data i S)[i + 1]!)[4]!).data.isNone) = true then
    (upd123 data i S).modify (i + 1) fun r => r.set! 4 (infK (some (i, 0)))
  else upd123 data i S

def stepK (data : Array Nat) (i : Nat) (S : Array (Array StK)) : Array (Array StK) :=
  stepK2 data i (if i ≠ 0 then preK i S else S)

theorem bodyMK_eq (data : Array Nat) (i : Nat) (S : Array (Array StK)) :
    bodyMK data i S = .ok (.yield (stepK2 data i S)) := by
  unfold bodyMK stepK2
  split
  · rw [Std.Legacy.Range.forIn_eq_forIn_range']
    simp only [Std.Legacy.Range.size]
    rw [show ∀ k : Nat, (k - 0 + 1 - 1) / 1 = k by intro k; simp]
    rw [forIn_out_pure (fun j s => wipe1 i s j)]
    rfl
  · split <;> rfl

theorem fillMK_eq (data : Array Nat) (i : Nat) (S : Array (Array StK)) :
    fillMK data i S = .ok (.yield (stepK data i S)) := by
  unfold fillMK stepK
  split <;> exact bodyMK_eq _ _ _

/-- induction principle for the fill loop -/
theorem fillK_ind (data : Array Nat) (P : Nat → Array (Array StK) → Prop) (h0 : P 0 (initK data.size))
    (hstep : ∀ i S, i < data.size → P i S → P (i + 1) (stepK data i S)) :
    ∃ S, forIn [0:data.size] (initK data.size) (fillMK data) = .ok S ∧ P data.size S :=
  forIn_out_range (fillMK data) P 0 data.size _ (Nat.zero_le _) h0
    (fun k S _ hk hP => ⟨_, fillMK_eq data k S, hstep k S hk hP⟩)
/-- entry `m` of row `k` -/
def gK (S : Array (Array StK)) (k m : Nat) : StK := (S[k]!)[m]!

theorem gK_modify (S : Array (Array StK)) (a : Nat) (F : Array StK → Array StK) (k m : Nat) :
    gK (S.modify a F) k m = if a = k ∧ k < S.size then (F S[k]!)[m]! else gK S k m := by
  unfold gK; rw [get!_modify]; split <;> rfl

/-- a property of every entry, indexed by its row -/
def AllE (W : Nat → StK → Prop) (S : Array (Array StK)) : Prop := ∀ k m, W k (gK S k m)

theorem allE_modify {W : Nat → StK → Prop} {S : Array (Array StK)} (h : AllE W S) (a : Nat)
    (F : Array StK → Array StK) (hF : ∀ r : Array StK, (∀ m : Nat, W a r[m]!) → ∀ m : Nat, W a (F r)[m]!) :
    AllE W (S.modify a F) := by
  intro k m
  rw [gK_modify]
  split
  · rename_i hk
    obtain ⟨rfl, _⟩ := hk
    exact hF _ (fun m => h a m) m
  · exact h k m

theorem row_set {W : Nat → StK → Prop} {a : Nat} {r : Array StK} (h : ∀ m : Nat, W a r[m]!) (b : Nat) {v : StK}
    (hv : W a v) : ∀ m : Nat, W a (r.set! b v)[m]! := by
  intro m; rw [get!_set!]; split
  · exact hv
  · exact h m

theorem row_modify {W : Nat → StK → Prop} {a : Nat} {r : Array StK} (h : ∀ m : Nat, W a r[m]!) (b : Nat)
    {f : StK → StK} (hf : ∀ e, W a e → W a (f e)) : ∀ m : Nat, W a (r.modify b f)[m]! := by
  intro m; rw [get!_modify]; split
  · exact hf _ (h m)
  · exact h m

theorem decodeRune_size_pos (l : List Nat) (h : (Utf8.decodeRune l).1 ≠ Utf8.runeError) :
    1 ≤ (Utf8.decodeRune l).2 := by
  cases l with
  | nil => exact absurd rfl h
  | cons p0 rest =>
    simp only [Utf8.decodeRune]
    repeat' split
    all_goals first | exact Nat.le_refl _ | (simp)

/-- the weak invariant: an entry with a predecessor consumes at least one byte and at most `k` -/
def WK (k : Nat) (e : StK) : Prop := e.lastMode ≠ 0 → 1 ≤ dlenK e.data ∧ dlenK e.data ≤ k

theorem WK_inf (k : Nat) (d : Option (Nat × Nat)) : WK k (infK d) := by
  intro h; simp [infK] at h

theorem WK_cost (k : Nat) (e : StK) (h : WK k e) : WK k { e with cost := inf } := by
  intro hl
  exact h hl

theorem WK_mk (k : Nat) (p : Nat × Nat) (s len : Nat) (h1 : 1 ≤ len) (h2 : len ≤ k) : WK k (mkK p (some (s, len))) :=
  fun _ => ⟨h1, h2⟩

theorem allE_wipe {W : Nat → StK → Prop} (hW : ∀ k e, W k e → W k { e with cost := inf }) (i : Nat) :
    ∀ (l : List Nat) (S : Array (Array StK)), AllE W S → AllE W (l.foldl (wipe1 i) S) := by
  intro l
  induction l with
  | nil => intro S h; exact h
  | cons j l ih =>
    intro S h
    rw [List.foldl_cons]
    exact ih _ (allE_modify h _ _ (fun r hr => row_modify hr 4 (hW _)))

theorem allE_upd123 {W : Nat → StK → Prop} (data : Array Nat) (i : Nat) (S : Array (Array StK)) (h : AllE W S)
    (hmk : ∀ p, W (i + 1) (mkK p (some (i, 1)))) (hinf : W (i + 1) (infK (some (i, 0)))) :
    AllE W (upd123 data i S) := by
  unfold upd123
  refine allE_modify h _ _ (fun r hr => ?_)
  refine row_set (row_set (row_set hr 1 ?_) 2 ?_) 3 (hmk _)
  · split
    · exact hmk _
    · exact hinf
  · split
    · exact hmk _
    · exact hinf

theorem WK_step (data : Array Nat) (i : Nat) (S : Array (Array StK)) (h : AllE WK S) :
    AllE WK (stepK data i S) := by
  unfold stepK
  have h1 : AllE WK (if i ≠ 0 then preK i S else S) := by
    split
    · exact allE_modify h _ _ (fun r hr => row_modify hr 0 (WK_cost _))
    · exact h
  generalize (if i ≠ 0 then preK i S else S) = S1 at h1
  have h2 : AllE WK (upd123 data i S1) :=
    allE_upd123 data i S1 h1 (fun p => WK_mk _ _ _ _ (Nat.le_refl _) (by omega)) (WK_inf _ _)
  unfold stepK2
  split
  · rename_i hc
    refine allE_modify (allE_wipe WK_cost i _ _ h2) _ _ (fun r hr => row_set hr 4 ?_)
    exact WK_mk _ _ _ _ (decodeRune_size_pos _ hc.1) (by omega)
  · split
    · exact allE_modify h2 _ _ (fun r hr => row_set hr 4 (WK_inf _ _))
    · exact h2
theorem gK_init_lastMode (n k m : Nat) : (gK (initK n) k m).lastMode = 0 ∧ (gK (initK n) k m).data = none := by
  have hdef : ∀ (r : Array StK), (∀ m : Nat, (r[m]!).lastMode = 0 ∧ (r[m]!).data = none) →
      ∀ (b : Nat) (c : Nat) (m : Nat), ((r.set! b { cost := c })[m]!).lastMode = 0 ∧ ((r.set! b { cost := c })[m]!).data = none := by
    intro r hr b c m
    rw [get!_set!]; split
    · exact ⟨rfl, rfl⟩
    · exact hr m
  have hrep : ∀ m : Nat, ((Array.replicate 5 ({} : StK))[m]!).lastMode = 0 ∧ ((Array.replicate 5 ({} : StK))[m]!).data = none := by
    intro m
    by_cases hm : m < 5
    · rw [getElem!_pos _ _ (by simpa using hm)]; simp
    · rw [getElem!_neg _ _ (by simpa using hm)]; exact ⟨rfl, rfl⟩
  unfold initK
  rw [gK_modify]
  split
  · rename_i h
    have : (Array.replicate (n + 1) (Array.replicate 5 ({} : StK)))[k]! = Array.replicate 5 ({} : StK) := by
      rw [getElem!_pos _ _ (by simpa using h.2)]; simp
    rw [this]
    exact hdef _ (hdef _ (hdef _ (hdef _ hrep 1 inf) 2 inf) 3 inf) 4 inf m
  · unfold gK
    by_cases hk : k < n + 1
    · have : (Array.replicate (n + 1) (Array.replicate 5 ({} : StK)))[k]! = Array.replicate 5 ({} : StK) := by
        rw [getElem!_pos _ _ (by simpa using hk)]; simp
      rw [this]; exact hrep m
    · have : (Array.replicate (n + 1) (Array.replicate 5 ({} : StK)))[k]! = default :=
        getElem!_neg _ _ (by simpa using hk)
      rw [this]
      have : (default : Array StK)[m]! = default := getElem!_neg _ _ (by show ¬ m < (#[] : Array StK).size; simp)
      rw [this]
      exact ⟨rfl, rfl⟩

theorem WK_init (n : Nat) : AllE WK (initK n) := by
  intro k m h
  exact absurd (gK_init_lastMode n k m).1 h
theorem pick_ok (last : Array StK) (P : Nat → Nat × Nat → Prop) (init : Nat × Nat) (h0 : P 2 init)
    (hstep : ∀ k s, 2 ≤ k → k < 5 → P k s →
      P (k + 1) (if (last[k]!).cost < s.1 then ((last[k]!).cost, k) else s)) :
    ∃ p, forIn [2:5] init (pickMK last) = .ok p ∧ P 5 p := by
  refine forIn_out_range (pickMK last) P 2 5 init (by omega) h0 (fun k s h1 h2 hP => ?_)
  refine ⟨_, ?_, hstep k s h1 h2 hP⟩
  unfold pickMK
  split <;> rfl

theorem tailK_no_panic (ml : List Nat) (data : Array Nat) (S : Array (Array StK)) (hW : AllE WK S) :
    (tailK ml data S).isPanic = false := by
  unfold tailK
  obtain ⟨p, hp, _⟩ := pick_ok S[data.size]! (fun _ _ => True) (((S[data.size]!)[1]!).cost, 1) trivial
    (fun _ _ _ _ _ => trivial)
  rw [hp]
  simp only [Out.bind_ok]
  have hstep : ∀ t (s : BackSt), 0 ≤ t → t < 2 * data.size + 4 →
      (s.2.2.2 = true ∨ s.2.2.1 + t ≤ data.size) →
      ∃ s', backMK data S t s = .ok (.yield s') ∧ (s'.2.2.2 = true ∨ s'.2.2.1 + (t + 1) ≤ data.size) := by
    intro t s _ ht hJ
    unfold backMK
    by_cases hfin : s.2.2.2 = true
    · rw [if_neg (by rw [hfin]; simp)]
      exact ⟨_, rfl, .inl hfin⟩
    · have hfin' : s.2.2.2 = false := by simpa using hfin
      rw [if_pos (by rw [hfin']; rfl)]
      by_cases hl : ((S[s.2.2.1]!)[s.1]!).lastMode = 0
      · rw [if_pos hl]
        exact ⟨_, rfl, .inl rfl⟩
      · rw [if_neg hl]
        have hw := hW s.2.2.1 s.1 hl
        have hi : s.2.2.1 + t ≤ data.size := by
          rcases hJ with h | h
          · exact absurd h hfin
          · exact h
        rw [if_neg (by have := hw.2; show ¬ (dlenK (gK S s.2.2.1 s.1).data > s.2.2.1); omega)]
        refine ⟨_, rfl, .inr ?_⟩
        have h1 := hw.1
        show s.2.2.1 - dlenK (gK S s.2.2.1 s.1).data + (t + 1) ≤ data.size
        omega
  obtain ⟨r, hr, hJ⟩ := forIn_out_range (backMK data S)
    (fun t (s : BackSt) => s.2.2.2 = true ∨ s.2.2.1 + t ≤ data.size) 0 (2 * data.size + 4)
    ((p.2, #[(p.2, sliceK data ((S[data.size]!)[p.2]!).data)], data.size, false) : BackSt) (Nat.zero_le _)
    (.inr (Nat.le_refl _)) hstep
  rw [hr]
  simp only [Out.bind_ok]
  have hfin : r.2.2.2 = true := by
    rcases hJ with h | h
    · exact h
    · omega
  rw [hfin]
  rfl

theorem newKanji_no_panic' (ml : List Nat) (data : Array Nat) : (newKanjiSegs ml data).isPanic = false := by
  rw [newKanjiSegs_eq]
  obtain ⟨S, hS, hW⟩ := fillK_ind data (fun _ S => AllE WK S) (WK_init _) (fun i S _ h => WK_step data i S h)
  rw [hS]
  exact tailK_no_panic ml data S hW
/-- the array has `n + 1` rows of 5 entries -/
def Shape (n : Nat) (S : Array (Array StK)) : Prop := S.size = n + 1 ∧ ∀ k, k ≤ n → (S[k]!).size = 5

theorem shape_modify {n : Nat} {S : Array (Array StK)} (h : Shape n S) (a : Nat) (F : Array StK → Array StK)
    (hF : ∀ r, (F r).size = r.size) : Shape n (S.modify a F) := by
  refine ⟨by rw [Array.size_modify]; exact h.1, fun k hk => ?_⟩
  rw [get!_modify]; split
  · rw [hF]; exact h.2 k hk
  · exact h.2 k hk

theorem size_modify' (r : Array StK) (b : Nat) (f : StK → StK) : (r.modify b f).size = r.size := by simp

/-- update of one entry by a function -/
theorem gK_updE {n : Nat} {S : Array (Array StK)} (h : Shape n S) (a b : Nat) (ha : a ≤ n) (hb : b < 5)
    (f : StK → StK) (k m : Nat) :
    gK (S.modify a fun r => r.modify b f) k m = if k = a ∧ m = b then f (gK S k m) else gK S k m := by
  rw [gK_modify]
  by_cases hk : a = k
  · subst hk
    rw [if_pos ⟨rfl, by rw [h.1]; omega⟩, get!_modify]
    by_cases hm : b = m
    · subst hm; rw [if_pos ⟨rfl, by rw [h.2 a ha]; exact hb⟩, if_pos ⟨rfl, rfl⟩]; rfl
    · rw [if_neg (by omega), if_neg (by omega)]; rfl
  · rw [if_neg (by omega), if_neg (by omega)]

/-- overwrite of one entry -/
theorem gK_setE {n : Nat} {S : Array (Array StK)} (h : Shape n S) (a b : Nat) (ha : a ≤ n) (hb : b < 5)
    (v : StK) (k m : Nat) :
    gK (S.modify a fun r => r.set! b v) k m = if k = a ∧ m = b then v else gK S k m := by
  rw [gK_modify]
  by_cases hk : a = k
  · subst hk
    rw [if_pos ⟨rfl, by rw [h.1]; omega⟩, get!_set!]
    by_cases hm : b = m
    · subst hm; rw [if_pos ⟨rfl, by rw [h.2 a ha]; exact hb⟩, if_pos ⟨rfl, rfl⟩]
    · rw [if_neg (by omega), if_neg (by omega)]; rfl
  · rw [if_neg (by omega), if_neg (by omega)]

def costInf (e : StK) : StK := { e with cost := inf }

theorem shape_preK {n : Nat} {S : Array (Array StK)} (h : Shape n S) (i : Nat) : Shape n (preK i S) :=
  shape_modify h _ _ (fun r => size_modify' r _ _)

theorem gK_preK {n : Nat} {S : Array (Array StK)} (h : Shape n S) (i : Nat) (hi : i ≤ n) (k m : Nat) :
    gK (preK i S) k m = if k = i ∧ m = 0 then costInf (gK S k m) else gK S k m :=
  gK_updE h i 0 hi (by omega) _ k m

theorem shape_wipe {n : Nat} (i : Nat) : ∀ (l : List Nat) {S : Array (Array StK)}, Shape n S →
    Shape n (l.foldl (wipe1 i) S) := by
  intro l
  induction l with
  | nil => intro S h; exact h
  | cons j l ih => intro S h; rw [List.foldl_cons]; exact ih (shape_modify h _ _ (fun r => size_modify' r _ _))

theorem gK_wipe {n : Nat} (i : Nat) : ∀ (sz lo : Nat) {S : Array (Array StK)}, Shape n S → i + lo + sz ≤ n + 1 →
    ∀ k m, gK ((List.range' lo sz).foldl (wipe1 i) S) k m =
      if m = 4 ∧ i + lo ≤ k ∧ k < i + lo + sz then costInf (gK S k m) else gK S k m := by
  intro sz
  induction sz with
  | zero => intro lo S _ _ k m; rw [if_neg (by omega)]; rfl
  | succ sz ih =>
    intro lo S h hle k m
    rw [List.range'_succ, List.foldl_cons]
    have h1 : Shape n (wipe1 i S lo) := shape_modify h _ _ (fun r => size_modify' r _ _)
    rw [ih (lo + 1) h1 (by omega)]
    have hg : ∀ k m, gK (wipe1 i S lo) k m = if k = i + lo ∧ m = 4 then costInf (gK S k m) else gK S k m :=
      fun k m => gK_updE h (i + lo) 4 (by omega) (by omega) _ k m
    rw [hg]
    by_cases c1 : m = 4 ∧ i + (lo + 1) ≤ k ∧ k < i + (lo + 1) + sz
    · rw [if_pos c1, if_neg (c := k = i + lo ∧ m = 4) (by omega),
        if_pos (c := m = 4 ∧ i + lo ≤ k ∧ k < i + lo + (sz + 1)) (by omega)]
    · rw [if_neg c1]
      by_cases c2 : k = i + lo ∧ m = 4
      · rw [if_pos c2, if_pos (c := m = 4 ∧ i + lo ≤ k ∧ k < i + lo + (sz + 1)) (by omega)]
      · rw [if_neg c2, if_neg (c := m = 4 ∧ i + lo ≤ k ∧ k < i + lo + (sz + 1)) (by omega)]
/-- the entries written at row `i + 1` for the modes 1, 2, 3 -/
def new123 (data : Array Nat) (i : Nat) (row : Array StK) (m : Nat) : StK :=
  if m = 3 then mkK (transK row 3 48 ((4 + 16) * 6)) (some (i, 1))
  else if m = 2 then
    (if isAlphanumeric data[i]! then mkK (transK row 2 33 ((4 + 13) * 6)) (some (i, 1)) else infK (some (i, 0)))
  else (if isNumeric data[i]! then mkK (transK row 1 20 ((4 + 14) * 6)) (some (i, 1)) else infK (some (i, 0)))

theorem shape_upd123 {n : Nat} {S : Array (Array StK)} (h : Shape n S) (data : Array Nat) (i : Nat) :
    Shape n (upd123 data i S) := by
  unfold upd123
  exact shape_modify h _ _ (fun r => by simp only [size_set!])

theorem gK_upd123 {n : Nat} {S : Array (Array StK)} (h : Shape n S) (data : Array Nat) (i : Nat) (hi : i + 1 ≤ n)
    (k m : Nat) :
    gK (upd123 data i S) k m = if k = i + 1 ∧ 1 ≤ m ∧ m ≤ 3 then new123 data i S[i]! m else gK S k m := by
  unfold upd123
  simp only []
  rw [gK_modify]
  by_cases hk : i + 1 = k
  · subst hk
    rw [if_pos ⟨rfl, by rw [h.1]; omega⟩]
    simp only [get!_set!, size_set!, h.2 (i + 1) hi]
    unfold new123
    by_cases h3 : m = 3
    · subst h3; simp
    · by_cases h2 : m = 2
      · subst h2; simp
      · by_cases h1 : m = 1
        · subst h1; simp
        · have : ¬ (1 ≤ m ∧ m ≤ 3) := by omega
          simp only [h2, h3, false_and, if_false, Ne.symm h1, Ne.symm h2, Ne.symm h3, this, and_false]; rfl
  · rw [if_neg (by omega), if_neg (by omega)]

/-- the condition of the kanji branch -/
def kanC (data : Array Nat) (i : Nat) : Prop :=
  (Utf8.decodeRune (data.toList.drop i)).1 ≠ Utf8.runeError ∧ isKanji (Utf8.decodeRune (data.toList.drop i)).1 = true ∧
    i + (Utf8.decodeRune (data.toList.drop i)).2 < data.size + 1

instance (data : Array Nat) (i : Nat) : Decidable (kanC data i) := by unfold kanC; infer_instance

/-- the size of the character at `i` -/
def rsz (data : Array Nat) (i : Nat) : Nat := (Utf8.decodeRune (data.toList.drop i)).2

theorem gK_stepK2 {S : Array (Array StK)} (data : Array Nat) (h : Shape data.size S) (i : Nat) (hi : i < data.size) :
    Shape data.size (stepK2 data i S) ∧ ∀ k m, gK (stepK2 data i S) k m =
      if kanC data i then
        (if k = i + rsz data i ∧ m = 4 then mkK (transK S[i]! 4 78 ((4 + 12) * 6)) (some (i, rsz data i))
         else if m = 4 ∧ i ≤ k ∧ k < i + rsz data i then costInf (gK (upd123 data i S) k m)
         else gK (upd123 data i S) k m)
      else if k = i + 1 ∧ m = 4 ∧ (gK (upd123 data i S) (i + 1) 4).data.isNone = true then infK (some (i, 0))
      else gK (upd123 data i S) k m := by
  have hU := shape_upd123 h data i
  unfold stepK2
  by_cases hc : kanC data i
  · have hc' := hc
    unfold kanC at hc'
    rw [if_pos hc']
    have hW := shape_wipe (n := data.size) i (List.range' 0 (Utf8.decodeRune (data.toList.drop i)).2) hU
    refine ⟨shape_modify hW _ _ (fun r => size_set! _ _ _), fun k m => ?_⟩
    rw [if_pos hc, gK_setE hW _ 4 (by omega) (by omega)]
    show (if k = i + rsz data i ∧ m = 4 then _ else _) = _
    by_cases h1 : k = i + rsz data i ∧ m = 4
    · rw [if_pos h1, if_pos h1]; rfl
    · rw [if_neg h1, if_neg h1, gK_wipe i _ 0 hU (by omega)]
      rfl
  · have hc' := hc
    unfold kanC at hc'
    rw [if_neg hc']
    by_cases hnone : (gK (upd123 data i S) (i + 1) 4).data.isNone = true
    · rw [if_pos (by exact hnone)]
      refine ⟨shape_modify hU _ _ (fun r => size_set! _ _ _), fun k m => ?_⟩
      rw [if_neg hc, gK_setE hU _ 4 (by omega) (by omega)]
      by_cases h1 : k = i + 1 ∧ m = 4
      · rw [if_pos h1, if_pos ⟨h1.1, h1.2, hnone⟩]
      · rw [if_neg h1, if_neg (by intro hh; exact h1 ⟨hh.1, hh.2.1⟩)]
    · rw [if_neg (by exact hnone)]
      refine ⟨hU, fun k m => ?_⟩
      rw [if_neg hc, if_neg (by intro hh; exact hnone hh.2.2)]
def cstK (row : Array StK) (self unit hdr m : Nat) : Nat :=
  (row[m]!).cost + unit + (if m ≠ self then hdr else 0)

theorem transMK_yield (row : Array StK) (self unit hdr mode : Nat) (s : Nat × Nat) :
    transMK row self unit hdr mode s =
      pure (ForInStep.yield (if cstK row self unit hdr mode < s.1 then (cstK row self unit hdr mode, mode) else s)) := by
  unfold transMK cstK
  by_cases h : mode ≠ self
  · rw [if_pos h, if_pos h]; split <;> rfl
  · rw [if_neg h, if_neg h, Nat.add_zero]; split <;> rfl

theorem transK_spec (row : Array StK) (self unit hdr : Nat) :
    (transK row self unit hdr).2 ≤ 4 ∧
    ((transK row self unit hdr).2 = 0 → (transK row self unit hdr).1 = (row[0]!).cost + hdr + unit) ∧
    ((transK row self unit hdr).2 ≠ 0 →
      (transK row self unit hdr).1 = cstK row self unit hdr (transK row self unit hdr).2) ∧
    (∀ m, 1 ≤ m → m ≤ 4 → (transK row self unit hdr).1 ≤ cstK row self unit hdr m) ∧
    (transK row self unit hdr).1 ≤ (row[0]!).cost + hdr + unit := by
  have := forIn_id_range (transMK row self unit hdr)
      (fun k s => s.2 < k ∧ (s.2 = 0 → s.1 = (row[0]!).cost + hdr + unit) ∧
        (s.2 ≠ 0 → s.1 = cstK row self unit hdr s.2) ∧
        (∀ m, 1 ≤ m → m < k → s.1 ≤ cstK row self unit hdr m) ∧ s.1 ≤ (row[0]!).cost + hdr + unit)
      1 5 ((row[0]!).cost + hdr + unit, 0) (by omega)
      ⟨by simp, fun _ => rfl, fun h => absurd rfl h, fun m h1 h2 => by omega, Nat.le_refl _⟩ ?_
  · obtain ⟨h1, h2, h3, h4, h5⟩ := this
    exact ⟨Nat.le_of_lt_succ h1, h2, h3, fun m hm1 hm4 => h4 m hm1 (by omega), h5⟩
  · intro k s hk1 hk ⟨h1, h2, h3, h4, h5⟩
    refine ⟨_, transMK_yield _ _ _ _ _ _, ?_⟩
    split
    · rename_i hlt
      refine ⟨by simp, fun h => by simp at h; omega, fun _ => rfl, fun m hm1 hm => ?_, by simp only; omega⟩
      by_cases hmk : m = k
      · subst hmk; exact Nat.le_refl _
      · have := h4 m hm1 (by omega); simp only; omega
    · rename_i hlt
      refine ⟨by omega, h2, h3, fun m hm1 hm => ?_, h5⟩
      by_cases hmk : m = k
      · subst hmk; omega
      · exact h4 m hm1 (by omega)
/-- `e'` is `e` up to an overwrite of the cost with `inf` -/
def Same (e' e : StK) : Prop := e'.lastMode = e.lastMode ∧ e'.data = e.data ∧ (e'.cost = e.cost ∨ e'.cost = inf)

theorem Same.rfl' (e : StK) : Same e e := by
  unfold Same
  exact ⟨rfl, rfl, Or.inl rfl⟩
theorem same_costInf (e : StK) : Same (costInf e) e := by
  unfold Same costInf
  exact ⟨rfl, rfl, Or.inr rfl⟩
theorem Same.trans' {a b c : StK} (h1 : Same a b) (h2 : Same b c) : Same a c := by
  refine ⟨h1.1.trans h2.1, h1.2.1.trans h2.2.1, ?_⟩
  rcases h1.2.2 with h | h
  · rcases h2.2.2 with h' | h'
    · exact .inl (h.trans h')
    · exact .inr (h.trans h')
  · exact .inr h

/-- the row read by `trans` in iteration `i` -/
def rowK (i : Nat) (S : Array (Array StK)) : Array StK := (if i ≠ 0 then preK i S else S)[i]!

theorem rowK_get {S : Array (Array StK)} {n : Nat} (h : Shape n S) (i : Nat) (hi : i ≤ n) (m : Nat) :
    (rowK i S)[m]! = if m = 0 ∧ i ≠ 0 then costInf (gK S i 0) else gK S i m := by
  unfold rowK
  by_cases h0 : i ≠ 0
  · rw [if_pos h0]
    show gK (preK i S) i m = _
    rw [gK_preK h i hi]
    by_cases hm : m = 0
    · subst hm; rw [if_pos ⟨rfl, rfl⟩, if_pos ⟨rfl, h0⟩]
    · rw [if_neg (by omega), if_neg (by omega)]
  · rw [if_neg h0, if_neg (by omega)]; rfl

/-- classification of the entries after one iteration of the fill loop -/
theorem stepK_cases {S : Array (Array StK)} (data : Array Nat) (h : Shape data.size S) (i : Nat) (hi : i < data.size) :
    Shape data.size (stepK data i S) ∧ ∀ k m,
      (Same (gK (stepK data i S) k m) (gK S k m) ∧
        (m = 4 ∨ (k = i ∧ m = 0 ∧ i ≠ 0) ∨ (gK (stepK data i S) k m).cost = (gK S k m).cost) ∧
        (k = i + 1 → m = 4 → (kanC data i ∧ (gK (stepK data i S) k m).cost = inf) ∨ (gK S k m).data ≠ none) ∧
        ¬ (k = i + 1 ∧ 1 ≤ m ∧ m ≤ 3)) ∨
      (k = i + 1 ∧ 1 ≤ m ∧ m ≤ 3 ∧ gK (stepK data i S) k m = new123 data i (rowK i S) m) ∨
      (m = 4 ∧ kanC data i ∧ k = i + rsz data i ∧
        gK (stepK data i S) k m = mkK (transK (rowK i S) 4 78 ((4 + 12) * 6)) (some (i, rsz data i))) ∨
      (m = 4 ∧ k = i + 1 ∧ gK (stepK data i S) k m = infK (some (i, 0))) := by
  -- the state after the optional `cost := inf` of entry 0
  have hS0 : ∃ S0, (if i ≠ 0 then preK i S else S) = S0 ∧ Shape data.size S0 ∧
      (∀ k m, gK S0 k m = if k = i ∧ m = 0 ∧ i ≠ 0 then costInf (gK S k m) else gK S k m) := by
    refine ⟨_, rfl, ?_, ?_⟩
    · split
      · exact shape_preK h i
      · exact h
    · intro k m
      by_cases h0 : i ≠ 0
      · rw [if_pos h0, gK_preK h i (by omega)]
        simp only [h0, not_false_eq_true, and_true, ne_eq]
      · rw [if_neg h0]; simp only [h0, and_false, if_false]
  obtain ⟨S0, hS0e, hsh0, hg0⟩ := hS0
  have hrow : rowK i S = S0[i]! := by unfold rowK; rw [hS0e]
  unfold stepK
  rw [hS0e, hrow]
  obtain ⟨hsh, hg⟩ := gK_stepK2 data hsh0 i hi
  refine ⟨hsh, fun k m => ?_⟩
  have hU := gK_upd123 hsh0 data i (by omega) k m
  have hU4 := gK_upd123 hsh0 data i (by omega) (i + 1) 4
  rw [if_neg (by omega)] at hU4
  have hsame0 : Same (gK S0 k m) (gK S k m) ∧ ((k = i ∧ m = 0 ∧ i ≠ 0) ∨ (gK S0 k m).cost = (gK S k m).cost) := by
    rw [hg0]; split
    · rename_i hc; exact ⟨same_costInf _, .inl hc⟩
    · exact ⟨Same.rfl' _, .inr rfl⟩
  rw [hg]
  by_cases h123 : k = i + 1 ∧ 1 ≤ m ∧ m ≤ 3
  · -- the three entries written by every iteration
    right; left
    refine ⟨h123.1, h123.2.1, h123.2.2, ?_⟩
    rw [if_pos h123] at hU
    by_cases hc : kanC data i
    · rw [if_pos hc, if_neg (by omega), if_neg (by omega), hU]
    · rw [if_neg hc, if_neg (by omega), hU]
  · rw [if_neg h123] at hU
    by_cases hc : kanC data i
    · rw [if_pos hc]
      by_cases hk : k = i + rsz data i ∧ m = 4
      · right; right; left
        rw [if_pos hk]
        exact ⟨hk.2, hc, hk.1, rfl⟩
      · rw [if_neg hk]
        left
        by_cases hw : m = 4 ∧ i ≤ k ∧ k < i + rsz data i
        · rw [if_pos hw, hU]
          exact ⟨(same_costInf _).trans' hsame0.1, .inl hw.1, fun _ _ => .inl ⟨hc, rfl⟩, h123⟩
        · rw [if_neg hw, hU]
          refine ⟨hsame0.1, ?_, ?_, h123⟩
          · rcases hsame0.2 with h' | h'
            · exact .inr (.inl h')
            · exact .inr (.inr h')
          · intro hk1 hm4
            have := decodeRune_size_pos _ hc.1
            exfalso
            change 1 ≤ rsz data i at this
            by_cases h1 : rsz data i = 1
            · exact hk ⟨by omega, hm4⟩
            · exact hw ⟨hm4, by omega, by omega⟩
    · rw [if_neg hc]
      by_cases hk : k = i + 1 ∧ m = 4 ∧ (gK (upd123 data i S0) (i + 1) 4).data.isNone = true
      · right; right; right
        rw [if_pos hk]
        exact ⟨hk.2.1, hk.1, rfl⟩
      · rw [if_neg hk, hU]
        left
        refine ⟨hsame0.1, ?_, ?_, h123⟩
        · rcases hsame0.2 with h' | h'
          · exact .inr (.inl h')
          · exact .inr (.inr h')
        · intro hk1 hm4
          right
          subst hk1; subst hm4
          intro hnone
          apply hk
          refine ⟨rfl, rfl, ?_⟩
          rw [hU4, hg0, if_neg (by omega), hnone]; rfl
/-- entry `(k, m)` ends a chain of pieces `data[s:k]`, …, `data[0:_]` that covers `data[0:k]` -/
inductive PathK (S : Array (Array StK)) : Nat → Nat → Prop
  | base (k m : Nat) : (gK S k m).lastMode = 0 → (gK S k m).data = some (0, k) → 1 ≤ k → PathK S k m
  | step (k m s len : Nat) : (gK S k m).lastMode ≠ 0 → (gK S k m).data = some (s, len) → 1 ≤ len → s + len = k →
      1 ≤ s → PathK S s (gK S k m).lastMode → PathK S k m

theorem PathK.frame {S S' : Array (Array StK)} {k m : Nat} (hp : PathK S k m) :
    (∀ k' m', k' ≤ k → (gK S' k' m').lastMode = (gK S k' m').lastMode ∧ (gK S' k' m').data = (gK S k' m').data) →
    PathK S' k m := by
  induction hp with
  | base k m h1 h2 h3 =>
    intro hag
    obtain ⟨a, b⟩ := hag k m (Nat.le_refl _)
    exact .base k m (a.trans h1) (b.trans h2) h3
  | step k m s len h1 h2 h3 h4 h5 _ ih =>
    intro hag
    obtain ⟨a, b⟩ := hag k m (Nat.le_refl _)
    refine .step k m s len (a ▸ h1) (b.trans h2) h3 h4 h5 ?_
    rw [a]
    exact ih (fun k' m' hk' => hag k' m' (by omega))

/-- a kanji entry of a row not yet reached: its predecessor lies in the rows already done -/
def FutK (S : Array (Array StK)) (i k : Nat) : Prop :=
  ∃ s len, (gK S k 4).data = some (s, len) ∧ 1 ≤ len ∧ s + len = k ∧ s ≤ i ∧
    (((gK S k 4).lastMode = 0 ∧ s = 0) ∨
     ((gK S k 4).lastMode ≠ 0 ∧ 1 ≤ s ∧ PathK S s (gK S k 4).lastMode))

theorem FutK.path {S : Array (Array StK)} {i k : Nat} (h : FutK S i k) : PathK S k 4 := by
  obtain ⟨s, len, hd, hl, hs, _, h0 | h1⟩ := h
  · obtain ⟨hl0, rfl⟩ := h0
    exact .base k 4 hl0 (by rw [hd]; simp at hs; rw [hs]) (by omega)
  · exact .step k 4 s len h1.1 hd hl hs h1.2.1 h1.2.2

structure InvK (data : Array Nat) (i : Nat) (S : Array (Array StK)) : Prop where
  shape : Shape data.size S
  r00 : (gK S 0 0).cost = 0
  r0m : ∀ m, 1 ≤ m → m ≤ 4 → inf ≤ (gK S 0 m).cost
  A : ∀ k m, 1 ≤ k → k ≤ i → 1 ≤ m → m ≤ 4 → (gK S k m).cost < inf → PathK S k m
  B : ∀ k, i < k → k ≤ data.size → (gK S k 4).cost < inf → (gK S k 4).data ≠ none → FutK S i k
  C : ∀ k, 1 ≤ k → k ≤ i → (gK S k 3).cost ≤ 120 + 48 * k
theorem inf_big : 1000 < inf := by unfold inf; omega

theorem newEntry_ok {data : Array Nat} {i : Nat} {S : Array (Array StK)} (hI : InvK data i S) (hi : i < data.size)
    (self unit hdr : Nat) (hh : hdr ≤ 120) :
    (i = 0 → (transK (rowK i S) self unit hdr).2 = 0) ∧
    (1 ≤ i → (transK (rowK i S) self unit hdr).1 < inf →
      (transK (rowK i S) self unit hdr).2 ≠ 0 ∧ (transK (rowK i S) self unit hdr).2 ≤ 4 ∧
      (gK S i (transK (rowK i S) self unit hdr).2).cost < inf) := by
  obtain ⟨h4, h0, hne, _, hle⟩ := transK_spec (rowK i S) self unit hdr
  have hrow := rowK_get hI.shape i (by omega)
  refine ⟨fun hi0 => ?_, fun hi1 hlt => ?_⟩
  · subst hi0
    apply Classical.byContradiction
    intro hc
    have h1 := hne hc
    unfold cstK at h1
    rw [hrow, if_neg (by omega)] at h1
    rw [hrow, if_neg (by omega), hI.r00] at hle
    have := hI.r0m _ (Nat.pos_of_ne_zero hc) h4
    have := inf_big
    omega
  · have hc : (transK (rowK i S) self unit hdr).2 ≠ 0 := by
      intro hc
      have h1 := h0 hc
      rw [hrow, if_pos ⟨rfl, by omega⟩] at h1
      have : (costInf (gK S i 0)).cost = inf := rfl
      omega
    refine ⟨hc, h4, ?_⟩
    have h1 := hne hc
    unfold cstK at h1
    rw [hrow, if_neg (by omega)] at h1
    omega

theorem newBytes_le {data : Array Nat} {i : Nat} {S : Array (Array StK)} (hI : InvK data i S) (hi : i < data.size) :
    (transK (rowK i S) 3 48 ((4 + 16) * 6)).1 ≤ 120 + 48 * (i + 1) := by
  obtain ⟨_, _, _, hall, hle⟩ := transK_spec (rowK i S) 3 48 ((4 + 16) * 6)
  have hrow := rowK_get hI.shape i (by omega)
  by_cases h0 : i = 0
  · subst h0
    rw [hrow, if_neg (by omega), hI.r00] at hle
    omega
  · have := hall 3 (by omega) (by omega)
    unfold cstK at this
    rw [hrow, if_neg (by omega)] at this
    have := hI.C i (by omega) (Nat.le_refl _)
    simp at *
    omega
theorem invK_step {data : Array Nat} {i : Nat} {S : Array (Array StK)} (hI : InvK data i S) (hi : i < data.size) :
    InvK data (i + 1) (stepK data i S) := by
  obtain ⟨hsh, hcl⟩ := stepK_cases data hI.shape i hi
  have hrs : kanC data i → 1 ≤ rsz data i := fun hc => decodeRune_size_pos _ hc.1
  -- rows up to `i` keep their predecessors and pieces
  have hsame : ∀ k m, k ≤ i → Same (gK (stepK data i S) k m) (gK S k m) ∧
      (m = 4 ∨ (k = i ∧ m = 0 ∧ i ≠ 0) ∨ (gK (stepK data i S) k m).cost = (gK S k m).cost) := by
    intro k m hk
    rcases hcl k m with h | h | h | h
    · exact ⟨h.1, h.2.1⟩
    · omega
    · have := hrs h.2.1; omega
    · omega
  have hframe : ∀ k m, k ≤ i → PathK S k m → PathK (stepK data i S) k m := by
    intro k m hk hp
    exact hp.frame (fun k' m' hk' => ⟨(hsame k' m' (by omega)).1.1, (hsame k' m' (by omega)).1.2.1⟩)
  -- a new entry whose predecessor is chosen by `trans`
  have hnew : ∀ k m self unit hdr len, hdr ≤ 120 →
      gK (stepK data i S) k m = mkK (transK (rowK i S) self unit hdr) (some (i, len)) →
      (gK (stepK data i S) k m).cost < inf →
      ((gK (stepK data i S) k m).lastMode = 0 ∧ i = 0) ∨
      ((gK (stepK data i S) k m).lastMode ≠ 0 ∧ 1 ≤ i ∧ PathK (stepK data i S) i (gK (stepK data i S) k m).lastMode) := by
    intro k m self unit hdr len hh he hc
    rw [he] at hc ⊢
    obtain ⟨h0, h1⟩ := newEntry_ok hI hi self unit hdr hh
    by_cases hi0 : i = 0
    · exact .inl ⟨h0 hi0, hi0⟩
    · obtain ⟨a, b, c⟩ := h1 (by omega) hc
      exact .inr ⟨a, by omega, hframe _ _ (Nat.le_refl _) (hI.A i _ (by omega) (Nat.le_refl _) (Nat.pos_of_ne_zero a) b c)⟩
  have hfut : ∀ k, FutK S i k → (gK (stepK data i S) k 4).lastMode = (gK S k 4).lastMode →
      (gK (stepK data i S) k 4).data = (gK S k 4).data → FutK (stepK data i S) (i + 1) k := by
    intro k ⟨s, len, hd, hl, hs, hsi, hor⟩ hlm hdat
    refine ⟨s, len, hdat.trans hd, hl, hs, by omega, ?_⟩
    rw [hlm]
    rcases hor with h | h
    · exact .inl h
    · exact .inr ⟨h.1, h.2.1, hframe _ _ hsi h.2.2⟩
  refine ⟨hsh, ?_, ?_, ?_, ?_, ?_⟩
  · -- r00
    rcases (hsame 0 0 (Nat.zero_le _)).2 with h | h | h
    · omega
    · omega
    · rw [h]; exact hI.r00
  · -- r0m
    intro m h1 h4
    have := hI.r0m m h1 h4
    rcases (hsame 0 m (Nat.zero_le _)).1.2.2 with h | h
    · rw [h]; exact this
    · rw [h]; exact Nat.le_refl _
  · -- A
    intro k m hk1 hk hm1 hm4 hc
    by_cases hki : k ≤ i
    · have hs := (hsame k m hki).1
      have : (gK S k m).cost < inf := by
        rcases hs.2.2 with h | h
        · rw [← h]; exact hc
        · rw [h] at hc; exact absurd hc (Nat.lt_irrefl _)
      exact hframe k m hki (hI.A k m hk1 hki hm1 hm4 this)
    · have hk' : k = i + 1 := by omega
      subst hk'
      rcases hcl (i + 1) m with h | h | h | h
      · -- unchanged kanji entry written earlier
        have hm : m = 4 := by
          have := h.2.2.2
          omega
        subst hm
        rcases h.2.2.1 rfl rfl with ⟨_, hinf⟩ | hdat
        · rw [hinf] at hc; exact absurd hc (Nat.lt_irrefl _)
        · have hcS : (gK S (i + 1) 4).cost < inf := by
            rcases h.1.2.2 with h' | h'
            · rw [← h']; exact hc
            · rw [h'] at hc; exact absurd hc (Nat.lt_irrefl _)
          exact (hfut _ (hI.B (i + 1) (by omega) (by omega) hcS hdat) h.1.1 h.1.2.1).path
      · -- numeric / alphanumeric / bytes
        obtain ⟨_, _, _, he⟩ := h
        have hmk : ∃ self unit hdr, hdr ≤ 120 ∧
            gK (stepK data i S) (i + 1) m = mkK (transK (rowK i S) self unit hdr) (some (i, 1)) := by
          rw [he]
          unfold new123
          split
          · exact ⟨_, _, _, by omega, rfl⟩
          · split
            · split
              · exact ⟨_, _, _, by omega, rfl⟩
              · rename_i hal
                rw [he] at hc; unfold new123 at hc
                rw [if_neg (by assumption), if_pos (by assumption), if_neg hal] at hc
                exact absurd hc (Nat.lt_irrefl _)
            · split
              · exact ⟨_, _, _, by omega, rfl⟩
              · rename_i hnu
                rw [he] at hc; unfold new123 at hc
                rw [if_neg (by assumption), if_neg (by assumption), if_neg hnu] at hc
                exact absurd hc (Nat.lt_irrefl _)
        obtain ⟨self, unit, hdr, hh, he'⟩ := hmk
        have hd : (gK (stepK data i S) (i + 1) m).data = some (i, 1) := by rw [he']; rfl
        rcases hnew _ _ _ _ _ _ hh he' hc with ⟨h0, hi0⟩ | ⟨h1, hi1, hp⟩
        · subst hi0; exact .base _ _ h0 hd (by omega)
        · exact .step _ _ i 1 h1 hd (Nat.le_refl _) rfl hi1 hp
      · -- kanji entry of a one-byte character
        obtain ⟨hm, hkc, hk1', he⟩ := h
        subst hm
        have hd : (gK (stepK data i S) (i + 1) 4).data = some (i, rsz data i) := by rw [he]; rfl
        have hr1 : rsz data i = 1 := by omega
        rcases hnew _ _ _ _ _ _ (by omega) he hc with ⟨h0, hi0⟩ | ⟨h1, hi1, hp⟩
        · subst hi0; exact .base _ _ h0 (by rw [hd, hr1]) (by omega)
        · exact .step _ _ i (rsz data i) h1 hd (by omega) (by omega) hi1 hp
      · rw [h.2.2] at hc
        exact absurd hc (Nat.lt_irrefl _)
  · -- B
    intro k hk hkn hc hdat
    rcases hcl k 4 with h | h | h | h
    · have hcS : (gK S k 4).cost < inf := by
        rcases h.1.2.2 with h' | h'
        · rw [← h']; exact hc
        · rw [h'] at hc; exact absurd hc (Nat.lt_irrefl _)
      exact hfut _ (hI.B k (by omega) hkn hcS (by rw [← h.1.2.1]; exact hdat)) h.1.1 h.1.2.1
    · omega
    · obtain ⟨_, hkc, hk', he⟩ := h
      have hd : (gK (stepK data i S) k 4).data = some (i, rsz data i) := by rw [he]; rfl
      refine ⟨i, rsz data i, hd, hrs hkc, by omega, by omega, ?_⟩
      rcases hnew _ _ _ _ _ _ (by omega) he hc with ⟨h0, hi0⟩ | ⟨h1, hi1, hp⟩
      · exact .inl ⟨h0, hi0⟩
      · exact .inr ⟨h1, hi1, hp⟩
    · omega
  · -- C
    intro k hk1 hk
    by_cases hki : k ≤ i
    · rcases (hsame k 3 hki).2 with h | h | h
      · omega
      · omega
      · rw [h]; exact hI.C k hk1 hki
    · have hk' : k = i + 1 := by omega
      subst hk'
      rcases hcl (i + 1) 3 with h | h | h | h
      · exact absurd ⟨rfl, by omega, by omega⟩ h.2.2.2
      · rw [h.2.2.2]
        unfold new123
        rw [if_pos rfl]
        exact newBytes_le hI hi
      · omega
      · omega
theorem invK_init (data : Array Nat) : InvK data 0 (initK data.size) := by
  have hrep : Shape data.size (Array.replicate (data.size + 1) (Array.replicate 5 ({} : StK))) := by
    refine ⟨by simp, fun k hk => ?_⟩
    rw [getElem!_pos _ _ (by simp; omega)]; simp
  have hrow : (Array.replicate (data.size + 1) (Array.replicate 5 ({} : StK)))[0]! = Array.replicate 5 ({} : StK) := by
    rw [getElem!_pos _ _ (by simp)]; simp
  have hg : ∀ m, gK (initK data.size) 0 m =
      if 4 = m then { cost := inf } else if 3 = m then { cost := inf } else if 2 = m then { cost := inf }
      else if 1 = m then { cost := inf } else (Array.replicate 5 ({} : StK))[m]! := by
    intro m
    unfold initK
    rw [gK_modify, if_pos ⟨rfl, by simp⟩, hrow]
    simp only [get!_set!, size_set!, Array.size_replicate]
    by_cases h4 : 4 = m
    · subst h4; simp
    · by_cases h3 : 3 = m
      · subst h3; simp
      · by_cases h2 : 2 = m
        · subst h2; simp
        · by_cases h1 : 1 = m
          · subst h1; simp
          · simp only [h1, h2, h3, h4, false_and, if_false]
  refine ⟨?_, ?_, ?_, ?_, ?_, ?_⟩
  · unfold initK
    exact shape_modify hrep _ _ (fun r => by simp only [size_set!])
  · rw [hg, if_neg (by omega), if_neg (by omega), if_neg (by omega), if_neg (by omega),
      getElem!_pos _ _ (by simp)]
    simp
  · intro m h1 h4
    rw [hg]
    have : m = 1 ∨ m = 2 ∨ m = 3 ∨ m = 4 := by omega
    rcases this with rfl | rfl | rfl | rfl <;> simp
  · intro k m h1 h2; omega
  · intro k _ _ _ hd
    exact absurd (gK_init_lastMode data.size k 4).2 hd
  · intro k h1 h2; omega
theorem PathK.piece {S : Array (Array StK)} {k m : Nat} (h : PathK S k m) :
    ∃ s len, (gK S k m).data = some (s, len) ∧ 1 ≤ len ∧ s + len = k := by
  cases h with
  | base _ _ h1 h2 h3 => exact ⟨0, k, h2, h3, by omega⟩
  | step _ _ s len h1 h2 h3 h4 h5 h6 => exact ⟨s, len, h2, h3, h4⟩

theorem sliceK_ne_nil (data : Array Nat) (s len : Nat) (h1 : 1 ≤ len) (h2 : s + len ≤ data.size) :
    sliceK data (some (s, len)) ≠ [] := by
  unfold sliceK
  simp only []
  intro h
  have := congrArg List.length h
  simp at this
  omega

theorem sliceK_append (data : Array Nat) (s len k : Nat) (h : s + len = k) :
    sliceK data (some (s, len)) ++ data.toList.drop k = data.toList.drop s := by
  unfold sliceK
  simp only []
  rw [← h, ← List.drop_drop]
  exact List.take_append_drop _ _

/-- the invariant of the back-tracking loop -/
def BackInv (data : Array Nat) (S : Array (Array StK)) (t : Nat) (s : BackSt) : Prop :=
  (∀ q ∈ s.2.1.toList, q.2 ≠ []) ∧
  (s.2.2.2 = false → PathK S s.2.2.1 s.1 ∧ s.2.2.1 + t ≤ data.size ∧
    ∃ st len, (gK S s.2.2.1 s.1).data = some (st, len) ∧ st + len = s.2.2.1 ∧
      s.2.1.toList.reverse.flatMap (·.2) = data.toList.drop st) ∧
  (s.2.2.2 = true → s.2.1.toList.reverse.flatMap (·.2) = data.toList)

theorem backMK_step (data : Array Nat) (S : Array (Array StK)) (t : Nat) (s : BackSt)
    (hJ : BackInv data S t s) :
    ∃ s', backMK data S t s = .ok (.yield s') ∧ BackInv data S (t + 1) s' := by
  obtain ⟨bm, best, i, fin⟩ := s
  obtain ⟨hne, hF, hT⟩ := hJ
  simp only at hne hF hT
  unfold backMK
  cases fin with
  | true =>
    rw [if_neg (by simp)]
    refine ⟨_, rfl, ?_⟩
    exact ⟨hne, fun h => (by cases h), hT⟩
  | false =>
    rw [if_pos (by rfl)]
    obtain ⟨hp, hit, st, len, hd, hsl, hcat⟩ := hF rfl
    simp only []
    cases hp with
    | base _ _ h1 h2 h3 =>
      have h1' : ((S[i]!)[bm]!).lastMode = 0 := h1
      rw [if_pos h1']
      refine ⟨_, rfl, ?_⟩
      refine ⟨hne, fun h => (by cases h), fun _ => ?_⟩
      rw [h2] at hd
      cases hd
      simpa using hcat
    | step _ _ s' len' h1 h2 h3 h4 h5 h6 =>
      have h1' : ¬ ((S[i]!)[bm]!).lastMode = 0 := h1
      rw [if_neg h1']
      rw [h2] at hd
      cases hd
      have hdl : dlenK ((S[i]!)[bm]!).data = len := by
        have : ((S[i]!)[bm]!).data = some (st, len) := h2
        rw [this]; rfl
      rw [if_neg (by rw [hdl]; omega), hdl]
      have his : i - len = st := by omega
      rw [his]
      obtain ⟨s2, len2, hd2, hl2, hs2⟩ := h6.piece
      have hd2' : ((S[st]!)[((S[i]!)[bm]!).lastMode]!).data = some (s2, len2) := hd2
      refine ⟨_, rfl, ?_⟩
      refine ⟨?_, fun _ => ⟨h6, by simp only; omega, s2, len2, hd2, hs2, ?_⟩, fun h => (by cases h)⟩
      · intro q hq
        simp only [Array.toList_push, List.mem_append, List.mem_singleton] at hq
        rcases hq with hq | hq
        · exact hne q hq
        · subst hq
          simp only [hd2']
          exact sliceK_ne_nil data s2 len2 hl2 (by omega)
      · simp only [Array.toList_push, List.reverse_append,
          List.flatMap_cons, hcat, hd2', List.reverse_cons, List.reverse_nil, List.nil_append, List.cons_append]
        exact sliceK_append data s2 len2 st hs2

theorem tailK_ok (ml : List Nat) (data : Array Nat) (S : Array (Array StK)) (hne : data.size ≠ 0)
    (hb : 120 + 48 * data.size < inf) (hI : InvK data data.size S) (segs : List Segment)
    (h : tailK ml data S = .ok segs) :
    segs.flatMap (·.data) = data.toList ∧ ∀ s ∈ segs, s.data ≠ [] := by
  unfold tailK at h
  -- the best mode of the last row has a finite cost
  obtain ⟨p, hp, hp1, hp4, hpe, hp3⟩ := pick_ok S[data.size]!
    (fun k s => 1 ≤ s.2 ∧ s.2 ≤ 4 ∧ s.1 = ((S[data.size]!)[s.2]!).cost ∧ (4 ≤ k → s.1 ≤ ((S[data.size]!)[3]!).cost))
    (((S[data.size]!)[1]!).cost, 1) ⟨by simp, by simp, rfl, fun h => by omega⟩
    (fun k s h2 h5 ⟨a, b, c, d⟩ => by
      split
      · rename_i hlt
        refine ⟨by simp only; omega, by simp only; omega, rfl, fun hk => ?_⟩
        by_cases hk3 : k = 3
        · subst hk3; exact Nat.le_refl _
        · have := d (by omega); simp only; omega
      · rename_i hlt
        refine ⟨a, b, c, fun hk => ?_⟩
        by_cases hk3 : k = 3
        · subst hk3; omega
        · exact d (by omega))
  rw [hp] at h
  simp only [Out.bind_ok] at h
  have hc3 := hI.C data.size (by omega) (Nat.le_refl _)
  have hcp : (gK S data.size p.2).cost < inf := by
    have h3 := hp3 (by omega)
    have e1 : (gK S data.size p.2).cost = ((S[data.size]!)[p.2]!).cost := rfl
    have e2 : (gK S data.size 3).cost = ((S[data.size]!)[3]!).cost := rfl
    omega
  have hpath := hI.A data.size p.2 (by omega) (Nat.le_refl _) hp1 hp4 hcp
  obtain ⟨st, len, hd, hl, hs⟩ := hpath.piece
  have hd' : ((S[data.size]!)[p.2]!).data = some (st, len) := hd
  obtain ⟨r, hr, hJ⟩ := forIn_out_range (backMK data S) (BackInv data S) 0 (2 * data.size + 4)
    ((p.2, #[(p.2, sliceK data ((S[data.size]!)[p.2]!).data)], data.size, false) : BackSt) (Nat.zero_le _)
    (by
      refine ⟨?_, fun _ => ⟨hpath, Nat.le_refl _, st, len, hd, hs, ?_⟩, fun h => (by cases h)⟩
      · intro q hq
        simp only [List.mem_singleton] at hq
        subst hq
        simp only [hd']
        exact sliceK_ne_nil data st len hl (by omega)
      · simp only [hd', List.reverse_cons, List.reverse_nil, List.nil_append, List.flatMap_cons, List.flatMap_nil,
          List.append_nil]
        have := sliceK_append data st len data.size hs
        rw [List.drop_of_length_le (by simp), List.append_nil] at this
        exact this)
    (fun t s _ _ hJ => backMK_step data S t s hJ)
  rw [hr] at h
  simp only [Out.bind_ok] at h
  obtain ⟨hne', hF, hT⟩ := hJ
  have hfin : r.2.2.2 = true := by
    cases hf : r.2.2.2 with
    | true => rfl
    | false => have := (hF hf).2.1; omega
  rw [hfin] at h
  simp only [Bool.not_true, Bool.false_eq_true, if_false] at h
  cases h
  refine ⟨?_, ?_⟩
  · rw [mergeSegs_concat]; exact hT hfin
  · apply mergeSegs_nonempty
    intro q hq
    exact hne' q (by simpa using hq)

theorem newKanji_concat' (ml : List Nat) (data : Array Nat) (hne : data.size ≠ 0) (hsz : data.size < 2 ^ 56)
    (segs : List Segment) (h : newKanjiSegs ml data = .ok segs) :
    segs.flatMap (·.data) = data.toList ∧ ∀ s ∈ segs, s.data ≠ [] := by
  rw [newKanjiSegs_eq] at h
  obtain ⟨S, hS, hI⟩ := fillK_ind data (InvK data) (invK_init data) (fun i S hi hI => invK_step hI hi)
  rw [hS] at h
  exact tailK_ok ml data S hne (by unfold inf; omega) hI segs h
/-! ### the size bound of `newQR_valid_QR'` is needed -/

theorem fillStep3_desc (hN hA hB : Nat) (data : Array Nat) (i : Nat) (S : Array (Array St))
    (hi : i < data.size) (h : Inv3 hB data i S) :
    ∃ row : Array St,
      (∀ m, row[m]! = if m = 0 ∧ i ≠ 0 then { g3 S i 0 with cost := inf } else g3 S i m) ∧
      ∀ k m, g3 (fillStep3 hN hA hB data i S) k m =
        if k = i + 1 ∧ m = 3 then trans3 row 3 48 hB
        else if k = i + 1 ∧ m = 2 then
          (if isAlphanumeric data[i]! then trans3 row 2 33 hA else { cost := inf, lastMode := 0 })
        else if k = i + 1 ∧ m = 1 then
          (if isNumeric data[i]! then trans3 row 1 20 hN else { cost := inf, lastMode := 0 })
        else if k = i ∧ m = 0 ∧ i ≠ 0 then { g3 S k m with cost := inf } else g3 S k m := by
  have hS1 : ∃ S1, (if i ≠ 0 then pre3 i S else S) = S1 ∧ S1.size = data.size + 1 ∧
      (∀ k, k ≤ data.size → (S1[k]!).size = 4) ∧
      (∀ k m, g3 S1 k m = if k = i ∧ m = 0 ∧ i ≠ 0 then { g3 S k m with cost := inf } else g3 S k m) := by
    refine ⟨_, rfl, ?_, ?_, ?_⟩
    · split
      · rw [size_pre3]; exact h.size
      · exact h.size
    · intro k hk; split
      · rw [rows_pre3]; exact h.rows k hk
      · exact h.rows k hk
    · intro k m
      by_cases h0 : i ≠ 0
      · rw [if_pos h0, g3_pre3 _ _ _ _ (by rw [h.size]; omega) (h.rows i (by omega))]
        simp only [h0, not_false_eq_true, and_true, ne_eq]
      · rw [if_neg h0]; simp only [h0, and_false, if_false]
  obtain ⟨S1, hS1e, hsz, hrows, hg⟩ := hS1
  unfold fillStep3
  rw [hS1e]
  refine ⟨S1[i]!, fun m => ?_, fun k m => ?_⟩
  · have := hg i m
    show g3 S1 i m = _
    rw [this]
    by_cases hm : m = 0
    · subst hm
      by_cases h0 : i ≠ 0
      · rw [if_pos ⟨rfl, rfl, h0⟩, if_pos ⟨rfl, h0⟩]
      · rw [if_neg (by omega), if_neg (by omega)]
    · rw [if_neg (by omega), if_neg (by omega)]
  · rw [g3_body3 hN hA hB data S1 i k m (by rw [hsz]; omega) (hrows (i + 1) (by omega)), hg]

/-- lower bound: every character costs at least 20 and costs are capped at `inf` -/
structure LB3 (i : Nat) (S : Array (Array St)) : Prop where
  lb : ∀ k m, k ≤ i → 1 ≤ m → m ≤ 3 → min (20 * k) inf ≤ (g3 S k m).cost
  cap : ∀ k m, 1 ≤ k → k ≤ i → 1 ≤ m → m ≤ 3 →
    (g3 S k m).cost ≤ inf ∧ ((g3 S k m).cost = inf → (g3 S k m).lastMode = 0)

theorem transM3_inf (row : Array St) (self unit hdr : Nat) :
    (trans3 row self unit hdr).cost = inf → (trans3 row self unit hdr).lastMode = 0 := by
  have := forIn_id_range (transM3 row self unit hdr)
      (fun _ s => s.1 ≤ inf ∧ (s.1 = inf → s.2 = 0)) 0 4 (inf, 0) (by omega) ⟨Nat.le_refl _, fun _ => rfl⟩ ?_
  · exact this.2
  · intro k s _ _ ⟨h1, h2⟩
    refine ⟨_, transM3_yield _ _ _ _ _ _, ?_⟩
    split
    · rename_i hlt
      exact ⟨by simp only; omega, fun h => by simp only at h; omega⟩
    · exact ⟨h1, h2⟩

theorem trans3_lb (row : Array St) (self unit hdr B : Nat) (hu : 20 ≤ unit) (hB : ∀ m, m ≤ 3 → B ≤ (row[m]!).cost) :
    min (B + 20) inf ≤ (trans3 row self unit hdr).cost := by
  obtain ⟨hcap, hlt, _⟩ := trans3_spec row self unit hdr
  by_cases h : (trans3 row self unit hdr).cost < inf
  · obtain ⟨h3, he⟩ := hlt h
    have := hB _ h3
    unfold cst at he
    omega
  · omega

theorem lb3_step (hN hA hB : Nat) (data : Array Nat) (i : Nat) (S : Array (Array St))
    (hi : i < data.size) (h : Inv3 hB data i S) (hL : LB3 i S) :
    LB3 (i + 1) (fillStep3 hN hA hB data i S) := by
  obtain ⟨row, hrow, hg⟩ := fillStep3_desc hN hA hB data i S hi h
  have hold : ∀ k m, k ≤ i → 1 ≤ m → g3 (fillStep3 hN hA hB data i S) k m = g3 S k m := by
    intro k m hk hm
    rw [hg, if_neg (by omega), if_neg (by omega), if_neg (by omega), if_neg (by omega)]
  -- lower bound of the row read by `trans`
  have hRB : ∀ m, m ≤ 3 → min (20 * i) inf ≤ (row[m]!).cost := by
    intro m hm
    rw [hrow]
    by_cases h0 : m = 0 ∧ i ≠ 0
    · rw [if_pos h0]; show min (20 * i) inf ≤ inf; omega
    · rw [if_neg h0]
      by_cases hm0 : m = 0
      · have : i = 0 := by omega
        subst this; omega
      · exact hL.lb i m (Nat.le_refl _) (by omega) hm
  have htr : ∀ self unit hdr, 20 ≤ unit →
      min (20 * (i + 1)) inf ≤ (trans3 row self unit hdr).cost ∧ (trans3 row self unit hdr).cost ≤ inf ∧
      ((trans3 row self unit hdr).cost = inf → (trans3 row self unit hdr).lastMode = 0) := by
    intro self unit hdr hu
    have := trans3_lb row self unit hdr _ hu hRB
    exact ⟨by omega, (trans3_spec row self unit hdr).1, transM3_inf row self unit hdr⟩
  have hinf : min (20 * (i + 1)) inf ≤ ({ cost := inf, lastMode := 0 } : St).cost ∧
      ({ cost := inf, lastMode := 0 } : St).cost ≤ inf ∧
      (({ cost := inf, lastMode := 0 } : St).cost = inf → ({ cost := inf, lastMode := 0 } : St).lastMode = 0) :=
    ⟨by show min (20 * (i + 1)) inf ≤ inf; omega, Nat.le_refl _, fun _ => rfl⟩
  have hnew : ∀ m, 1 ≤ m → m ≤ 3 →
      min (20 * (i + 1)) inf ≤ (g3 (fillStep3 hN hA hB data i S) (i + 1) m).cost ∧
      (g3 (fillStep3 hN hA hB data i S) (i + 1) m).cost ≤ inf ∧
      ((g3 (fillStep3 hN hA hB data i S) (i + 1) m).cost = inf →
        (g3 (fillStep3 hN hA hB data i S) (i + 1) m).lastMode = 0) := by
    intro m h1 h3
    rw [hg]
    have : m = 3 ∨ m = 2 ∨ m = 1 := by omega
    rcases this with rfl | rfl | rfl
    · rw [if_pos ⟨rfl, rfl⟩]; exact htr _ _ _ (by omega)
    · rw [if_neg (by omega), if_pos ⟨rfl, rfl⟩]
      split
      · exact htr _ _ _ (by omega)
      · exact hinf
    · rw [if_neg (by omega), if_neg (by omega), if_pos ⟨rfl, rfl⟩]
      split
      · exact htr _ _ _ (by omega)
      · exact hinf
  refine ⟨fun k m hk h1 h3 => ?_, fun k m hk1 hk h1 h3 => ?_⟩
  · by_cases hki : k ≤ i
    · rw [hold k m hki h1]; exact hL.lb k m hki h1 h3
    · have : k = i + 1 := by omega
      subst this; exact (hnew m h1 h3).1
  · by_cases hki : k ≤ i
    · rw [hold k m hki h1]; exact hL.cap k m hk1 hki h1 h3
    · have : k = i + 1 := by omega
      subst this; exact (hnew m h1 h3).2

theorem lb3_fill (hN hA hB : Nat) (data : Array Nat) :
    LB3 data.size (fill3 hN hA hB data) := by
  unfold fill3
  have := forIn_id_range (fillM3 hN hA hB data) (fun i S => Inv3 hB data i S ∧ LB3 i S) 0 data.size _
    (Nat.zero_le _) ⟨inv3_init hB data, ⟨fun k m hk _ _ => by omega, fun k m h1 h2 => by omega⟩⟩
    (fun k S _ hk hI => ⟨_, fillM3_eq _ _ _ _ _ _, inv3_step hN hA hB data k S hk hI.1,
      lb3_step hN hA hB data k S hk hI.1 hI.2⟩)
  exact this.2

theorem mstep_modes (ml : List Nat) (acc : List Segment) (p : Nat × List Nat) :
    (∀ s ∈ acc, ∃ s' ∈ mstep ml acc p, s'.mode = s.mode) ∧
    ∃ s' ∈ mstep ml acc p, s'.mode = ml[p.1]?.getD 0 := by
  rcases nil_or_snoc acc with rfl | ⟨l, a, rfl⟩
  · rw [mstep_nil]
    exact ⟨fun s hs => (by cases hs), ⟨{ mode := ml[p.1]?.getD 0, data := p.2 }, List.mem_singleton.2 rfl, rfl⟩⟩
  · rw [mstep_concat]
    split
    · rename_i hm
      refine ⟨fun s hs => ?_, ⟨{ a with data := a.data ++ p.2 }, ?_, hm⟩⟩
      · rcases List.mem_append.1 hs with h | h
        · exact ⟨s, List.mem_append_left _ h, rfl⟩
        · have : s = a := List.mem_singleton.1 h
          subst this
          exact ⟨{ s with data := s.data ++ p.2 }, List.mem_append_right _ (List.mem_singleton.2 rfl), rfl⟩
      · exact List.mem_append_right _ (List.mem_singleton.2 rfl)
    · exact ⟨fun s hs => ⟨s, List.mem_append_left _ hs, rfl⟩,
        ⟨{ mode := ml[p.1]?.getD 0, data := p.2 }, List.mem_append_right _ (List.mem_singleton.2 rfl), rfl⟩⟩

theorem foldl_mstep_modes (ml : List Nat) (ps : List (Nat × List Nat)) :
    ∀ acc : List Segment,
      (∀ s ∈ acc, ∃ s' ∈ ps.foldl (mstep ml) acc, s'.mode = s.mode) ∧
      ∀ p ∈ ps, ∃ s' ∈ ps.foldl (mstep ml) acc, s'.mode = ml[p.1]?.getD 0 := by
  induction ps with
  | nil => intro acc; exact ⟨fun s hs => ⟨s, hs, rfl⟩, by simp⟩
  | cons p ps ih =>
    intro acc
    rw [List.foldl_cons]
    obtain ⟨h1, h2⟩ := mstep_modes ml acc p
    obtain ⟨i1, i2⟩ := ih (mstep ml acc p)
    refine ⟨fun s hs => ?_, fun q hq => ?_⟩
    · obtain ⟨s1, hs1, e1⟩ := h1 s hs
      obtain ⟨s2, hs2, e2⟩ := i1 s1 hs1
      exact ⟨s2, hs2, e2.trans e1⟩
    · rcases List.mem_cons.1 hq with rfl | hq
      · obtain ⟨s1, hs1, e1⟩ := h2
        obtain ⟨s2, hs2, e2⟩ := i1 s1 hs1
        exact ⟨s2, hs2, e2.trans e1⟩
      · exact i2 q hq

theorem mergeSegs_mode_mem (ml : List Nat) (pieces : List (Nat × List Nat)) :
    ∀ p ∈ pieces, ∃ s ∈ mergeSegs ml pieces, s.mode = ml[p.1]?.getD 0 := by
  rw [mergeSegs_eq]; exact (foldl_mstep_modes ml pieces []).2

/-- for a payload so long that `20 * size ≥ inf`, the second-to-last character gets DP mode 0 -/
theorem newQR_long_mode0 (hN hA hB : Nat) (ml : List Nat) (data : Array Nat) (h2 : 2 ≤ data.size)
    (hbig : inf ≤ 20 * data.size) :
    ∃ s ∈ newQRSegs hN hA hB ml data, s.mode = ml[0]?.getD 0 := by
  have hI := inv3_fill hN hA hB data
  have hL := lb3_fill hN hA hB data
  rw [newQRSegs_eq]
  unfold finish3
  generalize fill3 hN hA hB data = S at hI hL ⊢
  -- the last row: every cost is `inf`, every predecessor is 0
  have hlast : ∀ m, 1 ≤ m → m ≤ 3 → (g3 S data.size m).cost = inf ∧ (g3 S data.size m).lastMode = 0 := by
    intro m h1 h3
    have a := hL.lb data.size m (Nat.le_refl _) h1 h3
    obtain ⟨b, c⟩ := hL.cap data.size m (by omega) (Nat.le_refl _) h1 h3
    have : (g3 S data.size m).cost = inf := by omega
    exact ⟨this, c this⟩
  have hpick : pick3 S[data.size]! = 1 := by
    have e1 : ((S[data.size]!)[1]!).cost = inf := (hlast 1 (by omega) (by omega)).1
    have e2 : ((S[data.size]!)[2]!).cost = inf := (hlast 2 (by omega) (by omega)).1
    have e3 : ((S[data.size]!)[3]!).cost = inf := (hlast 3 (by omega) (by omega)).1
    unfold pick3
    rw [e1, e2, e3]
    simp
  -- back-tracking: the entry for the second-to-last character is 0
  have hback : (back3 S data.size 1)[data.size - 2]! = 0 := by
    have := forIn_id_range (backM3 S data.size)
      (fun k s => s.2.size = data.size ∧ (k = 0 → s.1 = 1) ∧ (1 ≤ k → s.2[data.size - 2]! = 0))
      0 (data.size - 1) (1, (Array.replicate data.size 0).set! (data.size - 1) 1) (Nat.zero_le _)
      ⟨by rw [size_set!]; simp, fun _ => rfl, fun h => by omega⟩ ?_
    · exact this.2.2 (by omega)
    · intro k s _ hk ⟨hsz, h0, h1⟩
      refine ⟨_, rfl, by rw [size_set!]; exact hsz, fun h => by omega, fun _ => ?_⟩
      rw [get!_set!]
      by_cases hk0 : k = 0
      · subst hk0
        rw [if_pos ⟨by omega, by omega⟩, h0 rfl]
        rw [show data.size - 1 - 0 + 1 = data.size by omega]
        exact (hlast 1 (by omega) (by omega)).2
      · rw [if_neg (by omega)]
        exact h1 (by omega)
  rw [hpick]
  obtain ⟨s, hs, hm⟩ := mergeSegs_mode_mem ml
    ((List.range data.size).map fun i => ((back3 S data.size 1)[i]!, [data[i]!]))
    ((back3 S data.size 1)[data.size - 2]!, [data[data.size - 2]!])
    (List.mem_map.2 ⟨data.size - 2, List.mem_range.2 (by omega), rfl⟩)
  rw [hback] at hm
  exact ⟨s, hs, hm⟩

/-- the statement of `newQR_valid_QR` without a bound on the payload length is false -/
theorem newQR_valid_QR_unbounded_false :
    ¬ ∀ (data : Array Nat), data.size ≠ 0 →
      ∀ s ∈ newQRSegs ((4 + 14) * 6) ((4 + 13) * 6) ((4 + 16) * 6) [0, 1, 2, 4] data,
        (s.mode = 1 ∨ s.mode = 2 ∨ s.mode = 4) ∧
        (s.mode = 1 → ∀ b ∈ s.data, isNumeric b = true) ∧
        (s.mode = 2 → ∀ b ∈ s.data, isAlphanumeric b = true) := by
  intro h
  have hsz : (Array.replicate (2 ^ 60) (0 : Nat)).size = 2 ^ 60 := Array.size_replicate
  obtain ⟨s, hs, hm⟩ := newQR_long_mode0 ((4 + 14) * 6) ((4 + 13) * 6) ((4 + 16) * 6) [0, 1, 2, 4]
    (Array.replicate (2 ^ 60) 0) (by rw [hsz]; omega) (by rw [hsz]; unfold inf; omega)
  have := (h _ (by rw [hsz]; omega) s hs).1
  rw [hm] at this
  simp at this
/-! ### the size bound of `newKanji_concat'` is needed -/

/-- a payload of `n` bytes 0x80: no class test passes, no character is kanji -/
def badData (n : Nat) : Array Nat := Array.replicate n 0x80

theorem badData_size (n : Nat) : (badData n).size = n := Array.size_replicate

theorem badData_get (n i : Nat) (h : i < n) : (badData n)[i]! = 0x80 := by
  unfold badData
  rw [getElem!_pos _ _ (by simpa using h)]; simp

theorem badData_kanC (n i : Nat) (h : i < n) : ¬ kanC (badData n) i := by
  intro hc
  apply hc.1
  have : (badData n).toList.drop i = 0x80 :: List.replicate (n - i - 1) 0x80 := by
    unfold badData
    rw [Array.toList_replicate, List.drop_replicate]
    obtain ⟨k, hk⟩ : ∃ k, n - i = k + 1 := ⟨n - i - 1, by omega⟩
    rw [show n - i - 1 = k by omega, hk, List.replicate_succ]
  rw [this]
  simp [Utf8.decodeRune]

theorem StK.ext' {a b : StK} (h1 : a.cost = b.cost) (h2 : a.lastMode = b.lastMode) (h3 : a.data = b.data) : a = b := by
  cases a; cases b; simp at h1 h2 h3; simp [h1, h2, h3]

structure KLB (n i : Nat) (S : Array (Array StK)) : Prop where
  shape : Shape n S
  e1 : ∀ k m, 1 ≤ k → k ≤ i → (m = 1 ∨ m = 2 ∨ m = 4) → gK S k m = infK (some (k - 1, 0))
  fut : ∀ k, i < k → (gK S k 4).data = none
  lb3 : ∀ k, 1 ≤ k → k ≤ i → min (48 * k) inf ≤ (gK S k 3).cost

theorem klb_step {n i : Nat} {S : Array (Array StK)} (hI : KLB n i S) (hi : i < n) :
    KLB n (i + 1) (stepK (badData n) i S) := by
  have hshape : Shape (badData n).size S := by rw [badData_size]; exact hI.shape
  obtain ⟨hsh, hcl⟩ := stepK_cases (badData n) hshape i (by rw [badData_size]; exact hi)
  have hnk := badData_kanC n i hi
  have hrow := rowK_get hI.shape i (by omega)
  refine ⟨by rw [badData_size] at hsh; exact hsh, ?_, ?_, ?_⟩
  · intro k m hk1 hk hm
    rcases hcl k m with h | h | h | h
    · have hm4 : k = i + 1 → m = 4 := by
        intro hk'; have := h.2.2.2; omega
      by_cases hki : k ≤ i
      · have e := hI.e1 k m hk1 hki hm
        obtain ⟨a, b, c⟩ := h.1
        rw [e] at a b c
        apply StK.ext' _ a b
        rcases c with c | c <;> exact c
      · have hk' : k = i + 1 := by omega
        have := hm4 hk'
        subst this; subst hk'
        rcases h.2.2.1 rfl rfl with ⟨hc, _⟩ | hd
        · exact absurd hc hnk
        · exact absurd (hI.fut (i + 1) (by omega)) hd
    · obtain ⟨hk', _, _, he⟩ := h
      subst hk'
      rw [he, Nat.add_sub_cancel]
      unfold new123
      have hnum : isNumeric (badData n)[i]! = false := by rw [badData_get n i hi]; decide
      have haln : isAlphanumeric (badData n)[i]! = false := by rw [badData_get n i hi]; decide
      rcases hm with rfl | rfl | rfl
      · rw [if_neg (by omega), if_neg (by omega), hnum]; rfl
      · rw [if_neg (by omega), if_pos rfl, haln]; rfl
      · omega
    · exact absurd h.2.1 hnk
    · obtain ⟨_, hk', he⟩ := h
      subst hk'
      rw [he, Nat.add_sub_cancel]
  · intro k hk
    rcases hcl k 4 with h | h | h | h
    · rw [h.1.2.1]; exact hI.fut k (by omega)
    · omega
    · exact absurd h.2.1 hnk
    · omega
  · intro k hk1 hk
    rcases hcl k 3 with h | h | h | h
    · by_cases hki : k ≤ i
      · rcases h.2.1 with h' | h' | h'
        · omega
        · omega
        · rw [h']; exact hI.lb3 k hk1 hki
      · exact absurd ⟨by omega, by omega, by omega⟩ h.2.2.2
    · obtain ⟨hk', _, _, he⟩ := h
      subst hk'
      rw [he]
      unfold new123
      rw [if_pos rfl]
      show min (48 * (i + 1)) inf ≤ (transK (rowK i S) 3 48 ((4 + 16) * 6)).1
      obtain ⟨h4, h0, hne, _, _⟩ := transK_spec (rowK i S) 3 48 ((4 + 16) * 6)
      by_cases hl : (transK (rowK i S) 3 48 ((4 + 16) * 6)).2 = 0
      · rw [h0 hl, hrow]
        by_cases hi0 : i = 0
        · subst hi0; omega
        · rw [if_pos ⟨rfl, hi0⟩]
          show min (48 * (i + 1)) inf ≤ inf + _ + _
          omega
      · rw [hne hl]
        unfold cstK
        rw [hrow, if_neg (by omega)]
        by_cases hi0 : i = 0
        · subst hi0; omega
        · by_cases h3 : (transK (rowK i S) 3 48 ((4 + 16) * 6)).2 = 3
          · rw [h3]
            have := hI.lb3 i (by omega) (Nat.le_refl _)
            omega
          · rw [hI.e1 i _ (by omega) (Nat.le_refl _) (by omega)]
            show min (48 * (i + 1)) inf ≤ inf + _ + _
            omega
    · omega
    · omega

theorem klb_init (n : Nat) : KLB n 0 (initK n) := by
  refine ⟨?_, fun k m h1 h2 => by omega, fun k _ => (gK_init_lastMode n k 4).2, fun k h1 h2 => by omega⟩
  have := (invK_init (badData n)).shape
  rw [badData_size] at this
  exact this

/-- the kanji programme on `n` bytes 0x80 with `48 * n ≥ inf`: one empty segment -/
theorem tailK_bad (ml : List Nat) (n : Nat) (S : Array (Array StK)) (hn : 1 ≤ n) (hbig : inf ≤ 48 * n)
    (hI : KLB n n S) :
    tailK ml (badData n) S = .ok [{ mode := ml[1]?.getD 0, data := [] }] := by
  unfold tailK
  rw [badData_size]
  have e1 : ∀ m, m = 1 ∨ m = 2 ∨ m = 4 → (S[n]!)[m]! = infK (some (n - 1, 0)) :=
    fun m hm => hI.e1 n m hn (Nat.le_refl _) hm
  have e3 : inf ≤ ((S[n]!)[3]!).cost := by
    have := hI.lb3 n hn (Nat.le_refl _)
    show inf ≤ (gK S n 3).cost
    omega
  obtain ⟨p, hp, hpe⟩ := pick_ok S[n]! (fun _ s => s = (inf, 1)) (((S[n]!)[1]!).cost, 1)
    (by rw [e1 1 (by omega)]; rfl)
    (fun k s h2 h5 hs => by
      subst hs
      have : k = 2 ∨ k = 3 ∨ k = 4 := by omega
      rcases this with rfl | rfl | rfl
      · rw [e1 2 (by omega)]; rw [if_neg (by show ¬ inf < inf; omega)]
      · rw [if_neg (by show ¬ _ < inf; omega)]
      · rw [e1 4 (by omega)]; rw [if_neg (by show ¬ inf < inf; omega)])
  rw [hp]
  subst hpe
  simp only [Out.bind_ok]
  rw [e1 1 (by omega)]
  have hslice : sliceK (badData n) (infK (some (n - 1, 0))).data = [] := by
    simp [sliceK, infK]
  rw [hslice]
  obtain ⟨r, hr, hR⟩ := forIn_out_range (backMK (badData n) S)
    (fun t (s : BackSt) => (t = 0 → s = (1, #[(1, [])], n, false)) ∧ (1 ≤ t → s = (0, #[(1, [])], n, true)))
    0 (2 * n + 4) ((1, #[(1, [])], n, false) : BackSt) (Nat.zero_le _) ⟨fun _ => rfl, fun h => by omega⟩
    (fun t s _ _ ⟨h0, h1⟩ => by
      by_cases ht : t = 0
      · have := h0 ht
        subst this
        refine ⟨(0, #[(1, [])], n, true), ?_, fun h => by omega, fun _ => rfl⟩
        unfold backMK
        rw [if_pos (by rfl)]
        simp only []
        rw [e1 1 (by omega)]
        rfl
      · have := h1 (by omega)
        subst this
        refine ⟨(0, #[(1, [])], n, true), ?_, fun h => by omega, fun _ => rfl⟩
        unfold backMK
        rw [if_neg (by simp)]
        rfl)
  rw [hr]
  have := hR.2 (by omega)
  subst this
  rfl

theorem newKanji_bad (ml : List Nat) (n : Nat) (hn : 1 ≤ n) (hbig : inf ≤ 48 * n) :
    newKanjiSegs ml (badData n) = .ok [{ mode := ml[1]?.getD 0, data := [] }] := by
  have hI : ∃ S, forIn [0:(badData n).size] (initK (badData n).size) (fillMK (badData n)) = .ok S ∧
      KLB n (badData n).size S :=
    fillK_ind (badData n) (fun i S => KLB n i S)
      (by rw [badData_size]; exact klb_init _)
      (fun i S hi hI => klb_step hI (by rw [badData_size] at hi; exact hi))
  obtain ⟨S, hS, hK⟩ := hI
  rw [badData_size] at hK
  rw [newKanjiSegs_eq, hS]
  exact tailK_bad ml n S hn hbig hK

/-- the statement of `newKanji_concat` without a bound on the payload length is false -/
theorem newKanji_concat_unbounded_false :
    ¬ ∀ (ml : List Nat) (data : Array Nat), data.size ≠ 0 → ∀ (segs : List Segment),
      newKanjiSegs ml data = .ok segs →
      segs.flatMap (·.data) = data.toList ∧ ∀ s ∈ segs, s.data ≠ [] := by
  intro h
  have hbig : inf ≤ 48 * 2 ^ 60 := by unfold inf; omega
  have heq := newKanji_bad [] (2 ^ 60) (by omega) hbig
  have := (h [] (badData (2 ^ 60)) (by rw [badData_size]; omega) _ heq).2 _ (List.mem_singleton.2 rfl)
  exact this rfl
end QRV.Lemmas.NewDP
