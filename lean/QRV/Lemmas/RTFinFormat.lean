import QRV.Lemmas.RTDefs
import QRV.Lemmas.Finite
/-
Kernel-evaluated facts about the generated tables needed by the format / version information part
of the round trip: the modules written by `placeFormat` and by the version-information loop are
function modules of the used-module bitmap of every version; every format word has 15 bits.
-/
namespace QRV.Lemmas.RT
open QRV QRV.Lemmas

set_option maxRecDepth 1000000

/-- `skipTimingPattern` on naturals -/
def sk (i : Nat) : Nat := if i < 6 then i else i + 1

/-- modules written by `placeFormat` for version v (natural coordinates) -/
def fmtPos (v : Nat) : List (Nat × Nat) :=
  let n := 17 + 4 * v
  (List.range 8).flatMap (fun i => [(8, sk i), (sk i, 8), (n - 1 - i, 8), (8, n - 1 - i)]) ++ [(8, n - 8)]

/-- modules written by the version-information loop -/
def verPos (v : Nat) : List (Nat × Nat) :=
  let n := 17 + 4 * v
  (List.range 18).flatMap (fun i => [(i / 3, n - 11 + i % 3), (n - 11 + i % 3, i / 3)])

def fmtCheck (v : Nat) : Bool :=
  let g := usedGen v
  (fmtPos v).all (fun p => rowBit g.rows g.stride p.1 p.2) &&
    (decide (v < 7) || (verPos v).all (fun p => rowBit g.rows g.stride p.1 p.2))

theorem fmt_check_all : (List.range 41).all (fun v => v == 0 || fmtCheck v) = true := by
  decide +kernel

theorem fmt_check (v : Nat) (h1 : 1 ≤ v) (h40 : v ≤ 40) : fmtCheck v = true := by
  have h := forall_lt_of_all fmt_check_all v (by omega)
  simp only [Bool.or_eq_true, beq_iff_eq] at h
  rcases h with h | h
  · omega
  · exact h

theorem format_words_lt : Gen.QR.encodedFormat.all (fun c => decide (c < 2 ^ 15)) = true := by
  decide +kernel

theorem format_words_length : Gen.QR.encodedFormat.length = 32 := by decide +kernel

theorem version_words_length : Gen.QR.encodedVersion.length = 41 := by decide +kernel

end QRV.Lemmas.RT
