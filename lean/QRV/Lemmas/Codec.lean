import QRV.Props.C16
import QRV.Lemmas.KanjiFinite
/-
Lemmas for C17: the codecs of `QRV.Model.Codec` against the layouts of `QRV.Spec.Codec`, over the
refinement results of C16.
-/
namespace QRV.Lemmas.Codec
open QRV QRV.Model.Bits QRV.Model.Codec QRV.Spec.Bits QRV.Spec.Codec QRV.Props.C16 QRV.Lemmas.Kanji
open QRV.Lemmas.Bits

/-! ### character classes -/

theorem isNumeric_iff (ch : Nat) : isNumeric ch = true ↔ (48 ≤ ch ∧ ch ≤ 57) := by
  simp [isNumeric]

theorem alnumChars_lt : ∀ x ∈ alnumChars, x < 256 := by decide

theorem alnumIdx_eq_alnumValue (ch : Nat) : alnumIdx ch = alnumValue ch := by
  by_cases h : ch < 256
  · have := class_tables ch h
    simp only [classOK, Bool.and_eq_true, beq_iff_eq] at this
    exact this.1
  · have h1 : Gen.Kanji.alnumIdx[ch]? = none :=
      List.getElem?_eq_none (by rw [alnum_len.2]; omega)
    have h2 : ¬ alnumChars.idxOf ch < 45 := by
      intro hlt
      have hm : ch ∈ alnumChars := List.idxOf_lt_length_iff.mp (by simpa [alnumChars] using hlt)
      exact h (alnumChars_lt ch hm)
    unfold alnumIdx alnumValue
    rw [h1]
    simp only [if_neg h2]

theorem alnumChars_length : alnumChars.length = 45 := by decide

/-- an alphanumeric character has an index below 45 whose table character is the character -/
theorem alnum_roundtrip (ch : Nat) (h : isAlphanumeric ch = true) :
    ∃ i, alnumValue ch = some i ∧ i < 45 ∧ alnumChar i = ch := by
  unfold isAlphanumeric at h
  rw [alnumIdx_eq_alnumValue] at h
  unfold alnumValue at h ⊢
  by_cases hlt : alnumChars.idxOf ch < 45
  · refine ⟨alnumChars.idxOf ch, by simp only [if_pos hlt], hlt, ?_⟩
    have h1 := alnum_chars _ hlt
    have hl : alnumChars.idxOf ch < alnumChars.length := by rw [alnumChars_length]; exact hlt
    rw [List.getElem?_eq_getElem hl, List.getElem_idxOf hl] at h1
    exact Option.some.inj h1
  · simp only [if_neg hlt] at h
    exact absurd h (by decide)

theorem alnumChar_isAlphanumeric : ∀ i, i < 45 → isAlphanumeric (alnumChar i) = true :=
  forall_lt_of_all (by decide +kernel)

/-! ### kanji tables -/

theorem decLen_le : Gen.Kanji.decLen ≤ 8192 := decode_table_is_sjis.1

theorem decode_cases (code : Nat) (h : code < 8192) :
    (code < Gen.Kanji.decLen ∧ decodeKanjiCode code = some (refAt code)) ∨
    (decodeKanjiCode code = none ∧ refAt code = 0) := by
  have := decode_entries code h
  unfold decEntryOK at this
  split at this
  · left; exact ⟨‹_›, by simpa using this⟩
  · right; simpa using this

theorem encode_in_range (r c : Nat) (h : encodeKanjiRune r = some c) :
    ∃ low len, (∀ k, k < len → encCellOK low k = true) ∧ low ≤ r ∧ r - low < len := by
  open Gen.Kanji in
  obtain ⟨l0, l1, l2, l3, l4⟩ := encode_range_lengths
  by_cases h0 : enc0Low ≤ r ∧ r ≤ enc0High
  · exact ⟨_, _, encode_cells0, h0.1, by omega⟩
  by_cases h1 : enc1Low ≤ r ∧ r ≤ enc1High
  · exact ⟨_, _, encode_cells1, h1.1, by omega⟩
  by_cases h2 : enc2Low ≤ r ∧ r ≤ enc2High
  · exact ⟨_, _, encode_cells2, h2.1, by omega⟩
  by_cases h3 : enc3Low ≤ r ∧ r ≤ enc3High
  · exact ⟨_, _, encode_cells3, h3.1, by omega⟩
  by_cases h4 : enc4Low ≤ r ∧ r ≤ enc4High
  · exact ⟨_, _, encode_cells4, h4.1, by omega⟩
  exfalso
  unfold encodeKanjiRune at h
  simp only [if_neg h0, if_neg h1, if_neg h2, if_neg h3, if_neg h4] at h
  exact absurd h (by simp)

theorem encode_some (r c : Nat) (h : encodeKanjiRune r = some c) :
    c < 8192 ∧ refAt c = r ∧ r ≠ 0 := by
  obtain ⟨low, len, hc, hl, hk⟩ := encode_in_range r c h
  have := hc (r - low) hk
  unfold encCellOK at this
  rw [show low + (r - low) = r by omega, h] at this
  simp only [Bool.and_eq_true, decide_eq_true_eq, beq_iff_eq, bne_iff_ne, ne_eq] at this
  exact ⟨by have := decLen_le; omega, this.1.2, this.2⟩

theorem encode_least (c' : Nat) (h : c' < 8192) (hr : refAt c' ≠ 0) :
    ∃ c, encodeKanjiRune (refAt c') = some c ∧ c ≤ c' := by
  have := encode_is_least c' h
  unfold encLeastOK at this
  simp only [Bool.or_eq_true, beq_iff_eq, hr, false_or] at this
  split at this
  · rename_i c hc
    simp only [Bool.and_eq_true, decide_eq_true_eq, beq_iff_eq] at this
    exact ⟨c, hc, this.1⟩
  · exact absurd this (by decide)

/-! ### writes -/

theorem wr_refines (b : Buffer) (h : Inv b) (v n : Nat) (hn : n ≤ 64) :
    ∃ b', wr b v n = .ok b' ∧ Inv b' ∧ abs b' = abs b ++ bitsMSB v n ∧
      b'.offset = b.offset ∧ b'.read = b.read :=
  writeBitsLSB_refines b h v n hn

theorem encodeNumeric_go (data : List Nat) : ∀ (b : Buffer), Inv b →
    ∃ b', encodeNumeric.go b data = .ok b' ∧ Inv b' ∧ abs b' = abs b ++ numericBits data ∧
      b'.offset = b.offset ∧ b'.read = b.read := by
  induction data using numericBits.induct with
  | case1 a b c rest ih =>
    intro buf h
    obtain ⟨b₁, e₁, i₁, a₁, o₁, r₁⟩ := wr_refines buf h ((a - 48) * 100 + (b - 48) * 10 + (c - 48)) 10 (by decide)
    obtain ⟨b₂, e₂, i₂, a₂, o₂, r₂⟩ := ih b₁ i₁
    refine ⟨b₂, ?_, i₂, ?_, by omega, by omega⟩
    · rw [encodeNumeric.go, e₁]; exact e₂
    · rw [a₂, a₁, numericBits, List.append_assoc]; rfl
  | case2 a b =>
    intro buf h
    exact wr_refines buf h ((a - 48) * 10 + (b - 48)) 7 (by decide)
  | case3 a =>
    intro buf h
    exact wr_refines buf h (a - 48) 4 (by decide)
  | case4 =>
    intro buf h
    exact ⟨buf, rfl, h, by simp [numericBits], rfl, rfl⟩

theorem encodeAlphanumeric_go (data : List Nat) : ∀ (b : Buffer), Inv b →
    ∃ b', encodeAlphanumeric.go b data = .ok b' ∧ Inv b' ∧ abs b' = abs b ++ alnumBits data ∧
      b'.offset = b.offset ∧ b'.read = b.read := by
  induction data using alnumBits.induct with
  | case1 a b rest ih =>
    intro buf h
    obtain ⟨b₁, e₁, i₁, a₁, o₁, r₁⟩ := wr_refines buf h ((alnumIdx a).getD 0 * 45 + (alnumIdx b).getD 0) 11 (by decide)
    obtain ⟨b₂, e₂, i₂, a₂, o₂, r₂⟩ := ih b₁ i₁
    refine ⟨b₂, ?_, i₂, ?_, by omega, by omega⟩
    · rw [encodeAlphanumeric.go, e₁]; exact e₂
    · rw [a₂, a₁, alnumBits, List.append_assoc, alnumIdx_eq_alnumValue, alnumIdx_eq_alnumValue]
  | case2 a =>
    intro buf h
    have := wr_refines buf h ((alnumIdx a).getD 0) 6 (by decide)
    rw [alnumBits, ← alnumIdx_eq_alnumValue]
    exact this
  | case3 =>
    intro buf h
    exact ⟨buf, rfl, h, by simp [alnumBits], rfl, rfl⟩

theorem encodeBytes_go (data : List Nat) : ∀ (b : Buffer), Inv b →
    ∃ b', encodeBytes b data = .ok b' ∧ Inv b' ∧ abs b' = abs b ++ byteBits data ∧
      b'.offset = b.offset ∧ b'.read = b.read := by
  induction data with
  | nil =>
    intro buf h
    exact ⟨buf, rfl, h, by simp [byteBits], rfl, rfl⟩
  | cons a rest ih =>
    intro buf h
    obtain ⟨b₁, e₁, i₁, a₁, o₁, r₁⟩ := wr_refines buf h a 8 (by decide)
    obtain ⟨b₂, e₂, i₂, a₂, o₂, r₂⟩ := ih b₁ i₁
    refine ⟨b₂, ?_, i₂, ?_, by omega, by omega⟩
    · rw [encodeBytes, e₁]; exact e₂
    · rw [a₂, a₁, byteBits, List.append_assoc]

theorem encodeKanji_go (rs : List Nat) : ∀ (b : Buffer), Inv b → (∀ r ∈ rs, isKanji r = true) →
    ∃ b', encodeKanji.go b rs = .ok b' ∧ Inv b' ∧
      abs b' = abs b ++ kanjiBits (rs.map fun r => (encodeKanjiRune r).getD 0) ∧
      b'.offset = b.offset ∧ b'.read = b.read := by
  induction rs with
  | nil =>
    intro buf h _
    exact ⟨buf, rfl, h, by simp [kanjiBits], rfl, rfl⟩
  | cons r rest ih =>
    intro buf h hk
    have hr : isKanji r = true := hk r (List.mem_cons_self ..)
    unfold isKanji at hr
    obtain ⟨code, hc⟩ := Option.isSome_iff_exists.mp hr
    obtain ⟨b₁, e₁, i₁, a₁, o₁, r₁⟩ := wr_refines buf h code 13 (by decide)
    obtain ⟨b₂, e₂, i₂, a₂, o₂, r₂⟩ := ih b₁ i₁ (fun x hx => hk x (List.mem_cons_of_mem _ hx))
    refine ⟨b₂, ?_, i₂, ?_, by omega, by omega⟩
    · rw [encodeKanji.go, hc]
      simp only [e₁]; exact e₂
    · rw [a₂, a₁, List.map_cons, kanjiBits, List.append_assoc, hc]; rfl

theorem encodeKanji_go_rejects (rs : List Nat) : ∀ (b : Buffer), Inv b → (∃ r ∈ rs, isKanji r = false) →
    (encodeKanji.go b rs).isErr = true := by
  induction rs with
  | nil => intro _ _ ⟨r, hr, _⟩; cases hr
  | cons r rest ih =>
    intro buf h hk
    cases hc : encodeKanjiRune r with
    | none => rw [encodeKanji.go, hc]; rfl
    | some code =>
      obtain ⟨b₁, e₁, i₁, -⟩ := wr_refines buf h code 13 (by decide)
      rw [encodeKanji.go, hc]
      simp only [e₁]
      refine ih b₁ i₁ ?_
      obtain ⟨x, hx, hxk⟩ := hk
      rcases List.mem_cons.mp hx with rfl | hx'
      · unfold isKanji at hxk; rw [hc] at hxk; cases hxk
      · exact ⟨x, hx', hxk⟩

/-! ### reads -/

/-- read cursor in bits (`Props.C17.cursor`) -/
def cur (b : Buffer) : Nat := 8 * b.offset + b.read

/-- the unread part of the byte image (`Props.C17.unread`) -/
def unr (b : Buffer) : List Bool := (unpack b.buf.toList).drop (cur b)

/-- reading an n-bit group that is wholly present in the image -/
theorem rd_ok (b : Buffer) (h : Inv b) (hr : b.read < 8) (n v : Nat) (hn : n ≤ 64) (hn0 : 0 < n)
    (rest : List Bool) (hu : unr b = bitsMSB v n ++ rest) :
    ∃ b', rd b n = .ok (b', v % 2 ^ n) ∧ Inv b' ∧ b'.buf = b.buf ∧ b'.wrote = b.wrote ∧ b'.read < 8 ∧
      cur b' = cur b + n ∧ unr b' = rest := by
  obtain ⟨b', r, e, hf, hb, hw, hi, hr'⟩ := readBits_refines b h hr n hn
  have himg : (fifo b).image = unpack b.buf.toList := image_fifoOf b ((inv_iff b).1 h)
  have hcur : (fifo b).cursor = cur b := rfl
  have hlen : cur b + n ≤ (unpack b.buf.toList).length := by
    have := congrArg List.length hu
    rw [unr, List.length_drop, List.length_append, length_bitsMSB] at this
    omega
  have hdrop : (unpack b.buf.toList).drop (cur b) = bitsMSB v n ++ rest := hu
  unfold Fifo.readBits at hf
  simp only [himg, hcur] at hf
  rw [if_neg (by omega), hdrop, List.take_left' (length_bitsMSB v n), length_bitsMSB, toNat_bitsMSB,
    Nat.sub_self, Nat.pow_zero, Nat.mul_one] at hf
  have hf1 := congrArg Prod.fst hf
  have hf2 := congrArg Prod.snd hf
  simp only at hf1 hf2
  have hc : cur b' = cur b + n := (congrArg Fifo.cursor hf1).symm
  refine ⟨b', ?_, hi, hb, hw, hr', hc, ?_⟩
  · unfold rd; rw [e, ← hf2]; rfl
  · unfold unr; rw [hc, hb, ← List.drop_drop, hdrop, List.drop_left' (length_bitsMSB v n)]

theorem foldl_push_toList (l : List Nat) : ∀ acc : Array Nat, (l.foldl Array.push acc).toList = acc.toList ++ l := by
  induction l with
  | nil => intro acc; simp
  | cons x l ih => intro acc; rw [List.foldl_cons, ih, Array.toList_push, List.append_assoc]; rfl

theorem pow10 : (2 : Nat) ^ 10 = 1024 := by decide
theorem pow7 : (2 : Nat) ^ 7 = 128 := by decide
theorem pow4 : (2 : Nat) ^ 4 = 16 := by decide
theorem pow11 : (2 : Nat) ^ 11 = 2048 := by decide
theorem pow6 : (2 : Nat) ^ 6 = 64 := by decide
theorem pow8 : (2 : Nat) ^ 8 = 256 := by decide
theorem pow13 : (2 : Nat) ^ 13 = 8192 := by decide

/-! ### decoders: inverse -/

theorem decodeBytes_go (data : List Nat) : ∀ (b : Buffer) (acc : Array Nat) (rest : List Bool),
    Inv b → b.read < 8 → (∀ ch ∈ data, ch < 256) → unr b = byteBits data ++ rest →
    ∃ b', decodeBytes.go b acc data.length = .ok (b', acc.toList ++ data) ∧ b'.buf = b.buf ∧
      b'.wrote = b.wrote ∧ b'.read < 8 ∧ cur b' = cur b + (byteBits data).length := by
  induction data with
  | nil =>
    intro b acc rest _ hr _ _
    exact ⟨b, by simp [decodeBytes.go], rfl, rfl, hr, by simp [byteBits]⟩
  | cons a l ih =>
    intro b acc rest h hr hd hu
    rw [byteBits, List.append_assoc] at hu
    obtain ⟨b₁, e₁, i₁, hb₁, hw₁, hr₁, hc₁, hu₁⟩ := rd_ok b h hr 8 a (by decide) (by decide) _ hu
    have ha : a % 2 ^ 8 = a := Nat.mod_eq_of_lt (by have := hd a (List.mem_cons_self ..); rw [pow8]; omega)
    rw [ha] at e₁
    obtain ⟨b₂, e₂, hb₂, hw₂, hr₂, hc₂⟩ := ih b₁ (acc.push a) rest i₁ hr₁
      (fun x hx => hd x (List.mem_cons_of_mem _ hx)) hu₁
    refine ⟨b₂, ?_, by rw [hb₂, hb₁], by rw [hw₂, hw₁], hr₂, ?_⟩
    · rw [List.length_cons, decodeBytes.go, e₁]
      simp only [Out.bind_ok]
      rw [e₂, Array.toList_push, List.append_assoc]; rfl
    · rw [hc₂, hc₁, byteBits, List.length_append, length_bitsMSB]; omega

theorem decodeNumeric_go (data : List Nat) : ∀ (b : Buffer) (acc : Array Nat) (rest : List Bool),
    Inv b → b.read < 8 → (∀ ch ∈ data, isNumeric ch = true) → unr b = numericBits data ++ rest →
    ∃ b', decodeNumeric.go b acc data.length = .ok (b', acc.toList ++ data) ∧ b'.buf = b.buf ∧
      b'.wrote = b.wrote ∧ b'.read < 8 ∧ cur b' = cur b + (numericBits data).length := by
  induction data using numericBits.induct with
  | case1 x y z l ih =>
    intro b acc rest h hr hd hu
    have hx := (isNumeric_iff x).1 (hd x (by simp))
    have hy := (isNumeric_iff y).1 (hd y (by simp))
    have hz := (isNumeric_iff z).1 (hd z (by simp))
    rw [numericBits, List.append_assoc] at hu
    obtain ⟨v, hv⟩ : ∃ v, v = digit x * 100 + digit y * 10 + digit z := ⟨_, rfl⟩
    rw [← hv] at hu
    unfold digit at hv
    obtain ⟨b₁, e₁, i₁, hb₁, hw₁, hr₁, hc₁, hu₁⟩ := rd_ok b h hr 10 v (by decide) (by decide) _ hu
    have ha : v % 2 ^ 10 = v := Nat.mod_eq_of_lt (by rw [pow10]; omega)
    rw [ha] at e₁
    obtain ⟨b₂, e₂, hb₂, hw₂, hr₂, hc₂⟩ := ih b₁ (((acc.push x).push y).push z) rest i₁ hr₁
      (fun c hc => hd c (by simp [hc])) hu₁
    have h1 : v / 100 + 48 = x := by omega
    have h2 : v / 10 % 10 + 48 = y := by omega
    have h3 : v % 10 + 48 = z := by omega
    refine ⟨b₂, ?_, by rw [hb₂, hb₁], by rw [hw₂, hw₁], hr₂, ?_⟩
    · show decodeNumeric.go b acc (l.length + 3) = _
      rw [decodeNumeric.go, e₁]
      simp only [Out.bind_ok]
      rw [if_neg (by omega), h1, h2, h3, e₂]
      simp [Array.toList_push]
    · rw [hc₂, hc₁, numericBits, List.length_append, length_bitsMSB]; omega
  | case2 x y =>
    intro b acc rest h hr hd hu
    have hx := (isNumeric_iff x).1 (hd x (by simp))
    have hy := (isNumeric_iff y).1 (hd y (by simp))
    rw [numericBits] at hu
    obtain ⟨v, hv⟩ : ∃ v, v = digit x * 10 + digit y := ⟨_, rfl⟩
    rw [← hv] at hu
    unfold digit at hv
    obtain ⟨b₁, e₁, i₁, hb₁, hw₁, hr₁, hc₁, hu₁⟩ := rd_ok b h hr 7 v (by decide) (by decide) _ hu
    have ha : v % 2 ^ 7 = v := Nat.mod_eq_of_lt (by rw [pow7]; omega)
    rw [ha] at e₁
    have h1 : v / 10 + 48 = x := by omega
    have h2 : v % 10 + 48 = y := by omega
    refine ⟨b₁, ?_, hb₁, hw₁, hr₁, ?_⟩
    · show decodeNumeric.go b acc 2 = _
      rw [decodeNumeric.go, e₁]
      simp only [Out.bind_ok]
      rw [if_neg (by omega), h1, h2]
      simp [Array.toList_push, pure]
    · rw [hc₁, numericBits, length_bitsMSB]
  | case3 x =>
    intro b acc rest h hr hd hu
    have hx := (isNumeric_iff x).1 (hd x (by simp))
    rw [numericBits] at hu
    obtain ⟨v, hv⟩ : ∃ v, v = digit x := ⟨_, rfl⟩
    rw [← hv] at hu
    unfold digit at hv
    obtain ⟨b₁, e₁, i₁, hb₁, hw₁, hr₁, hc₁, hu₁⟩ := rd_ok b h hr 4 v (by decide) (by decide) _ hu
    have ha : v % 2 ^ 4 = v := Nat.mod_eq_of_lt (by rw [pow4]; omega)
    rw [ha] at e₁
    have h1 : v + 48 = x := by omega
    refine ⟨b₁, ?_, hb₁, hw₁, hr₁, ?_⟩
    · show decodeNumeric.go b acc 1 = _
      rw [decodeNumeric.go, e₁]
      simp only [Out.bind_ok]
      rw [if_neg (by omega), h1]
      simp [Array.toList_push, pure]
    · rw [hc₁, numericBits, length_bitsMSB]
  | case4 =>
    intro b acc rest _ hr _ _
    exact ⟨b, by simp [decodeNumeric.go], rfl, rfl, hr, by simp [numericBits]⟩

theorem decodeAlphanumeric_go (data : List Nat) : ∀ (b : Buffer) (acc : Array Nat) (rest : List Bool),
    Inv b → b.read < 8 → (∀ ch ∈ data, isAlphanumeric ch = true) → unr b = alnumBits data ++ rest →
    ∃ b', decodeAlphanumeric.go b acc data.length = .ok (b', acc.toList ++ data) ∧ b'.buf = b.buf ∧
      b'.wrote = b.wrote ∧ b'.read < 8 ∧ cur b' = cur b + (alnumBits data).length := by
  induction data using alnumBits.induct with
  | case1 x y l ih =>
    intro b acc rest h hr hd hu
    obtain ⟨i, hi, hi45, hix⟩ := alnum_roundtrip x (hd x (by simp))
    obtain ⟨j, hj, hj45, hjy⟩ := alnum_roundtrip y (hd y (by simp))
    rw [alnumBits, List.append_assoc, hi, hj, Option.getD_some, Option.getD_some] at hu
    obtain ⟨v, hv⟩ : ∃ v, v = i * 45 + j := ⟨_, rfl⟩
    rw [← hv] at hu
    obtain ⟨b₁, e₁, i₁, hb₁, hw₁, hr₁, hc₁, hu₁⟩ := rd_ok b h hr 11 v (by decide) (by decide) _ hu
    have ha : v % 2 ^ 11 = v := Nat.mod_eq_of_lt (by rw [pow11]; omega)
    rw [ha] at e₁
    obtain ⟨b₂, e₂, hb₂, hw₂, hr₂, hc₂⟩ := ih b₁ ((acc.push x).push y) rest i₁ hr₁
      (fun c hc => hd c (by simp [hc])) hu₁
    have h1 : v / 45 = i := by omega
    have h2 : v % 45 = j := by omega
    refine ⟨b₂, ?_, by rw [hb₂, hb₁], by rw [hw₂, hw₁], hr₂, ?_⟩
    · show decodeAlphanumeric.go b acc (l.length + 2) = _
      rw [decodeAlphanumeric.go, e₁]
      simp only [Out.bind_ok]
      rw [h1, h2, if_neg (by omega), hix, hjy, e₂]
      simp [Array.toList_push]
    · rw [hc₂, hc₁, alnumBits, List.length_append, length_bitsMSB]; omega
  | case2 x =>
    intro b acc rest h hr hd hu
    obtain ⟨i, hi, hi45, hix⟩ := alnum_roundtrip x (hd x (by simp))
    rw [alnumBits, hi, Option.getD_some] at hu
    obtain ⟨b₁, e₁, i₁, hb₁, hw₁, hr₁, hc₁, hu₁⟩ := rd_ok b h hr 6 i (by decide) (by decide) _ hu
    have ha : i % 2 ^ 6 = i := Nat.mod_eq_of_lt (by rw [pow6]; omega)
    rw [ha] at e₁
    refine ⟨b₁, ?_, hb₁, hw₁, hr₁, ?_⟩
    · show decodeAlphanumeric.go b acc 1 = _
      rw [decodeAlphanumeric.go, e₁]
      simp only [Out.bind_ok]
      rw [if_neg (by omega), hix]
      simp [Array.toList_push, pure]
    · rw [hc₁, alnumBits, length_bitsMSB]
  | case3 =>
    intro b acc rest _ hr _ _
    exact ⟨b, by simp [decodeAlphanumeric.go], rfl, rfl, hr, by simp [alnumBits]⟩

theorem kanjiBits_length (codes : List Nat) : (kanjiBits codes).length = 13 * codes.length := by
  induction codes with
  | nil => rfl
  | cons c l ih => rw [kanjiBits, List.length_append, length_bitsMSB, ih, List.length_cons]; omega

theorem decodeKanji_go (codes : List Nat) : ∀ (b : Buffer) (acc : Array Nat) (rest : List Bool),
    Inv b → b.read < 8 → (∀ c ∈ codes, c < 8192 ∧ refAt c ≠ 0) → unr b = kanjiBits codes ++ rest →
    ∃ b', decodeKanji.go b acc codes.length =
        .ok (b', acc.toList ++ codes.flatMap fun c => Model.Utf8.encodeRune (refAt c)) ∧
      b'.buf = b.buf ∧ b'.wrote = b.wrote ∧ b'.read < 8 ∧ cur b' = cur b + 13 * codes.length := by
  induction codes with
  | nil =>
    intro b acc rest _ hr _ _
    exact ⟨b, by simp [decodeKanji.go], rfl, rfl, hr, by simp⟩
  | cons c l ih =>
    intro b acc rest h hr hd hu
    obtain ⟨hc, hne⟩ := hd c (List.mem_cons_self ..)
    rw [kanjiBits, List.append_assoc] at hu
    obtain ⟨b₁, e₁, i₁, hb₁, hw₁, hr₁, hc₁, hu₁⟩ := rd_ok b h hr 13 c (by decide) (by decide) _ hu
    have ha : c % 2 ^ 13 = c := Nat.mod_eq_of_lt (by rw [pow13]; omega)
    rw [ha] at e₁
    have hdec : decodeKanjiCode c = some (refAt c) := by
      rcases decode_cases c hc with h1 | h2
      · exact h1.2
      · exact absurd h2.2 hne
    obtain ⟨b₂, e₂, hb₂, hw₂, hr₂, hc₂⟩ := ih b₁ ((Model.Utf8.encodeRune (refAt c)).foldl Array.push acc) rest
      i₁ hr₁ (fun x hx => hd x (List.mem_cons_of_mem _ hx)) hu₁
    have hz : (KANJI_REJECTS_UNASSIGNED && refAt c == 0) = false := by
      rw [Bool.and_eq_false_iff]; right; exact beq_false_of_ne hne
    refine ⟨b₂, ?_, by rw [hb₂, hb₁], by rw [hw₂, hw₁], hr₂, ?_⟩
    · rw [List.length_cons, decodeKanji.go, e₁]
      simp only [Out.bind_ok, hdec, hz]
      rw [e₂, foldl_push_toList, List.flatMap_cons, List.append_assoc]; rfl
    · rw [hc₂, hc₁, List.length_cons]; omega

/-! ### decoders: rejection -/

theorem decodeNumeric_go_rejects (b : Buffer) (h : Inv b) (hr : b.read < 8) (acc : Array Nat)
    (n v : Nat) (rest : List Bool)
    (hv : if n ≥ 3 then v ≥ 1000 ∧ v < 1024 ∧ unr b = bitsMSB v 10 ++ rest
          else if n = 2 then v ≥ 100 ∧ v < 128 ∧ unr b = bitsMSB v 7 ++ rest
          else n = 1 ∧ v ≥ 10 ∧ v < 16 ∧ unr b = bitsMSB v 4 ++ rest) :
    (decodeNumeric.go b acc n).isErr = true := by
  by_cases h3 : n ≥ 3
  · rw [if_pos h3] at hv
    obtain ⟨m, rfl⟩ : ∃ m, n = m + 3 := ⟨n - 3, by omega⟩
    obtain ⟨b₁, e₁, -⟩ := rd_ok b h hr 10 v (by decide) (by decide) _ hv.2.2
    rw [Nat.mod_eq_of_lt (by rw [pow10]; omega)] at e₁
    rw [decodeNumeric.go, e₁]
    simp only [Out.bind_ok]
    rw [if_pos (by omega)]; rfl
  · rw [if_neg h3] at hv
    by_cases h2 : n = 2
    · rw [if_pos h2] at hv
      subst h2
      obtain ⟨b₁, e₁, -⟩ := rd_ok b h hr 7 v (by decide) (by decide) _ hv.2.2
      rw [Nat.mod_eq_of_lt (by rw [pow7]; omega)] at e₁
      rw [decodeNumeric.go, e₁]
      simp only [Out.bind_ok]
      rw [if_pos (by omega)]; rfl
    · rw [if_neg h2] at hv
      obtain ⟨rfl, hv⟩ := hv
      obtain ⟨b₁, e₁, -⟩ := rd_ok b h hr 4 v (by decide) (by decide) _ hv.2.2
      rw [Nat.mod_eq_of_lt (by rw [pow4]; omega)] at e₁
      rw [decodeNumeric.go, e₁]
      simp only [Out.bind_ok]
      rw [if_pos (by omega)]; rfl

theorem decodeAlphanumeric_go_rejects (b : Buffer) (h : Inv b) (hr : b.read < 8) (acc : Array Nat)
    (n v : Nat) (rest : List Bool)
    (hv : if n ≥ 2 then v ≥ 45 * 45 ∧ v < 2048 ∧ unr b = bitsMSB v 11 ++ rest
          else n = 1 ∧ v ≥ 45 ∧ v < 64 ∧ unr b = bitsMSB v 6 ++ rest) :
    (decodeAlphanumeric.go b acc n).isErr = true := by
  by_cases h2 : n ≥ 2
  · rw [if_pos h2] at hv
    obtain ⟨m, rfl⟩ : ∃ m, n = m + 2 := ⟨n - 2, by omega⟩
    obtain ⟨b₁, e₁, -⟩ := rd_ok b h hr 11 v (by decide) (by decide) _ hv.2.2
    rw [Nat.mod_eq_of_lt (by rw [pow11]; omega)] at e₁
    rw [decodeAlphanumeric.go, e₁]
    simp only [Out.bind_ok]
    rw [if_pos (by omega)]; rfl
  · rw [if_neg h2] at hv
    obtain ⟨rfl, hv⟩ := hv
    obtain ⟨b₁, e₁, -⟩ := rd_ok b h hr 6 v (by decide) (by decide) _ hv.2.2
    rw [Nat.mod_eq_of_lt (by rw [pow6]; omega)] at e₁
    rw [decodeAlphanumeric.go, e₁]
    simp only [Out.bind_ok]
    rw [if_pos (by omega)]; rfl

theorem decodeKanji_go_rejects (b : Buffer) (h : Inv b) (hr : b.read < 8) (acc : Array Nat) (n code : Nat)
    (hn : 0 < n) (hcode : code < 8192) (hu0 : refAt code = 0) (rest : List Bool)
    (hu : unr b = bitsMSB code 13 ++ rest) :
    (decodeKanji.go b acc n).isErr = true := by
  obtain ⟨m, rfl⟩ : ∃ m, n = m + 1 := ⟨n - 1, by omega⟩
  obtain ⟨b₁, e₁, -⟩ := rd_ok b h hr 13 code (by decide) (by decide) _ hu
  rw [Nat.mod_eq_of_lt (by rw [pow13]; omega)] at e₁
  rw [decodeKanji.go, e₁]
  simp only [Out.bind_ok]
  rcases decode_cases code hcode with h1 | h2
  · rw [h1.2, hu0]; rfl
  · rw [h2.1]; rfl

/-! ### decoders: soundness of accepted output -/

theorem decodeNumeric_go_sound (n : Nat) : ∀ (b : Buffer) (acc : Array Nat) (b' : Buffer) (data : List Nat),
    decodeNumeric.go b acc n = .ok (b', data) →
    data.length = acc.size + n ∧ ∀ ch ∈ data, ch ∈ acc.toList ∨ isNumeric ch = true := by
  induction n using Nat.strongRecOn with
  | _ n ih =>
    intro b acc b' data hd
    match n with
    | 0 =>
      rw [decodeNumeric.go] at hd
      cases hd
      exact ⟨by simp, fun ch hch => Or.inl hch⟩
    | 1 =>
      rw [decodeNumeric.go] at hd
      cases hrd : rd b 4 with
      | err m => rw [hrd] at hd; cases hd
      | panic m => rw [hrd] at hd; cases hd
      | ok p =>
        obtain ⟨b₁, bits⟩ := p
        rw [hrd] at hd
        simp only [Out.bind_ok] at hd
        split at hd
        · cases hd
        · cases hd
          refine ⟨by simp, fun ch hch => ?_⟩
          simp only [Array.toList_push, List.mem_append, List.mem_singleton] at hch
          rcases hch with hch | rfl
          · exact Or.inl hch
          · right; rw [isNumeric_iff]; omega
    | 2 =>
      rw [decodeNumeric.go] at hd
      cases hrd : rd b 7 with
      | err m => rw [hrd] at hd; cases hd
      | panic m => rw [hrd] at hd; cases hd
      | ok p =>
        obtain ⟨b₁, bits⟩ := p
        rw [hrd] at hd
        simp only [Out.bind_ok] at hd
        split at hd
        · cases hd
        · cases hd
          refine ⟨by simp, fun ch hch => ?_⟩
          simp only [Array.toList_push, List.mem_append, List.mem_singleton] at hch
          rcases hch with (hch | rfl) | rfl
          · exact Or.inl hch
          · right; rw [isNumeric_iff]; omega
          · right; rw [isNumeric_iff]; omega
    | m + 3 =>
      rw [decodeNumeric.go] at hd
      cases hrd : rd b 10 with
      | err m => rw [hrd] at hd; cases hd
      | panic m => rw [hrd] at hd; cases hd
      | ok p =>
        obtain ⟨b₁, bits⟩ := p
        rw [hrd] at hd
        simp only [Out.bind_ok] at hd
        split at hd
        · cases hd
        · obtain ⟨hl, hm⟩ := ih m (by omega) _ _ _ _ hd
          refine ⟨by simp only [Array.size_push] at hl; omega, fun ch hch => ?_⟩
          have := hm ch hch
          simp only [Array.toList_push, List.mem_append, List.mem_singleton] at this
          rcases this with (((hch | rfl) | rfl) | rfl) | hnum
          · exact Or.inl hch
          · right; rw [isNumeric_iff]; omega
          · right; rw [isNumeric_iff]; omega
          · right; rw [isNumeric_iff]; omega
          · exact Or.inr hnum

theorem decodeAlphanumeric_go_sound (n : Nat) : ∀ (b : Buffer) (acc : Array Nat) (b' : Buffer) (data : List Nat),
    decodeAlphanumeric.go b acc n = .ok (b', data) →
    data.length = acc.size + n ∧ ∀ ch ∈ data, ch ∈ acc.toList ∨ isAlphanumeric ch = true := by
  induction n using Nat.strongRecOn with
  | _ n ih =>
    intro b acc b' data hd
    match n with
    | 0 =>
      rw [decodeAlphanumeric.go] at hd
      cases hd
      exact ⟨by simp, fun ch hch => Or.inl hch⟩
    | 1 =>
      rw [decodeAlphanumeric.go] at hd
      cases hrd : rd b 6 with
      | err m => rw [hrd] at hd; cases hd
      | panic m => rw [hrd] at hd; cases hd
      | ok p =>
        obtain ⟨b₁, bits⟩ := p
        rw [hrd] at hd
        simp only [Out.bind_ok] at hd
        split at hd
        · cases hd
        · cases hd
          refine ⟨by simp, fun ch hch => ?_⟩
          simp only [Array.toList_push, List.mem_append, List.mem_singleton] at hch
          rcases hch with hch | rfl
          · exact Or.inl hch
          · right; exact alnumChar_isAlphanumeric _ (by omega)
    | m + 2 =>
      rw [decodeAlphanumeric.go] at hd
      cases hrd : rd b 11 with
      | err m => rw [hrd] at hd; cases hd
      | panic m => rw [hrd] at hd; cases hd
      | ok p =>
        obtain ⟨b₁, bits⟩ := p
        rw [hrd] at hd
        simp only [Out.bind_ok] at hd
        split at hd
        · cases hd
        · obtain ⟨hl, hm⟩ := ih m (by omega) _ _ _ _ hd
          refine ⟨by simp only [Array.size_push] at hl; omega, fun ch hch => ?_⟩
          have := hm ch hch
          simp only [Array.toList_push, List.mem_append, List.mem_singleton] at this
          rcases this with ((hch | rfl) | rfl) | hnum
          · exact Or.inl hch
          · right; exact alnumChar_isAlphanumeric _ (by omega)
          · right; exact alnumChar_isAlphanumeric _ (Nat.mod_lt _ (by decide))
          · exact Or.inr hnum

end QRV.Lemmas.Codec
