import QRV.Lemmas.RTDefs
/-
Generated bitmaps as images: `Image.ofGen g` is `Regular`, and its pixels are the bits of the
packed rows.  Sequences of `SetBinary` on a regular image ("last write wins").
-/
namespace QRV.Lemmas.RT
open QRV QRV.Model QRV.Model.Bitmap QRV.Model.Sym QRV.Props QRV.Props.C18

/-! ### `ofGen` -/

/-- the bytes of one packed row -/
def rowBytes (stride r : Nat) : List Nat :=
  (List.range stride).map fun j => (r >>> (8 * (stride - 1 - j))) % 256

theorem rowBytes_length (stride r : Nat) : (rowBytes stride r).length = stride := by
  simp [rowBytes]

theorem foldl_push_map {α : Type} (h : Nat → α) (l : List Nat) (acc : Array α) :
    l.foldl (fun acc j => acc.push (h j)) acc = acc ++ (l.map h).toArray := by
  induction l generalizing acc with
  | nil => simp
  | cons a l ih => rw [List.foldl_cons, ih]; simp

theorem ofGen_pix (g : Gen.GBmp) :
    (Image.ofGen g).pix = (g.rows.flatMap (rowBytes g.stride)).toArray := by
  unfold Image.ofGen
  simp only
  have : ∀ (rows : List Nat) (acc : Array Nat),
      rows.foldl (fun acc r => (List.range g.stride).foldl
        (fun acc j => acc.push ((r >>> (8 * (g.stride - 1 - j))) % 256)) acc) acc
      = acc ++ (rows.flatMap (rowBytes g.stride)).toArray := by
    intro rows
    induction rows with
    | nil => intro acc; simp
    | cons r rows ih =>
      intro acc
      rw [List.foldl_cons, foldl_push_map, ih, List.flatMap_cons]
      simp [rowBytes]
  rw [this]
  simp

theorem getElem?_flatMap_uniform {α β : Type} (f : α → List β) (s : Nat) (hf : ∀ a, (f a).length = s) :
    ∀ (l : List α) (y j : Nat), j < s → (l.flatMap f)[y * s + j]? = (l[y]?).bind (fun a => (f a)[j]?) := by
  intro l
  induction l with
  | nil => intro y j _; simp
  | cons a l ih =>
    intro y j hj
    rw [List.flatMap_cons, List.getElem?_append, hf]
    cases y with
    | zero => simp [hj]
    | succ y =>
      have h1 : ¬ ((y + 1) * s + j < s) := by
        rw [Nat.succ_mul]; omega
      rw [if_neg h1, show (y + 1) * s + j - s = y * s + j by rw [Nat.succ_mul]; omega, ih y j hj]
      simp

theorem length_flatMap_uniform {α β : Type} (f : α → List β) (s : Nat) (hf : ∀ a, (f a).length = s)
    (l : List α) : (l.flatMap f).length = s * l.length := by
  induction l with
  | nil => simp
  | cons a l ih => rw [List.flatMap_cons, List.length_append, hf, ih, List.length_cons]; rw [Nat.mul_succ]; omega

/-- a generated bitmap with the standard geometry is a regular image -/
theorem ofGen_regular (g : Gen.GBmp) (W H : Nat) (h0 : g.minX = 0) (h1 : g.minY = 0)
    (h2 : g.maxX = (W : Int)) (h3 : g.maxY = (H : Int)) (hs : g.stride = (W + 7) / 8)
    (hr : g.rows.length = H) : Regular (Image.ofGen g) W H := by
  refine ⟨h0, h1, h2, h3, ?_, ?_, ?_⟩
  · show ((g.stride : Nat) : Int) = _
    rw [hs]
  · rw [ofGen_pix, List.size_toArray, length_flatMap_uniform _ g.stride (rowBytes_length g.stride), hr, hs]
  · rw [ofGen_pix]
    intro b hb
    simp only [List.mem_flatMap, rowBytes, List.mem_map] at hb
    obtain ⟨r, _, j, _, rfl⟩ := hb
    exact Nat.mod_lt _ (by decide)

/-- pixel (x, y) of a generated bitmap is bit `8*stride-1-x` of row y -/
theorem ofGen_px (g : Gen.GBmp) (x y : Nat) (hx : x < 8 * g.stride) :
    px (Image.ofGen g) x y = rowBit g.rows g.stride x y := by
  unfold px rowBit
  rw [Lemmas.Bitmap.bit_eq_testBit, ofGen_pix]
  have hst : (Image.ofGen g).stride.toNat = g.stride := by
    show ((g.stride : Nat) : Int).toNat = _
    simp
  rw [hst, List.getElem?_toArray,
    getElem?_flatMap_uniform _ g.stride (rowBytes_length g.stride) _ y (x / 8) (by omega)]
  cases hrow : g.rows[y]? with
  | none => simp
  | some r =>
    simp only [Option.bind_some, rowBytes, Option.getD_some]
    rw [List.getElem?_map, List.getElem?_range (by omega)]
    simp only [Option.map_some, Option.getD_some]
    rw [show (256 : Nat) = 2 ^ 8 by decide, Nat.testBit_mod_two_pow, Nat.testBit_shiftRight]
    have : 8 * (g.stride - 1 - x / 8) + (7 - x % 8) = 8 * g.stride - 1 - x := by omega
    rw [this]
    simp
    omega

end QRV.Lemmas.RT
