import QRV.Props.C18
import QRV.Lemmas.RTPoint
import QRV.Spec.Penalty
/-
C10 (penalty) — the run, block and finder-pattern counters of `Model/Bitmap.lean` on a regular
n × n image are the declarative features of `Spec/Penalty.lean`.

Method: on a regular image every `binaryAt` succeeds with the "white outside" pixel function `wpx`,
so each loop is a pure fold over `List.range`; the folds are then related to the declarative
expressions by list induction.
-/
namespace QRV.Lemmas.Penalty
open QRV QRV.Model.Bitmap QRV.Spec.Penalty
open QRV.Props.C18 (Regular px binaryAt_spec)

/-! ### loops over `Out` that cannot fail are folds -/

theorem forIn_list_pure {α β : Type} (l : List α) (f : α → β → Out (ForInStep β)) (g : α → β → β)
    (init : β) (h : ∀ k ∈ l, ∀ b, f k b = .ok (.yield (g k b))) :
    forIn l init f = .ok (l.foldl (fun b k => g k b) init) := by
  induction l generalizing init with
  | nil => rfl
  | cons k l ih =>
    rw [List.forIn_cons, h k (List.mem_cons_self ..) init]
    exact ih _ (fun k' hk' => h k' (List.mem_cons_of_mem _ hk'))

theorem forIn_range_pure {β : Type} (n : Nat) (f : Nat → β → Out (ForInStep β)) (g : Nat → β → β)
    (init : β) (h : ∀ k, k < n → ∀ b, f k b = .ok (.yield (g k b))) :
    forIn [:n] init f = .ok ((List.range n).foldl (fun b k => g k b) init) := by
  have e : forIn [:n] init f = forIn (List.range n) init f := by
    simp only [Std.Legacy.Range.forIn_eq_forIn_range', Std.Legacy.Range.size]
    rw [show (n - 0 + 1 - 1) / 1 = n by simp, List.range_eq_range']
  rw [e]
  exact forIn_list_pure _ f g init (fun k hk => h k (List.mem_range.mp hk))

theorem pure_eq_ok {α : Type} (a : α) : (pure a : Out α) = .ok a := rfl

/-! ### reading a regular image: white outside -/

/-- pixel function extended by white outside the n × n square -/
def wpx (p : Nat → Nat → Bool) (n : Nat) (x y : Int) : Bool :=
  if 0 ≤ x ∧ x < n ∧ 0 ≤ y ∧ y < n then p x.toNat y.toNat else false

theorem binaryAt_wpx {i : Image} {n : Nat} (hr : Regular i n n) (x y : Int) :
    i.binaryAt x y = .ok (wpx (px i) n x y) := binaryAt_spec i n n hr x y

theorem wpx_nat (p : Nat → Nat → Bool) {n x y : Nat} (hx : x < n) (hy : y < n) :
    wpx p n (x : Int) (y : Int) = p x y := by
  unfold wpx
  rw [if_pos ⟨by omega, by omega, by omega, by omega⟩]
  rfl

/-! ### counting folds -/

theorem foldl_count {α : Type} (l : List α) (c : α → Bool) (init : Nat) :
    l.foldl (fun b k => if c k = true then b + 1 else b) init = init + (l.filter c).length := by
  induction l generalizing init with
  | nil => rfl
  | cons k l ih =>
    rw [List.foldl_cons, ih, List.filter_cons]
    cases c k <;> simp <;> omega

theorem foldl_sum {α : Type} (l : List α) (f : α → Nat) (init : Nat) :
    l.foldl (fun b k => b + f k) init = init + (l.map f).sum := by
  induction l generalizing init with
  | nil => rfl
  | cons k l ih =>
    rw [List.foldl_cons, ih, List.map_cons, List.sum_cons]; omega

/-! ### Micro QR edge score -/

theorem pointMicro_spec {i : Image} {n : Nat} (hr : Regular i n n) :
    i.pointMicro = .ok (microEdge (px i) n) := by
  unfold Image.pointMicro
  simp only [hr.minX, hr.minY, hr.maxX, hr.maxY, binaryAt_wpx hr, Out.bind_ok]
  have e : ((n : Int) - (0 + 1)).toNat = n - 1 := by omega
  rw [e]
  rw [forIn_range_pure (n - 1) _ (fun k b => if px i (k + 1) (n - 1) = true then b + 1 else b) 0
    (by
      intro k hk b
      rw [show (0 : Int) + 1 + (k : Int) = ((k + 1 : Nat) : Int) by omega,
        show (n : Int) - 1 = ((n - 1 : Nat) : Int) by omega, wpx_nat _ (by omega) (by omega)]
      split <;> rfl)]
  simp only [Out.bind_ok]
  rw [forIn_range_pure (n - 1) _ (fun k b => if px i (n - 1) (k + 1) = true then b + 1 else b) 0
    (by
      intro k hk b
      rw [show (0 : Int) + 1 + (k : Int) = ((k + 1 : Nat) : Int) by omega,
        show (n : Int) - 1 = ((n - 1 : Nat) : Int) by omega, wpx_nat _ (by omega) (by omega)]
      split <;> rfl)]
  simp only [Out.bind_ok, foldl_count, Nat.zero_add, pure_eq_ok]
  unfold microEdge
  dsimp only
  split <;> rfl

/-! ### exchanging the order of a double count -/

theorem sum_map_add {α : Type} (l : List α) (f g : α → Nat) :
    (l.map fun x => f x + g x).sum = (l.map f).sum + (l.map g).sum := by
  induction l with
  | nil => rfl
  | cons x l ih => simp only [List.map_cons, List.sum_cons, ih]; omega

theorem sum_map_zero {α : Type} (l : List α) : (l.map fun _ => 0).sum = 0 := by
  induction l with
  | nil => rfl
  | cons x l ih => simp only [List.map_cons, List.sum_cons, ih]

theorem length_filter_eq_sum {α : Type} (l : List α) (c : α → Bool) :
    (l.filter c).length = (l.map fun x => (c x).toNat).sum := by
  induction l with
  | nil => rfl
  | cons x l ih =>
    rw [List.filter_cons, List.map_cons, List.sum_cons, ← ih]
    cases c x <;> simp <;> omega

theorem sum_filter_swap {α β : Type} (la : List α) (lb : List β) (c : α → β → Bool) :
    (la.map fun a => (lb.filter fun b => c a b).length).sum =
      (lb.map fun b => (la.filter fun a => c a b).length).sum := by
  induction la with
  | nil => simp only [List.map_nil, List.sum_nil, List.filter_nil, List.length_nil, sum_map_zero]
  | cons a la ih =>
    rw [List.map_cons, List.sum_cons, ih, length_filter_eq_sum, ← sum_map_add]
    congr 1
    apply List.map_congr_left
    intro b _
    rw [List.filter_cons]
    cases c a b <;> simp <;> omega

/-! ### N2 -/

theorem blockCount_spec {i : Image} {n : Nat} (hr : Regular i n n) :
    i.blockCount = .ok (n2 (px i) n) := by
  unfold Image.blockCount
  simp only [hr.minX, hr.minY, hr.maxX, hr.maxY, binaryAt_wpx hr, Out.bind_ok]
  have e : ((n : Int) - 1 - 0).toNat = n - 1 := by omega
  rw [e]
  rw [forIn_range_pure (n - 1) _ (fun yy b => b + ((List.range (n - 1)).filter fun xx =>
        px i yy xx == px i yy (xx + 1) && px i yy xx == px i (yy + 1) xx &&
          px i yy xx == px i (yy + 1) (xx + 1)).length) 0
    (by
      intro yy hyy b
      rw [forIn_range_pure (n - 1) _ (fun xx b => if (px i yy xx == px i yy (xx + 1) &&
          px i yy xx == px i (yy + 1) xx && px i yy xx == px i (yy + 1) (xx + 1)) = true then b + 1 else b) b
        (by
          intro xx hxx b
          rw [show (0 : Int) + (yy : Int) + 1 = ((yy + 1 : Nat) : Int) by omega,
            show (0 : Int) + (xx : Int) + 1 = ((xx + 1 : Nat) : Int) by omega,
            show (0 : Int) + (yy : Int) = ((yy : Nat) : Int) by omega,
            show (0 : Int) + (xx : Int) = ((xx : Nat) : Int) by omega,
            wpx_nat _ (by omega) (by omega), wpx_nat _ (by omega) (by omega),
            wpx_nat _ (by omega) (by omega), wpx_nat _ (by omega) (by omega)]
          split <;> rfl)]
      rw [foldl_count]
      rfl)]
  simp only [Out.bind_ok, pure_eq_ok, foldl_sum, Nat.zero_add]
  unfold n2
  rw [sum_filter_swap, Nat.mul_comm]
  congr 3
  apply List.map_congr_left
  intro a _
  congr 1
  apply List.filter_congr
  intro b _
  congr 1
  exact Bool.and_comm _ _

/-! ### N1: the run-length scan -/

/-- Go's `score` closure -/
def score (len : Nat) : Nat := if len ≥ 5 then len - 5 + 3 else 0

/-- the standard's score of a run -/
def score' (len : Nat) : Nat := if len ≥ 5 then 3 + (len - 5) else 0

theorem score_eq (len : Nat) : score len = score' len := by
  unfold score score'; split <;> omega

/-- one step of the Go scan; state = (cnt, length, c0) -/
def step (s : Nat × Nat × Bool) (c : Bool) : Nat × Nat × Bool :=
  if (decide (s.2.1 > 0) && c == s.2.2) = true then (s.1, s.2.1 + 1, s.2.2)
  else (s.1 + score s.2.1, 1, c)

/-- run lengths of `replicate len c0 ++ l`, computed from the left -/
def runsAcc (len : Nat) (c0 : Bool) : List Bool → List Nat
  | [] => [len]
  | c :: rest => if c = c0 then runsAcc (len + 1) c0 rest else len :: runsAcc 1 c rest

theorem runsAcc_add (l : List Bool) (len k : Nat) (c0 : Bool) :
    ∃ hd tl, runsAcc len c0 l = hd :: tl ∧ runsAcc (len + k) c0 l = (hd + k) :: tl := by
  induction l generalizing len with
  | nil => exact ⟨len, [], rfl, rfl⟩
  | cons c rest ih =>
    unfold runsAcc
    by_cases h : c = c0
    · simp only [h, if_true]
      obtain ⟨hd, tl, h1, h2⟩ := ih (len + 1)
      exact ⟨hd, tl, h1, by rw [show len + k + 1 = len + 1 + k by omega]; exact h2⟩
    · simp only [h, if_false]
      exact ⟨len, _, rfl, rfl⟩

theorem runs_cons (c : Bool) (l : List Bool) : runs (c :: l) = runsAcc 1 c l := by
  induction l generalizing c with
  | nil => rfl
  | cons c' rest ih =>
    obtain ⟨hd, tl, h1, h2⟩ := runsAcc_add rest 1 1 c'
    have e : runs (c :: c' :: rest) = if c = c' then (hd + 1) :: tl else 1 :: hd :: tl := by
      have hr : runs (c' :: rest) = hd :: tl := (ih c').trans h1
      conv => lhs; unfold runs
      simp only [hr]
    rw [e]
    unfold runsAcc
    by_cases h : c = c'
    · subst h
      simp only [if_true]
      exact h2.symm
    · have h' : ¬ c' = c := fun e => h e.symm
      simp only [h, h', if_false]
      rw [h1]

theorem scan_spec (l : List Bool) (cnt len : Nat) (c0 : Bool) (hlen : len > 0) :
    (l.foldl step (cnt, len, c0)).1 + score (l.foldl step (cnt, len, c0)).2.1 =
      cnt + ((runsAcc len c0 l).map score').sum := by
  induction l generalizing cnt len c0 with
  | nil => simp [runsAcc, score_eq]
  | cons c rest ih =>
    rw [List.foldl_cons]
    unfold runsAcc
    by_cases h : c = c0
    · subst h
      have e : step (cnt, len, c) c = (cnt, len + 1, c) := by
        unfold step; simp [hlen]
      rw [e, ih _ _ _ (by omega)]
      simp
    · have e : step (cnt, len, c0) c = (cnt + score len, 1, c) := by
        unfold step; simp [h]
      rw [e, ih _ _ _ (by omega)]
      simp only [h, if_false, List.map_cons, List.sum_cons, score_eq]
      omega

theorem scan_line (l : List Bool) (cnt : Nat) :
    (l.foldl step (cnt, 0, false)).1 + score (l.foldl step (cnt, 0, false)).2.1 = cnt + n1Line l := by
  cases l with
  | nil => rfl
  | cons c rest =>
    have e : step (cnt, 0, false) c = (cnt, 1, c) := by
      unfold step; simp [score]
    rw [List.foldl_cons, e, scan_spec _ _ _ _ (by omega), n1Line, runs_cons]
    rfl

theorem foldl_step_row (p : Nat → Bool) (l : List Nat) (init : Nat × Nat × Bool) :
    l.foldl (fun s k => step s (p k)) init = (l.map p).foldl step init := by
  rw [List.foldl_map]

theorem longRunLengthCount_spec {i : Image} {n : Nat} (hr : Regular i n n) :
    i.longRunLengthCount = .ok (n1 (px i) n) := by
  unfold Image.longRunLengthCount
  simp only [hr.minX, hr.minY, hr.maxX, hr.maxY, binaryAt_wpx hr, Out.bind_ok]
  have e : ((n : Int) - 0).toNat = n := by omega
  rw [e]
  rw [forIn_range_pure n _ (fun yy b => b + n1Line (row (px i) n yy)) 0
    (by
      intro yy hyy b
      rw [forIn_range_pure n _ (fun xx s => step s (px i xx yy)) (b, 0, false)
        (by
          intro xx hxx s
          rw [show (0 : Int) + (yy : Int) = ((yy : Nat) : Int) by omega,
            show (0 : Int) + (xx : Int) = ((xx : Nat) : Int) by omega,
            wpx_nat _ (by omega) (by omega)]
          unfold step score
          split <;> rfl)]
      rw [foldl_step_row (fun xx => px i xx yy)]
      simp only [Out.bind_ok, pure_eq_ok]
      exact congrArg (fun v => Out.ok (ForInStep.yield v)) (scan_line _ b))]
  simp only [Out.bind_ok]
  rw [forIn_range_pure n _ (fun xx b => b + n1Line (col (px i) n xx)) _
    (by
      intro xx hxx b
      rw [forIn_range_pure n _ (fun yy s => step s (px i xx yy)) (b, 0, false)
        (by
          intro yy hyy s
          rw [show (0 : Int) + (yy : Int) = ((yy : Nat) : Int) by omega,
            show (0 : Int) + (xx : Int) = ((xx : Nat) : Int) by omega,
            wpx_nat _ (by omega) (by omega)]
          unfold step score
          split <;> rfl)]
      rw [foldl_step_row (fun yy => px i xx yy)]
      simp only [Out.bind_ok, pure_eq_ok]
      exact congrArg (fun v => Out.ok (ForInStep.yield v)) (scan_line _ b))]
  simp only [Out.bind_ok, pure_eq_ok, foldl_sum, Nat.zero_add]
  rfl

/-! ### N3 -/

theorem light4_pure (c : Nat → Bool) :
    forIn [:4] true (fun k (s : Bool) =>
      if c k = true then (Out.ok (ForInStep.yield false) : Out (ForInStep Bool)) else Out.ok (ForInStep.yield s)) =
    .ok ((List.range 4).all fun k => !c k) := by
  rw [forIn_range_pure 4 _ (fun k s => if c k = true then false else s) true
    (by intro k _ s; split <;> rfl)]
  simp only [List.range, List.range.loop, List.foldl_cons, List.foldl_nil, List.all_cons, List.all_nil]
  cases c 0 <;> cases c 1 <;> cases c 2 <;> cases c 3 <;> rfl

theorem cond3 {β : Type} (A : Prop) [Decidable A] (b c : Bool) (K : Nat → β) (cnt : Nat) :
    (if A then (if b = true then (if c = true then K (cnt + 1) else K cnt) else K cnt) else K cnt) =
      K (cnt + (decide A && b && c).toNat) := by
  by_cases h : A <;> cases b <;> cases c <;> simp [h]

theorem getD_map_range (f : Nat → Bool) (n k : Nat) :
    ((List.range n).map f).getD k false = if k < n then f k else false := by
  rw [List.getD_eq_getElem?_getD, List.getElem?_map]
  by_cases h : k < n
  · rw [List.getElem?_range h, if_pos h]; rfl
  · rw [List.getElem?_eq_none (by simp only [List.length_range]; omega), if_neg h]; rfl

theorem at'_eq (l : List Bool) (z : Int) (k : Nat) (h : z = (k : Int)) : at' l z = l.getD k false := by
  subst h
  unfold at'
  rw [if_neg (by omega), Int.toNat_natCast]

theorem wpx_row (p : Nat → Nat → Bool) {n y : Nat} (hy : y < n) (x : Int) :
    wpx p n x (y : Int) = at' (row p n y) x := by
  unfold wpx at' row
  by_cases h0 : x < 0
  · rw [if_neg (by omega), if_pos h0]
  · rw [if_neg h0, getD_map_range]
    by_cases h1 : x < n
    · rw [if_pos ⟨by omega, h1, by omega, by omega⟩, if_pos (by omega), Int.toNat_natCast]
    · rw [if_neg (by omega), if_neg (by omega)]

theorem wpx_col (p : Nat → Nat → Bool) {n x : Nat} (hx : x < n) (y : Int) :
    wpx p n (x : Int) y = at' (col p n x) y := by
  unfold wpx at' col
  by_cases h0 : y < 0
  · rw [if_neg (by omega), if_pos h0]
  · rw [if_neg h0, getD_map_range]
    by_cases h1 : y < n
    · rw [if_pos ⟨by omega, by omega, by omega, h1⟩, if_pos (by omega), Int.toNat_natCast]
    · rw [if_neg (by omega), if_neg (by omega)]

/-- the filter predicate of `n3Line` -/
def fpred (l : List Bool) (i : Nat) : Bool :=
  i + 6 < l.length &&
    (l.getD i false && !l.getD (i + 1) false && l.getD (i + 2) false && l.getD (i + 3) false &&
      l.getD (i + 4) false && !l.getD (i + 5) false && l.getD (i + 6) false) &&
    (((List.range 4).all fun k => !at' l ((i : Int) - 4 + k)) ||
     ((List.range 4).all fun k => !at' l ((i : Int) + 7 + k)))

theorem n3Line_eq (l : List Bool) : n3Line l = ((List.range l.length).filter (fpred l)).length := rfl

/-- the model's test at position `i` of a line, in terms of the line -/
theorem mpred_eq (l : List Bool) (n i : Nat) (hl : l.length = n) :
    (decide ((i : Int) + 6 < (n : Int)) &&
      (at' l i && !at' l ((i : Int) + 1) && at' l ((i : Int) + 2) && at' l ((i : Int) + 3) &&
        at' l ((i : Int) + 4) && !at' l ((i : Int) + 5) && at' l ((i : Int) + 6)) &&
      (((List.range 4).all fun k => !at' l ((i : Int) - 4 + k)) ||
       ((List.range 4).all fun k => !at' l ((i : Int) + 7 + k)))) = fpred l i := by
  unfold fpred
  rw [at'_eq l i i rfl, at'_eq l ((i : Int) + 1) (i + 1) (by omega), at'_eq l ((i : Int) + 2) (i + 2) (by omega),
    at'_eq l ((i : Int) + 3) (i + 3) (by omega), at'_eq l ((i : Int) + 4) (i + 4) (by omega),
    at'_eq l ((i : Int) + 5) (i + 5) (by omega), at'_eq l ((i : Int) + 6) (i + 6) (by omega), hl]
  congr 2
  exact decide_eq_decide.mpr (by omega)

theorem step3 (A A' : Prop) [Decidable A] [Decidable A'] (b c b' c' : Bool) (s : Nat) :
    (if A then
      if b = true then
        if c = true then
          if A' then
            if b' = true then
              if c' = true then Out.ok (ForInStep.yield (s + 1 + 1)) else Out.ok (ForInStep.yield (s + 1))
            else Out.ok (ForInStep.yield (s + 1))
          else Out.ok (ForInStep.yield (s + 1))
        else
          if A' then
            if b' = true then
              if c' = true then Out.ok (ForInStep.yield (s + 1)) else Out.ok (ForInStep.yield s)
            else Out.ok (ForInStep.yield s)
          else Out.ok (ForInStep.yield s)
      else
        if A' then
          if b' = true then
            if c' = true then Out.ok (ForInStep.yield (s + 1)) else Out.ok (ForInStep.yield s)
          else Out.ok (ForInStep.yield s)
        else Out.ok (ForInStep.yield s)
    else
      if A' then
        if b' = true then
          if c' = true then Out.ok (ForInStep.yield (s + 1)) else Out.ok (ForInStep.yield s)
        else Out.ok (ForInStep.yield s)
      else Out.ok (ForInStep.yield s)) =
    Out.ok (ForInStep.yield (s + ((decide A && b && c).toNat + (decide A' && b' && c').toNat))) := by
  by_cases h : A <;> by_cases h' : A' <;> cases b <;> cases c <;> cases b' <;> cases c' <;> simp [h, h']

theorem toNat_add_congr {a a' b b' : Bool} (h1 : a = a') (h2 : b = b') :
    a.toNat + b.toNat = a'.toNat + b'.toNat := by rw [h1, h2]

theorem finderPattern_spec {i : Image} {n : Nat} (hr : Regular i n n) :
    i.finderPattern = .ok (n3 (px i) n) := by
  unfold Image.finderPattern
  simp only [hr.minX, hr.minY, hr.maxX, hr.maxY, binaryAt_wpx hr, Out.bind_ok, pure_eq_ok,
    Int.zero_add, Int.mul_one, Int.mul_zero, Int.add_zero, light4_pure]
  have e : ((n : Int) - 0).toNat = n := by omega
  rw [e]
  rw [forIn_range_pure n _ (fun yy b => b + (((List.range n).filter fun xx => fpred (row (px i) n yy) xx).length +
        ((List.range n).filter fun xx => fpred (col (px i) n xx) yy).length)) 0
    (by
      intro yy hyy b
      rw [forIn_range_pure n _ (fun xx s => s + ((fpred (row (px i) n yy) xx).toNat +
          (fpred (col (px i) n xx) yy).toNat)) b
        (by
          intro xx hxx s
          rw [step3]
          refine congrArg (fun v => Out.ok (ForInStep.yield (s + v))) ?_
          refine toNat_add_congr ?_ ?_
          · simp only [wpx_row (px i) hyy]
            exact mpred_eq _ n xx (by simp [row])
          · simp only [wpx_col (px i) hxx]
            exact mpred_eq _ n yy (by simp [col]))]
      rw [foldl_sum, sum_map_add, ← length_filter_eq_sum, ← length_filter_eq_sum]
      rfl)]
  simp only [Out.bind_ok, foldl_sum, Nat.zero_add, sum_map_add]
  rw [sum_filter_swap (List.range n) (List.range n) (fun yy xx => fpred (col (px i) n xx) yy)]
  unfold n3
  rw [Nat.mul_comm]
  simp only [n3Line_eq]
  have hrow : ∀ y, (row (px i) n y).length = n := fun y => by simp [row]
  have hcol : ∀ x, (col (px i) n x).length = n := fun x => by simp [col]
  simp only [hrow, hcol]

/-! non-vacuity of the declarative features: a bare 1:1:3:1:1 line scores once (light on both sides
counted once), a run of seven scores 5, the finder-like 7 × 7 square of such rows scores 7 × 40 -/
example : n3Line [true, false, true, true, true, false, true] = 1 := by decide
example : n3Line [false, false, false, false, true, false, true, true, true, false, true, false, false, false, false] = 1 := by
  decide
example : n3Line [true, true, false, true, true, true, false, true, true] = 0 := by decide
example : n1Line [true, true, true, true, true, true, true] = 5 := by decide
example : n3 (fun x _ => x != 1 && x != 5) 7 = 280 := by decide
example : n2 (fun _ _ => true) 3 = 12 := by decide

/-! ### the QR penalty -/

theorem point_spec {i : Image} {n : Nat} (hr : Regular i n n) :
    ∃ d, i.pointOnesCount = .ok d ∧
      i.point = .ok (n3 (px i) n + n1 (px i) n + n2 (px i) n + d) := by
  obtain ⟨d, hd⟩ := QRV.Lemmas.RT.pointOnesCount_ok hr
  refine ⟨d, hd, ?_⟩
  unfold Image.point
  rw [finderPattern_spec hr, longRunLengthCount_spec hr, blockCount_spec hr, hd]
  rfl

end QRV.Lemmas.Penalty
