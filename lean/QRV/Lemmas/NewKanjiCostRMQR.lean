import QRV.Lemmas.NewKanjiCost2
import QRV.Lemmas.NewOptimalRMQR
import QRV.Lemmas.NewKanjiFallback
/-
C05 (too large), rMQR with kanji enabled.  The kanji programme charges the QR version-40 headers
(18 / 17 / 20 / 16 bits), the true headers of R17x139 (version 31) are 12 / 11 / 11 / 10 bits (the count widths of
the regenerated row, by kernel evaluation): every segment is at least 32 sixths of a bit shorter than its charge
(`seg_facts`; tight for numeric: 72 + 4 + 32 = 108), and `120 ≤ 6 * 11 + 2 * 32`.  Hence
(`NewKanjiCost.total_le`) the segmentation is never longer in version 31 than the payload as one byte segment;
a segment list that short has representable character counts (the capacity is below the length of a segment with
an unrepresentable count); every order list contains version 31.
-/
namespace QRV.Lemmas.NewKanjiCostRMQR
open QRV QRV.Model QRV.Model.Sym QRV.Model.New QRV.Model.Codec QRV.Spec.Valid QRV.Lemmas.NewDP QRV.Lemmas.NewDPGen
  QRV.Lemmas.NewKanjiCost QRV.Lemmas.NewKanjiValid
open QRV.Lemmas.CalcVersion

/-- the kanji count width of version 31 at both levels -/
theorem row31K : (List.range 2).all (fun l => match RMQR.row 31 l with
    | some c => RMQR.countBits 3 c == 7
    | none => false) = true := by
  decide +kernel

theorem row31K_fact (level : Nat) (hl : level < 2) (c : Gen.GCap) (hc : RMQR.row 31 level = some c) :
    RMQR.countBits 3 c = 7 := by
  have := forall_lt_of_all row31K level hl
  rw [hc] at this
  simpa using this

theorem seg_facts (c : Gen.GCap) (h0 : RMQR.countBits 0 c = 9) (h1 : RMQR.countBits 1 c = 8)
    (h2 : RMQR.countBits 2 c = 8) (h3 : RMQR.countBits 3 c = 7)
    (s : Segment) (hok : SegOKG 1 2 3 4 s) (hne : s.data ≠ []) :
    6 * RMQR.segBits s c + 32 ≤ sc 1 2 3 4 s ∧ RMQR.segBits s c ≤ 11 + 8 * s.data.length := by
  have hlen : 1 ≤ s.data.length := by
    cases hd : s.data with
    | nil => exact absurd hd hne
    | cons a t => simp
  obtain ⟨hmode, _, _, hkan⟩ := hok
  rcases hmode hne with hm | hm | hm | hm
  · rw [sc_N s hm]
    simp (config := { decide := true }) only [RMQR.segBits, RMQR.kindOf, bodyBits, count, hm, h0, if_true, if_false]
    generalize s.data.length = n at hlen ⊢
    split
    · omega
    · split <;> omega
  · rw [sc_A NewRMQRValid.distinct s hm]
    simp (config := { decide := true }) only [RMQR.segBits, RMQR.kindOf, bodyBits, count, hm, h1, if_true, if_false]
    generalize s.data.length = n at hlen ⊢
    omega
  · rw [sc_B NewRMQRValid.distinct s hm]
    simp (config := { decide := true }) only [RMQR.segBits, RMQR.kindOf, bodyBits, count, hm, h2, if_true, if_false]
    generalize s.data.length = n at hlen ⊢
    omega
  · rw [sc_K NewRMQRValid.distinct s hm]
    obtain ⟨rs, hrs, hall⟩ := hkan hm
    have hb := kanji_bytes rs hall
    have hr := runes_kanji rs hall
    rw [← hrs] at hb hr
    simp (config := { decide := true }) only [RMQR.segBits, RMQR.kindOf, bodyBits, count, hm, h3, if_true, hr]
    generalize s.data.length = n at hlen hb ⊢
    omega

theorem rmqr_new_kanji_not_too_large (level prio : Nat) (hl : level < 2) (hp : prio < 3) (c : Gen.GCap)
    (hc : Spec.Valid.RMQR.row 31 level = some c) (data : List Nat) (_hb : ∀ b ∈ data, b < 256)
    (hfit : 3 + Spec.Valid.RMQR.countBits 2 c + 8 * data.length ≤ 8 * c.data) :
    ∃ q, Model.RMQR.new (level : Int) (prio : Int) true data = .ok q := by
  obtain ⟨h0, h1, h2, hcap⟩ := Lemmas.NewOptimalRMQR.row31_facts level hl c hc
  have h3 := row31K_fact level hl c hc
  rw [h2] at hfit
  have hlv : Model.RMQR.levelIsValid (level : Int) = true := by
    simp only [Model.RMQR.levelIsValid, Gen.RMQR.c_levelMax, Bool.and_eq_true]
    refine ⟨decide_eq_true ?_, decide_eq_true ?_⟩ <;> omega
  unfold Model.RMQR.new
  simp only []
  split
  · rename_i hlv'
    rw [hlv] at hlv'
    cases hlv'
  · split
    · rw [if_pos (show Model.RMQR.NEW_EMPTY_USES_PRIORITY = true from rfl)]
      obtain ⟨v, hv, _⟩ := Lemmas.NewRMQRValid.calcVersion_nil level prio hl hp
      rw [hv]
      exact ⟨_, rfl⟩
    · rename_i he
      have hne : data ≠ [] := by simpa using he
      have hsize : data.toArray.size ≠ 0 := size_ne_zero hne
      have hsz : data.toArray.size < 2 ^ 56 := by
        simp only [List.size_toArray]; omega
      simp only [if_true]
      obtain ⟨segs, hK⟩ := Lemmas.NewKanjiFallback.newKanji_total
        [0, Model.RMQR.modeNumeric, Model.RMQR.modeAlphanumeric, Model.RMQR.modeBytes, Model.RMQR.modeKanji]
        data.toArray
      rw [hK]
      simp only [Out.bind_ok]
      have hK' : newKanjiSegs [0, 1, 2, 3, 4] data.toArray = .ok segs := hK
      obtain ⟨hcat, hnonempty⟩ := newKanji_concat' _ data.toArray hsize hsz segs hK'
      have hok := newKanji_segOKG NewRMQRValid.distinct data.toArray segs hK'
      have hcost := newKanji_cost NewRMQRValid.distinct data.toArray hsize hsz segs hK'
      have hlen : (segs.flatMap (·.data)).length = data.length := by rw [hcat]
      simp only [List.size_toArray] at hcost
      have htot : (segs.map fun s => RMQR.segBits s c).sum ≤ 11 + 8 * data.length :=
        total_le (fun s => RMQR.segBits s c) (sc 1 2 3 4) 32 11 data.length segs
          (fun s hs => (seg_facts c h0 h1 h2 h3 s (hok s hs) (hnonempty s hs)).1)
          (fun s hs => (seg_facts c h0 h1 h2 h3 s (hok s hs) (hnonempty s hs)).2) hcost hlen (by omega)
      -- version 31 holds the segments
      have hfits : rmFits level segs 31 := by
        have hagree := fun s => Lemmas.CalcVersionExt.rmqr_length_agrees s 31 level c hc
        have hall : ∀ s ∈ segs, Model.RMQR.segLength s 31 (level : Int) = .ok (some (RMQR.segBits s c)) := by
          intro s hs
          have hle : RMQR.segBits s c ≤ 3 + 8 + 8 * data.length := by
            have hmem : RMQR.segBits s c ∈ segs.map fun s => RMQR.segBits s c := List.mem_map.2 ⟨s, hs, rfl⟩
            have := Lemmas.NewQRValid.le_sum_of_mem hmem
            omega
          have hag := hagree s
          rw [show ((31 : Nat) : Int) = 31 from rfl] at hag
          rw [hag]
          rcases (hok s hs).1 (hnonempty s hs) with hm | hm | hm | hm
          · have hk : RMQR.kindOf s.mode = some 0 := by rw [hm]; rfl
            rw [hk]
            simp only []
            rw [if_pos]
            simp only [RMQR.segBits, hk, h0, bodyBits] at hle
            rw [h0]
            show count 0 s.data < 512
            generalize count 0 s.data = n at hle ⊢
            omega
          · have hk : RMQR.kindOf s.mode = some 1 := by rw [hm]; rfl
            rw [hk]
            simp only []
            rw [if_pos]
            simp only [RMQR.segBits, hk, h1, bodyBits] at hle
            rw [h1]
            show count 1 s.data < 256
            generalize count 1 s.data = n at hle ⊢
            omega
          · have hk : RMQR.kindOf s.mode = some 2 := by rw [hm]; rfl
            rw [hk]
            simp only []
            rw [if_pos]
            simp only [RMQR.segBits, hk, h2, bodyBits] at hle
            rw [h2]
            show count 2 s.data < 256
            generalize count 2 s.data = n at hle ⊢
            omega
          · have hk : RMQR.kindOf s.mode = some 3 := by rw [hm]; rfl
            rw [hk]
            simp only []
            rw [if_pos]
            simp only [RMQR.segBits, hk, h3, bodyBits] at hle
            rw [h3]
            show count 3 s.data < 128
            generalize count 3 s.data = n at hle ⊢
            omega
        refine ⟨_, (rmLen_eq segs 31 (level : Int)).trans (Lemmas.NewOptimalRMQR.rmAcc_all 31 (level : Int) _ segs 0 hall), ?_⟩
        have hcapc : rmCapBits 31 level = c.data * 8 := by
          unfold RMQR.row at hc
          unfold rmCapBits
          rw [show (31 : Int).toNat = 31 from rfl, hc]
          rfl
        omega
      obtain ⟨r, hr, _, hnone⟩ := rmqr_calcVersion_first_fit level prio hl hp segs
      rw [hr]
      simp only [Out.bind_ok]
      cases r with
      | some v => exact ⟨_, rfl⟩
      | none =>
        exfalso
        have hmem : (31 : Int) ∈ rmOrder prio := by
          have := forall_lt_of_all Lemmas.NewOptimalRMQR.order31 prio hp
          simpa using this
        exact hnone rfl 31 hmem hfits

end QRV.Lemmas.NewKanjiCostRMQR
