import QRV.Lemmas.RTEncode
import QRV.Lemmas.RTFinWalk
/-
Decoder side of the round trip: on the final image of the encoder (format information in place,
masked), `decodeBitmap` finds level and mask, unmasks back to the pre-mask image, reads the
interleaved codewords back along the walk, and hands them to de-interleaving, error correction and
segment parsing (each given here as a hypothesis about the respective model function).
-/
open QRV QRV.Model QRV.Model.Bitmap QRV.Model.Sym QRV.Props QRV.Props.C18 QRV.Model.QR QRV.Model.Bits QRV.Spec.Bits
namespace QRV.Lemmas.RT

theorem normalise_regular (img : Image) (n : Nat) (hr : Regular img n n) : normalise img = img := by
  obtain ⟨h0, h1, h2, h3, _, _, _⟩ := hr
  cases img
  simp only [normalise, Image.dx, Image.dy] at *
  subst h0 h1 h2 h3
  simp

theorem first_copy_used (v : Nat) (h1 : 1 ≤ v) (h40 : v ≤ 40) (i : Nat) (hi : i < 8) :
    usedFn v ((8 : Nat) : Int) ((sk i : Nat) : Int) = true ∧ usedFn v ((sk i : Nat) : Int) ((8 : Nat) : Int) = true := by
  constructor
  · exact formatWrites_used v h1 h40 0 _ ((mem_formatWrites ..).2 (Or.inl ⟨i, hi, Or.inl rfl⟩))
  · exact formatWrites_used v h1 h40 0 _ ((mem_formatWrites ..).2 (Or.inl ⟨i, hi, Or.inr (Or.inl rfl)⟩))

theorem decode_spec (v l m : Nat) (h1 : 1 ≤ v) (h40 : v ≤ 40) (hl : l < 4) (hm : m < 8)
    (segments : List Segment) (img3 img4 used pat : Image) (c : Nat) (cs : List (Int × Int))
    (il : List Nat) (cap : Gen.GCap) (blks : List (List Nat × List Nat)) (data : List Nat)
    (hr3 : Regular img3 (17 + 4 * v) (17 + 4 * v)) (hr4 : Regular img4 (17 + 4 * v) (17 + 4 * v))
    (hru : Regular used (17 + 4 * v) (17 + 4 * v)) (hrp : Regular pat 184 177)
    (hmask : Image.mask img3 used pat = .ok img4)
    (hused : imgAt usedList (v : Int) = .ok (some used)) (hpat : imgAt maskList (m : Int) = .ok (some pat))
    (hbin : ∀ x y, used.binaryAt x y = .ok (usedFn v x y))
    (hc : Gen.QR.encodedFormat[l * 8 + m]? = some c)
    (hfc : ∀ i : Nat, i < 8 → px img3 8 (sk i) = c.testBit i ∧ px img3 (sk i) 8 = c.testBit (14 - i))
    (hwalk : walk (usedFn v) (16 + 4 * (v : Int)) (fuelOf (16 + 4 * (v : Int))) (start (16 + 4 * (v : Int))) = some cs)
    (hlen : 8 * il.length ≤ cs.length) (hilb : ∀ b ∈ il, b < 256)
    (hbits : ∀ k (hk : k < 8 * il.length), px img3 (cs[k]'(by omega)).1.toNat (cs[k]'(by omega)).2.toNat = (unpack il)[k]'(by simpa using hk))
    (hcap : capAt Gen.QR.capacityTable (v : Int) (l : Int) = .ok cap) (hiltot : il.length = cap.total)
    (hdeint : ∀ extra : List Nat, deinterleave cap.blocks cap.data cap.total (il ++ extra) = .ok blks)
    (hrs : rsLoop blks = .ok data.toArray)
    (hseg : segmentLoop (v : Int) (data.toArray.size * 8 + 8) { buf := data.toArray } #[] = .ok segments) :
    decodeBitmap img4 = .ok { version := v, level := l, mask := m, segments := segments } := by
  unfold decodeBitmap decodeBitmapFull
  have hdx : img4.dx = ((17 + 4 * v : Nat) : Int) := by unfold Image.dx; rw [hr4.maxX, hr4.minX]; omega
  have hdy : img4.dy = ((17 + 4 * v : Nat) : Int) := by unfold Image.dy; rw [hr4.maxY, hr4.minY]; omega
  have hn4 : ((17 + 4 * v : Nat) : Int) - 17 = 4 * (v : Int) := by omega
  have hver : (((17 + 4 * v : Nat) : Int) - 17).tdiv 4 = (v : Int) := by
    rw [hn4, Int.mul_tdiv_cancel_left _ (by decide)]
  have hmod : (((17 + 4 * v : Nat) : Int) - 17).tmod 4 = 0 := by
    rw [hn4, Int.mul_tmod_right]
  simp only [hdx, hdy, normalise_regular img4 _ hr4, hver, hmod]
  rw [if_neg (by omega)]
  -- format information
  have hfmt : decodeFormat img4 = .ok ((l : Int), (m : Int)) := by
    have h := decodeFormat_first img4 _ hr4 (by omega) (l * 8 + m) c (by omega) hc ?_ ?_
    · rw [h]
      have e1 : (l * 8 + m) >>> 3 = l := by rw [Nat.shiftRight_eq_div_pow]; omega
      have e2 : (l * 8 + m) &&& 7 = m := by
        rw [show (7 : Nat) = 2 ^ 3 - 1 by decide, Nat.and_two_pow_sub_one_eq_mod]; omega
      rw [e1, e2]
    · intro i hi
      have hs := sk_le i hi
      rw [mask_spec img3 used pat img4 _ _ 184 177 (by omega) (by omega) hr3 hru hrp (by omega) (by omega) hmask
        8 (sk i) (by omega) (by omega), used_px v used hru hbin 8 (sk i) (by omega) (by omega),
        (first_copy_used v h1 h40 i hi).1, (hfc i hi).1]
      simp
    · intro i hi
      have hs := sk_le i hi
      rw [mask_spec img3 used pat img4 _ _ 184 177 (by omega) (by omega) hr3 hru hrp (by omega) (by omega) hmask
        (sk i) 8 (by omega) (by omega), used_px v used hru hbin (sk i) 8 (by omega) (by omega),
        (first_copy_used v h1 h40 i hi).2, (hfc i hi).2]
      simp
  have hinv := mask_involutive img3 used pat img4 _ _ 184 177 (by omega) (by omega) hr3 hru hrp (by omega) (by omega) hmask
  simp only [hfmt, Out.bind_ok, hused, hpat, deref, hinv]
  -- reading
  obtain ⟨rbuf, hrl, hrinv, hrabs⟩ := readLoop_eq used img3 (usedFn v)
    (fun x y => if 0 ≤ x ∧ x < ((17 + 4 * v : Nat) : Int) ∧ 0 ≤ y ∧ y < ((17 + 4 * v : Nat) : Int) then px img3 x.toNat y.toNat else false)
    hbin (fun x y => binaryAt_spec img3 _ _ hr3 x y) (16 + 4 * (v : Int)) _ _ cs {} hwalk C16.inv_empty
  unfold fuelOf start at hrl
  rw [C16.abs_empty, List.nil_append] at hrabs
  obtain ⟨hnd, hrange⟩ := walk_sound (usedFn v) (16 + 4 * (v : Int)) (by omega) _ cs hwalk
  have hbytes : ∃ extra, rbuf.buf.toList = il ++ extra := by
    refine ⟨pack ((cs.map fun c => if 0 ≤ c.1 ∧ c.1 < ((17 + 4 * v : Nat) : Int) ∧ 0 ≤ c.2 ∧ c.2 < ((17 + 4 * v : Nat) : Int) then px img3 c.1.toNat c.2.toNat else false).drop (8 * il.length)), ?_⟩
    rw [C16.bytes_are_packing rbuf hrinv, hrabs, ← Lemmas.Bits.pack_unpack_append il hilb]
    congr 1
    conv => lhs; rw [← List.take_append_drop (8 * il.length) (cs.map _)]
    congr 1
    apply List.ext_getElem
    · simp; omega
    · intro k hk1 hk2
      have hk : k < 8 * il.length := by simpa using hk2
      rw [List.getElem_take, List.getElem_map, ← hbits k hk]
      have hr := hrange _ (List.getElem_mem (show k < cs.length by omega))
      rw [if_pos (by omega)]
  obtain ⟨extra, hextra⟩ := hbytes
  simp only [hrl, Out.bind_ok, hcap, hextra, hdeint extra]
  unfold rsLoop at hrs
  simp only [hrs, Out.bind_ok, hseg]
  rfl
end QRV.Lemmas.RT
