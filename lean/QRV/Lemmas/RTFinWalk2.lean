import QRV.Lemmas.RTWalk
/-
Kernel evaluation of the module walk, versions 4, 15, 18, 26, 39: the model's fuel suffices and there is
room for all codewords (`checkV`, see `RTWalk`).
-/
namespace QRV.Lemmas.RT
set_option maxRecDepth 1000000

theorem walk_ok_4 : checkV 4 = true := by decide +kernel
theorem walk_ok_15 : checkV 15 = true := by decide +kernel
theorem walk_ok_18 : checkV 18 = true := by decide +kernel
theorem walk_ok_26 : checkV 26 = true := by decide +kernel
theorem walk_ok_39 : checkV 39 = true := by decide +kernel

end QRV.Lemmas.RT
