import QRV.Lemmas.RSDecode
/-
Core-only lemmas for the completeness of the decoder: total-correctness loop rules, coefficient
extensionality, distance as a count of differing coefficients, normal forms of the Chien search,
of Forney's loop and of the correction loop.
-/
namespace QRV.Lemmas.RS
open QRV QRV.Model QRV.Model.GF QRV.Model.RS QRV.Model.RS.Poly QRV.Spec.GF QRV.Lemmas.GF

/-! ### coefficients -/

theorem coefficient_modify (l : List Nat) (k : Nat) (f : Nat → Nat) (hk : k < l.length) (e : Nat) :
    coefficient (l.modify k f) e =
      if e = l.length - 1 - k then f (coefficient l e) else coefficient l e := by
  unfold coefficient
  rw [List.length_modify]
  by_cases h1 : e ≥ l.length
  · simp only [if_pos h1]; rw [if_neg (by omega)]
  · simp only [if_neg h1]; rw [List.getElem?_modify]
    have hlt : l.length - e - 1 < l.length := by omega
    rw [List.getElem?_eq_getElem hlt]
    simp only [Option.map_eq_map, Option.map_some, Option.getD_some]
    by_cases h2 : e = l.length - 1 - k
    · rw [if_pos h2, if_pos (by omega)]
    · rw [if_neg h2, if_neg (by omega)]

theorem coefficient_eq_getElem (l : List Nat) (j : Nat) (hj : j < l.length) :
    coefficient l (l.length - 1 - j) = l[j] := by
  rw [← getD_eq_coefficient l j hj, List.getElem?_eq_getElem hj]; rfl

/-- two words of equal length with the same coefficients are equal -/
theorem list_ext_coefficient {a b : List Nat} (hl : a.length = b.length)
    (h : ∀ e, e < a.length → coefficient a e = coefficient b e) : a = b := by
  apply List.ext_getElem hl
  intro j h1 h2
  rw [← coefficient_eq_getElem a j h1, ← coefficient_eq_getElem b j h2, ← hl]
  exact h _ (by omega)

/-- the indices (as exponents) at which two words differ -/
def diffIdx (a b : List Nat) : List Nat :=
  (List.range a.length).filter fun i => coefficient a i != coefficient b i

theorem distL_eq_diffIdx : ∀ (a b : List Nat), a.length = b.length → distL a b = (diffIdx a b).length
  | [], [], _ => rfl
  | [], _ :: _, hl => by simp at hl
  | _ :: _, [], hl => by simp at hl
  | x :: a, y :: b, hl => by
    have hl' : a.length = b.length := by simpa using hl
    rw [distL_cons, distL_eq_diffIdx a b hl']
    unfold diffIdx
    rw [List.length_cons, List.range_succ, List.filter_append, List.length_append]
    have h1 : (List.range a.length).filter (fun i => coefficient (x :: a) i != coefficient (y :: b) i) =
        (List.range a.length).filter (fun i => coefficient a i != coefficient b i) := by
      apply List.filter_congr
      intro i hi
      have hi' : i < a.length := by simpa using hi
      rw [coefficient_cons, coefficient_cons, if_neg (by omega), if_neg (by omega)]
    rw [h1, List.filter_cons, List.filter_nil, coefficient_cons, coefficient_cons, if_pos rfl,
      if_pos hl']
    split <;> simp <;> omega

theorem diffIdx_nodup (a b : List Nat) : (diffIdx a b).Nodup :=
  List.Nodup.sublist List.filter_sublist List.nodup_range

theorem mem_diffIdx {a b : List Nat} {i : Nat} :
    i ∈ diffIdx a b ↔ i < a.length ∧ coefficient a i ≠ coefficient b i := by
  unfold diffIdx
  simp

/-! ### total-correctness rules -/

theorem foldlM_ok {α β} (f : β → α → Out β) (I : Nat → β → Prop) :
    ∀ (l : List α) (k : Nat) (init : β), I k init →
    (∀ j (hj : j < l.length) b, I (k + j) b → ∃ b', f b l[j] = .ok b' ∧ I (k + j + 1) b') →
    ∃ r, l.foldlM f init = .ok r ∧ I (k + l.length) r
  | [], k, init, h0, _ => ⟨init, rfl, h0⟩
  | a :: l, k, init, h0, hs => by
    rw [List.foldlM_cons]
    obtain ⟨b, hb, h1⟩ := hs 0 (by simp) init h0
    have hb' : f init a = .ok b := hb
    rw [hb', Out.bind_ok]
    obtain ⟨r, hr, hI⟩ := foldlM_ok f I l (k + 1) b h1 (fun j hj b hI => by
      have := hs (j + 1) (by simpa using hj) b (by rw [← Nat.add_assoc]; rwa [Nat.add_right_comm])
      rw [Nat.add_right_comm k 1 j]; exact this)
    refine ⟨r, hr, ?_⟩
    rw [List.length_cons, ← Nat.add_assoc, Nat.add_right_comm]; exact hI

theorem forIn_ok {α β} (f : α → β → Out (ForInStep β)) (I : Nat → β → Prop) :
    ∀ (l : List α) (k : Nat) (init : β), I k init →
    (∀ j (hj : j < l.length) b, I (k + j) b → ∃ b', f l[j] b = .ok (.yield b') ∧ I (k + j + 1) b') →
    ∃ r, forIn l init f = .ok r ∧ I (k + l.length) r
  | [], k, init, h0, _ => ⟨init, rfl, h0⟩
  | a :: l, k, init, h0, hs => by
    rw [List.forIn_cons]
    obtain ⟨b, hb, h1⟩ := hs 0 (by simp) init h0
    have hb' : f a init = .ok (.yield b) := hb
    rw [hb', Out.bind_ok]
    obtain ⟨r, hr, hI⟩ := forIn_ok f I l (k + 1) b h1 (fun j hj b hI => by
      have := hs (j + 1) (by simpa using hj) b (by rw [← Nat.add_assoc]; rwa [Nat.add_right_comm])
      rw [Nat.add_right_comm k 1 j]; exact this)
    refine ⟨r, hr, ?_⟩
    rw [List.length_cons, ← Nat.add_assoc, Nat.add_right_comm]; exact hI

/-! ### Chien search: normal form -/

theorem chien_aux (sigma : List Nat) : ∀ (l : List Nat) (acc : List Nat),
    l.foldlM (fun acc k =>
      let e := k + 1
      if eval sigma e = 0 then do
        let iv ← inv e
        pure (acc ++ [iv])
      else (pure acc : Out (List Nat))) acc =
    .ok (acc ++ (l.filter fun k => eval sigma (k + 1) = 0).map fun k => inv' (k + 1))
  | [], acc => by simp [pure]
  | k :: l, acc => by
    rw [List.foldlM_cons]
    by_cases h : eval sigma (k + 1) = 0
    · simp only [h, if_true, inv_ok (Nat.succ_ne_zero k), Out.bind_ok]
      show (pure (acc ++ [inv' (k + 1)]) >>= _) = _
      show List.foldlM _ (acc ++ [inv' (k + 1)]) l = _
      rw [chien_aux sigma l]
      simp [h]
    · simp only [h, if_false]
      show List.foldlM _ acc l = _
      rw [chien_aux sigma l]
      simp [h]

theorem findErrorLocations_eq (sigma : List Nat) :
    findErrorLocations sigma =
      .ok (((List.range 255).filter fun k => eval sigma (k + 1) = 0).map fun k => inv' (k + 1)) := by
  unfold findErrorLocations
  exact (chien_aux sigma (List.range 255) []).trans (by simp)

theorem mem_locs {sigma : List Nat} {x : Nat} :
    x ∈ (((List.range 255).filter fun k => eval sigma (k + 1) = 0).map fun k => inv' (k + 1)) ↔
      ∃ e, 1 ≤ e ∧ e < 256 ∧ eval sigma e = 0 ∧ x = inv' e := by
  simp only [List.mem_map, List.mem_filter, List.mem_range, decide_eq_true_eq]
  constructor
  · rintro ⟨k, ⟨hk, h0⟩, rfl⟩
    exact ⟨k + 1, by omega, by omega, h0, rfl⟩
  · rintro ⟨e, h1, h2, h0, rfl⟩
    refine ⟨e - 1, ⟨by omega, ?_⟩, ?_⟩
    · rw [Nat.sub_add_cancel h1]; exact h0
    · rw [Nat.sub_add_cancel h1]

/-! ### Forney: normal form -/

/-- the denominator computed for location i -/
def forneyDen (locs : List Nat) (i : Nat) : Nat :=
  (List.range locs.length).foldl (init := 1) fun den j =>
    if i ≠ j then mul den (add (mul (locs[j]?.getD 0) (inv' (locs[i]?.getD 0))) 1) else den

/-- the magnitude computed for location i -/
def forneyMag (omega locs : List Nat) (i : Nat) : Nat :=
  mul (eval omega (inv' (locs[i]?.getD 0))) (inv' (forneyDen locs i))

theorem foldlM_append_map {α} (body : List Nat → α → Out (List Nat)) (G : α → Nat) :
    ∀ (l : List α) (acc : List Nat), (∀ acc, ∀ x ∈ l, body acc x = .ok (acc ++ [G x])) →
    l.foldlM body acc = .ok (acc ++ l.map G)
  | [], acc, _ => by simp [pure]
  | x :: l, acc, h => by
    rw [List.foldlM_cons, h acc x (List.mem_cons_self ..), Out.bind_ok,
      foldlM_append_map body G l _ (fun acc y hy => h acc y (List.mem_cons_of_mem _ hy))]
    simp

theorem findErrorMagnitudes_eq (omega : List Nat) {locs : List Nat}
    (hne : ∀ i, i < locs.length → locs[i]?.getD 0 ≠ 0)
    (hden : ∀ i, i < locs.length → forneyDen locs i ≠ 0) :
    findErrorMagnitudes omega locs = .ok ((List.range locs.length).map (forneyMag omega locs)) := by
  unfold findErrorMagnitudes
  refine (foldlM_append_map _ (forneyMag omega locs) _ [] ?_).trans (by simp)
  intro acc i hi
  have hi' : i < locs.length := by simpa using hi
  simp only [inv_ok (hne i hi'), Out.bind_ok]
  have := hden i hi'
  unfold forneyDen at this
  rw [inv_ok this]
  rfl

/-! ### the correction loop: normal form -/

theorem mem_take_succ {l : List Nat} {j : Nat} (hj : j < l.length) (e : Nat) :
    e ∈ l.take (j + 1) ↔ e ∈ l.take j ∨ e = l[j] := by
  rw [List.take_add_one, List.mem_append, List.getElem?_eq_getElem hj]
  simp

theorem getElem_not_mem_take {l : List Nat} (hn : l.Nodup) {j : Nat} (hj : j < l.length) :
    l[j] ∉ l.take j := by
  intro h
  obtain ⟨i, hi, heq⟩ := List.mem_iff_getElem.mp h
  rw [List.length_take] at hi
  rw [List.getElem_take] at heq
  have := (List.getElem_inj hn).mp heq
  omega

theorem corrLoop_complete {r c locs mags : List Nat} (hlen : c.length = r.length)
    (hne : ∀ i, (hi : i < locs.length) → locs[i] ≠ 0 ∧ logT locs[i] < r.length)
    (hnd : (locs.map logT).Nodup)
    (hmag : ∀ i, (hi : i < locs.length) → mags[i]?.getD 0 =
      add (coefficient r (logT locs[i])) (coefficient c (logT locs[i])))
    (hcov : ∀ e, e < r.length → coefficient r e ≠ coefficient c e → e ∈ locs.map logT) :
    ∃ d, forIn (List.range' 0 locs.length 1) r.toArray (corrStep locs mags) = .ok d ∧ d.toList = c := by
  obtain ⟨d, hd, hsz, hI⟩ := forIn_ok (corrStep locs mags)
    (fun j (d : Array Nat) => d.size = r.length ∧ ∀ e, coefficient d.toList e =
      if e ∈ (locs.map logT).take j then coefficient c e else coefficient r e)
    (List.range' 0 locs.length 1) 0 r.toArray ⟨by simp, fun e => by simp⟩
    (fun j hj d hI => by
      have hj' : j < locs.length := by simpa using hj
      obtain ⟨hsz, hI⟩ := hI
      obtain ⟨h0, hk⟩ := hne j hj'
      simp only [List.getElem_range', Nat.zero_add, Nat.one_mul] at hI ⊢
      unfold corrStep
      have hloc : locs[j]?.getD 0 = locs[j] := by rw [List.getElem?_eq_getElem hj']; rfl
      have hlog : log (locs[j]?.getD 0) = .ok (logT locs[j]) := by
        rw [hloc]; unfold log; rw [if_neg h0]
      rw [hlog]
      simp only
      rw [if_neg (by omega)]
      refine ⟨_, rfl, by rw [Array.size_modify]; exact hsz, fun e => ?_⟩
      have hjm : j < (locs.map logT).length := by simpa using hj'
      have hkj : (locs.map logT)[j] = logT locs[j] := by simp
      rw [Array.toList_modify, coefficient_modify _ _ _ (by rw [Array.length_toList]; omega),
        Array.length_toList, hsz, hI e]
      have hiff := mem_take_succ hjm e
      rw [hkj] at hiff
      by_cases he : e = logT locs[j]
      · have hnot : e ∉ (locs.map logT).take j := by
          rw [he, ← hkj]; exact getElem_not_mem_take hnd hjm
        rw [if_pos (by omega), if_neg hnot, if_pos (hiff.mpr (Or.inr he)), hmag j hj', he, ← add_assoc,
          add_self, zero_add]
      · rw [if_neg (by omega)]
        by_cases hm : e ∈ (locs.map logT).take j
        · rw [if_pos hm, if_pos (hiff.mpr (Or.inl hm))]
        · rw [if_neg hm, if_neg (fun h => (hiff.mp h).elim hm he)])
  refine ⟨d, hd, ?_⟩
  have hfull : (locs.map logT).take (0 + (List.range' 0 locs.length 1).length) = locs.map logT := by
    rw [List.length_range', Nat.zero_add, ← List.length_map (f := logT)]; exact List.take_length
  rw [hfull] at hI
  apply list_ext_coefficient (by rw [Array.length_toList, hsz, hlen])
  intro e he
  rw [Array.length_toList, hsz] at he
  rw [hI e]
  split
  · rfl
  next hm =>
    by_cases hd : coefficient r e = coefficient c e
    · exact hd
    · exact absurd (hcov e he hd) hm

/-! ### assembling `decodeTail` -/

theorem decodeTail_complete {data : List Nat} {n : Nat} {sigma omega locs mags : List Nat} {d : Array Nat}
    (h1 : euclideanAlgorithm (newMonomial n 1) (syndromes data n) n = .ok (sigma, omega))
    (h2 : findErrorLocations sigma = .ok locs) (h3 : locs.length = degree sigma)
    (h4 : findErrorMagnitudes omega locs = .ok mags)
    (h5 : forIn (List.range' 0 locs.length 1) data.toArray (corrStep locs mags) = .ok d)
    (h6 : SyndZero n d.toList) : decodeTail data n = .ok d.toList := by
  unfold decodeTail
  rw [h1]
  simp only
  rw [h2]
  simp only
  rw [if_neg (by simpa using h3), h4]
  simp only
  rw [h5]
  simp only
  rw [if_pos ((recheck_all_iff _ _).mpr h6)]

end QRV.Lemmas.RS
