import QRV.Lemmas.RTImage
import QRV.Lemmas.RTFinFormat
import QRV.Props.C11
/-
Format and version information in the round trip: `placeFormat` and the version loop as lists of
`SetBinary` writes ("last write wins"), the modules they touch are function modules, and
`decodeFormat` reads the first copy back exactly.
-/
namespace QRV.Lemmas.RT
open QRV QRV.Model QRV.Model.Bitmap QRV.Model.Sym QRV.Props QRV.Props.C18 QRV.Model.QR QRV.Lemmas.BCH

/-! ### sequences of writes -/

def applyWrites (ws : List ((Int × Int) × Bool)) (img : Image) : Out Image :=
  ws.foldlM (fun im p => im.setBinary p.1.1 p.1.2 p.2) img

/-- a sequence of `SetBinary` on a regular image never fails; an untouched pixel keeps its colour; a
pixel all of whose writes carry the colour c (and that is written at least once) ends up c -/
theorem writes_spec (w h : Nat) : ∀ (ws : List ((Int × Int) × Bool)) (img : Image), Regular img w h →
    ∃ img', applyWrites ws img = .ok img' ∧ Regular img' w h ∧
      ∀ x y : Nat, x < w → y < h →
        ((∀ p ∈ ws, p.1 ≠ ((x : Int), (y : Int))) → px img' x y = px img x y) ∧
        (∀ c, (∀ p ∈ ws, p.1 = ((x : Int), (y : Int)) → p.2 = c) → (∃ p ∈ ws, p.1 = ((x : Int), (y : Int))) →
          px img' x y = c) := by
  intro ws
  induction ws with
  | nil =>
    intro img hr
    exact ⟨img, rfl, hr, fun x y _ _ => ⟨fun _ => rfl, fun c _ h => by obtain ⟨p, hp, _⟩ := h; cases hp⟩⟩
  | cons p ws ih =>
    intro img hr
    obtain ⟨img1, e1, hr1, hp1⟩ := setBinary_spec img w h hr p.1.1 p.1.2 p.2
    obtain ⟨img', e', hr', hp'⟩ := ih img1 hr1
    refine ⟨img', ?_, hr', ?_⟩
    · unfold applyWrites at e' ⊢
      rw [List.foldlM_cons, e1]
      exact e'
    · intro x y hx hy
      have hx8 : x < 8 * ((w + 7) / 8) := by omega
      have hstep := hp1 x y hx8 hy
      obtain ⟨hA, hB⟩ := hp' x y hx hy
      constructor
      · intro hne
        rw [hA (fun q hq => hne q (List.mem_cons_of_mem _ hq)), hstep, if_neg]
        intro hc
        apply hne p (List.mem_cons_self ..)
        obtain ⟨h1, _, h3, _, h5, h6⟩ := hc
        apply Prod.ext <;> simp <;> omega
      · intro c hall hex
        by_cases hws : ∃ q ∈ ws, q.1 = ((x : Int), (y : Int))
        · exact hB c (fun q hq => hall q (List.mem_cons_of_mem _ hq)) hws
        · have hne : ∀ q ∈ ws, q.1 ≠ ((x : Int), (y : Int)) := fun q hq he => hws ⟨q, hq, he⟩
          rw [hA hne, hstep]
          obtain ⟨q, hq, hqe⟩ := hex
          rcases List.mem_cons.mp hq with rfl | hq'
          · have hv := hall q (List.mem_cons_self ..) hqe
            rw [if_pos, hv]
            have h1 : q.1.1 = (x : Int) := congrArg Prod.fst hqe
            have h2 : q.1.2 = (y : Int) := congrArg Prod.snd hqe
            rw [h1, h2]
            omega
          · exact absurd hqe (hne q hq')

theorem applyWrites_append (ws₁ ws₂ : List ((Int × Int) × Bool)) (img : Image) :
    applyWrites (ws₁ ++ ws₂) img = applyWrites ws₁ img >>= applyWrites ws₂ := by
  unfold applyWrites
  rw [List.foldlM_append]

theorem forIn_range'_writes (f : Nat → List ((Int × Int) × Bool)) (n : Nat) : ∀ (a : Nat) (img : Image),
    forIn (List.range' a n) img (fun i s => do
      let s' ← applyWrites (f i) s
      pure (ForInStep.yield s')) = applyWrites ((List.range' a n).flatMap f) img := by
  induction n with
  | zero => intro a img; rfl
  | succ n ih =>
    intro a img
    rw [List.range'_succ, List.forIn_cons, List.flatMap_cons, applyWrites_append]
    simp only [bind_assoc]
    congr 1
    funext s'
    simp only [pure_bind]
    exact ih (a + 1) s'

/-! ### `placeFormat` and the version loop as write lists -/

def formatWrites (w : Int) (format : Nat) : List ((Int × Int) × Bool) :=
  (List.range 8).flatMap (fun (i : Nat) =>
    [(((8 : Int), skipTimingPattern (i : Int)), (format >>> i) &&& 1 != 0),
     ((skipTimingPattern (i : Int), (8 : Int)), (format >>> (14 - i)) &&& 1 != 0),
     ((w - (i : Int), (8 : Int)), (format >>> i) &&& 1 != 0),
     (((8 : Int), w - (i : Int)), (format >>> (14 - i)) &&& 1 != 0)]) ++ [(((8 : Int), w - 7), true)]

theorem placeFormat_eq (img : Image) (w : Int) (format : Nat) :
    placeFormat img w format = applyWrites (formatWrites w format) img := by
  unfold placeFormat formatWrites
  simp only [Std.Legacy.Range.forIn_eq_forIn_range', Std.Legacy.Range.size]
  have := forIn_range'_writes (fun (i : Nat) =>
    [(((8 : Int), skipTimingPattern (i : Int)), (format >>> i) &&& 1 != 0),
     ((skipTimingPattern (i : Int), (8 : Int)), (format >>> (14 - i)) &&& 1 != 0),
     ((w - (i : Int), (8 : Int)), (format >>> i) &&& 1 != 0),
     (((8 : Int), w - (i : Int)), (format >>> (14 - i)) &&& 1 != 0)]) 8 0 img
  simp only [applyWrites, List.foldlM_cons, List.foldlM_nil, bind_assoc, pure_bind] at this
  rw [applyWrites, List.foldlM_append, List.range_eq_range']
  simp only [List.foldlM_cons, List.foldlM_nil] at this ⊢
  rw [← this]
  simp

def versionWrites (w : Int) (version : Nat) : List ((Int × Int) × Bool) :=
  (List.range 18).flatMap (fun (i : Nat) =>
    [((((i / 3 : Nat) : Int), w - 10 + ((i % 3 : Nat) : Int)), (version >>> i) &&& 1 != 0),
     ((w - 10 + ((i % 3 : Nat) : Int), ((i / 3 : Nat) : Int)), (version >>> i) &&& 1 != 0)])

/-- the version-information loop of `encodeToBitmap` -/
def versionLoop (w : Int) (version : Nat) (img : Image) : Out Image :=
  forIn [:18] img fun i img => do
    let bit := version >>> i &&& 1 != 0
    let img ← img.setBinary (↑(i / 3)) (w - 10 + ↑(i % 3)) bit
    let img ← img.setBinary (w - 10 + ↑(i % 3)) (↑(i / 3)) bit
    pure (ForInStep.yield img)

theorem versionLoop_eq (img : Image) (w : Int) (version : Nat) :
    versionLoop w version img = applyWrites (versionWrites w version) img := by
  unfold versionLoop versionWrites
  simp only [Std.Legacy.Range.forIn_eq_forIn_range', Std.Legacy.Range.size]
  have := forIn_range'_writes (fun (i : Nat) =>
    [((((i / 3 : Nat) : Int), w - 10 + ((i % 3 : Nat) : Int)), (version >>> i) &&& 1 != 0),
     ((w - 10 + ((i % 3 : Nat) : Int), ((i / 3 : Nat) : Int)), (version >>> i) &&& 1 != 0)]) 18 0 img
  simp only [applyWrites, List.foldlM_cons, List.foldlM_nil, bind_assoc, pure_bind] at this
  rw [applyWrites, List.range_eq_range']
  rw [← this]

/-! ### positions -/

theorem skip_eq (j : Nat) : skipTimingPattern (j : Int) = ((sk j : Nat) : Int) := by
  unfold skipTimingPattern sk
  have e : Gen.QR.c_timingPatternOffset = 6 := rfl
  by_cases h : j < 6
  · rw [if_pos (by omega), if_pos h]
  · rw [if_neg (by omega), if_neg h]; omega

theorem sk_le (j : Nat) (hj : j < 8) : sk j ≤ 8 := by unfold sk; split <;> omega

theorem sk_inj (i j : Nat) (h : sk i = sk j) : i = j := by
  unfold sk at h; split at h <;> split at h <;> omega

theorem mem_formatWrites (w : Int) (fmt : Nat) (p : (Int × Int) × Bool) :
    p ∈ formatWrites w fmt ↔
      (∃ j, j < 8 ∧ (p = (((8 : Int), ((sk j : Nat) : Int)), fmt.testBit j) ∨
        p = ((((sk j : Nat) : Int), (8 : Int)), fmt.testBit (14 - j)) ∨
        p = ((w - (j : Int), (8 : Int)), fmt.testBit j) ∨
        p = (((8 : Int), w - (j : Int)), fmt.testBit (14 - j)))) ∨ p = (((8 : Int), w - 7), true) := by
  simp only [formatWrites, List.mem_append, List.mem_flatMap, List.mem_range, List.mem_cons,
    List.not_mem_nil, or_false, skip_eq, Lemmas.Bitmap.bit_eq_testBit]

theorem mem_versionWrites (w : Int) (ver : Nat) (p : (Int × Int) × Bool) :
    p ∈ versionWrites w ver ↔
      ∃ j, j < 18 ∧ (p = ((((j / 3 : Nat) : Int), w - 10 + ((j % 3 : Nat) : Int)), ver.testBit j) ∨
        p = ((w - 10 + ((j % 3 : Nat) : Int), ((j / 3 : Nat) : Int)), ver.testBit j)) := by
  simp only [versionWrites, List.mem_flatMap, List.mem_range, List.mem_cons,
    List.not_mem_nil, or_false, Lemmas.Bitmap.bit_eq_testBit]

/-- the first copy of the format information holds the word, whatever else `placeFormat` writes -/
theorem format_first_copy (w : Int) (hw : 20 ≤ w) (fmt i : Nat) (hi : i < 8) :
    ((∀ p ∈ formatWrites w fmt, p.1 = (((8 : Nat) : Int), ((sk i : Nat) : Int)) → p.2 = fmt.testBit i) ∧
      (∃ p ∈ formatWrites w fmt, p.1 = (((8 : Nat) : Int), ((sk i : Nat) : Int)))) ∧
    ((∀ p ∈ formatWrites w fmt, p.1 = (((sk i : Nat) : Int), ((8 : Nat) : Int)) → p.2 = fmt.testBit (14 - i)) ∧
      (∃ p ∈ formatWrites w fmt, p.1 = (((sk i : Nat) : Int), ((8 : Nat) : Int)))) := by
  have hski := sk_le i hi
  refine ⟨⟨?_, ?_⟩, ⟨?_, ?_⟩⟩
  · intro p hp he
    rw [mem_formatWrites] at hp
    rcases hp with ⟨j, hj, rfl | rfl | rfl | rfl⟩ | rfl
    · have : sk j = sk i := by
        have := congrArg Prod.snd he; simp only at this; omega
      rw [sk_inj _ _ this]
    · have h1 := congrArg Prod.fst he
      have h2 := congrArg Prod.snd he
      simp only at h1 h2
      have hj7 : j = 7 := by unfold sk at h1; split at h1 <;> omega
      have hi7 : i = 7 := by unfold sk at h2; split at h2 <;> omega
      subst hj7; subst hi7; rfl
    · have h1 := congrArg Prod.fst he; simp only at h1; omega
    · have h2 := congrArg Prod.snd he; simp only at h2; omega
    · have h2 := congrArg Prod.snd he; simp only at h2; omega
  · exact ⟨_, (mem_formatWrites ..).2 (Or.inl ⟨i, hi, Or.inl rfl⟩), rfl⟩
  · intro p hp he
    rw [mem_formatWrites] at hp
    rcases hp with ⟨j, hj, rfl | rfl | rfl | rfl⟩ | rfl
    · have h1 := congrArg Prod.fst he
      have h2 := congrArg Prod.snd he
      simp only at h1 h2
      have hj7 : j = 7 := by unfold sk at h2; split at h2 <;> omega
      have hi7 : i = 7 := by unfold sk at h1; split at h1 <;> omega
      subst hj7; subst hi7; rfl
    · have : sk j = sk i := by
        have := congrArg Prod.fst he; simp only at this; omega
      rw [sk_inj _ _ this]
    · have h1 := congrArg Prod.fst he; simp only at h1; omega
    · have h1 := congrArg Prod.snd he; simp only at h1; omega
    · have h1 := congrArg Prod.snd he; simp only at h1; omega
  · exact ⟨_, (mem_formatWrites ..).2 (Or.inl ⟨i, hi, Or.inr (Or.inl rfl)⟩), rfl⟩

/-! ### the written modules are function modules -/

theorem usedFn_nat (v x y : Nat) (hx : x < 17 + 4 * v) (hy : y < 17 + 4 * v) :
    usedFn v (x : Int) (y : Int) = rowBit (usedGen v).rows (usedGen v).stride x y := by
  unfold usedFn fnOf
  rw [decide_eq_true (by omega)]
  simp

theorem used_of_fmtPos (v : Nat) (h1 : 1 ≤ v) (h40 : v ≤ 40) (x y : Nat) (hm : (x, y) ∈ fmtPos v)
    (hx : x < 17 + 4 * v) (hy : y < 17 + 4 * v) : usedFn v (x : Int) (y : Int) = true := by
  have h := fmt_check v h1 h40
  unfold fmtCheck at h
  simp only [Bool.and_eq_true] at h
  rw [usedFn_nat v x y hx hy]
  exact List.all_eq_true.mp h.1 (x, y) hm

theorem used_of_verPos (v : Nat) (h7 : 7 ≤ v) (h40 : v ≤ 40) (x y : Nat) (hm : (x, y) ∈ verPos v)
    (hx : x < 17 + 4 * v) (hy : y < 17 + 4 * v) : usedFn v (x : Int) (y : Int) = true := by
  have h := fmt_check v (by omega) h40
  unfold fmtCheck at h
  simp only [Bool.and_eq_true, Bool.or_eq_true, decide_eq_true_eq] at h
  rw [usedFn_nat v x y hx hy]
  rcases h.2 with h' | h'
  · omega
  · exact List.all_eq_true.mp h' (x, y) hm

theorem mem_fmtPos (v : Nat) (p : Nat × Nat) :
    p ∈ fmtPos v ↔ (∃ j, j < 8 ∧ (p = (8, sk j) ∨ p = (sk j, 8) ∨ p = (17 + 4 * v - 1 - j, 8) ∨
      p = (8, 17 + 4 * v - 1 - j))) ∨ p = (8, 17 + 4 * v - 8) := by
  simp only [fmtPos, List.mem_append, List.mem_flatMap, List.mem_range, List.mem_cons,
    List.not_mem_nil, or_false]

theorem mem_verPos (v : Nat) (p : Nat × Nat) :
    p ∈ verPos v ↔ ∃ j, j < 18 ∧ (p = (j / 3, 17 + 4 * v - 11 + j % 3) ∨ p = (17 + 4 * v - 11 + j % 3, j / 3)) := by
  simp only [verPos, List.mem_flatMap, List.mem_range, List.mem_cons, List.not_mem_nil, or_false]

theorem formatWrites_used (v : Nat) (h1 : 1 ≤ v) (h40 : v ≤ 40) (fmt : Nat) :
    ∀ p ∈ formatWrites (16 + 4 * (v : Int)) fmt, usedFn v p.1.1 p.1.2 = true := by
  intro p hp
  rw [mem_formatWrites] at hp
  rcases hp with ⟨j, hj, rfl | rfl | rfl | rfl⟩ | rfl
  · have := sk_le j hj
    exact used_of_fmtPos v h1 h40 8 (sk j) ((mem_fmtPos ..).2 (Or.inl ⟨j, hj, Or.inl rfl⟩)) (by omega) (by omega)
  · have := sk_le j hj
    exact used_of_fmtPos v h1 h40 (sk j) 8 ((mem_fmtPos ..).2 (Or.inl ⟨j, hj, Or.inr (Or.inl rfl)⟩)) (by omega) (by omega)
  · have e : (16 + 4 * (v : Int)) - (j : Int) = ((17 + 4 * v - 1 - j : Nat) : Int) := by omega
    simp only [e]
    exact used_of_fmtPos v h1 h40 _ 8 ((mem_fmtPos ..).2 (Or.inl ⟨j, hj, Or.inr (Or.inr (Or.inl rfl))⟩)) (by omega) (by omega)
  · have e : (16 + 4 * (v : Int)) - (j : Int) = ((17 + 4 * v - 1 - j : Nat) : Int) := by omega
    simp only [e]
    exact used_of_fmtPos v h1 h40 8 _ ((mem_fmtPos ..).2 (Or.inl ⟨j, hj, Or.inr (Or.inr (Or.inr rfl))⟩)) (by omega) (by omega)
  · have e : (16 + 4 * (v : Int)) - 7 = ((17 + 4 * v - 8 : Nat) : Int) := by omega
    simp only [e]
    exact used_of_fmtPos v h1 h40 8 _ ((mem_fmtPos ..).2 (Or.inr rfl)) (by omega) (by omega)

theorem versionWrites_used (v : Nat) (h7 : 7 ≤ v) (h40 : v ≤ 40) (ver : Nat) :
    ∀ p ∈ versionWrites (16 + 4 * (v : Int)) ver, usedFn v p.1.1 p.1.2 = true := by
  intro p hp
  rw [mem_versionWrites] at hp
  obtain ⟨j, hj, rfl | rfl⟩ := hp
  · have e : (16 + 4 * (v : Int)) - 10 + ((j % 3 : Nat) : Int) = ((17 + 4 * v - 11 + j % 3 : Nat) : Int) := by omega
    simp only [e]
    exact used_of_verPos v h7 h40 _ _ ((mem_verPos ..).2 ⟨j, hj, Or.inl rfl⟩) (by omega) (by omega)
  · have e : (16 + 4 * (v : Int)) - 10 + ((j % 3 : Nat) : Int) = ((17 + 4 * v - 11 + j % 3 : Nat) : Int) := by omega
    simp only [e]
    exact used_of_verPos v h7 h40 _ _ ((mem_verPos ..).2 ⟨j, hj, Or.inr rfl⟩) (by omega) (by omega)

/-! ### reading the format information back -/

theorem testBit_ite_shift (b : Bool) (k j : Nat) :
    (if b = true then 1 <<< k else 0 : Nat).testBit j = (b && decide (k = j)) := by
  cases b <;> simp [Nat.one_shiftLeft, Nat.testBit_two_pow]

theorem raw_step (c s k j : Nat) (hk : k < 8) (hs : s.testBit j = (c.testBit j && (decide (j < k) || decide (14 - k < j ∧ j ≤ 14)))) :
    (s ||| (if c.testBit k = true then 1 <<< k else 0) ||| (if c.testBit (14 - k) = true then 1 <<< (14 - k) else 0)).testBit j
      = (c.testBit j && (decide (j < k + 1) || decide (14 - (k + 1) < j ∧ j ≤ 14))) := by
  rw [Nat.testBit_or, Nat.testBit_or, hs, testBit_ite_shift, testBit_ite_shift]
  clear hs
  by_cases h1 : k = j
  · subst h1
    by_cases h3 : 14 - k = k
    · rw [h3]; cases c.testBit k <;> simp
    · cases c.testBit k <;> cases c.testBit (14 - k) <;> simp [h3]
  · by_cases h2 : 14 - k = j
    · subst h2
      cases c.testBit k <;> cases c.testBit (14 - k) <;> simp <;> omega
    · cases c.testBit j <;> simp [h1, h2]
      rw [Bool.eq_iff_iff]; simp; omega

theorem readRaws_loop (c : Nat) (hc : c < 2 ^ 15) (F : Nat → Nat × Nat → Out (ForInStep (Nat × Nat)))
    (hstep : ∀ k s, k < 8 → ∃ r2, F k s = .ok (.yield
      (s.1 ||| (if c.testBit k = true then 1 <<< k else 0) ||| (if c.testBit (14 - k) = true then 1 <<< (14 - k) else 0), r2))) :
    ∃ raw2, (do let s ← forIn (List.range' 0 ((8 - 0 + 1 - 1) / 1)) ((0 : Nat), (0 : Nat)) F; pure (s.fst, s.snd)) = Out.ok (c, raw2) := by
  obtain ⟨s, hs, hP⟩ := Lemmas.Bitmap.forIn_range'_ok (β := Nat × Nat) F
    (fun k s => ∀ j, s.1.testBit j = (c.testBit j && (decide (j < k) || decide (14 - k < j ∧ j ≤ 14))))
    8 0 (0, 0) (by intro j; simp) (by
      intro k s _ hk8 hPk
      obtain ⟨r2, hr2⟩ := hstep k s (by omega)
      exact ⟨_, hr2, fun j => raw_step c s.1 k j (by omega) (hPk j)⟩)
  refine ⟨s.2, ?_⟩
  show (forIn (List.range' 0 8) ((0 : Nat), (0 : Nat)) F >>= fun s => pure (s.fst, s.snd)) = _
  rw [hs, Out.bind_ok]
  have : s.1 = c := by
    apply Nat.eq_of_testBit_eq
    intro j
    rw [hP j]
    by_cases hj : j < 15
    · have : decide (0 + 8 > j) || decide (14 - (0 + 8) < j ∧ j ≤ 14) = true := by simp; omega
      simp; intro _; omega
    · have : c.testBit j = false := Nat.testBit_lt_two_pow (Nat.lt_of_lt_of_le hc (Nat.pow_le_pow_right (by decide) (by omega)))
      simp [this]
  rw [← this]
  rfl

/-- reading the two raw words of a regular image whose first copy holds the 15-bit word c -/
theorem qrReadRaws_first (img : Image) (n : Nat) (hr : Regular img n n) (hn : 9 ≤ n) (c : Nat) (hc : c < 2 ^ 15)
    (h1 : ∀ i : Nat, i < 8 → px img 8 (skipTimingPattern (i : Int)).toNat = c.testBit i)
    (h2 : ∀ i : Nat, i < 8 → px img (skipTimingPattern (i : Int)).toNat 8 = c.testBit (14 - i)) :
    ∃ raw2, qrReadRaws img = .ok (c, raw2) := by
  unfold qrReadRaws
  simp only [Std.Legacy.Range.forIn_eq_forIn_range', Std.Legacy.Range.size]
  apply readRaws_loop c hc
  intro k s hk
  have hsk : 0 ≤ skipTimingPattern (k : Int) ∧ skipTimingPattern (k : Int) < n := by
    unfold skipTimingPattern; split <;> omega
  simp only [binaryAt_spec img n n hr, Out.bind_ok]
  have e1 : (if 0 ≤ (8 : Int) ∧ (8 : Int) < ↑n ∧ 0 ≤ skipTimingPattern ↑k ∧ skipTimingPattern ↑k < ↑n then
      px img (Int.toNat 8) (skipTimingPattern ↑k).toNat else false) = c.testBit k := by
    rw [if_pos ⟨by omega, by omega, hsk.1, hsk.2⟩]; exact h1 k hk
  have e2 : (if 0 ≤ skipTimingPattern ↑k ∧ skipTimingPattern ↑k < ↑n ∧ 0 ≤ (8 : Int) ∧ (8 : Int) < ↑n then
      px img (skipTimingPattern ↑k).toNat (Int.toNat 8) else false) = c.testBit (14 - k) := by
    rw [if_pos ⟨hsk.1, hsk.2, by omega, by omega⟩]; exact h2 k hk
  simp only [e1, e2]
  generalize (if 0 ≤ img.dx - 1 - ↑k ∧ img.dx - 1 - ↑k < ↑n ∧ 0 ≤ (8 : Int) ∧ (8 : Int) < ↑n then
                  px img (img.dx - 1 - ↑k).toNat (Int.toNat 8) else false) = b3
  generalize (if 0 ≤ (8 : Int) ∧ (8 : Int) < ↑n ∧ 0 ≤ img.dx - 1 - ↑k ∧ img.dx - 1 - ↑k < ↑n then
                      px img (Int.toNat 8) (img.dx - 1 - ↑k).toNat else false) = b4
  generalize (FORMAT2_READS_DARK_MODULE || decide (k < 7)) = b5
  cases c.testBit k <;> cases c.testBit (14 - k) <;> cases b3 <;> cases b4 <;> cases b5 <;>
    simp only [Bool.false_eq_true, ↓reduceIte, Nat.or_zero] <;> exact ⟨_, rfl⟩

theorem hamming_self (c : Nat) : Spec.BCH.hamming c c = 0 := by
  unfold Spec.BCH.hamming
  rw [Nat.xor_self]
  rfl

/-- a regular image whose first copy holds table entry idx decodes to (idx / 8, idx % 8) -/
theorem decodeFormat_first (img : Image) (n : Nat) (hr : Regular img n n) (hn : 9 ≤ n) (idx c : Nat)
    (hidx : idx < 32) (hc : Gen.QR.encodedFormat[idx]? = some c)
    (h1 : ∀ i : Nat, i < 8 → px img 8 (sk i) = c.testBit i)
    (h2 : ∀ i : Nat, i < 8 → px img (sk i) 8 = c.testBit (14 - i)) :
    QR.decodeFormat img = .ok (((idx >>> 3 : Nat) : Int), ((idx &&& 7 : Nat) : Int)) := by
  have hc15 : c < 2 ^ 15 := by
    have := List.all_eq_true.mp format_words_lt c (List.mem_of_getElem? hc)
    simpa using this
  have hsk : ∀ i : Nat, (skipTimingPattern (i : Int)).toNat = sk i := by
    intro i; rw [skip_eq]; simp
  obtain ⟨raw2, hraw⟩ := qrReadRaws_first img n hr hn c hc15
    (fun i hi => by rw [hsk]; exact h1 i hi) (fun i hi => by rw [hsk]; exact h2 i hi)
  rw [C11.qr_decodeFormat_is_twoCopy, hraw, Out.bind_ok]
  exact C11.qr_first_copy_wins _ c (pure raw2) idx c hidx hc (by rw [hamming_self]; omega)

end QRV.Lemmas.RT
