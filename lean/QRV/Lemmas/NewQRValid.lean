import QRV.Props.C04
import QRV.Props.C05
import QRV.Props.C02
import QRV.Props.C01
import QRV.Lemmas.NewKanjiValid
import QRV.Lemmas.FitCount
/-
C04Ext: `New` of the QR package returns valid descriptions.  The mode-selection programmes produce
valid data of QR modes (`Lemmas.NewDP`, `Lemmas.NewKanjiValid`); `calcVersion` returns a version
that holds them (`Lemmas.CalcVersion`, capacity table = the standard's by C02); a segment that fits
has a representable count (`Lemmas.FitCount`).
-/
namespace QRV.Lemmas.NewQRValid
open QRV QRV.Model QRV.Model.Sym QRV.Model.New QRV.Model.Codec QRV.Spec.Valid QRV.Lemmas.NewDP

theorem level_of_valid {level : Int} (h : Model.QR.levelIsValid level = true) :
    ∃ l : Nat, l < 4 ∧ level = (l : Int) := by
  simp only [Model.QR.levelIsValid, Gen.QR.c_levelMin, Gen.QR.c_levelMax, Bool.and_eq_true] at h
  have h0 := of_decide_eq_true h.1
  have h4 := of_decide_eq_true h.2
  exact ⟨level.toNat, by omega, by omega⟩

theorem capBits_eq (v l : Nat) (h1 : 1 ≤ v) (h40 : v ≤ 40) (hl : l < 4) :
    Lemmas.CalcVersion.capBits v l = 8 * Spec.Tables.dataCodewords v l := by
  have h := QRV.Props.C02.qr_capacity_table v l h1 h40 hl
  unfold Lemmas.Tables.qrRowOK at h
  unfold Lemmas.CalcVersion.capBits
  split at h
  · cases h
  · rename_i c hc
    rw [hc]
    simp only [Bool.and_eq_true, beq_iff_eq] at h
    simp only [Option.map_some, Option.getD_some]
    have := h.1.1.2
    omega

theorem le_sum_of_mem {x : Nat} : ∀ {l : List Nat}, x ∈ l → x ≤ l.sum := by
  intro l
  induction l with
  | nil => intro h; cases h
  | cons a l ih =>
    intro h
    rw [List.sum_cons]
    rcases List.mem_cons.1 h with rfl | h
    · omega
    · have := ih h; omega

/-- what the mode-selection step of `New` delivers -/
def DPOut (kanji : Bool) (data : List Nat) (segs : List Segment) : Prop :=
  segs.flatMap (·.data) = data ∧ (∀ s ∈ segs, s.data ≠ []) ∧ (kanji = false → ∀ s ∈ segs, s.mode ≠ 8) ∧
  ∀ s ∈ segs, (s.mode = 1 ∨ s.mode = 2 ∨ s.mode = 4 ∨ s.mode = 8) ∧
    ∃ k, Spec.Valid.QR.kindOf s.mode = some k ∧ ValidData k s.data

/-- the segment step of `Model.QR.new` -/
def dpStep (kanji : Bool) (data : List Nat) : Out (List Segment) :=
  if kanji then New.newKanjiSegs [0, Model.QR.modeNumeric, Model.QR.modeAlphanumeric, Model.QR.modeBytes, Model.QR.modeKanji]
      data.toArray
  else pure (New.newQRSegs ((4 + 14) * 6) ((4 + 13) * 6) ((4 + 16) * 6)
      [0, Model.QR.modeNumeric, Model.QR.modeAlphanumeric, Model.QR.modeBytes] data.toArray)

theorem dpStep_out (kanji : Bool) (data : List Nat) (hb : ∀ b ∈ data, b < 256) (hne : data ≠ [])
    (hsz : data.length < 2 ^ 56) (segs : List Segment) (h : dpStep kanji data = .ok segs) :
    DPOut kanji data segs := by
  have hsize : data.toArray.size ≠ 0 := by
    simp only [List.size_toArray]
    intro h0
    exact hne (List.eq_nil_of_length_eq_zero h0)
  have hsz' : data.toArray.size < 2 ^ 56 := by simpa using hsz
  unfold dpStep at h
  cases kanji with
  | true =>
    simp only [if_true] at h
    obtain ⟨hcat, hnonempty⟩ := newKanji_concat' _ data.toArray hsize hsz' segs h
    have hv := Lemmas.NewKanjiValid.newKanji_valid_QR data.toArray hsize hsz' (by simpa using hb) segs h
    exact ⟨by simpa using hcat, hnonempty, fun hk => (by cases hk), hv⟩
  | false =>
    simp only [Bool.false_eq_true, if_false] at h
    cases h
    have hcat := newQR_concat' ((4 + 14) * 6) ((4 + 13) * 6) ((4 + 16) * 6)
      [0, Model.QR.modeNumeric, Model.QR.modeAlphanumeric, Model.QR.modeBytes] data.toArray
    have hcat' : (newQRSegs ((4 + 14) * 6) ((4 + 13) * 6) ((4 + 16) * 6)
        [0, Model.QR.modeNumeric, Model.QR.modeAlphanumeric, Model.QR.modeBytes] data.toArray).flatMap (·.data) = data := by
      simpa using hcat
    have hv := newQR_valid_QR' data.toArray hsize hsz'
    refine ⟨hcat', newQR_nonempty' _ _ _ _ _, fun _ s hs => ?_, fun s hs => ?_⟩
    · have := (hv s hs).1
      omega
    · obtain ⟨hm, hnum, haln⟩ := hv s hs
      have hbytes : ∀ b ∈ s.data, b < 256 := by
        intro b hbm
        apply hb
        rw [← hcat']
        exact List.mem_flatMap.2 ⟨s, hs, hbm⟩
      refine ⟨by omega, ?_⟩
      rcases hm with hm | hm | hm
      · refine ⟨0, by rw [hm]; rfl, hbytes, fun ch hch => ?_⟩
        exact (Lemmas.Codec.isNumeric_iff ch).1 (hnum hm ch hch)
      · refine ⟨1, by rw [hm]; rfl, hbytes, fun ch hch => ?_⟩
        have := haln hm ch hch
        unfold isAlphanumeric at this
        rw [Lemmas.Codec.alnumIdx_eq_alnumValue] at this
        exact this
      · exact ⟨2, by rw [hm]; rfl, hbytes, trivial⟩

/-- the single byte-mode segment of the fallback of `Model.QR.new` meets the same contract -/
theorem byteSeg_out (data : List Nat) (hb : ∀ b ∈ data, b < 256) (hne : data ≠ []) :
    DPOut true data [{ mode := Model.QR.modeBytes, data := data }] := by
  refine ⟨by simp, ?_, fun hk => (by cases hk), ?_⟩
  · intro s hs
    rw [List.mem_singleton.1 hs]
    exact hne
  · intro s hs
    rw [List.mem_singleton.1 hs]
    exact ⟨Or.inr (Or.inr (Or.inl rfl)), 2, rfl, hb, trivial⟩

/-- the shape of an accepted call of `Model.QR.new`: the segments are those of the mode selection, or
(kanji enabled, selected segments fit no version) the payload as one byte-mode segment -/
theorem new_cases (level : Int) (kanji : Bool) (data : List Nat) (q : QRCode)
    (h : Model.QR.new level kanji data = .ok q) :
    Model.QR.levelIsValid level = true ∧
    ((data = [] ∧ q = { version := 1, level, mask := -1, segments := [] }) ∨
     (data ≠ [] ∧ ∃ segs v, (dpStep kanji data = .ok segs ∨
          (kanji = true ∧ segs = [{ mode := Model.QR.modeBytes, data := data }])) ∧
        Model.QR.calcVersion level segs = .ok v ∧ v ≠ 0 ∧
        q = { version := v, level, mask := -1, segments := segs })) := by
  unfold Model.QR.new at h
  simp only [] at h
  split at h
  · cases h
  · rename_i hlv
    refine ⟨by simpa using hlv, ?_⟩
    split at h
    · rename_i he
      cases h
      left
      exact ⟨by simpa using he, rfl⟩
    · rename_i he
      right
      refine ⟨by simpa using he, ?_⟩
      obtain ⟨segs, hs, h⟩ := bind_eq_ok h
      obtain ⟨v, hv, h⟩ := bind_eq_ok h
      split at h
      · rename_i hfb
        obtain ⟨v', hv', h⟩ := bind_eq_ok h
        split at h
        · cases h
        · rename_i hv0
          cases h
          exact ⟨_, v', Or.inr ⟨hfb.2.1, rfl⟩, hv', hv0, rfl⟩
      · split at h
        · cases h
        · rename_i hv0
          cases h
          exact ⟨segs, v, Or.inl hs, hv, hv0, rfl⟩

/-- the contract of the segments of an accepted call -/
theorem new_segs_out (kanji : Bool) (data : List Nat) (hb : ∀ b ∈ data, b < 256) (hne : data ≠ [])
    (hsz : data.length < 2 ^ 56) (segs : List Segment)
    (h : dpStep kanji data = .ok segs ∨
      (kanji = true ∧ segs = [{ mode := Model.QR.modeBytes, data := data }])) :
    DPOut kanji data segs := by
  rcases h with h | ⟨rfl, rfl⟩
  · exact dpStep_out kanji data hb hne hsz segs h
  · exact byteSeg_out data hb hne

theorem qr_new_valid (level : Int) (kanji : Bool) (data : List Nat) (hb : ∀ b ∈ data, b < 256)
    (hsz : data.length < 2 ^ 56) (q : QRCode) (h : Model.QR.new level kanji data = .ok q) :
    Spec.Valid.QR.Valid q ∧ q.level = level ∧ q.mask = -1 ∧ q.segments.flatMap (·.data) = data ∧
      (∀ s ∈ q.segments, s.data ≠ []) ∧ (kanji = false → ∀ s ∈ q.segments, s.mode ≠ 8) := by
  obtain ⟨hlv, hcase⟩ := new_cases level kanji data q h
  obtain ⟨l, hl, rfl⟩ := level_of_valid hlv
  rcases hcase with ⟨rfl, rfl⟩ | ⟨hne, segs, v, hs, hv, hv0, rfl⟩
  · refine ⟨⟨by simp, by simp; omega, by simp, ?_, ?_⟩, rfl, rfl, rfl, ?_, ?_⟩
    · intro s hs; cases hs
    · simp
    · intro s hs; cases hs
    · intro _ s hs; cases hs
  · obtain ⟨hcat, hnonempty, hnok, hsegs⟩ := new_segs_out kanji data hb hne hsz segs hs
    obtain ⟨v', hv', hv40, hfit, _⟩ := Lemmas.CalcVersion.qr_calcVersion_minimal l hl segs (fun s hs => (hsegs s hs).1)
    rw [hv] at hv'
    cases hv'
    have hv0' : v' ≠ 0 := by intro h0; exact hv0 (by rw [h0]; rfl)
    have hv1 : 1 ≤ v' := Nat.pos_of_ne_zero hv0'
    have htot := (hfit hv0').1
    rw [capBits_eq v' l hv1 hv40 hl] at htot
    refine ⟨⟨?_, ?_, by simp, ?_, ?_⟩, rfl, rfl, hcat, hnonempty, hnok⟩
    · simp only; omega
    · simp only; omega
    · intro s hsm
      simp only [Int.toNat_natCast]
      obtain ⟨_, k, hk, hvd⟩ := hsegs s hsm
      refine ⟨k, hk, hvd, ?_⟩
      apply Lemmas.FitCount.qr_fit_implies_count v' l hv1 hv40 hl s k hk
      have hmem : Spec.Valid.QR.segBits s v' ∈ segs.map fun s => Spec.Valid.QR.segBits s v' :=
        List.mem_map.2 ⟨s, hsm, rfl⟩
      have := le_sum_of_mem hmem
      unfold Lemmas.CalcVersion.totalBits at htot
      omega
    · simp only [Int.toNat_natCast]
      exact htot

theorem qr_new_roundtrip (level : Int) (kanji : Bool) (data : List Nat) (hb : ∀ b ∈ data, b < 256)
    (hsz : data.length < 2 ^ 56) (q : QRCode) (h : Model.QR.new level kanji data = .ok q) :
    ∃ img q', Model.QR.encodeToBitmap q = .ok img ∧ Model.QR.decodeBitmap img = .ok q' ∧
      q'.version = q.version ∧ q'.level = level ∧ q'.segments.flatMap (·.data) = data := by
  obtain ⟨hvalid, hlevel, _, hcat, _, _⟩ := qr_new_valid level kanji data hb hsz q h
  obtain ⟨img, m, henc, _, _, _, hdec⟩ := QRV.Props.C01.roundtrip_QR_any q hvalid
  exact ⟨img, { q with mask := m }, henc, hdec, rfl, hlevel, hcat⟩

/-- `calcVersion` is total on segment lists of the four QR modes -/
theorem new_tail_no_panic (level : Int) (hlv : Model.QR.levelIsValid level = true) (segs : List Segment)
    (hm : ∀ s ∈ segs, s.mode = 1 ∨ s.mode = 2 ∨ s.mode = 4 ∨ s.mode = 8) :
    (do
      let version ← Model.QR.calcVersion level segs
      if version = 0 then Out.err (α := Unit) "qrcode: data too large"
      pure ({ version, level, mask := Gen.QR.c_maskAuto, segments := segs } : QRCode)).isPanic = false := by
  obtain ⟨l, hl, rfl⟩ := level_of_valid hlv
  obtain ⟨v, hv, _⟩ := Lemmas.CalcVersion.qr_calcVersion_minimal l hl segs hm
  rw [hv]
  simp only [Out.bind_ok]
  split <;> rfl

/-- the tail of `Model.QR.new` after the mode selection, with the byte-mode fallback, is total -/
theorem new_tail_fb_no_panic (level : Int) (hlv : Model.QR.levelIsValid level = true) (data : List Nat)
    (segs : List Segment) (hm : ∀ s ∈ segs, s.mode = 1 ∨ s.mode = 2 ∨ s.mode = 4 ∨ s.mode = 8)
    (p : Prop) [Decidable p] :
    (do
      let version ← Model.QR.calcVersion level segs
      if version = 0 ∧ p then
        let segments : List Segment := [{ mode := Model.QR.modeBytes, data := data }]
        let version ← Model.QR.calcVersion level segments
        if version = 0 then Out.err (α := Unit) "qrcode: data too large"
        pure ({ version, level, mask := Gen.QR.c_maskAuto, segments } : QRCode)
      else
        if version = 0 then Out.err (α := Unit) "qrcode: data too large"
        pure ({ version, level, mask := Gen.QR.c_maskAuto, segments := segs } : QRCode)).isPanic = false := by
  have hfb := new_tail_no_panic level hlv [{ mode := Model.QR.modeBytes, data := data }]
    (fun s hs => by rw [List.mem_singleton.1 hs]; exact Or.inr (Or.inr (Or.inl rfl)))
  obtain ⟨l, hl, rfl⟩ := level_of_valid hlv
  obtain ⟨v, hv, _⟩ := Lemmas.CalcVersion.qr_calcVersion_minimal l hl segs hm
  rw [hv]
  simp only [Out.bind_ok]
  split
  · exact hfb
  · split <;> rfl

/-- QR `New` never panics; without kanji the payload length must stay below `2 ^ 56` (beyond about
`4.6e17` bytes the capped costs make the non-kanji programme emit a segment of mode 0, on which
`Segment.length` panics) -/
theorem qr_new_no_panic (level : Int) (kanji : Bool) (data : List Nat) (_hb : ∀ b ∈ data, b < 256)
    (hsz : kanji = false → data.length < 2 ^ 56) :
    (Model.QR.new level kanji data).isPanic = false := by
  unfold Model.QR.new
  simp only []
  split
  · rfl
  · rename_i hlv
    have hlv' : Model.QR.levelIsValid level = true := by simpa using hlv
    split
    · rfl
    · rename_i he
      have hne : data ≠ [] := by simpa using he
      have hsize : data.toArray.size ≠ 0 := by
        simp only [List.size_toArray]
        intro h0
        exact hne (List.eq_nil_of_length_eq_zero h0)
      cases kanji with
      | false =>
        simp only [Bool.false_eq_true, if_false]
        apply new_tail_fb_no_panic level hlv' data
        intro s hs
        have := (newQR_valid_QR' data.toArray hsize (by simpa using hsz rfl) s hs).1
        omega
      | true =>
        simp only [if_true]
        cases hK : New.newKanjiSegs [0, Model.QR.modeNumeric, Model.QR.modeAlphanumeric, Model.QR.modeBytes,
            Model.QR.modeKanji] data.toArray with
        | ok segs =>
          simp only [Out.bind_ok]
          exact new_tail_fb_no_panic level hlv' data segs (Lemmas.NewKanjiValid.newKanji_modes data.toArray segs hK) _
        | err m => rfl
        | panic m =>
          have := newKanji_no_panic' [0, Model.QR.modeNumeric, Model.QR.modeAlphanumeric, Model.QR.modeBytes,
            Model.QR.modeKanji] data.toArray
          rw [hK] at this
          cases this

end QRV.Lemmas.NewQRValid
