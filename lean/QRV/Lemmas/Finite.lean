/-
Finite quantifiers shaped for the kernel: `(List.range n).all f = true` is evaluated by the kernel
in time linear in n (the library's `Nat.decidableBallLT` instance is far slower for thousands of
cases), and this lemma turns it back into the bounded quantifier.
-/
namespace QRV.Lemmas

theorem forall_lt_of_all {n : Nat} {f : Nat → Bool} (h : (List.range n).all f = true) :
    ∀ k, k < n → f k = true := by
  intro k hk
  exact List.all_eq_true.mp h k (List.mem_range.mpr hk)

theorem forall_lt_of_all₂ {n m : Nat} {f : Nat → Nat → Bool}
    (h : (List.range n).all (fun a => (List.range m).all (f a)) = true) :
    ∀ a, a < n → ∀ b, b < m → f a b = true := by
  intro a ha b hb
  exact forall_lt_of_all (forall_lt_of_all h a ha) b hb

end QRV.Lemmas
