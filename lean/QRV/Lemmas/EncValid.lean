import QRV.Lemmas.RTFinal
import QRV.Lemmas.EncUtf8
/-
C08 helpers: whatever `Model.QR.encodeToBitmap` does not answer with an error is a valid symbol
description (`Spec.Valid.QR.Valid`); together with C01 (valid descriptions are encoded) this gives
both "accepted ⇒ valid" and "never panics".
-/
namespace QRV.Lemmas.Enc
open QRV QRV.Model QRV.Model.Bits QRV.Model.Sym QRV.Model.Codec QRV.Spec.Bits QRV.Spec.Codec
open QRV.Spec.Valid QRV.Spec.Tables QRV.Lemmas.RT QRV.Lemmas.Kanji QRV.Props

theorem isErr_exists {α : Type} {x : Out α} (h : x.isErr = true) : ∃ msg, x = .err msg := by
  cases x with
  | err m => exact ⟨m, rfl⟩
  | ok _ => cases h
  | panic _ => cases h

/-- a rune the kanji encoder accepts is a character of kanji mode -/
theorem isKanji_kanjiChar {r : Nat} (h : isKanji r = true) : KanjiChar r := by
  unfold isKanji at h
  obtain ⟨c, hc⟩ := Option.isSome_iff_exists.mp h
  obtain ⟨h1, h2, h3⟩ := Lemmas.Codec.encode_some r c hc
  exact ⟨h3, c, h1, h2⟩

/-- the body encoders: an error, or the data are valid for the mode -/
theorem encodeBody_cases {m k : Nat} (hk : QR.kindOf m = some k) (data : List Nat)
    (hbytes : ∀ x ∈ data, x < 256) (b : Buffer) (h : C16.Inv b) :
    (∃ msg, (if m = Model.QR.modeNumeric then encodeNumeric b data
        else if m = Model.QR.modeAlphanumeric then encodeAlphanumeric b data
        else if m = Model.QR.modeBytes then encodeBytes b data
        else encodeKanji b data) = .err msg) ∨ ValidData k data := by
  rcases kindOf_cases hk with ⟨rfl, rfl⟩ | ⟨rfl, rfl⟩ | ⟨rfl, rfl⟩ | ⟨rfl, rfl⟩
  · rw [if_pos (by decide)]
    by_cases hd : ∃ ch ∈ data, isNumeric ch = false
    · exact Or.inl (isErr_exists (C17.encodeNumeric_rejects b data hd))
    · refine Or.inr ⟨hbytes, fun ch hch => ?_⟩
      refine (C17.numeric_class ch (hbytes ch hch)).1 ?_
      cases e : isNumeric ch with
      | true => rfl
      | false => exact absurd ⟨ch, hch, e⟩ hd
  · rw [if_neg (by decide), if_pos (by decide)]
    by_cases hd : ∃ ch ∈ data, isAlphanumeric ch = false
    · exact Or.inl (isErr_exists (C17.encodeAlphanumeric_rejects b data hd))
    · refine Or.inr ⟨hbytes, fun ch hch => ?_⟩
      rw [← C17.alnum_class ch (hbytes ch hch)]
      cases e : isAlphanumeric ch with
      | true => exact e
      | false => exact absurd ⟨ch, hch, e⟩ hd
  · exact Or.inr ⟨hbytes, trivial⟩
  · rw [if_neg (by decide), if_neg (by decide), if_neg (by decide)]
    by_cases hd : ∃ r ∈ Utf8.runes data, isKanji r = false
    · exact Or.inl (isErr_exists (C17.encodeKanji_rejects b h data hd))
    · have hall : ∀ r ∈ Utf8.runes data, isKanji r = true := by
        intro r hr
        cases e : isKanji r with
        | true => rfl
        | false => exact absurd ⟨r, hr, e⟩ hd
      exact Or.inr ⟨hbytes, fun r hr => isKanji_kanjiChar (hall r hr), runes_kanji_wellformed data hall⟩

/-- one segment: an error, or the segment is valid for the version -/
theorem segEncode_cases (n : Nat) (h1 : 1 ≤ n) (h40 : n ≤ 40) (s : Segment)
    (hbytes : ∀ x ∈ s.data, x < 256) (b : Buffer) (h : C16.Inv b) :
    (∃ msg, Model.QR.segEncode s (n : Int) b = .err msg) ∨ SegOK n s := by
  unfold Model.QR.segEncode
  by_cases hmode : s.mode = Model.QR.modeNumeric ∨ s.mode = Model.QR.modeAlphanumeric ∨
      s.mode = Model.QR.modeBytes ∨ s.mode = Model.QR.modeKanji
  · rw [if_pos hmode]
    obtain ⟨k, hk⟩ : ∃ k, QR.kindOf s.mode = some k := by
      unfold QR.kindOf
      unfold Model.QR.modeNumeric Model.QR.modeAlphanumeric Model.QR.modeBytes Model.QR.modeKanji at hmode
      rcases hmode with e | e | e | e <;> rw [e] <;> exact ⟨_, rfl⟩
    have hcount : (if s.mode = Model.QR.modeKanji then Utf8.runeCount s.data else s.data.length) =
        count k s.data := by
      unfold count Utf8.runeCount
      rcases kindOf_cases hk with ⟨e, rfl⟩ | ⟨e, rfl⟩ | ⟨e, rfl⟩ | ⟨e, rfl⟩ <;> rw [e] <;> rfl
    have hcb := (countBits_le k n).1
    rw [countBits_eq hk n h1 h40]
    simp only [hcount]
    by_cases hc : count k s.data ≥ 2 ^ Spec.Valid.QR.countBits k n
    · rw [if_pos hc]; exact Or.inl ⟨_, rfl⟩
    · rw [if_neg hc]
      obtain ⟨b₁, e₁, i₁, -⟩ := writeBits_int b h s.mode 4 (by decide)
      obtain ⟨b₂, e₂, i₂, -⟩ := writeBits_int b₁ i₁ (count k s.data) (Spec.Valid.QR.countBits k n) (by omega)
      have e₁' : writeBitsLSB b s.mode 4 = .ok b₁ := e₁
      rw [e₁']
      simp only [Out.bind_ok]
      rw [e₂]
      simp only [Out.bind_ok]
      rcases encodeBody_cases hk s.data hbytes b₂ i₂ with ⟨msg, he⟩ | hd
      · exact Or.inl ⟨msg, he⟩
      · exact Or.inr ⟨k, hk, hd, by omega⟩
  · rw [if_neg hmode]; exact Or.inl ⟨_, rfl⟩

/-- the segment loop: an error, or every segment is valid -/
theorem segsEncode_cases (n : Nat) (h1 : 1 ≤ n) (h40 : n ≤ 40) (segs : List Segment)
    (hbytes : ∀ s ∈ segs, ∀ x ∈ s.data, x < 256) : ∀ (b : Buffer), C16.Inv b →
    (∃ msg, forIn segs b (fun s (acc : Buffer) => do
          let buf ← Model.QR.segEncode s (n : Int) acc
          pure (ForInStep.yield buf)) = .err msg) ∨ ∀ s ∈ segs, SegOK n s := by
  induction segs with
  | nil => intro b _; exact Or.inr (fun s hs => by cases hs)
  | cons s l ih =>
    intro b h
    rcases segEncode_cases n h1 h40 s (hbytes s (List.mem_cons_self ..)) b h with ⟨msg, he⟩ | hs
    · left
      refine ⟨msg, ?_⟩
      rw [List.forIn_cons, he]
      rfl
    · obtain ⟨b₁, e₁, i₁, -⟩ := segEncode_layout n h1 h40 s hs b h
      rcases ih (fun x hx => hbytes x (List.mem_cons_of_mem _ hx)) b₁ i₁ with ⟨msg, he⟩ | hl
      · left
        refine ⟨msg, ?_⟩
        rw [List.forIn_cons, e₁]
        exact he
      · right
        intro x hx
        rcases List.mem_cons.mp hx with rfl | hx'
        · exact hs
        · exact hl x hx'

/-- the entry checks of `encodeToBitmap`, read as ranges -/
theorem fields_of_checks (q : QRCode) (h1 : Model.QR.versionIsValid q.version = true)
    (h2 : Model.QR.levelIsValid q.level = true) (h3 : q.version ≠ 0) (h4 : Model.QR.maskIsValid q.mask = true) :
    (1 ≤ q.version ∧ q.version ≤ 40) ∧ (0 ≤ q.level ∧ q.level < 4) ∧ (-1 ≤ q.mask ∧ q.mask ≤ 7) := by
  unfold Model.QR.versionIsValid Gen.QR.c_versionMin Gen.QR.c_versionMax at h1
  unfold Model.QR.levelIsValid Gen.QR.c_levelMin Gen.QR.c_levelMax at h2
  unfold Model.QR.maskIsValid Gen.QR.c_maskAuto Gen.QR.c_maskMin Gen.QR.c_maskMax at h4
  rw [Bool.and_eq_true, decide_eq_true_eq, decide_eq_true_eq] at h1 h2
  rw [Bool.or_eq_true, Bool.and_eq_true, beq_iff_eq, decide_eq_true_eq, decide_eq_true_eq] at h4
  omega

/-- `encodeSegments`: an error, or the description is valid -/
theorem encodeSegments_cases (q : QRCode) (hb : ∀ s ∈ q.segments, ∀ x ∈ s.data, x < 256)
    (hv : 1 ≤ q.version ∧ q.version ≤ 40) (hl : 0 ≤ q.level ∧ q.level < 4) (hm : -1 ≤ q.mask ∧ q.mask ≤ 7) :
    (∃ msg, Model.QR.encodeSegments q {} = .err msg) ∨ QR.Valid q := by
  have ev : q.version = (q.version.toNat : Int) := by omega
  have el : q.level = (q.level.toNat : Int) := by omega
  generalize hn : q.version.toNat = n at *
  generalize hl' : q.level.toNat = l at *
  obtain ⟨cap, hcap, -, -, hdata, -⟩ := capAt_valid n l (by omega) (by omega) (by omega)
  rw [encodeSegments_eq, ev, el]
  rcases segsEncode_cases n (by omega) (by omega) q.segments hb {} C16.inv_empty with ⟨msg, he⟩ | hs
  · left
    exact ⟨msg, by rw [he]; rfl⟩
  · obtain ⟨b₁, e₁, i₁, a₁, -⟩ := segsEncode_layout n (by omega) (by omega) q.segments hs {} C16.inv_empty
    rw [C16.abs_empty, List.nil_append] at a₁
    have hlen₁ : b₁.len = (q.segments.map fun s => QR.segBits s n).sum := by
      rw [C16.len_eq b₁ i₁, a₁, flatMap_segStream_length]
    rw [e₁]
    simp only [Out.bind_ok]
    rw [hcap]
    simp only [Out.bind_ok]
    by_cases hbig : b₁.len > cap.data * 8
    · left
      rw [if_pos hbig]
      exact ⟨_, rfl⟩
    · right
      refine ⟨hv, hl, hm, ?_, ?_⟩
      · rw [hn]; exact hs
      · rw [hn, hl', ← hlen₁, ← hdata]; omega

/-- the encoder answers with an error, or the description is valid -/
theorem encode_err_or_valid (q : QRCode) (hb : ∀ s ∈ q.segments, ∀ x ∈ s.data, x < 256) :
    (∃ msg, Model.QR.encodeToBitmap q = .err msg) ∨ QR.Valid q := by
  by_cases h1 : Model.QR.versionIsValid q.version = true
  case neg =>
    left
    unfold Model.QR.encodeToBitmap
    have : Model.QR.versionIsValid q.version = false := by simpa using h1
    simp only [this, Bool.not_false, if_true, Out.bind_err]
    exact ⟨_, rfl⟩
  by_cases h2 : Model.QR.levelIsValid q.level = true
  case neg =>
    left
    unfold Model.QR.encodeToBitmap
    have : Model.QR.levelIsValid q.level = false := by simpa using h2
    simp only [h1, this, Bool.not_true, Bool.not_false, Bool.false_eq_true, if_false, if_true, Out.bind_err]
    exact ⟨_, rfl⟩
  by_cases h3 : q.version = 0
  case pos =>
    left
    unfold Model.QR.encodeToBitmap
    simp only [h2, h3, Bool.not_true, Bool.false_eq_true, if_false, if_true, Out.bind_err]
    exact ⟨_, rfl⟩
  by_cases h4 : Model.QR.maskIsValid q.mask = true
  case neg =>
    left
    unfold Model.QR.encodeToBitmap
    have : Model.QR.maskIsValid q.mask = false := by simpa using h4
    simp only [h1, h2, h3, this, Bool.not_true, Bool.not_false, Bool.false_eq_true, if_false, if_true, Out.bind_err]
    exact ⟨_, rfl⟩
  obtain ⟨hv, hl, hm⟩ := fields_of_checks q h1 h2 h3 h4
  rcases encodeSegments_cases q hb hv hl hm with ⟨msg, he⟩ | hvalid
  · left
    refine ⟨msg, ?_⟩
    rw [encodeToBitmap_eq q h1 h2 h3 h4]
    unfold Model.QR.encodeToBits
    rw [he]
    rfl
  · exact Or.inr hvalid

end QRV.Lemmas.Enc
