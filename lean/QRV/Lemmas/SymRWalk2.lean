import QRV.Lemmas.SymRWalk
import QRV.Lemmas.C03QRLift
import QRV.Lemmas.Finite
/-
`SymRWalk` instantiated with the regenerated used-module bitmaps of the 32 rMQR versions
(`Lemmas.Pat.rmqr_used`: they are the declarative `isFunction`): the model's walk visits exactly the
entries of `Spec.Symbol.RMQR.dataCoords v` outside column 1, which form a prefix of that list.
-/
namespace QRV.Lemmas.SymRWalk
open QRV QRV.Lemmas QRV.Model.Sym QRV.Lemmas.RR QRV.Spec.Symbol.RMQR
open QRV.Spec.Patterns.RMQR (width height isFunction)
open QRV.Lemmas.SymWalk (rowCells toI colUp colDown colUp_succ colUp_zero colDown_cons colDown_last sweep zipIdx_sweep)

set_option maxRecDepth 100000

/-! ### the declarative function-module predicate -/

theorem widths_odd_all : (List.range 32).all (fun v => decide (width v % 2 = 1)) = true := by decide +kernel

theorem isFunction_col0 (v y : Nat) : isFunction v 0 y = true := by
  unfold isFunction; simp

theorem isFunction_row0 (v x : Nat) : isFunction v x 0 = true := by
  unfold isFunction; simp

theorem isFunction_rowN (v x : Nat) : isFunction v x (height v - 1) = true := by
  unfold isFunction; simp

theorem framed (v : Nat) : Framed (isFunction v) (height v) :=
  fun x => ⟨isFunction_row0 v x, isFunction_rowN v x⟩

/-- the finder sub pattern -/
theorem isFunction_sub (v x y : Nat) (hx : width v - 5 ≤ x) (hy : height v - 5 ≤ y) : isFunction v x y = true := by
  unfold isFunction
  simp only [Bool.or_eq_true, Bool.and_eq_true, decide_eq_true_eq, ge_iff_le]
  exact Or.inl (Or.inl (Or.inl (Or.inl (Or.inr ⟨hx, hy⟩))))

/-- the finder pattern -/
theorem isFunction_finder (v x y : Nat) (hx : x < 8) (hy : y < 8) : isFunction v x y = true := by
  unfold isFunction
  simp only [Bool.or_eq_true, Bool.and_eq_true, decide_eq_true_eq]
  exact Or.inl (Or.inl (Or.inl (Or.inl (Or.inl (Or.inr ⟨hx, hy⟩)))))

/-- the bottom left corner finder pattern -/
theorem isFunction_corner (v x y : Nat) (h7 : 7 < height v) (hx : x ≤ 1) (hy : height v - 2 ≤ y) : isFunction v x y = true := by
  unfold isFunction
  simp only [Bool.or_eq_true, Bool.and_eq_true, decide_eq_true_eq, ge_iff_le, gt_iff_lt]
  exact Or.inl (Or.inl (Or.inr ⟨⟨h7, hx⟩, hy⟩))

/-- the used-module bitmap of a version answers the standard's function-module predicate -/
theorem usedFn_isFunction (v : Nat) (hv : v < 32) (x y : Nat) (hx : x < width v) (hy : y < height v) :
    usedFn v (x : Int) (y : Int) = isFunction v x y := by
  have hgu := congrArg (·[v]?) (Lemmas.Pat.rmqr_geom.2.trans Lemmas.Pat.rmqr_geom.1)
  have hru := congrArg (·[v]?) Lemmas.Pat.rmqr_used
  simp only [List.getElem?_map, List.getElem?_range hv, Option.map_some] at hgu hru
  cases hu : Gen.RMQR.usedList[v]? with
  | none => rw [hu] at hgu; cases hgu
  | some u =>
    rw [hu] at hgu hru
    simp only [Option.map_some, Option.some.injEq, Prod.mk.injEq] at hgu hru
    obtain ⟨-, -, -, -, u4⟩ := hgu
    have hug : usedGen v = u := by unfold usedGen; rw [hu]; rfl
    unfold usedFn
    rw [fnOf_nat _ _ _ _ x y hx hy, hug, hru, u4]
    exact RT.rowBit_packRows (isFunction v) (width v) (height v) x y hx hy

/-! ### `dataCoords` as a sweep -/

theorem dataCoords_rows (v right y : Nat) :
    ([right, right - 1].filter fun x => decide (1 ≤ x) && !isFunction v x y).map (fun x => (x, y)) =
      rowCells (isFunction v) right y := by
  unfold rowCells
  congr 1
  apply List.filter_congr
  intro x _
  cases x with
  | zero => simp [isFunction_col0]
  | succ x => simp

theorem dataCoords_eq_sweep (v m : Nat) (hH : 1 ≤ height v) (hw : width v = 2 * m + 1) :
    dataCoords v = sweep (isFunction v) (height v) (rights (m - 1) ++ (if m = 0 then [] else [1])) true := by
  have h := zipIdx_sweep (isFunction v) (height v) hH ((List.range m).map (fun i => 2 * m + 1 - 2 - 2 * i)) 0
  rw [rights_eq] at h
  refine Eq.trans ?_ h
  rw [← rights_eq]
  unfold dataCoords
  simp only [dataCoords_rows, hw]
  have e : (2 * m + 1 - 1) / 2 = m := by omega
  rw [e]

/-! ### the two parts of `dataCoords` -/

/-- the column pairs with right-hand columns width-2, …, 3 -/
def outer (v : Nat) : List (Nat × Nat) :=
  sweep (isFunction v) (height v) (rights ((width v - 1) / 2 - 1)) true

theorem colUp_skip (g : Nat → Nat → Bool) (r y : Nat) : ∀ k, (∀ j, y < j → j ≤ y + k → rowCells g r j = []) →
    colUp g r (y + k) = colUp g r y := by
  intro k
  induction k with
  | zero => intro _; rfl
  | succ k ih =>
    intro h
    rw [← Nat.add_assoc, colUp_succ, h (y + k + 1) (by omega) (by omega), List.nil_append]
    exact ih (fun j h1 h2 => h j h1 (by omega))

theorem width_odd (v : Nat) (hv : v < 32) : ∃ m, width v = 2 * m + 1 ∧ 13 ≤ m := by
  have h := forall_lt_of_all widths_odd_all v hv
  simp only [decide_eq_true_eq] at h
  obtain ⟨h27, -, -, -⟩ := sizes_ok v hv
  have h27' : 27 ≤ width v := h27
  exact ⟨(width v - 1) / 2, by omega, by omega⟩

/-- `dataCoords v` is the outer part followed by entries of column 1 -/
theorem dataCoords_split (v : Nat) (hv : v < 32) :
    ∃ B, dataCoords v = outer v ++ B ∧ (∀ c ∈ outer v, c.1 ≠ 1) ∧ (∀ c ∈ B, c.1 = 1) := by
  obtain ⟨m, hw, hm⟩ := width_odd v hv
  obtain ⟨-, -, hH7, -⟩ := sizes_ok v hv
  have hH7' : 7 ≤ height v := hH7
  have hd := dataCoords_eq_sweep v m (by omega) hw
  rw [if_neg (by omega)] at hd
  obtain ⟨up', hs⟩ := sweep_append (isFunction v) (height v) (rights (m - 1)) [1] true
  rw [hs] at hd
  have e : (width v - 1) / 2 - 1 = m - 1 := by omega
  refine ⟨_, by unfold outer; rw [e]; exact hd, ?_, ?_⟩
  · intro c hc
    unfold outer at hc
    obtain ⟨r, hr, h1, -⟩ := mem_sweep _ _ _ _ c hc
    have := mem_rights _ r hr
    omega
  · intro c hc
    obtain ⟨r, hr, h1, h2⟩ := mem_sweep _ _ _ _ c hc
    simp only [List.mem_cons, List.not_mem_nil, or_false] at hr
    subst hr
    rcases h1 with h1 | h1
    · exact h1
    · exfalso
      have h0 : c.1 = 0 := h1
      rw [h0, isFunction_col0] at h2
      cases h2

theorem filter_outer (v : Nat) (hv : v < 32) : (dataCoords v).filter (fun c => c.1 != 1) = outer v := by
  obtain ⟨B, hd, hA, hB⟩ := dataCoords_split v hv
  rw [hd, List.filter_append, List.filter_eq_self.2 (fun c hc => by simpa using hA c hc),
    List.filter_eq_nil_iff.2 (fun c hc => by simpa using hB c hc), List.append_nil]

/-- in the standard's order the column-1 modules come last -/
theorem column1_last (v : Nat) (hv : v < 32) :
    dataCoords v = (dataCoords v).filter (fun c => c.1 != 1) ++ (dataCoords v).filter (fun c => c.1 == 1) := by
  obtain ⟨B, hd, hA, hB⟩ := dataCoords_split v hv
  conv => lhs; rw [hd]
  rw [hd, List.filter_append, List.filter_append, List.filter_eq_self.2 (fun c hc => by simpa using hA c hc),
    List.filter_eq_nil_iff.2 (fun c hc => by simpa using hB c hc), List.append_nil,
    List.filter_eq_nil_iff.2 (fun c hc => by simpa using hA c hc), List.nil_append,
    List.filter_eq_self.2 (fun c hc => by simpa using hB c hc)]

/-! ### the walk -/

/-- the walk of every version visits exactly the outer part -/
theorem walk_is_outer (v : Nat) (hv : v < 32) (cs : List (Int × Int))
    (h : walk (usedFn v) ((height v : Int) - 1) (fuelOf ((width v : Int) - 1) ((height v : Int) - 1))
      (start ((width v : Int) - 1) ((height v : Int) - 1)) = some cs) :
    cs = (outer v).map toI := by
  obtain ⟨m, hw, hm⟩ := width_odd v hv
  obtain ⟨-, -, hH7, -⟩ := sizes_ok v hv
  have hH7' : 7 ≤ height v := hH7
  have hfg := usedFn_isFunction v hv
  have hg := framed v
  -- the function modules the walk relies on
  have hc1 : usedFn v 1 1 = true := by
    have := hfg 1 1 (by omega) (by omega)
    rw [isFunction_finder v 1 1 (by omega) (by omega)] at this
    exact this
  have hc2 : usedFn v 1 ((height v - 2 : Nat) : Int) = true := by
    have := hfg 1 (height v - 2) (by omega) (by omega)
    refine this.trans ?_
    by_cases h7 : 7 < height v
    · exact isFunction_corner v 1 _ h7 (by omega) (by omega)
    · exact isFunction_finder v 1 _ (by omega) (by omega)
  -- the first column pair: from row height-6 upwards
  have e1 : (width v - 1) / 2 - 1 = (m - 2) + 1 := by omega
  have e2 : m - 2 = (m - 3) + 1 := by omega
  have hr : 2 * (m - 2) + 3 = width v - 2 := by omega
  unfold outer
  rw [e1]
  show cs = (sweep (isFunction v) (height v) ((2 * (m - 2) + 3) :: rights (m - 2)) true).map toI
  rw [hr, sweep, if_pos rfl, List.map_append]
  have hskip : colUp (isFunction v) (width v - 2) (height v - 1) = colUp (isFunction v) (width v - 2) (height v - 6) := by
    have := colUp_skip (isFunction v) (width v - 2) (height v - 6) 5 (fun j h1 h2 =>
      rowCells_nil _ _ _ (isFunction_sub v _ j (by omega) (by omega)) (isFunction_sub v _ j (by omega) (by omega)))
    rw [← this]
    congr 1
    omega
  rw [hskip]
  have ey : height v - 6 = (height v - 7) + 1 := by omega
  have hstart : start ((width v : Int) - 1) ((height v : Int) - 1) =
      { x := ((width v - 2 : Nat) : Int), y := ((height v - 7 + 1 : Nat) : Int), dy := -1 } := by
    simp only [start, Walk.mk.injEq, and_true]
    omega
  rw [hstart] at h
  obtain ⟨fuel', cs', hw', hcs⟩ := walk_up (usedFn v) (isFunction v) (width v) (height v) _ rfl hfg
    (width v - 2) (by omega) (by omega) (rowCells_nil _ _ 0 (hg _).1 (hg _).1) (height v - 7) _ cs (by omega) h
  rw [← ey] at hcs
  rw [hcs]
  congr 1
  -- the remaining pairs
  rw [e2]
  have hc := chain_rights (width v) (m - 3) (by omega)
  show cs' = (sweep (isFunction v) (height v) ((2 * (m - 3) + 3) :: rights (m - 3)) (!true)).map toI
  refine walk_sweep (usedFn v) (isFunction v) (width v) (height v) (by omega) _ rfl hfg hg hc1 hc2
    (rights (m - 3)) _ (!true) fuel' cs' hc ?_
  rw [← hw']
  congr 1
  simp only [startOf, Walk.mk.injEq, Bool.not_true, Bool.false_eq_true, if_false, and_true]
  omega

theorem walk_standard (v : Nat) (hv : v < 32) (cs : List (Int × Int))
    (h : walk (usedFn v) ((height v : Int) - 1) (fuelOf ((width v : Int) - 1) ((height v : Int) - 1))
      (start ((width v : Int) - 1) ((height v : Int) - 1)) = some cs) :
    cs.map (fun c => (c.1.toNat, c.2.toNat)) = (dataCoords v).filter (fun c => c.1 != 1) ∧
      ∀ c ∈ cs, 0 ≤ c.1 ∧ 0 ≤ c.2 := by
  have hcs := walk_is_outer v hv cs h
  rw [filter_outer v hv]
  constructor
  · rw [hcs, List.map_map]
    conv => rhs; rw [← List.map_id (outer v)]
    apply List.map_congr_left
    intro p _
    simp [toI]
  · intro c hc
    rw [hcs, List.mem_map] at hc
    obtain ⟨p, _, rfl⟩ := hc
    simp only [toI]
    omega

end QRV.Lemmas.SymRWalk
