import QRV.Lemmas.SymREncode
import QRV.Lemmas.SymRFin2
/-
The rMQR symbol theorems: the emitted bitmap against `Spec.Symbol.RMQR.IsSymbol`, exactly up to the
data modules of column 1 (finding D18).
-/
open QRV QRV.Model QRV.Model.Bitmap QRV.Model.Sym QRV.Props QRV.Props.C18 QRV.Spec.Bits QRV.Spec.Valid
open QRV.Lemmas.RT QRV.Spec.Symbol.RMQR
namespace QRV.Lemmas.SymRFinal
open QRV.Lemmas.SymRWalk (outer dataCoords_split filter_outer)
open QRV.Spec.Patterns.RMQR (width height isFunction)

/-- the bit at the position in the outer part is the bit at the position in the whole order, for a
module outside the rest or when the rest only carries remainder bits -/
theorem bit_eq {α : Type} [BEq α] [LawfulBEq α] (A B : List α) (bits : List Bool) (p : α)
    (h : p ∉ B ∨ bits.length ≤ A.length) (hD : bits.length ≤ (A ++ B).length) :
    (decide (A.idxOf p < A.length) && bits[A.idxOf p]?.getD false) = bits[(A ++ B).idxOf p]?.getD false := by
  rw [List.idxOf_append]
  by_cases hA : p ∈ A
  · rw [if_pos hA, decide_eq_true (List.idxOf_lt_length_iff.2 hA), Bool.true_and]
  · rw [if_neg hA, decide_eq_false (by rw [List.idxOf_lt_length_iff]; exact hA), Bool.false_and]
    rcases h with h | h
    · rw [List.idxOf_eq_length h, List.getElem?_eq_none (by rw [List.length_append] at hD; omega), Option.getD_none]
    · rw [List.getElem?_eq_none (by omega), Option.getD_none]

theorem symbol_except_column1 (q : QRCode) (hv : RMQR.Valid q) :
    ∃ img px, Model.RMQR.encodeToBitmap q = .ok img ∧
      Regular img (width q.version.toNat) (height q.version.toNat) ∧ IsSymbol q px ∧
      (∀ x y, x < width q.version.toNat → y < height q.version.toNat →
        (x ≠ 1 ∨ isFunction q.version.toNat x y = true) → C18.px img x y = px x y) ∧
      (∀ y, y < height q.version.toNat → isFunction q.version.toNat 1 y = false →
        C18.px img 1 y = maskCond y 1) := by
  obtain ⟨version, level, mask, segments⟩ := q
  obtain ⟨⟨hv0, -⟩, ⟨hl0, -⟩, -, -, -⟩ := id hv
  simp only at hv0 hl0
  obtain ⟨v, rfl⟩ := Int.eq_ofNat_of_zero_le hv0
  obtain ⟨l, rfl⟩ := Int.eq_ofNat_of_zero_le hl0
  obtain ⟨img, c, blks, henc, hreg, hv32, hrow, hcmem, hmap, hbytes, hstream, hrs, hlen, hpx⟩ :=
    RR.SymREncode.symbol_core v l mask segments hv
  obtain ⟨B, hd, hA, hB⟩ := dataCoords_split v hv32
  have hD := SymRFin.total_le_dataCoords v hv32 c hcmem
  simp only [Int.toNat_natCast]
  refine ⟨img, fun x y => if isFunction v x y then functionModule v l x y
      else ((unpack (ilvList blks))[(dataCoords v).idxOf (x, y)]?.getD false ^^ maskCond y x), henc, hreg, ?_, ?_, ?_⟩
  · simp only [IsSymbol, Int.toNat_natCast]
    exact ⟨c, hrow, blks, hmap, hbytes, hstream, hrs, fun x y _ _ => rfl⟩
  · intro x y hx hy hxy
    rw [hpx x y hx hy]
    show _ = (if isFunction v x y = true then functionModule v l x y
      else ((unpack (ilvList blks))[(dataCoords v).idxOf (x, y)]?.getD false ^^ maskCond y x))
    cases hF : isFunction v x y with
    | true => rfl
    | false =>
      simp only [Bool.false_eq_true, if_false]
      rw [hF] at hxy
      have hx1 : x ≠ 1 := by
        rcases hxy with h | h
        · exact h
        · cases h
      rw [hd, bit_eq (outer v) B _ (x, y) (Or.inl (fun hm => hx1 (hB _ hm))) (by rw [← hd, hlen]; exact hD)]
  · intro y hy hF
    rw [hpx 1 y (by have := (RR.sizes_ok v hv32).1; exact Nat.lt_of_lt_of_le (by omega) this) hy, hF]
    simp only [Bool.false_eq_true, if_false]
    have hnot : ¬ (1, y) ∈ outer v := fun hm => hA _ hm rfl
    rw [decide_eq_false (by rw [List.idxOf_lt_length_iff]; exact hnot), Bool.false_and, Bool.false_xor]

theorem symbol_exact (q : QRCode) (hv : RMQR.Valid q) (c : Gen.GCap)
    (hc : RMQR.row q.version.toNat q.level.toNat = some c)
    (hfull : 8 * c.total ≤ ((dataCoords q.version.toNat).filter (fun c => c.1 != 1)).length) :
    ∃ img, Model.RMQR.encodeToBitmap q = .ok img ∧
      Regular img (width q.version.toNat) (height q.version.toNat) ∧ IsSymbol q (C18.px img) := by
  obtain ⟨version, level, mask, segments⟩ := q
  obtain ⟨⟨hv0, -⟩, ⟨hl0, -⟩, -, -, -⟩ := id hv
  simp only at hv0 hl0
  obtain ⟨v, rfl⟩ := Int.eq_ofNat_of_zero_le hv0
  obtain ⟨l, rfl⟩ := Int.eq_ofNat_of_zero_le hl0
  obtain ⟨img, c', blks, henc, hreg, hv32, hrow, hcmem, hmap, hbytes, hstream, hrs, hlen, hpx⟩ :=
    RR.SymREncode.symbol_core v l mask segments hv
  simp only [Int.toNat_natCast] at hc hfull ⊢
  rw [hrow] at hc
  injection hc with hc
  subst hc
  rw [filter_outer v hv32] at hfull
  obtain ⟨B, hd, hA, hB⟩ := dataCoords_split v hv32
  refine ⟨img, henc, hreg, ?_⟩
  simp only [IsSymbol, Int.toNat_natCast]
  refine ⟨c', hrow, blks, hmap, hbytes, hstream, hrs, ?_⟩
  intro x y hx hy
  rw [hpx x y hx hy]
  cases hF : isFunction v x y with
  | true => rfl
  | false =>
    simp only [Bool.false_eq_true, if_false]
    rw [hd, bit_eq (outer v) B _ (x, y) (Or.inr (by rw [hlen]; exact hfull))
      (by rw [hlen, List.length_append]; omega)]

end QRV.Lemmas.SymRFinal
