import QRV.Lemmas.RTStream
/-
Round trip C01 (QR), the data bit stream, decoder side: `Model.QR.segmentLoop` parses the stream
described in `RTStream.lean` back into the segments (`segments_parse`), and the corollary
`stream_roundtrip` for `encodeSegments` followed by `segmentLoop`.
-/
namespace QRV.Lemmas.RT
open QRV QRV.Model QRV.Model.Bits QRV.Model.Sym QRV.Model.Codec QRV.Spec.Bits QRV.Spec.Codec
open QRV.Spec.Valid QRV.Spec.Tables QRV.Lemmas.Bits QRV.Lemmas.Codec QRV.Lemmas.Kanji
open QRV.Props

/-! ### reading: bookkeeping -/

/-- reads keep the invariant: it only speaks about `buf` and `wrote` -/
theorem inv_same {b b' : Buffer} (hb : b'.buf = b.buf) (hw : b'.wrote = b.wrote) (h : C16.Inv b) :
    C16.Inv b' := by
  constructor
  · rw [hw]; exact h.wrote_lt
  · rw [hb]; exact h.bytes_lt
  · rw [hw, hb]; exact h.nonempty
  · rw [hw, hb]; exact h.low_zero

/-- the unread part after a read of `x.length` bits -/
theorem unr_after {b b' : Buffer} (hb : b'.buf = b.buf) {x rest : List Bool}
    (hc : cur b' = cur b + x.length) (hu : unr b = x ++ rest) : unr b' = rest := by
  unfold unr at hu ⊢
  rw [hc, hb, ← List.drop_drop, hu, List.drop_left]

/-- `rd` succeeding means `ReadBits` returned a value -/
theorem readBits_of_rd {b b' : Buffer} {n v : Nat} (h : rd b n = .ok (b', v)) :
    readBits b (n : Int) = .ok (b', some v) := by
  unfold rd at h
  cases hr : readBits b (n : Int) with
  | err m => rw [hr] at h; cases h
  | panic m => rw [hr] at h; cases h
  | ok p =>
    obtain ⟨b₁, r⟩ := p
    rw [hr] at h
    cases r with
    | none => cases h
    | some v' =>
      simp only [Out.bind_ok, pure] at h
      cases h
      rfl

theorem toNat_replicate_false (n : Nat) : toNat (List.replicate n false) = 0 := by
  rw [← bitsMSB_zero, toNat_bitsMSB, Nat.zero_mod]

/-! ### the data of one segment -/

/-- decoding the codes of representable characters gives their UTF-8 back -/
theorem kanji_back (rs : List Nat) (h : ∀ r ∈ rs, KanjiChar r) :
    (rs.map fun r => (encodeKanjiRune r).getD 0).flatMap (fun c => Utf8.encodeRune (refAt c)) =
      rs.flatMap Utf8.encodeRune := by
  induction rs with
  | nil => rfl
  | cons r l ih =>
    obtain ⟨c, hc, -, href, -⟩ := kanjiChar_code (h r (List.mem_cons_self ..))
    rw [List.map_cons, List.flatMap_cons, List.flatMap_cons, ih (fun x hx => h x (List.mem_cons_of_mem _ hx)),
      hc, Option.getD_some, href]

theorem kanjiCodes_ok {data : List Nat} (h : ValidData 3 data) :
    ∀ c ∈ kanjiCodes data, c < 8192 ∧ refAt c ≠ 0 := by
  intro c hc
  unfold kanjiCodes at hc
  obtain ⟨r, hr, rfl⟩ := List.mem_map.mp hc
  obtain ⟨c', hc', h1, -, h2⟩ := kanjiChar_code ((valid_kanji h).1 r hr)
  rw [hc', Option.getD_some]
  exact ⟨h1, h2⟩

/-- the body decoders invert `bodyStream` on valid data, given the character count -/
theorem decodeBody_inverse {m k : Nat} (hk : QR.kindOf m = some k) (data : List Nat) (hd : ValidData k data)
    (b : Buffer) (h : C16.Inv b) (hr : b.read < 8) (rest : List Bool)
    (hu : unr b = bodyStream k data ++ rest) :
    ∃ b', (if m = Model.QR.modeNumeric then decodeNumeric b (count k data)
        else if m = Model.QR.modeAlphanumeric then decodeAlphanumeric b (count k data)
        else if m = Model.QR.modeBytes then decodeBytes b (count k data)
        else decodeKanji b (count k data)) = .ok (b', data) ∧
      C16.Inv b' ∧ b'.read < 8 ∧ unr b' = rest := by
  rcases kindOf_cases hk with ⟨rfl, rfl⟩ | ⟨rfl, rfl⟩ | ⟨rfl, rfl⟩ | ⟨rfl, rfl⟩
  · rw [if_pos (by decide)]
    obtain ⟨b', e, hb, hw, hr', hc⟩ := C17.decodeNumeric_inverse b h hr data (valid_numeric hd) rest hu
    exact ⟨b', e, inv_same hb hw h, hr', unr_after hb hc hu⟩
  · rw [if_neg (by decide), if_pos (by decide)]
    obtain ⟨b', e, hb, hw, hr', hc⟩ := C17.decodeAlphanumeric_inverse b h hr data (valid_alnum hd) rest hu
    exact ⟨b', e, inv_same hb hw h, hr', unr_after hb hc hu⟩
  · rw [if_neg (by decide), if_neg (by decide), if_pos (by decide)]
    obtain ⟨b', e, hb, hw, hr', hc⟩ := C17.decodeBytes_inverse b h hr data (valid_lt hd) rest hu
    exact ⟨b', e, inv_same hb hw h, hr', unr_after hb hc hu⟩
  · rw [if_neg (by decide), if_neg (by decide), if_neg (by decide)]
    obtain ⟨b', e, hb, hw, hr', hc⟩ := C17.decodeKanji_inverse b h hr (kanjiCodes data) (kanjiCodes_ok hd) rest hu
    rw [kanjiCodes_length] at e
    have hback : ((kanjiCodes data).flatMap fun c => Utf8.encodeRune (refAt c)) = data := by
      unfold kanjiCodes
      rw [kanji_back _ (valid_kanji hd).1, (valid_kanji hd).2]
    rw [hback] at e
    refine ⟨b', e, inv_same hb hw h, hr', unr_after hb ?_ hu⟩
    rw [show bodyStream 3 data = kanjiBits (kanjiCodes data) from rfl, kanjiBits_length]
    exact hc

/-! ### one segment -/

theorem decodeSegment_inverse (n : Nat) (h1 : 1 ≤ n) (h40 : n ≤ 40) (s : Segment) {k : Nat}
    (hk : QR.kindOf s.mode = some k) (hd : ValidData k s.data)
    (hc : count k s.data < 2 ^ Spec.Valid.QR.countBits k n)
    (b : Buffer) (h : C16.Inv b) (hr : b.read < 8) (rest : List Bool)
    (hu : unr b = bitsMSB (count k s.data) (Spec.Valid.QR.countBits k n) ++ (bodyStream k s.data ++ rest)) :
    ∃ b', Model.QR.decodeSegment s.mode (n : Int) b = .ok (b', s) ∧
      C16.Inv b' ∧ b'.read < 8 ∧ unr b' = rest := by
  have hcb := countBits_le k n
  obtain ⟨b₁, e₁, i₁, -, -, r₁, -, u₁⟩ := rd_ok b h hr (Spec.Valid.QR.countBits k n) (count k s.data)
    (by omega) (by omega) _ hu
  rw [Nat.mod_eq_of_lt hc] at e₁
  obtain ⟨b₂, e₂, i₂, r₂, u₂⟩ := decodeBody_inverse hk s.data hd b₁ i₁ r₁ rest u₁
  refine ⟨b₂, ?_, i₂, r₂, u₂⟩
  unfold Model.QR.decodeSegment
  rw [countBits_eq hk n h1 h40]
  simp only [e₁, Out.bind_ok, e₂]
  rfl

/-! ### the end of the data -/

/-- at a tail (end of data, fewer than four zero bits, or a terminator) the loop stops -/
theorem segmentLoop_tail (ver : Int) (b : Buffer) (h : C16.Inv b) (hr : b.read < 8) (ht : TailOK (unr b))
    (acc : Array Segment) (fuel : Nat) :
    Model.QR.segmentLoop ver (fuel + 1) b acc = .ok acc.toList := by
  have hlen : (unr b).length = 8 * b.buf.size - cur b := by
    unfold unr; rw [List.length_drop, length_unpack, Array.length_toList]
  have hcur : cur b = 8 * b.offset + b.read := rfl
  -- in every case `ReadBits(4)` is EOF or the value 0
  have hread : (∃ b', readBits b 4 = .ok (b', none)) ∨ (∃ b', readBits b 4 = .ok (b', some 0)) := by
    by_cases h0 : (unr b).length = 0
    · left
      refine ⟨b, ?_⟩
      unfold readBits
      rw [if_neg (by decide), if_pos (by omega)]
    · right
      by_cases h4 : 4 ≤ (unr b).length
      · have htake : (unr b).take 4 = bitsMSB 0 4 := by
          rw [bitsMSB_zero, List.eq_replicate_iff]
          exact ⟨by rw [List.length_take]; omega, ht⟩
        have hu : unr b = bitsMSB 0 4 ++ (unr b).drop 4 := by rw [← htake, List.take_append_drop]
        obtain ⟨b', e, -⟩ := rd_ok b h hr 4 0 (by decide) (by decide) _ hu
        exact ⟨b', readBits_of_rd e⟩
      · have htake : unr b = List.replicate (unr b).length false := by
          rw [List.eq_replicate_iff]
          refine ⟨rfl, fun x hx => ht x ?_⟩
          rw [List.take_of_length_le (by omega)]; exact hx
        obtain ⟨b', e, -⟩ := C16.readBits_zero_extends b hr 4 (by decide) (by omega) (by omega)
        refine ⟨b', ?_⟩
        have hz : toNat ((unpack b.buf.toList).drop (8 * b.offset + b.read)) = 0 := by
          show toNat (unr b) = 0
          rw [htake, toNat_replicate_false]
        rw [hz, Nat.zero_mul] at e
        exact e
  rw [Model.QR.segmentLoop]
  rcases hread with ⟨b', e⟩ | ⟨b', e⟩
  · rw [e]; rfl
  · rw [e]; rfl

/-! ### the segment loop -/

/-- `segmentLoop` on a buffer whose unread bits are the streams of valid segments followed by a
tail it stops at: exactly those segments are appended -/
theorem segments_parse_buf (n : Nat) (h1 : 1 ≤ n) (h40 : n ≤ 40) (segs : List Segment)
    (hs : ∀ s ∈ segs, SegOK n s) (tail : List Bool) (ht : TailOK tail) :
    ∀ (b : Buffer) (acc : Array Segment) (fuel : Nat), C16.Inv b → b.read < 8 →
      unr b = segs.flatMap (segStream n) ++ tail → segs.length < fuel →
      Model.QR.segmentLoop (n : Int) fuel b acc = .ok (acc.toList ++ segs) := by
  induction segs with
  | nil =>
    intro b acc fuel h hr hu hf
    obtain ⟨f, rfl⟩ : ∃ f, fuel = f + 1 := ⟨fuel - 1, by simp at hf; omega⟩
    rw [List.flatMap_nil, List.nil_append] at hu
    rw [segmentLoop_tail (n : Int) b h hr (by rw [hu]; exact ht), List.append_nil]
  | cons s l ih =>
    intro b acc fuel h hr hu hf
    obtain ⟨f, rfl⟩ : ∃ f, fuel = f + 1 := ⟨fuel - 1, by simp at hf; omega⟩
    obtain ⟨k, hk, hd, hc⟩ := hs s (List.mem_cons_self ..)
    have hmode : s.mode = Model.QR.modeNumeric ∨ s.mode = Model.QR.modeAlphanumeric ∨
        s.mode = Model.QR.modeBytes ∨ s.mode = Model.QR.modeKanji := by
      rcases kindOf_cases hk with ⟨e, -⟩ | ⟨e, -⟩ | ⟨e, -⟩ | ⟨e, -⟩ <;> rw [e] <;> decide
    have hm16 : s.mode % 2 ^ 4 = s.mode := by
      rcases kindOf_cases hk with ⟨e, -⟩ | ⟨e, -⟩ | ⟨e, -⟩ | ⟨e, -⟩ <;> rw [e]
    rw [List.flatMap_cons, segStream, hk] at hu
    simp only [List.append_assoc] at hu
    obtain ⟨b₁, e₁, i₁, -, -, r₁, -, u₁⟩ := rd_ok b h hr 4 s.mode (by decide) (by decide) _ hu
    rw [hm16] at e₁
    have e₁' : readBits b 4 = .ok (b₁, some s.mode) := readBits_of_rd e₁
    obtain ⟨b₂, e₂, i₂, r₂, u₂⟩ := decodeSegment_inverse n h1 h40 s hk hd hc b₁ i₁ r₁ _ u₁
    have := ih (fun x hx => hs x (List.mem_cons_of_mem _ hx)) b₂ (acc.push s) f i₂ r₂ u₂
      (by simp at hf; omega)
    rw [Model.QR.segmentLoop, e₁']
    simp only [Out.bind_ok]
    rw [if_pos hmode, e₂]
    simp only [Out.bind_ok]
    rw [this, Array.toList_push, List.append_assoc]
    rfl

/-- a buffer that is only read: the invariant needs the bytes to be bytes -/
theorem inv_reader (a : Array Nat) (ha : ∀ x ∈ a.toList, x < 256) : C16.Inv { buf := a } := by
  constructor
  · show (0 : Nat) < 8; decide
  · exact ha
  · intro h; exact absurd rfl h
  · intro h; exact absurd rfl h

/-- the decoder's segment loop on a byte string whose bit image is the stream of valid segments
followed by a tail that is empty, or fewer than four zero bits, or begins with four zero bits -/
theorem segments_parse (n : Nat) (h1 : 1 ≤ n) (h40 : n ≤ 40) (segs : List Segment)
    (hs : ∀ s ∈ segs, SegOK n s) (tail : List Bool) (ht : TailOK tail)
    (bytes : List Nat) (hb : ∀ x ∈ bytes, x < 256)
    (himg : unpack bytes = segs.flatMap (segStream n) ++ tail)
    (acc : Array Segment) (fuel : Nat) (hf : segs.length < fuel) :
    Model.QR.segmentLoop (n : Int) fuel { buf := bytes.toArray } acc = .ok (acc.toList ++ segs) := by
  refine segments_parse_buf n h1 h40 segs hs tail ht _ acc fuel (inv_reader _ (by simpa using hb))
    (show (0 : Nat) < 8 by decide) ?_ hf
  show (unpack bytes.toArray.toList).drop (8 * 0 + 0) = _
  rw [List.toList_toArray, List.drop_zero, himg]

/-- the three shapes of a tail -/
theorem tailOK_iff (tail : List Bool) :
    TailOK tail ↔ tail = [] ∨ (tail.length < 4 ∧ ∀ x ∈ tail, x = false) ∨
      ∃ rest, tail = [false, false, false, false] ++ rest := by
  unfold TailOK
  constructor
  · intro h
    by_cases h4 : 4 ≤ tail.length
    · right; right
      refine ⟨tail.drop 4, ?_⟩
      have : tail.take 4 = List.replicate 4 false := by
        rw [List.eq_replicate_iff]; exact ⟨by rw [List.length_take]; omega, h⟩
      rw [show [false, false, false, false] = tail.take 4 from this.symm, List.take_append_drop]
    · right; left
      refine ⟨by omega, fun x hx => h x ?_⟩
      rw [List.take_of_length_le (by omega)]; exact hx
  · rintro (rfl | ⟨-, h⟩ | ⟨rest, rfl⟩)
    · intro x hx; cases hx
    · intro x hx; exact h x (List.mem_of_mem_take hx)
    · intro x hx
      simp at hx
      exact hx

/-- every segment stream has at least its four mode bits -/
theorem segs_length_le (n : Nat) (segs : List Segment) (hs : ∀ s ∈ segs, SegOK n s) :
    4 * segs.length ≤ (segs.flatMap (segStream n)).length := by
  induction segs with
  | nil => simp
  | cons s l ih =>
    obtain ⟨k, hk, -⟩ := hs s (List.mem_cons_self ..)
    have := ih (fun x hx => hs x (List.mem_cons_of_mem _ hx))
    rw [List.flatMap_cons, List.length_append, List.length_cons, segStream, hk]
    simp only [List.length_append, length_bitsMSB]
    omega

/-! ### encoder then decoder -/

open QRV QRV.Model QRV.Model.Sym QRV.Spec.Valid in
theorem stream_roundtrip (q : QRCode) (hv : QR.Valid q) :
    ∃ buf, Model.QR.encodeSegments q {} = .ok buf ∧
      buf.buf.size = Spec.Tables.dataCodewords q.version.toNat q.level.toNat ∧
      (∀ b ∈ buf.buf.toList, b < 256) ∧
      Model.QR.segmentLoop q.version (buf.buf.size * 8 + 8) { buf := buf.buf } #[] = .ok q.segments := by
  obtain ⟨buf, e, hi, hlen, habs, hw, -, -⟩ := stream_layout q hv
  obtain ⟨himg, hsize, hlt⟩ := stream_bytes buf hi hw
  obtain ⟨hv1, hv40⟩ := hv.version
  have ev : q.version = (q.version.toNat : Int) := by omega
  have hsegs := valid_segOK q hv
  have hfit : (q.segments.flatMap (segStream q.version.toNat)).length ≤
      8 * dataCodewords q.version.toNat q.level.toNat := by
    rw [flatMap_segStream_length]; exact hv.fits
  refine ⟨buf, e, by omega, hlt, ?_⟩
  have hp := segments_parse q.version.toNat (by omega) (by omega) q.segments hsegs _
    (streamTail_ok _ _ (by omega) hfit) buf.buf.toList hlt (by rw [himg, habs]) #[]
    (buf.buf.size * 8 + 8) (by
      have := segs_length_le q.version.toNat q.segments hsegs
      omega)
  rw [← ev] at hp
  simpa using hp

end QRV.Lemmas.RT
