import QRV.Lemmas.RRStream
import QRV.Lemmas.RTParse
/-
Round trip C01 (rMQR), the data bit stream, decoder side: `Model.RMQR.segmentLoop` parses the stream
described in `RRStream.lean` back into the segments (`segments_parse`), and the corollary
`stream_roundtrip` for `encodeSegments` followed by `segmentLoop`.
-/
namespace QRV.Lemmas.RR
open QRV QRV.Model QRV.Model.Bits QRV.Model.Sym QRV.Model.Codec QRV.Spec.Bits QRV.Spec.Codec
open QRV.Spec.Valid QRV.Lemmas.Bits QRV.Lemmas.Codec QRV.Lemmas.Kanji QRV.Lemmas.RT
open QRV.Props

/-- the body decoders invert `bodyStream` on valid data, given the character count -/
theorem decodeBody_inverse {m k : Nat} (hk : RMQR.kindOf m = some k) (data : List Nat) (hd : ValidData k data)
    (b : Buffer) (h : C16.Inv b) (hr : b.read < 8) (rest : List Bool)
    (hu : unr b = bodyStream k data ++ rest) :
    ∃ b', (if m = Model.RMQR.modeNumeric then decodeNumeric b (count k data)
        else if m = Model.RMQR.modeAlphanumeric then decodeAlphanumeric b (count k data)
        else if m = Model.RMQR.modeBytes then decodeBytes b (count k data)
        else decodeKanji b (count k data)) = .ok (b', data) ∧
      C16.Inv b' ∧ b'.read < 8 ∧ unr b' = rest := by
  rcases kindOf_cases hk with ⟨rfl, rfl⟩ | ⟨rfl, rfl⟩ | ⟨rfl, rfl⟩ | ⟨rfl, rfl⟩
  · rw [if_pos (by decide)]
    obtain ⟨b', e, hb, hw, hr', hc⟩ := C17.decodeNumeric_inverse b h hr data (valid_numeric hd) rest hu
    exact ⟨b', e, inv_same hb hw h, hr', unr_after hb hc hu⟩
  · rw [if_neg (by decide), if_pos (by decide)]
    obtain ⟨b', e, hb, hw, hr', hc⟩ := C17.decodeAlphanumeric_inverse b h hr data (valid_alnum hd) rest hu
    exact ⟨b', e, inv_same hb hw h, hr', unr_after hb hc hu⟩
  · rw [if_neg (by decide), if_neg (by decide), if_pos (by decide)]
    obtain ⟨b', e, hb, hw, hr', hc⟩ := C17.decodeBytes_inverse b h hr data (valid_lt hd) rest hu
    exact ⟨b', e, inv_same hb hw h, hr', unr_after hb hc hu⟩
  · rw [if_neg (by decide), if_neg (by decide), if_neg (by decide)]
    obtain ⟨b', e, hb, hw, hr', hc⟩ := C17.decodeKanji_inverse b h hr (kanjiCodes data) (kanjiCodes_ok hd) rest hu
    rw [kanjiCodes_length] at e
    have hback : ((kanjiCodes data).flatMap fun c => Utf8.encodeRune (refAt c)) = data := by
      unfold kanjiCodes
      rw [kanji_back _ (valid_kanji hd).1, (valid_kanji hd).2]
    rw [hback] at e
    refine ⟨b', e, inv_same hb hw h, hr', unr_after hb ?_ hu⟩
    rw [show bodyStream 3 data = kanjiBits (kanjiCodes data) from rfl, kanjiBits_length]
    exact hc

/-! ### one segment -/

theorem decodeSegment_inverse (c : Gen.GCap) (hw : WidthsOK c) (s : Segment) {k : Nat}
    (hk : RMQR.kindOf s.mode = some k) (hd : ValidData k s.data)
    (hc : count k s.data < 2 ^ RMQR.countBits k c)
    (b : Buffer) (h : C16.Inv b) (hr : b.read < 8) (rest : List Bool)
    (hu : unr b = bitsMSB (count k s.data) (RMQR.countBits k c) ++ (bodyStream k s.data ++ rest)) :
    ∃ b', Model.RMQR.decodeSegment s.mode c.bitLength b = .ok (b', s) ∧
      C16.Inv b' ∧ b'.read < 8 ∧ unr b' = rest := by
  have hcb := hw k (kindOf_lt hk)
  have hwidth : c.bitLength[s.mode]?.getD 0 = RMQR.countBits k c := by
    unfold RMQR.countBits; rw [kindOf_mode hk]
  obtain ⟨b₁, e₁, i₁, -, -, r₁, -, u₁⟩ := rd_ok b h hr (RMQR.countBits k c) (count k s.data)
    (by omega) (by omega) _ hu
  rw [Nat.mod_eq_of_lt hc] at e₁
  obtain ⟨b₂, e₂, i₂, r₂, u₂⟩ := decodeBody_inverse hk s.data hd b₁ i₁ r₁ rest u₁
  refine ⟨b₂, ?_, i₂, r₂, u₂⟩
  unfold Model.RMQR.decodeSegment
  rw [hwidth]
  simp only [e₁, Out.bind_ok, e₂]
  rfl

/-! ### the end of the data -/

/-- at a tail (end of data, fewer than three zero bits, or a terminator) the loop stops -/
theorem segmentLoop_tail (bl : List Nat) (b : Buffer) (h : C16.Inv b) (hr : b.read < 8) (ht : TailOK (unr b))
    (acc : Array Segment) (fuel : Nat) :
    Model.RMQR.segmentLoop bl (fuel + 1) b acc = .ok acc.toList := by
  have hlen : (unr b).length = 8 * b.buf.size - cur b := by
    unfold unr; rw [List.length_drop, length_unpack, Array.length_toList]
  have hcur : cur b = 8 * b.offset + b.read := rfl
  -- in every case `ReadBits(3)` is EOF or the value 0
  have hread : (∃ b', readBits b 3 = .ok (b', none)) ∨ (∃ b', readBits b 3 = .ok (b', some 0)) := by
    by_cases h0 : (unr b).length = 0
    · left
      refine ⟨b, ?_⟩
      unfold readBits
      rw [if_neg (by decide), if_pos (by omega)]
    · right
      by_cases h4 : 3 ≤ (unr b).length
      · have htake : (unr b).take 3 = bitsMSB 0 3 := by
          rw [bitsMSB_zero, List.eq_replicate_iff]
          exact ⟨by rw [List.length_take]; omega, ht⟩
        have hu : unr b = bitsMSB 0 3 ++ (unr b).drop 3 := by rw [← htake, List.take_append_drop]
        obtain ⟨b', e, -⟩ := rd_ok b h hr 3 0 (by decide) (by decide) _ hu
        exact ⟨b', readBits_of_rd e⟩
      · have htake : unr b = List.replicate (unr b).length false := by
          rw [List.eq_replicate_iff]
          refine ⟨rfl, fun x hx => ht x ?_⟩
          rw [List.take_of_length_le (by omega)]; exact hx
        obtain ⟨b', e, -⟩ := C16.readBits_zero_extends b hr 3 (by decide) (by omega) (by omega)
        refine ⟨b', ?_⟩
        have hz : toNat ((unpack b.buf.toList).drop (8 * b.offset + b.read)) = 0 := by
          show toNat (unr b) = 0
          rw [htake, toNat_replicate_false]
        rw [hz, Nat.zero_mul] at e
        exact e
  rw [Model.RMQR.segmentLoop]
  rcases hread with ⟨b', e⟩ | ⟨b', e⟩
  · rw [e]; rfl
  · rw [e]; rfl

/-! ### the segment loop -/

/-- `segmentLoop` on a buffer whose unread bits are the streams of valid segments followed by a
tail it stops at: exactly those segments are appended -/
theorem segments_parse_buf (c : Gen.GCap) (hw : WidthsOK c) (segs : List Segment)
    (hs : ∀ s ∈ segs, SegOK c s) (tail : List Bool) (ht : TailOK tail) :
    ∀ (b : Buffer) (acc : Array Segment) (fuel : Nat), C16.Inv b → b.read < 8 →
      unr b = segs.flatMap (segStream c) ++ tail → segs.length < fuel →
      Model.RMQR.segmentLoop c.bitLength fuel b acc = .ok (acc.toList ++ segs) := by
  induction segs with
  | nil =>
    intro b acc fuel h hr hu hf
    obtain ⟨f, rfl⟩ : ∃ f, fuel = f + 1 := ⟨fuel - 1, by simp at hf; omega⟩
    rw [List.flatMap_nil, List.nil_append] at hu
    rw [segmentLoop_tail c.bitLength b h hr (by rw [hu]; exact ht), List.append_nil]
  | cons s l ih =>
    intro b acc fuel h hr hu hf
    obtain ⟨f, rfl⟩ : ∃ f, fuel = f + 1 := ⟨fuel - 1, by simp at hf; omega⟩
    obtain ⟨k, hk, hd, hc⟩ := hs s (List.mem_cons_self ..)
    have hmode : s.mode = Model.RMQR.modeNumeric ∨ s.mode = Model.RMQR.modeAlphanumeric ∨
        s.mode = Model.RMQR.modeBytes ∨ s.mode = Model.RMQR.modeKanji := by
      rcases kindOf_cases hk with ⟨e, -⟩ | ⟨e, -⟩ | ⟨e, -⟩ | ⟨e, -⟩ <;> rw [e] <;> decide
    have hm8 : s.mode % 2 ^ 3 = s.mode := by
      rcases kindOf_cases hk with ⟨e, -⟩ | ⟨e, -⟩ | ⟨e, -⟩ | ⟨e, -⟩ <;> rw [e]
    rw [List.flatMap_cons, segStream, hk] at hu
    simp only [List.append_assoc] at hu
    obtain ⟨b₁, e₁, i₁, -, -, r₁, -, u₁⟩ := rd_ok b h hr 3 s.mode (by decide) (by decide) _ hu
    rw [hm8] at e₁
    have e₁' : readBits b 3 = .ok (b₁, some s.mode) := readBits_of_rd e₁
    obtain ⟨b₂, e₂, i₂, r₂, u₂⟩ := decodeSegment_inverse c hw s hk hd hc b₁ i₁ r₁ _ u₁
    have := ih (fun x hx => hs x (List.mem_cons_of_mem _ hx)) b₂ (acc.push s) f i₂ r₂ u₂
      (by simp at hf; omega)
    rw [Model.RMQR.segmentLoop, e₁']
    simp only [Out.bind_ok]
    rw [if_pos hmode, e₂]
    simp only [Out.bind_ok]
    rw [this, Array.toList_push, List.append_assoc]
    rfl

/-- the decoder's segment loop on a byte string whose bit image is the stream of valid segments
followed by a tail that is empty, or fewer than three zero bits, or begins with three zero bits -/
theorem segments_parse (c : Gen.GCap) (hw : WidthsOK c) (segs : List Segment)
    (hs : ∀ s ∈ segs, SegOK c s) (tail : List Bool) (ht : TailOK tail)
    (bytes : List Nat) (hb : ∀ x ∈ bytes, x < 256)
    (himg : unpack bytes = segs.flatMap (segStream c) ++ tail)
    (acc : Array Segment) (fuel : Nat) (hf : segs.length < fuel) :
    Model.RMQR.segmentLoop c.bitLength fuel { buf := bytes.toArray } acc = .ok (acc.toList ++ segs) := by
  refine segments_parse_buf c hw segs hs tail ht _ acc fuel (inv_reader _ (by simpa using hb))
    (show (0 : Nat) < 8 by decide) ?_ hf
  show (unpack bytes.toArray.toList).drop (8 * 0 + 0) = _
  rw [List.toList_toArray, List.drop_zero, himg]

/-- every segment stream has at least its three mode bits -/
theorem segs_length_le (c : Gen.GCap) (segs : List Segment) (hs : ∀ s ∈ segs, SegOK c s) :
    3 * segs.length ≤ (segs.flatMap (segStream c)).length := by
  induction segs with
  | nil => simp
  | cons s l ih =>
    obtain ⟨k, hk, -⟩ := hs s (List.mem_cons_self ..)
    have := ih (fun x hx => hs x (List.mem_cons_of_mem _ hx))
    rw [List.flatMap_cons, List.length_append, List.length_cons, segStream, hk]
    simp only [List.length_append, length_bitsMSB]
    omega

/-! ### encoder then decoder -/

theorem stream_roundtrip (q : QRCode) (hv : RMQR.Valid q) (cap : Gen.GCap)
    (hrow : RMQR.row q.version.toNat q.level.toNat = some cap)
    (hcap : capAt Gen.RMQR.capacityTable q.version q.level = .ok cap) (hok : capOK cap = true) :
    ∃ buf, Model.RMQR.encodeSegments q {} = .ok buf ∧
      buf.buf.size = cap.data ∧
      (∀ b ∈ buf.buf.toList, b < 256) ∧
      Model.RMQR.segmentLoop cap.bitLength (cap.data * 8 + 8) { buf := buf.buf } #[] = .ok q.segments := by
  obtain ⟨buf, e, hi, hlen, habs, hw, -, -⟩ := stream_layout q hv cap hrow hcap hok
  obtain ⟨himg, hsize, hlt⟩ := stream_bytes buf hi hw
  have hsegs := hv.segments cap hrow
  have hfit : (q.segments.flatMap (segStream cap)).length ≤ 8 * cap.data := by
    rw [flatMap_segStream_length]; exact hv.fits cap hrow
  refine ⟨buf, e, by omega, hlt, ?_⟩
  have hp := segments_parse cap (widths_of_capOK cap hok) q.segments hsegs _
    (streamTail_ok _ _ (by omega) hfit) buf.buf.toList hlt (by rw [himg, habs]) #[]
    (cap.data * 8 + 8) (by
      have := segs_length_le cap q.segments hsegs
      omega)
  simpa using hp

end QRV.Lemmas.RR
