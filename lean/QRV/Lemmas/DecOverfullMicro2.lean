import QRV.Lemmas.DecOverfullMicro
import QRV.Lemmas.DecOverfullQR
import QRV.Lemmas.DecMicro2
/-
C07 (finding D16, exact bound) — the Micro QR decoder on an arbitrary well-formed bitmap: the buffer handed to the
segment loop is `data[:cap.data]`, and the data codewords of every capacity row are the standard's data bits rounded up
to whole codewords (kernel evaluation of the regenerated table against `Spec.Tables.micro`; the final codeword of M1 and
M3 has four bits and the decoder's buffer holds it as a byte), so the bound of the segment loop is a bound in terms of
`Spec.Valid.Micro.dataBits`.
-/
namespace QRV.Lemmas.DecOverfull
open QRV QRV.Model QRV.Model.Bits QRV.Model.Bitmap QRV.Model.Sym QRV.Props QRV.Props.C18 QRV.Lemmas.BCH QRV.Lemmas.RT
open QRV.Lemmas.Dec

/-- the rows of one version: at most four, each with no more data codewords than the standard's data bits rounded up -/
def microDataOK (v : Nat) : Bool :=
  let row := Gen.Micro.capacityTable[v]?.getD []
  decide (row.length ≤ 4) && (List.range 4).all fun l =>
    match row[l]? with
    | none => true
    | some c => decide (c.data ≤ ((Spec.Valid.Micro.dataBits v l).getD 0 + 7) / 8)

theorem microData_rows : (List.range 5).all microDataOK = true := by decide +kernel

theorem micro_cap_data (v l : Nat) (hv : v ≤ 4) (cap : Gen.GCap)
    (h : capAt Gen.Micro.capacityTable (v : Int) (l : Int) = .ok cap) :
    cap.data ≤ ((Spec.Valid.Micro.dataBits v l).getD 0 + 7) / 8 := by
  have hk := forall_lt_of_all microData_rows v (by omega)
  unfold microDataOK at hk
  simp only [Bool.and_eq_true, decide_eq_true_eq] at hk
  obtain ⟨hlen, hall⟩ := hk
  unfold capAt at h
  rw [if_neg (by omega)] at h
  simp only [Int.toNat_natCast] at h
  cases hrow : Gen.Micro.capacityTable[v]? with
  | none => rw [hrow] at h; cases h
  | some row =>
    rw [hrow] at h hlen hall
    simp only [Option.getD_some] at hlen hall
    dsimp only at h
    cases hc : row[l]? with
    | none => rw [hc] at h; cases h
    | some c =>
      rw [hc] at h
      simp only [Out.ok.injEq] at h
      subst h
      have hl : l < 4 := by
        have := (List.getElem?_eq_some_iff.mp hc).1
        omega
      have := forall_lt_of_all hall l hl
      rw [hc] at this
      simpa using this

/-- the Micro QR decoder on a well-formed bitmap: the returned description exceeds the data codewords of the symbol by
less than the last group read for its last segment -/
theorem micro_decode_over_sat (img : Image) (hw : WF img) :
    Sat (Micro.decodeBitmapFull img) (fun p => ∀ s, p.1.segments.getLast? = some s →
      sumF (Spec.Valid.Micro.segBits · p.1.version.toNat) p.1.segments <
        8 * (((Spec.Valid.Micro.dataBits p.1.version.toNat p.1.level.toNat).getD 0 + 7) / 8) +
          lastGrpM p.1.version.toNat s) := by
  unfold Micro.decodeBitmapFull
  -- hide the table scan of `decodeFormat` from the elaborator
  have hfmt := micro_decodeFormat_ok
  generalize Micro.decodeFormat = df at hfmt ⊢
  dsimp only
  have hreg := normalise_regular' img hw
  refine Sat.bind (P := fun _ => True) (Sat.forIn_range _ (fun _ => True) 8 _ trivial ?_) ?_
  · intro i _ s _
    sat_reads (binaryAt_sat _ _ _ hreg)
  · intro raw _
    obtain ⟨r, hr, hcase⟩ := hfmt raw
    rw [hr, Out.bind_ok]
    rcases hcase with rfl | ⟨vn, ln, m, rfl, hpair, hm⟩
    · exact trivial
    · dsimp only
      obtain ⟨⟨hv1, hv4⟩, hused, hru, hbin, hspec, cap, n, hcap, hwalk, hn⟩ := micro_pair_facts vn ln hpair
      -- the size test
      split
      · exact trivial
      · rename_i hc
        have hdx : img.dx = ((9 + 2 * vn : Nat) : Int) := by
          simp only [Image.dx, Image.dy] at hc ⊢; omega
        have hdy : img.dy = ((9 + 2 * vn : Nat) : Int) := by
          simp only [Image.dx, Image.dy] at hc ⊢; omega
        rw [show img.dx.toNat = 9 + 2 * vn by omega, show img.dy.toNat = 9 + 2 * vn by omega] at hreg
        -- tables
        obtain ⟨pat, pw, ph, hpat, hrp, hpw, hph⟩ := micro_mask_image m hm
        rw [hused, hpat]
        simp only [Out.bind_ok, deref]
        -- unmasking
        obtain ⟨bin, hmask, hrb⟩ := C18.mask_ok _ _ pat _ _ pw ph (by omega) (by omega) hreg hru hrp
          (by omega) (by omega)
        rw [hmask, Out.bind_ok, hcap, Out.bind_ok]
        -- the walk
        rw [micro_fuel_nat]
        refine Sat.bind (micro_readLoop_sat _ bin (usedFnM vn) hbin (binaryAt_sat bin _ _ hrb) _ cap.dataBits _ _ 0 n {}
          hwalk C16.inv_empty (Nat.zero_le _)) ?_
        rintro rbuf ⟨hrinv, hrlen⟩
        -- error correction
        have hbytes : C14.Bytes rbuf.buf.toList := hrinv.bytes_lt
        have hlen : cap.data ≤ rbuf.buf.toList.length := by
          rw [C16.bytes_are_packing rbuf hrinv, length_pack, ← C16.len_eq rbuf hrinv]
          omega
        have hnp := C14.dec_no_panic rbuf.buf.toList hbytes cap.correction
        unfold Micro.RS_SYNDROMES
        cases hdec : RS.decode rbuf.buf.toList (cap.correction : Int) with
        | panic e => rw [hdec] at hnp; cases hnp
        | err e => exact trivial
        | ok data =>
          obtain ⟨hdl, hdb, -⟩ := C14.dec_sound _ data hbytes _ hdec
          rw [Out.bind_ok, if_neg (by omega)]
          rw [if_neg (by omega)]
          -- segments: the buffer is `data[:cap.data]`
          have hcd := micro_cap_data vn ln hv4 cap hcap
          refine Sat.bind (Sat.of_imp (Q := fun segs : List Segment => ∀ s, segs.getLast? = some s →
              sumF (Spec.Valid.Micro.segBits · vn) segs <
                8 * (((Spec.Valid.Micro.dataBits vn ln).getD 0 + 7) / 8) + lastGrpM vn s)
            (micro_segmentLoop_sat (vn : Int) (by omega) (by omega) _
              { buf := (data.take cap.data).toArray } #[] (by show (0 : Nat) < 8; decide)
              (by unfold rem cur; simp; omega) (by simp)) ?_) ?_
          · intro segs e _ s hs
            have := micro_segmentLoop_over (vn : Int) (by omega) (by omega) _
              { buf := (data.take cap.data).toArray } #[]
              ⟨by show (0 : Nat) < 8; decide, by unfold cur; simp, Or.inl (by simp [sumF])⟩ (by simp) segs e s hs
            have hsz : ((data.take cap.data).toArray).size ≤ cap.data := by simp; omega
            simp only [Int.toNat_natCast] at this
            omega
          intro segs hsegs
          refine Sat.pure ?_
          intro s hs
          simp only [Int.toNat_natCast]
          exact hsegs s hs

theorem micro_decodeBitmap_over_sat (img : Image) (hw : WF img) :
    Sat (Micro.decodeBitmap img) (fun q => ∀ s, q.segments.getLast? = some s →
      sumF (Spec.Valid.Micro.segBits · q.version.toNat) q.segments <
        8 * (((Spec.Valid.Micro.dataBits q.version.toNat q.level.toNat).getD 0 + 7) / 8) +
          lastGrpM q.version.toNat s) := by
  unfold Micro.decodeBitmap
  exact Sat.bind (micro_decode_over_sat img hw) (fun p hp => hp)

end QRV.Lemmas.DecOverfull
