import QRV.Lemmas.DecSat
import QRV.Lemmas.RTBlocks
import QRV.Props.C14
/-
C06/C07 — de-interleaving and error correction on ARBITRARY codewords.  The shuffle of
`deinterleave` does not depend on the byte values: every byte string of the row's length IS the
interleaving of some family of blocks of the row's shape (`unilv`), so the round-trip lemma of C01
(`ilv_roundtrip`: de-interleaving an interleaving gives the blocks back) applies to it.
-/
namespace QRV.Lemmas.Dec
open QRV QRV.Model QRV.Model.Bits QRV.Model.Sym QRV.Lemmas.RT

/-- the family of lists of the two-group shape whose interleaving is `bytes` -/
def unilv (n1 n2 d : Nat) (bytes : List Nat) : List (List Nat) :=
  (List.range (n1 + n2)).map fun k => (List.range (lenS n1 d k)).map fun r => bytes[pos n1 n2 d r k]?.getD 0

theorem unilv_shape (n1 n2 d : Nat) (bytes : List Nat) : Shape (unilv n1 n2 d bytes) n1 n2 d := by
  unfold Shape unilv
  apply List.ext_getElem
  · simp
  · intro k h1 h2
    simp only [List.length_map, List.length_range] at h1
    simp only [List.getElem_map, List.getElem_range, List.length_map, List.length_range]
    unfold lenS
    by_cases hk : k < n1
    · rw [if_pos hk, List.getElem_append_left (by simpa using hk)]; simp
    · rw [if_neg hk, List.getElem_append_right (by simpa using hk)]; simp

theorem unilv_mem (n1 n2 d : Nat) (bytes : List Nat) (hb : ∀ x ∈ bytes, x < 256) :
    ∀ l ∈ unilv n1 n2 d bytes, ∀ x ∈ l, x < 256 := by
  intro l hl x hx
  simp only [unilv, List.mem_map, List.mem_range] at hl
  obtain ⟨k, _, rfl⟩ := hl
  simp only [List.mem_map, List.mem_range] at hx
  obtain ⟨r, _, rfl⟩ := hx
  cases h : bytes[pos n1 n2 d r k]? with
  | none => simp
  | some v => simpa using hb v (List.mem_of_getElem? h)

theorem unilv_ilv1 (n1 n2 d : Nat) (bytes : List Nat) (hlen : bytes.length = d * (n1 + n2) + n2) :
    ilv1 (unilv n1 n2 d bytes) = bytes := by
  have hs := unilv_shape n1 n2 d bytes
  apply List.ext_getElem?
  intro j
  by_cases hj : j < bytes.length
  · obtain ⟨hk, hr, hp⟩ := slotOf_valid n1 n2 d j (by omega)
    generalize slotOf n1 n2 d j = sl at hk hr hp
    obtain ⟨r, k⟩ := sl
    simp only at hk hr hp
    have hkl : (unilv n1 n2 d bytes)[k]? =
        some ((List.range (lenS n1 d k)).map fun r => bytes[pos n1 n2 d r k]?.getD 0) := by
      unfold unilv
      rw [List.getElem?_map, List.getElem?_range hk]; rfl
    have := hs.ilv1_get k r hk (by rw [hkl]; simpa using hr)
    rw [hp] at this
    rw [this, hkl, Option.bind_some, List.getElem?_map, List.getElem?_range hr, Option.map_some, hp,
      List.getElem?_eq_getElem hj, Option.getD_some]
  · rw [List.getElem?_eq_none (by rw [hs.ilv1_length]; omega), List.getElem?_eq_none (by omega)]

/-- de-interleaving any `total` bytes (followed by anything) succeeds and yields blocks of the
row's lengths -/
theorem deinterleave_any (blocks : List Gen.GBlock) (n1 n2 d e : Nat) (hs : BlockShape blocks n1 n2 d e)
    (dlen total : Nat) (hlen : dlen = n1 * d + n2 * (d + 1)) (htot : dlen + (n1 + n2) * e = total)
    (buf : List Nat) (hb : ∀ x ∈ buf, x < 256) (hl : total ≤ buf.length) :
    ∃ blks, deinterleave blocks dlen total buf = .ok blks ∧
      blks.map (fun b => (b.1.length, b.2.length)) = sizesOf blocks ∧
      ∀ b ∈ blks, (∀ x ∈ b.1, x < 256) ∧ ∀ x ∈ b.2, x < 256 := by
  let by1 := buf.take dlen
  let by2 := (buf.take total).drop dlen
  have hb1 : ∀ x ∈ by1, x < 256 := fun x hx => hb x (List.mem_of_mem_take hx)
  have hb2 : ∀ x ∈ by2, x < 256 := fun x hx => hb x (List.mem_of_mem_take (List.mem_of_mem_drop hx))
  have hl1 : by1.length = d * (n1 + n2) + n2 := by
    show (buf.take dlen).length = _
    rw [List.length_take, Nat.min_eq_left (by omega), hlen, Nat.mul_add, Nat.mul_add, Nat.mul_comm d n1,
      Nat.mul_comm d n2, Nat.mul_one]
    omega
  have hl2 : by2.length = e * (n1 + n2 + 0) + 0 := by
    show ((buf.take total).drop dlen).length = _
    have e0 : e * (n1 + n2 + 0) + 0 = (n1 + n2) * e := by
      rw [Nat.add_zero, Nat.add_zero, Nat.mul_comm]
    rw [e0, List.length_drop, List.length_take, Nat.min_eq_left hl, ← htot]
    omega
  let row1 := fun k => (List.range (lenS n1 d k)).map fun r => by1[pos n1 n2 d r k]?.getD 0
  let row2 := fun k => (List.range (lenS (n1 + n2) e k)).map fun r => by2[pos (n1 + n2) 0 e r k]?.getD 0
  let blks : List (List Nat × List Nat) := (List.range (n1 + n2)).map fun k => (row1 k, row2 k)
  have hfst : blks.map (·.1) = unilv n1 n2 d by1 := by
    show ((List.range (n1 + n2)).map fun k => (row1 k, row2 k)).map (·.1) = _
    rw [List.map_map]; rfl
  have hsnd : blks.map (·.2) = unilv (n1 + n2) 0 e by2 := by
    show ((List.range (n1 + n2)).map fun k => (row1 k, row2 k)).map (·.2) = _
    rw [List.map_map]; rfl
  have hmap : blks.map (fun b => (b.1.length, b.2.length)) = sizesOf blocks := by
    rw [hs.sizes]
    show ((List.range (n1 + n2)).map fun k => (row1 k, row2 k)).map _ = _
    rw [List.map_map]
    apply List.ext_getElem
    · simp
    · intro k h1 h2
      simp only [List.length_map, List.length_range] at h1
      simp only [List.getElem_map, List.getElem_range, Function.comp, row1, row2, List.length_map,
        List.length_range]
      unfold lenS
      rw [if_pos h1]
      by_cases hk : k < n1
      · rw [if_pos hk, List.getElem_append_left (by simpa using hk)]; simp
      · rw [if_neg hk, List.getElem_append_right (by simpa using hk)]; simp
  have hall : ∀ b ∈ blks, (∀ x ∈ b.1, x < 256) ∧ ∀ x ∈ b.2, x < 256 := by
    intro b hbm
    have h1 : b.1 ∈ blks.map (·.1) := List.mem_map_of_mem hbm
    have h2 : b.2 ∈ blks.map (·.2) := List.mem_map_of_mem hbm
    rw [hfst] at h1
    rw [hsnd] at h2
    exact ⟨unilv_mem _ _ _ _ hb1 _ h1, unilv_mem _ _ _ _ hb2 _ h2⟩
  obtain ⟨ibuf, -, -, -, -, -, hlist, -, hde⟩ := ilv_roundtrip blocks n1 n2 d e hs blks hmap hall dlen total hlen htot
  refine ⟨blks, ?_, hmap, hall⟩
  have := hde (buf.drop total)
  rw [hlist, ilvList, hfst, hsnd, unilv_ilv1 _ _ _ _ hl1, unilv_ilv1 _ _ _ _ hl2] at this
  have e1 : by1 ++ by2 = buf.take total := by
    show buf.take dlen ++ (buf.take total).drop dlen = _
    have : buf.take dlen = (buf.take total).take dlen := by
      rw [List.take_take, Nat.min_eq_left (by omega)]
    rw [this, List.take_append_drop]
  rwa [e1, List.take_append_drop] at this

/-- the error-correction loop: never panics; what it returns are bytes -/
theorem rsLoop_sat (blks : List (List Nat × List Nat))
    (hall : ∀ b ∈ blks, (∀ x ∈ b.1, x < 256) ∧ ∀ x ∈ b.2, x < 256) :
    Sat (rsLoop blks) (fun result => ∀ x ∈ result.toList, x < 256) := by
  unfold rsLoop
  refine Sat.forIn_list _ (fun result : Array Nat => ∀ x ∈ result.toList, x < 256) blks #[] (by simp) ?_
  intro blk hblk result hres
  have hbytes : Props.C14.Bytes (blk.1 ++ blk.2) := by
    intro x hx
    rcases List.mem_append.mp hx with h | h
    · exact (hall blk hblk).1 x h
    · exact (hall blk hblk).2 x h
  have hnp := Props.C14.dec_no_panic (blk.1 ++ blk.2) hbytes blk.2.length
  unfold QR.RS_SYNDROMES
  cases hdec : RS.decode (blk.1 ++ blk.2) (blk.2.length : Int) with
  | panic m => rw [hdec] at hnp; cases hnp
  | err m => exact trivial
  | ok data =>
    obtain ⟨_, hb', _⟩ := Props.C14.dec_sound _ data hbytes _ hdec
    show ∀ x ∈ (result ++ (data.take blk.1.length).toArray).toList, x < 256
    intro x hx
    rw [Array.toList_append, List.mem_append] at hx
    rcases hx with h | h
    · exact hres x h
    · exact hb' x (List.mem_of_mem_take (by simpa using h))

end QRV.Lemmas.Dec
