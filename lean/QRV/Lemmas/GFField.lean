import QRV.Lemmas.GFFinite
/-
Field laws of the MODEL operations for all elements, derived from the finite table facts
without enumerating triples.
-/
namespace QRV.Lemmas.GF
open QRV.Model.GF QRV.Spec.GF

/-- being a field element -/
abbrev El (a : Nat) : Prop := a < 256

theorem add_lt {a b : Nat} (ha : El a) (hb : El b) : El (add a b) := by
  unfold add El; exact Nat.xor_lt_two_pow (n := 8) ha hb

theorem add_comm (a b : Nat) : add a b = add b a := Nat.xor_comm a b
theorem add_assoc (a b c : Nat) : add (add a b) c = add a (add b c) := Nat.xor_assoc a b c
@[simp] theorem add_self (a : Nat) : add a a = 0 := Nat.xor_self a
@[simp] theorem add_zero (a : Nat) : add a 0 = a := Nat.xor_zero a
@[simp] theorem zero_add (a : Nat) : add 0 a = a := Nat.zero_xor a

theorem add_left_cancel {a b c : Nat} (h : add a b = add a c) : b = c := by
  have : add a (add a b) = add a (add a c) := by rw [h]
  simpa [← add_assoc] using this

theorem add_eq_zero_iff {a b : Nat} : add a b = 0 ↔ a = b := by
  constructor
  · intro h
    have : add a (add a b) = add a 0 := by rw [h]
    simpa [← add_assoc] using this.symm
  · rintro rfl; simp

@[simp] theorem mul_zero (a : Nat) : mul a 0 = 0 := by simp [mul]
@[simp] theorem zero_mul (a : Nat) : mul 0 a = 0 := by simp [mul]

theorem mul_comm (a b : Nat) : mul a b = mul b a := by
  unfold mul
  rw [Nat.add_comm (logT a)]
  by_cases ha : a = 0 <;> by_cases hb : b = 0 <;> simp [ha, hb]

theorem mul_lt {a b : Nat} (_ha : El a) (_hb : El b) : El (mul a b) := by
  unfold mul
  split
  · exact Nat.zero_lt_succ _
  · exact exp_lt _ (by omega)

theorem mul_ne_zero {a b : Nat} (ha : a ≠ 0) (hb : b ≠ 0) : mul a b ≠ 0 := by
  unfold mul
  simp only [ha, hb, or_self, if_false]
  exact exp_ne_zero _ (by omega)

theorem mul_eq_zero_iff {a b : Nat} : mul a b = 0 ↔ a = 0 ∨ b = 0 := by
  constructor
  · intro h
    by_cases ha : a = 0
    · exact Or.inl ha
    · by_cases hb : b = 0
      · exact Or.inr hb
      · exact absurd h (mul_ne_zero ha hb)
  · rintro (rfl | rfl) <;> simp

/-- log of a product of non-zero elements -/
theorem log_mul {a b : Nat} (_ha : El a) (_hb : El b) (ha0 : a ≠ 0) (hb0 : b ≠ 0) :
    logT (mul a b) = (logT a + logT b) % 255 := by
  unfold mul
  simp only [ha0, hb0, or_self, if_false]
  exact log_exp _ (by omega)

theorem mul_eq_exp {a b : Nat} (ha0 : a ≠ 0) (hb0 : b ≠ 0) :
    mul a b = expT ((logT a + logT b) % 255) := by
  unfold mul; simp [ha0, hb0]

theorem mul_assoc {a b c : Nat} (ha : El a) (hb : El b) (hc : El c) :
    mul (mul a b) c = mul a (mul b c) := by
  by_cases ha0 : a = 0
  · subst ha0; simp
  by_cases hb0 : b = 0
  · subst hb0; simp
  by_cases hc0 : c = 0
  · subst hc0; simp
  have hab := mul_ne_zero ha0 hb0
  have hbc := mul_ne_zero hb0 hc0
  rw [mul_eq_exp hab hc0, mul_eq_exp ha0 hbc, log_mul ha hb ha0 hb0, log_mul hb hc hb0 hc0]
  congr 1
  omega

theorem log_one : logT 1 = 0 := by decide +kernel

@[simp] theorem mul_one {a : Nat} (ha : El a) : mul a 1 = a := by
  by_cases ha0 : a = 0
  · subst ha0; simp
  have hl := log_lt a ha
  rw [mul_eq_exp ha0 (by decide), log_one, Nat.add_zero, Nat.mod_eq_of_lt hl]
  exact exp_log a ha ha0

@[simp] theorem one_mul {a : Nat} (ha : El a) : mul 1 a = a := by
  rw [mul_comm]; exact mul_one ha

/-! ### distributivity through the carry-less specification -/

theorem term_xor (a b c i : Nat) : term a (b ^^^ c) i = term a b i ^^^ term a c i := by
  unfold term
  rw [Nat.testBit_xor]
  cases b.testBit i <;> cases c.testBit i <;> simp

theorem smul_xor_right (a b c : Nat) : smul a (b ^^^ c) = smul a b ^^^ smul a c := by
  unfold smul
  simp only [term_xor]
  ac_rfl

theorem mul_add {a b c : Nat} (ha : El a) (hb : El b) (hc : El c) :
    mul a (add b c) = add (mul a b) (mul a c) := by
  have hbc : El (add b c) := add_lt hb hc
  rw [mul_eq_smul a ha _ hbc, mul_eq_smul a ha b hb, mul_eq_smul a ha c hc]
  exact smul_xor_right a b c

theorem add_mul {a b c : Nat} (ha : El a) (hb : El b) (hc : El c) :
    mul (add a b) c = add (mul a c) (mul b c) := by
  rw [mul_comm, mul_add hc ha hb, mul_comm c a, mul_comm c b]

theorem mul_inv_cancel {a : Nat} (ha : El a) (ha0 : a ≠ 0) : mul a (inv' a) = 1 := by
  rw [mul_comm]; exact inv_mul a ha ha0

theorem mul_left_cancel {a b c : Nat} (ha : El a) (hb : El b) (hc : El c) (ha0 : a ≠ 0)
    (h : mul a b = mul a c) : b = c := by
  have h1 : mul (inv' a) (mul a b) = mul (inv' a) (mul a c) := by rw [h]
  have hi := inv_lt a ha
  rw [← mul_assoc hi ha hb, ← mul_assoc hi ha hc, inv_mul a ha ha0, one_mul hb, one_mul hc] at h1
  exact h1

/-- `Exp` is 2^k: the table is the orbit of 1 under multiplication by x -/
theorem exp_eq_pow2 : ∀ k, k ≤ 255 → expT k = pow2 k := by
  intro k
  induction k with
  | zero => intro _; exact exp_zero
  | succ k ih =>
    intro hk
    rw [exp_succ k (by omega), ih (by omega)]
    rfl

/-- exponent arithmetic: exp is a homomorphism from (ℤ/255, +) -/
theorem exp_add_mod {i j : Nat} (hi : i < 255) (hj : j < 255) :
    mul (expT i) (expT j) = expT ((i + j) % 255) := by
  have h1 := exp_ne_zero i (by omega)
  have h2 := exp_ne_zero j (by omega)
  rw [mul_eq_exp h1 h2, log_exp i hi, log_exp j hj]

end QRV.Lemmas.GF
