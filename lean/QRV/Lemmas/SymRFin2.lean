import QRV.Spec.SymbolRMQR
import QRV.Gen.RMQR
import QRV.Lemmas.Finite
/-
Kernel evaluation, all 32 rMQR versions: the standard's placement order offers at least 8 * total
codeword bits (both levels).
-/
namespace QRV.Lemmas.SymRFin
open QRV QRV.Lemmas QRV.Spec.Symbol.RMQR
open QRV.Spec.Patterns (strict)

set_option maxRecDepth 1000000

theorem total_le_all : (List.range 32).all (fun v => strict (dataCoords v).length fun n =>
    (Gen.RMQR.capacityTable[v]?.getD []).all fun c => decide (8 * c.total ≤ n)) = true := by
  decide +kernel

/-- every codeword bit has a module in the standard's placement order -/
theorem total_le_dataCoords (v : Nat) (hv : v < 32) (c : Gen.GCap) (hc : c ∈ Gen.RMQR.capacityTable[v]?.getD []) :
    8 * c.total ≤ (dataCoords v).length := by
  have h := forall_lt_of_all total_le_all v hv
  have e : ∀ {α : Type} (n : Nat) (f : Nat → α), strict n f = f n := by
    intro α n f; cases n <;> rfl
  rw [e] at h
  have := List.all_eq_true.mp h c hc
  simpa using this

end QRV.Lemmas.SymRFin
