import QRV.Lemmas.DecRead
import QRV.Lemmas.DecUtf8
import QRV.Model.QR
import QRV.Spec.Valid
/-
C06/C07 — the segment loop of the QR decoder on ARBITRARY codewords: it never panics, its fuel
suffices (every iteration that continues consumes the four bits of a mode indicator), and every
segment it returns has a supported mode, bytes valid for the mode and a character count that fits
the count indicator.
-/
namespace QRV.Lemmas.Dec
open QRV QRV.Model.Bits QRV.Model.Codec QRV.Model.Sym QRV.Model.Utf8 QRV.Spec.Valid QRV.Lemmas.Kanji

/-! ### the count indicator widths of the model are the standard's -/

theorem countBits_spec (mode k : Nat) (hk : QR.kindOf mode = some k) (version : Int)
    (h1 : 1 ≤ version) (h40 : version ≤ 40) :
    Model.QR.countBits mode version = some (QR.countBits k version.toNat) := by
  unfold QR.kindOf at hk
  unfold Model.QR.countBits Model.QR.modeNumeric Model.QR.modeAlphanumeric Model.QR.modeBytes QR.countBits
  rw [if_neg (by omega)]
  have e10 : version.toNat < 10 ↔ version < 10 := by omega
  have e27 : version.toNat < 27 ↔ version < 27 := by omega
  simp only [e10, e27]
  by_cases m1 : mode = 1
  · subst m1; simp at hk; subst hk
    by_cases a : version < 10
    · simp [a]
    · by_cases b : version < 27 <;> simp [a, b]
  by_cases m2 : mode = 2
  · subst m2; simp at hk; subst hk
    by_cases a : version < 10
    · simp [a]
    · by_cases b : version < 27 <;> simp [a, b]
  by_cases m4 : mode = 4
  · subst m4; simp at hk; subst hk
    by_cases a : version < 10
    · simp [a]
    · by_cases b : version < 27 <;> simp [a, b]
  by_cases m8 : mode = 8
  · subst m8; simp at hk; subst hk
    by_cases a : version < 10
    · simp [a]
    · by_cases b : version < 27 <;> simp [a, b]
  · simp [m1, m2, m4, m8] at hk

theorem countBits_le (k v : Nat) : QR.countBits k v ≤ 16 := by
  unfold QR.countBits
  by_cases a : v < 10
  · match k with
    | 0 => simp [a]
    | 1 => simp [a]
    | 2 => simp [a]
    | _ + 3 => simp [a]
  · by_cases b : v < 27
    · match k with
      | 0 => simp [a, b]
      | 1 => simp [a, b]
      | 2 => simp [a, b]
      | _ + 3 => simp [a, b]
    · match k with
      | 0 => simp [a, b]
      | 1 => simp [a, b]
      | 2 => simp [a, b]
      | _ + 3 => simp [a, b]

/-! ### segments -/

/-- a segment as `Spec.Valid.QR.Valid` wants it, for version `v` -/
def SegOK (v : Nat) (s : Segment) : Prop :=
  ∃ k, QR.kindOf s.mode = some k ∧ ValidData k s.data ∧ count k s.data < 2 ^ QR.countBits k v

theorem alnum_valid (ch : Nat) (h : isAlphanumeric ch = true) : ch < 256 ∧ (Spec.Codec.alnumValue ch).isSome = true := by
  obtain ⟨i, hi, hi45, hc⟩ := Lemmas.Codec.alnum_roundtrip ch h
  refine ⟨?_, by rw [hi]; rfl⟩
  have := alnum_chars i hi45
  have hm : alnumChar i ∈ Spec.Codec.alnumChars := List.mem_of_getElem? this.symm
  rw [hc] at hm
  exact Lemmas.Codec.alnumChars_lt ch hm

/-- one segment: mode indicator already read -/
theorem decodeSegment_sat (mode : Nat) (version : Int) (h1 : 1 ≤ version) (h40 : version ≤ 40)
    (hm : mode = 1 ∨ mode = 2 ∨ mode = 4 ∨ mode = 8) (b : Buffer) (hr : b.read < 8) :
    Sat (Model.QR.decodeSegment mode version b) (fun p => After b p.1 ∧ SegOK version.toNat p.2) := by
  obtain ⟨k, hk⟩ : ∃ k, QR.kindOf mode = some k := by
    unfold QR.kindOf; rcases hm with rfl | rfl | rfl | rfl <;> simp
  unfold Model.QR.decodeSegment
  rw [countBits_spec mode k hk version h1 h40]
  dsimp only
  have hcb := countBits_le k version.toNat
  refine Sat.bind (rd_sat b hr _ (by omega)) ?_
  rintro ⟨b1, len⟩ ⟨ha, hlen, -⟩
  dsimp only at hlen ⊢
  unfold Model.QR.modeNumeric Model.QR.modeAlphanumeric Model.QR.modeBytes
  by_cases m1 : mode = 1
  · subst m1
    have hk0 : k = 0 := by simp [QR.kindOf] at hk; omega
    subst hk0
    rw [if_pos rfl]
    refine Sat.bind (P := fun p => After b1 p.1 ∧ p.2.length = len ∧ ∀ ch ∈ p.2, isNumeric ch = true) ?_ ?_
    · unfold decodeNumeric
      have hs := decodeNumeric_go_sat len b1 #[] ha.read
      cases e : decodeNumeric.go b1 #[] len with
      | ok p =>
        rw [e] at hs
        obtain ⟨f1, f2⟩ := Lemmas.Codec.decodeNumeric_go_sound len b1 #[] p.1 p.2 e
        exact ⟨hs, by simpa using f1, fun ch hch => (f2 ch hch).resolve_left (by simp)⟩
      | err m => exact trivial
      | panic m => rw [e] at hs; exact hs
    · rintro ⟨b2, data⟩ ⟨ha2, hl, hd⟩
      refine ⟨ha.trans ha2, 0, hk, ⟨?_, ?_⟩, ?_⟩
      · intro x hx
        have := (Lemmas.Codec.isNumeric_iff x).1 (hd x hx); omega
      · intro x hx
        exact (Lemmas.Codec.isNumeric_iff x).1 (hd x hx)
      · simp only [count]; rw [if_neg (by decide)]; dsimp only at hl; omega
  by_cases m2 : mode = 2
  · subst m2
    have hk0 : k = 1 := by simp [QR.kindOf] at hk; omega
    subst hk0
    rw [if_neg (by decide), if_pos rfl]
    refine Sat.bind (P := fun p => After b1 p.1 ∧ p.2.length = len ∧ ∀ ch ∈ p.2, isAlphanumeric ch = true) ?_ ?_
    · unfold decodeAlphanumeric
      have hs := decodeAlphanumeric_go_sat len b1 #[] ha.read
      cases e : decodeAlphanumeric.go b1 #[] len with
      | ok p =>
        rw [e] at hs
        obtain ⟨f1, f2⟩ := Lemmas.Codec.decodeAlphanumeric_go_sound len b1 #[] p.1 p.2 e
        exact ⟨hs, by simpa using f1, fun ch hch => (f2 ch hch).resolve_left (by simp)⟩
      | err m => exact trivial
      | panic m => rw [e] at hs; exact hs
    · rintro ⟨b2, data⟩ ⟨ha2, hl, hd⟩
      refine ⟨ha.trans ha2, 1, hk, ⟨?_, ?_⟩, ?_⟩
      · intro x hx
        exact (alnum_valid x (hd x hx)).1
      · intro x hx
        exact (alnum_valid x (hd x hx)).2
      · simp only [count]; rw [if_neg (by decide)]; dsimp only at hl; omega
  by_cases m4 : mode = 4
  · subst m4
    have hk0 : k = 2 := by simp [QR.kindOf] at hk; omega
    subst hk0
    rw [if_neg (by decide), if_neg (by decide), if_pos rfl]
    refine Sat.bind (decodeBytes_go_sat len b1 #[] ha.read) ?_
    rintro ⟨b2, data⟩ ⟨ha2, l, hl, hlt, he⟩
    dsimp only at he
    have he' : data = l := by simpa using he
    subst he'
    refine ⟨ha.trans ha2, 2, hk, ⟨hlt, trivial⟩, ?_⟩
    simp only [count]; rw [if_neg (by decide)]; omega
  · have m8 : mode = 8 := by omega
    subst m8
    have hk0 : k = 3 := by simp [QR.kindOf] at hk; omega
    subst hk0
    rw [if_neg (by decide), if_neg (by decide), if_neg (by decide)]
    refine Sat.bind (decodeKanji_go_sat len b1 #[] ha.read) ?_
    rintro ⟨b2, data⟩ ⟨ha2, rs, hl, hrs, he⟩
    dsimp only at he
    have he' : data = rs.flatMap encodeRune := by simpa using he
    subst he'
    -- every character is an assigned character of the reference table
    have hok : ∀ r ∈ rs, KanjiChar r ∧ runeOK r = true := by
      intro r hr
      obtain ⟨hr0, code, hc, hd⟩ := hrs r hr
      have href : refAt code = r := by
        rcases Lemmas.Codec.decode_cases code hc with ⟨_, h⟩ | ⟨h, _⟩
        · rw [h] at hd; exact Option.some.inj hd
        · rw [h] at hd; cases hd
      refine ⟨⟨hr0, code, hc, href⟩, ?_⟩
      have := kanji_runes_ok code hc
      rw [href] at this
      simpa [hr0] using this
    have hrunes := runes_flatMap rs (fun r hr => (hok r hr).2)
    refine ⟨ha.trans ha2, 3, hk, ⟨?_, ?_, ?_⟩, ?_⟩
    · intro x hx
      obtain ⟨r, hr, hxr⟩ := List.mem_flatMap.mp hx
      exact (runeOK_decode r (hok r hr).2 []).2.2 x hxr
    · rw [hrunes]; exact fun r hr => (hok r hr).1
    · rw [hrunes]
    · simp only [count, ↓reduceIte]; rw [hrunes]; omega

/-- the segment loop: a fuel above the number of unread bits is never exhausted -/
theorem segmentLoop_sat (version : Int) (h1 : 1 ≤ version) (h40 : version ≤ 40) (fuel : Nat) :
    ∀ (b : Buffer) (acc : Array Segment), b.read < 8 → rem b < fuel →
      (∀ s ∈ acc.toList, SegOK version.toNat s) →
      Sat (Model.QR.segmentLoop version fuel b acc) (fun segs => ∀ s ∈ segs, SegOK version.toNat s) := by
  induction fuel with
  | zero => intro b acc _ h; omega
  | succ fuel ih =>
    intro b acc hr hrem hacc
    rw [Model.QR.segmentLoop]
    rcases readBits_cases b hr 4 (by decide) with ⟨e, _⟩ | ⟨b1, mode, e, ha, hv, hlt⟩
    · rw [show ((4 : Nat) : Int) = 4 from rfl] at e
      rw [e]; exact hacc
    · rw [show ((4 : Nat) : Int) = 4 from rfl] at e
      rw [e]
      simp only [Out.bind_ok]
      have hlt' := hlt (by decide)
      unfold Model.QR.modeNumeric Model.QR.modeAlphanumeric Model.QR.modeBytes Model.QR.modeKanji
        Model.QR.modeTerminated
      split
      · rename_i hm
        refine Sat.bind (decodeSegment_sat mode version h1 h40 hm b1 ha.read) ?_
        rintro ⟨b2, seg⟩ ⟨ha2, hseg⟩
        refine ih b2 _ ha2.read (by have := ha2.rem; dsimp only at this; omega) ?_
        intro s hs
        rw [Array.toList_push, List.mem_append, List.mem_singleton] at hs
        rcases hs with hs | rfl
        · exact hacc s hs
        · exact hseg
      · split
        · exact hacc
        · exact ih b1 acc ha.read (by omega) hacc

end QRV.Lemmas.Dec
