import QRV.Lemmas.C03MicroFormat
import QRV.Props.C11
/-
The format information of a Micro QR symbol, as a word:
* the raw word read from the clean symbol is the code word `Gen.Micro.encodedFormat[4 * f + mask]`, f the symbol
  number of (version, level) (from the format modules exposed by the round trip, `roundtrip_exposed`);
* a raw word within two modules of that code word decodes to (version, level, mask) (C11).
-/
open QRV QRV.Model QRV.Model.Bitmap QRV.Model.Sym QRV.Props QRV.Props.C18 QRV.Model.Bits QRV.Spec.Bits
open QRV.Spec.Valid QRV.Spec.BCH
namespace QRV.Lemmas.MRT

/-- the raw format word of the clean symbol is the code word of (symbol number of (version, level), mask) -/
theorem clean_format_word (v l : Nat) (mask : Int) (segments : List Segment) (hp : (v, l) ∈ pairs)
    (hs : ∀ s ∈ segments, SegOK v s)
    (hfit : (segments.map fun s => Spec.Valid.Micro.segBits s v).sum ≤ (capOf v l).dataBits)
    (hne : ∀ s ∈ segments, s.data ≠ []) (hm1 : -1 ≤ mask) (hm3 : mask ≤ 3)
    (img : Image) (m : Nat)
    (henc : Model.Micro.encodeToBitmap { version := v, level := l, mask := mask, segments := segments } = .ok img)
    (hmask : Model.Micro.decodeBitmap img = .ok { version := v, level := l, mask := (m : Int), segments := segments }) :
    ∃ f c, f < 8 ∧ m < 4 ∧ Gen.Micro.rawFormatTable[f]? = some ((v : Int), (l : Int)) ∧
      Gen.Micro.encodedFormat[4 * f + m]? = some c ∧ readRawM img = .ok c := by
  obtain ⟨f, m0, c, data, fbuf, sl0, img4, hf8, hm4, hraw, hc, -, -, -, -, -, -, -, -,
    henc0, hr4, hfc4, -, -, hdec0⟩ := roundtrip_exposed v l mask segments hp hs hfit hne hm1 hm3
  rw [henc] at henc0
  cases henc0
  rw [hmask] at hdec0
  have hmm : m = m0 := by
    have := congrArg (fun o => match o with | Out.ok (q : QRCode) => q.mask | _ => 0) hdec0
    simp only at this
    omega
  subst hmm
  obtain ⟨hv1, -⟩ := pair_facts v l hp
  exact ⟨f, c, hf8, hm4, hraw, hc, readRawM_spec img _ hr4 (by omega) c (micro_format_lt _ c hc)
    (fun i hi => (hfc4 i hi).1) (fun i hi => (hfc4 i hi).2)⟩

/-- C11 applied to a raw word: within two modules of the code word of (symbol number f, mask m) it decodes to the
(version, level) pair of f and to mask m -/
theorem decodeFormat_of_word (raw' f m c : Nat) (vl : Int × Int) (hf : f < 8) (hm : m < 4)
    (hc : Gen.Micro.encodedFormat[4 * f + m]? = some c) (hvl : Gen.Micro.rawFormatTable[f]? = some vl)
    (h : hamming raw' c ≤ 2) :
    Model.Micro.decodeFormat raw' = .ok (some (vl.1, vl.2, (m : Int))) := by
  obtain ⟨v', l', htab, hdec⟩ := C11.micro_nearest raw' (4 * f + m) c (by omega) hc h
  have e1 : (4 * f + m) >>> 2 = f := by rw [Nat.shiftRight_eq_div_pow]; omega
  have e2 : (4 * f + m) &&& 3 = m := by
    rw [show (3 : Nat) = 2 ^ 2 - 1 by decide, Nat.and_two_pow_sub_one_eq_mod]; omega
  rw [e1] at htab
  rw [e2] at hdec
  rw [hvl] at htab
  cases htab
  exact hdec

end QRV.Lemmas.MRT
