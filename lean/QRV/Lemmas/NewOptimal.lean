import QRV.Lemmas.NewQRValid
import QRV.Lemmas.NewOptimalAbs
/-
C05 (too large): the mode-selection programme `newQRSegs` with the QR header costs returns a
segmentation whose standard bit length at version 40 is at most `4 + 16 + 8 * n`, the length of the
payload as one byte segment.  The filled table satisfies the minimality / realisation relations
(`Tab`), the back-tracking follows the `lastMode` links (`back3_link`), the merged segments have the
bit length of the runs of the mode sequence (`segs_acc`); the arithmetic is `NewOptimalAbs.total_le`.
-/
namespace QRV.Lemmas.NewOptimal
open QRV QRV.Model QRV.Model.Sym QRV.Model.New QRV.Model.Codec QRV.Spec.Valid QRV.Lemmas.NewDP
  QRV.Lemmas.NewOptimalAbs

/-- the cost that `trans` reads at row `k`, entry `m` (entry 0 is 0 in row 0 and `inf` later) -/
def rS (S : Array (Array St)) (k m : Nat) : Nat :=
  if m = 0 then (if k = 0 then 0 else inf) else (g3 S k m).cost

structure Tab (data : Array Nat) (i : Nat) (S : Array (Array St)) : Prop where
  r0 : ∀ m, 1 ≤ m → m ≤ 3 → (g3 S 0 m).cost = inf
  t1 : ∀ k m, k < i → 1 ≤ m → m ≤ 3 → classT m data[k]! → ∀ m', m' ≤ 3 →
    rS S (k + 1) m ≤ rS S k m' + U m + (if m' ≠ m then H m else 0)
  t2 : ∀ k m, k < i → 1 ≤ m → m ≤ 3 → (g3 S (k + 1) m).cost < inf →
    (g3 S (k + 1) m).lastMode ≤ 3 ∧
    (g3 S (k + 1) m).cost = rS S k (g3 S (k + 1) m).lastMode + U m +
      (if (g3 S (k + 1) m).lastMode ≠ m then H m else 0)

theorem tab_init (data : Array Nat) : Tab data 0 (init3 data.size) := by
  refine ⟨?_, fun k m hk => by omega, fun k m hk => by omega⟩
  intro m h1 h3
  unfold init3
  rw [g3_modify, if_pos ⟨rfl, by simp⟩]
  simp only [get!_set!, size_set!]
  have : m = 3 ∨ m = 2 ∨ m = 1 := by omega
  rcases this with rfl | rfl | rfl <;> simp

theorem tab_step (data : Array Nat) (i : Nat) (S : Array (Array St)) (hi : i < data.size)
    (hI : Inv3 120 data i S) (hT : Tab data i S) :
    Tab data (i + 1) (fillStep3 108 102 120 data i S) := by
  obtain ⟨row, hrow, hg⟩ := fillStep3_desc 108 102 120 data i S hi hI
  have hold : ∀ k m, k ≤ i → 1 ≤ m → g3 (fillStep3 108 102 120 data i S) k m = g3 S k m := by
    intro k m hk hm
    rw [hg, if_neg (by omega), if_neg (by omega), if_neg (by omega), if_neg (by omega)]
  have hrS : ∀ k m, k ≤ i → rS (fillStep3 108 102 120 data i S) k m = rS S k m := by
    intro k m hk
    unfold rS
    by_cases hm : m = 0
    · rw [if_pos hm, if_pos hm]
    · rw [if_neg hm, if_neg hm, hold k m hk (by omega)]
  have hrow' : ∀ m', (row[m']!).cost = rS S i m' := by
    intro m'
    rw [hrow]
    unfold rS
    by_cases hm : m' = 0
    · subst hm
      by_cases h0 : i = 0
      · subst h0
        rw [if_neg (by omega), if_pos rfl, if_pos rfl]
        exact hI.row0
      · rw [if_pos ⟨rfl, h0⟩, if_pos rfl, if_neg h0]
    · rw [if_neg (by omega), if_neg hm]
  -- the new entries
  have hnew : ∀ m, 1 ≤ m → m ≤ 3 →
      (classT m data[i]! → g3 (fillStep3 108 102 120 data i S) (i + 1) m = trans3 row m (U m) (H m)) ∧
      ((g3 (fillStep3 108 102 120 data i S) (i + 1) m).cost < inf →
        g3 (fillStep3 108 102 120 data i S) (i + 1) m = trans3 row m (U m) (H m)) := by
    intro m h1 h3
    have : m = 3 ∨ m = 2 ∨ m = 1 := by omega
    rcases this with rfl | rfl | rfl
    · rw [hg, if_pos ⟨rfl, rfl⟩]
      exact ⟨fun _ => rfl, fun _ => rfl⟩
    · rw [hg, if_neg (by omega), if_pos ⟨rfl, rfl⟩]
      by_cases hal : isAlphanumeric data[i]! = true
      · rw [if_pos hal]; exact ⟨fun _ => rfl, fun _ => rfl⟩
      · rw [if_neg hal]
        exact ⟨fun hc => absurd (hc.2 rfl) hal, fun hc => absurd hc (Nat.lt_irrefl _)⟩
    · rw [hg, if_neg (by omega), if_neg (by omega), if_pos ⟨rfl, rfl⟩]
      by_cases hnu : isNumeric data[i]! = true
      · rw [if_pos hnu]; exact ⟨fun _ => rfl, fun _ => rfl⟩
      · rw [if_neg hnu]
        exact ⟨fun hc => absurd (hc.1 rfl) hnu, fun hc => absurd hc (Nat.lt_irrefl _)⟩
  refine ⟨?_, ?_, ?_⟩
  · intro m h1 h3
    rw [hold 0 m (Nat.zero_le _) h1]; exact hT.r0 m h1 h3
  · intro k m hk h1 h3 hc m' hm'
    by_cases hki : k < i
    · rw [hrS (k + 1) m (by omega), hrS k m' (by omega)]
      exact hT.t1 k m hki h1 h3 hc m' hm'
    · have hk' : k = i := by omega
      subst hk'
      rw [hrS k m' (Nat.le_refl _)]
      have e : rS (fillStep3 108 102 120 data k S) (k + 1) m = (trans3 row m (U m) (H m)).cost := by
        unfold rS; rw [if_neg (by omega), (hnew m h1 h3).1 hc]
      rw [e, ← hrow']
      exact (trans3_spec row m (U m) (H m)).2.2 m' hm'
  · intro k m hk h1 h3 hc
    by_cases hki : k < i
    · rw [hold (k + 1) m (by omega) h1] at hc ⊢
      rw [hrS k _ (by omega)]
      exact hT.t2 k m hki h1 h3 hc
    · have hk' : k = i := by omega
      subst hk'
      rw [hrS k _ (Nat.le_refl _)]
      have e := (hnew m h1 h3).2 hc
      rw [e] at hc ⊢
      obtain ⟨hl3, hceq⟩ := (trans3_spec row m (U m) (H m)).2.1 hc
      refine ⟨hl3, ?_⟩
      rw [← hrow']
      exact hceq

theorem tab_fill (data : Array Nat) :
    Inv3 120 data data.size (fill3 108 102 120 data) ∧ Tab data data.size (fill3 108 102 120 data) := by
  unfold fill3
  exact forIn_id_range (fillM3 108 102 120 data) (fun i S => Inv3 120 data i S ∧ Tab data i S) 0 data.size _
    (Nat.zero_le _) ⟨inv3_init 120 data, tab_init data⟩
    (fun k S _ hk hI => ⟨_, fillM3_eq _ _ _ _ _ _, inv3_step 108 102 120 data k S hk hI.1,
      tab_step data k S hk hI.1 hI.2⟩)

/-- the back-tracking follows the `lastMode` links and starts at `bm` -/
theorem back3_link (S : Array (Array St)) (n bm : Nat) (hn : 1 ≤ n) :
    (back3 S n bm)[n - 1]! = bm ∧
    ∀ j, 1 ≤ j → j < n → (back3 S n bm)[j - 1]! = (g3 S (j + 1) (back3 S n bm)[j]!).lastMode := by
  have := forIn_id_range (backM3 S n)
    (fun k s => k ≤ n - 1 ∧ s.2.size = n ∧ s.1 = s.2[n - 1 - k]! ∧ s.2[n - 1]! = bm ∧
      ∀ j, n - k ≤ j → j < n → s.2[j - 1]! = (g3 S (j + 1) s.2[j]!).lastMode)
    0 (n - 1) (bm, (Array.replicate n 0).set! (n - 1) bm) (Nat.zero_le _) ?_ ?_
  · obtain ⟨_, _, _, h1, h2⟩ := this
    exact ⟨h1, fun j hj1 hjn => h2 j (by omega) hjn⟩
  · have hsz : ((Array.replicate n 0).set! (n - 1) bm).size = n := by rw [size_set!]; simp
    have hg : ((Array.replicate n 0).set! (n - 1) bm)[n - 1]! = bm := by
      rw [get!_set!, if_pos ⟨rfl, by simp; omega⟩]
    refine ⟨Nat.zero_le _, hsz, ?_, hg, fun j h1 h2 => by omega⟩
    simp only [Nat.sub_zero]
    exact hg.symm
  · intro k s _ hk ⟨_, hsz, h1, hb, hall⟩
    refine ⟨_, rfl, ?_⟩
    have e1 : n - 1 - k + 1 = n - k := by omega
    simp only [e1]
    refine ⟨by omega, by rw [size_set!]; exact hsz, ?_, ?_, ?_⟩
    · rw [get!_set!, if_pos ⟨by omega, by omega⟩]
    · rw [get!_set!, if_neg (by omega)]; exact hb
    · intro j hj1 hj2
      have hA : (s.2.set! (n - 1 - k - 1) (g3 S (n - k) s.1).lastMode)[j]! = s.2[j]! := by
        rw [get!_set!, if_neg (by omega)]
      show (s.2.set! (n - 1 - k - 1) (g3 S (n - k) s.1).lastMode)[j - 1]! =
        (g3 S (j + 1) (s.2.set! (n - 1 - k - 1) (g3 S (n - k) s.1).lastMode)[j]!).lastMode
      rw [hA, get!_set!]
      by_cases hj : j = n - 1 - k
      · rw [if_pos ⟨by omega, by omega⟩, hj, ← h1, e1]
      · rw [if_neg (by omega)]
        exact hall j (by omega) hj2

/-- the costs along the back-tracked path are finite -/
theorem back3_finite (data : Array Nat) (S : Array (Array St)) (bm : Nat) (hne : data.size ≠ 0)
    (hI : Inv3 120 data data.size S) (hbm : 1 ≤ bm ∧ bm ≤ 3) (hc : (g3 S data.size bm).cost < inf) :
    ∀ t, t < data.size → (g3 S (data.size - t) (back3 S data.size bm)[data.size - 1 - t]!).cost < inf := by
  obtain ⟨hlast, hlink⟩ := back3_link S data.size bm (by omega)
  have hspec := back3_spec 120 data S bm hne hI hbm hc
  intro t
  induction t with
  | zero => intro _; simp only [Nat.sub_zero]; rw [hlast]; exact hc
  | succ t ih =>
    intro ht
    have h0 := ih (by omega)
    obtain ⟨b1, b3, _⟩ := hspec (data.size - 1 - t) (by omega)
    have hg := (hI.good (data.size - t) _ (by omega) (by omega) b1 b3 h0).2 (by omega)
    have hl := hlink (data.size - 1 - t) (by omega) (by omega)
    rw [show data.size - 1 - t + 1 = data.size - t by omega] at hl
    rw [show data.size - (t + 1) = data.size - t - 1 by omega,
      show data.size - 1 - (t + 1) = data.size - 1 - t - 1 by omega, hl]
    exact hg.2.2

theorem pick3_min (last : Array St) :
    ∀ m, 1 ≤ m → m ≤ 3 → (last[pick3 last]!).cost ≤ (last[m]!).cost := by
  intro m h1 h3
  have : m = 1 ∨ m = 2 ∨ m = 3 := by omega
  unfold pick3
  rcases this with rfl | rfl | rfl <;> split <;> split <;> omega

theorem numeric_alnum : ∀ ch, isNumeric ch = true → isAlphanumeric ch = true := by
  have h : (List.range 58).all (fun ch => !isNumeric ch || isAlphanumeric ch) = true := by decide +kernel
  intro ch hn
  have hr := (Lemmas.Codec.isNumeric_iff ch).1 hn
  have := List.all_eq_true.1 h ch (List.mem_range.2 (by omega))
  rw [hn] at this
  simpa using this

/-- mode of the state after `j` characters on the back-tracked path -/
def mdOf (bs : Array Nat) (j : Nat) : Nat := if j = 0 then 0 else bs[j - 1]!

theorem path_of_fill (data : Array Nat) (hne : data.size ≠ 0) (hsz : data.size < 2 ^ 56) :
    Path data.size (rS (fill3 108 102 120 data))
      (mdOf (back3 (fill3 108 102 120 data) data.size (pick3 (fill3 108 102 120 data)[data.size]!)))
      (fun k => isNumeric data[k]! = true) (fun k => isAlphanumeric data[k]! = true) := by
  obtain ⟨hI, hT⟩ := tab_fill data
  generalize fill3 108 102 120 data = S at hI hT ⊢
  have hp := pick3_spec S[data.size]!
  have hpm := pick3_min S[data.size]!
  generalize hbm : pick3 S[data.size]! = bm at hp hpm ⊢
  have hb := hI.bytes data.size (by omega) (Nat.le_refl _)
  have hbm13 : 1 ≤ bm ∧ bm ≤ 3 := by omega
  have hc : (g3 S data.size bm).cost < inf := by
    have e3 : (g3 S data.size 3).cost = ((S[data.size]!)[3]!).cost := rfl
    have ep : (g3 S data.size bm).cost = ((S[data.size]!)[bm]!).cost := rfl
    have : 120 + 48 * data.size < inf := by unfold inf; omega
    omega
  have hspec := back3_spec 120 data S bm hne hI hbm13 hc
  have hfin := back3_finite data S bm hne hI hbm13 hc
  obtain ⟨hlast, hlink⟩ := back3_link S data.size bm (by omega)
  generalize back3 S data.size bm = bs at hspec hfin hlast hlink ⊢
  have hfin' : ∀ k, k < data.size → (g3 S (k + 1) bs[k]!).cost < inf := by
    intro k hk
    have := hfin (data.size - 1 - k) (by omega)
    rwa [show data.size - (data.size - 1 - k) = k + 1 by omega,
      show data.size - 1 - (data.size - 1 - k) = k by omega] at this
  refine ⟨?_, rfl, ?_, (fun k => numeric_alnum data[k]!), ?_, ?_, ?_⟩
  · unfold rS; rw [if_pos rfl, if_pos rfl]
  · intro j h1 hn
    unfold mdOf
    rw [if_neg (by omega)]
    obtain ⟨a, b, _⟩ := hspec (j - 1) (by omega)
    exact ⟨a, b⟩
  · intro k m hk h1 h3 hnum hal m' hm'
    exact hT.t1 k m hk h1 h3 ⟨hnum, hal⟩ m' hm'
  · intro k hk
    obtain ⟨b1, b3, hcl⟩ := hspec k hk
    have hmd1 : mdOf bs (k + 1) = bs[k]! := by unfold mdOf; rw [if_neg (by omega), Nat.add_sub_cancel]
    rw [hmd1]
    obtain ⟨hl3, hceq⟩ := hT.t2 k bs[k]! hk b1 b3 (hfin' k hk)
    have hlm : (g3 S (k + 1) bs[k]!).lastMode = mdOf bs k := by
      unfold mdOf
      by_cases hk0 : k = 0
      · subst hk0
        rw [if_pos rfl]
        apply Nat.eq_zero_of_not_pos
        intro hpos
        have hr : rS S 0 (g3 S (0 + 1) bs[0]!).lastMode = inf := by
          unfold rS
          rw [if_neg (by omega)]
          exact hT.r0 _ hpos hl3
        rw [hr] at hceq
        have := hfin' 0 hk
        omega
      · rw [if_neg hk0]
        exact (hlink k (by omega) hk).symm
    rw [hlm] at hceq
    refine ⟨?_, hcl.1, hcl.2⟩
    unfold rS at hceq ⊢
    rw [if_neg (by omega)]
    exact hceq
  · intro m h1 h3
    have hmdn : mdOf bs data.size = bm := by unfold mdOf; rw [if_neg hne]; exact hlast
    rw [hmdn]
    unfold rS
    rw [if_neg (by omega), if_neg (by omega)]
    exact hpm m h1 h3

/-! ### the merged segments have the bit length of the runs -/

theorem totalBits_append (l1 l2 : List Segment) (v : Nat) :
    Lemmas.CalcVersion.totalBits (l1 ++ l2) v =
      Lemmas.CalcVersion.totalBits l1 v + Lemmas.CalcVersion.totalBits l2 v := by
  unfold Lemmas.CalcVersion.totalBits
  rw [List.map_append, List.sum_append]

theorem totalBits_single (a : Segment) (v : Nat) :
    Lemmas.CalcVersion.totalBits [a] v = Spec.Valid.QR.segBits a v := by
  unfold Lemmas.CalcVersion.totalBits
  simp

theorem ml_get (m : Nat) (h1 : 1 ≤ m) (h3 : m ≤ 3) :
    ([0, 1, 2, 4] : List Nat)[m]?.getD 0 = if m = 1 then 1 else if m = 2 then 2 else 4 := by
  have : m = 1 ∨ m = 2 ∨ m = 3 := by omega
  rcases this with rfl | rfl | rfl <;> rfl

theorem ml_inj (m m' : Nat) (h1 : 1 ≤ m) (h3 : m ≤ 3) (h1' : 1 ≤ m') (h3' : m' ≤ 3) :
    ([0, 1, 2, 4] : List Nat)[m]?.getD 0 = ([0, 1, 2, 4] : List Nat)[m']?.getD 0 ↔ m = m' := by
  rw [ml_get m h1 h3, ml_get m' h1' h3']
  have : m = 1 ∨ m = 2 ∨ m = 3 := by omega
  have : m' = 1 ∨ m' = 2 ∨ m' = 3 := by omega
  constructor
  · intro h; split at h <;> split at h <;> (try split at h) <;> (try split at h) <;> omega
  · intro h; rw [h]

theorem segBits_run (a : Segment) (m : Nat) (h1 : 1 ≤ m) (h3 : m ≤ 3)
    (ha : a.mode = ([0, 1, 2, 4] : List Nat)[m]?.getD 0) : Spec.Valid.QR.segBits a 40 = runBits m a.data.length := by
  rw [ml_get m h1 h3] at ha
  have : m = 1 ∨ m = 2 ∨ m = 3 := by omega
  rcases this with rfl | rfl | rfl
  · have ha' : a.mode = 1 := ha
    simp (config := { decide := true }) [Spec.Valid.QR.segBits, Spec.Valid.QR.kindOf, Spec.Valid.QR.countBits, bodyBits, count, runBits, ha']
  · have ha' : a.mode = 2 := ha
    simp (config := { decide := true }) [Spec.Valid.QR.segBits, Spec.Valid.QR.kindOf, Spec.Valid.QR.countBits, bodyBits, count, runBits, ha']
  · have ha' : a.mode = 4 := ha
    simp (config := { decide := true }) [Spec.Valid.QR.segBits, Spec.Valid.QR.kindOf, Spec.Valid.QR.countBits, bodyBits, count, runBits, ha']

theorem segs_acc (ml : List Nat) (hml : ml = [0, 1, 2, 4]) (data bs : Array Nat) (n : Nat)
    (hbs : ∀ j, j < n → 1 ≤ bs[j]! ∧ bs[j]! ≤ 3) :
    ∀ j, 1 ≤ j → j ≤ n → ∃ l a,
      ((List.range j).map fun i => (bs[i]!, [data[i]!])).foldl (mstep ml) [] = l ++ [a] ∧
      a.mode = ml[mdOf bs j]?.getD 0 ∧ a.data.length = (acc (mdOf bs) j).2 ∧
      Lemmas.CalcVersion.totalBits l 40 = (acc (mdOf bs) j).1 := by
  subst hml
  have hmd : ∀ j, mdOf bs (j + 1) = bs[j]! := by
    intro j; unfold mdOf; rw [if_neg (by omega), Nat.add_sub_cancel]
  intro j
  induction j with
  | zero => intro h; omega
  | succ j ih =>
    intro _ hjn
    have hb := hbs j (by omega)
    by_cases hj : j = 0
    · subst hj
      refine ⟨[], { mode := ([0, 1, 2, 4] : List Nat)[bs[0]!]?.getD 0, data := [data[0]!] }, rfl, ?_, ?_, ?_⟩
      · rw [hmd]
      · show 1 = (if mdOf bs (0 + 1) = mdOf bs 0 then _ else _ : Nat × Nat).2
        rw [if_neg (by rw [hmd]; show bs[0]! ≠ 0; omega)]
      · show 0 = (if mdOf bs (0 + 1) = mdOf bs 0 then _ else _ : Nat × Nat).1
        rw [if_neg (by rw [hmd]; show bs[0]! ≠ 0; omega)]
        rfl
    · obtain ⟨l, a, hfold, hmode, hlen, htot⟩ := ih (by omega) (by omega)
      have hbp := hbs (j - 1) (by omega)
      have hmdj : mdOf bs j = bs[j - 1]! := by unfold mdOf; rw [if_neg hj]
      rw [List.range_succ, List.map_append, List.foldl_append, hfold]
      simp only [List.map_cons, List.map_nil, List.foldl_cons, List.foldl_nil]
      rw [mstep_concat]
      have hacc : acc (mdOf bs) (j + 1) =
          if mdOf bs (j + 1) = mdOf bs j then ((acc (mdOf bs) j).1, (acc (mdOf bs) j).2 + 1)
          else ((acc (mdOf bs) j).1 + runBits (mdOf bs j) (acc (mdOf bs) j).2, 1) := rfl
      by_cases heq : mdOf bs (j + 1) = mdOf bs j
      · have hm : a.mode = ([0, 1, 2, 4] : List Nat)[bs[j]!]?.getD 0 := by
          rw [hmode, heq.symm, hmd]
        rw [if_pos hm, hacc, if_pos heq]
        refine ⟨l, { a with data := a.data ++ [data[j]!] }, rfl, ?_, ?_, htot⟩
        · show a.mode = _
          rw [hmd]; exact hm
        · show (a.data ++ [data[j]!]).length = _
          rw [List.length_append, hlen]; rfl
      · have hm : ¬ a.mode = ([0, 1, 2, 4] : List Nat)[bs[j]!]?.getD 0 := by
          rw [hmode, hmdj]
          intro h
          have := (ml_inj _ _ hbp.1 hbp.2 hb.1 hb.2).1 h
          exact heq (by rw [hmd, hmdj]; exact this.symm)
        rw [if_neg hm, hacc, if_neg heq]
        refine ⟨l ++ [a], { mode := ([0, 1, 2, 4] : List Nat)[bs[j]!]?.getD 0, data := [data[j]!] }, rfl, ?_, rfl, ?_⟩
        · rw [hmd]
        · rw [totalBits_append, totalBits_single, htot]
          show _ + _ = _ + _
          rw [segBits_run a (mdOf bs j) (by rw [hmdj]; exact hbp.1) (by rw [hmdj]; exact hbp.2) hmode, hlen]

/-- the standard bit length at version 40 of the segmentation that `New` (QR, no kanji) chooses is
at most the length of the payload as one byte segment -/
theorem newQR_total_le (data : Array Nat) (hne : data.size ≠ 0) (hsz : data.size < 2 ^ 56) :
    Lemmas.CalcVersion.totalBits (newQRSegs ((4 + 14) * 6) ((4 + 13) * 6) ((4 + 16) * 6) [0, 1, 2, 4] data) 40 ≤
      4 + 16 + 8 * data.size := by
  show Lemmas.CalcVersion.totalBits (newQRSegs 108 102 120 [0, 1, 2, 4] data) 40 ≤ 4 + 16 + 8 * data.size
  have hP := path_of_fill data hne hsz
  have htot := total_le hP (by omega)
  rw [newQRSegs_eq]
  unfold finish3
  rw [mergeSegs_eq]
  obtain ⟨l, a, hfold, hmode, hlen, hcl⟩ := segs_acc [0, 1, 2, 4] rfl data
    (back3 (fill3 108 102 120 data) data.size (pick3 (fill3 108 102 120 data)[data.size]!)) data.size
    (fun j hj => by
      have := hP.mdr (j + 1) (by omega) (by omega)
      unfold mdOf at this
      rwa [if_neg (by omega), Nat.add_sub_cancel] at this)
    data.size (by omega) (Nat.le_refl _)
  rw [hfold, totalBits_append, totalBits_single, hcl]
  have hm := hP.mdr data.size (by omega) (Nat.le_refl _)
  rw [segBits_run a _ hm.1 hm.2 hmode, hlen]
  unfold total at htot
  omega

/-! ### `New` does not report "too large" when one byte segment fits version 40 -/

theorem cap40_le : (List.range 4).all (fun l => decide (Spec.Tables.dataCodewords 40 l ≤ 2956)) = true := by
  decide +kernel

theorem new_tail_ok (level : Int) (segs : List Segment) (v : Nat)
    (hv : Model.QR.calcVersion level segs = .ok (v : Int)) (hv0 : v ≠ 0) :
    ∃ q, (do
      let version ← Model.QR.calcVersion level segs
      if version = 0 then Out.err (α := Unit) "qrcode: data too large"
      pure ({ version, level, mask := Gen.QR.c_maskAuto, segments := segs } : QRCode)) = .ok q := by
  rw [hv]
  simp only [Out.bind_ok]
  split
  · rename_i h; omega
  · exact ⟨_, rfl⟩

theorem qr_new_not_too_large (level : Int) (hl : Model.QR.levelIsValid level = true) (data : List Nat)
    (_hb : ∀ b ∈ data, b < 256)
    (hfit : 4 + 16 + 8 * data.length ≤ 8 * Spec.Tables.dataCodewords 40 level.toNat) :
    ∃ q, Model.QR.new level false data = .ok q := by
  obtain ⟨l, hl4, rfl⟩ := Lemmas.NewQRValid.level_of_valid hl
  simp only [Int.toNat_natCast] at hfit
  have hcap := of_decide_eq_true (List.all_eq_true.1 cap40_le l (List.mem_range.2 hl4))
  unfold Model.QR.new
  simp only []
  split
  · rename_i hlv
    rw [hl] at hlv
    cases hlv
  · split
    · exact ⟨_, rfl⟩
    · rename_i he
      have hne : data ≠ [] := by simpa using he
      have hsize : data.toArray.size ≠ 0 := by
        simp only [List.size_toArray]
        intro h0
        exact hne (List.eq_nil_of_length_eq_zero h0)
      have hsz : data.toArray.size < 2 ^ 56 := by
        simp only [List.size_toArray]; omega
      simp only [Bool.false_eq_true, if_false, false_and, and_false]
      have hmodes : ∀ s ∈ newQRSegs ((4 + 14) * 6) ((4 + 13) * 6) ((4 + 16) * 6) [0, 1, 2, 4] data.toArray,
          s.mode = 1 ∨ s.mode = 2 ∨ s.mode = 4 ∨ s.mode = 8 := by
        intro s hs
        have := (newQR_valid_QR' data.toArray hsize hsz s hs).1
        omega
      obtain ⟨v, hv, _, _, hzero⟩ := Lemmas.CalcVersion.qr_calcVersion_minimal l hl4 _ hmodes
      apply new_tail_ok (l : Int) _ v hv
      intro hv0
      have h1 := hzero hv0 40 (by omega) (by omega)
      rw [Lemmas.NewQRValid.capBits_eq 40 l (by omega) (by omega) hl4] at h1
      have h2 := newQR_total_le data.toArray hsize hsz
      simp only [List.size_toArray] at h2
      omega

end QRV.Lemmas.NewOptimal
