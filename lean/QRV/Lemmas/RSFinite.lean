import QRV.Model.RS
import QRV.Spec.RS
/-
Finite facts about the 67 generated coders, each established by kernel evaluation over the whole
range n = 2..68: the tap constants extracted by the translator are the logarithms of the
coefficients of g_n computed from the definition, every coefficient is non-zero (so its logarithm
is meaningful), and α^0..α^(n-1) are roots of g_n.
-/
namespace QRV.Lemmas.RS
open QRV.Model QRV.Spec.RS QRV.Spec.GF

set_option maxRecDepth 100000

/-- the translator matched every coder against the generator's template -/
theorem template_matched : Gen.RS.templateMatched = true := by decide

theorem coders_len : Gen.RS.codersLen = 69 := by decide

/-- taps n = log of the non-leading coefficients of g_n -/
def tapsOK (n : Nat) : Bool :=
  RS.tapsOf n == (genPoly n).tail.map GF.logT &&
  (genPoly n).head? == some 1 &&
  (genPoly n).all (fun c => c != 0 && c < 256) &&
  (genPoly n).length == n + 1

theorem taps_are_generator : ∀ n, 2 ≤ n → n ≤ 68 → tapsOK n = true := by
  have h : ∀ n < 69, 2 ≤ n → tapsOK n = true := by decide +kernel
  intro n h2 h68; exact h n (by omega) h2

/-- α^i, i < n, are roots of the monic polynomial whose lower coefficients are α^taps -/
def rootsOK (n : Nat) : Bool :=
  let g := 1 :: (RS.tapsOf n).map GF.expT
  (RS.tapsOf n).length == n && (RS.tapsOf n).all (· < 255) &&
  (List.range n).all fun i => strict (pow2 i) fun r => evalS g r == 0

theorem gen_roots : ∀ n, 2 ≤ n → n ≤ 68 → rootsOK n = true := by
  have h : ∀ n < 69, 2 ≤ n → rootsOK n = true := by decide +kernel
  intro n h2 h68; exact h n (by omega) h2

end QRV.Lemmas.RS
