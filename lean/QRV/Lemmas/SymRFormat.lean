import QRV.Lemmas.RRFormat
import QRV.Lemmas.SymFormat
import QRV.Spec.SymbolRMQR
/-
The version-and-level information of the rMQR encoder, in full: after the format writes every
module of both copies (`Spec.Symbol.RMQR.formatBit1` / `formatBit2`) holds its bit of the masked word
and every other module is untouched.
-/
namespace QRV.Lemmas.SymRFormat
open QRV QRV.Model QRV.Model.Bitmap QRV.Model.Sym QRV.Props QRV.Props.C18 QRV.Lemmas.RT QRV.Lemmas.RR
open QRV.Spec.Symbol.RMQR

/-- every write carries the bit that the specification assigns to its module -/
theorem write_char (W H : Nat) (hW : 27 ≤ W) (hH : 7 ≤ H) (ef : Nat) (p : (Int × Int) × Bool)
    (hp : p ∈ fmtWrites ((W : Int) - 1) ((H : Int) - 1) ef) (x y : Nat) (he : p.1 = ((x : Int), (y : Int))) :
    (∃ i, formatBit1 x y = some i ∧ p.2 = (ef ^^^ Model.RMQR.fmtMask1).testBit i) ∨
    (formatBit1 x y = none ∧ ∃ i, formatBit2 W H x y = some i ∧ p.2 = (ef ^^^ Model.RMQR.fmtMask2).testBit i) := by
  rw [mem_fmtWrites] at hp
  rcases hp with ⟨j, hj, rfl⟩ | ⟨j, hj, rfl⟩ | rfl | rfl | rfl
  · left
    have h1 := congrArg Prod.fst he
    have h2 := congrArg Prod.snd he
    simp only at h1 h2
    refine ⟨j, ?_, rfl⟩
    unfold formatBit1
    rw [if_pos (by omega)]
    congr 1
    omega
  · right
    have h1 := congrArg Prod.fst he
    have h2 := congrArg Prod.snd he
    simp only at h1 h2
    refine ⟨?_, j, ?_, rfl⟩
    · unfold formatBit1
      rw [if_neg (by omega)]
    · unfold formatBit2
      rw [if_pos (by omega)]
      congr 1
      omega
  · right
    have h1 := congrArg Prod.fst he
    have h2 := congrArg Prod.snd he
    simp only at h1 h2
    refine ⟨?_, 15, ?_, rfl⟩
    · unfold formatBit1
      rw [if_neg (by omega)]
    · unfold formatBit2
      rw [if_neg (by omega), if_pos (by omega)]
      congr 1
      omega
  · right
    have h1 := congrArg Prod.fst he
    have h2 := congrArg Prod.snd he
    simp only at h1 h2
    refine ⟨?_, 16, ?_, rfl⟩
    · unfold formatBit1
      rw [if_neg (by omega)]
    · unfold formatBit2
      rw [if_neg (by omega), if_pos (by omega)]
      congr 1
      omega
  · right
    have h1 := congrArg Prod.fst he
    have h2 := congrArg Prod.snd he
    simp only at h1 h2
    refine ⟨?_, 17, ?_, rfl⟩
    · unfold formatBit1
      rw [if_neg (by omega)]
    · unfold formatBit2
      rw [if_neg (by omega), if_pos (by omega)]
      congr 1
      omega

/-- every module of the first copy is written -/
theorem write_ex1 (W H : Nat) (ef : Nat) (x y i : Nat) (h : formatBit1 x y = some i) :
    ∃ p ∈ fmtWrites ((W : Int) - 1) ((H : Int) - 1) ef, p.1 = ((x : Int), (y : Int)) := by
  unfold formatBit1 at h
  split at h
  · rename_i hc
    refine ⟨_, (mem_fmtWrites ..).2 (Or.inl ⟨(x - 8) * 5 + (y - 1), hc.2.2.2.2, rfl⟩), ?_⟩
    simp only [Prod.mk.injEq]
    omega
  · cases h

/-- every module of the second copy is written -/
theorem write_ex2 (W H : Nat) (hW : 27 ≤ W) (hH : 7 ≤ H) (ef : Nat) (x y i : Nat) (h : formatBit2 W H x y = some i) :
    ∃ p ∈ fmtWrites ((W : Int) - 1) ((H : Int) - 1) ef, p.1 = ((x : Int), (y : Int)) := by
  unfold formatBit2 at h
  split at h
  · rename_i hc
    refine ⟨_, (mem_fmtWrites ..).2 (Or.inr (Or.inl ⟨(x - (W - 8)) * 5 + (y - (H - 6)), by omega, rfl⟩)), ?_⟩
    simp only [Prod.mk.injEq]
    omega
  · split at h
    · rename_i hc
      have : x = W - 5 ∨ x = W - 4 ∨ x = W - 3 := by omega
      rcases this with hx | hx | hx
      · refine ⟨_, (mem_fmtWrites ..).2 (Or.inr (Or.inr (Or.inl rfl))), ?_⟩
        simp only [Prod.mk.injEq]; omega
      · refine ⟨_, (mem_fmtWrites ..).2 (Or.inr (Or.inr (Or.inr (Or.inl rfl)))), ?_⟩
        simp only [Prod.mk.injEq]; omega
      · refine ⟨_, (mem_fmtWrites ..).2 (Or.inr (Or.inr (Or.inr (Or.inr rfl)))), ?_⟩
        simp only [Prod.mk.injEq]; omega
    · cases h

/-- the format writes in full -/
theorem fmtWrites_full (W H : Nat) (hW : 27 ≤ W) (hH : 7 ≤ H) (img : Image) (hr : Regular img W H) (ef : Nat) :
    ∃ img', applyWrites (fmtWrites ((W : Int) - 1) ((H : Int) - 1) ef) img = .ok img' ∧ Regular img' W H ∧
      ∀ x y : Nat, x < W → y < H →
        px img' x y = match formatBit1 x y with
          | some i => (ef ^^^ Model.RMQR.fmtMask1).testBit i
          | none => match formatBit2 W H x y with
            | some i => (ef ^^^ Model.RMQR.fmtMask2).testBit i
            | none => px img x y := by
  obtain ⟨img', he, hr', hpx⟩ := writes_spec W H (fmtWrites ((W : Int) - 1) ((H : Int) - 1) ef) img hr
  refine ⟨img', he, hr', ?_⟩
  intro x y hx hy
  cases h1 : formatBit1 x y with
  | some i =>
    simp only
    refine (hpx x y hx hy).2 _ ?_ (write_ex1 W H ef x y i h1)
    intro p hp hpe
    rcases write_char W H hW hH ef p hp x y hpe with ⟨j, hj, hb⟩ | ⟨hn, -⟩
    · rw [h1] at hj
      injection hj with hj
      rw [hb, hj]
    · rw [h1] at hn; cases hn
  | none =>
    simp only
    cases h2 : formatBit2 W H x y with
    | some i =>
      simp only
      refine (hpx x y hx hy).2 _ ?_ (write_ex2 W H hW hH ef x y i h2)
      intro p hp hpe
      rcases write_char W H hW hH ef p hp x y hpe with ⟨j, hj, -⟩ | ⟨-, j, hj, hb⟩
      · rw [h1] at hj; cases hj
      · rw [h2] at hj
        injection hj with hj
        rw [hb, hj]
    | none =>
      simp only
      refine (hpx x y hx hy).1 ?_
      intro p hp hpe
      rcases write_char W H hW hH ef p hp x y hpe with ⟨j, hj, -⟩ | ⟨-, j, hj, -⟩
      · rw [h1] at hj; cases hj
      · rw [h2] at hj; cases hj

end QRV.Lemmas.SymRFormat
