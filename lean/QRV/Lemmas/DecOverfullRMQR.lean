import QRV.Lemmas.DecOverfullMicroRMQR
/-
C07 (finding D16, exact bound) — one segment and the segment loop of the rMQR decoder over an arbitrary byte buffer and
an arbitrary capacity row whose count indicators are 1 to 16 bits wide: whatever the loop returns needs fewer bits than
`8 * size` + (width of the last group read for the last segment).
-/
namespace QRV.Lemmas.DecOverfull
open QRV QRV.Model.Bits QRV.Model.Codec QRV.Model.Sym QRV.Model.Utf8 QRV.Spec.Valid QRV.Lemmas.Kanji QRV.Lemmas.Dec

/-- width of the last group the rMQR decoder read for a segment (the count field if the segment is empty) -/
def lastGrpR (c : Gen.GCap) (s : Segment) : Nat :=
  match RMQR.kindOf s.mode with
  | some k => if count k s.data = 0 then RMQR.countBits k c else lastG k (count k s.data)
  | none => 0

/-- the count indicators of the four modes are not empty -/
def CountPos (c : Gen.GCap) : Prop := ∀ k, k < 4 → 0 < RMQR.countBits k c

theorem lastGrpR_pos (c : Gen.GCap) (hp : CountPos c) (s : Segment) (hm : s.mode = 1 ∨ s.mode = 2 ∨ s.mode = 3 ∨ s.mode = 4) :
    0 < lastGrpR c s := by
  unfold lastGrpR RMQR.kindOf
  rw [if_pos (by omega)]
  dsimp only
  split
  · exact hp _ (by omega)
  · exact lastG_pos _ _

/-- one segment, mode indicator already read -/
theorem decodeSegmentR_over (mode : Nat) (c : Gen.GCap) (hbl : ∀ n ∈ c.bitLength, n ≤ 16)
    (hm : mode = 1 ∨ mode = 2 ∨ mode = 3 ∨ mode = 4) (b : Buffer) (N g : Nat) (hI : Inv N g b)
    (b' : Buffer) (seg : Segment) (e : Model.RMQR.decodeSegment mode c.bitLength b = .ok (b', seg)) :
    seg.mode = mode ∧ b'.buf = b.buf ∧
      Inv (N + RMQR.countBits (mode - 1) c + bodyBits (mode - 1) (count (mode - 1) seg.data)) (lastGrpR c seg) b' := by
  have hcb : c.bitLength[mode]?.getD 0 = RMQR.countBits (mode - 1) c := by
    unfold RMQR.countBits; rw [show mode - 1 + 1 = mode by omega]
  have hle : c.bitLength[mode]?.getD 0 ≤ 64 := by
    cases hg : c.bitLength[mode]? with
    | none => simp
    | some n => have := hbl n (List.mem_of_getElem? hg); simp; omega
  unfold Model.RMQR.decodeSegment at e
  obtain ⟨⟨b1, len⟩, e1, e2⟩ := bind_eq_ok e
  obtain ⟨hI1, hb1, -, -⟩ := rd_step N g _ hle b b1 len hI e1
  obtain ⟨⟨b2, data⟩, e3, e4⟩ := bind_eq_ok e2
  simp only [pure, Out.ok.injEq, Prod.mk.injEq] at e4
  obtain ⟨rfl, rfl⟩ := e4
  dsimp only at e3 ⊢
  have hbody : (if mode = Model.RMQR.modeNumeric then decodeNumeric b1 len
      else if mode = Model.RMQR.modeAlphanumeric then decodeAlphanumeric b1 len
      else if mode = Model.RMQR.modeBytes then decodeBytes b1 len
      else decodeKanji b1 len) = DecR.decodeKind (mode - 1) b1 len := by
    unfold DecR.decodeKind Model.RMQR.modeNumeric Model.RMQR.modeAlphanumeric Model.RMQR.modeBytes
    rcases hm with rfl | rfl | rfl | rfl <;> rfl
  rw [hbody] at e3
  obtain ⟨hc, hb2, hI2⟩ := decodeKind_over (mode - 1) (by omega) b1 _ _ hI1 len b2 data e3
  refine ⟨rfl, hb2.trans hb1, ?_⟩
  unfold lastGrpR RMQR.kindOf
  dsimp only
  rw [if_pos (by omega)]
  dsimp only
  rw [hc, ← hcb]
  exact hI2

/-- the segment loop over an arbitrary buffer: the description returned exceeds the `8 * size` bits of the buffer by
less than the last group read for its last segment -/
theorem segmentLoopR_over (c : Gen.GCap) (hbl : ∀ n ∈ c.bitLength, n ≤ 16) (hp : CountPos c) (fuel : Nat) :
    ∀ (b : Buffer) (acc : Array Segment),
      Inv (sumF (RMQR.segBits · c) acc.toList) (lastF (lastGrpR c) acc.toList) b →
      (∀ s ∈ acc.toList, 0 < lastGrpR c s) →
      ∀ segs, Model.RMQR.segmentLoop c.bitLength fuel b acc = .ok segs →
      ∀ s, segs.getLast? = some s → sumF (RMQR.segBits · c) segs < 8 * b.buf.size + lastGrpR c s := by
  induction fuel with
  | zero => intro b acc _ _ segs e; rw [Model.RMQR.segmentLoop] at e; cases e
  | succ fuel ih =>
    intro b acc hI hpos segs e s hs
    rw [Model.RMQR.segmentLoop] at e
    obtain ⟨⟨b1, r⟩, e1, e2⟩ := bind_eq_ok e
    cases r with
    | none =>
      simp only [pure, Out.ok.injEq] at e2
      subst e2
      exact stop_boundF _ _ b _ hI hpos s hs
    | some mode =>
      obtain ⟨hI1, hb1, hN, hmono, hlt⟩ := readBits_step _ _ 3 (by decide) b b1 mode hI
        (by rw [show ((3 : Nat) : Int) = 3 from rfl]; exact e1)
      dsimp only at e2
      unfold Model.RMQR.modeNumeric Model.RMQR.modeAlphanumeric Model.RMQR.modeBytes Model.RMQR.modeKanji
        Model.RMQR.modeTerminated at e2
      split at e2
      · rename_i hm
        obtain ⟨⟨b2, seg⟩, e3, e4⟩ := bind_eq_ok e2
        obtain ⟨hmode, hb2, hI2⟩ := decodeSegmentR_over mode c hbl hm b1 _ _ hI1 b2 seg e3
        have hk' : RMQR.kindOf seg.mode = some (mode - 1) := by
          rw [hmode]; unfold RMQR.kindOf; rw [if_pos (by omega)]
        have hsb : RMQR.segBits seg c =
            3 + RMQR.countBits (mode - 1) c + bodyBits (mode - 1) (count (mode - 1) seg.data) := by
          unfold RMQR.segBits; rw [hk']
        have := ih b2 (acc.push seg)
          (by rw [sumF_push, lastF_push, hsb]; exact hI2.cast (by omega) rfl)
          (pos_push _ acc seg hpos (lastGrpR_pos c hp seg (by rw [hmode]; exact hm)))
          segs e4 s hs
        rw [hb2, hb1] at this
        exact this
      · split at e2
        · simp only [pure, Out.ok.injEq] at e2
          subst e2
          exact stop_boundF _ _ b _ hI hpos s hs
        · cases e2

end QRV.Lemmas.DecOverfull
