import QRV.Lemmas.RTWalk
/-
Kernel evaluation of the module walk, versions 7, 12, 21, 29, 36: the model's fuel suffices and there is
room for all codewords (`checkV`, see `RTWalk`).
-/
namespace QRV.Lemmas.RT
set_option maxRecDepth 1000000

theorem walk_ok_7 : checkV 7 = true := by decide +kernel
theorem walk_ok_12 : checkV 12 = true := by decide +kernel
theorem walk_ok_21 : checkV 21 = true := by decide +kernel
theorem walk_ok_29 : checkV 29 = true := by decide +kernel
theorem walk_ok_36 : checkV 36 = true := by decide +kernel

end QRV.Lemmas.RT
