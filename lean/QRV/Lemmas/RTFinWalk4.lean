import QRV.Lemmas.RTWalk
/-
Kernel evaluation of the module walk, versions 8, 13, 20, 28, 37: the model's fuel suffices and there is
room for all codewords (`checkV`, see `RTWalk`).
-/
namespace QRV.Lemmas.RT
set_option maxRecDepth 1000000

theorem walk_ok_8 : checkV 8 = true := by decide +kernel
theorem walk_ok_13 : checkV 13 = true := by decide +kernel
theorem walk_ok_20 : checkV 20 = true := by decide +kernel
theorem walk_ok_28 : checkV 28 = true := by decide +kernel
theorem walk_ok_37 : checkV 37 = true := by decide +kernel

end QRV.Lemmas.RT
