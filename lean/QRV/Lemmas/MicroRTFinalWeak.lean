import QRV.Lemmas.MicroRTFinal
import QRV.Lemmas.MicroRTParseWeak
/-
The round trip of Micro QR M1-M4 under the weakest non-emptiness condition the decoder allows (no
empty numeric segment; in M4 no empty segment): `MicroRTFinal.roundtrip_core` with
`MicroRTParseWeak.segments_parse_weak` in place of `MicroRTParse.segments_parse`; everything else
(`pipeline`, `chooseMaskM_spec`, `finishM_spec`, `decode_spec`) is reused unchanged.
-/
namespace QRV.Lemmas.MRT
open QRV QRV.Model QRV.Model.Bitmap QRV.Model.Sym QRV.Props QRV.Props.C18 QRV.Model.Bits QRV.Spec.Bits
open QRV.Spec.Valid
open QRV.Lemmas.RT (parityOf parityOf_facts)

/-- the round trip, for descriptions without an empty numeric segment and (M4) without any empty segment -/
theorem roundtrip_core_weak (q : QRCode) (hv : Micro.Valid q)
    (hne : ∀ s ∈ q.segments, s.data = [] → s.mode ≠ 0 ∧ q.version ≠ 4) :
    ∃ img m, Model.Micro.encodeToBitmap q = .ok img ∧ (0 ≤ q.mask → m = q.mask) ∧ 0 ≤ m ∧ m ≤ 3 ∧
      Model.Micro.decodeBitmap img = .ok { q with mask := m } := by
  obtain ⟨v, l, hqv, hql, hp, hs, hfit⟩ := valid_fields q hv
  obtain ⟨version, level, mask, segments⟩ := q
  simp only at hqv hql hs hfit hne
  subst hqv hql
  obtain ⟨hm1, hm3⟩ := hv.mask
  simp only at hm1 hm3
  have hne' : ∀ s ∈ segments, s.data = [] → s.mode ≠ 0 ∧ v ≠ 4 := by
    intro s hs' he
    obtain ⟨h0, h4⟩ := hne s hs' he
    exact ⟨h0, by omega⟩
  obtain ⟨hv1, hv4, hl4, hcap, -, ⟨hD4, hDd, hd, h2, h68⟩, -, -⟩ := pair_facts v l hp
  obtain ⟨hbase, hused, hrb, hru, hbin, hfu⟩ := version_images v hv1 hv4
  obtain ⟨f, data, fbuf, sym, sl, hf8, hraw, hE, hbytes, hdl, hdb, hun, hsl, hsllen, hplace, hrs, hpx, hnone,
    hrange, hall⟩ := pipeline v l segments hp hs hfit
  obtain ⟨m, hm4, hch, hmeq, -⟩ := chooseMaskM_spec v hv4 mask hm1 hm3 sym _ hrs hru
  obtain ⟨c, img3, pat, img4, hfin, hc, hpat, hrp, hr3, hr4, hmask, hpx3, hfc⟩ :=
    finishM_spec v f m hv1 hv4 hf8 hm4 _ sym hru hrs
  obtain ⟨pl, pb, -, hdec⟩ := parityOf_facts (capOf v l).correction h2 h68 data hdb
  refine ⟨img4, (m : Int), by rw [hall mask hm1 hm3, hch]; exact hfin, hmeq, by omega, by omega, ?_⟩
  have hL : (segments.flatMap (segStream v)).length ≤ (capOf v l).dataBits := by
    rw [flatMap_segStream_length]; exact hfit
  refine decode_spec v l f m hv1 hv4 hf8 hm4 segments img3 img4 _ pat c sl fbuf.buf.toList data (capOf v l)
    hr3 hr4 hru hrp hmask hused hpat hbin hfu hc hraw hfc hcap hsl hsllen ?_
    (fun k c hk => ⟨(hrange k c hk).1, (hrange k c hk).2.1, (hrange k c hk).2.2.1, (hrange k c hk).2.2.2.1⟩)
    ?_ hnone ?_ ?_ ?_ ?_
  · intro b hb
    rw [hbytes] at hb
    rcases List.mem_append.mp hb with hb | hb
    · exact hdb b hb
    · exact pb b hb
  · intro k c' b hk hb
    obtain ⟨r1, r2, r3, r4, r5⟩ := hrange k c' hk
    have hcast : ∀ z : Int, 0 ≤ z → ((z.toNat : Nat) : Int) = z := fun z hz => Int.toNat_of_nonneg hz
    rw [hpx3 _ _ (by omega) (by omega) (by rw [hcast _ r1, hcast _ r3]; exact r5)]
    exact hpx k c' b hk hb
  · rw [hbytes]; exact hdec
  · rw [hbytes, ← hdl, List.take_left' rfl]
  · rw [hbytes, List.length_append]; omega
  · have hp' := segments_parse_weak v hv1 hv4 segments hs hne' _
      (mtail_ok (termLen v) (capOf v l).dataBits ((capOf v l).data * 8) (segments.flatMap (segStream v)).length)
      data hdb hun #[] ((capOf v l).data * 8 + 8) (by
        have := segs_length_le v segments hs
        omega)
    simpa using hp'

end QRV.Lemmas.MRT
