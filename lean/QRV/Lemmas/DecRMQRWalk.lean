import QRV.Lemmas.RTWalk
import QRV.Model.RMQR
/-
C06/C07 — rMQR: the zig-zag module walk of the decoder (`Model.RMQR.readLoop`) against a coordinate
list `walkR`, and a counting mirror `walkN` of the walk on natural numbers for kernel evaluation
(per version: the model's fuel suffices, and how many modules the walk offers).
-/
namespace QRV.Lemmas.DecR
open QRV QRV.Model QRV.Model.Bits QRV.Model.Bitmap QRV.Model.Sym QRV.Props QRV.Lemmas.RT
open QRV.Spec.Patterns (strict)

/-- the non-function modules in visiting order: same control flow as `Model.RMQR.readLoop`; `f x y`
says whether module (x, y) is a function module; `none` = fuel exhausted -/
def walkR (f : Int → Int → Bool) (h : Int) : (fuel : Nat) → Walk → Option (List (Int × Int))
  | 0, _ => none
  | fuel + 1, s =>
    let l1 : List (Int × Int) := if f s.x s.y then [] else [(s.x, s.y)]
    let x := s.x - 1
    if x < 1 then some l1
    else
      let l2 : List (Int × Int) := if f x s.y then [] else [(x, s.y)]
      let x := x + 1
      let y := s.y + s.dy
      let (x, y, dy) := if y < 1 ∨ y > h - 1 then (x - 2, y + (-s.dy), -s.dy) else (x, y, s.dy)
      if x < 1 then some (l1 ++ l2)
      else (walkR f h fuel { x, y, dy }).map (fun cs => l1 ++ l2 ++ cs)

/-- the reading loop appends the colours of the coordinates in order -/
theorem readLoopR_eq (used img : Image) (f g : Int → Int → Bool) (hf : ∀ x y, used.binaryAt x y = .ok (f x y))
    (hg : ∀ x y, img.binaryAt x y = .ok (g x y)) (h : Int) :
    ∀ (fuel : Nat) (s : Walk) (cs : List (Int × Int)) (buf : Buffer),
      walkR f h fuel s = some cs → C16.Inv buf →
      ∃ buf', RMQR.readLoop used img h fuel s buf = .ok buf' ∧ C16.Inv buf' ∧
        C16.abs buf' = C16.abs buf ++ cs.map (fun c => g c.1 c.2) := by
  intro fuel
  induction fuel with
  | zero => intro s cs buf h; simp [walkR] at h
  | succ fuel ih =>
    intro s cs buf hwalk hinv
    rw [walkR] at hwalk
    rw [RMQR.readLoop]
    rw [hf]; simp only [Out.bind_ok]
    simp only [] at hwalk
    obtain ⟨b1, hb1, hinv1, habs1⟩ := readCell img g hg (f s.x s.y) s.x s.y buf hinv
    rw [hb1]; simp only [Out.bind_ok]
    by_cases hx1 : s.x - 1 < 1
    · rw [if_pos hx1] at hwalk
      injection hwalk with hwalk
      subst hwalk
      rw [if_pos hx1]
      exact ⟨b1, rfl, hinv1, habs1⟩
    · rw [if_neg hx1] at hwalk
      rw [if_neg hx1, hf]; simp only [Out.bind_ok]
      obtain ⟨b2, hb2, hinv2, habs2⟩ := readCell img g hg (f (s.x - 1) s.y) (s.x - 1) s.y b1 hinv1
      rw [hb2]; simp only [Out.bind_ok]
      generalize (if s.y + s.dy < 1 ∨ s.y + s.dy > h - 1 then (s.x - 1 + 1 - 2, s.y + s.dy + -s.dy, -s.dy)
          else (s.x - 1 + 1, s.y + s.dy, s.dy)) = t at hwalk ⊢
      obtain ⟨nx, ny, ndy⟩ := t
      simp only [] at hwalk ⊢
      by_cases hnx : nx < 1
      · rw [if_pos hnx] at hwalk
        injection hwalk with hwalk
        rw [if_pos hnx]
        refine ⟨b2, rfl, hinv2, ?_⟩
        rw [habs2, habs1, ← hwalk, List.map_append, List.append_assoc]
      · rw [if_neg hnx] at hwalk
        rw [if_neg hnx]
        cases hw' : walkR f h fuel { x := nx, y := ny, dy := ndy } with
        | none => rw [hw'] at hwalk; cases hwalk
        | some cs' =>
          rw [hw'] at hwalk
          injection hwalk with hwalk
          obtain ⟨b3, hb3, hinv3, habs3⟩ := ih _ _ b2 hw' hinv2
          refine ⟨b3, hb3, hinv3, ?_⟩
          subst hwalk
          simp only [habs3, habs2, habs1, List.map_append, List.append_assoc]

/-! ### a counting mirror of the walk for kernel evaluation -/

/-- `BinaryAt` of the w x h image made from the rows: white outside -/
def fnOfR (rows : List Nat) (stride w h : Nat) (x y : Int) : Bool :=
  decide (0 ≤ x ∧ x < w ∧ 0 ≤ y ∧ y < h) && rowBit rows stride x.toNat y.toNat

/-- the walk on natural coordinates, counting only; `k = 8*stride-1`, `hh` = height - 1, `up` is `dy = -1` -/
def walkN (rows : List Nat) (k hh : Nat) : (fuel : Nat) → (x y : Nat) → (up : Bool) → (acc : Nat) → Option Nat
  | 0, _, _, _, _ => none
  | fuel + 1, x, y, up, acc =>
    strict (rows[y]?.getD 0) fun cur =>
    strict (if cur.testBit (k - x) then acc else acc + 1) fun a1 =>
    if x < 2 then some a1
    else
      strict (if cur.testBit (k - (x - 1)) then a1 else a1 + 1) fun a2 =>
      if up then
        if y < 2 then (if x < 3 then some a2 else walkN rows k hh fuel (x - 2) y false a2)
        else walkN rows k hh fuel x (y - 1) true a2
      else
        if hh < y + 2 then (if x < 3 then some a2 else walkN rows k hh fuel (x - 2) y true a2)
        else walkN rows k hh fuel x (y + 1) false a2

theorem fnOfR_nat (rows : List Nat) (stride w h x y : Nat) (hx : x < w) (hy : y < h) :
    fnOfR rows stride w h (x : Int) (y : Int) = rowBit rows stride x y := by
  unfold fnOfR
  have : (0 ≤ (x : Int) ∧ (x : Int) < w ∧ 0 ≤ (y : Int) ∧ (y : Int) < h) := by omega
  simp [this]

theorem walkN_eq (rows : List Nat) (stride W H hh : Nat) (hH : hh + 1 = H) :
    ∀ (fuel x y : Nat) (up : Bool) (acc : Nat) (s : Walk),
      s.x = x → s.y = y → s.dy = (if up then -1 else 1) → x < W → y ≤ hh →
      walkN rows (8 * stride - 1) hh fuel x y up acc =
        (walkR (fnOfR rows stride W H) (hh : Int) fuel s).map (fun cs => acc + cs.length) := by
  intro fuel
  induction fuel with
  | zero => intro x y up acc s _ _ _ _ _; rfl
  | succ fuel ih =>
    intro x y up acc s hsx hsy hsdy hxW hyh
    obtain ⟨sx, sy, sdy⟩ := s
    simp only at hsx hsy hsdy
    subst hsx hsy hsdy
    have hcell : ∀ x' : Nat, x' < W →
        fnOfR rows stride W H (x' : Int) (y : Int) = (rows[y]?.getD 0).testBit (8 * stride - 1 - x') := by
      intro x' hx'
      rw [fnOfR_nat rows stride W H x' y hx' (by omega)]
      rfl
    rw [walkN, walkR]
    simp only []
    rw [strict_eq, strict_eq, hcell x hxW]
    generalize hb1 : (rows[y]?.getD 0).testBit (8 * stride - 1 - x) = b1
    by_cases hx2 : x < 2
    · have h0 : (x : Int) - 1 < 1 := by omega
      rw [if_pos hx2, if_pos h0]
      cases b1 <;> rfl
    · have h0 : ¬ (x : Int) - 1 < 1 := by omega
      have e1 : (x : Int) - 1 = ((x - 1 : Nat) : Int) := by omega
      rw [if_neg hx2, if_neg h0, strict_eq, e1, hcell (x - 1) (by omega)]
      generalize hb2 : (rows[y]?.getD 0).testBit (8 * stride - 1 - (x - 1)) = b2
      generalize hL : ((if b1 = true then [] else [((x : Int), (y : Int))]) ++
        if b2 = true then [] else [(((x - 1 : Nat) : Int), (y : Int))]) = L
      generalize ha2 : (if b2 = true then if b1 = true then acc else acc + 1
        else (if b1 = true then acc else acc + 1) + 1) = a2
      have hLa : a2 = acc + L.length := by
        subst hL ha2; cases b1 <;> cases b2 <;> simp
      have fin : ∀ o : Option (List (Int × Int)),
          Option.map (fun cs => acc + cs.length) (Option.map (fun cs => L ++ cs) o) =
            Option.map (fun cs => a2 + cs.length) o := by
        intro o; cases o <;> simp [hLa, List.length_append, Nat.add_assoc]
      have fin0 : some a2 = Option.map (fun cs => acc + cs.length) (some L) := by
        simp [hLa]
      cases up with
      | true =>
        simp only [if_true]
        by_cases hy2 : y < 2
        · have ht : ((y : Int) + -1 < 1 ∨ (y : Int) + -1 > (hh : Int) - 1) := by omega
          rw [if_pos hy2, if_pos ht]
          simp only []
          by_cases hx3 : x < 3
          · have h1 : (((x - 1 : Nat) : Int) + 1 - 2 < 1) := by omega
            rw [if_pos hx3, if_pos h1]; exact fin0
          · have h1 : ¬ (((x - 1 : Nat) : Int) + 1 - 2 < 1) := by omega
            rw [if_neg hx3, if_neg h1, fin]
            exact ih (x - 2) y false a2 _ (by simp only; omega) (by simp only; omega) (by simp) (by omega) hyh
        · have ht : ¬ ((y : Int) + -1 < 1 ∨ (y : Int) + -1 > (hh : Int) - 1) := by omega
          rw [if_neg hy2, if_neg ht]
          simp only []
          have h1 : ¬ (((x - 1 : Nat) : Int) + 1 < 1) := by omega
          rw [if_neg h1, fin]
          exact ih x (y - 1) true a2 _ (by simp only; omega) (by simp only; omega) rfl hxW (by omega)
      | false =>
        simp only [Bool.false_eq_true, if_false]
        by_cases hy2 : hh < y + 2
        · have ht : ((y : Int) + 1 < 1 ∨ (y : Int) + 1 > (hh : Int) - 1) := by omega
          rw [if_pos hy2, if_pos ht]
          simp only []
          by_cases hx3 : x < 3
          · have h1 : (((x - 1 : Nat) : Int) + 1 - 2 < 1) := by omega
            rw [if_pos hx3, if_pos h1]; exact fin0
          · have h1 : ¬ (((x - 1 : Nat) : Int) + 1 - 2 < 1) := by omega
            rw [if_neg hx3, if_neg h1, fin]
            exact ih (x - 2) y true a2 _ (by simp only; omega) (by simp only; omega) (by simp) (by omega) hyh
        · have ht : ¬ ((y : Int) + 1 < 1 ∨ (y : Int) + 1 > (hh : Int) - 1) := by omega
          rw [if_neg hy2, if_neg ht]
          simp only []
          have h1 : ¬ (((x - 1 : Nat) : Int) + 1 < 1) := by omega
          rw [if_neg h1, fin]
          exact ih x (y + 1) false a2 _ (by simp only; omega) (by simp only; omega) rfl hxW (by omega)

end QRV.Lemmas.DecR

namespace QRV.Lemmas.DecR
open QRV QRV.Model QRV.Model.Bits QRV.Model.Bitmap QRV.Model.Sym QRV.Props QRV.Lemmas.RT
open QRV.Spec.Patterns

/-- the used-module bitmap of rMQR version v as generated -/
def usedGenR (v : Nat) : Gen.GBmp := Gen.RMQR.usedList[v]?.getD default

/-- is (x, y) a function module of rMQR version v (white outside the symbol) -/
def usedFnR (v : Nat) : Int → Int → Bool :=
  fnOfR (usedGenR v).rows (usedGenR v).stride (RMQR.width v) (RMQR.height v)

/-- the `Total` of the capacity rows of a version (both levels) -/
def rowTotals (v : Nat) : List Nat := (Gen.RMQR.capacityTable[v]?.getD []).map (·.total)

/-- the kernel-evaluated check of one version: the model's fuel suffices, and the bytes the walk
fills (the last one possibly partial) are at least the codewords of the version -/
def checkR (v : Nat) : Bool :=
  let g := usedGenR v
  let W := RMQR.width v
  let H := RMQR.height v
  g.rows.length == H && decide (6 ≤ H) && decide (2 ≤ W) &&
  match walkN g.rows (8 * g.stride - 1) (H - 1) ((W + 2) * (H + 2)) (W - 2) (H - 6) true 0 with
  | none => false
  | some c => (rowTotals v).all fun t => decide (t ≤ (c + 7) / 8)

/-- start state and fuel of the model's reading loop on a bitmap of the version's size -/
def startR (W H : Nat) : Walk := { x := (W : Int) - 1 - 1, y := (H : Int) - 1 - 5, dy := -1 }
def fuelR (W H : Nat) : Nat := (((W : Int) - 1 + 3) * ((H : Int) - 1 + 3)).toNat

theorem walk_of_checkR (v : Nat) (h : checkR v = true) :
    ∃ cs, walkR (usedFnR v) ((RMQR.height v : Int) - 1) (fuelR (RMQR.width v) (RMQR.height v))
        (startR (RMQR.width v) (RMQR.height v)) = some cs ∧
      ∀ t ∈ rowTotals v, t ≤ (cs.length + 7) / 8 := by
  unfold checkR at h
  simp only [Bool.and_eq_true, beq_iff_eq, decide_eq_true_eq] at h
  obtain ⟨⟨⟨hlen, hH⟩, hW⟩, h⟩ := h
  unfold usedFnR
  generalize RMQR.width v = W at *
  generalize RMQR.height v = H at *
  have hfuel : fuelR W H = (W + 2) * (H + 2) := by
    unfold fuelR
    have : ((W : Int) - 1 + 3) * ((H : Int) - 1 + 3) = (((W + 2) * (H + 2) : Nat) : Int) := by
      rw [Int.natCast_mul]; congr 1 <;> omega
    rw [this, Int.toNat_natCast]
  have key := walkN_eq (usedGenR v).rows (usedGenR v).stride W H (H - 1) (by omega)
    ((W + 2) * (H + 2)) (W - 2) (H - 6) true 0 (startR W H)
    (by simp only [startR]; omega) (by simp only [startR]; omega) rfl (by omega) (by omega)
  rw [hfuel]
  have hh : ((H - 1 : Nat) : Int) = (H : Int) - 1 := by omega
  rw [hh] at key
  rw [key] at h
  cases hw : walkR (fnOfR (usedGenR v).rows (usedGenR v).stride W H) ((H : Int) - 1)
      ((W + 2) * (H + 2)) (startR W H) with
  | none => rw [hw] at h; cases h
  | some cs =>
    rw [hw] at h
    simp only [Option.map_some, Nat.zero_add, List.all_eq_true, decide_eq_true_eq] at h
    exact ⟨cs, rfl, h⟩

end QRV.Lemmas.DecR
