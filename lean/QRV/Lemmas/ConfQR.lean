import QRV.Props.C02Symbol
import QRV.Props.C03QR
/-
C03 / C01, QR: any regular bitmap whose pixels are the standard's symbol of a valid description is
decoded to that description.  `C18.Regular` does not constrain the padding bits of the rows, so the
given bitmap need not be EQUAL to the library's output; the route is therefore pixel-wise: the
whole-symbol correction theorem `C03.qr_corrects_rated_damage` with zero damage, whose hypotheses
only speak of the modules inside the symbol, which `C02.qr_symbol_unique` identifies with those of
the library's output.
-/
namespace QRV.Lemmas.Conf
open QRV QRV.Model QRV.Model.Sym QRV.Model.Bitmap QRV.Spec.Valid QRV.Props

theorem qr_reads_conformant (q : QRCode) (hv : QR.Valid q) (m : Nat) (hm : m < 8) (img : Image)
    (hr : C18.Regular img (Spec.Patterns.QR.size q.version.toNat) (Spec.Patterns.QR.size q.version.toNat))
    (hs : Spec.Symbol.QR.IsSymbol q m (C18.px img)) :
    Model.QR.decodeBitmap img = .ok { q with mask := (m : Int) } := by
  obtain ⟨version, level, mask, segments⟩ := q
  -- the description with the explicit mask
  have hv' : QR.Valid { version := version, level := level, mask := (m : Int), segments := segments } :=
    ⟨hv.version, hv.level, ⟨by simp only; omega, by simp only; omega⟩, hv.segments, hv.fits⟩
  have hs' : Spec.Symbol.QR.IsSymbol { version := version, level := level, mask := (m : Int), segments := segments } m
      (C18.px img) := hs
  -- the library's symbol of it
  obtain ⟨img0, henc, hreg0, hsym0⟩ := C02.qr_symbol _ hv' m hm rfl
  have hpx := C02.qr_symbol_unique _ hv' m _ _ hs' hsym0
  obtain ⟨img1, m0, cap, buf, blks, cs, henc1, hm0, hmask, hcap, hbuf, hblks, hcs, hreg, hshape, hbytes, hcarry, hzero⟩ :=
    C03.hypotheses_satisfiable _ hv'
  rw [henc] at henc1
  cases henc1
  -- the mask the library used is the explicit one
  obtain ⟨img2, m2, henc2, hmeq, -, -, hdec2⟩ := C01.roundtrip_QR_any _ hv'
  rw [henc] at henc2
  cases henc2
  have hm2 : m2 = (m : Int) := hmeq (by simp only; omega)
  subst hm2
  rw [hmask] at hdec2
  have hmm : m0 = m := by
    have := congrArg (fun o => match o with | Out.ok (q : QRCode) => q.mask | _ => 0) hdec2
    simp only at this
    omega
  subst hmm
  simp only [Spec.Patterns.QR.size] at hr hpx
  have hv1 := hv.version.1
  simp only at hv1
  have hrange := (RT.walk_sound (RT.usedFn version.toNat) (16 + 4 * version) (by omega) _ cs hcs).2
  have h := C03.qr_corrects_rated_damage _ hv' img0 m0 henc hm hmask cap hcap buf hbuf blks hblks cs hcs img hr
    (fun x y hx hy _ => hpx x y hx hy) blks hshape hbytes
    (fun k hk hk' => by
      have hr' := hrange _ (List.getElem_mem hk')
      rw [hpx _ _ (by omega) (by omega)]
      exact hcarry k hk hk')
    (fun j hj _ => by rw [hzero j hj]; exact Nat.zero_le _)
  exact h

end QRV.Lemmas.Conf
