import QRV.Lemmas.RTStream
import QRV.Lemmas.RRDefs
import QRV.Lemmas.RRFinBlocks
/-
Round trip C01 (rMQR), the data bit stream, encoder side: a declarative description of the stream
(`segStream`, `streamTail`: 3-bit mode indicators, count widths from the capacity row, terminator
000 only when more than three bits are free) and the proof that `Model.RMQR.encodeSegments` writes
exactly that (`stream_layout`).  The decoder side is `RRParse.lean`.
-/
namespace QRV.Lemmas.RR
open QRV QRV.Model QRV.Model.Bits QRV.Model.Sym QRV.Model.Codec QRV.Spec.Bits QRV.Spec.Codec
open QRV.Spec.Valid QRV.Lemmas.Bits QRV.Lemmas.Codec QRV.Lemmas.Kanji QRV.Lemmas.RT
open QRV.Props

/-! ### the stream, declaratively -/

/-- one segment: 3 mode bits, the character count in the row's width, the data -/
def segStream (c : Gen.GCap) (s : Segment) : List Bool :=
  match RMQR.kindOf s.mode with
  | some k => bitsMSB s.mode 3 ++ bitsMSB (count k s.data) (RMQR.countBits k c) ++ bodyStream k s.data
  | none => []

/-- number of terminator bits: 000 is written only if MORE than three bits are free -/
def termBits (capBits len : Nat) : Nat := if capBits - len > 3 then 3 else 0

/-- what follows the segments: terminator, alignment, pad codewords up to the capacity -/
def streamTail (capBits len : Nat) : List Bool :=
  let t := termBits capBits len
  let z := alignBits (len + t)
  List.replicate (t + z) false ++ unpack (padBytes ((capBits - (len + t + z)) / 8))

/-- what the segment loop of the decoder may meet after the last segment: the end of the data, fewer
than three bits all of them zero, or three zero bits (then anything) -/
def TailOK (tail : List Bool) : Prop := ∀ b ∈ tail.take 3, b = false

/-- validity of one segment, as in `RMQR.Valid.segments` -/
def SegOK (c : Gen.GCap) (s : Segment) : Prop :=
  ∃ k, RMQR.kindOf s.mode = some k ∧ ValidData k s.data ∧ count k s.data < 2 ^ RMQR.countBits k c

/-- the count widths of a checked capacity row -/
def WidthsOK (c : Gen.GCap) : Prop := ∀ k, k < 4 → 1 ≤ RMQR.countBits k c ∧ RMQR.countBits k c ≤ 16

theorem widths_of_capOK (c : Gen.GCap) (h : capOK c = true) : WidthsOK c := by
  unfold capOK at h
  simp only [Bool.and_eq_true, beq_iff_eq, List.all_eq_true, decide_eq_true_eq] at h
  obtain ⟨⟨-, hlen⟩, hall⟩ := h
  intro k hk
  unfold RMQR.countBits
  have hlt : k + 1 < c.bitLength.length := by omega
  rw [List.getElem?_eq_getElem hlt, Option.getD_some]
  have hm : c.bitLength[k + 1] ∈ c.bitLength.drop 1 := by
    rw [List.mem_iff_getElem]
    exact ⟨k, by simp; omega, by simp⟩
  exact hall _ hm

/-! ### small facts -/

theorem kindOf_cases {m k : Nat} (h : RMQR.kindOf m = some k) :
    (m = 1 ∧ k = 0) ∨ (m = 2 ∧ k = 1) ∨ (m = 3 ∧ k = 2) ∨ (m = 4 ∧ k = 3) := by
  unfold RMQR.kindOf at h
  split at h
  · have := Option.some.inj h; omega
  · cases h

theorem kindOf_lt {m k : Nat} (h : RMQR.kindOf m = some k) : k < 4 := by
  rcases kindOf_cases h with ⟨-, rfl⟩ | ⟨-, rfl⟩ | ⟨-, rfl⟩ | ⟨-, rfl⟩ <;> decide

theorem kindOf_mode {m k : Nat} (h : RMQR.kindOf m = some k) : m = k + 1 := by
  rcases kindOf_cases h with ⟨rfl, rfl⟩ | ⟨rfl, rfl⟩ | ⟨rfl, rfl⟩ | ⟨rfl, rfl⟩ <;> rfl

theorem bodyStream_length' {m k : Nat} (h : RMQR.kindOf m = some k) (data : List Nat) :
    (bodyStream k data).length = bodyBits k (count k data) := by
  rcases kindOf_cases h with ⟨rfl, rfl⟩ | ⟨rfl, rfl⟩ | ⟨rfl, rfl⟩ | ⟨rfl, rfl⟩
  · exact numericBits_length data
  · exact alnumBits_length data
  · exact byteBits_length data
  · show (kanjiBits (kanjiCodes data)).length = _
    rw [kanjiBits_length, kanjiCodes_length]
    rfl

/-- the stream of a segment has the length the standard assigns to it -/
theorem segStream_length (c : Gen.GCap) (s : Segment) : (segStream c s).length = RMQR.segBits s c := by
  unfold segStream RMQR.segBits
  cases h : RMQR.kindOf s.mode with
  | none => rfl
  | some k =>
    simp only [List.length_append, length_bitsMSB, bodyStream_length' h]

theorem flatMap_segStream_length (c : Gen.GCap) (segs : List Segment) :
    (segs.flatMap (segStream c)).length = (segs.map fun s => RMQR.segBits s c).sum := by
  induction segs with
  | nil => rfl
  | cons s l ih => rw [List.flatMap_cons, List.length_append, ih, segStream_length, List.map_cons, List.sum_cons]

/-! ### one segment -/

/-- the body encoders write `bodyStream` -/
theorem encodeBody_layout {m k : Nat} (hk : RMQR.kindOf m = some k) (data : List Nat) (hd : ValidData k data)
    (b : Buffer) (h : C16.Inv b) :
    ∃ b', (if m = Model.RMQR.modeNumeric then encodeNumeric b data
        else if m = Model.RMQR.modeAlphanumeric then encodeAlphanumeric b data
        else if m = Model.RMQR.modeBytes then encodeBytes b data
        else encodeKanji b data) = .ok b' ∧ C16.Inv b' ∧ C16.abs b' = C16.abs b ++ bodyStream k data ∧
      b'.offset = b.offset ∧ b'.read = b.read := by
  rcases kindOf_cases hk with ⟨rfl, rfl⟩ | ⟨rfl, rfl⟩ | ⟨rfl, rfl⟩ | ⟨rfl, rfl⟩
  · rw [if_pos (by decide)]
    exact C17.encodeNumeric_layout b h data (valid_numeric hd)
  · rw [if_neg (by decide), if_pos (by decide)]
    exact C17.encodeAlphanumeric_layout b h data (valid_alnum hd)
  · rw [if_neg (by decide), if_neg (by decide), if_pos (by decide)]
    exact C17.encodeBytes_layout b h data
  · rw [if_neg (by decide), if_neg (by decide), if_neg (by decide)]
    exact C17.encodeKanji_layout b h data (valid_isKanji hd)

/-- a valid segment is accepted and written as `segStream` -/
theorem segEncode_layout (c : Gen.GCap) (hw : WidthsOK c) (s : Segment) (hs : SegOK c s)
    (b : Buffer) (h : C16.Inv b) :
    ∃ b', Model.RMQR.segEncode s c.bitLength b = .ok b' ∧ C16.Inv b' ∧
      C16.abs b' = C16.abs b ++ segStream c s ∧ b'.offset = b.offset ∧ b'.read = b.read := by
  obtain ⟨k, hk, hd, hc⟩ := hs
  have hmode : s.mode = Model.RMQR.modeNumeric ∨ s.mode = Model.RMQR.modeAlphanumeric ∨
      s.mode = Model.RMQR.modeBytes ∨ s.mode = Model.RMQR.modeKanji := by
    rcases kindOf_cases hk with ⟨e, -⟩ | ⟨e, -⟩ | ⟨e, -⟩ | ⟨e, -⟩ <;> rw [e] <;> decide
  have hcount : (if s.mode = Model.RMQR.modeKanji then Utf8.runeCount s.data else s.data.length) =
      count k s.data := by
    unfold count Utf8.runeCount
    rcases kindOf_cases hk with ⟨e, rfl⟩ | ⟨e, rfl⟩ | ⟨e, rfl⟩ | ⟨e, rfl⟩ <;> rw [e] <;> rfl
  have hbound : (if s.mode = Model.RMQR.modeKanji ∧ (!Model.RMQR.KANJI_COUNTS_BYTES) = true then
      Utf8.runeCount s.data else s.data.length) = count k s.data := by
    unfold count Utf8.runeCount
    rcases kindOf_cases hk with ⟨e, rfl⟩ | ⟨e, rfl⟩ | ⟨e, rfl⟩ | ⟨e, rfl⟩ <;> rw [e] <;> rfl
  have hwidth : c.bitLength[s.mode]?.getD 0 = RMQR.countBits k c := by
    unfold RMQR.countBits; rw [kindOf_mode hk]
  have hcb := hw k (kindOf_lt hk)
  unfold Model.RMQR.segEncode
  rw [if_pos hmode]
  simp only [hcount, hbound, hwidth]
  rw [if_neg (by omega)]
  obtain ⟨b₁, e₁, i₁, a₁, o₁, r₁⟩ := writeBits_int b h s.mode 3 (by decide)
  obtain ⟨b₂, e₂, i₂, a₂, o₂, r₂⟩ := writeBits_int b₁ i₁ (count k s.data) (RMQR.countBits k c) (by omega)
  obtain ⟨b₃, e₃, i₃, a₃, o₃, r₃⟩ := encodeBody_layout hk s.data hd b₂ i₂
  refine ⟨b₃, ?_, i₃, ?_, by omega, by omega⟩
  · have e₁' : writeBitsLSB b s.mode 3 = .ok b₁ := e₁
    rw [e₁']
    simp only [Out.bind_ok]
    rw [e₂]
    simp only [Out.bind_ok]
    exact e₃
  · rw [a₃, a₂, a₁, segStream, hk]
    simp only [List.append_assoc]

/-! ### the segment loop of the encoder -/

theorem segsEncode_layout (c : Gen.GCap) (hw : WidthsOK c) (segs : List Segment)
    (hs : ∀ s ∈ segs, SegOK c s) : ∀ (b : Buffer), C16.Inv b →
    ∃ b', forIn segs b (fun s (acc : Buffer) => do
          let buf ← Model.RMQR.segEncode s c.bitLength acc
          pure (ForInStep.yield buf)) = .ok b' ∧ C16.Inv b' ∧
      C16.abs b' = C16.abs b ++ segs.flatMap (segStream c) ∧ b'.offset = b.offset ∧ b'.read = b.read := by
  induction segs with
  | nil => intro b h; exact ⟨b, rfl, h, by simp, rfl, rfl⟩
  | cons s l ih =>
    intro b h
    obtain ⟨b₁, e₁, i₁, a₁, o₁, r₁⟩ := segEncode_layout c hw s (hs s (List.mem_cons_self ..)) b h
    obtain ⟨b₂, e₂, i₂, a₂, o₂, r₂⟩ := ih (fun x hx => hs x (List.mem_cons_of_mem _ hx)) b₁ i₁
    refine ⟨b₂, ?_, i₂, ?_, by omega, by omega⟩
    · rw [List.forIn_cons, e₁]
      exact e₂
    · rw [a₂, a₁, List.flatMap_cons, List.append_assoc]

/-! ### `encodeSegments` in stages -/

/-- terminator if more than three bits are free, then alignment and padding -/
def termStage (cap8 : Nat) (buf : Buffer) : Out Buffer :=
  if cap8 - buf.len > 3 then do
    let buf ← writeBitsLSB buf 0 3
    alignStage cap8 buf
  else alignStage cap8 buf

theorem encodeSegments_eq (q : QRCode) (b : Buffer) :
    Model.RMQR.encodeSegments q b = (do
      let cap ← capAt Gen.RMQR.capacityTable q.version q.level
      let s ← forIn q.segments b (fun s (acc : Buffer) => do
          let buf ← Model.RMQR.segEncode s cap.bitLength acc
          pure (ForInStep.yield buf))
      if s.len > cap.data * 8 then Out.err "qrcode: data is too large"
      else termStage (cap.data * 8) s) := by
  unfold Model.RMQR.encodeSegments termStage alignStage padStage
  simp only [Std.Legacy.Range.forIn_eq_forIn_range', Std.Legacy.Range.size, Model.RMQR.modeTerminated,
    Out.bind_err, Nat.sub_zero, Nat.add_sub_cancel, Nat.div_one]

/-- after the segments: exactly `streamTail`, and the buffer is full -/
theorem termStage_layout (cap8 : Nat) (hcap : cap8 % 8 = 0) (b : Buffer) (h : C16.Inv b)
    (hle : b.len ≤ cap8) :
    ∃ b', termStage cap8 b = .ok b' ∧ C16.Inv b' ∧
      C16.abs b' = C16.abs b ++ streamTail cap8 b.len ∧ b'.offset = b.offset ∧ b'.read = b.read := by
  unfold termStage streamTail
  by_cases h4 : cap8 - b.len > 3
  · rw [if_pos h4]
    have ht : termBits cap8 b.len = 3 := by unfold termBits; rw [if_pos h4]
    obtain ⟨b₁, e₁, i₁, a₁, o₁, r₁⟩ := writeBits_int b h 0 3 (by decide)
    have e₁' : writeBitsLSB b 0 3 = .ok b₁ := e₁
    have hl₁ : b₁.len = b.len + 3 := by
      rw [C16.len_eq b₁ i₁, a₁, List.length_append, length_bitsMSB, ← C16.len_eq b h]
    obtain ⟨b₂, e₂, i₂, a₂, o₂, r₂⟩ := alignStage_layout cap8 hcap b₁ i₁ (by omega)
    refine ⟨b₂, ?_, i₂, ?_, by omega, by omega⟩
    · rw [e₁']; exact e₂
    · simp only [ht]
      rw [a₂, a₁, hl₁, bitsMSB_zero, ← List.replicate_append_replicate]
      simp only [List.append_assoc]
  · rw [if_neg h4]
    have ht : termBits cap8 b.len = 0 := by unfold termBits; rw [if_neg h4]
    simp only [ht, Nat.add_zero, Nat.zero_add]
    exact alignStage_layout cap8 hcap b h hle

theorem streamTail_length (cap8 len : Nat) (hcap : cap8 % 8 = 0) (hle : len ≤ cap8) :
    len + (streamTail cap8 len).length = cap8 := by
  unfold streamTail
  simp only [List.length_append, List.length_replicate, length_unpack, padBytes_length]
  unfold termBits alignBits
  split <;> omega

/-- the tail is something the decoder's segment loop stops at -/
theorem streamTail_ok (cap8 len : Nat) (hcap : cap8 % 8 = 0) (hle : len ≤ cap8) :
    TailOK (streamTail cap8 len) := by
  unfold TailOK streamTail
  intro x hx
  by_cases h4 : cap8 - len > 3
  · have ht : termBits cap8 len = 3 := by unfold termBits; rw [if_pos h4]
    simp only [ht] at hx
    rw [List.take_append_of_le_length (by simp)] at hx
    exact List.eq_of_mem_replicate (List.mem_of_mem_take hx)
  · have ht : termBits cap8 len = 0 := by unfold termBits; rw [if_neg h4]
    have hz : (cap8 - (len + 0 + alignBits (len + 0))) / 8 = 0 := by unfold alignBits; omega
    simp only [ht, hz] at hx
    simp only [padBytes, List.range_zero, List.map_nil, unpack_nil, List.append_nil] at hx
    exact List.eq_of_mem_replicate (List.mem_of_mem_take hx)

/-! ### the capacity row of a valid (version, level) -/

theorem capAt_valid (v l : Nat) (hv : v < 32) (hl : l < 2) :
    ∃ cap, capAt Gen.RMQR.capacityTable (v : Int) (l : Int) = .ok cap ∧
      RMQR.row v l = some cap ∧ cap ∈ Gen.RMQR.capacityTable[v]?.getD [] ∧ capOK cap = true := by
  have h := rmqr_row_ok v l hv hl
  unfold rowCapOK at h
  split at h
  · cases h
  · rename_i c hc
    refine ⟨c, ?_, hc, List.mem_of_getElem? hc, h⟩
    unfold capAt
    rw [if_neg (by omega)]
    simp only [Int.toNat_natCast]
    cases hrow : Gen.RMQR.capacityTable[v]? with
    | none => rw [hrow] at hc; simp at hc
    | some row =>
      rw [hrow] at hc
      simp only [Option.getD_some] at hc
      simp only [hc]

/-! ### the whole stream -/

/-- `encodeSegments` accepts every valid description and writes the segment streams followed by
terminator, alignment and pad codewords up to exactly the data capacity of the symbol -/
theorem stream_layout (q : QRCode) (hv : RMQR.Valid q) (cap : Gen.GCap)
    (hrow : RMQR.row q.version.toNat q.level.toNat = some cap)
    (hcap : capAt Gen.RMQR.capacityTable q.version q.level = .ok cap) (hok : capOK cap = true) :
    ∃ buf, Model.RMQR.encodeSegments q {} = .ok buf ∧ C16.Inv buf ∧
      buf.len = 8 * cap.data ∧
      C16.abs buf = q.segments.flatMap (segStream cap) ++
        streamTail (8 * cap.data) (q.segments.flatMap (segStream cap)).length ∧
      buf.wrote = 0 ∧ buf.offset = 0 ∧ buf.read = 0 := by
  have hw := widths_of_capOK cap hok
  obtain ⟨b₁, e₁, i₁, a₁, o₁, r₁⟩ := segsEncode_layout cap hw q.segments (hv.segments cap hrow) {} C16.inv_empty
  rw [C16.abs_empty, List.nil_append] at a₁
  have hlen₁ : b₁.len = (q.segments.flatMap (segStream cap)).length := by rw [C16.len_eq b₁ i₁, a₁]
  have hfit : b₁.len ≤ 8 * cap.data := by
    rw [hlen₁, flatMap_segStream_length]
    exact hv.fits cap hrow
  obtain ⟨b₂, e₂, i₂, a₂, o₂, r₂⟩ := termStage_layout (8 * cap.data) (by omega) b₁ i₁ hfit
  have hlen₂ : b₂.len = 8 * cap.data := by
    rw [C16.len_eq b₂ i₂, a₂, List.length_append, ← C16.len_eq b₁ i₁]
    exact streamTail_length _ _ (by omega) hfit
  refine ⟨b₂, ?_, i₂, hlen₂, ?_, ?_, by rw [o₂, o₁], by rw [r₂, r₁]⟩
  · rw [encodeSegments_eq, hcap]
    simp only [Out.bind_ok]
    rw [e₁]
    simp only [Out.bind_ok]
    rw [if_neg (by omega), Nat.mul_comm]
    exact e₂
  · rw [a₂, a₁, hlen₁]
  · have := inv_len_mod b₂ i₂
    omega

end QRV.Lemmas.RR
