import QRV.Model.Micro
/-
C10 helpers: the generic strict-comparison scan and the Micro QR `autoMask` loop.
-/
namespace QRV.Lemmas.Enc
open QRV QRV.Model QRV.Model.Sym QRV.Model.Bitmap

/-- invariant of the strict `<` scan after the first `k` indices -/
theorem scan_prefix (ss : List Nat) (hne : ss ≠ []) (k : Nat) (hk : k ≤ ss.length) :
    let r := (List.range k).foldl (fun (acc : Nat × Nat) i => if ss[i]! < acc.2 then (i, ss[i]!) else acc) (0, ss[0]!)
    r.1 < ss.length ∧ r.2 = ss[r.1]! ∧ (∀ j, j < k → r.2 ≤ ss[j]!) ∧ (∀ j, j < r.1 → r.2 < ss[j]!) := by
  induction k with
  | zero =>
    have : 0 < ss.length := List.length_pos_iff.mpr hne
    exact ⟨this, rfl, fun j hj => absurd hj (by omega), fun j hj => absurd hj (Nat.not_lt_zero j)⟩
  | succ k ih =>
    have ih := ih (by omega)
    rw [List.range_succ, List.foldl_append]
    simp only [List.foldl_cons, List.foldl_nil]
    generalize (List.range k).foldl (fun (acc : Nat × Nat) i => if ss[i]! < acc.2 then (i, ss[i]!) else acc) (0, ss[0]!) = acc at ih
    obtain ⟨h1, h2, h3, h4⟩ := ih
    by_cases hlt : ss[k]! < acc.2
    · simp only [if_pos hlt]
      refine ⟨by omega, trivial, ?_, ?_⟩
      · intro j hj
        by_cases hjk : j = k
        · subst hjk; exact Nat.le_refl _
        · have := h3 j (by omega); omega
      · intro j hj
        have := h3 j hj; omega
    · simp only [if_neg hlt]
      refine ⟨h1, h2, ?_, h4⟩
      intro j hj
      by_cases hjk : j = k
      · subst hjk; omega
      · exact h3 j (by omega)

theorem first_min_scan (ss : List Nat) (hne : ss ≠ []) :
    let r := (List.range ss.length).foldl (fun (acc : Nat × Nat) i => if ss[i]! < acc.2 then (i, ss[i]!) else acc) (0, ss[0]!)
    r.1 < ss.length ∧ r.2 = ss[r.1]! ∧ (∀ j, j < ss.length → r.2 ≤ ss[j]!) ∧ (∀ j, j < r.1 → r.2 < ss[j]!) :=
  scan_prefix ss hne ss.length (Nat.le_refl _)

/-- one iteration of the Micro QR selection loop on an `.ok` score -/
def microStep (s : Int × Int) (i p : Nat) : Int × Int := if (p : Int) > s.1 then ((p : Int), (i : Int)) else s

/-- a `forIn` whose body is "compute a value (may fail), then update the state and continue":
if the loop is `.ok`, the head computation is `.ok` and the tail loop runs from the updated state -/
theorem forIn_cons_ok {σ α ι : Type} (g : ι → Out α) (st : σ → ι → α → σ) (i : ι) (l : List ι) (s r : σ)
    (h : forIn (i :: l) s (fun i s => g i >>= fun p => pure (ForInStep.yield (st s i p))) = Out.ok r) :
    ∃ p, g i = .ok p ∧ forIn l (st s i p) (fun i s => g i >>= fun p => pure (ForInStep.yield (st s i p))) = Out.ok r := by
  rw [List.forIn_cons] at h
  cases e : g i with
  | err _ => rw [e] at h; cases h
  | panic _ => rw [e] at h; cases h
  | ok p => rw [e] at h; exact ⟨p, rfl, h⟩

theorem micro_auto_is_argmax (img used : Image) (m : Int) (h : Model.Micro.autoMask img used = .ok m) :
    ∃ s0 s1 s2 s3 : Nat,
      Model.Micro.maskScore img used 0 = .ok s0 ∧ Model.Micro.maskScore img used 1 = .ok s1 ∧
      Model.Micro.maskScore img used 2 = .ok s2 ∧ Model.Micro.maskScore img used 3 = .ok s3 ∧
      0 ≤ m ∧ m ≤ 3 ∧
      (let ss := [s0, s1, s2, s3]
       ∀ j, j < 4 → ss[j]! ≤ ss[m.toNat]! ∧ (j < m.toNat → ss[j]! < ss[m.toNat]!)) := by
  unfold Model.Micro.autoMask at h
  have h4 : Gen.Micro.c_maskMax.toNat = 4 := rfl
  simp only [Std.Legacy.Range.forIn_eq_forIn_range', Std.Legacy.Range.size, h4] at h
  have hr : List.range' 0 ((4 - 0 + 1 - 1) / 1) = [0, 1, 2, 3] := by decide
  rw [hr] at h
  have hF : (fun (i : Nat) (__s : Int × Int) => (do
            let point ← Model.Micro.maskScore img used i
            if (point : Int) > __s.fst then pure (ForInStep.yield ((point : Int), (i : Int))) else pure (ForInStep.yield (__s.fst, __s.snd)) : Out (ForInStep (Int × Int)))) =
      fun i s => Model.Micro.maskScore img used i >>= fun p => pure (ForInStep.yield (microStep s i p)) := by
    funext i s
    congr 1
    funext p
    unfold microStep
    split <;> rfl
  rw [hF] at h
  cases hl : forIn [0, 1, 2, 3] ((-1 : Int), (0 : Int)) (fun i s => Model.Micro.maskScore img used i >>= fun p => pure (ForInStep.yield (microStep s i p))) with
  | err _ => rw [hl] at h; cases h
  | panic _ => rw [hl] at h; cases h
  | ok r =>
  rw [hl] at h
  obtain ⟨s0, e0, hl⟩ := forIn_cons_ok _ _ _ _ _ _ hl
  obtain ⟨s1, e1, hl⟩ := forIn_cons_ok _ _ _ _ _ _ hl
  obtain ⟨s2, e2, hl⟩ := forIn_cons_ok _ _ _ _ _ _ hl
  obtain ⟨s3, e3, hl⟩ := forIn_cons_ok _ _ _ _ _ _ hl
  rw [List.forIn_nil] at hl
  have hr : r = microStep (microStep (microStep (microStep (-1, 0) 0 s0) 1 s1) 2 s2) 3 s3 := by
    injection hl with hl; exact hl.symm
  have hm : m = r.2 := by injection h with h; exact h.symm
  refine ⟨s0, s1, s2, s3, e0, e1, e2, e3, ?_⟩
  rw [hm, hr]
  clear hF hl hr hm h e0 e1 e2 e3
  unfold microStep
  simp only []
  (repeat' split) <;> simp only [] at * <;>
    (refine ⟨by omega, by omega, fun j hj => ?_⟩
     match j, hj with
     | 0, _ | 1, _ | 2, _ | 3, _ => simp <;> omega)

end QRV.Lemmas.Enc
