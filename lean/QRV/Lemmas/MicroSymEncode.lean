import QRV.Lemmas.MicroSymFin
import QRV.Lemmas.C03MicroLift
import QRV.Props.C02
import QRV.Props.C14Complete
/-
The Micro QR encoder model emits the declarative symbol (`Spec.Symbol.Micro.IsSymbol`) of every
valid description: the stages of `encodeToBitmap` (stream, parity, placement, format information,
masking), each with its full effect on the pixels, assembled; and the specification determines the
symbol.
-/
open QRV QRV.Model QRV.Model.Bitmap QRV.Model.Sym QRV.Props QRV.Props.C18 QRV.Model.Bits QRV.Spec.Bits QRV.Spec.Valid
open QRV.Lemmas.RT (applyWrites writes_spec parityOf parityOf_facts rowBit rowBit_packRows ofGen_px fnOf)
open QRV.Lemmas.MRT QRV.Spec.Symbol.Micro
namespace QRV.Lemmas.MSym

/-! ### list helpers -/

/-- data module j of the placement order sits in slot j, or, after the `D`-th module, `P` slots later -/
theorem specSlots_get (dc : List (Nat × Nat)) (D P j : Nat) (hj : j < dc.length) :
    (specSlots dc D P)[if j < D then j else j + P]? = some (some (toI dc[j])) := by
  unfold specSlots
  by_cases h : j < D
  · rw [if_pos h, List.getElem?_append_left (by rw [List.length_map, List.length_take]; omega),
      List.getElem?_map, List.getElem?_take_of_lt h, List.getElem?_eq_getElem hj]
    rfl
  · rw [if_neg h]
    have hl : ((dc.take D).map (fun p => some (toI p))).length = D := by
      rw [List.length_map, List.length_take]; omega
    rw [List.getElem?_append_right (by omega), hl,
      List.getElem?_append_right (by rw [List.length_replicate]; omega), List.length_replicate,
      List.getElem?_map, List.getElem?_drop]
    have : D + (j + P - D - P) = j := by omega
    rw [this, List.getElem?_eq_getElem hj]
    rfl

/-- … and the stream bit of that slot is bit j of the data bits followed by the correction codewords -/
theorem bits_get (data par : List Nat) (D j : Nat) (hD : D ≤ 8 * data.length) :
    (unpack (data ++ par))[if j < D then j else j + (8 * data.length - D)]? =
      ((unpack data).take D ++ unpack par)[j]? := by
  have hlt : ((unpack data).take D).length = D := by
    rw [List.length_take, Lemmas.Bits.length_unpack]; omega
  rw [Lemmas.Bits.unpack_append]
  by_cases h : j < D
  · rw [if_pos h, List.getElem?_append_left (by rw [Lemmas.Bits.length_unpack]; omega),
      List.getElem?_append_left (by omega), List.getElem?_take_of_lt h]
  · rw [if_neg h, List.getElem?_append_right (by rw [Lemmas.Bits.length_unpack]; omega),
      List.getElem?_append_right (by omega), hlt, Lemmas.Bits.length_unpack]
    congr 1
    omega

/-! ### function modules, base pixels -/

theorem usedFn_nat (v x y : Nat) (hx : x < 9 + 2 * v) (hy : y < 9 + 2 * v) :
    usedFn v (x : Int) (y : Int) = rowBit (usedGen v).rows (usedGen v).stride x y := by
  unfold usedFn fnOf
  rw [decide_eq_true (by omega)]
  simp

theorem stride_of_regular (g : Gen.GBmp) (W H : Nat) (h : Regular (Image.ofGen g) W H) : g.stride = (W + 7) / 8 := by
  have := h.stride
  have e : (Image.ofGen g).stride = ((g.stride : Nat) : Int) := rfl
  rw [e] at this
  exact Int.ofNat.inj this

/-- rows of the generated bitmap of version v from the list equation of `C02.micro_function_patterns` -/
theorem rows_of_list (l : List Gen.GBmp) (F : Nat → List Nat)
    (h : (l.drop 1).map (·.rows) = (List.range 4).map (fun i => F (i + 1))) (v : Nat) (h1 : 1 ≤ v) (h4 : v ≤ 4) :
    (l[v]?.getD default).rows = F v := by
  have h' := congrArg (fun t => t[v - 1]?) h
  simp only [List.getElem?_map, List.getElem?_drop, List.getElem?_range (show v - 1 < 4 by omega)] at h'
  have e : 1 + (v - 1) = v := by omega
  have e' : v - 1 + 1 = v := by omega
  rw [e, Option.map_some, e'] at h'
  cases hg : l[v]? with
  | none => rw [hg] at h'; cases h'
  | some g =>
    rw [hg] at h'
    simp only [Option.map_some, Option.some.injEq] at h'
    exact h'

/-- the used-module bitmap of a valid version answers the declarative function-module predicate -/
theorem usedFn_isFunction (v : Nat) (h1 : 1 ≤ v) (h4 : v ≤ 4) (x y : Nat) (hx : x < 9 + 2 * v) (hy : y < 9 + 2 * v) :
    usedFn v (x : Int) (y : Int) = Spec.Patterns.Micro.isFunction v x y := by
  obtain ⟨-, -, -, hru, -, -⟩ := version_images v h1 h4
  have hrows : (usedGen v).rows = Spec.Patterns.Micro.usedRows v :=
    rows_of_list _ _ C02.micro_function_patterns.2.1 v h1 h4
  rw [usedFn_nat v x y hx hy, hrows, stride_of_regular _ _ _ hru]
  exact rowBit_packRows (Spec.Patterns.Micro.isFunction v) (9 + 2 * v) (9 + 2 * v) x y hx hy

/-- the base bitmap of a valid version holds the declarative function patterns -/
theorem base_px (v : Nat) (h1 : 1 ≤ v) (h4 : v ≤ 4) (x y : Nat) (hx : x < 9 + 2 * v) (hy : y < 9 + 2 * v) :
    px (Image.ofGen (baseGen v)) x y = Spec.Patterns.Micro.isDark v x y := by
  obtain ⟨-, -, hrb, -, -, -⟩ := version_images v h1 h4
  have hrows : (baseGen v).rows = Spec.Patterns.Micro.baseRows v :=
    rows_of_list _ _ C02.micro_function_patterns.1 v h1 h4
  have hs := stride_of_regular _ _ _ hrb
  rw [ofGen_px _ x y (by rw [hs]; omega), hrows, hs]
  exact rowBit_packRows (Spec.Patterns.Micro.isDark v) (9 + 2 * v) (9 + 2 * v) x y hx hy

/-- the format information modules are function modules -/
theorem formatBitAt_function (v x y i : Nat) (h : formatBitAt x y = some i) :
    Spec.Patterns.Micro.isFunction v x y = true := by
  unfold formatBitAt at h
  unfold Spec.Patterns.Micro.isFunction
  split at h
  · rename_i hc
    simp only [Bool.or_eq_true, Bool.and_eq_true, decide_eq_true_eq]
    omega
  · split at h
    · rename_i hc
      simp only [Bool.or_eq_true, Bool.and_eq_true, decide_eq_true_eq]
      omega
    · cases h

/-! ### the placement, with the modules it leaves alone -/

theorem placement_full (v l : Nat) (base used : Image) (sl : List (Option (Int × Int)))
    (hsl : slotsOf v l = some sl)
    (hinj : ∀ (i j : Nat) (c : Int × Int), sl[i]? = some (some c) → sl[j]? = some (some c) → i = j)
    (hrange : ∀ (k : Nat) (c : Int × Int), sl[k]? = some (some c) →
      0 ≤ c.1 ∧ c.1 ≤ 8 + 2 * (v : Int) ∧ 0 ≤ c.2 ∧ c.2 ≤ 8 + 2 * (v : Int))
    (hrb : Regular base (9 + 2 * v) (9 + 2 * v))
    (hbin : ∀ x y, used.binaryAt x y = .ok (usedFn v x y)) (fbuf : Buffer) (hinv : C16.Inv fbuf)
    (hoff : fbuf.offset = 0) (hread : fbuf.read = 0) (hlen : sl.length ≤ 8 * fbuf.buf.toList.length) :
    ∃ img1, Model.Micro.placeLoop used (8 + 2 * (v : Int)) (capOf v l).dataBits
        ((8 + 2 * (v : Int) + 3) * (8 + 2 * (v : Int) + 3)).toNat
        { x := 8 + 2 * (v : Int), y := 8 + 2 * (v : Int), dy := -1 } fbuf base = .ok img1 ∧
      Regular img1 (9 + 2 * v) (9 + 2 * v) ∧
      (∀ (k : Nat) (c : Int × Int) (b : Bool), sl[k]? = some (some c) → (unpack fbuf.buf.toList)[k]? = some b →
        px img1 c.1.toNat c.2.toNat = b) ∧
      (∀ x y : Nat, x < 9 + 2 * v → y < 9 + 2 * v →
        (∀ k : Nat, sl[k]? ≠ some (some ((x : Int), (y : Int)))) → px img1 x y = px base x y) := by
  obtain ⟨img1, hplace, hr1, hpx1⟩ := placement_spec v l base used sl hsl hinj hrange hrb hbin fbuf hinv hoff hread hlen
  have hun : C17.unread fbuf = unpack fbuf.buf.toList := by
    unfold C17.unread C17.cursor; rw [hoff, hread]; simp
  have hpl := placeLoop_eq used (usedFn v) hbin (8 + 2 * (v : Int)) (capOf v l).dataBits _
    { x := 8 + 2 * (v : Int), y := 8 + 2 * (v : Int), dy := -1 } 0 sl fbuf base hsl hinv (by omega)
    (by rw [hun, Lemmas.Bits.length_unpack]; exact hlen)
  rw [hun] at hpl
  unfold applySlots at hpl
  rw [foldlM_slotSet] at hpl
  obtain ⟨img1', he, -, hpx⟩ := writes_spec _ _ (writesOf (sl.zip (unpack fbuf.buf.toList))) base hrb
  have heq : img1' = img1 := by
    have : Out.ok img1' = Out.ok img1 := by rw [← he, ← hplace, ← hpl]
    injection this
  subst heq
  refine ⟨img1', hplace, hr1, hpx1, ?_⟩
  intro x y hx hy hne
  refine (hpx x y hx hy).1 ?_
  intro p hp hpe
  obtain ⟨j, h1, -⟩ := (mem_writesOf ..).1 hp
  rw [hpe] at h1
  exact hne j h1

/-! ### format information, with the modules it leaves alone -/

theorem placeFormatM_full (v : Nat) (h1 : 1 ≤ v) (h4 : v ≤ 4) (img : Image)
    (hr : Regular img (9 + 2 * v) (9 + 2 * v)) (enc : Nat) :
    ∃ img', placeFormatM img enc = .ok img' ∧ Regular img' (9 + 2 * v) (9 + 2 * v) ∧
      (∀ x y : Nat, x < 9 + 2 * v → y < 9 + 2 * v → formatBitAt x y = none → px img' x y = px img x y) ∧
      (∀ x y i : Nat, formatBitAt x y = some i → px img' x y = enc.testBit i) := by
  obtain ⟨img', he, hr', -, hfc⟩ := placeFormatM_spec v h1 h4 img hr enc
  obtain ⟨img'', he', -, hpx⟩ := writes_spec _ _ (mformatWrites enc) img hr
  have heq : img'' = img' := by
    have : Out.ok img'' = Out.ok img' := by rw [← he', ← he, placeFormatM_eq]
    injection this
  subst heq
  refine ⟨img'', he, hr', ?_, ?_⟩
  · intro x y hx hy hn
    refine (hpx x y hx hy).1 ?_
    intro p hp hpe
    rw [mem_mformatWrites] at hp
    unfold formatBitAt at hn
    obtain ⟨j, hj, rfl | rfl⟩ := hp
    · have h1' := congrArg Prod.fst hpe
      have h2' := congrArg Prod.snd hpe
      simp only at h1' h2'
      rw [if_pos (by omega)] at hn
      cases hn
    · have h1' := congrArg Prod.fst hpe
      have h2' := congrArg Prod.snd hpe
      simp only at h1' h2'
      by_cases hx8 : x = 8
      · rw [if_pos (by omega)] at hn
        cases hn
      · rw [if_neg (by omega), if_pos (by omega)] at hn
        cases hn
  · intro x y i hs
    unfold formatBitAt at hs
    split at hs
    · rename_i hc
      obtain ⟨rfl, hy1, hy8⟩ := hc
      have hi : i = y - 1 := (Option.some.inj hs).symm
      have := (hfc (y - 1) (by omega)).1
      rw [show y - 1 + 1 = y by omega] at this
      rw [hi]
      exact this
    · split at hs
      · rename_i hc
        obtain ⟨rfl, hx1, hx7⟩ := hc
        have hi : i = 15 - x := (Option.some.inj hs).symm
        have := (hfc (x - 1) (by omega)).2
        rw [show x - 1 + 1 = x by omega, show 14 - (x - 1) = 15 - x by omega] at this
        rw [hi]
        exact this
      · cases hs

theorem finishM_full (v f m : Nat) (h1 : 1 ≤ v) (h4 : v ≤ 4) (hf : f < 8) (hm : m < 4) (used img : Image)
    (hru : Regular used (9 + 2 * v) (9 + 2 * v)) (hr : Regular img (9 + 2 * v) (9 + 2 * v)) :
    ∃ c img3 pat img4, finishM (f : Int) used img (m : Int) = .ok img4 ∧
      Gen.Micro.encodedFormat[4 * f + m]? = some c ∧
      imgAt Model.Micro.maskList (m : Int) = .ok (some pat) ∧ Regular pat 24 17 ∧
      (∀ x y, x < 24 → y < 17 → px pat x y = Spec.Patterns.Micro.maskCond m y x) ∧
      Regular img3 (9 + 2 * v) (9 + 2 * v) ∧ Regular img4 (9 + 2 * v) (9 + 2 * v) ∧
      Image.mask img3 used pat = .ok img4 ∧
      (∀ x y : Nat, x < 9 + 2 * v → y < 9 + 2 * v → formatBitAt x y = none → px img3 x y = px img x y) ∧
      (∀ x y i : Nat, formatBitAt x y = some i → px img3 x y = c.testBit i) := by
  obtain ⟨c, hc, hct⟩ := natAt_mformat f m hf hm
  obtain ⟨img3, h3, hr3, hpx, hfc⟩ := placeFormatM_full v h1 h4 img hr c
  obtain ⟨pat, hpat, hrp, hpatpx⟩ := mask_image_px m hm
  obtain ⟨img4, h4', hr4⟩ := mask_ok img3 used pat _ _ 24 17 (by omega) (by omega) hr3 hru hrp (by omega) (by omega)
  refine ⟨c, img3, pat, img4, ?_, hct, hpat, hrp, hpatpx, hr3, hr4, h4', hpx, hfc⟩
  unfold finishM
  rw [if_neg (by omega)]
  simp only [hc, Out.bind_ok, h3, hpat, deref, h4']

/-! ### the symbol -/

/-- every valid description encodes to the declarative symbol, for the mask that was asked for or
(automatic masking) for the one that was chosen -/
theorem symbol_core (v l : Nat) (mask : Int) (segs : List Segment) (hp : (v, l) ∈ pairs)
    (hs : ∀ s ∈ segs, SegOK v s)
    (hfit : (segs.map fun s => Spec.Valid.Micro.segBits s v).sum ≤ (capOf v l).dataBits)
    (hm1 : -1 ≤ mask) (hm3 : mask ≤ 3) :
    ∃ (img4 : Image) (m : Nat),
      Model.Micro.encodeToBitmap { version := v, level := l, mask := mask, segments := segs } = .ok img4 ∧
      m < 4 ∧ (0 ≤ mask → (m : Int) = mask) ∧ Regular img4 (9 + 2 * v) (9 + 2 * v) ∧
      IsSymbol { version := v, level := l, mask := mask, segments := segs } m (px img4) := by
  obtain ⟨hv1, hv4, hl4, hcap, ⟨f, hfmt', hf8, -⟩, ⟨hD4, hDd, hd, h2, h68⟩, -, sl, hsl, hsllen, hinj, hslr⟩ :=
    pair_facts v l hp
  obtain ⟨sn, total, sl', hrow, hfmt, hsl', hspec⟩ := sym_facts v l hp
  rw [hsl] at hsl'
  cases hsl'
  have hsn : sn = f := by
    rw [hfmt] at hfmt'
    injection hfmt' with h
    omega
  subst hsn
  obtain ⟨hbase, hused, hrb, hru, hbin, hfu⟩ := version_images v hv1 hv4
  obtain ⟨data, fbuf, hE, hinv, hw, ho, hrd, hbytes, hdl, hdb, hun⟩ :=
    stream_layout v l mask segs (capOf v l) hcap hv1 hv4 hD4 hDd hd h2 h68 hs hfit
  obtain ⟨pl, pb, hpar, -⟩ := parityOf_facts (capOf v l).correction h2 h68 data hdb
  have hflen : fbuf.buf.toList.length = (capOf v l).data + (capOf v l).correction := by
    rw [hbytes, List.length_append, hdl, pl]
  have hrange : ∀ (k : Nat) (c : Int × Int), sl[k]? = some (some c) →
      0 ≤ c.1 ∧ c.1 ≤ 8 + 2 * (v : Int) ∧ 0 ≤ c.2 ∧ c.2 ≤ 8 + 2 * (v : Int) ∧ usedFn v c.1 c.2 = false :=
    fun k c hk => (hslr k).2 c hk
  obtain ⟨sym, hplace, hrs, hpx, hun1⟩ := placement_full v l _ _ sl hsl hinj
    (fun k c hk => ⟨(hrange k c hk).1, (hrange k c hk).2.1, (hrange k c hk).2.2.1, (hrange k c hk).2.2.2.1⟩)
    hrb hbin fbuf hinv ho hrd (by rw [hsllen, hflen])
  have hall : Model.Micro.encodeToBitmap { version := v, level := l, mask := mask, segments := segs } =
      (chooseMaskM mask sym (Image.ofGen (usedGen v)) >>= finishM (sn : Int) (Image.ofGen (usedGen v)) sym) := by
    rw [encodeToBitmap_eq _ (sn : Int) (by simp only; omega) (by simp only; omega) hfmt (by omega)
      (by simp only [Gen.Micro.c_maskAuto, Gen.Micro.c_maskMax]; omega)]
    simp only [hE, Out.bind_ok, hbase, hused, deref, hcap, hplace]
  obtain ⟨m, hm4, hch, hmeq, -⟩ := chooseMaskM_spec v hv4 mask hm1 hm3 sym _ hrs hru
  obtain ⟨c, img3, pat, img4, hfin, hc, hpat, hrp, hpatpx, hr3, hr4, hmask, hpx3n, hpx3s⟩ :=
    finishM_full v sn m hv1 hv4 hf8 hm4 _ sym hru hrs
  refine ⟨img4, m, by rw [hall, hch]; exact hfin, hm4, hmeq, hr4, ?_⟩
  have hsz : Spec.Patterns.Micro.size v = 9 + 2 * v := rfl
  simp only [IsSymbol, Int.toNat_natCast, hsz]
  refine ⟨sn, total, _, _, _, hrow, data, parityOf (capOf v l).correction data, hdl, pl, hdb, pb, ?_, ?_, ?_⟩
  · unfold stream
    simp only [Int.toNat_natCast]
    rw [hun, Nat.mul_comm]
  · intro i hi
    obtain ⟨par, hp', -, -, hz⟩ := C13.parity_is_codeword (capOf v l).correction h2 h68 data hdb
    rw [hpar] at hp'
    cases hp'
    rw [Lemmas.RS.evalS_eq (Lemmas.RS.pow2_lt i) _ (by
      intro x hx
      rcases List.mem_append.1 hx with h | h
      · exact hdb x h
      · exact pb x h)]
    exact hz i hi
  · intro x y hx hy
    have hused_px := used_px v _ hru hbin x y hx hy
    have hfn := usedFn_isFunction v hv1 hv4 x y hx hy
    have hmk := mask_spec img3 _ pat img4 _ _ 24 17 (by omega) (by omega) hr3 hru hrp (by omega) (by omega) hmask
      x y hx hy
    rw [hmk, hused_px, hfn]
    have hnoslot : Spec.Patterns.Micro.isFunction v x y = true → ∀ k : Nat, sl[k]? ≠ some (some ((x : Int), (y : Int))) := by
      intro hF k hk
      have := (hrange k _ hk).2.2.2.2
      simp only at this
      rw [hfn, hF] at this
      cases this
    cases hF : Spec.Patterns.Micro.isFunction v x y with
    | true =>
      simp only [Bool.not_true, Bool.false_and, Bool.bne_false, if_true]
      unfold functionModule
      cases hfb : formatBitAt x y with
      | some i =>
        simp only
        rw [hpx3s x y i hfb]
        have hcw := C11.micro_format_is_bch (4 * sn + m) (by omega)
        rw [hc] at hcw
        rw [Option.some.inj hcw, Nat.mul_comm]
        rfl
      | none =>
        simp only
        rw [hpx3n x y hx hy hfb, hun1 x y hx hy (hnoslot hF), base_px v hv1 hv4 x y hx hy]
    | false =>
      simp only [Bool.not_false, Bool.true_and, Bool.false_eq_true, if_false]
      have hfb : formatBitAt x y = none := by
        cases h : formatBitAt x y with
        | none => rfl
        | some i => rw [formatBitAt_function v x y i h] at hF; cases hF
      rw [hpx3n x y hx hy hfb, hpatpx x y (by omega) (by omega)]
      have hd1 : px sym x y =
          ((unpack data).take (capOf v l).dataBits ++ unpack (parityOf (capOf v l).correction data))[
            (dataCoords v).idxOf (x, y)]?.getD false := by
        have hmem := cover_facts v hv4 x y hx hy hF
        have hj : (dataCoords v).idxOf (x, y) < (dataCoords v).length := List.idxOf_lt_length_of_mem hmem
        have hget := List.getElem_idxOf hj
        have hslk := specSlots_get (dataCoords v) (capOf v l).dataBits (8 * (capOf v l).data - (capOf v l).dataBits) _ hj
        rw [← hspec, hget] at hslk
        have hbits := bits_get data (parityOf (capOf v l).correction data) (capOf v l).dataBits
          ((dataCoords v).idxOf (x, y)) (by rw [hdl]; omega)
        rw [hdl, ← hbytes] at hbits
        have hklt : (if (dataCoords v).idxOf (x, y) < (capOf v l).dataBits then (dataCoords v).idxOf (x, y)
            else (dataCoords v).idxOf (x, y) + (8 * (capOf v l).data - (capOf v l).dataBits)) <
            (unpack fbuf.buf.toList).length := by
          rw [Lemmas.Bits.length_unpack, hflen, ← hsllen]
          rcases Nat.lt_or_ge (if (dataCoords v).idxOf (x, y) < (capOf v l).dataBits then (dataCoords v).idxOf (x, y)
            else (dataCoords v).idxOf (x, y) + (8 * (capOf v l).data - (capOf v l).dataBits)) sl.length with h | h
          · exact h
          · rw [List.getElem?_eq_none h] at hslk; cases hslk
        have hb := List.getElem?_eq_getElem hklt
        have := hpx _ _ _ hslk hb
        simp only [toI, Int.toNat_natCast] at this
        rw [this, ← hbits, hb, Option.getD_some]
      rw [hd1]

/-! ### uniqueness -/

theorem dist_append_le (a p p' : List Nat) : C14.dist (a ++ p) (a ++ p') ≤ p.length := by
  unfold C14.dist
  rw [List.zip_append rfl, List.filter_append, List.length_append]
  have h1 : ((a.zip a).filter fun q => q.1 != q.2) = [] := by
    rw [List.filter_eq_nil_iff]
    intro q hq
    have : q.1 = q.2 := by
      clear p p'
      induction a with
      | nil => simp at hq
      | cons x a ih =>
        rw [List.zip_cons_cons, List.mem_cons] at hq
        rcases hq with rfl | hq
        · rfl
        · exact ih hq
    simp [this]
  rw [h1]
  have h2 := List.length_filter_le (fun q : Nat × Nat => q.1 != q.2) (p.zip p')
  have h3 : (p.zip p').length ≤ p.length := by rw [List.length_zip]; omega
  simp only [List.length_nil, Nat.zero_add]
  omega

/-- the parity of a block is determined by its data and the codeword condition -/
theorem parity_unique (e : Nat) (h2 : 2 ≤ e) (d p p' : List Nat)
    (hd : ∀ x ∈ d, x < 256) (hp : ∀ x ∈ p, x < 256) (hp' : ∀ x ∈ p', x < 256)
    (hl : p.length = e) (hl' : p'.length = e) (hL : d.length + e ≤ 255)
    (hz : ∀ i, i < e → Spec.RS.evalS (d ++ p) (Spec.GF.pow2 i) = 0)
    (hz' : ∀ i, i < e → Spec.RS.evalS (d ++ p') (Spec.GF.pow2 i) = 0) : p = p' := by
  have hb : C14.Bytes (d ++ p) := by
    intro x hx
    rcases List.mem_append.1 hx with h | h
    · exact hd x h
    · exact hp x h
  have hb' : C14.Bytes (d ++ p') := by
    intro x hx
    rcases List.mem_append.1 hx with h | h
    · exact hd x h
    · exact hp' x h
  have hcw : ∀ (w : List Nat), C14.Bytes w → (∀ i, i < e → Spec.RS.evalS w (Spec.GF.pow2 i) = 0) → C14.Codeword e w := by
    intro w hw hz i hi
    rw [Nat.mod_eq_of_lt (by omega), Lemmas.GF.exp_eq_pow2 i (by omega),
      ← Lemmas.RS.evalS_eq (Lemmas.RS.pow2_lt i) w hw]
    exact hz i hi
  by_cases hne : d ++ p = d ++ p'
  · exact List.append_cancel_left hne
  · exfalso
    have := C14.code_min_distance e (d ++ p) (d ++ p') (by have := h2; omega) hb hb'
      (by rw [List.length_append, List.length_append, hl, hl'])
      (by rw [List.length_append, hl]; exact hL) (hcw _ hb hz) (hcw _ hb' hz') hne
    have := dist_append_le d p p'
    omega

theorem unpack_inj (a b : List Nat) (ha : ∀ x ∈ a, x < 256) (hb : ∀ x ∈ b, x < 256) (h : unpack a = unpack b) : a = b := by
  rw [← Lemmas.Bits.pack_unpack a ha, ← Lemmas.Bits.pack_unpack b hb, h]

theorem symbol_unique (v l : Nat) (mask : Int) (segs : List Segment) (hp : (v, l) ∈ pairs) (m : Nat)
    (px px' : Nat → Nat → Bool)
    (h : IsSymbol { version := v, level := l, mask := mask, segments := segs } m px)
    (h' : IsSymbol { version := v, level := l, mask := mask, segments := segs } m px') :
    ∀ x y, x < 9 + 2 * v → y < 9 + 2 * v → px x y = px' x y := by
  obtain ⟨-, -, -, -, -, ⟨-, -, -, h2, h68⟩, -, -⟩ := pair_facts v l hp
  obtain ⟨sn, total, sl, hrow, -, -, -⟩ := sym_facts v l hp
  obtain ⟨b, -, hbd, hbt, -, hb255⟩ := block_facts v l hp
  have hsz : Spec.Patterns.Micro.size v = 9 + 2 * v := rfl
  simp only [IsSymbol, Int.toNat_natCast, hsz, hrow] at h h'
  obtain ⟨sn1, t1, dc1, db1, ec1, hr1, data, par, hdl, hpl, hdb, hpb, hst, hrs, hpx⟩ := h
  obtain ⟨sn2, t2, dc2, db2, ec2, hr2, data', par', hdl', hpl', hdb', hpb', hst', hrs', hpx'⟩ := h'
  simp only [Option.some.injEq, Prod.mk.injEq] at hr1 hr2
  obtain ⟨rfl, rfl, rfl, rfl, rfl⟩ := hr1
  obtain ⟨rfl, rfl, rfl, rfl, rfl⟩ := hr2
  have hdata : data = data' := unpack_inj data data' hdb hdb' (by rw [hst, hst'])
  subst hdata
  have hpar : par = par' :=
    parity_unique (capOf v l).correction h2 data par par' hdb hpb hpb' hpl hpl' (by rw [hdl]; omega) hrs hrs'
  subst hpar
  intro x y hx hy
  rw [hpx x y hx hy, hpx' x y hx hy]

end QRV.Lemmas.MSym
