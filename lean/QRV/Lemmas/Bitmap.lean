import QRV.Model.Bitmap
/-
Helper lemmas for C18 (bitmap masking): loop rule for `for … in [0:n]` over `Out`, normal form of
regular images, byte-level characterisation of `maskByte`/`maskRow`/`mask`, bit facts.
-/
namespace QRV.Lemmas.Bitmap
open QRV QRV.Model.Bitmap

/-! ### loop rule -/

theorem forIn_range'_ok {β : Type} (f : Nat → β → Out (ForInStep β)) (P : Nat → β → Prop) (n : Nat) :
    ∀ (a : Nat) (init : β), P a init →
      (∀ k b, a ≤ k → k < a + n → P k b → ∃ b', f k b = .ok (.yield b') ∧ P (k + 1) b') →
      ∃ b, forIn (List.range' a n) init f = .ok b ∧ P (a + n) b := by
  induction n with
  | zero => intro a init h0 _; exact ⟨init, rfl, h0⟩
  | succ n ih =>
    intro a init h0 hstep
    obtain ⟨b', hb', hP⟩ := hstep a init (Nat.le_refl _) (by omega) h0
    obtain ⟨b, hb, hPb⟩ := ih (a + 1) b' hP (fun k b hk hk' hPk => hstep k b (by omega) (by omega) hPk)
    refine ⟨b, ?_, by rw [show a + (n + 1) = a + 1 + n by omega]; exact hPb⟩
    rw [List.range'_succ, List.forIn_cons, hb']
    exact hb

/-! ### regular images, offsets -/

structure Reg (i : Image) (w h : Nat) : Prop where
  minX : i.minX = 0
  minY : i.minY = 0
  maxX : i.maxX = (w : Int)
  maxY : i.maxY = (h : Int)
  stride : i.stride = (((w + 7) / 8 : Nat) : Int)
  size : i.pix.size = (w + 7) / 8 * h
  bytes : ∀ b ∈ i.pix.toList, b < 256

/-- normal form of a regular image -/
def nf (p : Array Nat) (w h : Nat) : Image :=
  { pix := p, stride := (((w + 7) / 8 : Nat) : Int), minX := 0, minY := 0, maxX := w, maxY := h }

theorem Reg.eq_nf {i : Image} {w h : Nat} (hr : Reg i w h) : i = nf i.pix w h := by
  cases i; cases hr; simp_all [nf]

/-- all bytes are bytes, stated by index -/
def Bytes (a : Array Nat) : Prop := ∀ k : Nat, a[k]?.getD 0 < 256

theorem bytes_of_mem {a : Array Nat} (h : ∀ b ∈ a.toList, b < 256) : Bytes a := by
  intro k
  cases hk : a[k]? with
  | none => simp
  | some v =>
    simp only [Option.getD_some]
    apply h
    rw [Array.mem_toList_iff]
    exact Array.mem_of_getElem? hk

theorem mem_of_bytes {a : Array Nat} (h : Bytes a) : ∀ b ∈ a.toList, b < 256 := by
  intro b hb
  rw [Array.mem_toList_iff, Array.mem_iff_getElem?] at hb
  obtain ⟨k, hk⟩ := hb
  have := h k
  rwa [hk] at this

theorem getD_setIfInBounds (a : Array Nat) (i k v : Nat) :
    (a.setIfInBounds i v)[k]?.getD 0 = if i = k ∧ i < a.size then v else a[k]?.getD 0 := by
  rw [Array.getElem?_setIfInBounds]
  by_cases h : i = k
  · subst h
    by_cases h' : i < a.size
    · simp [h']
    · simp [h']
  · simp [h]

theorem pixAt_nat (p : Array Nat) (n : Nat) (h : n < p.size) :
    Image.pixAt p (n : Int) = .ok (p[n]?.getD 0) := by
  simp [Image.pixAt, h]

theorem pixSet_nat (p : Array Nat) (n v : Nat) (h : n < p.size) :
    Image.pixSet p (n : Int) v = .ok (p.setIfInBounds n v) := by
  simp [Image.pixSet, h, Array.setIfInBounds]

theorem off_nat (y s x : Nat) :
    ((y : Int) - 0) * ((s : Nat) : Int) + ((x : Int) - 0).tdiv 8 = ((y * s + x / 8 : Nat) : Int) := by
  rw [Int.sub_zero, Int.sub_zero, Int.tdiv_eq_ediv_of_nonneg (by omega)]
  simp only [Int.natCast_add, Int.natCast_mul, Int.natCast_ediv]
  rfl

theorem idx_lt {y s j h : Nat} (hj : j < s) (hy : y < h) : y * s + j < s * h := by
  have : (y + 1) * s ≤ h * s := Nat.mul_le_mul_right s hy
  rw [Nat.succ_mul] at this
  rw [Nat.mul_comm s h]
  omega

theorem idx_inj {y y' s j j' : Nat} (hj : j < s) (hj' : j' < s) (h : y * s + j = y' * s + j') :
    y = y' ∧ j = j' := by
  have hs : 0 < s := by omega
  have h1 : (y * s + j) / s = y := by
    rw [Nat.mul_comm, Nat.mul_add_div hs, Nat.div_eq_of_lt hj]; rfl
  have h2 : (y' * s + j') / s = y' := by
    rw [Nat.mul_comm, Nat.mul_add_div hs, Nat.div_eq_of_lt hj']; rfl
  have : y = y' := by rw [← h1, ← h2, h]
  subst this
  exact ⟨rfl, by omega⟩

/-! ### Mask, byte level -/

/-- the value XORed into byte `j` of row `y` (depends on function map, pattern and edge only) -/
def mval (u q : Array Nat) (w pw : Nat) (y j e : Nat) : Nat :=
  (255 - u[y * ((w + 7) / 8) + j]?.getD 0) &&& q[y * ((pw + 7) / 8) + j]?.getD 0 &&& e

theorem maskByte_nf (p u q : Array Nat) (w h pw ph x y e : Nat)
    (hp : p.size = (w + 7) / 8 * h) (hu : u.size = (w + 7) / 8 * h) (hq : q.size = (pw + 7) / 8 * ph)
    (hpw : w ≤ pw) (hph : h ≤ ph) (hx : x / 8 < (w + 7) / 8) (hy : y < h) :
    Image.maskByte (nf p w h) (nf u w h) (nf q pw ph) (x : Int) (y : Int) e =
      .ok (nf (p.setIfInBounds (y * ((w + 7) / 8) + x / 8)
        (p[y * ((w + 7) / 8) + x / 8]?.getD 0 ^^^ mval u q w pw y (x / 8) e)) w h) := by
  have h1 : y * ((w + 7) / 8) + x / 8 < (w + 7) / 8 * h := idx_lt hx hy
  have h2 : y * ((pw + 7) / 8) + x / 8 < (pw + 7) / 8 * ph :=
    idx_lt (s := (pw + 7) / 8) (by omega) (by omega)
  simp only [Image.maskByte, nf, off_nat]
  rw [pixAt_nat _ _ (by omega), pixAt_nat _ _ (by omega), pixAt_nat _ _ (by omega)]
  simp only [Out.bind_ok]
  rw [pixSet_nat _ _ _ (by omega)]
  rfl

theorem edgeMask_nat (w : Nat) : Image.edgeMask (w : Int) = (0xFF00 >>> (w % 8)) % 256 := by
  unfold Image.edgeMask
  rw [Int.tmod_eq_emod_of_nonneg (by omega)]
  have : ((w : Int) % 8).toNat = w % 8 := by omega
  rw [this]

theorem edgeMask_ne_zero (w : Nat) : (Image.edgeMask (w : Int) != 0) = decide (w % 8 ≠ 0) := by
  rw [edgeMask_nat]
  have : ∀ r, r < 8 → (((0xFF00 >>> r) % 256 != 0) = decide (r ≠ 0)) := by decide
  exact this _ (Nat.mod_lt _ (by decide))

theorem dxFull_nat (w : Nat) : (w : Int) - (w : Int).tmod 8 = ((8 * (w / 8) : Nat) : Int) := by
  rw [Int.tmod_eq_emod_of_nonneg (by omega)]
  omega

theorem tdiv8_toNat (n : Nat) : ((n : Int).tdiv 8).toNat = n / 8 := by
  rw [Int.tdiv_eq_ediv_of_nonneg (by omega)]
  omega

/-- edge used for byte `j` of a row -/
def edgeOf (w j : Nat) : Nat := if j < w / 8 then 255 else Image.edgeMask (w : Int)

theorem maskRow_nf (P u q : Array Nat) (w h pw ph y : Nat)
    (hp : P.size = (w + 7) / 8 * h) (hu : u.size = (w + 7) / 8 * h) (hq : q.size = (pw + 7) / 8 * ph)
    (hpw : w ≤ pw) (hph : h ≤ ph) (hy : y < h) :
    ∃ P', Image.maskRow (nf P w h) (nf u w h) (nf q pw ph) (y : Int)
        ((w : Int) - (w : Int).tmod 8) (Image.edgeMask (w : Int)) = .ok (nf P' w h) ∧
      P'.size = P.size ∧
      ∀ idx : Nat, P'[idx]?.getD 0 =
        if y * ((w + 7) / 8) ≤ idx ∧ idx < y * ((w + 7) / 8) + (w + 7) / 8 then
          P[idx]?.getD 0 ^^^ mval u q w pw y (idx - y * ((w + 7) / 8)) (edgeOf w (idx - y * ((w + 7) / 8)))
        else P[idx]?.getD 0 := by
  unfold Image.maskRow
  simp only [Std.Legacy.Range.forIn_eq_forIn_range', Std.Legacy.Range.size, dxFull_nat, tdiv8_toNat]
  rw [show (8 * (w / 8) / 8 - 0 + 1 - 1) / 1 = w / 8 by omega]
  -- the full bytes
  obtain ⟨im, him, P1, rfl, hsz1, hP1⟩ := forIn_range'_ok
    (fun k __s => do
      let im ← Image.maskByte __s (nf u w h) (nf q pw ph) (8 * (k : Int)) (y : Int) 255
      pure (ForInStep.yield im))
    (fun k im => ∃ P', im = nf P' w h ∧ P'.size = P.size ∧ ∀ idx : Nat, P'[idx]?.getD 0 =
      if y * ((w + 7) / 8) ≤ idx ∧ idx < y * ((w + 7) / 8) + k then
        P[idx]?.getD 0 ^^^ mval u q w pw y (idx - y * ((w + 7) / 8)) 255
      else P[idx]?.getD 0)
    (w / 8) 0 (nf P w h) ⟨P, rfl, rfl, fun idx => by
      rw [if_neg (by omega)]⟩
    (by
      rintro k _ - hk ⟨P', rfl, hsz, hP'⟩
      have e : (8 : Int) * (k : Int) = ((8 * k : Nat) : Int) := by omega
      have hk8 : 8 * k / 8 = k := by omega
      rw [e, maskByte_nf P' u q w h pw ph (8 * k) y 255 (by omega) hu hq hpw hph (by omega) hy]
      refine ⟨_, rfl, _, rfl, by simp [hsz], fun idx => ?_⟩
      rw [getD_setIfInBounds, hk8]
      have hlt : y * ((w + 7) / 8) + k < P'.size := by
        rw [hsz, hp]; exact idx_lt (by omega) hy
      by_cases hc : y * ((w + 7) / 8) + k = idx
      · subst hc
        rw [if_pos ⟨rfl, hlt⟩, if_pos (by omega), hP', if_neg (by omega)]
        congr 2; omega
      · rw [if_neg (by omega), hP']
        by_cases hd : y * ((w + 7) / 8) ≤ idx ∧ idx < y * ((w + 7) / 8) + k
        · rw [if_pos hd, if_pos (by omega)]
        · rw [if_neg hd, if_neg (by omega)])
  rw [him]
  simp only [Nat.zero_add] at hP1
  simp only [Out.bind_ok, edgeMask_ne_zero]
  by_cases hw8 : w % 8 = 0
  · -- no edge byte: stride = w / 8
    simp only [hw8, ne_eq, not_true_eq_false, decide_false, Bool.false_eq_true, if_false]
    refine ⟨P1, rfl, hsz1, fun idx => ?_⟩
    rw [hP1, show (w + 7) / 8 = w / 8 by omega]
    by_cases hd : y * (w / 8) ≤ idx ∧ idx < y * (w / 8) + w / 8
    · rw [if_pos hd, if_pos hd, edgeOf, if_pos (by omega)]
    · rw [if_neg hd, if_neg hd]
  · simp only [hw8, ne_eq, not_false_eq_true, decide_true, if_true]
    have hk8 : 8 * (w / 8) / 8 = w / 8 := by omega
    rw [maskByte_nf P1 u q w h pw ph (8 * (w / 8)) y _ (by omega) hu hq hpw hph (by omega) hy]
    refine ⟨_, rfl, by simp [hsz1], fun idx => ?_⟩
    rw [getD_setIfInBounds, hk8]
    have hlt : y * ((w + 7) / 8) + w / 8 < P1.size := by
      rw [hsz1, hp]; exact idx_lt (by omega) hy
    by_cases hc : y * ((w + 7) / 8) + w / 8 = idx
    · subst hc
      rw [if_pos ⟨rfl, hlt⟩, if_pos (by omega), hP1, if_neg (by omega)]
      rw [show y * ((w + 7) / 8) + w / 8 - y * ((w + 7) / 8) = w / 8 by omega, edgeOf,
        if_neg (by omega)]
    · rw [if_neg (by omega), hP1]
      by_cases hd : y * ((w + 7) / 8) ≤ idx ∧ idx < y * ((w + 7) / 8) + w / 8
      · rw [if_pos hd, if_pos (by omega), edgeOf, if_pos (by omega)]
      · rw [if_neg hd, if_neg (by omega)]

theorem div_mod_of_row {r s idx : Nat} (h1 : r * s ≤ idx) (h2 : idx < r * s + s) :
    idx / s = r ∧ idx % s = idx - r * s := by
  have hs : 0 < s := by omega
  have hm : idx % s < s := Nat.mod_lt _ hs
  have hd : s * (idx / s) + idx % s = idx := Nat.div_add_mod idx s
  have := idx_inj (y := r) (y' := idx / s) (s := s) (j := idx - r * s) (j' := idx % s) (by omega) hm
    (by rw [Nat.mul_comm (idx / s) s]; omega)
  omega

/-- the value XORed into byte `idx` of the image by `Mask` -/
def mv (u q : Array Nat) (w pw idx : Nat) : Nat :=
  mval u q w pw (idx / ((w + 7) / 8)) (idx % ((w + 7) / 8)) (edgeOf w (idx % ((w + 7) / 8)))

theorem mask_nf (p u q : Array Nat) (w h pw ph : Nat)
    (hp : p.size = (w + 7) / 8 * h) (hu : u.size = (w + 7) / 8 * h) (hq : q.size = (pw + 7) / 8 * ph)
    (hpw : w ≤ pw) (hph : h ≤ ph) :
    ∃ P', Image.mask (nf p w h) (nf u w h) (nf q pw ph) = .ok (nf P' w h) ∧
      P'.size = p.size ∧
      ∀ idx : Nat, P'[idx]?.getD 0 =
        if idx < (w + 7) / 8 * h then p[idx]?.getD 0 ^^^ mv u q w pw idx else p[idx]?.getD 0 := by
  unfold Image.mask
  have hre : (nf p w h).rectEq (nf u w h) = true := by simp [Image.rectEq, nf]
  have hdx : (nf p w h).dx = (w : Int) := by simp [Image.dx, nf]
  have hdy : (nf p w h).dy = (h : Int) := by simp [Image.dy, nf]
  have hmod : ¬ ((w : Int).tmod 8 < 0) := by
    rw [Int.tmod_eq_emod_of_nonneg (by omega)]; omega
  simp only [Std.Legacy.Range.forIn_eq_forIn_range', Std.Legacy.Range.size, hre, hdx, hdy, hmod,
    Bool.not_true, Bool.false_eq_true, if_false, Int.toNat_natCast]
  rw [show (h - 0 + 1 - 1) / 1 = h by omega]
  obtain ⟨im, him, P1, rfl, hsz1, hP1⟩ := forIn_range'_ok
    (fun y __s => do
      let im ← Image.maskRow __s (nf u w h) (nf q pw ph) (y : Int) ((w : Int) - (w : Int).tmod 8)
        (Image.edgeMask (w : Int))
      pure (ForInStep.yield im))
    (fun r im => ∃ P', im = nf P' w h ∧ P'.size = p.size ∧ ∀ idx : Nat, P'[idx]?.getD 0 =
      if idx < r * ((w + 7) / 8) then p[idx]?.getD 0 ^^^ mv u q w pw idx else p[idx]?.getD 0)
    h 0 (nf p w h) ⟨p, rfl, rfl, fun idx => by rw [if_neg (by omega)]⟩
    (by
      rintro r _ - hr ⟨P', rfl, hsz, hP'⟩
      obtain ⟨P'', hrow, hsz', hP''⟩ := maskRow_nf P' u q w h pw ph r (by omega) hu hq hpw hph (by omega)
      rw [hrow]
      refine ⟨_, rfl, P'', rfl, by omega, fun idx => ?_⟩
      rw [hP'', hP', Nat.succ_mul]
      by_cases hd : r * ((w + 7) / 8) ≤ idx ∧ idx < r * ((w + 7) / 8) + (w + 7) / 8
      · obtain ⟨e1, e2⟩ := div_mod_of_row hd.1 hd.2
        rw [if_pos hd, if_neg (by omega), if_pos (by omega), mv, e1, e2]
      · rw [if_neg hd]
        by_cases hd' : idx < r * ((w + 7) / 8)
        · rw [if_pos hd', if_pos (by omega)]
        · rw [if_neg hd', if_neg (by omega)])
  rw [him]
  simp only [Nat.zero_add] at hP1
  refine ⟨P1, rfl, hsz1, fun idx => ?_⟩
  rw [hP1, Nat.mul_comm]

/-! ### bits -/

theorem bit_eq_testBit (n k : Nat) : ((n >>> k) &&& 1 != 0) = n.testBit k := by
  rw [Nat.testBit, Nat.and_comm]

theorem testBit_compl {m k : Nat} (hm : m < 256) (hk : k < 8) : (255 - m).testBit k = !m.testBit k := by
  rw [show 255 - m = 2 ^ 8 - (m + 1) by omega, Nat.testBit_two_pow_sub_succ (by omega)]
  simp [hk]

theorem testBit_255 {k : Nat} (hk : k < 8) : (255 : Nat).testBit k = true := by
  have : ∀ k, k < 8 → (255 : Nat).testBit k = true := by decide
  exact this k hk

theorem testBit_edge : ∀ r, r < 8 → ∀ c, c < 8 →
    ((0xFF00 >>> r) % 256).testBit (7 - c) = decide (c < r) := by decide

theorem testBit_0x80 : ∀ r, r < 8 → ∀ c, c < 8 → ((0x80 : Nat) >>> r).testBit (7 - c) = decide (c = r) := by
  decide

theorem testBit_edgeOf {w x : Nat} (hx : x / 8 < (w + 7) / 8) :
    (edgeOf w (x / 8)).testBit (7 - x % 8) = decide (x < w) := by
  unfold edgeOf
  split
  · rw [testBit_255 (by omega)]; simp; omega
  · rw [edgeMask_nat, testBit_edge _ (Nat.mod_lt _ (by decide)) _ (Nat.mod_lt _ (by decide))]
    have : x / 8 = w / 8 := by omega
    by_cases h : x < w
    · simp [h]; omega
    · simp [h]; omega

/-- naive pixel reading (same body as `QRV.Props.C18.px`) -/
def pxl (i : Image) (x y : Nat) : Bool :=
  ((i.pix[y * i.stride.toNat + x / 8]?.getD 0) >>> (7 - x % 8)) &&& 1 != 0

theorem pxl_nf (p : Array Nat) (w h x y : Nat) :
    pxl (nf p w h) x y = (p[y * ((w + 7) / 8) + x / 8]?.getD 0).testBit (7 - x % 8) := by
  rw [pxl, bit_eq_testBit]; rfl

/-! ### Mask, pixel level -/

theorem Reg.of_nf {p : Array Nat} {w h : Nat} (hs : p.size = (w + 7) / 8 * h) (hb : Bytes p) :
    Reg (nf p w h) w h :=
  ⟨rfl, rfl, rfl, rfl, rfl, hs, mem_of_bytes hb⟩

theorem mv_at {u q : Array Nat} {w pw y j : Nat} (hj : j < (w + 7) / 8) :
    mv u q w pw (y * ((w + 7) / 8) + j) = mval u q w pw y j (edgeOf w j) := by
  obtain ⟨e1, e2⟩ := div_mod_of_row (r := y) (s := (w + 7) / 8) (idx := y * ((w + 7) / 8) + j)
    (by omega) (by omega)
  rw [mv, e1, e2, Nat.add_sub_cancel_left]

theorem mval_lt {u q : Array Nat} (hq : Bytes q) (w pw y j e : Nat) : mval u q w pw y j e < 256 := by
  unfold mval
  exact Nat.lt_of_le_of_lt Nat.and_le_left (Nat.and_lt_two_pow _ (n := 8) (hq _))

/-- pixel-level reading of `mask_nf` -/
theorem mask_px (p u q P' : Array Nat) (w h pw ph : Nat) (hu : Bytes u)
    (hP' : ∀ idx : Nat, P'[idx]?.getD 0 =
        if idx < (w + 7) / 8 * h then p[idx]?.getD 0 ^^^ mv u q w pw idx else p[idx]?.getD 0)
    (x y : Nat) (hx : x < 8 * ((w + 7) / 8)) (hy : y < h) :
    pxl (nf P' w h) x y =
      (pxl (nf p w h) x y != (!pxl (nf u w h) x y && pxl (nf q pw ph) x y && decide (x < w))) := by
  have hj : x / 8 < (w + 7) / 8 := by omega
  have hk : 7 - x % 8 < 8 := by omega
  simp only [pxl_nf]
  rw [hP', if_pos (idx_lt hj hy), mv_at hj, mval, Nat.testBit_xor, Nat.testBit_and, Nat.testBit_and,
    testBit_compl (hu _) hk, testBit_edgeOf hj]

theorem ext_getD {a b : Array Nat} (hs : a.size = b.size) (h : ∀ i : Nat, a[i]?.getD 0 = b[i]?.getD 0) :
    a = b := by
  apply Array.ext hs
  intro i h1 h2
  have := h i
  simpa [h1, h2] using this

theorem mask_bytes (p u q P' : Array Nat) (w h pw : Nat) (hp : Bytes p) (hq : Bytes q)
    (hP' : ∀ idx : Nat, P'[idx]?.getD 0 =
        if idx < (w + 7) / 8 * h then p[idx]?.getD 0 ^^^ mv u q w pw idx else p[idx]?.getD 0) :
    Bytes P' := by
  intro k
  rw [hP']
  split
  · exact Nat.xor_lt_two_pow (n := 8) (hp k) (mval_lt hq ..)
  · exact hp k

theorem mask_nf_invol (p u q P' : Array Nat) (w h pw ph : Nat)
    (hp : p.size = (w + 7) / 8 * h) (hu : u.size = (w + 7) / 8 * h) (hq : q.size = (pw + 7) / 8 * ph)
    (hpw : w ≤ pw) (hph : h ≤ ph)
    (ho : Image.mask (nf p w h) (nf u w h) (nf q pw ph) = .ok (nf P' w h)) :
    Image.mask (nf P' w h) (nf u w h) (nf q pw ph) = .ok (nf p w h) := by
  obtain ⟨P1, h1, hs1, hP1⟩ := mask_nf p u q w h pw ph hp hu hq hpw hph
  rw [h1] at ho
  have : P1 = P' := by injection ho with ho; injection ho
  subst this
  obtain ⟨P2, h2, hs2, hP2⟩ := mask_nf P1 u q w h pw ph (by omega) hu hq hpw hph
  rw [h2]
  have : P2 = p := by
    apply ext_getD (by omega)
    intro i
    rw [hP2, hP1]
    split
    · rw [Nat.xor_assoc, Nat.xor_self, Nat.xor_zero]
    · rfl
  rw [this]

/-! ### Mask on regular images -/

theorem mask_reg {inp used pat : Image} {w h pw ph : Nat}
    (hi : Reg inp w h) (hu : Reg used w h) (hp : Reg pat pw ph) (hpw : w ≤ pw) (hph : h ≤ ph) :
    ∃ out, Image.mask inp used pat = .ok out ∧ Reg out w h ∧
      (∀ x y, x < 8 * ((w + 7) / 8) → y < h →
        pxl out x y = (pxl inp x y != (!pxl used x y && pxl pat x y && decide (x < w)))) ∧
      Image.mask out used pat = .ok inp := by
  rw [hi.eq_nf, hu.eq_nf, hp.eq_nf]
  obtain ⟨P', h1, hs, hP'⟩ := mask_nf inp.pix used.pix pat.pix w h pw ph hi.size hu.size hp.size hpw hph
  refine ⟨_, h1, ?_, ?_, ?_⟩
  · exact Reg.of_nf (by rw [hs, hi.size])
      (mask_bytes _ _ _ _ _ _ _ (bytes_of_mem hi.bytes) (bytes_of_mem hp.bytes) hP')
  · intro x y hx hy
    exact mask_px _ _ _ _ w h pw ph (bytes_of_mem hu.bytes) hP' x y hx hy
  · exact mask_nf_invol _ _ _ _ w h pw ph hi.size hu.size hp.size hpw hph h1

theorem mask_panic {inp used pat : Image} {w h w' h' : Nat} (hw : 0 < w) (hh : 0 < h)
    (hi : Reg inp w h) (hu : Reg used w' h') (hne : w ≠ w' ∨ h ≠ h') :
    (Image.mask inp used pat).isPanic = true := by
  have : inp.rectEq used = false := by
    simp only [Image.rectEq, Image.rectEmpty, hi.minX, hi.minY, hi.maxX, hi.maxY, hu.minX, hu.minY,
      hu.maxX, hu.maxY]
    rcases hne with h | h <;> simp <;> omega
  simp [Image.mask, this, Out.isPanic]

/-! ### BinaryAt / SetBinary / XorBinary -/

theorem inRect_nf (p : Array Nat) (w h : Nat) (x y : Int) :
    (nf p w h).inRect x y = decide (0 ≤ x ∧ x < w ∧ 0 ≤ y ∧ y < h) := by
  simp [Image.inRect, nf, Bool.and_assoc]; rfl

theorem tmod8_toNat (x : Nat) : (((x : Int) - 0).tmod 8).toNat = x % 8 := by
  rw [Int.sub_zero, Int.tmod_eq_emod_of_nonneg (by omega)]; omega

theorem shift_toNat (x : Nat) : (7 - ((x : Int) - 0).tmod 8).toNat = 7 - x % 8 := by
  rw [Int.sub_zero, Int.tmod_eq_emod_of_nonneg (by omega)]; omega

theorem binaryAt_reg {i : Image} {w h : Nat} (hr : Reg i w h) (x y : Int) :
    i.binaryAt x y =
      .ok (if 0 ≤ x ∧ x < w ∧ 0 ≤ y ∧ y < h then pxl i x.toNat y.toNat else false) := by
  rw [hr.eq_nf]
  unfold Image.binaryAt
  rw [inRect_nf]
  by_cases hc : 0 ≤ x ∧ x < w ∧ 0 ≤ y ∧ y < h
  · obtain ⟨X, rfl⟩ := Int.eq_ofNat_of_zero_le hc.1
    obtain ⟨Y, rfl⟩ := Int.eq_ofNat_of_zero_le hc.2.2.1
    simp only [hc, and_self, decide_true, Bool.not_true, Bool.false_eq_true, if_false, if_true,
      Int.toNat_natCast]
    have hlt : Y * ((w + 7) / 8) + X / 8 < i.pix.size := by
      rw [hr.size]; exact idx_lt (by omega) (by omega)
    simp only [nf, off_nat, shift_toNat]
    rw [pixAt_nat _ _ hlt]
    rfl
  · simp [hc]

theorem pxl_set (p : Array Nat) (w h X Y v x' y' : Nat) (hs : p.size = (w + 7) / 8 * h)
    (hX : X / 8 < (w + 7) / 8) (hY : Y < h) (hx' : x' / 8 < (w + 7) / 8) :
    pxl (nf (p.setIfInBounds (Y * ((w + 7) / 8) + X / 8) v) w h) x' y' =
      if y' = Y ∧ x' / 8 = X / 8 then v.testBit (7 - x' % 8) else pxl (nf p w h) x' y' := by
  simp only [pxl_nf, getD_setIfInBounds]
  have hlt : Y * ((w + 7) / 8) + X / 8 < p.size := by rw [hs]; exact idx_lt hX hY
  by_cases hc : y' = Y ∧ x' / 8 = X / 8
  · rw [if_pos hc, if_pos ⟨by rw [hc.1, hc.2], hlt⟩]
  · rw [if_neg hc, if_neg]
    rintro ⟨he, -⟩
    have := idx_inj hX hx' he
    exact hc ⟨this.1.symm, this.2.symm⟩

theorem Reg.pxl_eq {i : Image} {w h : Nat} (hr : Reg i w h) (x y : Nat) :
    pxl i x y = (i.pix[y * ((w + 7) / 8) + x / 8]?.getD 0).testBit (7 - x % 8) := by
  rw [pxl, bit_eq_testBit, hr.stride, Int.toNat_natCast]

/-- common shape of `SetBinary`/`XorBinary`: one byte is replaced by `v`, which differs from the old
byte `b` only at bit `7 - X % 8`, where it is `g` of the old bit -/
theorem modByte_reg {i : Image} {w h : Nat} (hr : Reg i w h) (X Y : Nat) (hX : X < w) (hY : Y < h)
    (v : Nat) (hv : v < 256) (g : Bool → Bool)
    (hbit : ∀ k, k < 8 → v.testBit (7 - k) =
      if k = X % 8 then g ((i.pix[Y * ((w + 7) / 8) + X / 8]?.getD 0).testBit (7 - k))
      else (i.pix[Y * ((w + 7) / 8) + X / 8]?.getD 0).testBit (7 - k)) :
    Reg (nf (i.pix.setIfInBounds (Y * ((w + 7) / 8) + X / 8) v) w h) w h ∧
      ∀ x' y', x' < 8 * ((w + 7) / 8) → y' < h →
        pxl (nf (i.pix.setIfInBounds (Y * ((w + 7) / 8) + X / 8) v) w h) x' y' =
          if x' = X ∧ y' = Y then g (pxl i x' y') else pxl i x' y' := by
  constructor
  · apply Reg.of_nf (by simp [hr.size])
    intro k
    rw [getD_setIfInBounds]
    split
    · exact hv
    · exact bytes_of_mem hr.bytes k
  · intro x' y' hx' hy'
    rw [pxl_set _ _ _ _ _ _ _ _ hr.size (by omega) hY (by omega)]
    by_cases h1 : y' = Y ∧ x' / 8 = X / 8
    · have hpx : pxl i x' y' = (i.pix[Y * ((w + 7) / 8) + X / 8]?.getD 0).testBit (7 - x' % 8) := by
        rw [hr.pxl_eq, h1.1, h1.2]
      rw [if_pos h1, hbit _ (Nat.mod_lt _ (by decide)), ← hpx]
      by_cases h2 : x' = X
      · rw [if_pos (by rw [h2]), if_pos ⟨h2, h1.1⟩]
      · rw [if_neg (by omega), if_neg (fun h => h2 h.1)]
    · rw [if_neg h1, if_neg (by rintro ⟨rfl, rfl⟩; exact h1 ⟨rfl, rfl⟩), pxl_nf, hr.pxl_eq]

theorem mask0x80_lt (r : Nat) : (0x80 : Nat) >>> r < 256 :=
  Nat.lt_of_le_of_lt (Nat.shiftRight_le _ _) (by decide)

theorem setBinary_reg {i : Image} {w h : Nat} (hr : Reg i w h) (x y : Int) (c : Bool) :
    ∃ i', i.setBinary x y c = .ok i' ∧ Reg i' w h ∧
      ∀ x' y', x' < 8 * ((w + 7) / 8) → y' < h →
        pxl i' x' y' = if (0 ≤ x ∧ x < w ∧ 0 ≤ y ∧ y < h ∧ x' = x.toNat ∧ y' = y.toNat) then c
          else pxl i x' y' := by
  by_cases hc : 0 ≤ x ∧ x < w ∧ 0 ≤ y ∧ y < h
  · obtain ⟨X, rfl⟩ := Int.eq_ofNat_of_zero_le hc.1
    obtain ⟨Y, rfl⟩ := Int.eq_ofNat_of_zero_le hc.2.2.1
    have hX : X < w := by omega
    have hY : Y < h := by omega
    have hlt : Y * ((w + 7) / 8) + X / 8 < i.pix.size := by
      rw [hr.size]; exact idx_lt (by omega) (by omega)
    have hb := bytes_of_mem hr.bytes (Y * ((w + 7) / 8) + X / 8)
    have hm := mask0x80_lt (X % 8)
    have hmod := modByte_reg hr X Y hX hY
      (if c then i.pix[Y * ((w + 7) / 8) + X / 8]?.getD 0 ||| (0x80 >>> (X % 8))
        else i.pix[Y * ((w + 7) / 8) + X / 8]?.getD 0 &&& (255 - (0x80 >>> (X % 8))))
      (by
        cases c
        · exact Nat.lt_of_le_of_lt Nat.and_le_left hb
        · exact Nat.or_lt_two_pow (n := 8) hb hm)
      (fun _ => c)
      (by
        intro k hk
        have hbit := testBit_0x80 (X % 8) (Nat.mod_lt _ (by decide)) k hk
        cases c
        · simp only [Bool.false_eq_true, if_false, Nat.testBit_and, testBit_compl hm (by omega : 7 - k < 8), hbit]
          by_cases h : k = X % 8 <;> simp [h]
        · simp only [if_true, Nat.testBit_or, hbit]
          by_cases h : k = X % 8 <;> simp [h])
    refine ⟨_, ?_, hmod.1, ?_⟩
    · conv => lhs; rw [hr.eq_nf]
      unfold Image.setBinary
      rw [inRect_nf]
      simp only [hc, and_self, decide_true, Bool.not_true, Bool.false_eq_true, if_false]
      simp only [nf, off_nat, tmod8_toNat]
      rw [pixAt_nat _ _ hlt]
      simp only [Out.bind_ok]
      rw [pixSet_nat _ _ _ hlt]
      rfl
    · intro x' y' hx' hy'
      rw [hmod.2 x' y' hx' hy']
      simp only [hc, true_and, Int.toNat_natCast]
  · refine ⟨i, ?_, hr, fun x' y' _ _ => ?_⟩
    · conv => lhs; rw [hr.eq_nf]
      unfold Image.setBinary
      rw [inRect_nf]
      simp only [hc, decide_false, Bool.not_false, if_true]
      exact congrArg Out.ok hr.eq_nf.symm
    · rw [if_neg]
      intro h
      exact hc ⟨h.1, h.2.1, h.2.2.1, h.2.2.2.1⟩

theorem xorBinary_reg {i : Image} {w h : Nat} (hr : Reg i w h) (x y : Int) (c : Bool) :
    ∃ i', i.xorBinary x y c = .ok i' ∧ Reg i' w h ∧
      ∀ x' y', x' < 8 * ((w + 7) / 8) → y' < h →
        pxl i' x' y' = if (0 ≤ x ∧ x < w ∧ 0 ≤ y ∧ y < h ∧ x' = x.toNat ∧ y' = y.toNat) then
          (pxl i x' y' != c) else pxl i x' y' := by
  by_cases hc : (0 ≤ x ∧ x < w ∧ 0 ≤ y ∧ y < h) ∧ c = true
  · obtain ⟨hc, rfl⟩ := hc
    obtain ⟨X, rfl⟩ := Int.eq_ofNat_of_zero_le hc.1
    obtain ⟨Y, rfl⟩ := Int.eq_ofNat_of_zero_le hc.2.2.1
    have hX : X < w := by omega
    have hY : Y < h := by omega
    have hlt : Y * ((w + 7) / 8) + X / 8 < i.pix.size := by
      rw [hr.size]; exact idx_lt (by omega) (by omega)
    have hb := bytes_of_mem hr.bytes (Y * ((w + 7) / 8) + X / 8)
    have hm := mask0x80_lt (X % 8)
    have hmod := modByte_reg hr X Y hX hY
      (i.pix[Y * ((w + 7) / 8) + X / 8]?.getD 0 ^^^ (0x80 >>> (X % 8)))
      (Nat.xor_lt_two_pow (n := 8) hb hm)
      (fun o => o != true)
      (by
        intro k hk
        have hbit := testBit_0x80 (X % 8) (Nat.mod_lt _ (by decide)) k hk
        simp only [Nat.testBit_xor, hbit]
        by_cases h : k = X % 8 <;> simp [h])
    refine ⟨_, ?_, hmod.1, ?_⟩
    · conv => lhs; rw [hr.eq_nf]
      unfold Image.xorBinary
      rw [inRect_nf]
      simp only [hc, and_self, decide_true, Bool.not_true, Bool.false_eq_true, if_false, if_true]
      simp only [nf, off_nat, tmod8_toNat]
      rw [pixAt_nat _ _ hlt]
      simp only [Out.bind_ok]
      rw [pixSet_nat _ _ _ hlt]
      rfl
    · intro x' y' hx' hy'
      rw [hmod.2 x' y' hx' hy']
      simp only [hc, true_and, Int.toNat_natCast]
  · refine ⟨i, ?_, hr, fun x' y' _ _ => ?_⟩
    · conv => lhs; rw [hr.eq_nf]
      unfold Image.xorBinary
      rw [inRect_nf]
      by_cases hin : 0 ≤ x ∧ x < w ∧ 0 ≤ y ∧ y < h
      · have hcf : c = false := by
          cases c
          · rfl
          · exact absurd ⟨hin, rfl⟩ hc
        subst hcf
        simp only [hin, and_self, decide_true, Bool.not_true, Bool.false_eq_true, if_false]
        obtain ⟨X, rfl⟩ := Int.eq_ofNat_of_zero_le hin.1
        obtain ⟨Y, rfl⟩ := Int.eq_ofNat_of_zero_le hin.2.2.1
        have hlt : Y * ((w + 7) / 8) + X / 8 < i.pix.size := by
          rw [hr.size]; exact idx_lt (by omega) (by omega)
        simp only [nf, off_nat]
        rw [pixAt_nat _ _ hlt]
        exact congrArg Out.ok hr.eq_nf.symm
      · simp only [hin, decide_false, Bool.not_false, if_true]
        exact congrArg Out.ok hr.eq_nf.symm
    · split
      · next h =>
        have hcf : c = false := by
          cases c
          · rfl
          · exact absurd ⟨⟨h.1, h.2.1, h.2.2.1, h.2.2.2.1⟩, rfl⟩ hc
        simp [hcf]
      · rfl

/-! ### OnesCount -/

/-- number of `x < n` with `f x` -/
def cnt (f : Nat → Bool) (n : Nat) : Nat := ((List.range n).filter f).length

theorem cnt_zero (f : Nat → Bool) : cnt f 0 = 0 := rfl

theorem cnt_succ (f : Nat → Bool) (n : Nat) : cnt f (n + 1) = cnt f n + (f n).toNat := by
  unfold cnt
  rw [List.range_succ, List.filter_append, List.length_append]
  cases h : f n <;> simp [h]

theorem cnt_congr {f g : Nat → Bool} {n : Nat} (h : ∀ c, c < n → f c = g c) : cnt f n = cnt g n := by
  induction n with
  | zero => rfl
  | succ n ih =>
    rw [cnt_succ, cnt_succ, ih (fun c hc => h c (by omega)), h n (by omega)]

theorem cnt_add (f : Nat → Bool) (n r : Nat) : cnt f (n + r) = cnt f n + cnt (fun c => f (n + c)) r := by
  induction r with
  | zero => rfl
  | succ r ih => rw [← Nat.add_assoc, cnt_succ, cnt_succ, ih, Nat.add_assoc]

theorem cnt_and_lt (g : Nat → Bool) {r n : Nat} (h : r ≤ n) :
    cnt (fun c => g c && decide (c < r)) n = cnt g r := by
  induction n with
  | zero => have : r = 0 := by omega
            subst this; rfl
  | succ n ih =>
    by_cases hr : r ≤ n
    · rw [cnt_succ, ih hr]
      have : decide (n < r) = false := by simp; omega
      simp [this]
    · have : r = n + 1 := by omega
      subst this
      apply cnt_congr
      intro c hc
      simp [hc]

theorem and_one_eq (b c : Nat) : (b >>> c) &&& 1 = (b.testBit c).toNat := by
  rw [Nat.testBit, Nat.and_comm 1]
  generalize b >>> c = x
  rw [Nat.and_one_is_mod]
  rcases Nat.mod_two_eq_zero_or_one x with h | h <;> simp [h]

theorem popcount8_eq (b : Nat) : Image.popcount8 b = cnt (fun c => b.testBit (7 - c)) 8 := by
  simp only [cnt_succ, cnt_zero, Image.popcount8, and_one_eq]
  have : b &&& 1 = (b.testBit 0).toNat := and_one_eq b 0
  rw [this]
  simp only [Nat.reduceSub, Nat.zero_add]
  omega

theorem popcount8_edge (b r : Nat) (hr : r < 8) :
    Image.popcount8 (b &&& ((0xFF00 >>> r) % 256)) = cnt (fun c => b.testBit (7 - c)) r := by
  rw [popcount8_eq, ← cnt_and_lt (fun c => b.testBit (7 - c)) (Nat.le_of_lt hr)]
  apply cnt_congr
  intro c hc
  rw [Nat.testBit_and, testBit_edge r hr c hc]

theorem off2_nat (y s x : Nat) : (y : Int) * ((s : Nat) : Int) + (x : Int) = ((y * s + x : Nat) : Int) := by
  simp only [Int.natCast_add, Int.natCast_mul]

theorem tdiv8_nat (w : Nat) : (w : Int).tdiv 8 = ((w / 8 : Nat) : Int) := by
  rw [Int.tdiv_eq_ediv_of_nonneg (by omega)]; omega

theorem onesCount_reg {i : Image} {w h : Nat} (hr : Reg i w h) :
    i.onesCount = .ok (((List.range h).map fun y => cnt (fun x => pxl i x y) w).sum) := by
  conv => lhs; rw [hr.eq_nf]
  unfold Image.onesCount
  have hdx : (nf i.pix w h).dx = (w : Int) := by simp [Image.dx, nf]
  have hdy : (nf i.pix w h).dy = (h : Int) := by simp [Image.dy, nf]
  have hmod : ¬ ((w : Int).tmod 8 < 0) := by
    rw [Int.tmod_eq_emod_of_nonneg (by omega)]; omega
  simp only [Std.Legacy.Range.forIn_eq_forIn_range', Std.Legacy.Range.size, hdx, hdy, hmod,
    if_false, Int.toNat_natCast, tdiv8_nat, edgeMask_ne_zero]
  rw [show (h - 0 + 1 - 1) / 1 = h by omega, show (w / 8 - 0 + 1 - 1) / 1 = w / 8 by omega]
  simp only [nf, off2_nat]
  obtain ⟨tot, htot, hP⟩ := forIn_range'_ok
    (fun y __s => do
      let __s ←
        forIn (List.range' 0 (w / 8)) __s fun x __s => do
          let b ← Image.pixAt i.pix ((y * ((w + 7) / 8) + x : Nat) : Int)
          pure (ForInStep.yield (__s + Image.popcount8 b))
      if decide (w % 8 ≠ 0) = true then do
        let b ← Image.pixAt i.pix ((y * ((w + 7) / 8) + w / 8 : Nat) : Int)
        pure (ForInStep.yield (__s + Image.popcount8 (b &&& Image.edgeMask (w : Int))))
      else pure (ForInStep.yield __s))
    (fun r (acc : Nat) => acc = ((List.range r).map fun y => cnt (fun x => pxl i x y) w).sum)
    h 0 0 rfl
    (by
      rintro y acc - hy rfl
      have hy : y < h := by omega
      -- full bytes of the row
      obtain ⟨a1, ha1, hQ⟩ := forIn_range'_ok
        (fun x __s => do
          let b ← Image.pixAt i.pix ((y * ((w + 7) / 8) + x : Nat) : Int)
          pure (ForInStep.yield (__s + Image.popcount8 b)))
        (fun k (a : Nat) =>
          a = ((List.range y).map fun y => cnt (fun x => pxl i x y) w).sum + cnt (fun x => pxl i x y) (8 * k))
        (w / 8) 0 ((List.range y).map fun y => cnt (fun x => pxl i x y) w).sum rfl
        (by
          rintro k a - hk rfl
          have hlt : y * ((w + 7) / 8) + k < i.pix.size := by
            rw [hr.size]; exact idx_lt (by omega) hy
          rw [pixAt_nat _ _ hlt]
          refine ⟨_, rfl, ?_⟩
          rw [show 8 * (k + 1) = 8 * k + 8 by omega, cnt_add, popcount8_eq, Nat.add_assoc]
          congr 2
          apply cnt_congr
          intro c hc
          rw [hr.pxl_eq, show (8 * k + c) / 8 = k by omega, show (8 * k + c) % 8 = c by omega])
      rw [ha1]
      simp only [Out.bind_ok, Nat.zero_add] at hQ ⊢
      subst hQ
      rw [List.range_succ, List.map_append, List.sum_append]
      by_cases hw8 : w % 8 = 0
      · simp only [hw8, ne_eq, not_true_eq_false, decide_false, Bool.false_eq_true, if_false]
        refine ⟨_, rfl, ?_⟩
        rw [show 8 * (w / 8) = w by omega]
        simp
      · simp only [hw8, ne_eq, not_false_eq_true, decide_true, if_true]
        have hlt : y * ((w + 7) / 8) + w / 8 < i.pix.size := by
          rw [hr.size]; exact idx_lt (by omega) hy
        rw [pixAt_nat _ _ hlt]
        refine ⟨_, rfl, ?_⟩
        rw [edgeMask_nat, popcount8_edge _ _ (Nat.mod_lt _ (by decide))]
        simp only [List.map_cons, List.map_nil, List.sum_cons, List.sum_nil, Nat.add_zero]
        have key := cnt_add (fun x => pxl i x y) (8 * (w / 8)) (w % 8)
        rw [show 8 * (w / 8) + w % 8 = w by omega] at key
        rw [key, Nat.add_assoc]
        congr 2
        apply cnt_congr
        intro c hc
        rw [hr.pxl_eq, show (8 * (w / 8) + c) / 8 = w / 8 by omega,
          show (8 * (w / 8) + c) % 8 = c by omega])
  rw [htot]
  simp only [Nat.zero_add] at hP
  rw [hP]
  rfl

end QRV.Lemmas.Bitmap
