import QRV.Model.RMQR
import QRV.Spec.Valid
import QRV.Spec.Patterns
import QRV.Props.C16
import QRV.Props.C18
import QRV.Lemmas.RTDefs
/-
Shared definitions for the round-trip proof C01 (rMQR): the coordinate walk shared by
`Model.RMQR.placeLoop` and `Model.RMQR.readLoop`, the used-module function of a version read from
the generated rows, and the Reed-Solomon loop of the decoder as a named function.
-/
namespace QRV.Lemmas.RR
open QRV QRV.Model QRV.Model.Bits QRV.Model.Bitmap QRV.Model.Sym QRV.Lemmas.RT

/-- the non-function modules in visiting order: same control flow as `Model.RMQR.placeLoop` and
`Model.RMQR.readLoop` (without the early exit of the former when the bits run out); `f x y` says
whether module (x, y) is a function module; `none` = fuel exhausted.  Column 0 is never visited
(`x < 1`), rows are 1 .. h-1. -/
def walk (f : Int → Int → Bool) (h : Int) : (fuel : Nat) → Walk → Option (List (Int × Int))
  | 0, _ => none
  | fuel + 1, s =>
    let l1 : List (Int × Int) := if f s.x s.y then [] else [(s.x, s.y)]
    let x := s.x - 1
    if x < 1 then some l1
    else
      let l2 : List (Int × Int) := if f x s.y then [] else [(x, s.y)]
      let x := x + 1
      let y := s.y + s.dy
      let (x, y, dy) := if y < 1 ∨ y > h - 1 then (x - 2, y + (-s.dy), -s.dy) else (x, y, s.dy)
      if x < 1 then some (l1 ++ l2)
      else (walk f h fuel { x, y, dy }).map (fun cs => l1 ++ l2 ++ cs)

/-- `BinaryAt` of the W x H image made from the rows: white outside -/
def fnOf (rows : List Nat) (stride W H : Nat) (x y : Int) : Bool :=
  decide (0 ≤ x ∧ x < W ∧ 0 ≤ y ∧ y < H) && rowBit rows stride x.toNat y.toNat

/-- width and height of version v (from the standard's size list) -/
abbrev W (v : Nat) : Nat := Spec.Patterns.RMQR.width v
abbrev H (v : Nat) : Nat := Spec.Patterns.RMQR.height v

/-- the used-module and base bitmaps of version v as generated -/
def usedGen (v : Nat) : Gen.GBmp := Gen.RMQR.usedList[v]?.getD default
def baseGen (v : Nat) : Gen.GBmp := Gen.RMQR.baseList[v]?.getD default

/-- is (x, y) a function module of version v (white outside the symbol) -/
def usedFn (v : Nat) : Int → Int → Bool := fnOf (usedGen v).rows (usedGen v).stride (W v) (H v)

/-- the start state of both walks (`w`, `h` are width-1 and height-1) -/
def start (w h : Int) : Walk := { x := w - 1, y := h - 5, dy := -1 }

/-- the fuel the model gives both walks -/
def fuelOf (w h : Int) : Nat := ((w + 3) * (h + 3)).toNat

/-- the error-correction loop of `decodeBitmapFull` -/
def rsLoop (blocks : List (List Nat × List Nat)) : Out (Array Nat) :=
  forIn blocks (#[] : Array Nat) fun blk result => do
    let data ← RS.decode (blk.1 ++ blk.2) (Model.RMQR.RS_SYNDROMES blk.2.length)
    pure (ForInStep.yield (result ++ (data.take blk.1.length).toArray))

end QRV.Lemmas.RR
