import QRV.Lemmas.RRFinWalk
import QRV.Lemmas.RTBlocksSplit
/-
C03 (rMQR, whole symbols), the finite side condition.  In the versions whose module walk offers fewer
than 8 * total modules (finding D18) the last codeword of the interleaved sequence - the last
correction codeword of the LAST block - is never carried in full, so the last block may be read with
one more wrong codeword than the damage put there.  Kernel-evaluated on the regenerated capacity
rows, with shortness computed from the walk itself (`countV`): in every such row the rated capacity
of the last block leaves room for that extra codeword, `maxError + 1 ≤ (total - data) / 2`.
-/
namespace QRV.Lemmas.RR
open QRV QRV.Lemmas QRV.Model QRV.Model.Sym QRV.Lemmas.RT

set_option maxRecDepth 1000000

/-- the rated number of correctable codewords of each block of a capacity row, in block order
(`Props.C03.ratedOf`) -/
def rated (blocks : List Gen.GBlock) : List Nat :=
  blocks.flatMap fun bc => List.replicate bc.num bc.maxError

/-- the last block of the row can take one wrong codeword more than its rated number -/
def lastRoom (cap : Gen.GCap) : Bool :=
  match (sizesOf cap.blocks)[(sizesOf cap.blocks).length - 1]? with
  | some s => decide ((rated cap.blocks)[(sizesOf cap.blocks).length - 1]?.getD 0 + 1 ≤ s.2 / 2)
  | none => false

/-- version v: every capacity row either is carried in full by the walk or has `lastRoom` -/
def shortOK (v : Nat) : Bool :=
  match countV v with
  | none => false
  | some c => (Gen.RMQR.capacityTable[v]?.getD []).all fun cap => decide (8 * cap.total ≤ c) || lastRoom cap

theorem shortOK_all : (List.range 32).all shortOK = true := by decide +kernel

/-- a row whose walk is short has room for one more wrong codeword in its last block -/
theorem short_room (v : Nat) (hv : v < 32) (cs : List (Int × Int))
    (hcs : walk (usedFn v) ((H v : Int) - 1) (fuelOf ((W v : Int) - 1) ((H v : Int) - 1))
      (start ((W v : Int) - 1) ((H v : Int) - 1)) = some cs)
    (cap : Gen.GCap) (hcap : cap ∈ Gen.RMQR.capacityTable[v]?.getD []) (hshort : cs.length < 8 * cap.total) :
    lastRoom cap = true := by
  obtain ⟨cs', hcs', hcount⟩ := walk_count v hv
  rw [hcs] at hcs'
  cases hcs'
  have h := forall_lt_of_all shortOK_all v hv
  unfold shortOK at h
  rw [hcount] at h
  have h2 := List.all_eq_true.mp h cap hcap
  rw [Bool.or_eq_true, decide_eq_true_eq] at h2
  rcases h2 with h2 | h2
  · omega
  · exact h2

/-- the side condition is not vacuous: these rows exist (finding D18) and are not all rows -/
theorem short_rows_exist :
    ((List.range 32).filter fun v =>
      match countV v with
      | some c => (Gen.RMQR.capacityTable[v]?.getD []).any fun cap => decide (c < 8 * cap.total)
      | none => false).length = 11 := by decide +kernel

/-- ... and `lastRoom` is a genuine restriction: it fails for some (fully carried) rows -/
theorem lastRoom_not_all :
    ((List.range 32).any fun v => (Gen.RMQR.capacityTable[v]?.getD []).any fun cap => !lastRoom cap) = true := by
  decide +kernel

end QRV.Lemmas.RR
