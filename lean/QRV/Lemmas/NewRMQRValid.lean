import QRV.Props.C05Ext
import QRV.Props.C01RMQR
import QRV.Lemmas.NewDPGen
/-
C04Ext2: `New` of the rMQR package returns valid descriptions and never panics.  Mode selection:
`Lemmas.NewDPGen` (mode list `[0, 1, 2, 3, 4]`); version: `C05.rmqr_calcVersion_first_fit` (the
model's `Segment.length` checks the character count itself, `C05.rmqr_length_agrees`); an unknown
priority is refused by `calcVersion`.
-/
namespace QRV.Lemmas.NewRMQRValid
open QRV QRV.Model QRV.Model.Sym QRV.Model.New QRV.Model.Codec QRV.Spec.Valid QRV.Lemmas.NewDP QRV.Lemmas.NewDPGen
open QRV.Lemmas.CalcVersion

theorem distinct : Distinct 1 2 3 4 := ⟨by decide, by decide, by decide, by decide, by decide, by decide⟩

/-- the segment step of `Model.RMQR.new` -/
abbrev dpStep (kanji : Bool) (data : List Nat) : Out (List Segment) :=
  dpStepG ((3 + 9) * 6) ((3 + 8) * 6) ((3 + 8) * 6) 1 2 3 4 kanji data

theorem level_of_valid {level : Int} (h : Model.RMQR.levelIsValid level = true) :
    ∃ l : Nat, l < 2 ∧ level = (l : Int) := by
  simp only [Model.RMQR.levelIsValid, Gen.RMQR.c_levelMax, Bool.and_eq_true] at h
  have h0 := of_decide_eq_true h.1
  have h4 := of_decide_eq_true h.2
  exact ⟨level.toNat, by omega, by omega⟩

/-- the shape of an accepted call of `Model.RMQR.new` (empty payload: the version is the answer of `calcVersion`
on the empty segment list) -/
theorem new_cases (level prio : Int) (kanji : Bool) (data : List Nat) (q : QRCode)
    (h : Model.RMQR.new level prio kanji data = .ok q) :
    Model.RMQR.levelIsValid level = true ∧
    ((data = [] ∧ ∃ v, Model.RMQR.calcVersion level prio [] = .ok (some v) ∧
        q = { version := v, level, mask := 0, segments := [] }) ∨
     (data ≠ [] ∧ ∃ segs v, dpStep kanji data = .ok segs ∧ Model.RMQR.calcVersion level prio segs = .ok (some v) ∧
        q = { version := v, level, mask := 0, segments := segs })) := by
  unfold Model.RMQR.new at h
  simp only [] at h
  split at h
  · cases h
  · rename_i hlv
    refine ⟨by simpa using hlv, ?_⟩
    split at h
    · rename_i he
      left
      refine ⟨by simpa using he, ?_⟩
      rw [if_pos (show Model.RMQR.NEW_EMPTY_USES_PRIORITY = true from rfl)] at h
      obtain ⟨r, hr, h⟩ := bind_eq_ok h
      cases r with
      | none => cases h
      | some v =>
        cases h
        exact ⟨v, hr, rfl⟩
    · rename_i he
      right
      refine ⟨by simpa using he, ?_⟩
      obtain ⟨segs, hs, h⟩ := bind_eq_ok h
      obtain ⟨r, hr, h⟩ := bind_eq_ok h
      cases r with
      | none => cases h
      | some v =>
        cases h
        exact ⟨segs, v, hs, hr, rfl⟩

/-- an unknown priority: `calcVersion` answers "not ok" -/
theorem calcVersion_bad_prio (level prio : Int) (segs : List Segment)
    (hp : ¬ (prio = 0 ∨ prio = 1 ∨ prio = 2)) : Model.RMQR.calcVersion level prio segs = .ok none := by
  rw [rm_calcVersion_eq]
  split
  · rfl
  · have h0 : ¬ prio = Gen.RMQR.c_priorityArea := fun h => hp (.inl h)
    have h1 : ¬ prio = Gen.RMQR.c_priorityHeight := fun h => hp (.inr (.inl h))
    have h2 : ¬ prio = Gen.RMQR.c_priorityWidth := fun h => hp (.inr (.inr h))
    rw [if_neg h0, if_neg h1, if_neg h2]
    rw [show (pure [] : Out (List Int)) = Out.ok [] from rfl]
    simp only [Out.bind_ok]
    rw [if_pos (by simp [h0, h1, h2])]
    rfl

theorem prio_nat {prio : Int} (hp : prio = 0 ∨ prio = 1 ∨ prio = 2) : ∃ p : Nat, p < 3 ∧ prio = (p : Int) :=
  ⟨prio.toNat, by omega, by omega⟩

/-- `calcVersion` is total on valid levels -/
theorem calcVersion_total (level : Nat) (hl : level < 2) (prio : Int) (segs : List Segment) :
    ∃ r, Model.RMQR.calcVersion (level : Int) prio segs = .ok r := by
  by_cases hp : prio = 0 ∨ prio = 1 ∨ prio = 2
  · obtain ⟨p, hp3, rfl⟩ := prio_nat hp
    obtain ⟨r, hr, _⟩ := QRV.Props.C05.rmqr_calcVersion_first_fit level p hl hp3 segs
    exact ⟨r, hr⟩
  · exact ⟨none, calcVersion_bad_prio _ _ _ hp⟩

/-- every version holds the empty segment list -/
theorem rmFits_nil (level : Nat) (v : Int) : rmFits level [] v := ⟨0, rfl, Nat.zero_le _⟩

/-- no order list is empty -/
theorem order_head : (List.range 3).all (fun p => ((rmOrder p)[0]?).isSome) = true := by
  decide +kernel

/-- the empty segment list: `calcVersion` returns the first entry of the order list of the priority -/
theorem calcVersion_nil (level prio : Nat) (hl : level < 2) (hp : prio < 3) :
    ∃ v, Model.RMQR.calcVersion (level : Int) (prio : Int) [] = .ok (some v) ∧ (rmOrder prio)[0]? = some v ∧
      0 ≤ v ∧ v < 32 := by
  obtain ⟨r, hr, hsome, hnone⟩ := QRV.Props.C05.rmqr_calcVersion_first_fit level prio hl hp []
  have hhead := forall_lt_of_all order_head prio hp
  obtain ⟨v0, hv0⟩ := Option.isSome_iff_exists.1 hhead
  cases r with
  | none => exact absurd (rmFits_nil level v0) (hnone rfl v0 (List.mem_of_getElem? hv0))
  | some v =>
    obtain ⟨_, i, hi, hmin⟩ := hsome v rfl
    have hi0 : i = 0 := by
      apply Classical.byContradiction
      intro hne
      exact hmin 0 (by omega) v0 hv0 (rmFits_nil level v0)
    subst hi0
    obtain ⟨h0, h32⟩ := rm_order_range prio v (List.mem_of_getElem? hi)
    exact ⟨v, hr, hi, h0, h32⟩

/-- what `rmLen … = some n` says: every segment has a length, `n` is their sum -/
theorem rmAcc_some (v level : Int) (f : Segment → Nat) : ∀ (segs : List Segment) (a n : Nat),
    segs.foldl (rmAcc v level) (some a) = some n →
    (∀ s ∈ segs, ∀ o, Model.RMQR.segLength s v level = .ok o → o = some (f s)) →
    (∀ s ∈ segs, Model.RMQR.segLength s v level = .ok (some (f s))) ∧ n = a + (segs.map f).sum := by
  intro segs
  induction segs with
  | nil => intro a n h _; cases h; exact ⟨fun s hs => (by cases hs), by simp⟩
  | cons s segs ih =>
    intro a n h hf
    rw [List.foldl_cons] at h
    cases hr : rmAcc v level (some a) s with
    | none => rw [hr, rmAcc_none] at h; cases h
    | some a' =>
      rw [hr] at h
      unfold rmAcc at hr
      split at hr
      · rename_i a'' l heq hsl
        cases heq
        cases hr
        have hl := hf s List.mem_cons_self _ hsl
        cases hl
        obtain ⟨h1, h2⟩ := ih _ _ h (fun s' hs' => hf s' (List.mem_cons_of_mem _ hs'))
        refine ⟨fun s' hs' => ?_, ?_⟩
        · rcases List.mem_cons.1 hs' with rfl | hs'
          · exact hsl
          · exact h1 s' hs'
        · rw [h2, List.map_cons, List.sum_cons]; omega
      · cases hr

theorem rmqr_new_valid (level prio : Int) (kanji : Bool) (data : List Nat) (hb : ∀ b ∈ data, b < 256)
    (hsz : data.length < 2 ^ 56) (q : QRCode) (h : Model.RMQR.new level prio kanji data = .ok q) :
    Spec.Valid.RMQR.Valid q ∧ q.level = level ∧ q.segments.flatMap (·.data) = data ∧
      (∀ s ∈ q.segments, s.data ≠ []) ∧ (kanji = false → ∀ s ∈ q.segments, s.mode ≠ 4) := by
  obtain ⟨hlv, hcase⟩ := new_cases level prio kanji data q h
  obtain ⟨l, hl, rfl⟩ := level_of_valid hlv
  rcases hcase with ⟨rfl, v, hv, rfl⟩ | ⟨hne, segs, v, hs, hv, rfl⟩
  · have hp : prio = 0 ∨ prio = 1 ∨ prio = 2 := by
      apply Classical.byContradiction
      intro hp
      rw [calcVersion_bad_prio _ _ _ hp] at hv
      cases hv
    obtain ⟨p, hp3, rfl⟩ := prio_nat hp
    obtain ⟨v', hv', _, hv0, hv32⟩ := calcVersion_nil l p hl hp3
    rw [hv] at hv'
    cases hv'
    refine ⟨⟨?_, ?_, rfl, ?_, ?_⟩, rfl, rfl, ?_, ?_⟩
    · simp only; omega
    · simp only; omega
    · intro c _ s hs; cases hs
    · intro c _; simp
    · intro s hs; cases hs
    · intro _ s hs; cases hs
  · obtain ⟨hcat, hnonempty, hsegs⟩ := dpStepG_out _ _ _ distinct (by decide) kanji data hb hne hsz segs hs
    have hp : prio = 0 ∨ prio = 1 ∨ prio = 2 := by
      apply Classical.byContradiction
      intro hp
      rw [calcVersion_bad_prio _ _ _ hp] at hv
      cases hv
    obtain ⟨p, hp3, rfl⟩ := prio_nat hp
    obtain ⟨r, hr, hsome, _⟩ := QRV.Props.C05.rmqr_calcVersion_first_fit l p hl hp3 segs
    rw [hv] at hr
    cases hr
    obtain ⟨⟨n, hn0, hcapn0⟩, i, hi, _⟩ := hsome v rfl
    have hn : rmLen segs v (l : Int) = some n := hn0
    have hcapn : n ≤ rmCapBits v l := hcapn0
    obtain ⟨hv0, hv32⟩ := rm_order_range p v (List.mem_of_getElem? hi)
    have hvn : v = ((v.toNat : Nat) : Int) := by omega
    -- the facts for the capacity row
    have hrowfacts : ∀ c, RMQR.row v.toNat l = some c →
        (∀ s ∈ segs, ∃ k, RMQR.kindOf s.mode = some k ∧ ValidData k s.data ∧ count k s.data < 2 ^ RMQR.countBits k c) ∧
        (segs.map fun s => RMQR.segBits s c).sum ≤ 8 * c.data := by
      intro c hc
      have hagree := fun s => QRV.Props.C05.rmqr_length_agrees s v.toNat l c hc
      rw [← hvn] at hagree
      -- each segment is of a known kind with valid data
      have hkind : ∀ s ∈ segs, ∃ k, RMQR.kindOf s.mode = some k ∧ ValidData k s.data := by
        intro s hsm
        rcases hsegs s hsm with ⟨hm, hd⟩ | ⟨hm, hd⟩ | ⟨hm, hd⟩ | ⟨_, hm, hd⟩
        · exact ⟨0, by rw [hm]; rfl, hd⟩
        · exact ⟨1, by rw [hm]; rfl, hd⟩
        · exact ⟨2, by rw [hm]; rfl, hd⟩
        · exact ⟨3, by rw [hm]; rfl, hd⟩
      have hlen := rmAcc_some v (l : Int) (fun s => RMQR.segBits s c) segs 0 n (by rw [← rmLen_eq]; exact hn)
        (fun s hsm o ho => by
          rw [hagree s] at ho
          cases ho
          obtain ⟨k, hk, _⟩ := hkind s hsm
          rw [hk]
          simp only
          split
          · rfl
          · rename_i hge
            exfalso
            -- the accumulated length would be `none`
            have hmemlen : ∃ o', Model.RMQR.segLength s v (l : Int) = .ok o' ∧ o' = none := by
              refine ⟨_, hagree s, ?_⟩
              rw [hk]
              simp only [if_neg hge]
            obtain ⟨o', ho', hnone⟩ := hmemlen
            subst hnone
            have : ∀ (segs : List Segment) (a : Nat), s ∈ segs → segs.foldl (rmAcc v (l : Int)) (some a) = none := by
              intro segs
              induction segs with
              | nil => intro a hm; cases hm
              | cons t segs ih =>
                intro a hm
                rw [List.foldl_cons]
                rcases List.mem_cons.1 hm with rfl | hm
                · have : rmAcc v (l : Int) (some a) s = none := by
                    unfold rmAcc
                    rw [ho']
                  rw [this, rmAcc_none]
                · cases hr : rmAcc v (l : Int) (some a) t with
                  | none => rw [rmAcc_none]
                  | some a' => exact ih a' hm
            have hnone := this segs 0 hsm
            rw [← rmLen_eq, hn] at hnone
            cases hnone)
      obtain ⟨hall, hsum⟩ := hlen
      refine ⟨fun s hsm => ?_, ?_⟩
      · obtain ⟨k, hk, hd⟩ := hkind s hsm
        refine ⟨k, hk, hd, ?_⟩
        have h1 := hall s hsm
        rw [hagree s, hk] at h1
        simp only at h1
        apply Classical.byContradiction
        intro hge
        rw [if_neg hge] at h1
        cases h1
      · have hcapc : rmCapBits v l = c.data * 8 := by
          unfold RMQR.row at hc
          unfold rmCapBits
          rw [hc]
          rfl
        have hcapn' : n ≤ rmCapBits v l := hcapn
        omega
    refine ⟨⟨?_, ?_, rfl, ?_, ?_⟩, rfl, hcat, hnonempty, ?_⟩
    · simp only; omega
    · simp only; omega
    · intro c hc
      exact (hrowfacts c (by simpa using hc)).1
    · intro c hc
      exact (hrowfacts c (by simpa using hc)).2
    · intro hk s hsm
      subst hk
      rcases hsegs s hsm with ⟨hm, _⟩ | ⟨hm, _⟩ | ⟨hm, _⟩ | ⟨hf, _⟩
      · omega
      · omega
      · omega
      · cases hf

theorem rmqr_new_roundtrip (level prio : Int) (kanji : Bool) (data : List Nat) (hb : ∀ b ∈ data, b < 256)
    (hsz : data.length < 2 ^ 56) (q : QRCode) (h : Model.RMQR.new level prio kanji data = .ok q) :
    ∃ img, Model.RMQR.encodeToBitmap q = .ok img ∧ Model.RMQR.decodeBitmap img = .ok q ∧
      q.segments.flatMap (·.data) = data := by
  obtain ⟨hvalid, _, hcat, _, _⟩ := rmqr_new_valid level prio kanji data hb hsz q h
  obtain ⟨img, henc, hdec⟩ := QRV.Props.C01.roundtrip_RMQR q hvalid
  exact ⟨img, henc, hdec, hcat⟩

/-- rMQR `New` never panics, whatever the payload (no size bound is needed: `Segment.length` reports
an unknown mode instead of panicking) -/
theorem rmqr_new_no_panic' (level prio : Int) (kanji : Bool) (data : List Nat) :
    (Model.RMQR.new level prio kanji data).isPanic = false := by
  unfold Model.RMQR.new
  simp only []
  split
  · rfl
  · rename_i hlv
    obtain ⟨l, hl, rfl⟩ := level_of_valid (by simpa using hlv)
    split
    · rw [if_pos (show Model.RMQR.NEW_EMPTY_USES_PRIORITY = true from rfl)]
      obtain ⟨r, hr⟩ := calcVersion_total l hl prio []
      rw [hr]
      simp only [Out.bind_ok]
      cases r <;> rfl
    · have hstep := dpStepG_no_panic ((3 + 9) * 6) ((3 + 8) * 6) ((3 + 8) * 6) 1 2 3 4 kanji data
      unfold dpStepG at hstep
      cases hK : (if kanji = true then New.newKanjiSegs [0, 1, 2, 3, 4] data.toArray
          else pure (New.newQRSegs ((3 + 9) * 6) ((3 + 8) * 6) ((3 + 8) * 6) [0, 1, 2, 3] data.toArray)) with
      | ok segs =>
        have e : (if kanji = true then New.newKanjiSegs [0, Model.RMQR.modeNumeric, Model.RMQR.modeAlphanumeric,
              Model.RMQR.modeBytes, Model.RMQR.modeKanji] data.toArray
            else pure (New.newQRSegs ((3 + 9) * 6) ((3 + 8) * 6) ((3 + 8) * 6) [0, Model.RMQR.modeNumeric,
              Model.RMQR.modeAlphanumeric, Model.RMQR.modeBytes] data.toArray)) = .ok segs := hK
        rw [e]
        simp only [Out.bind_ok]
        obtain ⟨r, hr⟩ := calcVersion_total l hl prio segs
        rw [hr]
        simp only [Out.bind_ok]
        cases r <;> rfl
      | err m =>
        have e : (if kanji = true then New.newKanjiSegs [0, Model.RMQR.modeNumeric, Model.RMQR.modeAlphanumeric,
              Model.RMQR.modeBytes, Model.RMQR.modeKanji] data.toArray
            else pure (New.newQRSegs ((3 + 9) * 6) ((3 + 8) * 6) ((3 + 8) * 6) [0, Model.RMQR.modeNumeric,
              Model.RMQR.modeAlphanumeric, Model.RMQR.modeBytes] data.toArray)) = .err m := hK
        rw [e]
        rfl
      | panic m =>
        rw [hK] at hstep
        cases hstep

theorem rmqr_new_no_panic (level prio : Int) (kanji : Bool) (data : List Nat) (_hb : ∀ b ∈ data, b < 256)
    (_hsz : kanji = false → data.length < 2 ^ 56) :
    (Model.RMQR.new level prio kanji data).isPanic = false :=
  rmqr_new_no_panic' level prio kanji data

end QRV.Lemmas.NewRMQRValid
