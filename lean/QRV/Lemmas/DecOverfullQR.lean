import QRV.Lemmas.DecOverfullLoop
import QRV.Lemmas.DecQR
/-
C07 (finding D16, exact bound) — the QR decoder on an arbitrary well-formed bitmap: the buffer handed to the segment
loop holds at most the data codewords of the symbol (the error-correction loop appends `data[:len(block data)]` per
block, and the blocks' data lengths add up to the capacity row's data codewords), so the bound of the segment loop is a
bound in terms of `Spec.Tables.dataCodewords`.
-/
namespace QRV.Lemmas.DecOverfull
open QRV QRV.Model QRV.Model.Bitmap QRV.Model.Sym QRV.Model.QR QRV.Props QRV.Props.C18 QRV.Lemmas.BCH QRV.Lemmas.RT
  QRV.Lemmas.Dec

theorem Sat.of_imp {α : Type} {x : Out α} {P Q : α → Prop} (h : Sat x P) (hq : ∀ a, x = .ok a → P a → Q a) :
    Sat x Q := by
  cases x with
  | ok a => exact hq a rfl h
  | err m => exact trivial
  | panic m => exact h

/-- the error-correction loop appends at most the data length of each block -/
theorem rsLoop_size_from (blks : List (List Nat × List Nat)) : ∀ (init result : Array Nat),
    forIn blks init (fun blk result => do
      let data ← RS.decode (blk.1 ++ blk.2) (QR.RS_SYNDROMES blk.2.length)
      pure (ForInStep.yield (result ++ (data.take blk.1.length).toArray))) = Out.ok result →
    result.size ≤ init.size + (blks.map fun b => b.1.length).sum := by
  induction blks with
  | nil =>
    intro init result e
    rw [List.forIn_nil] at e
    simp only [pure, Out.ok.injEq] at e
    subst e; simp
  | cons blk blks ih =>
    intro init result e
    rw [List.forIn_cons] at e
    obtain ⟨r, e1, e2⟩ := bind_eq_ok e
    obtain ⟨data, -, e3⟩ := bind_eq_ok e1
    simp only [pure, Out.ok.injEq] at e3
    subst e3
    have := ih _ result e2
    rw [List.map_cons, List.sum_cons]
    simp only [Array.size_append, List.size_toArray, List.length_take] at this
    omega

theorem rsLoop_size (blks : List (List Nat × List Nat)) (result : Array Nat) (e : rsLoop blks = .ok result) :
    result.size ≤ (blks.map fun b => b.1.length).sum := by
  have := rsLoop_size_from blks #[] result e
  simpa using this

theorem sum_map_fst_replicate (n a b : Nat) : ((List.replicate n (a, b)).map (·.1)).sum = n * a := by
  induction n with
  | zero => simp
  | succ n ih => rw [List.replicate_succ, List.map_cons, List.sum_cons, ih, Nat.succ_mul]; omega

/-- the data lengths of de-interleaved blocks of a row's shape add up to the row's data codewords -/
theorem data_lengths_sum (blocks : List Gen.GBlock) (n1 n2 d e : Nat) (hs : BlockShape blocks n1 n2 d e)
    (blks : List (List Nat × List Nat)) (hm : blks.map (fun b => (b.1.length, b.2.length)) = sizesOf blocks) :
    (blks.map fun b => b.1.length).sum = n1 * d + n2 * (d + 1) := by
  have : (blks.map fun b => b.1.length) = (blks.map (fun b => (b.1.length, b.2.length))).map (·.1) := by
    rw [List.map_map]; rfl
  rw [this, hm, hs.sizes, List.map_append, List.sum_append, sum_map_fst_replicate, sum_map_fst_replicate]

/-- the QR decoder on a well-formed bitmap: the returned description exceeds the data codewords of the symbol by less
than the last group read for its last segment -/
theorem qr_decode_over_sat (img : Image) (hw : WF img) :
    Sat (decodeBitmapFull img) (fun p => ∀ s, p.1.segments.getLast? = some s →
      sumBits p.1.version.toNat p.1.segments <
        8 * Spec.Tables.dataCodewords p.1.version.toNat p.1.level.toNat + lastGrp s p.1.version.toNat) := by
  unfold decodeBitmapFull
  dsimp only
  split
  · exact trivial
  · rename_i hc
    have hdiv := Int.mul_tdiv_add_tmod (img.dx - 17) 4
    obtain ⟨v, hv⟩ : ∃ v : Nat, (img.dx - 17).tdiv 4 = (v : Int) := ⟨((img.dx - 17).tdiv 4).toNat, by omega⟩
    rw [hv] at hdiv ⊢
    have h1 : 1 ≤ v := by omega
    have h40 : v ≤ 40 := by omega
    have hdx : img.dx = ((17 + 4 * v : Nat) : Int) := by omega
    have hdy : img.dy = ((17 + 4 * v : Nat) : Int) := by omega
    have hreg : Regular (normalise img) (17 + 4 * v) (17 + 4 * v) := by
      have := normalise_regular_of_wf img hw
      rw [hdx, hdy, Int.toNat_natCast] at this
      exact this
    -- format information
    refine Sat.bind (decodeFormat_sat _ _ _ hreg) ?_
    rintro _ ⟨l, m, hl, hm, rfl⟩
    dsimp only
    -- tables
    obtain ⟨-, hused, -, hru, hbin⟩ := version_images v h1 h40
    obtain ⟨pat, hpat, hrp⟩ := mask_image m hm
    rw [hused, hpat]
    simp only [Out.bind_ok, deref]
    -- unmasking
    obtain ⟨bin, hmask, hrb⟩ := C18.mask_ok (normalise img) _ pat _ _ 184 177 (by omega) (by omega) hreg hru hrp
      (by omega) (by omega)
    rw [hmask, Out.bind_ok]
    -- the walk
    obtain ⟨cs, hwalk, hcs⟩ := walk_version v h1 h40
    obtain ⟨rbuf, hrl, hrinv, hrabs⟩ := readLoop_eq _ bin (usedFn v) _ hbin
      (fun x y => binaryAt_spec bin _ _ hrb x y) (16 + 4 * (v : Int)) _ _ cs {} hwalk C16.inv_empty
    unfold fuelOf start at hrl
    rw [hrl, Out.bind_ok]
    -- capacity row and its block structure
    obtain ⟨cap, hcap, hrow, htotal, hdata, -⟩ := capAt_valid v l h1 h40 hl
    rw [hcap, Out.bind_ok]
    obtain ⟨n1, n2, d, e, hs, hd, ht⟩ := shape_of_cap cap (cap_shape v l h1 h40 hl cap hrow)
    have hlen : cap.total ≤ rbuf.buf.toList.length := by
      rw [C16.bytes_are_packing rbuf hrinv, length_pack, hrabs, C16.abs_empty, List.nil_append,
        List.length_map, htotal]
      omega
    obtain ⟨blks, hde, hsz, hall⟩ := deinterleave_any cap.blocks n1 n2 d e hs cap.data cap.total hd.symm ht
      rbuf.buf.toList hrinv.bytes_lt hlen
    rw [hde, Out.bind_ok]
    -- error correction: at most `cap.data` bytes come out
    refine Sat.bind (Sat.of_imp (Q := fun result : Array Nat => result.size ≤ Spec.Tables.dataCodewords v l)
      (rsLoop_sat blks hall) ?_) ?_
    · intro result er _
      have := rsLoop_size blks result er
      rw [data_lengths_sum cap.blocks n1 n2 d e hs blks hsz, hd, hdata] at this
      exact this
    intro result hres
    -- segments
    refine Sat.bind (Sat.of_imp (Q := fun segs : List Segment => ∀ s, segs.getLast? = some s →
        sumBits v segs < 8 * Spec.Tables.dataCodewords v l + lastGrp s v)
      (segmentLoop_sat (v : Int) (by omega) (by omega) _ { buf := result } #[] (by show (0 : Nat) < 8; decide)
        (by unfold rem cur; simp; omega) (by simp)) ?_) ?_
    · intro segs e _ s hs
      have := segmentLoop_over (v : Int) (by omega) (by omega) _ { buf := result } #[]
        ⟨by show (0 : Nat) < 8; decide, by unfold cur; simp, Or.inl (by simp [sumBits])⟩ (by simp) segs e s hs
      simp only [Int.toNat_natCast] at this
      omega
    intro segs hsegs
    refine Sat.pure ?_
    intro s hs
    simp only [Int.toNat_natCast]
    exact hsegs s hs

theorem qr_decodeBitmap_over_sat (img : Image) (hw : WF img) :
    Sat (decodeBitmap img) (fun q => ∀ s, q.segments.getLast? = some s →
      sumBits q.version.toNat q.segments <
        8 * Spec.Tables.dataCodewords q.version.toNat q.level.toNat + lastGrp s q.version.toNat) := by
  unfold decodeBitmap
  exact Sat.bind (qr_decode_over_sat img hw) (fun p hp => hp)

end QRV.Lemmas.DecOverfull
