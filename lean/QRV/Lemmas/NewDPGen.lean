import QRV.Lemmas.NewKanjiValid
/-
C04Ext2 helper: the class-validity of the two mode-selection programmes for ARBITRARY (pairwise
distinct) mode numbers `mN mA mB mK` and header costs, i.e. `Lemmas.NewDP.newQR_valid_QR'` and
`Lemmas.NewKanjiValid.newKanji_valid_QR` generalised from the QR mode list `[0, 1, 2, 4, 8]` to
`[0, mN, mA, mB, mK]` (Micro QR: `[0, 0, 1, 2, 3]` - the numeric indicator equals the unused entry
of index 0, which is harmless: the invariants speak of mode VALUES -, rMQR: `[0, 1, 2, 3, 4]`).
-/
namespace QRV.Lemmas.NewDPGen
open QRV QRV.Model QRV.Model.Sym QRV.Model.New QRV.Model.Codec QRV.Lemmas.NewDP QRV.Spec.Valid
  QRV.Lemmas.NewKanjiValid

/-- pairwise distinct mode numbers -/
structure Distinct (mN mA mB mK : Nat) : Prop where
  na : mN ≠ mA
  nb : mN ≠ mB
  nk : mN ≠ mK
  ab : mA ≠ mB
  ak : mA ≠ mK
  bk : mB ≠ mK

/-- what a segment of the result satisfies, by its mode -/
def SegOKG (mN mA mB mK : Nat) (s : Segment) : Prop :=
  (s.data ≠ [] → s.mode = mN ∨ s.mode = mA ∨ s.mode = mB ∨ s.mode = mK) ∧
  (s.mode = mN → ∀ b ∈ s.data, isNumeric b = true) ∧
  (s.mode = mA → ∀ b ∈ s.data, isAlphanumeric b = true) ∧
  (s.mode = mK → ∃ rs : List Nat, s.data = rs.flatMap Utf8.encodeRune ∧ ∀ r ∈ rs, isKanji r = true)

theorem piece_segOKG {mN mA mB mK : Nat} (hd : Distinct mN mA mB mK) (data : Array Nat) (q : Nat × List Nat)
    (hq : q.2 = [] ∨ ∃ s len, 1 ≤ len ∧ q.2 = sliceK data (some (s, len)) ∧ ClassP data q.1 s len) :
    SegOKG mN mA mB mK { mode := [0, mN, mA, mB, mK][q.1]?.getD 0, data := q.2 } ∧
    ∀ sg : Segment, SegOKG mN mA mB mK sg → sg.mode = [0, mN, mA, mB, mK][q.1]?.getD 0 →
      SegOKG mN mA mB mK { sg with data := sg.data ++ q.2 } := by
  rcases hq with he | ⟨s, len, hl, he, hc⟩
  · rw [he]
    refine ⟨⟨fun h => absurd rfl h, fun _ b hb => (by cases hb), fun _ b hb => (by cases hb), fun _ => ⟨[], rfl, by simp⟩⟩, ?_⟩
    intro sg hsg _
    rw [List.append_nil]
    exact hsg
  · rcases hc with ⟨hm, hlen, hcl⟩ | ⟨hm, hlen, hcl⟩ | ⟨hm, hlen⟩ | ⟨hm, hkc, hlen⟩
    · -- numeric
      subst hlen
      have hmode : [0, mN, mA, mB, mK][q.1]?.getD 0 = mN := by rw [hm]; rfl
      have hnum : ∀ b ∈ q.2, isNumeric b = true := by
        intro b hb; rw [he] at hb; rw [mem_slice_one data s b hb]; exact hcl
      rw [hmode]
      refine ⟨⟨fun _ => .inl rfl, fun _ => hnum, fun h => absurd h hd.na, fun h => absurd h hd.nk⟩, ?_⟩
      intro sg hsg hsm
      refine ⟨fun _ => .inl hsm, fun _ b hb => ?_, fun h => ?_, fun h => ?_⟩
      · rcases List.mem_append.1 hb with hb | hb
        · exact hsg.2.1 hsm b hb
        · exact hnum b hb
      · have h' : sg.mode = mA := h
        exact absurd (hsm.symm.trans h') hd.na
      · have h' : sg.mode = mK := h
        exact absurd (hsm.symm.trans h') hd.nk
    · -- alphanumeric
      subst hlen
      have hmode : [0, mN, mA, mB, mK][q.1]?.getD 0 = mA := by rw [hm]; rfl
      have haln : ∀ b ∈ q.2, isAlphanumeric b = true := by
        intro b hb; rw [he] at hb; rw [mem_slice_one data s b hb]; exact hcl
      rw [hmode]
      refine ⟨⟨fun _ => .inr (.inl rfl), fun h => absurd h.symm hd.na, fun _ => haln, fun h => absurd h hd.ak⟩, ?_⟩
      intro sg hsg hsm
      refine ⟨fun _ => .inr (.inl hsm), fun h => ?_, fun _ b hb => ?_, fun h => ?_⟩
      · have h' : sg.mode = mN := h
        exact absurd (h'.symm.trans hsm) hd.na
      · rcases List.mem_append.1 hb with hb | hb
        · exact hsg.2.2.1 hsm b hb
        · exact haln b hb
      · have h' : sg.mode = mK := h
        exact absurd (hsm.symm.trans h') hd.ak
    · -- bytes
      have hmode : [0, mN, mA, mB, mK][q.1]?.getD 0 = mB := by rw [hm]; rfl
      rw [hmode]
      refine ⟨⟨fun _ => .inr (.inr (.inl rfl)), fun h => absurd h.symm hd.nb, fun h => absurd h.symm hd.ab,
        fun h => absurd h hd.bk⟩, ?_⟩
      intro sg hsg hsm
      refine ⟨fun _ => .inr (.inr (.inl hsm)), fun h => ?_, fun h => ?_, fun h => ?_⟩
      · have h' : sg.mode = mN := h
        exact absurd (h'.symm.trans hsm) hd.nb
      · have h' : sg.mode = mA := h
        exact absurd (h'.symm.trans hsm) hd.ab
      · have h' : sg.mode = mK := h
        exact absurd (hsm.symm.trans h') hd.bk
    · -- kanji
      subst hlen
      have hmode : [0, mN, mA, mB, mK][q.1]?.getD 0 = mK := by rw [hm]; rfl
      obtain ⟨hpe, hkan⟩ := kanji_piece data s hkc
      rw [hmode, he, hpe]
      refine ⟨⟨fun _ => .inr (.inr (.inr rfl)), fun h => absurd h.symm hd.nk, fun h => absurd h.symm hd.ak,
        fun _ => ⟨[(Utf8.decodeRune (data.toList.drop s)).1], by simp, by simpa using hkan⟩⟩, ?_⟩
      intro sg hsg hsm
      refine ⟨fun _ => .inr (.inr (.inr hsm)), fun h => ?_, fun h => ?_, fun _ => ?_⟩
      · have h' : sg.mode = mN := h
        exact absurd (h'.symm.trans hsm) hd.nk
      · have h' : sg.mode = mA := h
        exact absurd (h'.symm.trans hsm) hd.ak
      · obtain ⟨rs, hrs, hall⟩ := hsg.2.2.2 hsm
        refine ⟨rs ++ [(Utf8.decodeRune (data.toList.drop s)).1], ?_, ?_⟩
        · show sg.data ++ _ = _
          rw [hrs]; simp
        · intro r hr
          rcases List.mem_append.1 hr with hr | hr
          · exact hall r hr
          · simp only [List.mem_singleton] at hr
            subst hr
            exact hkan

theorem newKanji_segOKG {mN mA mB mK : Nat} (hd : Distinct mN mA mB mK) (data : Array Nat) (segs : List Segment)
    (h : newKanjiSegs [0, mN, mA, mB, mK] data = .ok segs) : ∀ s ∈ segs, SegOKG mN mA mB mK s := by
  obtain ⟨pieces, he, hp⟩ := newKanji_pieces _ data segs h
  rw [he, mergeSegs_eq]
  refine foldl_mstep_inv _ (SegOKG mN mA mB mK) pieces (fun p hpm => (piece_segOKG hd data p (hp p hpm)).1)
    (fun p hpm => (piece_segOKG hd data p (hp p hpm)).2) [] (by simp)

/-- a segment carries valid data of the kind its mode stands for; kanji only if enabled -/
def SegValid (mN mA mB mK : Nat) (kanji : Bool) (s : Segment) : Prop :=
  (s.mode = mN ∧ ValidData 0 s.data) ∨ (s.mode = mA ∧ ValidData 1 s.data) ∨ (s.mode = mB ∧ ValidData 2 s.data) ∨
  (kanji = true ∧ s.mode = mK ∧ ValidData 3 s.data)

theorem valid_numeric {data : List Nat} (hb : ∀ b ∈ data, b < 256) (h : ∀ b ∈ data, isNumeric b = true) :
    ValidData 0 data :=
  ⟨hb, fun ch hch => (Lemmas.Codec.isNumeric_iff ch).1 (h ch hch)⟩

theorem valid_alnum {data : List Nat} (hb : ∀ b ∈ data, b < 256) (h : ∀ b ∈ data, isAlphanumeric b = true) :
    ValidData 1 data := by
  refine ⟨hb, fun ch hch => ?_⟩
  have := h ch hch
  unfold isAlphanumeric at this
  rw [Lemmas.Codec.alnumIdx_eq_alnumValue] at this
  exact this

/-- the segments of the kanji programme are valid data of the kind of their mode -/
theorem newKanji_valid_gen {mN mA mB mK : Nat} (hd : Distinct mN mA mB mK) (data : Array Nat) (hne : data.size ≠ 0)
    (hsz : data.size < 2 ^ 56) (hb : ∀ b ∈ data.toList, b < 256) (segs : List Segment)
    (h : newKanjiSegs [0, mN, mA, mB, mK] data = .ok segs) :
    ∀ s ∈ segs, SegValid mN mA mB mK true s := by
  obtain ⟨hcat, hnonempty⟩ := newKanji_concat' _ data hne hsz segs h
  intro s hs
  obtain ⟨hmode, hnum, haln, hkan⟩ := newKanji_segOKG hd data segs h s hs
  have hbytes : ∀ b ∈ s.data, b < 256 := by
    intro b hbm
    apply hb
    rw [← hcat]
    exact List.mem_flatMap.2 ⟨s, hs, hbm⟩
  rcases hmode (hnonempty s hs) with hm | hm | hm | hm
  · exact .inl ⟨hm, valid_numeric hbytes (hnum hm)⟩
  · exact .inr (.inl ⟨hm, valid_alnum hbytes (haln hm)⟩)
  · exact .inr (.inr (.inl ⟨hm, hbytes, trivial⟩))
  · obtain ⟨rs, hrs, hall⟩ := hkan hm
    have hrunes : Utf8.runes s.data = rs := by
      rw [hrs]
      exact Lemmas.Dec.runes_flatMap rs (fun r hr => isKanji_runeOK (hall r hr))
    refine .inr (.inr (.inr ⟨rfl, hm, hbytes, fun r hr => ?_, ?_⟩))
    · rw [hrunes] at hr
      exact Lemmas.Enc.isKanji_kanjiChar (hall r hr)
    · rw [hrunes]; exact hrs.symm

/-- the segments of the non-kanji programme are valid data of the kind of their mode -/
theorem newQR_valid_gen (hN hA hB : Nat) {mN mA mB mK : Nat} (hd : Distinct mN mA mB mK) (data : Array Nat)
    (hne : data.size ≠ 0) (hsz : data.size < 2 ^ 56) (hhB : hB ≤ 2 ^ 20) (hb : ∀ b ∈ data.toList, b < 256) :
    ∀ s ∈ newQRSegs hN hA hB [0, mN, mA, mB] data, SegValid mN mA mB mK false s := by
  obtain ⟨best, heq, hbest⟩ := newQR_classes hN hA hB [0, mN, mA, mB] data hne (by unfold inf; omega)
  have hcat := newQR_concat' hN hA hB [0, mN, mA, mB] data
  intro s hs
  have hne' := newQR_nonempty' _ _ _ _ _ s hs
  have hbytes : ∀ b ∈ s.data, b < 256 := by
    intro b hbm
    apply hb
    rw [← hcat]
    exact List.mem_flatMap.2 ⟨s, hs, hbm⟩
  rw [heq] at hs
  have := mergeSegs_modes [0, mN, mA, mB] _
    (fun mode b => (mode = mN ∨ mode = mA ∨ mode = mB) ∧ (mode = mN → isNumeric b = true) ∧
      (mode = mA → isAlphanumeric b = true)) ?_ s hs
  · obtain ⟨b, hbm⟩ := List.exists_mem_of_ne_nil _ hne'
    rcases (this b hbm).1 with hm | hm | hm
    · exact .inl ⟨hm, valid_numeric hbytes (fun b hb => (this b hb).2.1 hm)⟩
    · exact .inr (.inl ⟨hm, valid_alnum hbytes (fun b hb => (this b hb).2.2 hm)⟩)
    · exact .inr (.inr (.inl ⟨hm, hbytes, trivial⟩))
  · intro p hp b hb
    simp only [List.mem_map, List.mem_range] at hp
    obtain ⟨j, hj, rfl⟩ := hp
    simp only [List.mem_singleton] at hb
    subst hb
    obtain ⟨h1, h3, hc1, hc2⟩ := hbest j hj
    have : best[j]! = 1 ∨ best[j]! = 2 ∨ best[j]! = 3 := by omega
    rcases this with h | h | h
    · rw [h] at hc1
      simp only [h]
      exact ⟨.inl rfl, fun _ => hc1 rfl, fun e => absurd e hd.na⟩
    · rw [h] at hc2
      simp only [h]
      exact ⟨.inr (.inl rfl), fun e => absurd e.symm hd.na, fun _ => hc2 rfl⟩
    · simp only [h]
      exact ⟨.inr (.inr rfl), fun e => absurd e.symm hd.nb, fun e => absurd e.symm hd.ab⟩

/-- the segment step of `New` of a package with header costs `hN hA hB` and modes `mN mA mB mK` -/
def dpStepG (hN hA hB mN mA mB mK : Nat) (kanji : Bool) (data : List Nat) : Out (List Segment) :=
  if kanji then New.newKanjiSegs [0, mN, mA, mB, mK] data.toArray
  else pure (New.newQRSegs hN hA hB [0, mN, mA, mB] data.toArray)

theorem size_ne_zero {data : List Nat} (hne : data ≠ []) : data.toArray.size ≠ 0 := by
  simp only [List.size_toArray]
  intro h0
  exact hne (List.eq_nil_of_length_eq_zero h0)

/-- what the mode-selection step of `New` delivers -/
theorem dpStepG_out (hN hA hB : Nat) {mN mA mB mK : Nat} (hd : Distinct mN mA mB mK) (hhB : hB ≤ 2 ^ 20)
    (kanji : Bool) (data : List Nat) (hb : ∀ b ∈ data, b < 256) (hne : data ≠ [])
    (hsz : data.length < 2 ^ 56) (segs : List Segment) (h : dpStepG hN hA hB mN mA mB mK kanji data = .ok segs) :
    segs.flatMap (·.data) = data ∧ (∀ s ∈ segs, s.data ≠ []) ∧ ∀ s ∈ segs, SegValid mN mA mB mK kanji s := by
  have hsize := size_ne_zero hne
  have hsz' : data.toArray.size < 2 ^ 56 := by simpa using hsz
  unfold dpStepG at h
  cases kanji with
  | true =>
    simp only [if_true] at h
    obtain ⟨hcat, hnonempty⟩ := newKanji_concat' _ data.toArray hsize hsz' segs h
    exact ⟨by simpa using hcat, hnonempty, newKanji_valid_gen hd data.toArray hsize hsz' (by simpa using hb) segs h⟩
  | false =>
    simp only [Bool.false_eq_true, if_false] at h
    cases h
    have hcat := newQR_concat' hN hA hB [0, mN, mA, mB] data.toArray
    exact ⟨by simpa using hcat, newQR_nonempty' _ _ _ _ _,
      newQR_valid_gen hN hA hB hd data.toArray hsize hsz' hhB (by simpa using hb)⟩

/-- the segment step never panics (kanji: `newKanji_no_panic'`; otherwise it is a pure function) -/
theorem dpStepG_no_panic (hN hA hB mN mA mB mK : Nat) (kanji : Bool) (data : List Nat) :
    (dpStepG hN hA hB mN mA mB mK kanji data).isPanic = false := by
  unfold dpStepG
  cases kanji with
  | true => simp only [if_true]; exact newKanji_no_panic' _ _
  | false => rfl

end QRV.Lemmas.NewDPGen
