import Mathlib.Algebra.Polynomial.FieldDivision
import Mathlib.Algebra.Polynomial.BigOperators
import Mathlib.Algebra.Polynomial.Degree.Domain
import Mathlib.Algebra.CharP.Two
import Mathlib.Algebra.Ring.GeomSum
import Mathlib.RingTheory.Coprime.Lemmas
import Mathlib.Tactic.Ring
import Mathlib.Tactic.LinearCombination
/-
Abstract algebra behind Sugiyama's decoder over an arbitrary field of characteristic 2:
key equation, uniqueness of the Euclidean solution, roots of the locator, Forney's formula,
and the Vandermonde (minimum distance) lemma.  No reference to the model.
-/
namespace QRV.Lemmas.RSC
open Polynomial Finset

variable {K : Type*} [Field K] [CharP K 2]

set_option linter.unusedSectionVars false

/-- syndrome polynomial S(x) = Σ_{j<n} (Σ_{i∈E} y_i x_i^j) x^j -/
noncomputable def synPoly (E : Finset ℕ) (xs ys : ℕ → K) (n : ℕ) : K[X] :=
  ∑ j ∈ range n, C (∑ i ∈ E, ys i * xs i ^ j) * X ^ j

/-- error locator Λ(x) = Π_{i∈E} (1 + x_i x) -/
noncomputable def locPoly (E : Finset ℕ) (xs : ℕ → K) : K[X] :=
  ∏ i ∈ E, (1 + C (xs i) * X)

/-- error evaluator Ω(x) = Σ_{i∈E} y_i Π_{l∈E, l≠i} (1 + x_l x) -/
noncomputable def evPoly (E : Finset ℕ) (xs ys : ℕ → K) : K[X] :=
  ∑ i ∈ E, C (ys i) * ∏ l ∈ E.erase i, (1 + C (xs l) * X)

theorem lin_ne_zero (a : K) : (1 + C a * X : K[X]) ≠ 0 := by
  intro h
  have := congrArg (fun p => p.coeff 0) h
  simp at this

theorem natDegree_lin_le (a : K) : (1 + C a * X : K[X]).natDegree ≤ 1 := by
  rw [add_comm, ← C_1]
  exact natDegree_linear_le

theorem natDegree_lin (a : K) (ha : a ≠ 0) : (1 + C a * X : K[X]).natDegree = 1 := by
  rw [add_comm, ← C_1]
  exact natDegree_linear ha

theorem geom_two {R : Type*} [CommRing R] [CharP R 2] (y : R) (n : ℕ) :
    (1 + y) * ∑ j ∈ range n, y ^ j = 1 + y ^ n := by
  have := mul_neg_geom_sum y n
  rwa [CharTwo.sub_eq_add, CharTwo.sub_eq_add] at this

theorem synPoly_eq (E : Finset ℕ) (xs ys : ℕ → K) (n : ℕ) :
    synPoly E xs ys n = ∑ i ∈ E, C (ys i) * ∑ j ∈ range n, (C (xs i) * X) ^ j := by
  unfold synPoly
  simp_rw [map_sum, Finset.sum_mul, Finset.mul_sum]
  rw [Finset.sum_comm]
  refine Finset.sum_congr rfl fun i _ => Finset.sum_congr rfl fun j _ => ?_
  rw [C_mul, C_pow, mul_pow, mul_assoc]

theorem lin_coprime (a : K) (ha : a ≠ 0) (p : K[X]) (hp : p.eval a⁻¹ ≠ 0) :
    IsCoprime (1 + C a * X) p := by
  have two : (2 : K[X]) = 0 := CharTwo.two_eq_zero
  have h1 := modByMonic_add_div p (X - C a⁻¹)
  rw [modByMonic_X_sub_C_eq_C_eval] at h1
  have h2 : (X - C a⁻¹ : K[X]) = C a⁻¹ * (1 + C a * X) := by
    rw [mul_add, ← mul_assoc, ← C_mul, inv_mul_cancel₀ ha, C_1, one_mul, mul_one,
      CharTwo.sub_eq_add, add_comm]
  rw [h2] at h1
  have h3 : C (p.eval a⁻¹)⁻¹ * C (p.eval a⁻¹) = 1 := by
    rw [← C_mul, inv_mul_cancel₀ hp, C_1]
  refine ⟨C (p.eval a⁻¹)⁻¹ * C a⁻¹ * (p /ₘ (C a⁻¹ * (1 + C a * X))), C (p.eval a⁻¹)⁻¹, ?_⟩
  linear_combination (-C (p.eval a⁻¹)⁻¹) * h1 + h3 +
    (C (p.eval a⁻¹)⁻¹ * C a⁻¹ * (p /ₘ (C a⁻¹ * (1 + C a * X))) * (1 + C a * X)) * two

theorem key_equation (E : Finset ℕ) (xs ys : ℕ → K) (n : ℕ) :
    X ^ n ∣ locPoly E xs * synPoly E xs ys n + evPoly E xs ys := by
  rw [synPoly_eq, evPoly, Finset.mul_sum, ← Finset.sum_add_distrib]
  apply Finset.dvd_sum
  intro i hi
  have hloc : locPoly E xs = (1 + C (xs i) * X) * ∏ l ∈ E.erase i, (1 + C (xs l) * X) :=
    (Finset.mul_prod_erase E _ hi).symm
  have two : (2 : K[X]) = 0 := CharTwo.two_eq_zero
  have hg := geom_two (C (xs i) * X) n
  refine ⟨C (ys i) * C (xs i) ^ n * ∏ l ∈ E.erase i, (1 + C (xs l) * X), ?_⟩
  rw [hloc]
  rw [mul_pow] at hg
  linear_combination (C (ys i) * ∏ l ∈ E.erase i, (1 + C (xs l) * X)) * hg +
    (C (ys i) * ∏ l ∈ E.erase i, (1 + C (xs l) * X)) * two

theorem locPoly_eval (E : Finset ℕ) (xs : ℕ → K) (a : K) :
    (locPoly E xs).eval a = ∏ i ∈ E, (1 + xs i * a) := by
  simp [locPoly, eval_prod]

theorem locPoly_coeff_zero (E : Finset ℕ) (xs : ℕ → K) : (locPoly E xs).coeff 0 = 1 := by
  rw [coeff_zero_eq_eval_zero, locPoly_eval]; simp

theorem locPoly_ne_zero (E : Finset ℕ) (xs : ℕ → K) : locPoly E xs ≠ 0 := by
  intro h
  have := locPoly_coeff_zero E xs
  rw [h] at this; simp at this

theorem natDegree_locPoly (E : Finset ℕ) (xs : ℕ → K) (hx : ∀ i ∈ E, xs i ≠ 0) :
    (locPoly E xs).natDegree = E.card := by
  unfold locPoly
  rw [natDegree_prod _ _ (fun i _ => lin_ne_zero (xs i))]
  rw [Finset.sum_congr rfl (fun i hi => natDegree_lin (xs i) (hx i hi))]
  simp

theorem natDegree_evPoly_le (E : Finset ℕ) (xs ys : ℕ → K) :
    (evPoly E xs ys).natDegree ≤ E.card - 1 := by
  unfold evPoly
  apply natDegree_sum_le_of_forall_le
  intro i hi
  refine (natDegree_C_mul_le _ _).trans ?_
  refine (natDegree_prod_le _ _).trans ?_
  refine (Finset.sum_le_sum (fun l _ => natDegree_lin_le (xs l))).trans ?_
  simp [Finset.card_erase_of_mem hi]

theorem locPoly_root_iff (E : Finset ℕ) (xs : ℕ → K) (hx : ∀ i ∈ E, xs i ≠ 0) (a : K) :
    (locPoly E xs).eval a = 0 ↔ ∃ i ∈ E, a = (xs i)⁻¹ := by
  rw [locPoly_eval, Finset.prod_eq_zero_iff]
  constructor
  · rintro ⟨i, hi, h⟩
    refine ⟨i, hi, ?_⟩
    rw [CharTwo.add_eq_zero] at h
    exact eq_inv_of_mul_eq_one_right h.symm
  · rintro ⟨i, hi, rfl⟩
    refine ⟨i, hi, ?_⟩
    rw [mul_inv_cancel₀ (hx i hi)]
    exact CharTwo.add_self_eq_zero 1

/-- Forney: Ω(x_k⁻¹) = y_k Π_{l≠k} (1 + x_l x_k⁻¹) -/
theorem evPoly_eval_inv (E : Finset ℕ) (xs ys : ℕ → K) (k : ℕ) (hk : k ∈ E) (hk0 : xs k ≠ 0) :
    (evPoly E xs ys).eval (xs k)⁻¹ = ys k * ∏ l ∈ E.erase k, (1 + xs l * (xs k)⁻¹) := by
  unfold evPoly
  rw [eval_finsetSum, Finset.sum_eq_single_of_mem k hk]
  · simp [eval_prod]
  · intro i hi hik
    rw [eval_mul, eval_prod]
    rw [Finset.prod_eq_zero (i := k) (Finset.mem_erase.mpr ⟨hik.symm, hk⟩), mul_zero]
    simp only [eval_add, eval_one, eval_mul, eval_C, eval_X]
    rw [mul_inv_cancel₀ hk0]
    exact CharTwo.add_self_eq_zero 1

theorem forney_den_ne_zero (E : Finset ℕ) (xs : ℕ → K) (hinj : Set.InjOn xs E) (k : ℕ) (hk : k ∈ E)
    (hk0 : xs k ≠ 0) : ∏ l ∈ E.erase k, (1 + xs l * (xs k)⁻¹) ≠ 0 := by
  rw [Finset.prod_ne_zero_iff]
  intro l hl h
  rw [Finset.mem_erase] at hl
  rw [CharTwo.add_eq_zero] at h
  have h' : xs l = xs k := by
    have := congrArg (· * xs k) h
    simp only [one_mul, inv_mul_cancel_right₀ hk0] at this
    exact this.symm
  exact hl.1 (hinj hl.2 hk h')

theorem loc_ev_coprime (E : Finset ℕ) (xs ys : ℕ → K) (hinj : Set.InjOn xs E)
    (hx : ∀ i ∈ E, xs i ≠ 0) (hy : ∀ i ∈ E, ys i ≠ 0) :
    IsCoprime (locPoly E xs) (evPoly E xs ys) := by
  unfold locPoly
  apply IsCoprime.prod_left
  intro i hi
  apply lin_coprime _ (hx i hi)
  rw [evPoly_eval_inv E xs ys i hi (hx i hi)]
  exact mul_ne_zero (hy i hi) (forney_den_ne_zero E xs hinj i hi (hx i hi))

/-- uniqueness of the solution produced by the Euclidean algorithm (all signs are + : char 2) -/
theorem euclid_unique (n ν : ℕ) (S Λ Ω t r tL rL : K[X])
    (hkey : X ^ n ∣ Λ * S + Ω) (h1 : X ^ n ∣ tL * S + rL) (h2 : X ^ n ∣ t * S + r)
    (h3 : tL * r + t * rL = X ^ n) (hcop : IsCoprime Λ Ω) (hΛ0 : Λ ≠ 0)
    (hdΛ : Λ.natDegree ≤ ν) (hdΩ : Ω.natDegree ≤ ν - 1) (hν : 2 * ν ≤ n)
    (hdt : 2 * t.natDegree ≤ n) (hdr : 2 * r.natDegree < n) :
    ∃ c : K, c ≠ 0 ∧ t = C c * Λ ∧ r = C c * Ω := by
  have two : (2 : K[X]) = 0 := CharTwo.two_eq_zero
  obtain ⟨a, ha⟩ := hkey
  obtain ⟨b1, hb1⟩ := h1
  obtain ⟨b, hb⟩ := h2
  have hdvd : X ^ n ∣ Λ * r + t * Ω :=
    ⟨Λ * b + t * a, by linear_combination Λ * hb + t * ha - (Λ * t * S) * two⟩
  have hdeg : (Λ * r + t * Ω).natDegree < (X ^ n : K[X]).natDegree := by
    rw [natDegree_X_pow]
    refine (natDegree_add_le _ _).trans_lt ?_
    have := natDegree_mul_le (p := Λ) (q := r)
    have := natDegree_mul_le (p := t) (q := Ω)
    rw [max_lt_iff]; constructor <;> omega
  have hz := eq_zero_of_dvd_of_natDegree_lt hdvd hdeg
  have heq : Λ * r = t * Ω := CharTwo.add_eq_zero.mp hz
  have hΛt : Λ ∣ t := hcop.dvd_of_dvd_mul_right ⟨r, heq.symm⟩
  obtain ⟨u, hu⟩ := hΛt
  have hr : r = u * Ω := by
    apply mul_left_cancel₀ hΛ0
    rw [heq, hu]; ring
  have hw : tL * Ω + Λ * rL = X ^ n * (tL * a + Λ * b1) := by
    linear_combination tL * ha + Λ * hb1 - (Λ * tL * S) * two
  have huv : X ^ n * (u * (tL * a + Λ * b1)) = X ^ n * 1 := by
    rw [mul_one]
    linear_combination (-u) * hw + h3 - tL * hr - rL * hu
  have huv' := mul_left_cancel₀ (pow_ne_zero n X_ne_zero) huv
  have hunit : IsUnit u := IsUnit.of_mul_eq_one _ huv'
  obtain ⟨c, hc, rfl⟩ := Polynomial.isUnit_iff.mp hunit
  exact ⟨c, hc.ne_zero, by rw [hu, mul_comm], hr⟩

/-- Vandermonde: at most n distinct locators cannot have n vanishing power sums -/
theorem power_sums_zero (E : Finset ℕ) (xs ys : ℕ → K) (n : ℕ) (hinj : Set.InjOn xs E)
    (hcard : E.card ≤ n) (hs : ∀ j, j < n → ∑ i ∈ E, ys i * xs i ^ j = 0) :
    ∀ i ∈ E, ys i = 0 := by
  intro k hk
  set P : K[X] := ∏ l ∈ E.erase k, (X - C (xs l)) with hP
  have hdeg : P.natDegree < n := by
    have h1 : P.natDegree ≤ (E.erase k).card := by
      refine (natDegree_prod_le _ _).trans ?_
      simp
    rw [Finset.card_erase_of_mem hk] at h1
    have : 0 < E.card := Finset.card_pos.mpr ⟨k, hk⟩
    omega
  have hsum : ∑ i ∈ E, ys i * P.eval (xs i) = 0 := by
    simp_rw [eval_eq_sum_range' hdeg, Finset.mul_sum]
    rw [Finset.sum_comm]
    apply Finset.sum_eq_zero
    intro j hj
    have := hs j (Finset.mem_range.mp hj)
    calc ∑ i ∈ E, ys i * (P.coeff j * xs i ^ j) = P.coeff j * ∑ i ∈ E, ys i * xs i ^ j := by
          rw [Finset.mul_sum]; apply Finset.sum_congr rfl; intros; ring
      _ = 0 := by rw [this, mul_zero]
  rw [Finset.sum_eq_single_of_mem k hk] at hsum
  · have hne : P.eval (xs k) ≠ 0 := by
      rw [hP, eval_prod, Finset.prod_ne_zero_iff]
      intro l hl
      rw [Finset.mem_erase] at hl
      simp only [eval_sub, eval_X, eval_C]
      exact sub_ne_zero.mpr (fun h => hl.1 (hinj hl.2 hk h.symm))
    exact (mul_eq_zero.mp hsum).resolve_right hne
  · intro i hi hik
    rw [hP, eval_prod, Finset.prod_eq_zero (i := i) (Finset.mem_erase.mpr ⟨hik, hi⟩), mul_zero]
    simp

end QRV.Lemmas.RSC
