import QRV.Lemmas.RTBlocksIlv
/-
Round trip C01, block structure, part 3: the interleaving of a family of lists of the two-group
shape (n1 lists of length d, then n2 lists of length d + 1), element by element.
-/
namespace QRV.Lemmas.RT
open QRV

/-! ### generalities -/

theorem le_foldl_max (ls : List (List Nat)) (m : Nat) :
    m ≤ ls.foldl (fun m b => max m b.length) m ∧
      ∀ l ∈ ls, l.length ≤ ls.foldl (fun m b => max m b.length) m := by
  induction ls generalizing m with
  | nil => simp
  | cons a ls ih =>
    simp only [List.foldl_cons, List.mem_cons]
    obtain ⟨h1, h2⟩ := ih (max m a.length)
    refine ⟨by omega, ?_⟩
    rintro l (rfl | hl)
    · omega
    · exact h2 l hl

theorem le_maxLen (ls : List (List Nat)) : ∀ l ∈ ls, l.length ≤ maxLen ls := (le_foldl_max ls 0).2

theorem foldl_max_le (ls : List (List Nat)) (m M : Nat) (hm : m ≤ M) (h : ∀ l ∈ ls, l.length ≤ M) :
    ls.foldl (fun m b => max m b.length) m ≤ M := by
  induction ls generalizing m with
  | nil => simpa
  | cons a ls ih =>
    simp only [List.foldl_cons]
    have := h a (by simp)
    exact ih _ (by omega) (fun l hl => h l (by simp [hl]))

theorem maxLen_le (ls : List (List Nat)) (M : Nat) (h : ∀ l ∈ ls, l.length ≤ M) : maxLen ls ≤ M :=
  foldl_max_le ls 0 M (Nat.zero_le _) h

theorem ilvRow_eq_nil (ls : List (List Nat)) (i : Nat) (h : ∀ l ∈ ls, l.length ≤ i) :
    ilvRow ls i = [] := by
  simp only [ilvRow, List.filterMap_eq_nil_iff]
  intro l hl
  simp [h l hl]

theorem ilvRow_eq_map (ls : List (List Nat)) (i : Nat) (h : ∀ l ∈ ls, i < l.length) :
    ilvRow ls i = ls.map (fun l => l[i]?.getD 0) := by
  induction ls with
  | nil => rfl
  | cons a ls ih =>
    have ha := h a (by simp)
    simp only [ilvRow, List.map_cons, List.filterMap_cons] at ih ⊢
    rw [List.getElem?_eq_getElem ha]
    simp only [Option.getD_some]
    rw [ih (fun l hl => h l (by simp [hl]))]

theorem ilvRow_append (l1 l2 : List (List Nat)) (i : Nat) :
    ilvRow (l1 ++ l2) i = ilvRow l1 i ++ ilvRow l2 i := by
  simp [ilvRow]

theorem flat_trunc (row : Nat → List Nat) (a : Nat) (h : ∀ i, a ≤ i → row i = []) (t : Nat) :
    (List.range (a + t)).flatMap row = (List.range a).flatMap row := by
  induction t with
  | zero => rfl
  | succ t ih =>
    rw [← Nat.add_assoc, List.range_succ, List.flatMap_append, ih]
    simp [h (a + t) (by omega)]

theorem ilv1_eq_of_le (ls : List (List Nat)) (M : Nat) (h : ∀ l ∈ ls, l.length ≤ M) :
    ilv1 ls = (List.range M).flatMap (ilvRow ls) := by
  have hM := maxLen_le ls M h
  obtain ⟨t, rfl⟩ : ∃ t, M = maxLen ls + t := ⟨M - maxLen ls, by omega⟩
  rw [flat_trunc _ _ (fun i hi => ilvRow_eq_nil ls i (fun l hl => by
    have := le_maxLen ls l hl; omega))]
  rfl

theorem flat_uniform_length (g : Nat → List Nat) (w n : Nat) (h : ∀ i, i < n → (g i).length = w) :
    ((List.range n).flatMap g).length = n * w := by
  induction n with
  | zero => simp
  | succ n ih =>
    rw [List.range_succ, List.flatMap_append, List.length_append, ih (fun i hi => h i (by omega)),
      Nat.succ_mul]
    simp [h n (by omega)]

theorem flat_uniform_get (g : Nat → List Nat) (w n : Nat) (h : ∀ i, i < n → (g i).length = w)
    (rest : List Nat) (i k : Nat) (hi : i < n) (hk : k < w) :
    ((List.range n).flatMap g ++ rest)[i * w + k]? = (g i)[k]? := by
  induction n generalizing rest with
  | zero => omega
  | succ n ih =>
    have hlen := flat_uniform_length g w n (fun i hi => h i (by omega))
    rw [List.range_succ, List.flatMap_append, List.append_assoc]
    by_cases hin : i < n
    · exact ih (fun i hi => h i (by omega)) _ hin
    · have : i = n := by omega
      subst this
      rw [List.getElem?_append_right (by omega), hlen, Nat.add_sub_cancel_left]
      simp only [List.flatMap_cons, List.flatMap_nil, List.append_nil]
      rw [List.getElem?_append_left (by rw [h i (by omega)]; exact hk)]

theorem flat_uniform_get_rest (g : Nat → List Nat) (w n : Nat) (h : ∀ i, i < n → (g i).length = w)
    (rest : List Nat) (m : Nat) :
    ((List.range n).flatMap g ++ rest)[n * w + m]? = rest[m]? := by
  rw [List.getElem?_append_right (by rw [flat_uniform_length g w n h]; omega),
    flat_uniform_length g w n h, Nat.add_sub_cancel_left]

/-! ### the two-group shape -/

/-- n1 lists of length d followed by n2 lists of length d + 1 -/
def Shape (ls : List (List Nat)) (n1 n2 d : Nat) : Prop :=
  ls.map List.length = List.replicate n1 d ++ List.replicate n2 (d + 1)

/-- stream position of byte r of list k -/
def pos (n1 n2 d : Nat) (r k : Nat) : Nat :=
  if r < d then r * (n1 + n2) + k else d * (n1 + n2) + (k - n1)

theorem Shape.length {ls n1 n2 d} (h : Shape ls n1 n2 d) : ls.length = n1 + n2 := by
  have := congrArg List.length h
  simpa using this

theorem Shape.len_lt {ls n1 n2 d} (h : Shape ls n1 n2 d) (k : Nat) (hk : k < n1) :
    (ls[k]?).map List.length = some d := by
  have := congrArg (·[k]?) h
  simp only [List.getElem?_map] at this
  rw [this, List.getElem?_append_left (by simpa using hk)]
  simp [hk]

theorem Shape.len_ge {ls n1 n2 d} (h : Shape ls n1 n2 d) (k : Nat) (hk : n1 ≤ k) (hk2 : k < n1 + n2) :
    (ls[k]?).map List.length = some (d + 1) := by
  have := congrArg (·[k]?) h
  simp only [List.getElem?_map] at this
  rw [this, List.getElem?_append_right (by simpa using hk)]
  rw [List.length_replicate, List.getElem?_replicate, if_pos (by omega)]

theorem Shape.take {ls n1 n2 d} (h : Shape ls n1 n2 d) : ∀ l ∈ ls.take n1, l.length = d := by
  have : (ls.take n1).map List.length = List.replicate n1 d := by
    rw [List.map_take, h, List.take_append_of_le_length (by simp)]
    simp
  intro l hl
  have hm : l.length ∈ (ls.take n1).map List.length := List.mem_map_of_mem hl
  rw [this] at hm
  exact (List.mem_replicate.mp hm).2

theorem Shape.drop {ls n1 n2 d} (h : Shape ls n1 n2 d) : ∀ l ∈ ls.drop n1, l.length = d + 1 := by
  have : (ls.drop n1).map List.length = List.replicate n2 (d + 1) := by
    rw [List.map_drop, h, List.drop_append_of_le_length (by simp)]
    simp
  intro l hl
  have hm : l.length ∈ (ls.drop n1).map List.length := List.mem_map_of_mem hl
  rw [this] at hm
  exact (List.mem_replicate.mp hm).2

theorem Shape.mem {ls n1 n2 d} (h : Shape ls n1 n2 d) : ∀ l ∈ ls, d ≤ l.length ∧ l.length ≤ d + 1 := by
  intro l hl
  rw [← List.take_append_drop n1 ls, List.mem_append] at hl
  rcases hl with hl | hl
  · have := h.take l hl; omega
  · have := h.drop l hl; omega

theorem Shape.row_lt {ls n1 n2 d} (h : Shape ls n1 n2 d) (i : Nat) (hi : i < d) :
    ilvRow ls i = ls.map (fun l => l[i]?.getD 0) :=
  ilvRow_eq_map ls i (fun l hl => by have := h.mem l hl; omega)

theorem Shape.row_d {ls n1 n2 d} (h : Shape ls n1 n2 d) :
    ilvRow ls d = (ls.drop n1).map (fun l => l[d]?.getD 0) := by
  conv => lhs; rw [← List.take_append_drop n1 ls]
  rw [ilvRow_append, ilvRow_eq_nil _ d (fun l hl => by have := h.take l hl; omega),
    List.nil_append, ilvRow_eq_map _ d (fun l hl => by have := h.drop l hl; omega)]

theorem Shape.ilv1_eq {ls n1 n2 d} (h : Shape ls n1 n2 d) :
    ilv1 ls = (List.range d).flatMap (ilvRow ls) ++ ilvRow ls d := by
  rw [ilv1_eq_of_le ls (d + 1) (fun l hl => (h.mem l hl).2), List.range_succ, List.flatMap_append]
  simp

theorem Shape.ilv1_length {ls n1 n2 d} (h : Shape ls n1 n2 d) :
    (ilv1 ls).length = d * (n1 + n2) + n2 := by
  rw [h.ilv1_eq, List.length_append, flat_uniform_length (ilvRow ls) (n1 + n2) d
    (fun i hi => by rw [h.row_lt i hi, List.length_map, h.length]), h.row_d]
  simp [h.length]

/-- byte r of list k sits at position `pos r k` of the interleaving -/
theorem Shape.ilv1_get {ls n1 n2 d} (h : Shape ls n1 n2 d) (k r : Nat) (hk : k < n1 + n2)
    (hr : r < (ls[k]?.map List.length).getD 0) :
    (ilv1 ls)[pos n1 n2 d r k]? = ls[k]?.bind (·[r]?) := by
  have hkl : k < ls.length := by rw [h.length]; exact hk
  have hu : ∀ i, i < d → (ilvRow ls i).length = n1 + n2 := fun i hi => by
    rw [h.row_lt i hi, List.length_map, h.length]
  rw [h.ilv1_eq]
  unfold pos
  simp only [List.getElem?_eq_getElem hkl, Option.map_some, Option.getD_some, Option.bind_some] at hr ⊢
  by_cases hrd : r < d
  · rw [if_pos hrd, flat_uniform_get _ _ _ hu _ _ _ hrd hk, h.row_lt r hrd, List.getElem?_map,
      List.getElem?_eq_getElem hkl]
    simp [show r < ls[k].length from hr]
  · rw [if_neg hrd, flat_uniform_get_rest _ _ _ hu, h.row_d, List.getElem?_map]
    have hk1 : n1 ≤ k := by
      by_cases hlt : k < n1
      · have := h.len_lt k hlt
        simp only [List.getElem?_eq_getElem hkl, Option.map_some, Option.some.injEq] at this
        omega
      · omega
    have := h.len_ge k hk1 hk
    simp only [List.getElem?_eq_getElem hkl, Option.map_some, Option.some.injEq] at this
    have hrd' : r = d := by omega
    subst hrd'
    rw [List.getElem?_drop, show n1 + (k - n1) = k by omega, List.getElem?_eq_getElem hkl]
    simp [show r < ls[k].length from hr]

end QRV.Lemmas.RT
