import QRV.Lemmas.RTBlocksSplit
import QRV.Lemmas.Bitmap
/-
Round trip C01, block structure, part 2: list-level specification of `Model.Sym.interleave`
(`ilvList`) and the proof that the model loops write exactly these bytes.
-/
namespace QRV.Lemmas.RT
open QRV QRV.Model QRV.Model.Bits QRV.Model.Sym QRV.Spec.Bits QRV.Lemmas.Bits
open QRV.Props.C16 (abs)

local notation "CInv" => QRV.Props.C16.Inv

/-! ### the byte sequence -/

/-- row i of the interleaving: the i-th byte of every list that has one -/
def ilvRow (ls : List (List Nat)) (i : Nat) : List Nat := ls.filterMap (·[i]?)

def maxLen (ls : List (List Nat)) : Nat := ls.foldl (fun m b => max m b.length) 0

/-- the interleaving of a family of lists -/
def ilv1 (ls : List (List Nat)) : List Nat := (List.range (maxLen ls)).flatMap (ilvRow ls)

/-- the byte sequence `interleave` writes: data rows, then correction rows -/
def ilvList (blocks : List (List Nat × List Nat)) : List Nat :=
  ilv1 (blocks.map (·.1)) ++ ilv1 (blocks.map (·.2))

theorem ilvRow_map {β : Type} (f : β → List Nat) (l : List β) (i : Nat) :
    ilvRow (l.map f) i = l.filterMap (fun b => (f b)[i]?) := by
  simp [ilvRow, List.filterMap_map, Function.comp_def]

theorem maxLen_map {β : Type} (f : β → List Nat) (l : List β) :
    maxLen (l.map f) = l.foldl (fun m b => max m (f b).length) 0 := by
  simp [maxLen, List.foldl_map]

theorem mem_ilvRow {ls : List (List Nat)} {i x : Nat} (h : x ∈ ilvRow ls i) : ∃ l ∈ ls, x ∈ l := by
  simp only [ilvRow, List.mem_filterMap] at h
  obtain ⟨l, hl, hx⟩ := h
  exact ⟨l, hl, List.mem_of_getElem? hx⟩

theorem mem_ilv1 {ls : List (List Nat)} {x : Nat} (h : x ∈ ilv1 ls) : ∃ l ∈ ls, x ∈ l := by
  simp only [ilv1, List.mem_flatMap] at h
  obtain ⟨i, _, hx⟩ := h
  exact mem_ilvRow hx

/-! ### the model loops -/

/-- body of the inner loops of `interleave`, for a byte selector `g` -/
def wInner {β : Type} (g : β → Option Nat) (b : β) (s : Buffer) : Out (ForInStep Buffer) :=
  match g b with
  | some v => do
    let buf ← writeBitsLSB s v 8
    pure (ForInStep.yield buf)
  | none => pure (ForInStep.yield s)

theorem interleave_eq (blocks : List (List Nat × List Nat)) (ret : Buffer) :
    interleave blocks ret =
      ((forIn [:blocks.foldl (fun m b => max m b.1.length) 0] ret fun i s => do
        let s' ← forIn blocks s (wInner fun b => b.1[i]?)
        pure (ForInStep.yield s')) >>= fun s =>
      (forIn [:blocks.foldl (fun m b => max m b.2.length) 0] s fun i s => do
        let s' ← forIn blocks s (wInner fun b => b.2[i]?)
        pure (ForInStep.yield s')) >>= fun s => pure s) := rfl

/-- `f` appends exactly `bytes` (as bits) to every buffer satisfying the invariant -/
def Writes (f : Buffer → Out Buffer) (bytes : List Nat) : Prop :=
  ∀ s, CInv s → ∃ s', f s = .ok s' ∧ CInv s' ∧ abs s' = abs s ++ unpack bytes ∧
    s'.offset = s.offset ∧ s'.read = s.read

theorem writes_inner {β : Type} (g : β → Option Nat) (l : List β)
    (hg : ∀ x ∈ l, ∀ v, g x = some v → v < 256) :
    Writes (fun s => forIn l s (wInner g)) (l.filterMap g) := by
  induction l with
  | nil => intro s hs; exact ⟨s, rfl, hs, by simp, rfl, rfl⟩
  | cons x l ih =>
    intro s hs
    dsimp only
    rw [List.forIn_cons]
    cases hx : g x with
    | none =>
      obtain ⟨s', e, hi, ha, ho, hr⟩ := ih (fun y hy => hg y (by simp [hy])) s hs
      refine ⟨s', ?_, hi, ?_, ho, hr⟩
      · simp only [wInner, hx, pure_bind_out]; exact e
      · rw [ha, List.filterMap_cons_none hx]
    | some v =>
      obtain ⟨s1, e1, hi1, ha1, ho1, hr1⟩ := Props.C16.writeBitsLSB_refines s hs v 8 (by decide)
      obtain ⟨s', e, hi, ha, ho, hr⟩ := ih (fun y hy => hg y (by simp [hy])) s1 hi1
      refine ⟨s', ?_, hi, ?_, by omega, by omega⟩
      · simp only [wInner, hx]
        have e1' : writeBitsLSB s v 8 = .ok s1 := e1
        rw [e1']
        simp only [Out.bind_ok, pure_bind_out]
        exact e
      · rw [ha, ha1, List.filterMap_cons_some hx, unpack_cons, List.append_assoc]

theorem writes_outer (blocks : List (List Nat × List Nat)) (sel : List Nat × List Nat → List Nat)
    (hb : ∀ b ∈ blocks, ∀ x ∈ sel b, x < 256) (n : Nat) :
    Writes (fun s => forIn [:n] s fun i s => do
        let s' ← forIn blocks s (wInner fun b => (sel b)[i]?)
        pure (ForInStep.yield s'))
      ((List.range n).flatMap (ilvRow (blocks.map sel))) := by
  intro s hs
  simp only [forIn_range_eq]
  obtain ⟨s', e, hi, ha, ho, hr⟩ := Lemmas.Bitmap.forIn_range'_ok
    (fun i s => do
        let s' ← forIn blocks s (wInner fun b => (sel b)[i]?)
        pure (ForInStep.yield s'))
    (fun k s' => CInv s' ∧ abs s' = abs s ++ unpack ((List.range k).flatMap (ilvRow (blocks.map sel))) ∧
      s'.offset = s.offset ∧ s'.read = s.read) n 0 s ⟨hs, by simp, rfl, rfl⟩
    (by
      rintro k t - - ⟨hit, hat, hot, hrt⟩
      obtain ⟨t', e, hi, ha, ho, hr⟩ := writes_inner (fun b : List Nat × List Nat => (sel b)[k]?) blocks
        (fun b hbm v hv => hb b hbm v (List.mem_of_getElem? hv)) t hit
      simp only at e
      rw [e]
      refine ⟨t', rfl, hi, ?_, by omega, by omega⟩
      rw [ha, hat, List.range_succ, List.flatMap_append, unpack_append, List.append_assoc]
      simp [ilvRow_map])
  simp only [Nat.zero_add] at ha
  exact ⟨s', e, hi, ha, ho, hr⟩

/-- the byte sequence written by `interleave` -/
theorem interleave_writes (blocks : List (List Nat × List Nat))
    (hb : ∀ b ∈ blocks, (∀ x ∈ b.1, x < 256) ∧ ∀ x ∈ b.2, x < 256) :
    Writes (interleave blocks) (ilvList blocks) := by
  intro s hs
  rw [interleave_eq]
  obtain ⟨s1, e1, hi1, ha1, ho1, hr1⟩ := writes_outer blocks (·.1) (fun b h => (hb b h).1)
    (blocks.foldl (fun m b => max m b.1.length) 0) s hs
  obtain ⟨s2, e2, hi2, ha2, ho2, hr2⟩ := writes_outer blocks (·.2) (fun b h => (hb b h).2)
    (blocks.foldl (fun m b => max m b.2.length) 0) s1 hi1
  simp only at e1 e2
  rw [e1]
  simp only [Out.bind_ok]
  rw [e2]
  refine ⟨s2, rfl, hi2, ?_, by omega, by omega⟩
  rw [ha2, ha1, ilvList, ilv1, ilv1, maxLen_map, maxLen_map, unpack_append, List.append_assoc]

/-- from the empty buffer: the buffer holds exactly the interleaved bytes, byte aligned -/
theorem interleave_empty (blocks : List (List Nat × List Nat))
    (hb : ∀ b ∈ blocks, (∀ x ∈ b.1, x < 256) ∧ ∀ x ∈ b.2, x < 256) :
    ∃ ibuf, interleave blocks {} = .ok ibuf ∧ CInv ibuf ∧ ibuf.wrote = 0 ∧ ibuf.offset = 0 ∧
      ibuf.read = 0 ∧ ibuf.buf.toList = ilvList blocks := by
  obtain ⟨s, e, hi, ha, ho, hr⟩ := interleave_writes blocks hb {} Props.C16.inv_empty
  rw [Props.C16.abs_empty, List.nil_append] at ha
  have hbytes : ∀ x ∈ ilvList blocks, x < 256 := by
    intro x hx
    simp only [ilvList, List.mem_append] at hx
    rcases hx with hx | hx
    · obtain ⟨l, hl, hxl⟩ := mem_ilv1 hx
      simp only [List.mem_map] at hl
      obtain ⟨b, hbm, rfl⟩ := hl
      exact (hb b hbm).1 x hxl
    · obtain ⟨l, hl, hxl⟩ := mem_ilv1 hx
      simp only [List.mem_map] at hl
      obtain ⟨b, hbm, rfl⟩ := hl
      exact (hb b hbm).2 x hxl
  have hl : s.buf.toList = ilvList blocks := by
    rw [Props.C16.bytes_are_packing s hi, ha, pack_unpack _ hbytes]
  have hlen := Props.C16.len_eq s hi
  rw [ha, length_unpack] at hlen
  have hsz : s.buf.size = (ilvList blocks).length := by rw [← hl]; simp
  have hw : s.wrote = 0 := by
    have h8 := hi.wrote_lt
    have hne := hi.nonempty
    unfold Buffer.len at hlen
    by_cases h0 : s.wrote = 0
    · exact h0
    · rw [if_pos h0] at hlen
      have := hne h0
      omega
  exact ⟨s, e, hi, hw, ho, hr, hl⟩

end QRV.Lemmas.RT
