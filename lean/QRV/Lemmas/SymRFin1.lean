import QRV.Spec.SymbolRMQR
import QRV.Gen.RMQR
/-
Kernel evaluation, all 32 rMQR versions: the versions in which the standard's placement order
without the data modules of column 1 still offers 8 * total codeword bits (both levels) - the
complement of the 11 deficit versions of finding D18 (`Props.C01.rmqr_walk_deficits`).
-/
namespace QRV.Lemmas.SymRFin
open QRV QRV.Spec.Symbol.RMQR

set_option maxRecDepth 1000000

theorem exact_versions :
    (List.range 32).filter (fun v => (Gen.RMQR.capacityTable[v]?.getD []).all fun c =>
      decide (8 * c.total ≤ ((dataCoords v).filter (fun c => c.1 != 1)).length)) =
    [0, 1, 2, 3, 4, 5, 6, 7, 8, 9, 10, 11, 13, 14, 15, 16, 18, 19, 20, 24, 25] := by
  decide +kernel

end QRV.Lemmas.SymRFin
