import QRV.Lemmas.RTWalk
/-
Kernel evaluation of the module walk, versions 5, 11, 22, 30, 35: the model's fuel suffices and there is
room for all codewords (`checkV`, see `RTWalk`).
-/
namespace QRV.Lemmas.RT
set_option maxRecDepth 1000000

theorem walk_ok_5 : checkV 5 = true := by decide +kernel
theorem walk_ok_11 : checkV 11 = true := by decide +kernel
theorem walk_ok_22 : checkV 22 = true := by decide +kernel
theorem walk_ok_30 : checkV 30 = true := by decide +kernel
theorem walk_ok_35 : checkV 35 = true := by decide +kernel

end QRV.Lemmas.RT
