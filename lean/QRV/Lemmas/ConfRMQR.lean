import QRV.Props.C02SymbolRMQR
import QRV.Props.C03RMQR
import QRV.Lemmas.SymUnique
/-
C03 / C01, rMQR: any regular bitmap whose pixels are the standard's symbol of a valid description is
decoded to that description - in every version, also in the 11 versions in which the library's own
output is NOT the standard's symbol (finding D18: its walk neither places nor reads the data modules
of column 1).  Route: the whole-symbol correction theorem `C03.rmqr_corrects_rated_damage` with zero
damage (`blks' := blks`), whose hypotheses are pixel-wise and only speak of the function modules and
of the data modules along the library's walk, which never visits column 1.  The specification
determines the symbol (`symbol_unique`, the rMQR analogue of `SymUnique.symbol_unique`), so the given
bitmap agrees with the pixel function of `C02.rmqr_symbol_except_column1`, hence with the library's
output on every module that is not a data module of column 1.
-/
open QRV QRV.Model QRV.Model.Sym QRV.Model.Bitmap QRV.Props QRV.Spec.Bits QRV.Spec.Valid
open QRV.Lemmas.RT QRV.Spec.Symbol.RMQR
open QRV.Spec.Patterns.RMQR (width height isFunction)
namespace QRV.Lemmas.Conf

/-- the block shapes of a capacity row of the rMQR table: 2 ≤ parity ≤ 68, block ≤ 255 codewords -/
theorem rmqr_shape_bounds (v l : Nat) (c : Gen.GCap) (hc : RMQR.row v l = some c) (s : Nat × Nat)
    (hs : s ∈ sizesOf c.blocks) : 2 ≤ s.2 ∧ s.2 ≤ 68 ∧ s.1 + s.2 ≤ 255 := by
  have h := C03.rmqr_rows
  rw [List.all_eq_true] at h
  unfold RMQR.row at hc
  cases hr : Gen.RMQR.capacityTable[v]? with
  | none => rw [hr] at hc; simp at hc
  | some row =>
    rw [hr] at hc
    simp only [Option.getD_some] at hc
    have h2 := h row (List.mem_of_getElem? hr)
    rw [List.all_eq_true] at h2
    have h3 := h2 c (List.mem_of_getElem? hc)
    unfold C03.rowOK at h3
    rw [List.all_eq_true] at h3
    simp only [sizesOf, List.mem_flatMap, List.mem_replicate] at hs
    obtain ⟨bc, hbc, -, rfl⟩ := hs
    have h4 := h3 bc hbc
    simp only [Bool.and_eq_true, decide_eq_true_eq] at h4
    simp only
    omega

/-- the specification determines the rMQR symbol -/
theorem rmqr_symbol_unique (q : QRCode) (px px' : Nat → Nat → Bool)
    (h : IsSymbol q px) (h' : IsSymbol q px') :
    ∀ x y, x < width q.version.toNat → y < height q.version.toNat → px x y = px' x y := by
  simp only [IsSymbol] at h h'
  obtain ⟨c, hc, blks, hs, hb, hst, hrs, hpx⟩ := h
  obtain ⟨c', hc', blks', hs', hb', hst', hrs', hpx'⟩ := h'
  rw [hc] at hc'
  cases hc'
  have hflat : blks.flatMap (·.1) = blks'.flatMap (·.1) := by
    apply SymUnique.unpack_inj
    · intro x hx
      obtain ⟨b, hbm, hxb⟩ := List.mem_flatMap.1 hx
      exact (hb b hbm).1 x hxb
    · intro x hx
      obtain ⟨b, hbm, hxb⟩ := List.mem_flatMap.1 hx
      exact (hb' b hbm).1 x hxb
    · rw [hst, hst']
  have heq : blks = blks' := by
    refine SymUnique.blocks_eq blks blks' (by rw [hs, hs']) hflat ?_
    intro b hbm b' hbm' hd hl2
    have hmem : (b.1.length, b.2.length) ∈ sizesOf c.blocks := by
      rw [← hs]; exact List.mem_map_of_mem (f := fun b => (b.1.length, b.2.length)) hbm
    obtain ⟨e2, e68, eL⟩ := rmqr_shape_bounds _ _ c hc _ hmem
    simp only at e2 e68 eL
    refine SymUnique.parity_unique b.2.length e2 e68 b.1 b.2 b'.2 (hb b hbm).1 (hb b hbm).2 (hb' b' hbm').2 rfl
      hl2.symm eL (hrs b hbm) ?_
    intro i hi
    rw [hd]
    exact hrs' b' hbm' i (by omega)
  subst heq
  intro x y hx hy
  rw [hpx x y hx hy, hpx' x y hx hy]

theorem rmqr_reads_conformant (q : QRCode) (hv : RMQR.Valid q) (img : Image)
    (hr : C18.Regular img (width q.version.toNat) (height q.version.toNat))
    (hs : IsSymbol q (C18.px img)) :
    Model.RMQR.decodeBitmap img = .ok q := by
  have hv32 : q.version.toNat < 32 := by have := hv.version; omega
  -- the library's output: the standard's symbol except for the data modules of column 1
  obtain ⟨img0, px0, henc, hreg0, hsym0, hout, -⟩ := C02.rmqr_symbol_except_column1 q hv
  have hpx := rmqr_symbol_unique q _ _ hs hsym0
  obtain ⟨img1, cap, buf, blks, cs, henc1, hcap, hbuf, hblks, hcs, hreg, hshape, hbytes, hcarry, hzero⟩ :=
    C03.rmqr_hypotheses_satisfiable q hv
  rw [henc] at henc1
  cases henc1
  obtain ⟨hW27, -, hH7, -⟩ := RR.sizes_ok q.version.toNat hv32
  have hrange := (RR.walk_sound (RR.usedFn q.version.toNat) ((RR.W q.version.toNat : Int) - 1)
    ((RR.H q.version.toNat : Int) - 1) (by omega) (by omega) _ cs hcs).2
  have hstd := (C02.rmqr_walk_is_standard_without_column1 q.version.toNat hv32 cs hcs).1
  refine C03.rmqr_corrects_rated_damage q hv img0 henc cap hcap buf hbuf blks hblks cs hcs img hr ?_ blks hshape hbytes
    ?_ (fun j hj _ => by rw [hzero j hj]; exact Nat.zero_le _)
  · -- function modules
    intro x y hx hy hu
    rw [SymRWalk.usedFn_isFunction _ hv32 x y hx hy] at hu
    rw [hpx x y hx hy, hout x y hx hy (Or.inr hu)]
  · -- data modules along the walk: never in column 1
    intro k hk hk'
    have hr' := hrange _ (List.getElem_mem hk')
    have hx : (cs[k]).1.toNat < width q.version.toNat := by
      have : (cs[k]).1 ≤ (RR.W q.version.toNat : Int) - 1 - 1 := hr'.2.1
      show _ < RR.W q.version.toNat
      omega
    have hy : (cs[k]).2.toNat < height q.version.toNat := by
      have : (cs[k]).2 ≤ (RR.H q.version.toNat : Int) - 1 - 1 := hr'.2.2.2.1
      show _ < RR.H q.version.toNat
      omega
    have hne : (cs[k]).1.toNat ≠ 1 := by
      have hmem : ((cs[k]).1.toNat, (cs[k]).2.toNat) ∈ cs.map (fun c => (c.1.toNat, c.2.toNat)) :=
        List.mem_map_of_mem (f := fun c : Int × Int => (c.1.toNat, c.2.toNat)) (List.getElem_mem hk')
      rw [hstd, List.mem_filter] at hmem
      simpa using hmem.2
    rw [hpx _ _ hx hy, ← hout _ _ hx hy (Or.inl hne)]
    exact hcarry k hk hk'

end QRV.Lemmas.Conf
