import QRV.Lemmas.NewDP
import QRV.Lemmas.EncValid
import QRV.Lemmas.DecUtf8
/-
C04Ext helper: the segments produced by the kanji mode-selection programme `newKanjiSegs` with the
QR mode numbers are valid data for their modes.  Every entry of the DP table that carries a piece
`data[s : s+len]` with `len ≥ 1` carries a piece of its own class (a digit for mode 1, an
alphanumeric character for mode 2, one byte for mode 3, one whole UTF-8 character that kanji mode can
represent for mode 4); the back-tracking only emits pieces read from table entries of the piece's
mode; `mergeSegs` concatenates pieces of equal mode.
-/
namespace QRV.Lemmas.NewKanjiValid
open QRV QRV.Model QRV.Model.Sym QRV.Model.New QRV.Model.Codec QRV.Lemmas.NewDP QRV.Spec.Valid

/-! ### class of the pieces stored in the table -/

/-- the piece `data[s : s+len]` is of the class of DP mode `m` -/
def ClassP (data : Array Nat) (m s len : Nat) : Prop :=
  (m = 1 ∧ len = 1 ∧ isNumeric data[s]! = true) ∨ (m = 2 ∧ len = 1 ∧ isAlphanumeric data[s]! = true) ∨
  (m = 3 ∧ len = 1) ∨ (m = 4 ∧ kanC data s ∧ len = rsz data s)

/-- every non-empty piece stored in the table is of the class of its column -/
def ClsK (data : Array Nat) (S : Array (Array StK)) : Prop :=
  ∀ k m s len, (gK S k m).data = some (s, len) → 1 ≤ len → ClassP data m s len

theorem clsK_init (data : Array Nat) : ClsK data (initK data.size) := by
  intro k m s len h _
  rw [(gK_init_lastMode data.size k m).2] at h
  cases h

theorem clsK_step {data : Array Nat} {i : Nat} {S : Array (Array StK)} (hsh : Shape data.size S) (hi : i < data.size)
    (hC : ClsK data S) : Shape data.size (stepK data i S) ∧ ClsK data (stepK data i S) := by
  obtain ⟨hsh', hcl⟩ := stepK_cases data hsh i hi
  refine ⟨hsh', ?_⟩
  intro k m s len hd hl
  rcases hcl k m with h | h | h | h
  · rw [h.1.2.1] at hd
    exact hC k m s len hd hl
  · obtain ⟨_, hm1, hm3, he⟩ := h
    rw [he] at hd
    unfold new123 at hd
    by_cases h3 : m = 3
    · rw [if_pos h3] at hd
      have : some (i, 1) = some (s, len) := hd
      cases this
      exact .inr (.inr (.inl ⟨h3, rfl⟩))
    · rw [if_neg h3] at hd
      by_cases h2 : m = 2
      · rw [if_pos h2] at hd
        by_cases ha : isAlphanumeric data[i]! = true
        · rw [if_pos ha] at hd
          have : some (i, 1) = some (s, len) := hd
          cases this
          exact .inr (.inl ⟨h2, rfl, ha⟩)
        · rw [if_neg ha] at hd
          have : some (i, 0) = some (s, len) := hd
          cases this
          omega
      · rw [if_neg h2] at hd
        have h1 : m = 1 := by omega
        by_cases hn : isNumeric data[i]! = true
        · rw [if_pos hn] at hd
          have : some (i, 1) = some (s, len) := hd
          cases this
          exact .inl ⟨h1, rfl, hn⟩
        · rw [if_neg hn] at hd
          have : some (i, 0) = some (s, len) := hd
          cases this
          omega
  · obtain ⟨hm, hkc, _, he⟩ := h
    rw [he] at hd
    have : some (i, rsz data i) = some (s, len) := hd
    cases this
    exact .inr (.inr (.inr ⟨hm, hkc, rfl⟩))
  · obtain ⟨_, _, he⟩ := h
    rw [he] at hd
    have : some (i, 0) = some (s, len) := hd
    cases this
    omega

/-! ### the pieces emitted by the back-tracking -/

/-- a loop in `Out` that ends normally: an invariant kept by every normal step holds at the end -/
theorem forIn_out_inv {α β : Type} (f : α → β → Out (ForInStep β)) (P : β → Prop)
    (hy : ∀ a b b', f a b = .ok (.yield b') → P b → P b')
    (hd : ∀ a b b', f a b = .ok (.done b') → P b → P b') :
    ∀ (l : List α) (init r : β), forIn l init f = .ok r → P init → P r := by
  intro l
  induction l with
  | nil => intro init r h hP; cases h; exact hP
  | cons a l ih =>
    intro init r h hP
    rw [List.forIn_cons] at h
    cases hf : f a init with
    | ok st =>
      rw [hf] at h
      cases st with
      | done b' =>
        have : (Out.ok b' : Out β) = .ok r := h
        cases this
        exact hd a init _ hf hP
      | yield b' => exact ih b' r h (hy a init b' hf hP)
    | err m => rw [hf] at h; cases h
    | panic m => rw [hf] at h; cases h

/-- every emitted piece was read from a table entry of the piece's mode -/
def PiecesFrom (data : Array Nat) (S : Array (Array StK)) (l : List (Nat × List Nat)) : Prop :=
  ∀ q ∈ l, ∃ k, q.2 = sliceK data (gK S k q.1).data

theorem backMK_pieces (data : Array Nat) (S : Array (Array StK)) (t : Nat) (s s' : BackSt)
    (h : backMK data S t s = .ok (.yield s')) (hP : PiecesFrom data S s.2.1.toList) :
    PiecesFrom data S s'.2.1.toList := by
  unfold backMK at h
  split at h
  · split at h
    · cases h; exact hP
    · split at h
      · cases h
      · cases h
        intro q hq
        simp only [Array.toList_push, List.mem_append, List.mem_singleton] at hq
        rcases hq with hq | hq
        · exact hP q hq
        · subst hq
          exact ⟨_, rfl⟩
  · cases h; exact hP

theorem tailK_pieces (ml : List Nat) (data : Array Nat) (S : Array (Array StK)) (segs : List Segment)
    (h : tailK ml data S = .ok segs) :
    ∃ pieces, segs = mergeSegs ml pieces ∧ PiecesFrom data S pieces := by
  unfold tailK at h
  obtain ⟨p, _, h⟩ := bind_eq_ok h
  obtain ⟨r, hr, h⟩ := bind_eq_ok h
  rw [Std.Legacy.Range.forIn_eq_forIn_range'] at hr
  have hP := forIn_out_inv (backMK data S) (fun s : BackSt => PiecesFrom data S s.2.1.toList)
    (fun a b b' hf hb => backMK_pieces data S a b b' hf hb)
    (fun a b b' hf _ => by
      exfalso
      unfold backMK at hf
      split at hf
      · split at hf
        · cases hf
        · split at hf
          · cases hf
          · cases hf
      · cases hf) _ _ r hr
    (by
      intro q hq
      simp only [List.mem_singleton] at hq
      subst hq
      exact ⟨data.size, rfl⟩)
  split at h
  · cases h
  · cases h
    refine ⟨_, rfl, ?_⟩
    intro q hq
    exact hP q (by simpa using hq)

/-- the kanji programme: the result is `mergeSegs` of pieces each of which is empty or a non-empty
slice of the payload of the class of its mode -/
theorem newKanji_pieces (ml : List Nat) (data : Array Nat) (segs : List Segment)
    (h : newKanjiSegs ml data = .ok segs) :
    ∃ pieces, segs = mergeSegs ml pieces ∧
      ∀ q ∈ pieces, q.2 = [] ∨ ∃ s len, 1 ≤ len ∧ q.2 = sliceK data (some (s, len)) ∧ ClassP data q.1 s len := by
  rw [newKanjiSegs_eq] at h
  obtain ⟨S, hS, _, hC⟩ := fillK_ind data (fun _ S => Shape data.size S ∧ ClsK data S)
    ⟨(invK_init data).shape, clsK_init data⟩ (fun i S hi hI => clsK_step hI.1 hi hI.2)
  rw [hS] at h
  obtain ⟨pieces, he, hp⟩ := tailK_pieces ml data S segs h
  refine ⟨pieces, he, fun q hq => ?_⟩
  obtain ⟨k, hk⟩ := hp q hq
  cases hd : (gK S k q.1).data with
  | none => left; rw [hk, hd]; rfl
  | some sl =>
    obtain ⟨s, len⟩ := sl
    by_cases hl : 1 ≤ len
    · right
      exact ⟨s, len, hl, by rw [hk, hd], hC k q.1 s len hd hl⟩
    · left
      have : len = 0 := by omega
      subst this
      rw [hk, hd]
      simp [sliceK]

/-! ### from pieces to segments -/

/-- a rune the kanji encoder accepts round-trips through UTF-8 -/
theorem isKanji_runeOK {r : Nat} (h : isKanji r = true) : Lemmas.Dec.runeOK r = true := by
  obtain ⟨h0, code, hc, href⟩ := Lemmas.Enc.isKanji_kanjiChar h
  have := Lemmas.Dec.kanji_runes_ok code hc
  rw [href] at this
  simp only [Bool.or_eq_true, beq_iff_eq] at this
  rcases this with h' | h'
  · exact absurd h' h0
  · exact h'

/-- what a segment of the result satisfies, by its mode (QR mode numbers) -/
def SegOK (s : Segment) : Prop :=
  (s.data ≠ [] → s.mode = 1 ∨ s.mode = 2 ∨ s.mode = 4 ∨ s.mode = 8) ∧
  (s.mode = 1 → ∀ b ∈ s.data, isNumeric b = true) ∧
  (s.mode = 2 → ∀ b ∈ s.data, isAlphanumeric b = true) ∧
  (s.mode = 8 → ∃ rs : List Nat, s.data = rs.flatMap Utf8.encodeRune ∧ ∀ r ∈ rs, isKanji r = true)

theorem mem_slice_one (data : Array Nat) (s b : Nat) (h : b ∈ sliceK data (some (s, 1))) : b = data[s]! := by
  unfold sliceK at h
  simp only at h
  cases hd : data.toList.drop s with
  | nil => rw [hd] at h; simp at h
  | cons a t =>
    rw [hd] at h
    simp only [List.take_succ_cons, List.take_zero, List.mem_singleton] at h
    subst h
    have h1 : (data.toList.drop s)[0]? = some b := by rw [hd]; rfl
    rw [List.getElem?_drop, Nat.add_zero, Array.getElem?_toList] at h1
    rw [getElem!_def, h1]

theorem kanji_piece (data : Array Nat) (s : Nat) (hk : kanC data s) :
    sliceK data (some (s, rsz data s)) = Utf8.encodeRune (Utf8.decodeRune (data.toList.drop s)).1 ∧
    isKanji (Utf8.decodeRune (data.toList.drop s)).1 = true := by
  obtain ⟨herr, hkan, _⟩ := hk
  have hne : data.toList.drop s ≠ [] := by
    intro he
    rw [he] at herr
    exact herr rfl
  exact ⟨((Lemmas.Enc.decodeRune_kanji _ hne hkan).1).symm, hkan⟩

theorem piece_segOK (data : Array Nat) (q : Nat × List Nat)
    (hq : q.2 = [] ∨ ∃ s len, 1 ≤ len ∧ q.2 = sliceK data (some (s, len)) ∧ ClassP data q.1 s len) :
    SegOK { mode := [0, 1, 2, 4, 8][q.1]?.getD 0, data := q.2 } ∧
    ∀ sg : Segment, SegOK sg → sg.mode = [0, 1, 2, 4, 8][q.1]?.getD 0 → SegOK { sg with data := sg.data ++ q.2 } := by
  rcases hq with he | ⟨s, len, hl, he, hc⟩
  · rw [he]
    refine ⟨⟨fun h => absurd rfl h, fun _ b hb => (by cases hb), fun _ b hb => (by cases hb), fun _ => ⟨[], rfl, by simp⟩⟩, ?_⟩
    intro sg hsg _
    rw [List.append_nil]
    exact hsg
  · rcases hc with ⟨hm, hlen, hcl⟩ | ⟨hm, hlen, hcl⟩ | ⟨hm, hlen⟩ | ⟨hm, hkc, hlen⟩
    · -- numeric
      subst hlen
      have hmode : [0, 1, 2, 4, 8][q.1]?.getD 0 = 1 := by rw [hm]; rfl
      have hnum : ∀ b ∈ q.2, isNumeric b = true := by
        intro b hb; rw [he] at hb; rw [mem_slice_one data s b hb]; exact hcl
      rw [hmode]
      refine ⟨⟨fun _ => .inl rfl, fun _ => hnum, fun h => (by simp at h), fun h => (by simp at h)⟩, ?_⟩
      intro sg hsg hsm
      refine ⟨fun _ => .inl hsm, fun _ b hb => ?_, fun h => ?_, fun h => ?_⟩
      · rcases List.mem_append.1 hb with hb | hb
        · exact hsg.2.1 hsm b hb
        · exact hnum b hb
      · have : sg.mode = 2 := h
        omega
      · have : sg.mode = 8 := h
        omega
    · -- alphanumeric
      subst hlen
      have hmode : [0, 1, 2, 4, 8][q.1]?.getD 0 = 2 := by rw [hm]; rfl
      have haln : ∀ b ∈ q.2, isAlphanumeric b = true := by
        intro b hb; rw [he] at hb; rw [mem_slice_one data s b hb]; exact hcl
      rw [hmode]
      refine ⟨⟨fun _ => .inr (.inl rfl), fun h => (by simp at h), fun _ => haln, fun h => (by simp at h)⟩, ?_⟩
      intro sg hsg hsm
      refine ⟨fun _ => .inr (.inl hsm), fun h => ?_, fun _ b hb => ?_, fun h => ?_⟩
      · have : sg.mode = 1 := h
        omega
      · rcases List.mem_append.1 hb with hb | hb
        · exact hsg.2.2.1 hsm b hb
        · exact haln b hb
      · have : sg.mode = 8 := h
        omega
    · -- bytes
      have hmode : [0, 1, 2, 4, 8][q.1]?.getD 0 = 4 := by rw [hm]; rfl
      rw [hmode]
      refine ⟨⟨fun _ => .inr (.inr (.inl rfl)), fun h => (by simp at h), fun h => (by simp at h), fun h => (by simp at h)⟩, ?_⟩
      intro sg hsg hsm
      refine ⟨fun _ => .inr (.inr (.inl hsm)), fun h => ?_, fun h => ?_, fun h => ?_⟩
      · have : sg.mode = 1 := h
        omega
      · have : sg.mode = 2 := h
        omega
      · have : sg.mode = 8 := h
        omega
    · -- kanji
      subst hlen
      have hmode : [0, 1, 2, 4, 8][q.1]?.getD 0 = 8 := by rw [hm]; rfl
      obtain ⟨hpe, hkan⟩ := kanji_piece data s hkc
      rw [hmode, he, hpe]
      refine ⟨⟨fun _ => .inr (.inr (.inr rfl)), fun h => (by simp at h), fun h => (by simp at h),
        fun _ => ⟨[(Utf8.decodeRune (data.toList.drop s)).1], by simp, by simpa using hkan⟩⟩, ?_⟩
      intro sg hsg hsm
      refine ⟨fun _ => .inr (.inr (.inr hsm)), fun h => ?_, fun h => ?_, fun _ => ?_⟩
      · have : sg.mode = 1 := h
        omega
      · have : sg.mode = 2 := h
        omega
      · obtain ⟨rs, hrs, hall⟩ := hsg.2.2.2 hsm
        refine ⟨rs ++ [(Utf8.decodeRune (data.toList.drop s)).1], ?_, ?_⟩
        · show sg.data ++ _ = _
          rw [hrs]; simp
        · intro r hr
          rcases List.mem_append.1 hr with hr | hr
          · exact hall r hr
          · simp only [List.mem_singleton] at hr
            subst hr
            exact hkan

theorem newKanji_segOK (data : Array Nat) (segs : List Segment)
    (h : newKanjiSegs [0, 1, 2, 4, 8] data = .ok segs) : ∀ s ∈ segs, SegOK s := by
  obtain ⟨pieces, he, hp⟩ := newKanji_pieces _ data segs h
  rw [he, mergeSegs_eq]
  refine foldl_mstep_inv _ SegOK pieces (fun p hpm => (piece_segOK data p (hp p hpm)).1)
    (fun p hpm => (piece_segOK data p (hp p hpm)).2) [] (by simp)

/-- the segments of the kanji programme with the QR mode numbers are valid data of a QR mode -/
theorem newKanji_valid_QR (data : Array Nat) (hne : data.size ≠ 0) (hsz : data.size < 2 ^ 56)
    (hb : ∀ b ∈ data.toList, b < 256) (segs : List Segment)
    (h : newKanjiSegs [0, 1, 2, 4, 8] data = .ok segs) :
    ∀ s ∈ segs, (s.mode = 1 ∨ s.mode = 2 ∨ s.mode = 4 ∨ s.mode = 8) ∧
      ∃ k, Spec.Valid.QR.kindOf s.mode = some k ∧ ValidData k s.data := by
  obtain ⟨hcat, hnonempty⟩ := newKanji_concat' _ data hne hsz segs h
  intro s hs
  obtain ⟨hmode, hnum, haln, hkan⟩ := newKanji_segOK data segs h s hs
  have hbytes : ∀ b ∈ s.data, b < 256 := by
    intro b hbm
    apply hb
    rw [← hcat]
    exact List.mem_flatMap.2 ⟨s, hs, hbm⟩
  have hm := hmode (hnonempty s hs)
  refine ⟨hm, ?_⟩
  rcases hm with hm | hm | hm | hm
  · refine ⟨0, by rw [hm]; rfl, hbytes, fun ch hch => ?_⟩
    exact (Lemmas.Codec.isNumeric_iff ch).1 (hnum hm ch hch)
  · refine ⟨1, by rw [hm]; rfl, hbytes, fun ch hch => ?_⟩
    have := haln hm ch hch
    unfold isAlphanumeric at this
    rw [Lemmas.Codec.alnumIdx_eq_alnumValue] at this
    exact this
  · exact ⟨2, by rw [hm]; rfl, hbytes, trivial⟩
  · obtain ⟨rs, hrs, hall⟩ := hkan hm
    have hrunes : Utf8.runes s.data = rs := by
      rw [hrs]
      exact Lemmas.Dec.runes_flatMap rs (fun r hr => isKanji_runeOK (hall r hr))
    refine ⟨3, by rw [hm]; rfl, hbytes, fun r hr => ?_, ?_⟩
    · rw [hrunes] at hr
      exact Lemmas.Enc.isKanji_kanjiChar (hall r hr)
    · rw [hrunes]; exact hrs.symm

/-! ### the modes of the result, without any bound on the payload length -/

/-- every predecessor index stored in the table is at most 4 -/
def LmK (S : Array (Array StK)) : Prop := ∀ k m, (gK S k m).lastMode ≤ 4

theorem lmK_init (n : Nat) : LmK (initK n) := by
  intro k m
  rw [(gK_init_lastMode n k m).1]
  exact Nat.zero_le _

theorem lmK_step {data : Array Nat} {i : Nat} {S : Array (Array StK)} (hsh : Shape data.size S) (hi : i < data.size)
    (hL : LmK S) : Shape data.size (stepK data i S) ∧ LmK (stepK data i S) := by
  obtain ⟨hsh', hcl⟩ := stepK_cases data hsh i hi
  refine ⟨hsh', ?_⟩
  intro k m
  rcases hcl k m with h | h | h | h
  · rw [h.1.1]; exact hL k m
  · rw [h.2.2.2]
    unfold new123
    repeat' split
    all_goals first | exact (transK_spec _ _ _ _).1 | exact Nat.zero_le _
  · rw [h.2.2.2]; exact (transK_spec _ _ _ _).1
  · rw [h.2.2]; exact Nat.zero_le _

/-- the mode indices of the back-tracking state lie in 1..4 -/
def ModesIn (s : BackSt) : Prop :=
  (s.2.2.2 = false → 1 ≤ s.1 ∧ s.1 ≤ 4) ∧ ∀ q ∈ s.2.1.toList, 1 ≤ q.1 ∧ q.1 ≤ 4

theorem backMK_modes (data : Array Nat) (S : Array (Array StK)) (hL : LmK S) (t : Nat) (s s' : BackSt)
    (h : backMK data S t s = .ok (.yield s')) (hP : ModesIn s) : ModesIn s' := by
  obtain ⟨bm, best, i, fin⟩ := s
  unfold backMK at h
  simp only at h
  split at h
  · split at h
    · cases h
      exact ⟨fun hf => (by cases hf), hP.2⟩
    · rename_i hfin hne
      have hlm : 1 ≤ ((S[i]!)[bm]!).lastMode ∧ ((S[i]!)[bm]!).lastMode ≤ 4 :=
        ⟨Nat.pos_of_ne_zero hne, hL i bm⟩
      split at h
      · cases h
      · cases h
        refine ⟨fun _ => hlm, ?_⟩
        intro q hq
        simp only [Array.toList_push, List.mem_append, List.mem_singleton] at hq
        rcases hq with hq | hq
        · exact hP.2 q hq
        · subst hq
          exact hlm
  · cases h; exact hP

theorem tailK_modes (ml : List Nat) (data : Array Nat) (S : Array (Array StK)) (hL : LmK S) (segs : List Segment)
    (h : tailK ml data S = .ok segs) :
    ∃ pieces, segs = mergeSegs ml pieces ∧ ∀ q ∈ pieces, 1 ≤ q.1 ∧ q.1 ≤ 4 := by
  unfold tailK at h
  obtain ⟨p', hp', hpr⟩ := pick_ok S[data.size]! (fun _ s => 1 ≤ s.2 ∧ s.2 ≤ 4) (((S[data.size]!)[1]!).cost, 1)
    ⟨Nat.le_refl _, by omega⟩
    (fun k s h2 h5 hs => by
      split
      · exact ⟨by omega, by omega⟩
      · exact hs)
  obtain ⟨p, hp, h⟩ := bind_eq_ok h
  rw [hp'] at hp
  cases hp
  obtain ⟨r, hr, h⟩ := bind_eq_ok h
  rw [Std.Legacy.Range.forIn_eq_forIn_range'] at hr
  have hP := forIn_out_inv (backMK data S) ModesIn
    (fun a b b' hf hb => backMK_modes data S hL a b b' hf hb)
    (fun a b b' hf _ => by
      exfalso
      unfold backMK at hf
      split at hf
      · split at hf
        · cases hf
        · split at hf
          · cases hf
          · cases hf
      · cases hf) _ _ r hr
    ⟨fun _ => hpr, by
      intro q hq
      simp only [List.mem_singleton] at hq
      subst hq
      exact hpr⟩
  split at h
  · cases h
  · cases h
    refine ⟨_, rfl, ?_⟩
    intro q hq
    exact hP.2 q (by simpa using hq)

/-- the kanji programme with the QR mode numbers only produces the four QR modes, whatever the
payload length -/
theorem newKanji_modes (data : Array Nat) (segs : List Segment)
    (h : newKanjiSegs [0, 1, 2, 4, 8] data = .ok segs) :
    ∀ s ∈ segs, s.mode = 1 ∨ s.mode = 2 ∨ s.mode = 4 ∨ s.mode = 8 := by
  rw [newKanjiSegs_eq] at h
  obtain ⟨S, hS, _, hL⟩ := fillK_ind data (fun _ S => Shape data.size S ∧ LmK S)
    ⟨(invK_init data).shape, lmK_init _⟩ (fun i S hi hI => lmK_step hI.1 hi hI.2)
  rw [hS] at h
  obtain ⟨pieces, he, hp⟩ := tailK_modes _ data S hL segs h
  rw [he, mergeSegs_eq]
  refine foldl_mstep_inv _ (fun s => s.mode = 1 ∨ s.mode = 2 ∨ s.mode = 4 ∨ s.mode = 8) pieces
    (fun p hpm => ?_) (fun p _ s hs _ => hs) [] (by simp)
  obtain ⟨h1, h4⟩ := hp p hpm
  have : p.1 = 1 ∨ p.1 = 2 ∨ p.1 = 3 ∨ p.1 = 4 := by omega
  rcases this with e | e | e | e <;> rw [e] <;> simp

end QRV.Lemmas.NewKanjiValid
