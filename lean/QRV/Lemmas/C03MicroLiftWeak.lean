import QRV.Lemmas.C03MicroLift
import QRV.Lemmas.MicroRTParseWeak
/-
`C03MicroLift.roundtrip_exposed` and `C03MicroLift.corrects_rated_damage_nat` under the weakest
non-emptiness condition the decoder allows (no empty numeric segment; in M4 no empty segment) instead
of "no empty segment": the same proofs with `MicroRTParseWeak.segments_parse_weak` in place of
`MicroRTParse.segments_parse` (the only place where the condition is used).  `roundtrip_exposed_weak`
also returns that an explicit mask is the one used.
-/
open QRV QRV.Model QRV.Model.Bitmap QRV.Model.Sym QRV.Props QRV.Props.C18 QRV.Model.Bits QRV.Spec.Bits
open QRV.Spec.Valid
open QRV.Lemmas.RT (rowBit_packRows dist_self parityOf parityOf_facts parity_eq imgAt_ofGenList ofGen_regular ofGen_px
  packRows_length)
namespace QRV.Lemmas.MRT

/-- `roundtrip_core_weak` once more, also returning what the final image holds in the format information
modules and in the data modules -/
theorem roundtrip_exposed_weak (v l : Nat) (mask : Int) (segments : List Segment) (hp : (v, l) ∈ pairs)
    (hs : ∀ s ∈ segments, SegOK v s)
    (hfit : (segments.map fun s => Spec.Valid.Micro.segBits s v).sum ≤ (capOf v l).dataBits)
    (hne : ∀ s ∈ segments, s.data = [] → s.mode ≠ 0 ∧ v ≠ 4) (hm1 : -1 ≤ mask) (hm3 : mask ≤ 3) :
    ∃ (f m c : Nat) (data : List Nat) (fbuf : Buffer) (sl : List (Option (Int × Int))) (img4 : Image),
      f < 8 ∧ m < 4 ∧ (0 ≤ mask → (m : Int) = mask) ∧ Gen.Micro.rawFormatTable[f]? = some ((v : Int), (l : Int)) ∧
      Gen.Micro.encodedFormat[4 * f + m]? = some c ∧
      Model.Micro.encodeSegments { version := v, level := l, mask := mask, segments := segments } {} = .ok fbuf ∧
      fbuf.buf.toList = data ++ parityOf (capOf v l).correction data ∧
      data.length = (capOf v l).data ∧ (∀ x ∈ data, x < 256) ∧ (∀ x ∈ fbuf.buf.toList, x < 256) ∧
      slotsOf v l = some sl ∧ sl.length = 8 * fbuf.buf.toList.length ∧
      (∀ (k : Nat) (c : Int × Int), sl[k]? = some (some c) →
        0 ≤ c.1 ∧ c.1 ≤ 8 + 2 * (v : Int) ∧ 0 ≤ c.2 ∧ c.2 ≤ 8 + 2 * (v : Int) ∧ usedFn v c.1 c.2 = false) ∧
      Model.Micro.encodeToBitmap { version := v, level := l, mask := mask, segments := segments } = .ok img4 ∧
      Regular img4 (9 + 2 * v) (9 + 2 * v) ∧
      (∀ i : Nat, i < 8 → px img4 8 (i + 1) = c.testBit i ∧ px img4 (i + 1) 8 = c.testBit (14 - i)) ∧
      Carries img4 m sl fbuf.buf.toList ∧
      Model.Micro.segmentLoop (v : Int) ((capOf v l).data * 8 + 8) { buf := data.toArray } #[] = .ok segments ∧
      Model.Micro.decodeBitmap img4 = .ok { version := v, level := l, mask := (m : Int), segments := segments } := by
  obtain ⟨hv1, hv4, hl4, hcap, -, ⟨hD4, hDd, hd, h2, h68⟩, -, -⟩ := pair_facts v l hp
  obtain ⟨hbase, hused, hrb, hru, hbin, hfu⟩ := version_images v hv1 hv4
  obtain ⟨f, data, fbuf, sym, sl, hf8, hraw, hE, hbytes, hdl, hdb, hun, hsl, hsllen, hplace, hrs, hpx, hnone,
    hrange, hall⟩ := pipeline v l segments hp hs hfit
  obtain ⟨m, hm4, hch, hmeq, -⟩ := chooseMaskM_spec v hv4 mask hm1 hm3 sym _ hrs hru
  obtain ⟨c, img3, pat, img4, hfin, hc, hpat, hrp, hr3, hr4, hmask, hpx3, hfc⟩ :=
    finishM_spec v f m hv1 hv4 hf8 hm4 _ sym hru hrs
  obtain ⟨pat0, hpat0, -, hpatpx⟩ := mask_image_px m hm4
  rw [hpat] at hpat0
  cases hpat0
  obtain ⟨pl, pb, -, hdec⟩ := parityOf_facts (capOf v l).correction h2 h68 data hdb
  have hfb : ∀ x ∈ fbuf.buf.toList, x < 256 := by
    intro b hb
    rw [hbytes] at hb
    rcases List.mem_append.mp hb with hb | hb
    · exact hdb b hb
    · exact pb b hb
  have hcast : ∀ z : Int, 0 ≤ z → ((z.toNat : Nat) : Int) = z := fun z hz => Int.toNat_of_nonneg hz
  have hdata3 : ∀ (k : Nat) (c' : Int × Int) (b : Bool), sl[k]? = some (some c') →
      (unpack fbuf.buf.toList)[k]? = some b → px img3 c'.1.toNat c'.2.toNat = b := by
    intro k c' b hk hb
    obtain ⟨r1, r2, r3, r4, r5⟩ := hrange k c' hk
    rw [hpx3 _ _ (by omega) (by omega) (by rw [hcast _ r1, hcast _ r3]; exact r5)]
    exact hpx k c' b hk hb
  have hseg : Model.Micro.segmentLoop (v : Int) ((capOf v l).data * 8 + 8) { buf := data.toArray } #[] = .ok segments := by
    have hL : (segments.flatMap (segStream v)).length ≤ (capOf v l).dataBits := by
      rw [flatMap_segStream_length]; exact hfit
    have hp' := segments_parse_weak v hv1 hv4 segments hs hne _
      (mtail_ok (termLen v) (capOf v l).dataBits ((capOf v l).data * 8) (segments.flatMap (segStream v)).length)
      data hdb hun #[] ((capOf v l).data * 8 + 8) (by
        have := segs_length_le v segments hs
        omega)
    simpa using hp'
  refine ⟨f, m, c, data, fbuf, sl, img4, hf8, hm4, hmeq, hraw, hc, hE mask, hbytes, hdl, hdb, hfb, hsl, hsllen, hrange,
    by rw [hall mask hm1 hm3, hch]; exact hfin, hr4, ?_, ?_, hseg, ?_⟩
  · -- the format information modules of the final image
    intro i hi
    constructor
    · rw [mask_spec img3 _ pat img4 _ _ 24 17 (by omega) (by omega) hr3 hru hrp (by omega) (by omega) hmask
        8 (i + 1) (by omega) (by omega), used_px v _ hru hbin 8 (i + 1) (by omega) (by omega), (hfu i hi).1,
        (hfc i hi).1]
      simp
    · rw [mask_spec img3 _ pat img4 _ _ 24 17 (by omega) (by omega) hr3 hru hrp (by omega) (by omega) hmask
        (i + 1) 8 (by omega) (by omega), used_px v _ hru hbin (i + 1) 8 (by omega) (by omega), (hfu i hi).2,
        (hfc i hi).2]
      simp
  · -- the data modules of the final image
    intro k hk
    have hku : k < (unpack fbuf.buf.toList).length := by rw [Lemmas.Bits.length_unpack]; omega
    have hsk : sl[k]? = some sl[k] := List.getElem?_eq_getElem hk
    generalize sl[k] = o at hsk
    cases o with
    | none =>
      simp only
      rw [hnone k hsk]
      rfl
    | some c' =>
      obtain ⟨x, y⟩ := c'
      simp only
      obtain ⟨r1, r2, r3, r4, r5⟩ := hrange k (x, y) hsk
      simp only at r1 r2 r3 r4 r5
      have hx : x.toNat < 9 + 2 * v := by omega
      have hy : y.toNat < 9 + 2 * v := by omega
      have hd := hdata3 k (x, y) _ hsk (List.getElem?_eq_getElem hku)
      simp only at hd
      rw [mask_spec img3 _ pat img4 _ _ 24 17 (by omega) (by omega) hr3 hru hrp (by omega) (by omega) hmask
          _ _ hx hy, used_px v _ hru hbin _ _ hx hy, hcast _ r1, hcast _ r3, r5,
        hpatpx _ _ (by omega) (by omega), hd, List.getElem?_eq_getElem hku, Option.getD_some]
      cases (unpack fbuf.buf.toList)[k] <;> cases Spec.Patterns.Micro.maskCond m y.toNat x.toNat <;> rfl
  · refine decode_spec v l f m hv1 hv4 hf8 hm4 segments img3 img4 _ pat c sl fbuf.buf.toList data (capOf v l)
      hr3 hr4 hru hrp hmask hused hpat hbin hfu hc hraw hfc hcap hsl hsllen hfb
      (fun k c hk => ⟨(hrange k c hk).1, (hrange k c hk).2.1, (hrange k c hk).2.2.1, (hrange k c hk).2.2.2.1⟩)
      hdata3 hnone ?_ ?_ ?_ hseg
    · rw [hbytes]; exact hdec
    · rw [hbytes, ← hdl, List.take_left' rfl]
    · rw [hbytes, List.length_append]; omega

/-- the whole-symbol lifting with version and level as naturals -/
theorem corrects_rated_damage_nat_weak (v l : Nat) (mask : Int) (segments : List Segment) (hp : (v, l) ∈ pairs)
    (hs : ∀ s ∈ segments, SegOK v s)
    (hfit : (segments.map fun s => Spec.Valid.Micro.segBits s v).sum ≤ (capOf v l).dataBits)
    (hne : ∀ s ∈ segments, s.data = [] → s.mode ≠ 0 ∧ v ≠ 4) (hm1 : -1 ≤ mask) (hm3 : mask ≤ 3)
    (img : Image) (m : Nat)
    (henc : Model.Micro.encodeToBitmap { version := v, level := l, mask := mask, segments := segments } = .ok img)
    (hmask : Model.Micro.decodeBitmap img = .ok { version := v, level := l, mask := (m : Int), segments := segments })
    (buf : Buffer)
    (hbuf : Model.Micro.encodeSegments { version := v, level := l, mask := mask, segments := segments } {} = .ok buf)
    (sl : List (Option (Int × Int))) (hsl : slotsOf v l = some sl)
    (img' : Image) (hreg : Regular img' (9 + 2 * v) (9 + 2 * v))
    (hfun : ∀ x y : Nat, x < 9 + 2 * v → y < 9 + 2 * v →
      usedFn v (x : Int) (y : Int) = true → px img' x y = px img x y)
    (cw' : List Nat) (hlen : cw'.length = buf.buf.size) (hbytes : ∀ c ∈ cw', c < 256)
    (hcarry : Carries img' m sl cw')
    (hdam : C14.dist buf.buf.toList cw' ≤ (((capOf v l).blocks.head?.map (·.maxError)).getD 0)) :
    Model.Micro.decodeBitmap img' = .ok { version := v, level := l, mask := (m : Int), segments := segments } := by
  -- the clean symbol
  obtain ⟨f, m0, c, data, fbuf, sl0, img4, hf8, hm4, -, hraw, hc, hE, hfbytes, hdl, hdb, hfb, hsl0, hsllen, hrange,
    henc0, hr4, hfc4, -, hseg, hdec0⟩ := roundtrip_exposed_weak v l mask segments hp hs hfit hne hm1 hm3
  rw [henc] at henc0
  cases henc0
  rw [hmask] at hdec0
  have hmm : m = m0 := by
    have := congrArg (fun o => match o with | Out.ok (q : QRCode) => q.mask | _ => 0) hdec0
    simp only at this
    omega
  subst hmm
  rw [hbuf] at hE
  cases hE
  rw [hsl] at hsl0
  cases hsl0
  obtain ⟨hv1, hv4, hl4, hcap, -, ⟨hD4, hDd, hd, h2, h68⟩, -, -⟩ := pair_facts v l hp
  obtain ⟨-, hused, -, hru, hbin, hfu⟩ := version_images v hv1 hv4
  obtain ⟨pat, hpat, hrp, hpatpx⟩ := mask_image_px m hm4
  obtain ⟨img3, hm3', hr3⟩ := mask_ok img' _ pat _ _ 24 17 (by omega) (by omega) hreg hru hrp (by omega) (by omega)
  have hinv := mask_involutive img' _ pat img3 _ _ 24 17 (by omega) (by omega) hreg hru hrp (by omega) (by omega) hm3'
  obtain ⟨pl, -, -, -⟩ := parityOf_facts (capOf v l).correction h2 h68 data hdb
  have hblen : buf.buf.toList.length = (capOf v l).data + (capOf v l).correction := by
    rw [hfbytes, List.length_append, hdl, pl]
  have hlen' : cw'.length = (capOf v l).data + (capOf v l).correction := by
    rw [hlen, ← hblen, Array.length_toList]
  -- error correction
  have hrs : RS.decode cw' ((capOf v l).correction : Int) = .ok buf.buf.toList := by
    rw [hfbytes]
    rw [hfbytes] at hdam
    exact block_fix v l hp data cw' hdl hdb hlen' hbytes hdam
  have hcast : ∀ z : Int, 0 ≤ z → ((z.toNat : Nat) : Int) = z := fun z hz => Int.toNat_of_nonneg hz
  have hslen : sl.length = 8 * cw'.length := by rw [hsllen, hblen, hlen']
  refine decode_spec' v l f m hv1 hv4 hf8 hm4 segments img3 img' _ pat c sl cw' buf.buf.toList data (capOf v l)
    hr3 hreg hru hrp hinv hused hpat hbin hfu hc hraw ?_ hcap hsl hslen hbytes
    (fun k c hk => ⟨(hrange k c hk).1, (hrange k c hk).2.1, (hrange k c hk).2.2.1, (hrange k c hk).2.2.2.1⟩)
    ?_ ?_ hrs ?_ ?_ hseg
  · -- format information: function modules, the same as in the clean symbol
    intro i hi
    have hu := hfu i hi
    constructor
    · rw [mask_spec img' _ pat img3 _ _ 24 17 (by omega) (by omega) hreg hru hrp (by omega) (by omega) hm3'
        8 (i + 1) (by omega) (by omega), used_px v _ hru hbin 8 (i + 1) (by omega) (by omega),
        hu.1, hfun 8 (i + 1) (by omega) (by omega) hu.1, (hfc4 i hi).1]
      simp
    · rw [mask_spec img' _ pat img3 _ _ 24 17 (by omega) (by omega) hreg hru hrp (by omega) (by omega) hm3'
        (i + 1) 8 (by omega) (by omega), used_px v _ hru hbin (i + 1) 8 (by omega) (by omega),
        hu.2, hfun (i + 1) 8 (by omega) (by omega) hu.2, (hfc4 i hi).2]
      simp
  · -- data modules
    intro k c' b hk hb
    obtain ⟨x, y⟩ := c'
    have hklt : k < sl.length := by
      rcases Nat.lt_or_ge k sl.length with h | h
      · exact h
      · rw [List.getElem?_eq_none h] at hk; cases hk
    obtain ⟨r1, r2, r3, r4, r5⟩ := hrange k (x, y) hk
    simp only at r1 r2 r3 r4 r5
    have hx : x.toNat < 9 + 2 * v := by omega
    have hy : y.toNat < 9 + 2 * v := by omega
    have hck := hcarry k hklt
    have hsk : sl[k] = some (x, y) := by
      rw [List.getElem?_eq_getElem hklt] at hk
      exact Option.some.inj hk
    rw [hsk] at hck
    simp only at hck
    show px img3 x.toNat y.toNat = b
    rw [mask_spec img' _ pat img3 _ _ 24 17 (by omega) (by omega) hreg hru hrp (by omega) (by omega) hm3'
        _ _ hx hy, used_px v _ hru hbin _ _ hx hy, hcast _ r1, hcast _ r3, r5,
      hpatpx _ _ (by omega) (by omega), hck, hb, Option.getD_some]
    cases b <;> cases Spec.Patterns.Micro.maskCond m y.toNat x.toNat <;> rfl
  · -- the stream bits no module carries
    intro k hk
    have hklt : k < sl.length := by
      rcases Nat.lt_or_ge k sl.length with h | h
      · exact h
      · rw [List.getElem?_eq_none h] at hk; cases hk
    have hku : k < (unpack cw').length := by rw [Lemmas.Bits.length_unpack]; omega
    have hck := hcarry k hklt
    have hsk : sl[k] = none := by
      rw [List.getElem?_eq_getElem hklt] at hk
      exact Option.some.inj hk
    rw [hsk] at hck
    simp only at hck
    rw [List.getElem?_eq_getElem hku, Option.getD_some] at hck
    rw [List.getElem?_eq_getElem hku, hck]
  · rw [hfbytes, ← hdl, List.take_left' rfl]
  · rw [hblen]; omega

end QRV.Lemmas.MRT
