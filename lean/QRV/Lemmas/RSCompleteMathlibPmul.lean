import QRV.Lemmas.RSCompleteMathlibPoly
import QRV.Lemmas.RSComplete1
/-
`Poly.pmul` computes the product of polynomials.
-/
namespace QRV.Lemmas.RSC
open Polynomial QRV.Model QRV.Model.GF QRV.Model.RS QRV.Lemmas.GF QRV.Lemmas.RS

theorem toPoly_modify {l : List Nat} (hl : AllEl l) {v : Nat} (hv : v < 256) {k : Nat}
    (hk : k < l.length) :
    toPoly (l.modify k (fun x => add x v)) = toPoly l + C (toF v) * X ^ (l.length - 1 - k) := by
  apply toPoly_ext; intro e
  rw [coefficient_modify l k _ hk, coeff_add, coeff_C_mul_X_pow, coeff_toPoly]
  split
  · rw [toF_add (coefficient_lt l hl e) hv]
  · simp

theorem getD_lt {l : List Nat} (hl : AllEl l) (i : Nat) : l[i]?.getD 0 < 256 := by
  cases h : l[i]? with
  | none => decide
  | some v => exact hl v (List.mem_of_getElem? h)

/-- inner loop of `pmul` -/
theorem pmul_inner (q : List Nat) (hq : AllEl q) (a : Nat) (ha : a < 256) (s n : Nat) :
    ∀ (m : Nat) (acc : Array Nat), acc.size = n → AllEl acc.toList → s + m ≤ n →
    let r := (List.range m).foldl (fun acc j =>
      acc.modify (s + j) (fun v => add v (mul a (q[j]?.getD 0)))) acc
    r.size = n ∧ AllEl r.toList ∧
      toPoly r.toList = toPoly acc.toList +
        C (toF a) * ∑ j ∈ Finset.range m, C (toF (q[j]?.getD 0)) * X ^ (n - 1 - s - j)
  | 0, acc, hsz, hacc, _ => ⟨hsz, hacc, by simp⟩
  | m + 1, acc, hsz, hacc, hm => by
    obtain ⟨h1, h2, h3⟩ := pmul_inner q hq a ha s n m acc hsz hacc (by omega)
    simp only at h1 h2 h3 ⊢
    rw [List.range_succ, List.foldl_append, List.foldl_cons, List.foldl_nil]
    refine ⟨by rw [Array.size_modify]; exact h1, ?_, ?_⟩
    · rw [Array.toList_modify]
      exact allEl_modify h2 (fun v hv => add_lt hv (mul_lt' _ _)) _
    · rw [Array.toList_modify, toPoly_modify h2 (mul_lt' _ _) (by rw [Array.length_toList]; omega), h3,
        Finset.sum_range_succ, toF_mul ha (getD_lt hq m), Array.length_toList, h1]
      have : n - 1 - (s + m) = n - 1 - s - m := by omega
      rw [this, C_mul]
      ring

theorem pmul_shift (q : List Nat) (c : F) (N m lp : Nat) (hm : m < lp) (hN : N = lp + q.length - 1) :
    C c * ∑ j ∈ Finset.range q.length, C (toF (q[j]?.getD 0)) * X ^ (N - 1 - m - j) =
      C c * X ^ (lp - 1 - m) * toPoly q := by
  rw [toPoly_positional q, Finset.mul_sum, Finset.mul_sum]
  apply Finset.sum_congr rfl
  intro j hj
  have hj' : j < q.length := by simpa using hj
  have : N - 1 - m - j = (lp - 1 - m) + (q.length - 1 - j) := by omega
  rw [this, pow_add]
  ring

/-- outer loop of `pmul` -/
theorem pmul_outer (p q : List Nat) (hp : AllEl p) (hq : AllEl q) (N : Nat) (hN : N = p.length + q.length - 1)
    (init : Array Nat) (hsz : init.size = N) (hi : AllEl init.toList) (h0 : toPoly init.toList = 0) :
    ∀ m, m ≤ p.length →
    let r := (List.range m).foldl (fun acc i =>
      (List.range q.length).foldl (fun acc j =>
        acc.modify (i + j) (fun v => add v (mul (p[i]?.getD 0) (q[j]?.getD 0)))) acc) init
    r.size = N ∧ AllEl r.toList ∧
      toPoly r.toList =
        (∑ i ∈ Finset.range m, C (toF (p[i]?.getD 0)) * X ^ (p.length - 1 - i)) * toPoly q
  | 0, _ => ⟨hsz, hi, by simp [h0]⟩
  | m + 1, hm => by
    obtain ⟨h1, h2, h3⟩ := pmul_outer p q hp hq N hN init hsz hi h0 m (by omega)
    intro r
    have hr : r = (List.range q.length).foldl (fun acc j =>
        acc.modify (m + j) (fun v => add v (mul (p[m]?.getD 0) (q[j]?.getD 0))))
        ((List.range m).foldl (fun acc i =>
          (List.range q.length).foldl (fun acc j =>
            acc.modify (i + j) (fun v => add v (mul (p[i]?.getD 0) (q[j]?.getD 0)))) acc) init) := by
      show List.foldl _ _ (List.range (m + 1)) = _
      rw [List.range_succ, List.foldl_append, List.foldl_cons, List.foldl_nil]
    obtain ⟨g1, g2, g3⟩ := pmul_inner q hq (p[m]?.getD 0) (getD_lt hp m) m N
      q.length _ h1 h2 (by omega)
    rw [← hr] at g1 g2 g3
    refine ⟨g1, g2, ?_⟩
    rw [g3, h3, Finset.sum_range_succ, pmul_shift q _ N m p.length (by omega) hN]
    ring

theorem toPoly_pmul {p q : List Nat} (hp : AllEl p) (hq : AllEl q) {r : List Nat}
    (h : Poly.pmul p q = .ok r) : AllEl r ∧ toPoly r = toPoly p * toPoly q := by
  unfold Poly.pmul at h
  split at h
  · cases h
  next hne =>
    cases h
    obtain ⟨_, h2, h3⟩ := pmul_outer p q hp hq (p.length + q.length - 1) rfl
      (Array.replicate (p.length + q.length - 1) 0) (by simp)
      (by rw [Array.toList_replicate]; exact allEl_replicate_zero _)
      (by rw [Array.toList_replicate]; exact toPoly_replicate_zero _) p.length (Nat.le_refl _)
    exact ⟨h2, h3.trans (by rw [← toPoly_positional p])⟩

end QRV.Lemmas.RSC
