/-
C05 (too large): the arithmetic core.  A path through a three-mode cost table (costs in sixths of
a bit, count-indicator widths of versions 27-40) that is minimal at every mode change and at the
end has a TRUE bit length (every segment rounded up) of at most the one-byte-segment length
`20 + 8 n`.  Everything here is about functions `r : position → mode → cost` and
`md : position → mode`; the connection with the Go programme is in `Lemmas/NewOptimal.lean`.

The invariant: when the segment that ends at position `s` in mode `m0` is followed by mode `m`,
`6 * (true bits up to s) + cred m0 m ≤ 120 + 48 * s`, where the credit `cred` is the header of the
next byte segment (120), or 144 in front of an alphanumeric segment that follows a numeric one
(such a numeric segment has at least 9 digits, so it is at least 144 sixths cheaper than bytes),
or 120 at the very start (no byte header has been paid yet).
-/
namespace QRV.Lemmas.NewOptimalAbs
set_option linter.unusedSimpArgs false

/-- cost of a character in sixths of a bit -/
def U (m : Nat) : Nat := if m = 1 then 20 else if m = 2 then 33 else 48
/-- header cost (mode indicator + count indicator of versions 27-40) in sixths; 0 for the end -/
def H (m : Nat) : Nat := if m = 1 then 108 else if m = 2 then 102 else if m = 3 then 120 else 0
/-- true bit length at version 40 of a run of `d` characters in DP mode `m` -/
def runBits (m d : Nat) : Nat :=
  if m = 1 then 18 + (10 * (d / 3) + (if d % 3 = 1 then 4 else if d % 3 = 2 then 7 else 0))
  else if m = 2 then 17 + (11 * (d / 2) + 6 * (d % 2))
  else if m = 3 then 20 + 8 * d else 0
/-- credit in front of a segment of mode `m` that follows mode `m0` (0 = start / end) -/
def cred (m0 m : Nat) : Nat :=
  if m0 = 0 then 120 else if m = 3 then 120 else if m0 = 1 ∧ m = 2 then 144 else 0

theorem runBits_one (d : Nat) : 6 * runBits 1 d = 108 + 20 * d + (4 * d) % 6 := by
  simp only [runBits, if_true]
  split
  · omega
  · split <;> omega

theorem runBits_two (d : Nat) : 6 * runBits 2 d = 102 + 33 * d + (3 * d) % 6 := by
  simp (config := { decide := true }) only [runBits, if_true, if_false]
  omega

theorem runBits_three (d : Nat) : 6 * runBits 3 d = 120 + 48 * d := by
  simp (config := { decide := true }) only [runBits, if_true, if_false]
  omega

structure Path (n : Nat) (r : Nat → Nat → Nat) (md : Nat → Nat) (num al : Nat → Prop) : Prop where
  r00 : r 0 0 = 0
  md0 : md 0 = 0
  mdr : ∀ j, 1 ≤ j → j ≤ n → 1 ≤ md j ∧ md j ≤ 3
  numal : ∀ k, num k → al k
  /-- every table entry is at most every admissible transition into it -/
  t1 : ∀ k m, k < n → 1 ≤ m → m ≤ 3 → (m = 1 → num k) → (m = 2 → al k) → ∀ m', m' ≤ 3 →
    r (k + 1) m ≤ r k m' + U m + (if m' ≠ m then H m else 0)
  /-- the path follows the transitions that realise its entries -/
  step : ∀ k, k < n →
    r (k + 1) (md (k + 1)) = r k (md k) + U (md (k + 1)) + (if md k ≠ md (k + 1) then H (md (k + 1)) else 0) ∧
    (md (k + 1) = 1 → num k) ∧ (md (k + 1) = 2 → al k)
  /-- the path ends in a cheapest entry of the last row -/
  fin : ∀ m, 1 ≤ m → m ≤ 3 → r n (md n) ≤ r n m

/-- (bits of the closed runs, length of the open run) after `j` characters -/
def acc (md : Nat → Nat) : Nat → Nat × Nat
  | 0 => (0, 0)
  | j + 1 =>
    if md (j + 1) = md j then ((acc md j).1, (acc md j).2 + 1)
    else ((acc md j).1 + runBits (md j) (acc md j).2, 1)

/-- true bit length of the first `j` characters -/
def total (md : Nat → Nat) (j : Nat) : Nat := (acc md j).1 + runBits (md j) (acc md j).2

variable {n : Nat} {r : Nat → Nat → Nat} {md : Nat → Nat} {num al : Nat → Prop}

theorem chainB (P : Path n r md num al) (s m0 : Nat) (hm0 : m0 ≤ 3) :
    ∀ d, s + d + 1 ≤ n → r (s + d + 1) 3 ≤ r s m0 + (if m0 ≠ 3 then 120 else 0) + 48 * (d + 1) := by
  intro d
  induction d with
  | zero =>
    intro h
    have := P.t1 s 3 (by omega) (by omega) (by omega) (by omega) (by omega) m0 hm0
    simp only [Nat.add_zero]
    by_cases hm : m0 = 3 <;>
      simp (config := { decide := true }) only [hm, U, H, if_true, if_false, ne_eq, not_true_eq_false,
        not_false_eq_true] at this ⊢ <;> omega
  | succ d ih =>
    intro h
    have h1 := ih (by omega)
    have := P.t1 (s + d + 1) 3 (by omega) (by omega) (by omega) (by omega) (by omega) 3 (by omega)
    simp (config := { decide := true }) only [U, H, if_true, if_false, ne_eq, not_true_eq_false] at this
    rw [show s + (d + 1) + 1 = s + d + 1 + 1 by omega]
    omega

theorem chainA (P : Path n r md num al) (s m0 : Nat) (hm0 : m0 ≤ 3) :
    ∀ d, s + d + 1 ≤ n → (∀ k, s ≤ k → k < s + d + 1 → al k) →
      r (s + d + 1) 2 ≤ r s m0 + (if m0 ≠ 2 then 102 else 0) + 33 * (d + 1) := by
  intro d
  induction d with
  | zero =>
    intro h hal
    have := P.t1 s 2 (by omega) (by omega) (by omega) (by omega) (fun _ => hal s (by omega) (by omega)) m0 hm0
    simp only [Nat.add_zero]
    by_cases hm : m0 = 2 <;>
      simp (config := { decide := true }) only [hm, U, H, if_true, if_false, ne_eq, not_true_eq_false,
        not_false_eq_true] at this ⊢ <;> omega
  | succ d ih =>
    intro h hal
    have h1 := ih (by omega) (fun k h1 h2 => hal k h1 (by omega))
    have := P.t1 (s + d + 1) 2 (by omega) (by omega) (by omega) (by omega)
      (fun _ => hal (s + d + 1) (by omega) (by omega)) 2 (by omega)
    simp (config := { decide := true }) only [U, H, if_true, if_false, ne_eq, not_true_eq_false] at this
    rw [show s + (d + 1) + 1 = s + d + 1 + 1 by omega]
    omega

/-- the invariant at position `j` -/
def Jinv (r : Nat → Nat → Nat) (md : Nat → Nat) (num al : Nat → Prop) (j : Nat) : Prop :=
  ∃ s, 1 ≤ (acc md j).2 ∧ s + (acc md j).2 = j ∧ md s ≠ md j ∧
    r j (md j) = r s (md s) + H (md j) + U (md j) * (acc md j).2 ∧
    6 * (acc md j).1 + cred (md s) (md j) ≤ 120 + 48 * s ∧
    (md j = 1 → ∀ k, s ≤ k → k < j → num k) ∧ (md j = 2 → ∀ k, s ≤ k → k < j → al k)

/-- closing the open run at `j` in front of mode `m'` (0 = the end) -/
theorem close (P : Path n r md num al) (j : Nat) (hj1 : 1 ≤ j) (hjn : j ≤ n) (hJ : Jinv r md num al j)
    (m' : Nat) (hm' : m' ≤ 3) (hne : m' ≠ md j)
    (hmin : ∀ m'', 1 ≤ m'' → m'' ≤ 3 → r j (md j) + H m' ≤ r j m'' + (if m'' ≠ m' then H m' else 0)) :
    6 * ((acc md j).1 + runBits (md j) (acc md j).2) + cred (md j) m' ≤ 120 + 48 * j := by
  obtain ⟨s, hd1, hsd, hms, hcost, hcred, hnum, hal⟩ := hJ
  have hmr := P.mdr j hj1 hjn
  have hm0 : md s ≤ 3 := by
    by_cases hs : s = 0
    · rw [hs, P.md0]; omega
    · exact (P.mdr s (by omega) (by omega)).2
  have hm00 : md s = 0 → r s (md s) = 0 := by
    intro h0
    by_cases hs : s = 0
    · rw [hs, P.md0, P.r00]
    · have := (P.mdr s (by omega) (by omega)).1; omega
  obtain ⟨d, hd⟩ : ∃ d, (acc md j).2 = d + 1 := ⟨(acc md j).2 - 1, by omega⟩
  have hj : j = s + d + 1 := by omega
  have hB := chainB P s (md s) hm0 d (by omega)
  rw [← hj] at hB
  have hA : md j = 3 ∨ r j 2 ≤ r s (md s) + (if md s ≠ 2 then 102 else 0) + 33 * (d + 1) := by
    by_cases hm3 : md j = 3
    · exact .inl hm3
    right
    have hm : md j = 1 ∨ md j = 2 := by omega
    have := chainA P s (md s) hm0 d (by omega) (fun k h1 h2 => by
      rcases hm with hm | hm
      · exact P.numal k (hnum hm k h1 (by omega))
      · exact hal hm k h1 (by omega))
    rwa [← hj] at this
  have h1 := hmin 1 (by omega) (by omega)
  have h2 := hmin 2 (by omega) (by omega)
  have h3 := hmin 3 (by omega) (by omega)
  rw [hd] at hcost ⊢
  have hz : md s ≠ 0 ∨ r s (md s) = 0 := by
    by_cases h : md s = 0
    · exact .inr (hm00 h)
    · exact .inl h
  clear hm00
  generalize r s (md s) = c0 at *
  have hmc : md j = 1 ∨ md j = 2 ∨ md j = 3 := by omega
  have hm0c : md s = 0 ∨ md s = 1 ∨ md s = 2 ∨ md s = 3 := by omega
  have hm'c : m' = 0 ∨ m' = 1 ∨ m' = 2 ∨ m' = 3 := by omega
  rw [Nat.mul_add]
  rcases hmc with hm | hm | hm <;> rcases hm0c with hm0' | hm0' | hm0' | hm0' <;>
    rcases hm'c with rfl | rfl | rfl | rfl <;>
    simp (config := { decide := true }) only [hm, hm0', runBits_one, runBits_two, runBits_three, U, H, cred,
      if_true, if_false, ne_eq,
      not_true_eq_false, not_false_eq_true, and_true, and_false, false_or, or_false, true_or, or_true] at * <;> omega

theorem jinv_one (P : Path n r md num al) (hn : 1 ≤ n) : Jinv r md num al 1 := by
  have hm1 := P.mdr 1 (by omega) hn
  have hne : md (0 + 1) ≠ md 0 := by rw [P.md0]; simp only [Nat.zero_add]; omega
  have hacc : acc md 1 = (0 + runBits (md 0) 0, 1) := by
    show (if md (0 + 1) = md 0 then _ else _) = _
    rw [if_neg hne]; rfl
  obtain ⟨hs, hnu, hal⟩ := P.step 0 (by omega)
  rw [if_pos (fun h => hne h.symm)] at hs
  simp only [Nat.zero_add] at hs hnu hal hne
  refine ⟨0, by simp only [hacc]; omega, by simp only [hacc], fun h => hne h.symm, ?_, ?_, ?_, ?_⟩
  · rw [hs, hacc]; simp only [Nat.mul_one]; omega
  · rw [hacc, P.md0]
    simp (config := { decide := true }) only [runBits, cred, if_true, if_false]
  · intro h k h1 h2
    have : k = 0 := by omega
    subst this; exact hnu h
  · intro h k h1 h2
    have : k = 0 := by omega
    subst this; exact hal h

theorem jinv_succ (P : Path n r md num al) (j : Nat) (hj1 : 1 ≤ j) (hjn : j < n) (hJ : Jinv r md num al j) :
    Jinv r md num al (j + 1) := by
  obtain ⟨hs, hnu, hal⟩ := P.step j hjn
  have hmj := P.mdr j hj1 (by omega)
  have hmj1 := P.mdr (j + 1) (by omega) (by omega)
  by_cases heq : md (j + 1) = md j
  · -- the open run grows
    have hacc : acc md (j + 1) = ((acc md j).1, (acc md j).2 + 1) := by
      show (if md (j + 1) = md j then _ else _) = _
      rw [if_pos heq]
    obtain ⟨s, hd1, hsd, hms, hcost, hcred, hnum, halp⟩ := hJ
    rw [if_neg (fun h => h heq.symm)] at hs
    refine ⟨s, by simp only [hacc]; omega, by simp only [hacc]; omega, by rw [heq]; exact hms, ?_, ?_, ?_, ?_⟩
    · rw [hs, hacc, heq, hcost, Nat.mul_add]; omega
    · rw [hacc, heq]; exact hcred
    · intro h k h1 h2
      by_cases hk : k < j
      · exact hnum (heq ▸ h) k h1 hk
      · have : k = j := by omega
        subst this; exact hnu h
    · intro h k h1 h2
      by_cases hk : k < j
      · exact halp (heq ▸ h) k h1 hk
      · have : k = j := by omega
        subst this; exact hal h
  · -- a new run starts: close the old one
    have hacc : acc md (j + 1) = ((acc md j).1 + runBits (md j) (acc md j).2, 1) := by
      show (if md (j + 1) = md j then _ else _) = _
      rw [if_neg heq]
    rw [if_pos (fun h => heq h.symm)] at hs
    have hcl := close P j hj1 (by omega) hJ (md (j + 1)) hmj1.2 heq (fun m'' h1 h3 => by
      have ht := P.t1 j (md (j + 1)) hjn hmj1.1 hmj1.2 hnu hal m'' h3
      rw [hs] at ht
      omega)
    refine ⟨j, by simp only [hacc]; omega, by simp only [hacc], fun h => heq h.symm, ?_, ?_, ?_, ?_⟩
    · rw [hs, hacc]; simp only [Nat.mul_one]; omega
    · rw [hacc]; exact hcl
    · intro h k h1 h2
      have : k = j := by omega
      subst this; exact hnu h
    · intro h k h1 h2
      have : k = j := by omega
      subst this; exact hal h

theorem jinv_all (P : Path n r md num al) : ∀ j, 1 ≤ j → j ≤ n → Jinv r md num al j := by
  intro j
  induction j with
  | zero => intro h; omega
  | succ j ih =>
    intro _ hjn
    by_cases hj : j = 0
    · subst hj; exact jinv_one P (by omega)
    · exact jinv_succ P j (by omega) (by omega) (ih (by omega) (by omega))

/-- the true bit length of a path that is minimal at every mode change and at the end is at most
the length of one byte segment -/
theorem total_le (P : Path n r md num al) (hn : 1 ≤ n) : total md n ≤ 20 + 8 * n := by
  have hmn := P.mdr n hn (Nat.le_refl _)
  have := close P n hn (Nat.le_refl _) (jinv_all P n hn (Nat.le_refl _)) 0 (by omega) (by omega)
    (fun m'' h1 h3 => by
      have := P.fin m'' h1 h3
      simp (config := { decide := true }) only [H, if_true, if_false]
      split <;> omega)
  unfold total
  have hc : cred (md n) 0 = 0 := by
    unfold cred
    rw [if_neg (by omega), if_neg (by omega), if_neg (by omega)]
  omega

end QRV.Lemmas.NewOptimalAbs
