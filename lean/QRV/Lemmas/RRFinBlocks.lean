import QRV.GenTypes
import QRV.Gen.RMQR
import QRV.Lemmas.Finite
import QRV.Lemmas.RTFinBlocks
/-
Kernel-evaluated facts about the 64 rows of `Gen.RMQR.capacityTable`: block shape (one group, or two
groups the second one codeword longer), every block at most 255 codewords, five count-indicator
widths per row, those of the four modes between 1 and 16 bits.
-/
namespace QRV.Lemmas.RR
open QRV QRV.Lemmas QRV.Lemmas.RT

set_option maxRecDepth 1000000

def capOK (c : Gen.GCap) : Bool :=
  capShapeOK c && c.blocks.all (fun b => decide (b.total ≤ 255)) && c.bitLength.length == 5 &&
    (c.bitLength.drop 1).all (fun n => decide (1 ≤ n) && decide (n ≤ 16))

def rowCapOK (v l : Nat) : Bool :=
  match (Gen.RMQR.capacityTable[v]?.getD [])[l]? with
  | none => false
  | some c => capOK c

theorem rmqr_rows_ok : (List.range 32).all (fun v => (List.range 2).all (rowCapOK v)) = true := by
  decide +kernel

theorem rmqr_table_shape : Gen.RMQR.capacityTable.length = 32 ∧
    Gen.RMQR.capacityTable.all (fun r => r.length == 2) = true := by decide +kernel

theorem rmqr_row_ok (v l : Nat) (hv : v < 32) (hl : l < 2) : rowCapOK v l = true :=
  forall_lt_of_all₂ rmqr_rows_ok v hv l hl

end QRV.Lemmas.RR
