import QRV.Lemmas.MicroRTDefs
import QRV.Lemmas.RTWalk
/-
The zig-zag module walk of the Micro QR encoder (`Model.Micro.placeLoop`) and decoder
(`Model.Micro.readLoop`) against the slot list `mslots` of `MicroRTDefs`.
-/
namespace QRV.Lemmas.MRT
open QRV QRV.Model QRV.Model.Bits QRV.Model.Bitmap QRV.Model.Sym QRV.Props
open QRV.Lemmas.RT (readBit_unread_nil readBit_unread_cons)

/-! ### slots applied to an image -/

/-- write one stream bit at its slot (nothing for a skipped bit) -/
def slotSet (im : Image) (p : Option (Int × Int) × Bool) : Out Image :=
  match p.1 with
  | some c => im.setBinary c.1 c.2 p.2
  | none => pure im

/-- bit k of `bits` goes to slot k -/
def applySlots (sl : List (Option (Int × Int))) (bits : List Bool) (img : Image) : Out Image :=
  (sl.zip bits).foldlM slotSet img

theorem applySlots_nil (bits : List Bool) (img : Image) : applySlots [] bits img = pure img := by
  simp [applySlots]

theorem applySlots_none (k : Nat) (cs : List (Option (Int × Int))) (bits : List Bool) (img : Image)
    (h : k ≤ bits.length) :
    applySlots (List.replicate k none ++ cs) bits img = applySlots cs (bits.drop k) img := by
  induction k generalizing bits with
  | zero => simp
  | succ k ih =>
    cases bits with
    | nil => simp at h
    | cons b bs =>
      rw [List.replicate_succ, List.cons_append, applySlots, List.zip_cons_cons, List.foldlM_cons]
      show applySlots (List.replicate k none ++ cs) bs img = _
      rw [ih bs (by simpa using h)]
      rfl

/-! ### one bit read, in terms of `C17.unread` -/

theorem unread_readBit (b : Buffer) (h : C16.Inv b) (hr : b.read < 8) :
    C16.Inv (readBit b).1 ∧ (readBit b).1.read < 8 ∧ C17.unread (readBit b).1 = (C17.unread b).drop 1 := by
  cases hu : C17.unread b with
  | nil =>
    rw [readBit_unread_nil b hr hu]
    exact ⟨h, hr, by rw [hu]; rfl⟩
  | cons c rest =>
    obtain ⟨b', bit, hrd, -, hinv', hr', hu'⟩ := readBit_unread_cons b h hr c rest hu
    rw [hrd]
    exact ⟨hinv', hr', by rw [hu']; rfl⟩

/-- skipping to the byte boundary consumes `(8 - r % 8) % 8` bits -/
theorem skipToByte_spec : ∀ (fuel r : Nat) (b : Buffer), C16.Inv b → b.read < 8 → (8 - r % 8) % 8 ≤ fuel →
    (Micro.skipToByte fuel r b).1 = r + (8 - r % 8) % 8 ∧ C16.Inv (Micro.skipToByte fuel r b).2 ∧
      (Micro.skipToByte fuel r b).2.read < 8 ∧
      C17.unread (Micro.skipToByte fuel r b).2 = (C17.unread b).drop ((8 - r % 8) % 8) := by
  intro fuel
  induction fuel with
  | zero =>
    intro r b h hr hk
    have : (8 - r % 8) % 8 = 0 := by omega
    rw [this]
    exact ⟨rfl, h, hr, rfl⟩
  | succ fuel ih =>
    intro r b h hr hk
    rw [Micro.skipToByte]
    by_cases h8 : r % 8 ≠ 0
    · rw [if_pos h8]
      obtain ⟨i1, r1, u1⟩ := unread_readBit b h hr
      obtain ⟨e1, e2, e3, e4⟩ := ih (r + 1) (readBit b).1 i1 r1 (by omega)
      refine ⟨by rw [e1]; omega, e2, e3, ?_⟩
      rw [e4, u1, List.drop_drop]
      congr 1
      omega
    · rw [if_neg h8]
      have : (8 - r % 8) % 8 = 0 := by omega
      rw [this]
      exact ⟨rfl, h, hr, rfl⟩

/-! ### the placement loop -/

/-- the per-module step of `placeLoop` -/
def placeCell (fx : Bool) (x y : Int) (rb : Nat) (buf : Buffer) (img : Image) : Out (Nat × Buffer × Image × Bool) :=
  if !fx then
    match readBit buf with
    | (_, none) => pure (rb + 1, buf, img, true)
    | (b', some bit) => do
      let img ← img.setBinary x y (bit != 0)
      pure (rb + 1, b', img, false)
  else pure (rb, buf, img, false)

theorem cell_length_le (f : Int → Int → Bool) (x y : Int) : (cell f x y).length ≤ 1 := by
  unfold cell; split <;> simp

theorem placeCell_bind (f : Int → Int → Bool) (x y : Int) (rb : Nat) (buf : Buffer) (img : Image)
    (h : C16.Inv buf) (hr : buf.read < 8) (more : List (Option (Int × Int)))
    (hlen : (cell f x y ++ more).length ≤ (C17.unread buf).length)
    (K : Nat × Buffer × Image × Bool → Out Image)
    (hcont : ∀ b' im', C16.Inv b' → b'.read < 8 →
      C17.unread b' = (C17.unread buf).drop (cell f x y).length →
      K (rb + (cell f x y).length, b', im', false) = applySlots more (C17.unread b') im') :
    (placeCell (f x y) x y rb buf img >>= K) = applySlots (cell f x y ++ more) (C17.unread buf) img := by
  unfold cell at hlen hcont ⊢
  cases hfx : f x y with
  | true =>
    rw [hfx] at hlen hcont
    simp only [placeCell, Bool.not_true, Bool.false_eq_true, if_false, if_true, List.nil_append]
    show K (rb, buf, img, false) = _
    exact hcont buf img h hr rfl
  | false =>
    rw [hfx] at hlen hcont
    simp only [placeCell, Bool.not_false, if_true, Bool.false_eq_true, if_false, List.singleton_append]
    cases hu : C17.unread buf with
    | nil => rw [hu] at hlen; simp at hlen
    | cons c rest =>
      obtain ⟨b', bit, hrd, hbit, hinv', hr', hu'⟩ := readBit_unread_cons buf h hr c rest hu
      rw [hrd, applySlots, List.zip_cons_cons, List.foldlM_cons]
      simp only [hbit]
      have hsF : slotSet img (some (x, y), c) = img.setBinary x y c := rfl
      rw [hsF]
      cases hs : img.setBinary x y c with
      | ok im' =>
        show K (rb + 1, b', im', false) = _
        have := hcont b' im' hinv' hr' (by rw [hu', hu]; rfl)
        simp only [Bool.false_eq_true, if_false, List.length_cons, List.length_nil, Nat.zero_add] at this
        rw [this, hu']
        rfl
      | err m => rfl
      | panic m => rfl

/-- the placement loop writes bit k of the unread part of the buffer at slot k, as long as there
are at least as many bits as slots -/
theorem placeLoop_eq (used : Image) (f : Int → Int → Bool) (hf : ∀ x y, used.binaryAt x y = .ok (f x y))
    (w : Int) (D : Nat) :
    ∀ (fuel : Nat) (s : Walk) (rb : Nat) (sl : List (Option (Int × Int))) (buf : Buffer) (img : Image),
      mslots f w D fuel s rb = some sl → C16.Inv buf → buf.read < 8 →
      sl.length ≤ (C17.unread buf).length →
      Micro.placeLoop used w D fuel { x := s.x, y := s.y, dy := s.dy, readBits := rb } buf img =
        applySlots sl (C17.unread buf) img := by
  intro fuel
  induction fuel with
  | zero => intro s rb sl buf img h; simp [mslots] at h
  | succ fuel ih =>
    intro s rb sl buf img hwalk hinv hr hlen
    rw [mslots] at hwalk
    rw [Micro.placeLoop]
    simp only [strictInt_eq, strict_eq] at hwalk ⊢
    rw [hf]; simp only [Out.bind_ok]
    by_cases hx1 : s.x - 1 < 0
    · rw [if_pos hx1] at hwalk
      injection hwalk with hwalk
      subst hwalk
      have := placeCell_bind f s.x s.y rb buf img hinv hr [] (by simpa using hlen)
      rw [List.append_nil] at this
      refine this _ ?_
      intro b' im' _ _ _
      simp only [Bool.false_eq_true, if_false, if_pos hx1, applySlots_nil]
    · rw [if_neg hx1] at hwalk
      generalize hgen : (if s.y + s.dy < 0 ∨ s.y + s.dy > w then (s.x - 1 + 1 - 2, s.y + s.dy + -s.dy, -s.dy)
          else (s.x - 1 + 1, s.y + s.dy, s.dy)) = t at hwalk ⊢
      obtain ⟨nx, ny, ndy⟩ := t
      simp only [] at hwalk ⊢
      have key : ∃ more : List (Option (Int × Int)),
          sl = cell f s.x s.y ++ (cell f (s.x - 1) s.y ++ more) ∧
          (∀ b' im', C16.Inv b' → b'.read < 8 → more.length ≤ (C17.unread b').length →
            (if nx < 0 then (pure im' : Out Image) else
              match (if rb + (cell f s.x s.y).length + (cell f (s.x - 1) s.y).length = D then
                  Micro.skipToByte 8 (rb + (cell f s.x s.y).length + (cell f (s.x - 1) s.y).length) b'
                else (rb + (cell f s.x s.y).length + (cell f (s.x - 1) s.y).length, b')) with
              | (rb, buf) => Micro.placeLoop used w D fuel { x := nx, y := ny, dy := ndy, readBits := rb } buf im') =
              applySlots more (C17.unread b') im') := by
        by_cases hnx : nx < 0
        · rw [if_pos hnx] at hwalk
          injection hwalk with hwalk
          refine ⟨[], by rw [List.append_nil]; exact hwalk.symm, ?_⟩
          intro b' im' _ _ _
          rw [if_pos hnx, applySlots_nil]
        · rw [if_neg hnx] at hwalk
          cases hw' : mslots f w D fuel { x := nx, y := ny, dy := ndy }
              (rb + (cell f s.x s.y ++ cell f (s.x - 1) s.y).length +
                (if rb + (cell f s.x s.y ++ cell f (s.x - 1) s.y).length = D then
                  List.replicate ((8 - (rb + (cell f s.x s.y ++ cell f (s.x - 1) s.y).length) % 8) % 8)
                    (none : Option (Int × Int)) else []).length) with
          | none => rw [hw'] at hwalk; cases hwalk
          | some cs' =>
            rw [hw'] at hwalk
            injection hwalk with hwalk
            have hl12 : (cell f s.x s.y ++ cell f (s.x - 1) s.y).length =
                (cell f s.x s.y).length + (cell f (s.x - 1) s.y).length := List.length_append
            rw [hl12, ← Nat.add_assoc] at hw'
            generalize hR : rb + (cell f s.x s.y).length + (cell f (s.x - 1) s.y).length = R at hw' hwalk ⊢
            rw [hl12, ← Nat.add_assoc, hR] at hwalk
            by_cases hD : R = D
            · rw [if_pos hD] at hw' hwalk
              refine ⟨List.replicate ((8 - R % 8) % 8) none ++ cs', by
                rw [← hwalk]; simp only [List.append_assoc], ?_⟩
              intro b' im' hinv' hr' hlen'
              rw [if_neg hnx, if_pos hD]
              obtain ⟨e1, e2, e3, e4⟩ := skipToByte_spec 8 R b' hinv' hr' (by omega)
              have hk : (8 - R % 8) % 8 ≤ (C17.unread b').length := by
                simp only [List.length_append, List.length_replicate] at hlen'; omega
              rw [applySlots_none _ _ _ _ hk, ← e4]
              generalize hsk : Micro.skipToByte 8 R b' = sk at e1 e2 e3 e4 ⊢
              obtain ⟨r', b''⟩ := sk
              simp only at e1 e2 e3 e4 ⊢
              rw [e1]
              simp only [List.length_replicate] at hw'
              refine ih ⟨nx, ny, ndy⟩ _ _ _ _ hw' e2 e3 ?_
              rw [e4, List.length_drop]
              simp only [List.length_append, List.length_replicate] at hlen'; omega
            · rw [if_neg hD] at hw' hwalk
              refine ⟨cs', by rw [← hwalk]; simp only [List.append_assoc, List.append_nil], ?_⟩
              intro b' im' hinv' hr' hlen'
              rw [if_neg hnx, if_neg hD]
              simp only [List.length_nil, Nat.add_zero] at hw'
              exact ih ⟨nx, ny, ndy⟩ _ _ _ _ hw' hinv' hr' hlen'
      obtain ⟨more, hcs, hmore⟩ := key
      subst hcs
      refine placeCell_bind f s.x s.y rb buf img hinv hr _ hlen _ ?_
      intro b' im' hinv' hr' hu'
      simp only [Bool.false_eq_true, if_false, if_neg hx1]
      rw [hf]; simp only [Out.bind_ok]
      have hlen1 : (cell f (s.x - 1) s.y ++ more).length ≤ (C17.unread b').length := by
        rw [hu', List.length_drop]
        simp only [List.length_append] at hlen ⊢; omega
      refine placeCell_bind f (s.x - 1) s.y _ b' im' hinv' hr' _ hlen1 _ ?_
      intro b'' im'' hinv'' hr'' hu''
      simp only [Bool.false_eq_true, if_false]
      refine hmore b'' im'' hinv'' hr'' ?_
      rw [hu'', List.length_drop]
      simp only [List.length_append] at hlen1 ⊢; omega

/-! ### the reading loop -/

/-- the value read at a slot: the module's colour, zero for a skipped bit -/
def slotVal (g : Int → Int → Bool) : Option (Int × Int) → Bool
  | some c => g c.1 c.2
  | none => false

/-- the per-module step of `readLoop` -/
theorem readCell (img : Image) (f g : Int → Int → Bool) (hg : ∀ x y, img.binaryAt x y = .ok (g x y))
    (x y : Int) (buf : Buffer) (h : C16.Inv buf) :
    ∃ buf', (if (!f x y) = true then do
          let c ← img.binaryAt x y
          writeBit buf (if c = true then 1 else 0)
        else pure buf : Out Buffer) = .ok buf' ∧ C16.Inv buf' ∧
      C16.abs buf' = C16.abs buf ++ (cell f x y).map (slotVal g) := by
  unfold cell
  cases f x y with
  | true => exact ⟨buf, rfl, h, by simp⟩
  | false =>
    obtain ⟨b', hw, hinv', habs, _, _⟩ := C16.writeBit_refines buf h (if g x y then 1 else 0)
    refine ⟨b', ?_, hinv', ?_⟩
    · simp only [Bool.not_false, if_true, hg, Out.bind_ok]; exact hw
    · rw [habs]; cases hgx : g x y <;> simp [hgx, slotVal]

/-- the decoder's move to the byte boundary: zero bits -/
theorem padLoop_spec : ∀ (n a : Nat) (buf : Buffer), C16.Inv buf → (8 - buf.len % 8) % 8 ≤ n →
    ∃ buf', forIn (List.range' a n) buf (fun (_ : Nat) (r : Buffer) =>
          if r.len % 8 ≠ 0 then do
            let buf ← writeBit r 0
            pure (ForInStep.yield buf)
          else pure (ForInStep.yield r)) = .ok buf' ∧ C16.Inv buf' ∧
      C16.abs buf' = C16.abs buf ++ List.replicate ((8 - buf.len % 8) % 8) false := by
  intro n
  induction n with
  | zero =>
    intro a buf h hk
    have : (8 - buf.len % 8) % 8 = 0 := by omega
    exact ⟨buf, rfl, h, by rw [this]; simp⟩
  | succ n ih =>
    intro a buf h hk
    rw [List.range'_succ, List.forIn_cons]
    by_cases h8 : buf.len % 8 ≠ 0
    · rw [if_pos h8]
      obtain ⟨b', hw, hinv', habs, _, _⟩ := C16.writeBit_refines buf h 0
      have hlen : b'.len = buf.len + 1 := by
        rw [C16.len_eq b' hinv', habs, List.length_append, ← C16.len_eq buf h]; rfl
      obtain ⟨b'', e, i'', a''⟩ := ih (a + 1) b' hinv' (by rw [hlen]; omega)
      refine ⟨b'', ?_, i'', ?_⟩
      · rw [hw]; exact e
      · rw [a'', habs, hlen, List.append_assoc]
        congr 1
        have : (8 - buf.len % 8) % 8 = (8 - (buf.len + 1) % 8) % 8 + 1 := by omega
        rw [this, List.replicate_succ]
        rfl
    · rw [if_neg h8]
      have : (8 - buf.len % 8) % 8 = 0 := by omega
      obtain ⟨b'', e, i'', a''⟩ := ih (a + 1) buf h (by omega)
      exact ⟨b'', e, i'', a''⟩

/-- the reading loop appends the values of the slots in order -/
theorem readLoop_eq (used img : Image) (f g : Int → Int → Bool) (hf : ∀ x y, used.binaryAt x y = .ok (f x y))
    (hg : ∀ x y, img.binaryAt x y = .ok (g x y)) (w : Int) (D : Nat) :
    ∀ (fuel : Nat) (s : Walk) (rb : Nat) (sl : List (Option (Int × Int))) (buf : Buffer),
      mslots f w D fuel s rb = some sl → C16.Inv buf → buf.len = rb →
      ∃ buf', Micro.readLoop used img w D fuel s buf = .ok buf' ∧ C16.Inv buf' ∧
        C16.abs buf' = C16.abs buf ++ sl.map (slotVal g) := by
  intro fuel
  induction fuel with
  | zero => intro s rb sl buf h; simp [mslots] at h
  | succ fuel ih =>
    intro s rb sl buf hwalk hinv hrb
    rw [mslots] at hwalk
    rw [Micro.readLoop]
    simp only [Std.Legacy.Range.forIn_eq_forIn_range', Std.Legacy.Range.size, strictInt_eq, strict_eq] at hwalk ⊢
    rw [hf]; simp only [Out.bind_ok]
    obtain ⟨b1, hb1, hinv1, habs1⟩ := readCell img f g hg s.x s.y buf hinv
    rw [hb1]; simp only [Out.bind_ok]
    by_cases hx1 : s.x - 1 < 0
    · rw [if_pos hx1] at hwalk
      injection hwalk with hwalk
      subst hwalk
      rw [if_pos hx1]
      exact ⟨b1, rfl, hinv1, habs1⟩
    · rw [if_neg hx1] at hwalk
      rw [if_neg hx1, hf]; simp only [Out.bind_ok]
      obtain ⟨b2, hb2, hinv2, habs2⟩ := readCell img f g hg (s.x - 1) s.y b1 hinv1
      rw [hb2]; simp only [Out.bind_ok]
      have hlen2 : b2.len = rb + (cell f s.x s.y ++ cell f (s.x - 1) s.y).length := by
        rw [C16.len_eq b2 hinv2, habs2, habs1, List.length_append, List.length_append, ← C16.len_eq buf hinv, hrb]
        simp only [List.length_map, List.length_append]; omega
      generalize (if s.y + s.dy < 0 ∨ s.y + s.dy > w then (s.x - 1 + 1 - 2, s.y + s.dy + -s.dy, -s.dy)
          else (s.x - 1 + 1, s.y + s.dy, s.dy)) = t at hwalk ⊢
      obtain ⟨nx, ny, ndy⟩ := t
      simp only [] at hwalk ⊢
      by_cases hnx : nx < 0
      · rw [if_pos hnx] at hwalk
        injection hwalk with hwalk
        rw [if_pos hnx]
        refine ⟨b2, rfl, hinv2, ?_⟩
        rw [habs2, habs1, ← hwalk, List.map_append, List.append_assoc]
      · rw [if_neg hnx] at hwalk
        rw [if_neg hnx]
        generalize hR : rb + (cell f s.x s.y ++ cell f (s.x - 1) s.y).length = R at hwalk hlen2
        by_cases hD : R = D
        · rw [if_pos hD] at hwalk
          rw [if_pos (by rw [hlen2]; exact hD)]
          simp only [List.length_replicate] at hwalk
          cases hw' : mslots f w D fuel { x := nx, y := ny, dy := ndy } (R + (8 - R % 8) % 8) with
          | none => rw [hw'] at hwalk; cases hwalk
          | some cs' =>
            rw [hw'] at hwalk
            injection hwalk with hwalk
            obtain ⟨b3, hb3, hinv3, habs3⟩ := padLoop_spec 8 0 b2 hinv2 (by omega)
            have hb3' : forIn (List.range' 0 ((8 - 0 + 1 - 1) / 1)) b2 (fun (_ : Nat) (r : Buffer) =>
                if r.len % 8 ≠ 0 then do
                  let buf ← writeBit r 0
                  pure (ForInStep.yield buf)
                else pure (ForInStep.yield r)) = .ok b3 := hb3
            rw [hb3']; simp only [Out.bind_ok]
            have hlen3 : b3.len = R + (8 - R % 8) % 8 := by
              rw [C16.len_eq b3 hinv3, habs3, List.length_append, ← C16.len_eq b2 hinv2, hlen2,
                List.length_replicate]
            obtain ⟨b4, hb4, hinv4, habs4⟩ := ih _ _ _ b3 hw' hinv3 hlen3
            refine ⟨b4, hb4, hinv4, ?_⟩
            subst hwalk
            rw [habs4, habs3, habs2, habs1, hlen2]
            simp only [List.map_append, List.append_assoc, List.map_replicate, slotVal]
        · rw [if_neg hD] at hwalk
          rw [if_neg (by rw [hlen2]; exact hD)]
          simp only [List.length_nil, Nat.add_zero] at hwalk
          cases hw' : mslots f w D fuel { x := nx, y := ny, dy := ndy } R with
          | none => rw [hw'] at hwalk; cases hwalk
          | some cs' =>
            rw [hw'] at hwalk
            injection hwalk with hwalk
            obtain ⟨b4, hb4, hinv4, habs4⟩ := ih _ _ _ b2 hw' hinv2 hlen2
            refine ⟨b4, hb4, hinv4, ?_⟩
            subst hwalk
            rw [habs4, habs2, habs1]
            simp only [List.map_append, List.append_assoc, List.append_nil]

end QRV.Lemmas.MRT
