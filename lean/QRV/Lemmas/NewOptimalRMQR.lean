import QRV.Lemmas.NewOptimalGenDP
import QRV.Lemmas.NewRMQRValid
/-
C05 (too large), rMQR without kanji: the programme `newQRSegs` runs with the header costs
`(3+9)*6, (3+8)*6, (3+8)*6`, which are the true headers of the largest symbol R17x139 (version 31;
the count widths of the regenerated row, by kernel evaluation).  Its segmentation has a standard bit
length in version 31 of at most `3 + 8 + 8 n` (`NewOptimalGenDP.newQR_total_le` with `Par.rmqr`); a
segment list that short has representable character counts in version 31 (the capacity is below
the length of a segment with an unrepresentable count); every order list contains version 31; so
the first-fit scan of `calcVersion` finds a version.
-/
namespace QRV.Lemmas.NewOptimalRMQR
open QRV QRV.Model QRV.Model.Sym QRV.Model.New QRV.Model.Codec QRV.Spec.Valid QRV.Lemmas.NewDP QRV.Lemmas.NewDPGen
  QRV.Lemmas.NewOptimalGen QRV.Lemmas.NewOptimalGenDP
open QRV.Lemmas.CalcVersion

/-- the row of version 31 at both levels: count widths 9 / 8 / 8 for numeric / alphanumeric / byte,
and a capacity below the length of an alphanumeric segment of 256 characters -/
theorem row31 : (List.range 2).all (fun l => match RMQR.row 31 l with
    | some c => RMQR.countBits 0 c == 9 && RMQR.countBits 1 c == 8 && RMQR.countBits 2 c == 8 &&
        decide (8 * c.data < 1419)
    | none => false) = true := by
  decide +kernel

theorem row31_facts (level : Nat) (hl : level < 2) (c : Gen.GCap) (hc : RMQR.row 31 level = some c) :
    RMQR.countBits 0 c = 9 ∧ RMQR.countBits 1 c = 8 ∧ RMQR.countBits 2 c = 8 ∧ 8 * c.data < 1419 := by
  have := forall_lt_of_all row31 level hl
  rw [hc] at this
  simp only [Bool.and_eq_true, beq_iff_eq, decide_eq_true_eq] at this
  obtain ⟨⟨⟨h0, h1⟩, h2⟩, h3⟩ := this
  exact ⟨h0, h1, h2, h3⟩

/-- every order list contains version 31 -/
theorem order31 : (List.range 3).all (fun p => (rmOrder p).contains 31) = true := by
  decide +kernel

/-- a measure of segments in the row `c` of version 31 -/
theorem rmqr_meas (c : Gen.GCap) (h0 : RMQR.countBits 0 c = 9) (h1 : RMQR.countBits 1 c = 8)
    (h2 : RMQR.countBits 2 c = 8) : Meas Par.rmqr [0, 1, 2, 3] (fun s => RMQR.segBits s c) := by
  refine ⟨?_, ?_⟩
  · intro m m' h1 h3 h1' h3' h
    have hm : m = 1 ∨ m = 2 ∨ m = 3 := by omega
    have hm' : m' = 1 ∨ m' = 2 ∨ m' = 3 := by omega
    rcases hm with rfl | rfl | rfl <;> rcases hm' with rfl | rfl | rfl <;>
      first | rfl | exact absurd h (by decide)
  · intro a m hm1 hm3 ha
    have hm : m = 1 ∨ m = 2 ∨ m = 3 := by omega
    rcases hm with rfl | rfl | rfl
    · have ha' : a.mode = 1 := ha
      simp (config := { decide := true }) [RMQR.segBits, RMQR.kindOf, bodyBits, count, runBits, Par.rmqr, ha', h0]
    · have ha' : a.mode = 2 := ha
      simp (config := { decide := true }) [RMQR.segBits, RMQR.kindOf, bodyBits, count, runBits, Par.rmqr, ha', h1]
    · have ha' : a.mode = 3 := ha
      simp (config := { decide := true }) [RMQR.segBits, RMQR.kindOf, bodyBits, count, runBits, Par.rmqr, ha', h2]

/-- the accumulated length when every segment has one -/
theorem rmAcc_all (v level : Int) (f : Segment → Nat) : ∀ (segs : List Segment) (a : Nat),
    (∀ s ∈ segs, Model.RMQR.segLength s v level = .ok (some (f s))) →
    segs.foldl (rmAcc v level) (some a) = some (a + (segs.map f).sum) := by
  intro segs
  induction segs with
  | nil => intro a _; simp
  | cons s segs ih =>
    intro a h
    rw [List.foldl_cons]
    have hs : rmAcc v level (some a) s = some (a + f s) := by
      unfold rmAcc
      rw [h s List.mem_cons_self]
    rw [hs, ih _ (fun s' hs' => h s' (List.mem_cons_of_mem _ hs')), List.map_cons, List.sum_cons, Nat.add_assoc]

theorem rmqr_new_not_too_large (level prio : Nat) (hl : level < 2) (hp : prio < 3) (c : Gen.GCap)
    (hc : Spec.Valid.RMQR.row 31 level = some c) (data : List Nat) (hb : ∀ b ∈ data, b < 256)
    (hfit : 3 + Spec.Valid.RMQR.countBits 2 c + 8 * data.length ≤ 8 * c.data) :
    ∃ q, Model.RMQR.new (level : Int) (prio : Int) false data = .ok q := by
  obtain ⟨h0, h1, h2, hcap⟩ := row31_facts level hl c hc
  rw [h2] at hfit
  have hlv : Model.RMQR.levelIsValid (level : Int) = true := by
    simp only [Model.RMQR.levelIsValid, Gen.RMQR.c_levelMax, Bool.and_eq_true]
    refine ⟨decide_eq_true ?_, decide_eq_true ?_⟩ <;> omega
  unfold Model.RMQR.new
  simp only []
  split
  · rename_i hlv'
    rw [hlv] at hlv'
    cases hlv'
  · split
    · rw [if_pos (show Model.RMQR.NEW_EMPTY_USES_PRIORITY = true from rfl)]
      obtain ⟨v, hv, _⟩ := Lemmas.NewRMQRValid.calcVersion_nil level prio hl hp
      rw [hv]
      exact ⟨_, rfl⟩
    · rename_i he
      have hne : data ≠ [] := by simpa using he
      have hsize : data.toArray.size ≠ 0 := size_ne_zero hne
      have hsz : data.toArray.size < 2 ^ 56 := by
        simp only [List.size_toArray]; omega
      simp only [Bool.false_eq_true, if_false]
      show ∃ q, (do
        let segments ← (pure (newQRSegs ((3 + 9) * 6) ((3 + 8) * 6) ((3 + 8) * 6) [0, 1, 2, 3] data.toArray) : Out _)
        match (← Model.RMQR.calcVersion level prio segments) with
        | none => .err "rmqr: data too large"
        | some version => pure ({ version, level, mask := 0, segments } : QRCode)) = .ok q
      rw [show (pure (newQRSegs ((3 + 9) * 6) ((3 + 8) * 6) ((3 + 8) * 6) [0, 1, 2, 3] data.toArray) : Out _) =
        Out.ok (newQRSegs ((3 + 9) * 6) ((3 + 8) * 6) ((3 + 8) * 6) [0, 1, 2, 3] data.toArray) from rfl]
      simp only [Out.bind_ok]
      have hvalid := newQR_valid_gen ((3 + 9) * 6) ((3 + 8) * 6) ((3 + 8) * 6) Lemmas.NewRMQRValid.distinct
        data.toArray hsize hsz (by decide) (by simpa using hb)
      have htot : ((newQRSegs ((3 + 9) * 6) ((3 + 8) * 6) ((3 + 8) * 6) [0, 1, 2, 3] data.toArray).map
          fun s => RMQR.segBits s c).sum ≤ 3 + 8 + 8 * data.toArray.size :=
        newQR_total_le Par.rmqr Par.ok_rmqr [0, 1, 2, 3] _ (rmqr_meas c h0 h1 h2) data.toArray hsize
          (by show 66 + 48 * data.toArray.size < inf; unfold inf; omega)
      simp only [List.size_toArray] at htot
      generalize newQRSegs ((3 + 9) * 6) ((3 + 8) * 6) ((3 + 8) * 6) [0, 1, 2, 3] data.toArray = segs at hvalid htot ⊢
      -- version 31 holds the segments
      have hfits : rmFits level segs 31 := by
        have hagree := fun s => Lemmas.CalcVersionExt.rmqr_length_agrees s 31 level c hc
        have hall : ∀ s ∈ segs, Model.RMQR.segLength s 31 (level : Int) = .ok (some (RMQR.segBits s c)) := by
          intro s hs
          have hle : RMQR.segBits s c ≤ 3 + 8 + 8 * data.length := by
            have hmem : RMQR.segBits s c ∈ segs.map fun s => RMQR.segBits s c := List.mem_map.2 ⟨s, hs, rfl⟩
            have := Lemmas.NewQRValid.le_sum_of_mem hmem
            omega
          have hag := hagree s
          rw [show ((31 : Nat) : Int) = 31 from rfl] at hag
          rw [hag]
          rcases hvalid s hs with ⟨hm, _⟩ | ⟨hm, _⟩ | ⟨hm, _⟩ | ⟨hf, _⟩
          · have hk : RMQR.kindOf s.mode = some 0 := by rw [hm]; rfl
            rw [hk]
            simp only []
            rw [if_pos]
            simp only [RMQR.segBits, hk, h0, bodyBits] at hle
            rw [h0]
            show count 0 s.data < 512
            generalize count 0 s.data = n at hle ⊢
            omega
          · have hk : RMQR.kindOf s.mode = some 1 := by rw [hm]; rfl
            rw [hk]
            simp only []
            rw [if_pos]
            simp only [RMQR.segBits, hk, h1, bodyBits] at hle
            rw [h1]
            show count 1 s.data < 256
            generalize count 1 s.data = n at hle ⊢
            omega
          · have hk : RMQR.kindOf s.mode = some 2 := by rw [hm]; rfl
            rw [hk]
            simp only []
            rw [if_pos]
            simp only [RMQR.segBits, hk, h2, bodyBits] at hle
            rw [h2]
            show count 2 s.data < 256
            generalize count 2 s.data = n at hle ⊢
            omega
          · cases hf
        refine ⟨_, (rmLen_eq segs 31 (level : Int)).trans (rmAcc_all 31 (level : Int) _ segs 0 hall), ?_⟩
        have hcapc : rmCapBits 31 level = c.data * 8 := by
          unfold RMQR.row at hc
          unfold rmCapBits
          rw [show (31 : Int).toNat = 31 from rfl, hc]
          rfl
        omega
      obtain ⟨r, hr, _, hnone⟩ := rmqr_calcVersion_first_fit level prio hl hp segs
      rw [hr]
      simp only [Out.bind_ok]
      cases r with
      | some v => exact ⟨_, rfl⟩
      | none =>
        exfalso
        have hmem : (31 : Int) ∈ rmOrder prio := by
          have := forall_lt_of_all order31 prio hp
          simpa using this
        exact hnone rfl 31 hmem hfits

end QRV.Lemmas.NewOptimalRMQR
