import QRV.Model.Utf8
import QRV.Model.Codec
import QRV.Lemmas.Finite
import QRV.Lemmas.Bits
/-
C08 helper: a byte string all of whose runes (as Go's `range string` decodes them) are characters
of kanji mode is well-formed UTF-8: re-encoding its runes gives the string back.
(A decoding error yields U+FFFD and a rune beyond U+FFFF is never a kanji-mode character.)
-/
namespace QRV.Lemmas.Enc
open QRV QRV.Model.Utf8 QRV.Model.Codec

/-- characters of kanji mode lie in U+00A7 .. U+FFE5 -/
theorem isKanji_range {r : Nat} (h : isKanji r = true) : 167 ≤ r ∧ r ≤ 65509 := by
  open Gen.Kanji in
  unfold isKanji encodeKanjiRune at h
  by_cases h0 : enc0Low ≤ r ∧ r ≤ enc0High
  · unfold enc0Low enc0High at h0; omega
  by_cases h1 : enc1Low ≤ r ∧ r ≤ enc1High
  · unfold enc1Low enc1High at h1; omega
  by_cases h2 : enc2Low ≤ r ∧ r ≤ enc2High
  · unfold enc2Low enc2High at h2; omega
  by_cases h3 : enc3Low ≤ r ∧ r ≤ enc3High
  · unfold enc3Low enc3High at h3; omega
  by_cases h4 : enc4Low ≤ r ∧ r ≤ enc4High
  · unfold enc4Low enc4High at h4; omega
  simp only [if_neg h0, if_neg h1, if_neg h2, if_neg h3, if_neg h4] at h
  cases h

/-! ### finite checks of the bit arithmetic -/

def enc2OK (i j : Nat) : Bool :=
  let p0 := 0xC2 + i
  let b1 := 0x80 + j
  encodeRune (((p0 &&& 0x1F) <<< 6) ||| (b1 &&& 0x3F)) == [p0, b1]

theorem enc2_all : (List.range 30).all (fun i => (List.range 64).all (enc2OK i)) = true := by decide +kernel

theorem and_0F : ∀ a, a < 16 → (0xE0 + a) &&& 0x0F = a ∧ 0xE0 ||| a = 0xE0 + a := by
  have : (List.range 16).all (fun a => (0xE0 + a) &&& 0x0F == a && (0xE0 ||| a == 0xE0 + a)) = true := by decide +kernel
  intro a ha
  have := forall_lt_of_all this a ha
  simpa using this

theorem and_3F : ∀ b, b < 64 → (0x80 + b) &&& 0x3F = b ∧ 0x80 ||| b = 0x80 + b := by
  have : (List.range 64).all (fun a => (0x80 + a) &&& 0x3F == a && (0x80 ||| a == 0x80 + a)) = true := by decide +kernel
  intro a ha
  have := forall_lt_of_all this a ha
  simpa using this

theorem enc3_eq (p0 b1 b2 : Nat) (hp : 0xE0 ≤ p0 ∧ p0 < 0xF0) (h1 : (if p0 = 0xE0 then 0xA0 else 0x80) ≤ b1 ∧ b1 ≤ (if p0 = 0xED then 0x9F else 0xBF))
    (h2 : 0x80 ≤ b2 ∧ b2 ≤ 0xBF) :
    encodeRune (((p0 &&& 0x0F) <<< 12) ||| ((b1 &&& 0x3F) <<< 6) ||| (b2 &&& 0x3F)) = [p0, b1, b2] := by
  have hb1 : 0x80 ≤ b1 ∧ b1 ≤ 0xBF := by
    obtain ⟨x, y⟩ := h1
    split at x <;> split at y <;> omega
  obtain ⟨a, rfl⟩ : ∃ a, p0 = 0xE0 + a := ⟨p0 - 0xE0, by omega⟩
  obtain ⟨b, rfl⟩ : ∃ b, b1 = 0x80 + b := ⟨b1 - 0x80, by omega⟩
  obtain ⟨c, rfl⟩ : ∃ c, b2 = 0x80 + c := ⟨b2 - 0x80, by omega⟩
  have ha : a < 16 := by omega
  have hb : b < 64 := by omega
  have hc : c < 64 := by omega
  rw [(and_0F a ha).1, (and_3F b hb).1, (and_3F c hc).1]
  have e : (a <<< 12 ||| b <<< 6) ||| c = a * 4096 + b * 64 + c := by
    rw [Nat.shiftLeft_eq, Nat.shiftLeft_eq]
    have e1 := Bits.mul_pow_or a (b * 2 ^ 6) 12 (by omega)
    rw [e1]
    have e2 := Bits.mul_pow_or (a * 64 + b) c 6 (by omega)
    have e3 : a * 2 ^ 12 + b * 2 ^ 6 = (a * 64 + b) * 2 ^ 6 := by omega
    rw [e3, e2]
  rw [e]
  generalize hr : a * 4096 + b * 64 + c = r
  have hlo : 0x800 ≤ r := by
    obtain ⟨x, _⟩ := h1
    split at x <;> omega
  have hsur : ¬ ((0xD800 ≤ r ∧ r ≤ 0xDFFF) ∨ r > 0x10FFFF) := by
    obtain ⟨_, y⟩ := h1
    split at y <;> omega
  unfold encodeRune
  rw [if_neg (by omega), if_neg (by omega), if_neg hsur, if_pos (by omega)]
  have m6 : ∀ x : Nat, x &&& 0x3F = x % 64 := fun x => Nat.and_two_pow_sub_one_eq_mod x 6
  rw [m6, m6, Nat.shiftRight_eq_div_pow, Nat.shiftRight_eq_div_pow]
  have e1 : r / 2 ^ 12 = a := by omega
  have e2 : r / 2 ^ 6 % 64 = b := by omega
  have e3 : r % 64 = c := by omega
  rw [e1, e2, e3, (and_0F a ha).2, (and_3F b hb).2, (and_3F c hc).2]

def enc4Big (i j : Nat) : Bool :=
  let p0 := 0xF0 + i
  let b1 := 0x80 + j
  let lo := if p0 = 0xF0 then 0x90 else 0x80
  !(decide (lo ≤ b1)) || decide (0x10000 ≤ ((p0 &&& 0x07) <<< 18) ||| ((b1 &&& 0x3F) <<< 12))

theorem enc4_all : (List.range 5).all (fun i => (List.range 64).all (enc4Big i)) = true := by decide +kernel

theorem le_or_left (a b : Nat) : a ≤ a ||| b := Nat.left_le_or

/-! ### one rune -/

/-- if the first rune of a non-empty string is a kanji-mode character then re-encoding it gives
exactly the bytes it was decoded from (and at least one byte was consumed) -/
theorem decodeRune_kanji (l : List Nat) (hne : l ≠ []) (hk : isKanji (decodeRune l).1 = true) :
    encodeRune (decodeRune l).1 = l.take (decodeRune l).2 ∧ 1 ≤ (decodeRune l).2 := by
  have hrange := isKanji_range hk
  have herr : ∀ n : Nat, decodeRune l = (runeError, n) → False := by
    intro n e; rw [e] at hrange; unfold runeError at hrange; omega
  match l, hne with
  | p0 :: rest, _ =>
  unfold decodeRune at hrange herr ⊢
  by_cases c1 : p0 < 0x80
  · simp only [if_pos c1] at hrange
    omega
  simp only [if_neg c1] at hrange herr ⊢
  by_cases c2 : p0 < 0xC2
  · exact (herr 1 (by simp only [if_pos c2])).elim
  simp only [if_neg c2] at hrange herr ⊢
  by_cases c3 : p0 < 0xE0
  · simp only [if_pos c3] at hrange herr ⊢
    match rest with
    | [] => exact (herr 1 rfl).elim
    | b1 :: tl =>
      simp only at hrange herr ⊢
      by_cases cb : 0x80 ≤ b1 ∧ b1 ≤ 0xBF
      · simp only [if_pos cb]
        have := forall_lt_of_all₂ enc2_all (p0 - 0xC2) (by omega) (b1 - 0x80) (by omega)
        unfold enc2OK at this
        simp only [show 0xC2 + (p0 - 0xC2) = p0 by omega, show 0x80 + (b1 - 0x80) = b1 by omega, beq_iff_eq] at this
        exact ⟨by rw [this]; rfl, by omega⟩
      · exact (herr 1 (by simp only [if_neg cb])).elim
  simp only [if_neg c3] at hrange herr ⊢
  by_cases c4 : p0 < 0xF0
  · simp only [if_pos c4] at hrange herr ⊢
    match rest with
    | [] => exact (herr 1 rfl).elim
    | [_] => exact (herr 1 rfl).elim
    | b1 :: b2 :: tl =>
      simp only at hrange herr ⊢
      by_cases cb1 : (if p0 = 0xE0 then 0xA0 else 0x80) ≤ b1 ∧ b1 ≤ (if p0 = 0xED then 0x9F else 0xBF)
      · simp only [if_pos cb1] at hrange herr ⊢
        by_cases cb2 : 0x80 ≤ b2 ∧ b2 ≤ 0xBF
        · simp only [if_pos cb2]
          have h := enc3_eq p0 b1 b2 ⟨by omega, c4⟩ cb1 cb2
          exact ⟨by rw [h]; rfl, by omega⟩
        · exact (herr 1 (by simp only [if_neg cb2])).elim
      · exact (herr 1 (by simp only [if_neg cb1])).elim
  simp only [if_neg c4] at hrange herr ⊢
  by_cases c5 : p0 < 0xF5
  · simp only [if_pos c5] at hrange herr ⊢
    match rest with
    | [] => exact (herr 1 rfl).elim
    | [_] => exact (herr 1 rfl).elim
    | [_, _] => exact (herr 1 rfl).elim
    | b1 :: b2 :: b3 :: tl =>
      simp only at hrange herr ⊢
      by_cases cb1 : (if p0 = 0xF0 then 0x90 else 0x80) ≤ b1 ∧ b1 ≤ (if p0 = 0xF4 then 0x8F else 0xBF)
      · simp only [if_pos cb1] at hrange herr ⊢
        by_cases cb2 : 0x80 ≤ b2 ∧ b2 ≤ 0xBF
        · simp only [if_pos cb2] at hrange herr ⊢
          by_cases cb3 : 0x80 ≤ b3 ∧ b3 ≤ 0xBF
          · simp only [if_pos cb3] at hrange
            exfalso
            have hb1 : 0x80 ≤ b1 ∧ b1 ≤ 0xBF := by
              obtain ⟨x, y⟩ := cb1
              split at x <;> split at y <;> omega
            have := forall_lt_of_all₂ enc4_all (p0 - 0xF0) (by omega) (b1 - 0x80) (by omega)
            unfold enc4Big at this
            simp only [show 0xF0 + (p0 - 0xF0) = p0 by omega, show 0x80 + (b1 - 0x80) = b1 by omega,
              Bool.or_eq_true, Bool.not_eq_true', decide_eq_false_iff_not, decide_eq_true_eq] at this
            rcases this with h | h
            · exact h cb1.1
            · have h1 := le_or_left (((p0 &&& 0x07) <<< 18) ||| ((b1 &&& 0x3F) <<< 12)) ((b2 &&& 0x3F) <<< 6)
              have h2 := le_or_left ((((p0 &&& 0x07) <<< 18) ||| ((b1 &&& 0x3F) <<< 12)) ||| ((b2 &&& 0x3F) <<< 6)) (b3 &&& 0x3F)
              omega
          · exact (herr 1 (by simp only [if_neg cb3])).elim
        · exact (herr 1 (by simp only [if_neg cb2])).elim
      · exact (herr 1 (by simp only [if_neg cb1])).elim
  · exact (herr 1 (by simp only [if_neg c5])).elim

/-! ### the whole string -/

theorem runesFuel_kanji : ∀ (fuel : Nat) (l : List Nat), l.length ≤ fuel →
    (∀ r ∈ runesFuel fuel l, isKanji r = true) → (runesFuel fuel l).flatMap encodeRune = l := by
  intro fuel
  induction fuel with
  | zero =>
    intro l hl _
    have : l = [] := List.eq_nil_of_length_eq_zero (by omega)
    subst this
    rfl
  | succ f ih =>
    intro l hl hk
    match l with
    | [] => rfl
    | a :: t =>
      have hrun : runesFuel (f + 1) (a :: t) =
          (decodeRune (a :: t)).1 :: runesFuel f ((a :: t).drop (decodeRune (a :: t)).2) := rfl
      rw [hrun] at hk ⊢
      obtain ⟨he, h1⟩ := decodeRune_kanji (a :: t) (by simp) (hk _ (List.mem_cons_self ..))
      rw [List.flatMap_cons, he, ih _ ?_ (fun r hr => hk r (List.mem_cons_of_mem _ hr)), List.take_append_drop]
      rw [List.length_drop]
      omega

/-- kanji data accepted by the encoder is well-formed UTF-8 -/
theorem runes_kanji_wellformed (data : List Nat) (hk : ∀ r ∈ runes data, isKanji r = true) :
    (runes data).flatMap encodeRune = data :=
  runesFuel_kanji data.length data (Nat.le_refl _) hk

end QRV.Lemmas.Enc
