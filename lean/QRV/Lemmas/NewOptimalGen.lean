/-
C05 (too large): the arithmetic core, parameterised over the header constants.  A path through a
three-mode cost table (costs in sixths of a bit; `hN hA hB` the header costs of the programme,
`tN tA tB` the TRUE header widths in bits of the largest symbol) that is minimal at every mode change
and at the end has a TRUE bit length (every segment rounded up) of at most the one-byte-segment
length `tB + 8 n`.  This is `Lemmas/NewOptimalAbs.lean` with the constants `108 102 120` /
`18 17 20` / `144` replaced by the fields of `Par`; the case splits are discharged by `omega` for
every parameter set listed in `Par.Ok` (QR 27-40, rMQR R17x139, Micro QR M4).

The invariant: when the segment that ends at position `s` in mode `m0` is followed by mode `m`,
`6 * (true bits up to s) + cred m0 m ≤ 6 * tB + 48 * s`, where the credit `cred` is the true header
of the next byte segment, or `cNA` in front of an alphanumeric segment that follows a numeric one
(such a numeric segment is long enough to be `cNA` sixths cheaper than bytes), or `6 * tB` at the
very start (no byte header has been paid yet).
-/
namespace QRV.Lemmas.NewOptimalGen
set_option linter.unusedSimpArgs false

/-- header parameters -/
structure Par where
  /-- header costs of the programme, in sixths of a bit -/
  hN : Nat
  hA : Nat
  hB : Nat
  /-- true header widths (mode + count indicator) of the largest symbol, in bits -/
  tN : Nat
  tA : Nat
  tB : Nat
  /-- credit in front of an alphanumeric segment that follows a numeric one -/
  cNA : Nat

/-- QR versions 27-40: the programme's headers are the true ones -/
def Par.qr : Par := ⟨108, 102, 120, 18, 17, 20, 144⟩
/-- rMQR R17x139: the programme's headers are the true ones -/
def Par.rmqr : Par := ⟨72, 66, 66, 12, 11, 11, 84⟩
/-- Micro QR M4: the programme's headers are one bit larger than the true ones -/
def Par.micro : Par := ⟨60, 54, 54, 9, 8, 8, 60⟩

/-- the parameter sets for which the case analysis has been checked -/
def Par.Ok (p : Par) : Prop :=
  (p.hN = 108 ∧ p.hA = 102 ∧ p.hB = 120 ∧ p.tN = 18 ∧ p.tA = 17 ∧ p.tB = 20 ∧ p.cNA = 144) ∨
  (p.hN = 72 ∧ p.hA = 66 ∧ p.hB = 66 ∧ p.tN = 12 ∧ p.tA = 11 ∧ p.tB = 11 ∧ p.cNA = 84) ∨
  (p.hN = 60 ∧ p.hA = 54 ∧ p.hB = 54 ∧ p.tN = 9 ∧ p.tA = 8 ∧ p.tB = 8 ∧ p.cNA = 60)

theorem Par.ok_qr : Par.qr.Ok := .inl ⟨rfl, rfl, rfl, rfl, rfl, rfl, rfl⟩
theorem Par.ok_rmqr : Par.rmqr.Ok := .inr (.inl ⟨rfl, rfl, rfl, rfl, rfl, rfl, rfl⟩)
theorem Par.ok_micro : Par.micro.Ok := .inr (.inr ⟨rfl, rfl, rfl, rfl, rfl, rfl, rfl⟩)

/-- cost of a character in sixths of a bit -/
def U (m : Nat) : Nat := if m = 1 then 20 else if m = 2 then 33 else 48
/-- header cost of the programme in sixths; 0 for the end -/
def H (p : Par) (m : Nat) : Nat := if m = 1 then p.hN else if m = 2 then p.hA else if m = 3 then p.hB else 0
/-- true bit length in the largest symbol of a run of `d` characters in DP mode `m` -/
def runBits (p : Par) (m d : Nat) : Nat :=
  if m = 1 then p.tN + (10 * (d / 3) + (if d % 3 = 1 then 4 else if d % 3 = 2 then 7 else 0))
  else if m = 2 then p.tA + (11 * (d / 2) + 6 * (d % 2))
  else if m = 3 then p.tB + 8 * d else 0
/-- credit in front of a segment of mode `m` that follows mode `m0` (0 = start / end) -/
def cred (p : Par) (m0 m : Nat) : Nat :=
  if m0 = 0 then 6 * p.tB else if m = 3 then 6 * p.tB else if m0 = 1 ∧ m = 2 then p.cNA else 0

theorem runBits_one (p : Par) (d : Nat) : 6 * runBits p 1 d = 6 * p.tN + 20 * d + (4 * d) % 6 := by
  simp only [runBits, if_true]
  split
  · omega
  · split <;> omega

theorem runBits_two (p : Par) (d : Nat) : 6 * runBits p 2 d = 6 * p.tA + 33 * d + (3 * d) % 6 := by
  simp (config := { decide := true }) only [runBits, if_true, if_false]
  omega

theorem runBits_three (p : Par) (d : Nat) : 6 * runBits p 3 d = 6 * p.tB + 48 * d := by
  simp (config := { decide := true }) only [runBits, if_true, if_false]
  omega

structure Path (p : Par) (n : Nat) (r : Nat → Nat → Nat) (md : Nat → Nat) (num al : Nat → Prop) : Prop where
  r00 : r 0 0 = 0
  md0 : md 0 = 0
  mdr : ∀ j, 1 ≤ j → j ≤ n → 1 ≤ md j ∧ md j ≤ 3
  numal : ∀ k, num k → al k
  /-- every table entry is at most every admissible transition into it -/
  t1 : ∀ k m, k < n → 1 ≤ m → m ≤ 3 → (m = 1 → num k) → (m = 2 → al k) → ∀ m', m' ≤ 3 →
    r (k + 1) m ≤ r k m' + U m + (if m' ≠ m then H p m else 0)
  /-- the path follows the transitions that realise its entries -/
  step : ∀ k, k < n →
    r (k + 1) (md (k + 1)) = r k (md k) + U (md (k + 1)) + (if md k ≠ md (k + 1) then H p (md (k + 1)) else 0) ∧
    (md (k + 1) = 1 → num k) ∧ (md (k + 1) = 2 → al k)
  /-- the path ends in a cheapest entry of the last row -/
  fin : ∀ m, 1 ≤ m → m ≤ 3 → r n (md n) ≤ r n m

/-- (bits of the closed runs, length of the open run) after `j` characters -/
def acc (p : Par) (md : Nat → Nat) : Nat → Nat × Nat
  | 0 => (0, 0)
  | j + 1 =>
    if md (j + 1) = md j then ((acc p md j).1, (acc p md j).2 + 1)
    else ((acc p md j).1 + runBits p (md j) (acc p md j).2, 1)

/-- true bit length of the first `j` characters -/
def total (p : Par) (md : Nat → Nat) (j : Nat) : Nat := (acc p md j).1 + runBits p (md j) (acc p md j).2

variable {p : Par} {n : Nat} {r : Nat → Nat → Nat} {md : Nat → Nat} {num al : Nat → Prop}

theorem chainB (P : Path p n r md num al) (s m0 : Nat) (hm0 : m0 ≤ 3) :
    ∀ d, s + d + 1 ≤ n → r (s + d + 1) 3 ≤ r s m0 + (if m0 ≠ 3 then p.hB else 0) + 48 * (d + 1) := by
  intro d
  induction d with
  | zero =>
    intro h
    have := P.t1 s 3 (by omega) (by omega) (by omega) (by omega) (by omega) m0 hm0
    simp only [Nat.add_zero]
    by_cases hm : m0 = 3 <;>
      simp (config := { decide := true }) only [hm, U, H, if_true, if_false, ne_eq, not_true_eq_false,
        not_false_eq_true] at this ⊢ <;> omega
  | succ d ih =>
    intro h
    have h1 := ih (by omega)
    have := P.t1 (s + d + 1) 3 (by omega) (by omega) (by omega) (by omega) (by omega) 3 (by omega)
    simp (config := { decide := true }) only [U, H, if_true, if_false, ne_eq, not_true_eq_false] at this
    rw [show s + (d + 1) + 1 = s + d + 1 + 1 by omega]
    omega

theorem chainA (P : Path p n r md num al) (s m0 : Nat) (hm0 : m0 ≤ 3) :
    ∀ d, s + d + 1 ≤ n → (∀ k, s ≤ k → k < s + d + 1 → al k) →
      r (s + d + 1) 2 ≤ r s m0 + (if m0 ≠ 2 then p.hA else 0) + 33 * (d + 1) := by
  intro d
  induction d with
  | zero =>
    intro h hal
    have := P.t1 s 2 (by omega) (by omega) (by omega) (by omega) (fun _ => hal s (by omega) (by omega)) m0 hm0
    simp only [Nat.add_zero]
    by_cases hm : m0 = 2 <;>
      simp (config := { decide := true }) only [hm, U, H, if_true, if_false, ne_eq, not_true_eq_false,
        not_false_eq_true] at this ⊢ <;> omega
  | succ d ih =>
    intro h hal
    have h1 := ih (by omega) (fun k h1 h2 => hal k h1 (by omega))
    have := P.t1 (s + d + 1) 2 (by omega) (by omega) (by omega) (by omega)
      (fun _ => hal (s + d + 1) (by omega) (by omega)) 2 (by omega)
    simp (config := { decide := true }) only [U, H, if_true, if_false, ne_eq, not_true_eq_false] at this
    rw [show s + (d + 1) + 1 = s + d + 1 + 1 by omega]
    omega

/-- the invariant at position `j` -/
def Jinv (p : Par) (r : Nat → Nat → Nat) (md : Nat → Nat) (num al : Nat → Prop) (j : Nat) : Prop :=
  ∃ s, 1 ≤ (acc p md j).2 ∧ s + (acc p md j).2 = j ∧ md s ≠ md j ∧
    r j (md j) = r s (md s) + H p (md j) + U (md j) * (acc p md j).2 ∧
    6 * (acc p md j).1 + cred p (md s) (md j) ≤ 6 * p.tB + 48 * s ∧
    (md j = 1 → ∀ k, s ≤ k → k < j → num k) ∧ (md j = 2 → ∀ k, s ≤ k → k < j → al k)

/-- closing the open run at `j` in front of mode `m'` (0 = the end) -/
theorem close (hp : p.Ok) (P : Path p n r md num al) (j : Nat) (hj1 : 1 ≤ j) (hjn : j ≤ n) (hJ : Jinv p r md num al j)
    (m' : Nat) (hm' : m' ≤ 3) (hne : m' ≠ md j)
    (hmin : ∀ m'', 1 ≤ m'' → m'' ≤ 3 → r j (md j) + H p m' ≤ r j m'' + (if m'' ≠ m' then H p m' else 0)) :
    6 * ((acc p md j).1 + runBits p (md j) (acc p md j).2) + cred p (md j) m' ≤ 6 * p.tB + 48 * j := by
  obtain ⟨s, hd1, hsd, hms, hcost, hcred, hnum, hal⟩ := hJ
  have hmr := P.mdr j hj1 hjn
  have hm0 : md s ≤ 3 := by
    by_cases hs : s = 0
    · rw [hs, P.md0]; omega
    · exact (P.mdr s (by omega) (by omega)).2
  have hm00 : md s = 0 → r s (md s) = 0 := by
    intro h0
    by_cases hs : s = 0
    · rw [hs, P.md0, P.r00]
    · have := (P.mdr s (by omega) (by omega)).1; omega
  obtain ⟨d, hd⟩ : ∃ d, (acc p md j).2 = d + 1 := ⟨(acc p md j).2 - 1, by omega⟩
  have hj : j = s + d + 1 := by omega
  have hB := chainB P s (md s) hm0 d (by omega)
  rw [← hj] at hB
  have hA : md j = 3 ∨ r j 2 ≤ r s (md s) + (if md s ≠ 2 then p.hA else 0) + 33 * (d + 1) := by
    by_cases hm3 : md j = 3
    · exact .inl hm3
    right
    have hm : md j = 1 ∨ md j = 2 := by omega
    have := chainA P s (md s) hm0 d (by omega) (fun k h1 h2 => by
      rcases hm with hm | hm
      · exact P.numal k (hnum hm k h1 (by omega))
      · exact hal hm k h1 (by omega))
    rwa [← hj] at this
  have h1 := hmin 1 (by omega) (by omega)
  have h2 := hmin 2 (by omega) (by omega)
  have h3 := hmin 3 (by omega) (by omega)
  rw [hd] at hcost ⊢
  have hz : md s ≠ 0 ∨ r s (md s) = 0 := by
    by_cases h : md s = 0
    · exact .inr (hm00 h)
    · exact .inl h
  clear hm00
  generalize r s (md s) = c0 at *
  have hmc : md j = 1 ∨ md j = 2 ∨ md j = 3 := by omega
  have hm0c : md s = 0 ∨ md s = 1 ∨ md s = 2 ∨ md s = 3 := by omega
  have hm'c : m' = 0 ∨ m' = 1 ∨ m' = 2 ∨ m' = 3 := by omega
  rw [Nat.mul_add]
  unfold Par.Ok at hp
  rcases hmc with hm | hm | hm <;> rcases hm0c with hm0' | hm0' | hm0' | hm0' <;>
    rcases hm'c with rfl | rfl | rfl | rfl <;>
    simp (config := { decide := true }) only [hm, hm0', runBits_one, runBits_two, runBits_three, U, H, cred,
      if_true, if_false, ne_eq,
      not_true_eq_false, not_false_eq_true, and_true, and_false, false_or, or_false, true_or, or_true] at * <;> omega

theorem jinv_one (P : Path p n r md num al) (hn : 1 ≤ n) : Jinv p r md num al 1 := by
  have hm1 := P.mdr 1 (by omega) hn
  have hne : md (0 + 1) ≠ md 0 := by rw [P.md0]; simp only [Nat.zero_add]; omega
  have hacc : acc p md 1 = (0 + runBits p (md 0) 0, 1) := by
    show (if md (0 + 1) = md 0 then _ else _) = _
    rw [if_neg hne]; rfl
  obtain ⟨hs, hnu, hal⟩ := P.step 0 (by omega)
  rw [if_pos (fun h => hne h.symm)] at hs
  simp only [Nat.zero_add] at hs hnu hal hne
  refine ⟨0, by simp only [hacc]; omega, by simp only [hacc], fun h => hne h.symm, ?_, ?_, ?_, ?_⟩
  · rw [hs, hacc]; simp only [Nat.mul_one]; omega
  · rw [hacc, P.md0]
    simp (config := { decide := true }) only [runBits, cred, if_true, if_false]
    omega
  · intro h k h1 h2
    have : k = 0 := by omega
    subst this; exact hnu h
  · intro h k h1 h2
    have : k = 0 := by omega
    subst this; exact hal h

theorem jinv_succ (hp : p.Ok) (P : Path p n r md num al) (j : Nat) (hj1 : 1 ≤ j) (hjn : j < n) (hJ : Jinv p r md num al j) :
    Jinv p r md num al (j + 1) := by
  obtain ⟨hs, hnu, hal⟩ := P.step j hjn
  have hmj := P.mdr j hj1 (by omega)
  have hmj1 := P.mdr (j + 1) (by omega) (by omega)
  by_cases heq : md (j + 1) = md j
  · -- the open run grows
    have hacc : acc p md (j + 1) = ((acc p md j).1, (acc p md j).2 + 1) := by
      show (if md (j + 1) = md j then _ else _) = _
      rw [if_pos heq]
    obtain ⟨s, hd1, hsd, hms, hcost, hcred, hnum, halp⟩ := hJ
    rw [if_neg (fun h => h heq.symm)] at hs
    refine ⟨s, by simp only [hacc]; omega, by simp only [hacc]; omega, by rw [heq]; exact hms, ?_, ?_, ?_, ?_⟩
    · rw [hs, hacc, heq, hcost, Nat.mul_add]; omega
    · rw [hacc, heq]; exact hcred
    · intro h k h1 h2
      by_cases hk : k < j
      · exact hnum (heq ▸ h) k h1 hk
      · have : k = j := by omega
        subst this; exact hnu h
    · intro h k h1 h2
      by_cases hk : k < j
      · exact halp (heq ▸ h) k h1 hk
      · have : k = j := by omega
        subst this; exact hal h
  · -- a new run starts: close the old one
    have hacc : acc p md (j + 1) = ((acc p md j).1 + runBits p (md j) (acc p md j).2, 1) := by
      show (if md (j + 1) = md j then _ else _) = _
      rw [if_neg heq]
    rw [if_pos (fun h => heq h.symm)] at hs
    have hcl := close hp P j hj1 (by omega) hJ (md (j + 1)) hmj1.2 heq (fun m'' h1 h3 => by
      have ht := P.t1 j (md (j + 1)) hjn hmj1.1 hmj1.2 hnu hal m'' h3
      rw [hs] at ht
      omega)
    refine ⟨j, by simp only [hacc]; omega, by simp only [hacc], fun h => heq h.symm, ?_, ?_, ?_, ?_⟩
    · rw [hs, hacc]; simp only [Nat.mul_one]; omega
    · rw [hacc]; exact hcl
    · intro h k h1 h2
      have : k = j := by omega
      subst this; exact hnu h
    · intro h k h1 h2
      have : k = j := by omega
      subst this; exact hal h

theorem jinv_all (hp : p.Ok) (P : Path p n r md num al) : ∀ j, 1 ≤ j → j ≤ n → Jinv p r md num al j := by
  intro j
  induction j with
  | zero => intro h; omega
  | succ j ih =>
    intro _ hjn
    by_cases hj : j = 0
    · subst hj; exact jinv_one P (by omega)
    · exact jinv_succ hp P j (by omega) (by omega) (ih (by omega) (by omega))

/-- the true bit length of a path that is minimal at every mode change and at the end is at most
the length of one byte segment -/
theorem total_le (hp : p.Ok) (P : Path p n r md num al) (hn : 1 ≤ n) : total p md n ≤ p.tB + 8 * n := by
  have hmn := P.mdr n hn (Nat.le_refl _)
  have := close hp P n hn (Nat.le_refl _) (jinv_all hp P n hn (Nat.le_refl _)) 0 (by omega) (by omega)
    (fun m'' h1 h3 => by
      have := P.fin m'' h1 h3
      simp (config := { decide := true }) only [H, if_true, if_false]
      split <;> omega)
  unfold total
  have hc : cred p (md n) 0 = 0 := by
    unfold cred
    rw [if_neg (by omega), if_neg (by omega), if_neg (by omega)]
  omega

end QRV.Lemmas.NewOptimalGen
