import QRV.Lemmas.RTBlocksShape
/-
Round trip C01, block structure, part 4: the dealing loop of `Model.Sym.deinterleave` as named
functions, the inner skip loop, and the proof that dealing the interleaving of a family of lists
of the two-group shape gives the family back.
-/
namespace QRV.Lemmas.RT
open QRV QRV.Model QRV.Model.Bits QRV.Model.Sym

/-! ### the model loops, named -/

abbrev DSt := Array (Array Nat) × Nat × Bool

/-- body of the inner `for _ in [0:nb+1]` loop -/
def dealInner (nb b : Nat) (s : DSt) : Out (ForInStep DSt) :=
  if (!s.2.2) = true then
    if s.2.1 / nb < (s.1[s.2.1 % nb]!).size then
      pure (.yield (s.1.modify (s.2.1 % nb) (fun a => a.set! (s.2.1 / nb) b), s.2.1 + 1, true))
    else pure (.yield (s.1, s.2.1 + 1, s.2.2))
  else pure (.yield (s.1, s.2.1, s.2.2))

/-- body of the `for b in bytes` loop -/
def dealStep (nb b : Nat) (s : Array (Array Nat) × Nat) : Out (ForInStep (Array (Array Nat) × Nat)) :=
  if nb = 0 then .panic "integer divide by zero"
  else do
    let s' ← forIn [:nb + 1] ((s.1, s.2, false) : DSt) (fun _ s => dealInner nb b s)
    if (!s'.2.2) = true then .panic "model: de-interleave loop does not terminate"
    else pure (.yield (s'.1, s'.2.1))

/-- `deal` of `deinterleave`, for the list of block lengths -/
def deal (szs : List Nat) (bytes : List Nat) : Out (Array (Array Nat)) := do
  let s ← forIn bytes ((szs.map fun n => Array.replicate n 0).toArray, 0) (dealStep szs.length)
  pure s.1

theorem deinterleave_eq (blocks : List Gen.GBlock) (dl tl : Nat) (buf : List Nat)
    (h1 : dl ≤ tl) (h2 : tl ≤ buf.length) :
    deinterleave blocks dl tl buf = (do
      let dat ← deal ((sizesOf blocks).map (·.1)) (buf.take dl)
      let cor ← deal ((sizesOf blocks).map (·.2)) ((buf.take tl).drop dl)
      pure ((List.range (sizesOf blocks).length).map fun k => ((dat[k]!).toList, (cor[k]!).toList))) := by
  unfold deinterleave
  simp only [if_neg (show ¬ buf.length < dl by omega), if_neg (show ¬ (buf.length < tl ∨ tl < dl) by omega)]
  unfold deal
  simp only [List.map_map, List.length_map, Function.comp_def]
  rfl

/-! ### the inner loop -/

theorem dealInner_placed (nb b : Nat) (arrs : Array (Array Nat)) (i : Nat) :
    dealInner nb b (arrs, i, true) = .ok (.yield (arrs, i, true)) := by
  simp [dealInner, pure_eq_ok]

theorem dealInner_room (nb b : Nat) (arrs : Array (Array Nat)) (i : Nat)
    (h : i / nb < (arrs[i % nb]!).size) :
    dealInner nb b (arrs, i, false) =
      .ok (.yield (arrs.modify (i % nb) (fun a => a.set! (i / nb) b), i + 1, true)) := by
  simp only [dealInner, Bool.not_false, if_true, if_pos h, pure_eq_ok]

theorem dealInner_full (nb b : Nat) (arrs : Array (Array Nat)) (i : Nat)
    (h : ¬ i / nb < (arrs[i % nb]!).size) :
    dealInner nb b (arrs, i, false) = .ok (.yield (arrs, i + 1, false)) := by
  simp only [dealInner, Bool.not_false, if_true, if_neg h, pure_eq_ok]

theorem inner_placed (nb b : Nat) (arrs : Array (Array Nat)) (i : Nat) (t : Nat) :
    ∀ a, forIn (List.range' a t) ((arrs, i, true) : DSt) (fun _ s => dealInner nb b s) =
      .ok (arrs, i, true) := by
  induction t with
  | zero => intro a; rfl
  | succ t ih =>
    intro a
    rw [List.range'_succ, List.forIn_cons]
    rw [dealInner_placed]
    exact ih _

/-- the first `s` candidate slots are full, the next one has room: the byte goes there -/
theorem inner_skip (nb b : Nat) (arrs : Array (Array Nat)) (t : Nat) :
    ∀ (s i a : Nat), (∀ s', s' < s → ¬ ((i + s') / nb < (arrs[(i + s') % nb]!).size)) →
      (i + s) / nb < (arrs[(i + s) % nb]!).size →
      forIn (List.range' a (s + 1 + t)) ((arrs, i, false) : DSt) (fun _ s => dealInner nb b s) =
        .ok (arrs.modify ((i + s) % nb) (fun x => x.set! ((i + s) / nb) b), i + s + 1, true) := by
  intro s
  induction s with
  | zero =>
    intro i a _ hroom
    rw [show 0 + 1 + t = t + 1 by omega, List.range'_succ, List.forIn_cons]
    simp only [Nat.add_zero] at hroom ⊢
    rw [dealInner_room _ _ _ _ hroom]
    exact inner_placed _ _ _ _ _ _
  | succ s ih =>
    intro i a hfull hroom
    rw [show s + 1 + 1 + t = (s + 1 + t) + 1 by omega, List.range'_succ, List.forIn_cons]
    have h0 := hfull 0 (by omega)
    simp only [Nat.add_zero] at h0
    rw [dealInner_full _ _ _ _ h0]
    simp only [Out.bind_ok]
    rw [ih (i + 1) (a + 1) (fun s' hs' => by
      have := hfull (s' + 1) (by omega)
      rwa [show i + (s' + 1) = i + 1 + s' by omega] at this)
      (by rwa [show i + (s + 1) = i + 1 + s by omega] at hroom)]
    rw [show i + 1 + s = i + (s + 1) by omega]

theorem dealStep_skip (nb b : Nat) (arrs : Array (Array Nat)) (i s : Nat) (hnb : 0 < nb) (hs : s ≤ nb)
    (hfull : ∀ s', s' < s → ¬ ((i + s') / nb < (arrs[(i + s') % nb]!).size))
    (hroom : (i + s) / nb < (arrs[(i + s) % nb]!).size) :
    dealStep nb b (arrs, i) =
      .ok (.yield (arrs.modify ((i + s) % nb) (fun x => x.set! ((i + s) / nb) b), i + s + 1)) := by
  unfold dealStep
  rw [if_neg (by omega), forIn_range_eq]
  obtain ⟨t, ht⟩ : ∃ t, nb + 1 = s + 1 + t := ⟨nb - s, by omega⟩
  rw [ht, inner_skip nb b arrs t s i 0 hfull hroom]
  rfl

/-! ### slots and cells -/

theorem slot_lt {d nb r k : Nat} (hr : r < d) (hk : k < nb) : r * nb + k < d * nb := by
  have : (r + 1) * nb ≤ d * nb := Nat.mul_le_mul_right _ hr
  rw [Nat.succ_mul] at this
  omega

theorem slot_div {nb r k : Nat} (hk : k < nb) : (r * nb + k) / nb = r := by
  rw [Nat.mul_comm, Nat.mul_add_div (by omega), Nat.div_eq_of_lt hk, Nat.add_zero]

theorem slot_mod {nb r k : Nat} (hk : k < nb) : (r * nb + k) % nb = k := by
  rw [Nat.mul_comm, Nat.mul_add_mod, Nat.mod_eq_of_lt hk]

theorem div_lt_of_lt_mul' {d nb j : Nat} (h : j < d * nb) : j / nb < d := by
  have hnb : 0 < nb := by
    rcases Nat.eq_zero_or_pos nb with h0 | h0
    · subst h0; simp at h
    · exact h0
  exact (Nat.div_lt_iff_lt_mul hnb).mpr h

theorem div_mul_add_mod' (j nb : Nat) : (j / nb) * nb + j % nb = j := by
  rw [Nat.mul_comm]; exact Nat.div_add_mod j nb

def lenAt (ls : List (List Nat)) (k : Nat) : Nat := ((ls[k]?).map List.length).getD 0
def cellL (ls : List (List Nat)) (k r : Nat) : Option Nat := (ls[k]?).bind (·[r]?)
def cellA (arrs : Array (Array Nat)) (k r : Nat) : Option Nat := (arrs[k]?).bind (·[r]?)

theorem size_getElem! (arrs : Array (Array Nat)) (k : Nat) :
    (arrs[k]!).size = ((arrs[k]?).map Array.size).getD 0 := by
  by_cases h : k < arrs.size
  · simp [h]
  · simp [h]; rfl

theorem cellA_modify_same (arrs : Array (Array Nat)) (k r b : Nat) (h : r < (arrs[k]!).size) :
    cellA (arrs.modify k (fun a => a.set! r b)) k r = some b := by
  rw [size_getElem!] at h
  unfold cellA
  rw [Array.getElem?_modify, if_pos rfl]
  cases hk : arrs[k]? with
  | none => simp [hk] at h
  | some a =>
    simp [hk] at h
    simp [Array.set!_eq_setIfInBounds, h]

theorem cellA_modify_other (arrs : Array (Array Nat)) (k0 r0 b k r : Nat) (h : ¬ (k0 = k ∧ r0 = r)) :
    cellA (arrs.modify k0 (fun a => a.set! r0 b)) k r = cellA arrs k r := by
  unfold cellA
  rw [Array.getElem?_modify]
  by_cases hk : k0 = k
  · subst hk
    rw [if_pos rfl]
    cases arrs[k0]? with
    | none => rfl
    | some a =>
      simp [Array.set!_eq_setIfInBounds, Array.getElem?_setIfInBounds]
      intro h'; exact absurd ⟨rfl, h'⟩ h
  · rw [if_neg hk]

theorem sizes_modify (arrs : Array (Array Nat)) (k0 r0 b k : Nat) :
    ((arrs.modify k0 (fun a => a.set! r0 b))[k]?).map Array.size = (arrs[k]?).map Array.size := by
  rw [Array.getElem?_modify]
  by_cases hk : k0 = k
  · subst hk
    rw [if_pos rfl]
    cases arrs[k0]? <;> simp [Array.set!_eq_setIfInBounds]
  · rw [if_neg hk]

/-! ### the dealing loop on the two-group shape -/

/-- length of list k in the two-group shape -/
def lenS (n1 d k : Nat) : Nat := if k < n1 then d else d + 1

theorem Shape.lenAt_eq {ls n1 n2 d} (h : Shape ls n1 n2 d) (k : Nat) (hk : k < n1 + n2) :
    lenAt ls k = lenS n1 d k := by
  unfold lenAt lenS
  by_cases hlt : k < n1
  · rw [h.len_lt k hlt, if_pos hlt]; rfl
  · rw [h.len_ge k (by omega) hk, if_neg hlt]; rfl

/-- the slot that receives byte number j -/
def slotOf (n1 n2 d j : Nat) : Nat × Nat :=
  if j < d * (n1 + n2) then (j / (n1 + n2), j % (n1 + n2)) else (d, n1 + (j - d * (n1 + n2)))

theorem slotOf_valid (n1 n2 d j : Nat) (hj : j < d * (n1 + n2) + n2) :
    (slotOf n1 n2 d j).2 < n1 + n2 ∧ (slotOf n1 n2 d j).1 < lenS n1 d (slotOf n1 n2 d j).2 ∧
      pos n1 n2 d (slotOf n1 n2 d j).1 (slotOf n1 n2 d j).2 = j := by
  unfold slotOf pos lenS
  by_cases h : j < d * (n1 + n2)
  · have hd := div_lt_of_lt_mul' h
    have hnb : 0 < n1 + n2 := by
      rcases Nat.eq_zero_or_pos (n1 + n2) with h0 | h0
      · rw [h0] at h; simp at h
      · exact h0
    simp only [if_pos h, if_pos hd]
    refine ⟨Nat.mod_lt _ hnb, ?_, div_mul_add_mod' j _⟩
    split <;> omega
  · simp only [if_neg h, Nat.lt_irrefl, if_false]
    refine ⟨by omega, ?_, by omega⟩
    rw [if_neg (by omega)]; omega

theorem slotOf_pos (n1 n2 d r k : Nat) (hk : k < n1 + n2) (hr : r < lenS n1 d k) :
    slotOf n1 n2 d (pos n1 n2 d r k) = (r, k) := by
  unfold slotOf pos
  unfold lenS at hr
  by_cases hrd : r < d
  · rw [if_pos hrd, if_pos (slot_lt hrd hk), slot_div hk, slot_mod hk]
  · have hk1 : n1 ≤ k := by
      by_cases hlt : k < n1
      · rw [if_pos hlt] at hr; omega
      · omega
    rw [if_neg (by omega)] at hr
    rw [if_neg hrd, if_neg (by omega)]
    congr 1 <;> omega

/-- loop invariant of the dealing loop after j bytes -/
structure DealInv (ls : List (List Nat)) (n1 n2 d j : Nat) (st : Array (Array Nat) × Nat) : Prop where
  sizes : ∀ k : Nat, (st.1[k]?).map Array.size = (ls[k]?).map List.length
  idx : st.2 = if j ≤ d * (n1 + n2) then j else j + n1
  cells : ∀ k r : Nat, k < n1 + n2 → r < lenS n1 d k → pos n1 n2 d r k < j → cellA st.1 k r = cellL ls k r

theorem DealInv.size_at {ls n1 n2 d j st} (hI : DealInv ls n1 n2 d j st) (h : Shape ls n1 n2 d)
    (k : Nat) (hk : k < n1 + n2) : (st.1[k]!).size = lenS n1 d k := by
  rw [size_getElem!, hI.sizes k, ← h.lenAt_eq k hk]; rfl

theorem deal_step {ls n1 n2 d} (h : Shape ls n1 n2 d) (bytes : List Nat)
    (hlen : bytes.length = d * (n1 + n2) + n2)
    (hbytes : ∀ k r, k < n1 + n2 → r < lenS n1 d k → bytes[pos n1 n2 d r k]? = cellL ls k r)
    (j : Nat) (st : Array (Array Nat) × Nat) (hj : j < bytes.length) (hI : DealInv ls n1 n2 d j st) :
    ∃ st', dealStep (n1 + n2) bytes[j] st = .ok (.yield st') ∧ DealInv ls n1 n2 d (j + 1) st' := by
  obtain ⟨arrs, i⟩ := st
  have hjt : j < d * (n1 + n2) + n2 := by omega
  obtain ⟨hk0, hr0, hp0⟩ := slotOf_valid n1 n2 d j hjt
  generalize hslot : slotOf n1 n2 d j = sl at hk0 hr0 hp0
  obtain ⟨r0, k0⟩ := sl
  simp only at hk0 hr0 hp0
  have hnb : 0 < n1 + n2 := by omega
  have hi : i = if j ≤ d * (n1 + n2) then j else j + n1 := hI.idx
  -- the number of skipped slots and the slot reached
  obtain ⟨s, hs, his, hfull⟩ : ∃ s, s ≤ n1 + n2 ∧ i + s = r0 * (n1 + n2) + k0 ∧
      ∀ s', s' < s → ¬ ((i + s') / (n1 + n2) < (arrs[(i + s') % (n1 + n2)]!).size) := by
    unfold slotOf at hslot
    by_cases hlt : j < d * (n1 + n2)
    · rw [if_pos hlt] at hslot
      cases hslot
      refine ⟨0, by omega, ?_, fun s' hs' => by omega⟩
      rw [hi, if_pos (by omega), div_mul_add_mod']; rfl
    · rw [if_neg hlt] at hslot
      cases hslot
      by_cases hm : j = d * (n1 + n2)
      · refine ⟨n1, by omega, by rw [hi, if_pos (by omega)]; omega, fun s' hs' => ?_⟩
        rw [hi, if_pos (by omega), hm, slot_div (by omega), slot_mod (by omega),
          hI.size_at h s' (by omega), lenS, if_pos hs']
        omega
      · exact ⟨0, by omega, by rw [hi, if_neg (by omega)]; omega, fun s' hs' => by omega⟩
  have hdiv : (i + s) / (n1 + n2) = r0 := by rw [his, slot_div hk0]
  have hmod : (i + s) % (n1 + n2) = k0 := by rw [his, slot_mod hk0]
  have hroom : (i + s) / (n1 + n2) < (arrs[(i + s) % (n1 + n2)]!).size := by
    rw [hdiv, hmod, hI.size_at h k0 hk0]; exact hr0
  rw [dealStep_skip _ _ arrs i s hnb hs hfull hroom, hdiv, hmod]
  refine ⟨_, rfl, ⟨fun k => ?_, ?_, fun k r hk hr hp => ?_⟩⟩
  · simp only []
    rw [sizes_modify, ← hI.sizes k]
  · simp only []
    unfold slotOf at hslot
    by_cases hlt : j < d * (n1 + n2)
    · rw [if_pos hlt] at hslot
      cases hslot
      rw [if_pos (by omega), his, div_mul_add_mod']
    · rw [if_neg hlt] at hslot
      cases hslot
      rw [if_neg (by omega), his]; omega
  · simp only []
    by_cases hsame : k0 = k ∧ r0 = r
    · obtain ⟨rfl, rfl⟩ := hsame
      rw [cellA_modify_same arrs k0 r0 _ (by rw [hI.size_at h k0 hk0]; exact hr0),
        ← hbytes k0 r0 hk hr, hp0, List.getElem?_eq_getElem hj]
    · rw [cellA_modify_other _ _ _ _ _ _ hsame]
      apply hI.cells k r hk hr
      have hne : pos n1 n2 d r k ≠ j := by
        intro he
        have h1 := slotOf_pos n1 n2 d r k hk hr
        rw [he, hslot] at h1
        cases h1
        exact hsame ⟨rfl, rfl⟩
      omega


theorem pos_lt_total (n1 n2 d r k : Nat) (hk : k < n1 + n2) (hr : r < lenS n1 d k) :
    pos n1 n2 d r k < d * (n1 + n2) + n2 := by
  unfold pos
  unfold lenS at hr
  by_cases hrd : r < d
  · rw [if_pos hrd]
    have := slot_lt hrd hk
    omega
  · rw [if_neg hrd]
    by_cases hlt : k < n1
    · rw [if_pos hlt] at hr; omega
    · omega

/-- dealing the interleaving of a family of the two-group shape gives the family back -/
theorem deal_ilv1 {ls : List (List Nat)} {n1 n2 d : Nat} (h : Shape ls n1 n2 d) :
    ∃ arrs, deal (ls.map List.length) (ilv1 ls) = .ok arrs ∧ arrs.toList.map Array.toList = ls := by
  have hbytes : ∀ k r, k < n1 + n2 → r < lenS n1 d k → (ilv1 ls)[pos n1 n2 d r k]? = cellL ls k r := by
    intro k r hk hr
    exact h.ilv1_get k r hk (by rw [← h.lenAt_eq k hk] at hr; exact hr)
  unfold deal
  obtain ⟨st, hst, hI⟩ := forIn_list_ok (dealStep (n1 + n2)) (ilv1 ls) (DealInv ls n1 n2 d)
    (((ls.map List.length).map fun n => Array.replicate n 0).toArray, 0)
    ⟨fun k => by simp [Function.comp_def], by simp, fun k r _ _ hp => by omega⟩
    (fun j st hj hI => deal_step h (ilv1 ls) h.ilv1_length hbytes j st hj hI)
  rw [List.length_map, h.length, hst]
  refine ⟨st.1, rfl, ?_⟩
  rw [h.ilv1_length] at hI
  apply List.ext_getElem?
  intro k
  rw [List.getElem?_map]
  have hsz := hI.sizes k
  by_cases hk : k < n1 + n2
  · have hkl : k < ls.length := by rw [h.length]; exact hk
    rw [List.getElem?_eq_getElem hkl] at hsz ⊢
    cases ha : st.1[k]? with
    | none => rw [ha] at hsz; simp at hsz
    | some a =>
      rw [ha] at hsz
      simp only [Option.map_some, Option.some.injEq] at hsz
      have hak : st.1.toList[k]? = some a := by simpa using ha
      rw [hak]
      simp only [Option.map_some, Option.some.injEq]
      apply List.ext_getElem?
      intro r
      by_cases hr : r < ls[k].length
      · have hc := hI.cells k r hk (by rw [← h.lenAt_eq k hk, lenAt, List.getElem?_eq_getElem hkl]; exact hr)
          (pos_lt_total n1 n2 d r k hk (by rw [← h.lenAt_eq k hk, lenAt, List.getElem?_eq_getElem hkl]; exact hr))
        simp only [cellA, cellL, ha, List.getElem?_eq_getElem hkl, Option.bind_some] at hc
        simpa using hc
      · rw [List.getElem?_eq_none (by rw [Array.length_toList]; omega), List.getElem?_eq_none (by omega)]
  · have hkl : ls.length ≤ k := by rw [h.length]; omega
    rw [List.getElem?_eq_none hkl] at hsz ⊢
    cases ha : st.1[k]? with
    | none =>
      have : st.1.toList[k]? = none := by simpa using ha
      rw [this]; rfl
    | some a => rw [ha] at hsz; simp at hsz

end QRV.Lemmas.RT
