import QRV.Lemmas.MicroRTStream
import QRV.Lemmas.RTParse
/-
Round trip C01 (Micro QR), the data bit stream, decoder side: `Model.Micro.segmentLoop` parses the
stream described in `MicroRTStream.lean` back into the segments, provided no segment is empty (an
empty numeric segment IS the terminator, and M4 drops empty segments).
-/
namespace QRV.Lemmas.MRT
open QRV QRV.Model QRV.Model.Bits QRV.Model.Sym QRV.Model.Codec QRV.Spec.Bits QRV.Spec.Codec
open QRV.Spec.Valid QRV.Spec.Tables QRV.Lemmas.Bits QRV.Lemmas.Codec QRV.Lemmas.Kanji
open QRV.Props
open QRV.Lemmas.RT (bodyStream kanjiCodes bitsMSB_zero valid_numeric valid_alnum valid_isKanji valid_lt valid_kanji
  inv_same unr_after readBits_of_rd toNat_replicate_false kanji_back kanjiCodes_ok kanjiCodes_length inv_reader)

/-! ### reading zero bits near the end of the data -/

/-- a read of `n` bits all of which (as many as are left) are zero: end of data or the value 0 -/
theorem readBits_zeros (b : Buffer) (h : C16.Inv b) (hr : b.read < 8) (n : Nat) (hn : n ≤ 64) (hn0 : 0 < n)
    (hz : ∀ x ∈ (unr b).take n, x = false) :
    ∃ b', (readBits b (n : Int) = .ok (b', none) ∨ readBits b (n : Int) = .ok (b', some 0)) ∧
      C16.Inv b' ∧ b'.read < 8 ∧ unr b' = (unr b).drop n := by
  have hlen : (unr b).length = 8 * b.buf.size - cur b := by
    unfold unr; rw [List.length_drop, length_unpack, Array.length_toList]
  have hcur : cur b = 8 * b.offset + b.read := rfl
  by_cases h0 : (unr b).length = 0
  · refine ⟨b, Or.inl ?_, h, hr, ?_⟩
    · unfold readBits
      rw [if_neg (by omega), if_pos (by omega)]
    · rw [List.eq_nil_of_length_eq_zero h0, List.drop_nil]
  · by_cases hge : n ≤ (unr b).length
    · have htake : (unr b).take n = bitsMSB 0 n := by
        rw [bitsMSB_zero, List.eq_replicate_iff]
        exact ⟨by rw [List.length_take]; omega, hz⟩
      have hu : unr b = bitsMSB 0 n ++ (unr b).drop n := by rw [← htake, List.take_append_drop]
      obtain ⟨b', e, i', -, -, r', -, u'⟩ := rd_ok b h hr n 0 hn hn0 _ hu
      rw [Nat.zero_mod] at e
      exact ⟨b', Or.inr (readBits_of_rd e), i', r', u'⟩
    · have hall : unr b = List.replicate (unr b).length false := by
        rw [List.eq_replicate_iff]
        refine ⟨rfl, fun x hx => hz x ?_⟩
        rw [List.take_of_length_le (by omega)]; exact hx
      obtain ⟨b', e, ho, hrd, hb, hw⟩ := C16.readBits_zero_extends b hr n hn (by omega) (by omega)
      have hzero : toNat ((unpack b.buf.toList).drop (8 * b.offset + b.read)) = 0 := by
        show toNat (unr b) = 0
        rw [hall, toNat_replicate_false]
      rw [hzero, Nat.zero_mul] at e
      refine ⟨b', Or.inr e, inv_same hb hw h, by omega, ?_⟩
      rw [List.drop_eq_nil_of_le (by omega)]
      unfold unr cur
      rw [hb, ho, hrd]
      apply List.drop_eq_nil_of_le
      rw [length_unpack, Array.length_toList]; omega

/-! ### the loop body in two steps -/

/-- the body of `segmentLoop` after the mode indicator has been read -/
def afterMode (version : Int) (fuel : Nat) (acc : Array Segment) (buf : Buffer) (mode : Nat) : Out (List Segment) :=
  match Model.Micro.countBits mode version with
  | none => .err "qrcode: unknown mode"
  | some cb => do
    let (buf, lenO) ← readBits buf cb
    match lenO with
    | none => pure acc.toList
    | some length =>
      if mode = Model.Micro.modeNumeric ∧ length = 0 then pure acc.toList
      else do
        let (buf, data) ← (if mode = Model.Micro.modeNumeric then decodeNumeric buf length
          else if mode = Model.Micro.modeAlphanumeric then decodeAlphanumeric buf length
          else if mode = Model.Micro.modeBytes then decodeBytes buf length
          else decodeKanji buf length)
        if version = 4 ∧ data.isEmpty then Model.Micro.segmentLoop version fuel buf acc
        else Model.Micro.segmentLoop version fuel buf (acc.push { mode, data })

theorem segmentLoop_succ (version : Int) (fuel : Nat) (buf : Buffer) (acc : Array Segment) :
    Model.Micro.segmentLoop version (fuel + 1) buf acc = (do
      let (buf, modeO) ← (if Model.Micro.modeBits version = 0 then pure (buf, some Model.Micro.modeNumeric)
        else readBits buf (Model.Micro.modeBits version) : Out (Buffer × Option Nat))
      match modeO with
      | none => pure acc.toList
      | some mode => afterMode version fuel acc buf mode) := by
  rw [Model.Micro.segmentLoop]
  rfl

theorem mem_take_of_le {α : Type} {l : List α} {a b : Nat} (hle : a ≤ b) {x : α} (hx : x ∈ l.take a) :
    x ∈ l.take b := by
  have : l.take a = (l.take b).take a := by rw [List.take_take, Nat.min_eq_left hle]
  rw [this] at hx
  exact List.mem_of_mem_take hx

theorem mem_take_of_drop {α : Type} {l : List α} {a c : Nat} {x : α} (hx : x ∈ (l.drop a).take c) :
    x ∈ l.take (a + c) := by
  rw [List.take_drop] at hx
  exact List.mem_of_mem_drop hx

/-! ### the end of the data -/

theorem numeric_countBits (v : Nat) (h1 : 1 ≤ v) (h4 : v ≤ 4) :
    Model.Micro.countBits Model.Micro.modeNumeric (v : Int) = some (v + 2) ∧
      Model.Micro.modeBits (v : Int) = v - 1 := by
  obtain rfl | rfl | rfl | rfl : v = 1 ∨ v = 2 ∨ v = 3 ∨ v = 4 := by omega
  all_goals exact ⟨rfl, rfl⟩

/-- at a tail (the terminator, or what is left of it, then the end of the data) the loop stops -/
theorem segmentLoop_tail (v : Nat) (h1 : 1 ≤ v) (h4 : v ≤ 4) (b : Buffer) (h : C16.Inv b) (hr : b.read < 8)
    (ht : TailOK (termLen v) (unr b)) (acc : Array Segment) (fuel : Nat) :
    Model.Micro.segmentLoop (v : Int) (fuel + 1) b acc = .ok acc.toList := by
  obtain ⟨hcb, hmb⟩ := numeric_countBits v h1 h4
  have hcount : ∀ (b₁ : Buffer), C16.Inv b₁ → b₁.read < 8 → (∀ x ∈ (unr b₁).take (v + 2), x = false) →
      afterMode (v : Int) fuel acc b₁ Model.Micro.modeNumeric = .ok acc.toList := by
    intro b₁ i₁ r₁ hz
    unfold afterMode
    rw [hcb]
    obtain ⟨b₂, e, -⟩ := readBits_zeros b₁ i₁ r₁ (v + 2) (by omega) (by omega) hz
    rcases e with e | e
    · simp only [e, Out.bind_ok]; rfl
    · simp only [e, Out.bind_ok]
      rw [if_pos ⟨trivial, trivial⟩]; rfl
  rw [segmentLoop_succ, hmb]
  by_cases hv : v - 1 = 0
  · rw [if_pos hv]
    simp only [Out.bind_ok, pure]
    refine hcount b h hr ?_
    intro x hx
    exact ht x (mem_take_of_le (by unfold termLen; omega) hx)
  · rw [if_neg hv]
    obtain ⟨b₁, e, i₁, r₁, u₁⟩ := readBits_zeros b h hr (v - 1) (by omega) (by omega) (by
      intro x hx
      exact ht x (mem_take_of_le (by unfold termLen; omega) hx))
    rcases e with e | e
    · simp only [e, Out.bind_ok]; rfl
    · simp only [e, Out.bind_ok]
      refine hcount b₁ i₁ r₁ ?_
      intro x hx
      rw [u₁] at hx
      have := mem_take_of_drop hx
      exact ht x (mem_take_of_le (by unfold termLen; omega) this)

/-! ### the data of one segment -/

/-- the body decoders invert `bodyStream` on valid data, given the character count -/
theorem decodeBody_inverse {k : Nat} (hk : k < 4) (data : List Nat) (hd : ValidData k data)
    (b : Buffer) (h : C16.Inv b) (hr : b.read < 8) (rest : List Bool)
    (hu : unr b = bodyStream k data ++ rest) :
    ∃ b', (if k = Model.Micro.modeNumeric then decodeNumeric b (count k data)
        else if k = Model.Micro.modeAlphanumeric then decodeAlphanumeric b (count k data)
        else if k = Model.Micro.modeBytes then decodeBytes b (count k data)
        else decodeKanji b (count k data)) = .ok (b', data) ∧
      C16.Inv b' ∧ b'.read < 8 ∧ unr b' = rest := by
  match k, hk with
  | 0, _ =>
    rw [if_pos (by decide)]
    obtain ⟨b', e, hb, hw, hr', hc⟩ := C17.decodeNumeric_inverse b h hr data (valid_numeric hd) rest hu
    exact ⟨b', e, inv_same hb hw h, hr', unr_after hb hc hu⟩
  | 1, _ =>
    rw [if_neg (by decide), if_pos (by decide)]
    obtain ⟨b', e, hb, hw, hr', hc⟩ := C17.decodeAlphanumeric_inverse b h hr data (valid_alnum hd) rest hu
    exact ⟨b', e, inv_same hb hw h, hr', unr_after hb hc hu⟩
  | 2, _ =>
    rw [if_neg (by decide), if_neg (by decide), if_pos (by decide)]
    obtain ⟨b', e, hb, hw, hr', hc⟩ := C17.decodeBytes_inverse b h hr data (valid_lt hd) rest hu
    exact ⟨b', e, inv_same hb hw h, hr', unr_after hb hc hu⟩
  | 3, _ =>
    rw [if_neg (by decide), if_neg (by decide), if_neg (by decide)]
    obtain ⟨b', e, hb, hw, hr', hc⟩ := C17.decodeKanji_inverse b h hr (kanjiCodes data) (kanjiCodes_ok hd) rest hu
    rw [kanjiCodes_length] at e
    have hback : ((kanjiCodes data).flatMap fun c => Utf8.encodeRune (refAt c)) = data := by
      unfold kanjiCodes
      rw [kanji_back _ (valid_kanji hd).1, (valid_kanji hd).2]
    rw [hback] at e
    refine ⟨b', e, inv_same hb hw h, hr', unr_after hb ?_ hu⟩
    rw [show bodyStream 3 data = kanjiBits (kanjiCodes data) from rfl, kanjiBits_length]
    exact hc

/-- a non-empty segment has a non-zero character count -/
theorem count_pos {k : Nat} (hk : k < 4) {data : List Nat} (hd : ValidData k data) (hne : data ≠ []) :
    count k data ≠ 0 := by
  unfold count
  by_cases h3 : k = 3
  · subst h3
    rw [if_pos rfl]
    intro h0
    have hnil : Utf8.runes data = [] := List.eq_nil_of_length_eq_zero h0
    have := (valid_kanji hd).2
    rw [hnil] at this
    exact hne this.symm
  · rw [if_neg h3]
    intro h0
    exact hne (List.eq_nil_of_length_eq_zero h0)

/-! ### the segment loop -/

/-- `segmentLoop` on a buffer whose unread bits are the streams of valid non-empty segments followed
by a tail it stops at: exactly those segments are appended -/
theorem segments_parse_buf (v : Nat) (h1 : 1 ≤ v) (h4 : v ≤ 4) (segs : List Segment)
    (hs : ∀ s ∈ segs, SegOK v s) (hne : ∀ s ∈ segs, s.data ≠ []) (tail : List Bool)
    (ht : TailOK (termLen v) tail) :
    ∀ (b : Buffer) (acc : Array Segment) (fuel : Nat), C16.Inv b → b.read < 8 →
      unr b = segs.flatMap (segStream v) ++ tail → segs.length < fuel →
      Model.Micro.segmentLoop (v : Int) fuel b acc = .ok (acc.toList ++ segs) := by
  induction segs with
  | nil =>
    intro b acc fuel h hr hu hf
    obtain ⟨f, rfl⟩ : ∃ f, fuel = f + 1 := ⟨fuel - 1, by simp at hf; omega⟩
    rw [List.flatMap_nil, List.nil_append] at hu
    rw [segmentLoop_tail v h1 h4 b h hr (by rw [hu]; exact ht), List.append_nil]
  | cons s l ih =>
    intro b acc fuel h hr hu hf
    obtain ⟨f, rfl⟩ : ∃ f, fuel = f + 1 := ⟨fuel - 1, by simp at hf; omega⟩
    obtain ⟨k, cb, hk, hcb, hd, hc⟩ := hs s (List.mem_cons_self ..)
    obtain ⟨hm4, rfl⟩ := kindOf_some hk
    obtain ⟨-, -, -, hcb3, hcb6, hmlt, hmc, hmb, -⟩ := countBits_facts hcb
    have hsne := hne s (List.mem_cons_self ..)
    have hcnt := count_pos hm4 hd hsne
    have hstream : segStream v s = bitsMSB s.mode (v - 1) ++ bitsMSB (count s.mode s.data) cb ++ bodyStream s.mode s.data := by
      unfold segStream
      rw [hk]
      simp only [hcb]
      rfl
    rw [List.flatMap_cons, hstream] at hu
    simp only [List.append_assoc] at hu
    -- the body after the mode indicator
    have hafter : ∀ (b₁ : Buffer), C16.Inv b₁ → b₁.read < 8 →
        unr b₁ = bitsMSB (count s.mode s.data) cb ++ (bodyStream s.mode s.data ++ (l.flatMap (segStream v) ++ tail)) →
        afterMode (v : Int) f acc b₁ s.mode = .ok (acc.toList ++ s :: l) := by
      intro b₁ i₁ r₁ u₁
      obtain ⟨b₂, e₂, i₂, -, -, r₂, -, u₂⟩ := rd_ok b₁ i₁ r₁ cb (count s.mode s.data) (by omega) (by omega) _ u₁
      rw [Nat.mod_eq_of_lt hc] at e₂
      have e₂' := readBits_of_rd e₂
      obtain ⟨b₃, e₃, i₃, r₃, u₃⟩ := decodeBody_inverse hm4 s.data hd b₂ i₂ r₂ _ u₂
      have := ih (fun x hx => hs x (List.mem_cons_of_mem _ hx)) (fun x hx => hne x (List.mem_cons_of_mem _ hx))
        b₃ (acc.push s) f i₃ r₃ u₃ (by simp at hf; omega)
      unfold afterMode
      rw [hmc]
      simp only [e₂', Out.bind_ok]
      rw [if_neg (by intro hh; exact hcnt hh.2), e₃]
      simp only [Out.bind_ok]
      rw [if_neg (by
        intro hh
        have := hh.2
        rw [List.isEmpty_iff] at this
        exact hsne this)]
      rw [this, Array.toList_push, List.append_assoc]
      rfl
    rw [segmentLoop_succ, hmb]
    by_cases hv : v - 1 = 0
    · rw [if_pos hv]
      simp only [Out.bind_ok, pure]
      have hm0 : s.mode = Model.Micro.modeNumeric := by
        rw [hv] at hmlt
        unfold Model.Micro.modeNumeric
        omega
      rw [← hm0]
      refine hafter b h hr ?_
      rw [hu, hv]
      rfl
    · rw [if_neg hv]
      obtain ⟨b₁, e₁, i₁, -, -, r₁, -, u₁⟩ := rd_ok b h hr (v - 1) s.mode (by omega) (by omega) _ hu
      rw [Nat.mod_eq_of_lt hmlt] at e₁
      have e₁' := readBits_of_rd e₁
      simp only [e₁', Out.bind_ok]
      exact hafter b₁ i₁ r₁ u₁

/-- the decoder's segment loop on a byte string whose bit image is the stream of valid non-empty
segments followed by a tail whose first `termLen v` bits (as many as there are) are zero -/
theorem segments_parse (v : Nat) (h1 : 1 ≤ v) (h4 : v ≤ 4) (segs : List Segment)
    (hs : ∀ s ∈ segs, SegOK v s) (hne : ∀ s ∈ segs, s.data ≠ []) (tail : List Bool)
    (ht : TailOK (termLen v) tail) (bytes : List Nat) (hb : ∀ x ∈ bytes, x < 256)
    (himg : unpack bytes = segs.flatMap (segStream v) ++ tail)
    (acc : Array Segment) (fuel : Nat) (hf : segs.length < fuel) :
    Model.Micro.segmentLoop (v : Int) fuel { buf := bytes.toArray } acc = .ok (acc.toList ++ segs) := by
  refine segments_parse_buf v h1 h4 segs hs hne tail ht _ acc fuel (inv_reader _ (by simpa using hb))
    (show (0 : Nat) < 8 by decide) ?_ hf
  show (unpack bytes.toArray.toList).drop (8 * 0 + 0) = _
  rw [List.toList_toArray, List.drop_zero, himg]

/-- every segment stream has at least its count indicator (three bits or more) -/
theorem segs_length_le (v : Nat) (segs : List Segment) (hs : ∀ s ∈ segs, SegOK v s) :
    3 * segs.length ≤ (segs.flatMap (segStream v)).length := by
  induction segs with
  | nil => simp
  | cons s l ih =>
    obtain ⟨k, cb, hk, hcb, -⟩ := hs s (List.mem_cons_self ..)
    have := ih (fun x hx => hs x (List.mem_cons_of_mem _ hx))
    have h3 := (countBits_facts hcb).2.2.2.1
    rw [List.flatMap_cons, List.length_append, List.length_cons, segStream, hk]
    simp only [hcb, List.length_append, length_bitsMSB]
    omega

end QRV.Lemmas.MRT
