import Lean
/-
`#audit_module M` prints, for every theorem declared in module `M`, the axioms it depends on
(the same computation as `#print axioms`), one line per theorem:
  AUDIT <theorem> : [axiom, ...]
`bin/check` runs this on `QRV.Props.Cxx` and accepts only propext / Classical.choice / Quot.sound.
-/
open Lean Elab Command

elab "#audit_module " m:ident : command => do
  let env ← getEnv
  let some idx := env.getModuleIdx? m.getId
    | throwError "module {m.getId} is not imported"
  let mut names : Array Name := #[]
  for (n, ci) in env.constants.map₁.toList do
    if env.getModuleIdxFor? n == some idx then
      if let .thmInfo _ := ci then
        if !n.isInternal then
          names := names.push n
  let sorted := names.qsort (fun a b => a.toString < b.toString)
  for n in sorted do
    let axs ← Lean.collectAxioms n
    let axs := axs.qsort (fun a b => a.toString < b.toString)
    logInfo m!"AUDIT {n} : {axs.toList}"
  logInfo m!"AUDIT-COUNT {m.getId} {sorted.size}"

/-- `#audit_deps` prints `AUDIT-DEPS n`: the number of user-written theorems in all imported
`QRV.*` modules other than `QRV.Props.*` and `QRV.Audit` (the lemma base the audited property
module rests on). -/
elab "#audit_deps" : command => do
  let env ← getEnv
  let mods := env.header.moduleNames
  let mut cnt : Nat := 0
  for (n, ci) in env.constants.map₁.toList do
    if let .thmInfo _ := ci then
      if let some idx := env.getModuleIdxFor? n then
        let m := mods[idx.toNat]!
        let s := m.toString
        if s.startsWith "QRV." && !s.startsWith "QRV.Props." && s != "QRV.Audit" then
          if !n.isInternal then
            if (← Lean.findDeclarationRanges? n).isSome then
              cnt := cnt + 1
  logInfo m!"AUDIT-DEPS {cnt}"
  for m in mods do
    if m.toString.startsWith "QRV." || m.toString == "QRV" then
      logInfo m!"AUDIT-MODULE {m}"
