/-
Types of the generated tables (hand-written; the values in `QRV/Gen/*.lean` are regenerated
from /repo on every run).
-/
namespace QRV.Gen

/-- A `bitmap.Image` literal: `rows[y]` is the big-endian integer of the `stride` bytes of row `y`
(padding bits included), so `pixLen = stride * (maxY - minY)` whenever the image is regular. -/
structure GBmp where
  minX : Int
  minY : Int
  maxX : Int
  maxY : Int
  stride : Nat
  pixLen : Nat
  rows : List Nat
deriving Repr, DecidableEq, Inhabited

structure GBlock where
  num : Nat
  total : Nat
  data : Nat
  maxError : Nat
  reserved : Nat
deriving Repr, DecidableEq, Inhabited

structure GCap where
  total : Nat
  data : Nat
  correction : Nat
  dataBits : Nat
  bitLength : List Nat
  blocks : List GBlock
deriving Repr, DecidableEq, Inhabited

end QRV.Gen
