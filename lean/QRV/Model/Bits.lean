import QRV.Model.Basic
/-
Model of /repo/internal/bitstream/bitstram.go, statement for statement.
`buf` is the byte slice (naturals below 256), the other fields as in Go.  uint8 arithmetic is made
explicit with `% 256`; Go panics (negative shift count, index out of range, explicit panic) are
`Out.panic`.
-/
namespace QRV.Model.Bits
open QRV

structure Buffer where
  buf : Array Nat := #[]
  offset : Nat := 0
  read : Nat := 0
  wrote : Nat := 0
deriving Repr, Inhabited, DecidableEq

/-- Go: `Len` -/
def Buffer.len (b : Buffer) : Nat :=
  let l := b.buf.size * 8
  if b.wrote ≠ 0 then l - 8 + b.wrote else l

/-- `b.buf[len(b.buf)-1] |= v` (panics on an empty slice) -/
def orLast (b : Buffer) (v : Nat) : Out Buffer :=
  if h : b.buf.size = 0 then .panic "index out of range [-1]"
  else
    let i := b.buf.size - 1
    .ok { b with buf := b.buf.set i (b.buf[i]'(by omega) ||| v) (by omega) }

/-- Go: `ReadBit`; `none` is io.EOF -/
def readBit (b : Buffer) : Buffer × Option Nat :=
  if h : b.offset ≥ b.buf.size then (b, none)
  else
    let bit := (b.buf[b.offset]'(by omega) >>> (7 - b.read)) &&& 1
    let read := b.read + 1
    if read ≥ 8 then ({ b with offset := b.offset + 1, read := 0 }, some bit)
    else ({ b with read := read }, some bit)

/-- the loop of `ReadBits`: `i` runs from `n - fuel` to `n` -/
def readBitsLoop (b : Buffer) (ret : Nat) : (fuel : Nat) → Buffer × Nat
  | 0 => (b, ret)
  | fuel + 1 =>
    match readBit b with
    | (b', none) => (b', (ret <<< (fuel + 1)) % 2 ^ 64)
    | (b', some bit) => readBitsLoop b' (((ret <<< 1) % 2 ^ 64) ||| bit) fuel

/-- Go: `ReadBits(n)`; result `none` is io.EOF -/
def readBits (b : Buffer) (n : Int) : Out (Buffer × Option Nat) :=
  if n > 64 then .panic "too long bit length"
  else if b.offset ≥ b.buf.size then .ok (b, none)
  else
    let (b', r) := readBitsLoop b 0 n.toNat
    .ok (b', some r)

/-- Go: `WriteBit(bit uint8)` -/
def writeBit (b : Buffer) (bit : Nat) : Out Buffer :=
  let bit := bit &&& 1
  if b.wrote = 0 then .ok { b with buf := b.buf.push ((bit <<< 7) % 256), wrote := 1 }
  else if b.wrote > 7 then .panic "negative shift amount"
  else do
    let b' ← orLast b ((bit <<< (7 - b.wrote)) % 256)
    pure { b' with wrote := (b.wrote + 1) % 8 }

/-- Go: `writeBitsLSB(bits uint8, n int)`, called with 1 ≤ n ≤ 8 -/
def writeBitsLSB8 (b : Buffer) (bits : Nat) (n : Nat) : Out Buffer :=
  if b.wrote = 0 then
    .ok { b with buf := b.buf.push ((bits <<< (8 - n)) % 256), wrote := n % 8 }
  else
    let m := b.wrote + n
    if m > 8 then do
      let b' ← orLast b (bits >>> (m - 8))
      let w := m - 8
      if w > 8 then .panic "negative shift amount"
      else pure { b' with wrote := w, buf := b'.buf.push ((bits <<< (8 - w)) % 256) }
    else do
      let b' ← orLast b ((bits <<< (8 - (b.wrote + n))) % 256)
      pure { b' with wrote := WROTE_AFTER_FILL b.wrote n }
where
  /-- `b.wrote += n` in the pinned source (leaves 8 when the byte is exactly filled); the repaired
  source has `(b.wrote + n) % 8`.  Which of the two the code does is read by the correspondence run. -/
  WROTE_AFTER_FILL (w n : Nat) : Nat := (w + n) % 8

/-- Go: `writeByte(bits uint8)` -/
def writeByte (b : Buffer) (bits : Nat) : Out Buffer :=
  if b.wrote = 0 then .ok { b with buf := b.buf.push bits }
  else if b.wrote > 8 then .panic "negative shift amount"
  else do
    let b' ← orLast b (bits >>> b.wrote)
    pure { b' with buf := b'.buf.push ((bits <<< (8 - b.wrote)) % 256) }

/-- `uint8(bits >> k)` -/
@[inline] def byteAt (bits : Nat) (k : Nat) : Nat := (bits >>> k) % 256

/-- write the whole bytes at shifts `k-8, k-16, …, 0` -/
def writeBytesFrom (b : Buffer) (bits : Nat) : (nbytes : Nat) → Out Buffer
  | 0 => .ok b
  | k + 1 => do
    let b' ← writeByte b (byteAt bits (8 * k))
    writeBytesFrom b' bits k

/-- Go: `WriteBitsLSB(bits uint64, n int)`.  The eight arms of the switch are the instances
`k = (n-1)/8` of: mask to n bits, write the top `n - 8k` bits, then `k` whole bytes. -/
def writeBitsLSB (b : Buffer) (bits : Nat) (n : Int) : Out Buffer :=
  if n > 64 then .panic "too long bit length"
  else if n < 0 then .panic "negative bit length"
  else if n = 0 then .ok b
  else
    let n := n.toNat
    let bits := (bits % 2 ^ 64) &&& ((1 <<< n) % 2 ^ 64 + 2 ^ 64 - 1) % 2 ^ 64
    let k := (n - 1) / 8
    do
      let b' ← writeBitsLSB8 b (byteAt bits (8 * k)) (n - 8 * k)
      writeBytesFrom b' bits k

end QRV.Model.Bits
