import QRV.Model.Sym
import QRV.Model.New
import QRV.Gen.Micro
/-
Model of /repo/microqr/encode.go, decode.go, microqr.go (package microqr), function for function,
over the regenerated tables `Gen.Micro.*`.
-/
namespace QRV.Model.Micro
open QRV QRV.Model.Bits QRV.Model.Bitmap QRV.Model.Sym QRV.Model.Codec

def modeNumeric : Nat := 0
def modeAlphanumeric : Nat := 1
def modeBytes : Nat := 2
def modeKanji : Nat := 3

def baseList : Array (Option Image) := ofGenList Gen.Micro.baseList
def usedList : Array (Option Image) := ofGenList Gen.Micro.usedList
def maskList : Array (Option Image) := ofGenList Gen.Micro.maskList

/-- `formatTable[version][level]` -/
def formatAt (v l : Int) : Out Int :=
  if v < 0 ∨ l < 0 then .panic "index out of range"
  else match Gen.Micro.formatTable[v.toNat]? with
    | none => .panic "index out of range"
    | some row => match row[l.toNat]? with
      | none => .panic "index out of range"
      | some f => .ok f

/-- width of the character-count indicator; `none` = mode not available in this version -/
def countBits (mode : Nat) (version : Int) : Option Nat :=
  if mode = modeNumeric then
    (if version = 1 then some 3 else if version = 2 then some 4 else if version = 3 then some 5 else if version = 4 then some 6 else none)
  else if mode = modeAlphanumeric then
    (if version = 2 then some 3 else if version = 3 then some 4 else if version = 4 then some 5 else none)
  else if mode = modeBytes then
    (if version = 3 then some 4 else if version = 4 then some 5 else none)
  else if mode = modeKanji then
    (if version = 3 then some 3 else if version = 4 then some 4 else none)
  else none

/-- width of the mode indicator -/
def modeBits (version : Int) : Nat :=
  if version = 2 then 1 else if version = 3 then 2 else if version = 4 then 3 else 0

/-- Go: `(*Segment).length(version) (int, bool)` -/
def segLength (s : Segment) (version : Int) : Option Nat :=
  match countBits s.mode version with
  | none => none
  | some cb =>
    let n := modeBits version + cb
    let len := s.data.length
    if s.mode = modeNumeric then
      some (n + 10 * (len / 3) + (if len % 3 = 1 then 4 else if len % 3 = 2 then 7 else 0))
    else if s.mode = modeAlphanumeric then
      some (n + 11 * (len / 2) + (if len % 2 ≠ 0 then 6 else 0))
    else if s.mode = modeBytes then some (n + len * 8)
    else some (n + Utf8.runeCount s.data * 13)

/-- Go: `(*Segment).encode(version, buf)` -/
def segEncode (s : Segment) (version : Int) (buf : Buffer) : Out Buffer :=
  if s.mode = modeNumeric ∨ s.mode = modeAlphanumeric ∨ s.mode = modeBytes ∨ s.mode = modeKanji then
    match countBits s.mode version with
    | none => .err "qrcode: invalid version"
    | some n =>
      let count := if s.mode = modeKanji then Utf8.runeCount s.data else s.data.length
      if count ≥ 2 ^ n then .err "qrcode: data is too long"
      else do
        let buf ← (if modeBits version > 0 then writeBitsLSB buf s.mode (modeBits version) else pure buf)
        let buf ← writeBitsLSB buf count n
        if s.mode = modeNumeric then encodeNumeric buf s.data
        else if s.mode = modeAlphanumeric then encodeAlphanumeric buf s.data
        else if s.mode = modeBytes then encodeBytes buf s.data
        else encodeKanji buf s.data
  else .err "qrcode: unknown mode"

/-- the pinned source writes `8 - Len%8` zero bits before the pad codewords, i.e. eight of them
when the terminator ended on a byte boundary; a repaired source aligns only when not aligned -/
def PAD_ALIGN_ALWAYS : Bool := false

/-- Go: `encodeSegments` (including the Reed-Solomon codewords, which this package appends here) -/
def encodeSegments (qr : QRCode) (buf : Buffer) : Out Buffer := do
  let mut buf := buf
  for s in qr.segments do
    buf ← segEncode s qr.version buf
  let cap ← capAt Gen.Micro.capacityTable qr.version qr.level
  if buf.len > cap.dataBits then Out.err (α := Unit) "qrcode: data too large"
  let mut left := cap.dataBits - buf.len
  let terminate : Nat := if qr.version = 1 then 3 else if qr.version = 2 then 5 else if qr.version = 3 then 7 else if qr.version = 4 then 9 else 0
  if terminate < left then left := terminate
  buf ← writeBitsLSB buf 0 left
  if buf.len < cap.dataBits then
    if PAD_ALIGN_ALWAYS || buf.len % 8 ≠ 0 then
      buf ← writeBitsLSB buf 0 (8 - buf.len % 8 : Nat)
    let npad := (cap.dataBits - buf.len + 3) / 4
    for i in [0:npad] do
      if buf.len < cap.dataBits then
        buf ← writeBitsLSB buf (if i % 4 = 0 then 0b1110 else if i % 4 = 1 then 0b1100 else 0b0001) 4
  buf ← writeBitsLSB buf 0 ((cap.data * 8 : Nat) - (buf.len : Int))
  let n := cap.correction
  let (t, c) ← RS.new n
  let correction := RS.sum t (RS.write t c buf.buf.toList) []
  for b in correction do
    buf ← writeBitsLSB buf b 8
  pure buf

structure MWalk where
  x : Int
  y : Int
  dy : Int
  readBits : Nat := 0

/-- skip `readBits` to the next multiple of 8, consuming bits (`buf.ReadBit()` with result ignored) -/
def skipToByte : (fuel : Nat) → Nat → Buffer → Nat × Buffer
  | 0, r, b => (r, b)
  | fuel + 1, r, b => if r % 8 ≠ 0 then skipToByte fuel (r + 1) (readBit b).1 else (r, b)

/-- the placement loop of `EncodeToBitmap` -/
def placeLoop (used : Image) (w : Int) (dataBits : Nat) : (fuel : Nat) → MWalk → Buffer → Image → Out Image
  | 0, _, _, _ => .panic "model: placement fuel exhausted (non-termination)"
  | fuel + 1, s, buf, img => do
    let u1 ← used.binaryAt s.x s.y
    let (rb, buf, img, stop) ← (if !u1 then
        match readBit buf with
        | (_, none) => pure (s.readBits + 1, buf, img, true)
        | (b', some bit) => do
          let img ← img.setBinary s.x s.y (bit != 0)
          pure (s.readBits + 1, b', img, false)
      else pure (s.readBits, buf, img, false) : Out (Nat × Buffer × Image × Bool))
    if stop then pure img
    else
      let x := s.x - 1
      if x < 0 then pure img
      else do
        let u2 ← used.binaryAt x s.y
        let (rb, buf, img, stop) ← (if !u2 then
            match readBit buf with
            | (_, none) => pure (rb + 1, buf, img, true)
            | (b', some bit) => do
              let img ← img.setBinary x s.y (bit != 0)
              pure (rb + 1, b', img, false)
          else pure (rb, buf, img, false) : Out (Nat × Buffer × Image × Bool))
        if stop then pure img
        else
          let x := x + 1
          let y := s.y + s.dy
          let (x, y, dy) := if y < 0 ∨ y > w then (x - 2, y + (-s.dy), -s.dy) else (x, y, s.dy)
          if x < 0 then pure img
          else
            let (rb, buf) := if rb = dataBits then skipToByte 8 rb buf else (rb, buf)
            placeLoop used w dataBits fuel { x, y, dy, readBits := rb } buf img

/-- the edge score of the symbol masked with pattern `i` -/
def maskScore (img used : Image) (i : Nat) : Out Nat := do
  let pat ← deref (← imgAt maskList i)
  let tmp ← Image.mask img used pat
  tmp.pointMicro

/-- the `MaskAuto` loop of `EncodeToBitmap`: the first pattern with the highest edge score -/
def autoMask (img used : Image) : Out Int := do
  let mut maxPoint : Int := -1
  let mut mask : Int := 0
  for i in [0:Gen.Micro.c_maskMax.toNat] do
    let point ← maskScore img used i
    if (point : Int) > maxPoint then
      maxPoint := point
      mask := i
  pure mask

/-- Go: `EncodeToBitmap` -/
def encodeToBitmap (qr : QRCode) : Out Image := do
  if qr.version < 1 ∨ qr.version > 4 then Out.err (α := Unit) "microqr: invalid version"
  if qr.level < 0 ∨ qr.level ≥ 4 then Out.err (α := Unit) "microqr: invalid level"
  let format ← formatAt qr.version qr.level
  if format < 0 then Out.err (α := Unit) "microqr: invalid version-level pair"
  if qr.mask ≠ Gen.Micro.c_maskAuto ∧ (qr.mask < 0 ∨ qr.mask ≥ Gen.Micro.c_maskMax) then
    Out.err (α := Unit) "microqr: invalid mask"
  let buf ← encodeSegments qr {}
  let w : Int := 8 + 2 * qr.version
  let img ← deref (← imgAt baseList qr.version)
  let used ← deref (← imgAt usedList qr.version)
  let cap ← capAt Gen.Micro.capacityTable qr.version qr.level
  let img ← placeLoop used w cap.dataBits ((w + 3) * (w + 3)).toNat { x := w, y := w, dy := -1 } buf img
  let mut mask := qr.mask
  if mask = Gen.Micro.c_maskAuto then
    mask ← autoMask img used
  -- `(format<<2)|int(mask)` on Go ints (two's complement)
  -- a negative mask makes the Go index negative (two's complement OR)
  if mask < 0 then Out.panic (α := Unit) "index out of range"
  let idx : Int := (((format * 4).toNat ||| mask.toNat : Nat) : Int)
  let encoded ← natAt Gen.Micro.encodedFormat idx
  let mut img := img
  for i in [0:8] do
    img ← img.setBinary 8 ((i : Int) + 1) ((encoded >>> i) &&& 1 != 0)
    img ← img.setBinary ((i : Int) + 1) 8 ((encoded >>> (14 - i)) &&& 1 != 0)
  let pat ← deref (← imgAt maskList mask)
  Image.mask img used pat

/-- Go: `decodeFormat(raw uint) (Version, Level, Mask, bool)` -/
def decodeFormat (raw : Nat) : Out (Option (Int × Int × Int)) := do
  let pc (n : Nat) : Nat := (List.range 64).foldl (fun c i => c + ((n >>> i) &&& 1)) 0
  let tbl := Gen.Micro.encodedFormat
  let init := (0, pc ((tbl[0]?.getD 0) ^^^ raw))
  let (idx, mn) := (List.range tbl.length).foldl (init := init) fun (idx, mn) i =>
    let c := pc ((tbl[i]?.getD 0) ^^^ raw)
    if c < mn then (i, c) else (idx, mn)
  if mn ≥ 3 then pure none
  else
    match Gen.Micro.rawFormatTable[idx >>> 2]? with
    | none => .panic "index out of range"
    | some (v, l) => pure (some (v, l, ((idx &&& 3 : Nat) : Int)))

/-- the reading loop of `DecodeBitmap` -/
def readLoop (used img : Image) (w : Int) (dataBits : Nat) : (fuel : Nat) → Walk → Buffer → Out Buffer
  | 0, _, _ => .panic "model: reading fuel exhausted (non-termination)"
  | fuel + 1, s, buf => do
    let u1 ← used.binaryAt s.x s.y
    let buf ← (if !u1 then do
        let c ← img.binaryAt s.x s.y
        writeBit buf (if c then 1 else 0)
      else pure buf : Out Buffer)
    let x := s.x - 1
    if x < 0 then pure buf
    else do
      let u2 ← used.binaryAt x s.y
      let buf ← (if !u2 then do
          let c ← img.binaryAt x s.y
          writeBit buf (if c then 1 else 0)
        else pure buf : Out Buffer)
      let x := x + 1
      let y := s.y + s.dy
      let (x, y, dy) := if y < 0 ∨ y > w then (x - 2, y + (-s.dy), -s.dy) else (x, y, s.dy)
      if x < 0 then pure buf
      else do
        let mut buf := buf
        if buf.len = dataBits then
          for _ in [0:8] do
            if buf.len % 8 ≠ 0 then buf ← writeBit buf 0
        readLoop used img w dataBits fuel { x, y, dy } buf

/-- Go: `decodeVersion1..4` as one function of the version -/
def segmentLoop (version : Int) : (fuel : Nat) → Buffer → Array Segment → Out (List Segment)
  | 0, _, _ => .panic "model: segment loop fuel exhausted (non-termination)"
  | fuel + 1, buf, acc => do
    let mb := modeBits version
    let (buf, modeO) ← (if mb = 0 then pure (buf, some modeNumeric) else readBits buf mb : Out (Buffer × Option Nat))
    match modeO with
    | none => pure acc.toList
    | some mode =>
      match countBits mode version with
      | none => .err "qrcode: unknown mode"
      | some cb => do
        let (buf, lenO) ← readBits buf cb
        match lenO with
        | none => pure acc.toList
        | some length =>
          if mode = modeNumeric ∧ length = 0 then pure acc.toList
          else do
            let (buf, data) ← (if mode = modeNumeric then decodeNumeric buf length
              else if mode = modeAlphanumeric then decodeAlphanumeric buf length
              else if mode = modeBytes then decodeBytes buf length
              else decodeKanji buf length)
            if version = 4 ∧ data.isEmpty then segmentLoop version fuel buf acc
            else segmentLoop version fuel buf (acc.push { mode, data })

/-- how many syndromes the decoder asks for: the number of error correction codewords -/
def RS_SYNDROMES (cap : Gen.GCap) : Int := cap.correction

/-- whether the decoder unmasks a private copy (repaired source) or the caller's pixels (pinned source) -/
def DECODE_CLONES : Bool := true

/-- Go: `DecodeBitmap`; also returns the caller's bitmap as it is after the call -/
def decodeBitmapFull (img0 : Image) : Out (QRCode × Image) := do
  let img : Image := { img0 with minX := 0, minY := 0, maxX := img0.dx, maxY := img0.dy }
  let mut raw : Nat := 0
  for i in [0:8] do
    if (← img.binaryAt 8 ((i : Int) + 1)) then raw := raw ||| (1 <<< i)
    if (← img.binaryAt ((i : Int) + 1) 8) then raw := raw ||| (1 <<< (14 - i))
  let some (version, level, mask) ← decodeFormat raw | .err "qr code not found"
  let w : Int := 8 + 2 * version
  if img.dx ≠ w + 1 ∨ img.dy ≠ w + 1 then Out.err (α := Unit) "microqr: image size does not match version"
  let usedO ← imgAt usedList version
  let pat ← deref (← imgAt maskList mask)
  let used ← deref usedO
  let binimg ← Image.mask img used pat
  let cap ← capAt Gen.Micro.capacityTable version level
  let buf ← readLoop used binimg w cap.dataBits ((w + 3) * (w + 3)).toNat { x := w, y := w, dy := -1 } {}
  let data ← RS.decode buf.buf.toList (RS_SYNDROMES cap)
  if data.length < cap.data then Out.panic (α := Unit) "slice bounds out of range"
  let stream : Buffer := { buf := (data.take cap.data).toArray }
  if version < 1 ∨ version > 4 then Out.panic (α := Unit) "invalid version"
  let segments ← segmentLoop version (cap.data * 8 + 8) stream #[]
  pure ({ version, level, mask, segments }, if DECODE_CLONES then img0 else { img0 with pix := binimg.pix })

def decodeBitmap (img : Image) : Out QRCode := do
  let (q, _) ← decodeBitmapFull img
  pure q

/-- Go: `calcVersion` -/
def calcVersion (level : Int) (segments : List Segment) : Out Int := do
  for vi in [1:5] do
    let version : Int := vi
    let f ← formatAt version level
    if f ≥ 0 then
      let cap ← capAt Gen.Micro.capacityTable version level
      let capacity := cap.dataBits
      let mut length := 0
      let mut over := false
      for s in segments do
        if !over then
          match segLength s version with
          | none => over := true
          | some l =>
            length := length + l
            if length > capacity then over := true
      if !over ∧ length ≤ capacity then return version
  return 0

/-- Go: `New(data, opts...)` reduced to level and the kanji switch -/
def new (level : Int) (kanji : Bool) (data : List Nat) : Out QRCode := do
  if level < 0 ∨ level ≥ 4 then Out.err (α := Unit) "qrcode: invalid level"
  if data.isEmpty then
    let version ← calcVersion level []
    return { version, level, mask := Gen.Micro.c_maskAuto, segments := [] }
  let segments ← (if kanji then New.newKanjiSegs [0, modeNumeric, modeAlphanumeric, modeBytes, modeKanji] data.toArray
    else pure (New.newQRSegs ((4 + 6) * 6) ((4 + 5) * 6) ((4 + 5) * 6) [0, modeNumeric, modeAlphanumeric, modeBytes] data.toArray))
  let version ← calcVersion level segments
  if version = 0 then Out.err (α := Unit) "microqr: data too large"
  pure { version, level, mask := Gen.Micro.c_maskAuto, segments }

end QRV.Model.Micro
