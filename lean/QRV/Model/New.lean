import QRV.Model.Sym
/-
Model of the mode-selection dynamic programmes `newQR` and `newFromKanji` (three textual copies in
/repo: encode.go, microqr/encode.go, rmqr/encode.go; they differ only in the header costs of
`newQR` and in the mode numbers, which are parameters here).  Arrays are arrays, `inf` is the same
constant, the `states[i+j][kanji].cost = inf` overwrite and the `data == nil` test are kept.
-/
namespace QRV.Model.New
open QRV QRV.Model.Sym QRV.Model.Codec

/-- `math.MaxInt - 1<<18` -/
def inf : Nat := 2 ^ 63 - 1 - 2 ^ 18

structure St where
  cost : Nat := 0
  lastMode : Nat := 0
deriving Inhabited, Repr

/-- merge consecutive entries of equal mode -/
def mergeSegs (modeList : List Nat) (pieces : List (Nat × List Nat)) : List Segment :=
  pieces.foldl (init := []) fun segs (m, d) =>
    let mode := modeList[m]?.getD 0
    match segs.getLast? with
    | some last => if last.mode = mode then segs.dropLast ++ [{ last with data := last.data ++ d }]
                   else segs ++ [{ mode, data := d }]
    | none => [{ mode, data := d }]

/-- Go: the body of `newQR` for non-empty data, up to the segment list.
`hN hA hB` are the header costs `(indicator + count) * 6` of the three modes. -/
def newQRSegs (hN hA hB : Nat) (modeList : List Nat) (data : Array Nat) : List Segment := Id.run do
  let n := data.size
  let mut states : Array (Array St) := Array.replicate (n + 1) (Array.replicate 4 {})
  states := states.modify 0 fun r => ((r.set! 1 { cost := inf }).set! 2 { cost := inf }).set! 3 { cost := inf }
  for i in [0:n] do
    if i ≠ 0 then
      states := states.modify i fun r => r.modify 0 fun s => { s with cost := inf }
    let row := states[i]!
    let trans (self : Nat) (unit hdr : Nat) : St := Id.run do
      let mut minCost := inf
      let mut lastMode := 0
      for mode in [0:4] do
        let mut cost := (row[mode]!).cost + unit
        if mode ≠ self then cost := cost + hdr
        if cost < minCost then
          minCost := cost
          lastMode := mode
      pure { cost := minCost, lastMode }
    let ch := data[i]!
    let sN : St := if isNumeric ch then trans 1 20 hN else { cost := inf, lastMode := 0 }
    let sA : St := if isAlphanumeric ch then trans 2 33 hA else { cost := inf, lastMode := 0 }
    let sB : St := trans 3 48 hB
    states := states.modify (i + 1) fun r => ((r.set! 1 sN).set! 2 sA).set! 3 sB
  -- best path
  let last := states[n]!
  let mut minCost := (last[1]!).cost
  let mut bestMode := 1
  if (last[2]!).cost < minCost then
    minCost := (last[2]!).cost
    bestMode := 2
  if (last[3]!).cost < minCost then
    bestMode := 3
  let mut best : Array Nat := Array.replicate n 0
  best := best.set! (n - 1) bestMode
  for k in [0:n - 1] do
    let i := n - 1 - k
    bestMode := ((states[i + 1]!)[bestMode]!).lastMode
    best := best.set! (i - 1) bestMode
  pure (mergeSegs modeList ((List.range n).map fun i => (best[i]!, [data[i]!])))

structure StK where
  cost : Nat := 0
  lastMode : Nat := 0
  /-- `none` is a nil slice; `some (start, len)` is `data[start:start+len]` (or `[]byte{}` when len = 0) -/
  data : Option (Nat × Nat) := none
deriving Inhabited, Repr

/-- Go: the body of `newFromKanji` for non-empty data, up to the segment list (identical in the
three packages, including the QR header costs).  Fuel bounds the back-tracking loop, which has no
bound in the Go code. -/
def newKanjiSegs (modeList : List Nat) (data : Array Nat) : Out (List Segment) := do
  let n := data.size
  let mut states : Array (Array StK) := Array.replicate (n + 1) (Array.replicate 5 {})
  states := states.modify 0 fun r =>
    (((r.set! 1 { cost := inf }).set! 2 { cost := inf }).set! 3 { cost := inf }).set! 4 { cost := inf }
  for i in [0:n] do
    if i ≠ 0 then
      states := states.modify i fun r => r.modify 0 fun s => { s with cost := inf }
    let row := states[i]!
    let trans (self : Nat) (unit hdr : Nat) : Nat × Nat := Id.run do
      let mut minCost := (row[0]!).cost + hdr + unit
      let mut lastMode := 0
      for mode in [1:5] do
        let mut cost := (row[mode]!).cost + unit
        if mode ≠ self then cost := cost + hdr
        if cost < minCost then
          minCost := cost
          lastMode := mode
      pure (minCost, lastMode)
    let ch := data[i]!
    let one : Option (Nat × Nat) := some (i, 1)
    let emp : Option (Nat × Nat) := some (i, 0)
    let sN : StK := if isNumeric ch then let (c, l) := trans 1 20 ((4 + 14) * 6); { cost := c, lastMode := l, data := one }
                    else { cost := inf, lastMode := 0, data := emp }
    let sA : StK := if isAlphanumeric ch then let (c, l) := trans 2 33 ((4 + 13) * 6); { cost := c, lastMode := l, data := one }
                    else { cost := inf, lastMode := 0, data := emp }
    let sB : StK := let (c, l) := trans 3 48 ((4 + 16) * 6); { cost := c, lastMode := l, data := one }
    states := states.modify (i + 1) fun r => ((r.set! 1 sN).set! 2 sA).set! 3 sB
    -- kanji
    let (r, size) := Utf8.decodeRune (data.toList.drop i)
    if r ≠ Utf8.runeError ∧ isKanji r ∧ i + size < n + 1 then
      let (c, l) := trans 4 78 ((4 + 12) * 6)
      for j in [0:size] do
        states := states.modify (i + j) fun r => r.modify 4 fun s => { s with cost := inf }
      states := states.modify (i + size) fun r => r.set! 4 { cost := c, lastMode := l, data := some (i, size) }
    else if ((states[i + 1]!)[4]!).data.isNone then
      states := states.modify (i + 1) fun r => r.set! 4 { cost := inf, lastMode := 0, data := emp }
  -- best path
  let last := states[n]!
  let mut minCost := (last[1]!).cost
  let mut bestMode := 1
  for mode in [2:5] do
    if (last[mode]!).cost < minCost then
      minCost := (last[mode]!).cost
      bestMode := mode
  let slice (d : Option (Nat × Nat)) : List Nat :=
    match d with
    | none => []
    | some (s, l) => (data.toList.drop s).take l
  let dlen (d : Option (Nat × Nat)) : Nat := match d with | none => 0 | some (_, l) => l
  let mut best : Array (Nat × List Nat) := #[(bestMode, slice ((last[bestMode]!).data))]
  let mut i := n
  let mut fin := false
  for _ in [0:2 * n + 4] do
    if !fin then
      let st := (states[i]!)[bestMode]!
      let size := dlen st.data
      bestMode := st.lastMode
      if bestMode = 0 then fin := true
      else
        if size > i then Out.panic (α := Unit) "index out of range"
        i := i - size
        best := best.push (bestMode, slice (((states[i]!)[bestMode]!).data))
  if !fin then Out.panic (α := Unit) "model: back-tracking loop does not terminate"
  pure (mergeSegs modeList best.toList.reverse)

end QRV.Model.New
