import QRV.Model.Basic
import QRV.Gen.GF
/-
Model of /repo/internal/reedsolomon/element/element.go, function for function, over the
regenerated tables `Gen.GF.expPacked` / `Gen.GF.logPacked`.
Elements are `Nat`s below 256 (Go: `type Element uint8`).
-/
namespace QRV.Model.GF
open QRV

/-- `expTable[i]` for `i < 256` -/
@[inline] def expT (i : Nat) : Nat := (Gen.GF.expPacked >>> (8 * i)) &&& 0xFF
/-- `logTable[i]` for `i < 256` -/
@[inline] def logT (i : Nat) : Nat := (Gen.GF.logPacked >>> (16 * i)) &&& 0xFFFF

/-- Go: `func Add(x, y Element) Element { return x ^ y }` -/
@[inline] def add (x y : Nat) : Nat := x ^^^ y

/-- Go: `Mul` -/
def mul (x y : Nat) : Nat :=
  if x = 0 ∨ y = 0 then 0 else expT ((logT x + logT y) % 255)

/-- Go: `Log` (panics on zero) -/
def log (x : Nat) : Out Nat :=
  if x = 0 then .panic "element: log of zero" else .ok (logT x)

/-- Go's `%` truncates towards zero: the index `n % 255` is negative for negative `n`,
and indexing an array with a negative index panics. -/
def exp (n : Int) : Out Nat :=
  if n < 0 ∧ Int.tmod n 255 ≠ 0 then .panic "index out of range" else .ok (expT (Int.tmod n 255).toNat)

/-- Go: `Inv` (panics on zero) -/
def inv (x : Nat) : Out Nat :=
  if x = 0 then .panic "element: divided by zero" else .ok (expT (255 - logT x))

/-- total version used inside the RS model where the argument is known to be non-zero -/
def inv' (x : Nat) : Nat := expT (255 - logT x)

/-- Go: `AddMulExp(x, y, z) = Add(x, expTable[(y+z)%255])` -/
def addMulExp (x : Nat) (y z : Int) : Out Nat :=
  let i := Int.tmod (y + z) 255
  if i < 0 then .panic "index out of range" else .ok (add x (expT i.toNat))

/-- the same for the natural-number arguments the coders use -/
@[inline] def addMulExpN (x y z : Nat) : Nat := add x (expT ((y + z) % 255))

end QRV.Model.GF
