import QRV.Model.Basic
import QRV.GenTypes
/-
Model of /repo/internal/bitmap/binary.go, function for function: `Pix` bytes, `Stride`, `Rect`
with the literal offset arithmetic (including the double subtraction of `Rect.Min` in `Mask`),
out-of-bounds reads white, out-of-bounds writes ignored, slice index errors as `Out.panic`.
-/
namespace QRV.Model.Bitmap
open QRV

structure Image where
  pix : Array Nat := #[]
  stride : Int := 0
  minX : Int := 0
  minY : Int := 0
  maxX : Int := 0
  maxY : Int := 0
deriving Repr, Inhabited, DecidableEq

namespace Image

def dx (i : Image) : Int := i.maxX - i.minX
def dy (i : Image) : Int := i.maxY - i.minY

/-- Go: `image.Point{x,y}.In(r)` -/
def inRect (i : Image) (x y : Int) : Bool :=
  i.minX ≤ x && x < i.maxX && i.minY ≤ y && y < i.maxY

def rectEmpty (i : Image) : Bool := i.minX ≥ i.maxX || i.minY ≥ i.maxY

/-- Go: `image.Rectangle.Eq`: equal, or both empty -/
def rectEq (a b : Image) : Bool :=
  (a.minX == b.minX && a.minY == b.minY && a.maxX == b.maxX && a.maxY == b.maxY) ||
  (a.rectEmpty && b.rectEmpty)

/-- Go: `bitmap.New(r)` for a canonical rectangle -/
def new (minX minY maxX maxY : Int) : Image :=
  let stride := (maxX - minX + 7).tdiv 8
  { pix := Array.replicate ((maxY - minY) * stride).toNat 0, stride, minX, minY, maxX, maxY }

/-- slice read with Go's bounds check -/
@[inline] def pixAt (p : Array Nat) (off : Int) : Out Nat :=
  if off < 0 then .panic "index out of range"
  else match p[off.toNat]? with
    | some v => .ok v
    | none => .panic "index out of range"

@[inline] def pixSet (p : Array Nat) (off : Int) (v : Nat) : Out (Array Nat) :=
  if off < 0 then .panic "index out of range"
  else if h : off.toNat < p.size then .ok (p.set off.toNat v h)
  else .panic "index out of range"

/-- Go: `BinaryAt` -/
def binaryAt (i : Image) (x y : Int) : Out Bool :=
  if !i.inRect x y then .ok false
  else do
    let off := (y - i.minY) * i.stride + (x - i.minX).tdiv 8
    let shift := 7 - (x - i.minX).tmod 8
    let b ← pixAt i.pix off
    pure ((b >>> shift.toNat) &&& 1 != 0)

/-- Go: `SetBinary` -/
def setBinary (i : Image) (x y : Int) (c : Bool) : Out Image :=
  if !i.inRect x y then .ok i
  else do
    let off := (y - i.minY) * i.stride + (x - i.minX).tdiv 8
    let shift := (x - i.minX).tmod 8
    let mask := 0x80 >>> shift.toNat
    let b ← pixAt i.pix off
    let p ← pixSet i.pix off (if c then b ||| mask else b &&& (255 - mask))
    pure { i with pix := p }

/-- Go: `XorBinary` -/
def xorBinary (i : Image) (x y : Int) (c : Bool) : Out Image :=
  if !i.inRect x y then .ok i
  else do
    let off := (y - i.minY) * i.stride + (x - i.minX).tdiv 8
    let shift := (x - i.minX).tmod 8
    let mask := 0x80 >>> shift.toNat
    let b ← pixAt i.pix off
    if c then do
      let p ← pixSet i.pix off (b ^^^ mask)
      pure { i with pix := p }
    else pure i

/-- Go: `Clone` -/
def clone (i : Image) : Image := i

/-- `byte(int(0xFF00 >> (dx % 8)))` -/
def edgeMask (dx : Int) : Nat := (0xFF00 >>> (dx.tmod 8).toNat) % 256

/-- one step of the inner loops of `Mask`: `img.Pix[offset] ^= ^mask.Pix[offset] & pattern.Pix[offsetPattern] (& edge)` -/
def maskByte (img used pattern : Image) (x y : Int) (edge : Nat) : Out Image := do
  let off := (y - img.minY) * img.stride + (x - img.minX).tdiv 8
  let offP := (y - pattern.minY) * pattern.stride + (x - pattern.minX).tdiv 8
  let cur ← pixAt img.pix off
  let m ← pixAt used.pix off
  let p ← pixAt pattern.pix offP
  let v := cur ^^^ ((255 - m) &&& p &&& edge)
  let pix ← pixSet img.pix off v
  pure { img with pix := pix }

def maskRow (img used pattern : Image) (y : Int) (dxFull : Int) (edge : Nat) : Out Image := do
  let mut im := img
  for k in [0:(dxFull.tdiv 8).toNat] do
    im ← maskByte im used pattern (8 * (k : Int)) y 0xFF
  if edge != 0 then
    im ← maskByte im used pattern dxFull y edge
  pure im

/-- Go: `img.Mask(in, mask, pattern)`; the receiver's previous contents are irrelevant (`Copy`). -/
def mask (inp used pattern : Image) : Out Image :=
  if !inp.rectEq used then .panic "binimage: in and mask must have same bounds"
  else do
    let mut im := inp
    let dx := im.dx
    let dy := im.dy
    -- Go's `%` on a negative dx yields a negative shift count: run-time panic
    if dx.tmod 8 < 0 then .panic "negative shift amount"
    else
      let edge := edgeMask dx
      let dxFull := dx - dx.tmod 8
      for y in [0:dy.toNat] do
        im ← maskRow im used pattern (y : Int) dxFull edge
      pure im

def popcount8 (b : Nat) : Nat :=
  (b &&& 1) + ((b >>> 1) &&& 1) + ((b >>> 2) &&& 1) + ((b >>> 3) &&& 1) +
  ((b >>> 4) &&& 1) + ((b >>> 5) &&& 1) + ((b >>> 6) &&& 1) + ((b >>> 7) &&& 1)

/-- Go: `OnesCount` -/
def onesCount (i : Image) : Out Nat := do
  let dx := i.dx
  let dy := i.dy
  if dx.tmod 8 < 0 then .panic "negative shift amount"
  else
    let length := dx.tdiv 8
    let m := edgeMask dx
    let mut cnt := 0
    for y in [0:dy.toNat] do
      for x in [0:length.toNat] do
        let b ← pixAt i.pix ((y : Int) * i.stride + (x : Int))
        cnt := cnt + popcount8 b
      if m != 0 then
        let b ← pixAt i.pix ((y : Int) * i.stride + length)
        cnt := cnt + popcount8 (b &&& m)
    pure cnt

/-- Go: `PointMicro` -/
def pointMicro (i : Image) : Out Nat := do
  let mut sum1 := 0
  let mut sum2 := 0
  for k in [0:(i.maxX - (i.minX + 1)).toNat] do
    if (← i.binaryAt (i.minX + 1 + k) (i.maxY - 1)) then sum1 := sum1 + 1
  for k in [0:(i.maxY - (i.minY + 1)).toNat] do
    if (← i.binaryAt (i.maxX - 1) (i.minY + 1 + k)) then sum2 := sum2 + 1
  if sum1 > sum2 then pure (sum2 * 16 + sum1) else pure (sum1 * 16 + sum2)

/-- Go: `longRunLengthCount` (rule N1): runs of five or more in every row and column,
a run ending at the border included -/
def longRunLengthCount (i : Image) : Out Nat := do
  let score (length : Nat) : Nat := if length ≥ 5 then length - 5 + 3 else 0
  let mut cnt : Nat := 0
  for yy in [0:(i.maxY - i.minY).toNat] do
    let y := i.minY + yy
    let mut length : Nat := 0
    let mut c0 := false
    for xx in [0:(i.maxX - i.minX).toNat] do
      let x := i.minX + xx
      let c ← i.binaryAt x y
      if length > 0 && c == c0 then length := length + 1
      else
        cnt := cnt + score length
        c0 := c
        length := 1
    cnt := cnt + score length
  for xx in [0:(i.maxX - i.minX).toNat] do
    let x := i.minX + xx
    let mut length : Nat := 0
    let mut c0 := false
    for yy in [0:(i.maxY - i.minY).toNat] do
      let y := i.minY + yy
      let c ← i.binaryAt x y
      if length > 0 && c == c0 then length := length + 1
      else
        cnt := cnt + score length
        c0 := c
        length := 1
    cnt := cnt + score length
  pure cnt

/-- Go: `blockCount` (coordinates passed as `BinaryAt(y, x)`) -/
def blockCount (i : Image) : Out Nat := do
  let mut cnt : Nat := 0
  for yy in [0:(i.maxY - 1 - i.minY).toNat] do
    let y := i.minY + yy
    for xx in [0:(i.maxX - 1 - i.minX).toNat] do
      let x := i.minX + xx
      let c1 ← i.binaryAt y x
      let c2 ← i.binaryAt y (x + 1)
      let c3 ← i.binaryAt (y + 1) x
      let c4 ← i.binaryAt (y + 1) (x + 1)
      if c1 == c2 && c1 == c3 && c1 == c4 then cnt := cnt + 1
  pure (cnt * 3)

/-- Go: `finderPattern` (rule N3): the pattern 1011101 in a row or column, preceded or followed by
four light modules (modules outside the image are light), scores 40 per occurrence -/
def finderPattern (i : Image) : Out Nat := do
  let light4 (x y dx dy : Int) : Out Bool := do
    let mut ok := true
    for k in [0:4] do
      if (← i.binaryAt (x + (k : Int) * dx) (y + (k : Int) * dy)) then ok := false
    pure ok
  let pat (x y dx dy : Int) : Out Bool := do
    let c0 ← i.binaryAt x y
    let c1 ← i.binaryAt (x + dx) (y + dy)
    let c2 ← i.binaryAt (x + 2 * dx) (y + 2 * dy)
    let c3 ← i.binaryAt (x + 3 * dx) (y + 3 * dy)
    let c4 ← i.binaryAt (x + 4 * dx) (y + 4 * dy)
    let c5 ← i.binaryAt (x + 5 * dx) (y + 5 * dy)
    let c6 ← i.binaryAt (x + 6 * dx) (y + 6 * dy)
    pure (c0 && !c1 && c2 && c3 && c4 && !c5 && c6)
  let mut cnt : Nat := 0
  for yy in [0:(i.maxY - i.minY).toNat] do
    let y := i.minY + yy
    for xx in [0:(i.maxX - i.minX).toNat] do
      let x := i.minX + xx
      if x + 6 < i.maxX then
        if (← pat x y 1 0) then
          if (← light4 (x - 4) y 1 0) || (← light4 (x + 7) y 1 0) then cnt := cnt + 1
      if y + 6 < i.maxY then
        if (← pat x y 0 1) then
          if (← light4 x (y - 4) 0 1) || (← light4 x (y + 7) 0 1) then cnt := cnt + 1
  pure (cnt * 40)

/-- Go: `pointOnesCount`, in IEEE double arithmetic as the Go code -/
def pointOnesCount (i : Image) : Out Nat := do
  let total := i.dx * i.dy
  let cnt ← i.onesCount
  let p := Float.ofNat cnt / Float.ofInt total - 0.5
  let p := if p < 0 then -p else p
  pure ((p * 20).floor.toUInt64.toNat * 10)

/-- Go: `Point` (operands evaluated left to right) -/
def point (i : Image) : Out Nat := do
  let a ← i.finderPattern
  let b ← i.longRunLengthCount
  let c ← i.blockCount
  let d ← i.pointOnesCount
  pure (a + b + c + d)

/-- conversion of a generated table entry to an image -/
def ofGen (g : Gen.GBmp) : Image :=
  let bytes := g.rows.foldl (init := (#[] : Array Nat)) fun acc r =>
    (List.range g.stride).foldl (init := acc) fun acc j => acc.push ((r >>> (8 * (g.stride - 1 - j))) % 256)
  { pix := bytes, stride := g.stride, minX := g.minX, minY := g.minY, maxX := g.maxX, maxY := g.maxY }

/-- hex rows for the line protocol: `x0,y0,x1,y1,stride:hexpix` -/
def hexDigit (n : Nat) : Char := if n < 10 then Char.ofNat (48 + n) else Char.ofNat (87 + n)
def hexBytes (a : Array Nat) : String :=
  String.ofList (a.foldr (init := []) fun b acc => hexDigit (b / 16) :: hexDigit (b % 16) :: acc)
def render (i : Image) : String :=
  s!"{i.minX},{i.minY},{i.maxX},{i.maxY},{i.stride}:{hexBytes i.pix}"

end Image
end QRV.Model.Bitmap
