import QRV.Model.Bits
import QRV.Model.Utf8
import QRV.Gen.Kanji
/-
Model of /repo/internal/bitstream/encode.go and decode.go over `Model.Bits.Buffer`.
-/
namespace QRV.Model.Codec
open QRV QRV.Model.Bits QRV.Model.Utf8

def isNumeric (ch : Nat) : Bool := 48 ≤ ch && ch ≤ 57

/-- `alphabets[ch]` with -1 → none -/
def alnumIdx (ch : Nat) : Option Nat :=
  match Gen.Kanji.alnumIdx[ch]? with
  | some 255 => none
  | some v => some v
  | none => none

def isAlphanumeric (ch : Nat) : Bool := (alnumIdx ch).isSome

/-- 16-bit entry of a packed table -/
@[inline] def entry16 (packed : Nat) (i : Nat) : Nat := (packed >>> (16 * i)) &&& 0xFFFF

/-- Go: `encodeKanji(r rune) (uint64, bool)` -/
def encodeKanjiRune (r : Nat) : Option Nat :=
  open Gen.Kanji in
  let look (packed low : Nat) : Option Nat :=
    let c := entry16 packed (r - low)
    if c ≥ 0x8000 then none else some c   -- int16 code < 0
  if enc0Low ≤ r ∧ r ≤ enc0High then look enc0Packed enc0Low
  else if enc1Low ≤ r ∧ r ≤ enc1High then look enc1Packed enc1Low
  else if enc2Low ≤ r ∧ r ≤ enc2High then look enc2Packed enc2Low
  else if enc3Low ≤ r ∧ r ≤ enc3High then look enc3Packed enc3Low
  else if enc4Low ≤ r ∧ r ≤ enc4High then look enc4Packed enc4Low
  else none

def isKanji (r : Nat) : Bool := (encodeKanjiRune r).isSome

/-- `decode[bits]` -/
def decodeKanjiCode (code : Nat) : Option Nat :=
  if code < Gen.Kanji.decLen then some (entry16 Gen.Kanji.decPacked code) else none

/-- write that cannot fail for these widths, kept in `Out` for uniformity with the model -/
@[inline] def wr (b : Buffer) (v n : Nat) : Out Buffer := writeBitsLSB b v n

/-- Go: `EncodeNumeric` -/
def encodeNumeric (buf : Buffer) (data : List Nat) : Out Buffer :=
  if data.any (fun ch => !isNumeric ch) then .err "invalid character in number mode"
  else
    let rec go (buf : Buffer) : List Nat → Out Buffer
      | a :: b :: c :: rest => do
        let buf ← wr buf ((a - 48) * 100 + (b - 48) * 10 + (c - 48)) 10
        go buf rest
      | [a] => wr buf (a - 48) 4
      | [a, b] => wr buf ((a - 48) * 10 + (b - 48)) 7
      | [] => .ok buf
    go buf data

/-- Go: `EncodeAlphanumeric` -/
def encodeAlphanumeric (buf : Buffer) (data : List Nat) : Out Buffer :=
  if data.any (fun ch => !isAlphanumeric ch) then .err "invalid character in alphabet mode"
  else
    let rec go (buf : Buffer) : List Nat → Out Buffer
      | a :: b :: rest => do
        let buf ← wr buf ((alnumIdx a).getD 0 * 45 + (alnumIdx b).getD 0) 11
        go buf rest
      | [a] => wr buf ((alnumIdx a).getD 0) 6
      | [] => .ok buf
    go buf data

/-- Go: `EncodeBytes` -/
def encodeBytes (buf : Buffer) : List Nat → Out Buffer
  | [] => .ok buf
  | a :: rest => do
    let buf ← wr buf a 8
    encodeBytes buf rest

/-- Go: `EncodeKanji` (bits already written stay in the buffer when a later rune is rejected;
every caller discards the buffer on error) -/
def encodeKanji (buf : Buffer) (data : List Nat) : Out Buffer :=
  let rec go (buf : Buffer) : List Nat → Out Buffer
    | [] => .ok buf
    | r :: rest =>
      match encodeKanjiRune r with
      | none => .err "invalid character in kanji mode"
      | some code => do
        let buf ← wr buf code 13
        go buf rest
  go buf (runes data)

/-- `buf.ReadBits(n)` with EOF as an error, as the decoders use it -/
def rd (b : Buffer) (n : Nat) : Out (Buffer × Nat) := do
  let (b', r) ← readBits b n
  match r with
  | none => .err "EOF"
  | some v => pure (b', v)

/-- Go: `DecodeNumeric(buf, data)` where only `len(data)` matters on entry; returns the filled slice -/
def decodeNumeric (buf : Buffer) (length : Nat) : Out (Buffer × List Nat) :=
  let rec go (buf : Buffer) (acc : Array Nat) : (remaining : Nat) → Out (Buffer × List Nat)
    | 0 => .ok (buf, acc.toList)
    | 1 => do
      let (buf, bits) ← rd buf 4
      if bits ≥ 10 then .err "invalid digit" else pure (buf, (acc.push (bits + 48)).toList)
    | 2 => do
      let (buf, bits) ← rd buf 7
      if bits ≥ 100 then .err "invalid digit"
      else pure (buf, ((acc.push (bits / 10 + 48)).push (bits % 10 + 48)).toList)
    | n + 3 => do
      let (buf, bits) ← rd buf 10
      if bits ≥ 1000 then .err "invalid digit"
      else go buf (((acc.push (bits / 100 + 48)).push (bits / 10 % 10 + 48)).push (bits % 10 + 48)) n
  go buf #[] length

def alnumChar (i : Nat) : Nat := Gen.Kanji.bitToAlnum[i]?.getD 0

/-- Go: `DecodeAlphanumeric` -/
def decodeAlphanumeric (buf : Buffer) (length : Nat) : Out (Buffer × List Nat) :=
  let rec go (buf : Buffer) (acc : Array Nat) : (remaining : Nat) → Out (Buffer × List Nat)
    | 0 => .ok (buf, acc.toList)
    | 1 => do
      let (buf, bits) ← rd buf 6
      if bits ≥ 45 then .err "invalid digit" else pure (buf, (acc.push (alnumChar bits)).toList)
    | n + 2 => do
      let (buf, bits) ← rd buf 11
      let n1 := bits / 45
      let n2 := bits % 45
      if n1 ≥ 45 then .err "invalid digit"
      else go buf ((acc.push (alnumChar n1)).push (alnumChar n2)) n
  go buf #[] length

/-- Go: `DecodeBytes` -/
def decodeBytes (buf : Buffer) (length : Nat) : Out (Buffer × List Nat) :=
  let rec go (buf : Buffer) (acc : Array Nat) : (remaining : Nat) → Out (Buffer × List Nat)
    | 0 => .ok (buf, acc.toList)
    | n + 1 => do
      let (buf, bits) ← rd buf 8
      go buf (acc.push bits) n
  go buf #[] length

/-- the repaired source rejects a table entry of 0 (unassigned code); the pinned source writes U+0000 -/
def KANJI_REJECTS_UNASSIGNED : Bool := true

/-- Go: `DecodeKanji(buf, length)` -/
def decodeKanji (buf : Buffer) (length : Nat) : Out (Buffer × List Nat) :=
  let rec go (buf : Buffer) (acc : Array Nat) : (remaining : Nat) → Out (Buffer × List Nat)
    | 0 => .ok (buf, acc.toList)
    | n + 1 => do
      let (buf, bits) ← rd buf 13
      match decodeKanjiCode bits with
      | none => .err "invalid kanji code"
      | some r =>
        if KANJI_REJECTS_UNASSIGNED && r == 0 then .err "invalid kanji code"
        else go buf ((encodeRune r).foldl Array.push acc) n
  go buf #[] length

end QRV.Model.Codec
