/-
Outcomes shared by the model and the harness: a Go call returns a value, returns an error,
or panics.  Error text is recorded but never compared.
-/
namespace QRV

inductive Out (α : Type) where
  | ok (a : α)
  | err (msg : String)
  | panic (msg : String)
deriving Repr, Inhabited, DecidableEq

namespace Out

@[inline] def bind {α β} (x : Out α) (f : α → Out β) : Out β :=
  match x with
  | .ok a => f a
  | .err m => .err m
  | .panic m => .panic m

instance : Monad Out where
  pure := Out.ok
  bind := Out.bind

def isOk {α} : Out α → Bool | .ok _ => true | _ => false
def isErr {α} : Out α → Bool | .err _ => true | _ => false
def isPanic {α} : Out α → Bool | .panic _ => true | _ => false

/-- canonical rendering for the line protocol: `ok <v>` / `err` / `panic` -/
def render {α} (f : α → String) : Out α → String
  | .ok a => "ok " ++ f a
  | .err _ => "err"
  | .panic _ => "panic"

@[simp] theorem bind_ok {α β} (a : α) (f : α → Out β) : (Out.ok a >>= f) = f a := rfl
@[simp] theorem bind_err {α β} (m : String) (f : α → Out β) : (Out.err m >>= f) = Out.err m := rfl
@[simp] theorem bind_panic {α β} (m : String) (f : α → Out β) : (Out.panic m >>= f) = Out.panic m := rfl

end Out
end QRV
