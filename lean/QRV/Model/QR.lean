import QRV.Model.Sym
import QRV.Model.New
import QRV.Gen.QR
/-
Model of /repo/encode.go, /repo/decode.go and /repo/qrcode.go (package qrcode), function for
function, over the regenerated tables `Gen.QR.*`.
-/
namespace QRV.Model.QR
open QRV QRV.Model.Bits QRV.Model.Bitmap QRV.Model.Sym QRV.Model.Codec

def modeNumeric : Nat := 1
def modeAlphanumeric : Nat := 2
def modeBytes : Nat := 4
def modeKanji : Nat := 8
def modeTerminated : Nat := 0

def baseList : Array (Option Image) := ofGenList Gen.QR.baseList
def usedList : Array (Option Image) := ofGenList Gen.QR.usedList
def maskList : Array (Option Image) := ofGenList Gen.QR.maskList

def versionIsValid (v : Int) : Bool := Gen.QR.c_versionMin ≤ v && v < Gen.QR.c_versionMax
def levelIsValid (l : Int) : Bool := Gen.QR.c_levelMin ≤ l && l < Gen.QR.c_levelMax
def maskIsValid (m : Int) : Bool := m == Gen.QR.c_maskAuto || (Gen.QR.c_maskMin ≤ m && m < Gen.QR.c_maskMax)

/-- the version switch of the count-indicator width; `none` = "invalid version" -/
def countBits (mode : Nat) (version : Int) : Option Nat :=
  if version ≤ 0 ∨ version > 40 then none
  else if mode = modeNumeric then some (if version < 10 then 10 else if version < 27 then 12 else 14)
  else if mode = modeAlphanumeric then some (if version < 10 then 9 else if version < 27 then 11 else 13)
  else if mode = modeBytes then some (if version < 10 then 8 else 16)
  else some (if version < 10 then 8 else if version < 27 then 10 else 12)

/-- Go: `(*Segment).length(version)`; panics for a bad version or an unknown mode -/
def segLength (s : Segment) (version : Int) : Out Nat :=
  if s.mode = modeNumeric ∨ s.mode = modeAlphanumeric ∨ s.mode = modeBytes ∨ s.mode = modeKanji then
    match countBits s.mode version with
    | none => .panic "qrcode: invalid version"
    | some cb =>
      let n := 4 + cb
      let len := s.data.length
      if s.mode = modeNumeric then
        .ok (n + 10 * (len / 3) + (if len % 3 = 1 then 4 else if len % 3 = 2 then 7 else 0))
      else if s.mode = modeAlphanumeric then
        .ok (n + 11 * (len / 2) + (if len % 2 ≠ 0 then 6 else 0))
      else if s.mode = modeBytes then .ok (n + len * 8)
      else .ok (n + Utf8.runeCount s.data * 13)
  else .panic "qrcode: unknown mode"

/-- Go: `(*Segment).encode(version, buf)` with its four per-mode functions -/
def segEncode (s : Segment) (version : Int) (buf : Buffer) : Out Buffer :=
  if s.mode = modeNumeric ∨ s.mode = modeAlphanumeric ∨ s.mode = modeBytes ∨ s.mode = modeKanji then
    match countBits s.mode version with
    | none => .err "qrcode: invalid version"
    | some n =>
      let count := if s.mode = modeKanji then Utf8.runeCount s.data else s.data.length
      if count ≥ 2 ^ n then .err "qrcode: data is too long"
      else do
        let buf ← writeBitsLSB buf s.mode 4
        let buf ← writeBitsLSB buf count n
        if s.mode = modeNumeric then encodeNumeric buf s.data
        else if s.mode = modeAlphanumeric then encodeAlphanumeric buf s.data
        else if s.mode = modeBytes then encodeBytes buf s.data
        else encodeKanji buf s.data
  else .err "qrcode: unknown mode"

/-- Go: `encodeSegments` -/
def encodeSegments (qr : QRCode) (buf : Buffer) : Out Buffer := do
  let mut buf := buf
  for s in qr.segments do
    buf ← segEncode s qr.version buf
  let l := buf.len
  let cap ← capAt Gen.QR.capacityTable qr.version qr.level
  if l > cap.data * 8 then Out.err (α := Unit) "qrcode: data is too large"
  if cap.data * 8 - l > 4 then
    buf ← writeBitsLSB buf modeTerminated 4
  if buf.len % 8 ≠ 0 then
    buf ← writeBitsLSB buf 0 (8 - buf.len % 8 : Nat)
  -- add padding
  let npad := (cap.data * 8 - buf.len + 7) / 8
  for i in [0:npad] do
    if buf.len < cap.data * 8 then
      buf ← writeBitsLSB buf (if i % 2 = 0 then 0b11101100 else 0b00010001) 8
  pure buf

/-- Go: `encodeToBits` -/
def encodeToBits (qr : QRCode) (ret : Buffer) : Out Buffer := do
  let buf ← encodeSegments qr {}
  let cap ← capAt Gen.QR.capacityTable qr.version qr.level
  let blocks ← splitBlocks cap.blocks buf.buf.toList
  interleave blocks ret

def skipTimingPattern (n : Int) : Int := if n < Gen.QR.c_timingPatternOffset then n else n + 1

/-- the placement loop of `EncodeToBitmap` (one Go loop iteration per step) -/
def placeLoop (used : Image) (w : Int) : (fuel : Nat) → Walk → Buffer → Image → Out Image
  | 0, _, _, _ => .panic "model: placement fuel exhausted (non-termination)"
  | fuel + 1, s, buf, img =>
    if s.x = Gen.QR.c_timingPatternOffset then placeLoop used w fuel { s with x := s.x - 1 } buf img
    else do
      -- first module of the pair
      let u1 ← used.binaryAt s.x s.y
      let (buf, img, stop) ← (if !u1 then
          match readBit buf with
          | (_, none) => pure (buf, img, true)
          | (b', some bit) => do
            let img ← img.setBinary s.x s.y (bit != 0)
            pure (b', img, false)
        else pure (buf, img, false) : Out (Buffer × Image × Bool))
      if stop then pure img
      else
        let x := s.x - 1
        if x < 0 then pure img
        else do
          let u2 ← used.binaryAt x s.y
          let (buf, img, stop) ← (if !u2 then
              match readBit buf with
              | (_, none) => pure (buf, img, true)
              | (b', some bit) => do
                let img ← img.setBinary x s.y (bit != 0)
                pure (b', img, false)
            else pure (buf, img, false) : Out (Buffer × Image × Bool))
          if stop then pure img
          else
            let x := x + 1
            let y := s.y + s.dy
            let (x, y, dy) := if y < 0 ∨ y > w then (x - 2, y + (-s.dy), -s.dy) else (x, y, s.dy)
            if x < 0 then pure img
            else placeLoop used w fuel { x, y, dy } buf img

/-- write the 15 format bits (both copies) and the dark module -/
def placeFormat (img : Image) (w : Int) (format : Nat) : Out Image := do
  let mut img := img
  for i in [0:8] do
    let i' : Int := i
    img ← img.setBinary 8 (skipTimingPattern i') ((format >>> i) &&& 1 != 0)
    img ← img.setBinary (skipTimingPattern i') 8 ((format >>> (14 - i)) &&& 1 != 0)
    img ← img.setBinary (w - i') 8 ((format >>> i) &&& 1 != 0)
    img ← img.setBinary 8 (w - i') ((format >>> (14 - i)) &&& 1 != 0)
  img.setBinary 8 (w - 7) true

/-- which behaviour the automatic mask loop has: the pinned source starts `minPoint` at 0 (so no
candidate is ever strictly better); a repaired source starts from the first candidate's score. -/
def AUTO_MASK_INIT_ZERO : Bool := false

/-- Go: `EncodeToBitmap` -/
def encodeToBitmap (qr : QRCode) : Out Image := do
  if !versionIsValid qr.version then Out.err (α := Unit) "qrcode: invalid version"
  if !levelIsValid qr.level then Out.err (α := Unit) "qrcode: invalid level"
  if qr.version = 0 then Out.err (α := Unit) "qrcode: invalid version"
  if !maskIsValid qr.mask then Out.err (α := Unit) "qrcode: invalid mask"
  let buf ← encodeToBits qr {}
  let w : Int := 16 + 4 * qr.version
  let img ← deref (← imgAt baseList qr.version)
  let usedO ← imgAt usedList qr.version
  -- `used` is only dereferenced by BinaryAt: a nil image would panic there
  let used ← deref usedO
  let img ← placeLoop used w ((w + 3) * (w + 3)).toNat { x := w, y := w, dy := -1 } buf img
  -- version
  let mut img := img
  if qr.version ≥ 7 then
    let version ← natAt Gen.QR.encodedVersion qr.version
    for i in [0:18] do
      let bit := (version >>> i) &&& 1 != 0
      img ← img.setBinary ((i / 3 : Nat) : Int) (w - 10 + ((i % 3 : Nat) : Int)) bit
      img ← img.setBinary (w - 10 + ((i % 3 : Nat) : Int)) ((i / 3 : Nat) : Int) bit
  -- mask
  let mut mask := qr.mask
  if mask = Gen.QR.c_maskAuto then
    let mut minPoint : Nat := 0
    let mut first := true
    mask := 0
    for i in [0:Gen.QR.c_maskMax.toNat] do
      let pat ← deref (← imgAt maskList i)
      let tmp ← Image.mask img used pat
      let format ← natAt Gen.QR.encodedFormat (qr.level * 8 + i)
      let tmp ← placeFormat tmp w format
      let point ← tmp.point
      if (!AUTO_MASK_INIT_ZERO && first) || point < minPoint then
        minPoint := point
        mask := i
      first := false
  -- format
  let format ← natAt Gen.QR.encodedFormat (qr.level * 8 + mask)
  img ← placeFormat img w format
  let pat ← deref (← imgAt maskList mask)
  Image.mask img used pat

/-- Go: `decodeFormat0` -/
def decodeFormat0 (raw : Nat) : Option (Int × Int) :=
  let pc (n : Nat) : Nat := (List.range 64).foldl (fun c i => c + ((n >>> i) &&& 1)) 0
  let tbl := Gen.QR.encodedFormat
  let init := (0, pc ((tbl[0]?.getD 0) ^^^ raw))
  let (idx, mn) := (List.range tbl.length).foldl (init := init) fun (idx, mn) i =>
    let c := pc ((tbl[i]?.getD 0) ^^^ raw)
    if c < mn then (i, c) else (idx, mn)
  if mn ≥ 3 then none else some ((idx >>> 3 : Nat), (idx &&& 7 : Nat))

/-- which module feeds bit 7 of the second copy: the pinned source ORs in the dark module -/
def FORMAT2_READS_DARK_MODULE : Bool := false

/-- Go: `decodeFormat` -/
def decodeFormat (img : Image) : Out (Int × Int) := do
  let w := img.dx - 1
  let mut raw1 : Nat := 0
  let mut raw2 : Nat := 0
  for i in [0:8] do
    let i' : Int := i
    if (← img.binaryAt 8 (skipTimingPattern i')) then raw1 := raw1 ||| (1 <<< i)
    if (← img.binaryAt (skipTimingPattern i') 8) then raw1 := raw1 ||| (1 <<< (14 - i))
    if (← img.binaryAt (w - i') 8) then raw2 := raw2 ||| (1 <<< i)
    if FORMAT2_READS_DARK_MODULE || i < 7 then
      if (← img.binaryAt 8 (w - i')) then raw2 := raw2 ||| (1 <<< (14 - i))
  match decodeFormat0 raw1 with
  | some r => pure r
  | none =>
    match decodeFormat0 raw2 with
    | some r => pure r
    | none => .err "qrcode: QRCode not found"

/-- the reading loop of `DecodeBitmap` -/
def readLoop (used img : Image) (w : Int) : (fuel : Nat) → Walk → Buffer → Out Buffer
  | 0, _, _ => .panic "model: reading fuel exhausted (non-termination)"
  | fuel + 1, s, buf =>
    if s.x = Gen.QR.c_timingPatternOffset then readLoop used img w fuel { s with x := s.x - 1 } buf
    else do
      let u1 ← used.binaryAt s.x s.y
      let buf ← (if !u1 then do
          let c ← img.binaryAt s.x s.y
          writeBit buf (if c then 1 else 0)
        else pure buf : Out Buffer)
      let x := s.x - 1
      if x < 0 then pure buf
      else do
        let u2 ← used.binaryAt x s.y
        let buf ← (if !u2 then do
            let c ← img.binaryAt x s.y
            writeBit buf (if c then 1 else 0)
          else pure buf : Out Buffer)
        let x := x + 1
        let y := s.y + s.dy
        let (x, y, dy) := if y < 0 ∨ y > w then (x - 2, y + (-s.dy), -s.dy) else (x, y, s.dy)
        if x < 0 then pure buf
        else readLoop used img w fuel { x, y, dy } buf

/-- Go: the four `decodeNumber/Alphanumeric/Bytes/Kanji(version, buf)` -/
def decodeSegment (mode : Nat) (version : Int) (buf : Buffer) : Out (Buffer × Segment) :=
  match countBits mode version with
  | none => .err "qrcode: invalid version"
  | some n => do
    let (buf, length) ← rd buf n
    let (buf, data) ← (if mode = modeNumeric then decodeNumeric buf length
      else if mode = modeAlphanumeric then decodeAlphanumeric buf length
      else if mode = modeBytes then decodeBytes buf length
      else decodeKanji buf length)
    pure (buf, { mode, data })

/-- the segment loop of `DecodeBitmap` -/
def segmentLoop (version : Int) : (fuel : Nat) → Buffer → Array Segment → Out (List Segment)
  | 0, _, _ => .panic "model: segment loop fuel exhausted (non-termination)"
  | fuel + 1, buf, acc => do
    let (buf, r) ← readBits buf 4
    match r with
    | none => pure acc.toList
    | some mode =>
      if mode = modeNumeric ∨ mode = modeAlphanumeric ∨ mode = modeBytes ∨ mode = modeKanji then do
        let (buf, seg) ← decodeSegment mode version buf
        segmentLoop version fuel buf (acc.push seg)
      else if mode = modeTerminated then pure acc.toList
      else segmentLoop version fuel buf acc

/-- how many syndromes the decoder asks for: the block's parity length -/
def RS_SYNDROMES (parity : Nat) : Int := parity

/-- the decoders work on `Import(img)` with the rectangle moved to the origin: same pixels -/
def normalise (img : Image) : Image :=
  { img with minX := 0, minY := 0, maxX := img.dx, maxY := img.dy }

/-- whether the decoder unmasks a private copy (repaired source) or the caller's pixels (pinned source) -/
def DECODE_CLONES : Bool := true

/-- Go: `DecodeBitmap`; also returns the caller's bitmap as it is after the call -/
def decodeBitmapFull (img : Image) : Out (QRCode × Image) := do
  if img.dx ≠ img.dy ∨ img.dx < 21 ∨ img.dx > 177 ∨ (img.dx - 17).tmod 4 ≠ 0 then
    Out.err (α := Unit) "qrcode: invalid image size"
  let version : Int := (img.dx - 17).tdiv 4
  let binimg0 := normalise img
  let (level, mask) ← decodeFormat binimg0
  let w : Int := 16 + 4 * version
  let usedO ← imgAt usedList version
  let pat ← deref (← imgAt maskList mask)
  let used ← deref usedO
  -- `binimg.Mask(binimg, used, ...)`: binimg shares Pix with the caller's image unless cloned
  let binimg ← Image.mask binimg0 used pat
  let buf ← readLoop used binimg w ((w + 3) * (w + 3)).toNat { x := w, y := w, dy := -1 } {}
  let cap ← capAt Gen.QR.capacityTable version level
  let blocks ← deinterleave cap.blocks cap.data cap.total buf.buf.toList
  let mut result : Array Nat := #[]
  for blk in blocks do
    let data := blk.1 ++ blk.2
    let data ← RS.decode data (RS_SYNDROMES blk.2.length)
    result := result ++ (data.take blk.1.length).toArray
  let stream : Buffer := { buf := result }
  let segments ← segmentLoop version (result.size * 8 + 8) stream #[]
  pure ({ version, level, mask, segments }, if DECODE_CLONES then img else { img with pix := binimg.pix })

def decodeBitmap (img : Image) : Out QRCode := do
  let (q, _) ← decodeBitmapFull img
  pure q

/-- Go: `calcVersion` -/
def calcVersion (level : Int) (segments : List Segment) : Out Int := do
  if !levelIsValid level then return 0
  for vi in [1:41] do
    let version : Int := vi
    let cap ← capAt Gen.QR.capacityTable version level
    let capacity := cap.data * 8
    let mut length := 0
    let mut over := false
    for s in segments do
      if !over then
        let l ← segLength s version
        length := length + l
        if length > capacity then over := true
    if !over ∧ length ≤ capacity then return version
  return 0

/-- the repaired source retries a payload as ONE byte-mode segment when the kanji-aware mode selection
(whose cost model rounds per segment) produced segments that fit no version; the pinned source gives up -/
def NEW_KANJI_BYTE_FALLBACK : Bool := true

/-- Go: `New(data, opts...)` reduced to the options that matter: level and the kanji switch -/
def new (level : Int) (kanji : Bool) (data : List Nat) : Out QRCode := do
  if !levelIsValid level then Out.err (α := Unit) "qrcode: invalid level"
  if data.isEmpty then return { version := 1, level, mask := Gen.QR.c_maskAuto, segments := [] }
  let segments ← (if kanji then New.newKanjiSegs [0, modeNumeric, modeAlphanumeric, modeBytes, modeKanji] data.toArray
    else pure (New.newQRSegs ((4 + 14) * 6) ((4 + 13) * 6) ((4 + 16) * 6) [0, modeNumeric, modeAlphanumeric, modeBytes] data.toArray))
  let version ← calcVersion level segments
  if version = 0 ∧ kanji ∧ NEW_KANJI_BYTE_FALLBACK then
    let segments : List Segment := [{ mode := modeBytes, data := data }]
    let version ← calcVersion level segments
    if version = 0 then Out.err (α := Unit) "qrcode: data too large"
    pure { version, level, mask := Gen.QR.c_maskAuto, segments }
  else
    if version = 0 then Out.err (α := Unit) "qrcode: data too large"
    pure { version, level, mask := Gen.QR.c_maskAuto, segments }

end QRV.Model.QR
